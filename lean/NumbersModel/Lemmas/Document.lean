/-
C02 — lemmas for Model/Document.lean: the document-level save / load cycle composed from the component theorems
  * Lemmas/DocTree.lean      `tableIds_perm`, `getObj_perm`, `serialise_perm`, `load_objects` (the tree reads the same after reload)
  * Lemmas/TablePipeline.lean `load_save_rel`, `reread_valid` (the grid reads the same, and is again a grid that can be saved)
  * Lemmas/Merge.lean         `get_load_pack`, `genGet_of_mem`, `genGet_none_iff` (the merge map reads the same)
-/
import NumbersModel.Model.Document
import NumbersModel.Lemmas.DocTree
import NumbersModel.Lemmas.TablePipeline
import NumbersModel.Lemmas.Merge
namespace NumbersModel.Document
open NumbersModel NumbersModel.Layout NumbersModel.CellRecord NumbersModel.TablePipeline NumbersModel.Merge

/-! ### the merge map as a keyed list -/

def mkeys (m : MMap) : List Key := m.map Prod.fst

theorem mkeys_set (m : MMap) (k : Key) (v : MRef) :
    mkeys (m.set k v) = if k ∈ mkeys m then mkeys m else mkeys m ++ [k] := by
  induction m with
  | nil => simp [MMap.set, mkeys]
  | cons p rest ih =>
    obtain ⟨k', v'⟩ := p
    by_cases h : k' = k
    · subst h; simp [MMap.set, mkeys]
    · have h' : ¬ k = k' := fun e => h e.symm
      simp only [mkeys, MMap.set, if_neg h, List.map_cons, List.mem_cons, h', false_or] at ih ⊢
      rw [ih]
      split <;> simp [*]

theorem nodup_set (m : MMap) (k : Key) (v : MRef) (h : (mkeys m).Nodup) : (mkeys (m.set k v)).Nodup := by
  rw [mkeys_set]
  split
  · exact h
  · rename_i hk
    rw [List.nodup_append]
    refine ⟨h, by simp, ?_⟩
    intro a ha b hb
    simp only [List.mem_singleton] at hb
    subst hb
    intro e; subst e; exact hk ha

theorem pureRange_inv {σ} (P : σ → Prop) (f : Int → σ → σ) (hf : ∀ i s, P s → P (f i s)) :
    ∀ (n : Nat) (i : Int) (s : σ), P s → P (pureRange f n i s) := by
  intro n
  induction n with
  | zero => intro i s h; exact h
  | succ n ih => intro i s h; exact ih (i + 1) (f i s) (hf i s h)

theorem nodup_loadRange (m : MMap) (p : Nat × Nat) (h : (mkeys m).Nodup) : (mkeys (loadRange m p)).Nodup := by
  unfold loadRange
  apply nodup_set
  apply pureRange_inv (fun m => (mkeys m).Nodup) _ _ _ _ _ h
  intro row m hm
  apply pureRange_inv (fun m => (mkeys m).Nodup) _ _ _ _ _ hm
  intro col m hm
  exact nodup_set _ _ _ hm

theorem nodup_loadRanges (packed : List (Nat × Nat)) : (mkeys (loadRanges packed)).Nodup := by
  unfold loadRanges
  have : ∀ (l : List (Nat × Nat)) (m0 : MMap), (mkeys m0).Nodup → (mkeys (l.foldl loadRange m0)).Nodup := by
    intro l
    induction l with
    | nil => intro m0 h; exact h
    | cons p rest ih => intro m0 h; exact ih _ (nodup_loadRange m0 p h)
  exact this packed [] (by simp [mkeys])

theorem mem_of_get (m : MMap) (k : Key) (v : MRef) (h : m.get k = some v) : (k, v) ∈ m := by
  induction m with
  | nil => simp [MMap.get] at h
  | cons p rest ih =>
    obtain ⟨k', v'⟩ := p
    simp only [MMap.get] at h
    by_cases e : k' = k
    · subst e; simp at h; subst h; simp
    · rw [if_neg e] at h; exact List.mem_cons_of_mem _ (ih h)

theorem get_of_mem (m : MMap) (hn : (mkeys m).Nodup) (k : Key) (v : MRef) (h : (k, v) ∈ m) : m.get k = some v := by
  induction m with
  | nil => cases h
  | cons p rest ih =>
    obtain ⟨k', v'⟩ := p
    simp only [mkeys, List.map_cons, List.nodup_cons] at hn
    rcases List.mem_cons.mp h with e | hm
    · injection e with e1 e2; subst e1; subst e2; simp [MMap.get]
    · have hne : k' ≠ k := by
        intro e; subst e
        exact hn.1 (List.mem_map.mpr ⟨(k', v), hm, rfl⟩)
      simp only [MMap.get, if_neg hne]
      exact ih hn.2 hm

theorem mem_anchorsOf (m : MMap) (a : Key × (Int × Int)) :
    a ∈ anchorsOf m ↔ (a.1, MRef.anchor a.2.1 a.2.2) ∈ m := by
  induction m with
  | nil => simp [anchorsOf]
  | cons p rest ih =>
    obtain ⟨k, v⟩ := p
    obtain ⟨ak, ah, aw⟩ := a
    cases v with
    | anchor h w =>
      simp only [anchorsOf, List.mem_cons, ih, Prod.mk.injEq, MRef.anchor.injEq]
    | ref r0 c0 r1 c1 =>
      simp only [anchorsOf, List.mem_cons, ih, Prod.mk.injEq, reduceCtorEq, and_false, false_or]

theorem anchor_iff_get (m : MMap) (hn : (mkeys m).Nodup) (a : Key × (Int × Int)) :
    a ∈ anchorsOf m ↔ m.get a.1 = some (.anchor a.2.1 a.2.2) := by
  rw [mem_anchorsOf]
  exact ⟨get_of_mem m hn _ _, mem_of_get m _ _⟩

theorem anchor_keys_inj (m : MMap) (hn : (mkeys m).Nodup) (a b : Key × (Int × Int))
    (ha : a ∈ anchorsOf m) (hb : b ∈ anchorsOf m) (h : a.1 = b.1) : a = b := by
  have h1 := (anchor_iff_get m hn a).mp ha
  have h2 := (anchor_iff_get m hn b).mp hb
  rw [h, h2] at h1
  injection h1 with h1
  injection h1 with e1 e2
  obtain ⟨ak, ah, aw⟩ := a
  obtain ⟨bk, bh, bw⟩ := b
  simp only at h e1 e2
  subst h; subst e1; subst e2; rfl

theorem nodup_anchorsOf (m : MMap) (hn : (mkeys m).Nodup) : (anchorsOf m).Nodup := by
  induction m with
  | nil => simp [anchorsOf]
  | cons p rest ih =>
    obtain ⟨k, v⟩ := p
    simp only [mkeys, List.map_cons, List.nodup_cons] at hn
    cases v with
    | ref r0 c0 r1 c1 => simpa [anchorsOf] using ih hn.2
    | anchor h w =>
      simp only [anchorsOf, List.nodup_cons]
      refine ⟨?_, ih hn.2⟩
      intro hm
      have := (mem_anchorsOf rest (k, (h, w))).mp hm
      exact hn.1 (List.mem_map.mpr ⟨_, this, rfl⟩)

/-- the merge state `Opened` asks for (Lemmas/Merge.lean `Consistent`, the part a save / load cycle needs, in a form that
    does not depend on the order of the dict): keys listed once, anchors fit the 16-bit packing, the rectangles of two
    different anchors do not overlap, and the map is the one its anchors' rectangles generate. -/
structure MergeOK (m : MMap) : Prop where
  nodup : (mkeys m).Nodup
  fits : ∀ a ∈ anchorsOf m, AnchorFits a
  disj : ∀ a ∈ anchorsOf m, ∀ b ∈ anchorsOf m, a.1 ≠ b.1 → Rct.Disjoint (rectOf a) (rectOf b)
  mapOK : ∀ k, m.get k = genGet (rectsOf m) k

theorem MergeOK.pairwise {m : MMap} (h : MergeOK m) : ((anchorsOf m).map rectOf).Pairwise Rct.Disjoint := by
  rw [List.pairwise_map]
  apply List.Nodup.pairwise_of_forall_ne (nodup_anchorsOf m h.nodup)
  intro a ha b hb hne
  exact h.disj a ha b hb (fun e => hne (anchor_keys_inj m h.nodup a b ha hb e))

theorem mergeOK_nil : MergeOK [] :=
  ⟨by simp [mkeys], by simp [anchorsOf], by simp [anchorsOf], fun k => by simp [MMap.get, genGet, rectsOf, anchorsOf]⟩

/-- packing the anchors and loading them again gives a map that reads the same at every key … -/
theorem merge_cycle_get (m : MMap) (h : MergeOK m) :
    ∃ packed, packRanges (anchorsOf m) = .ok packed ∧ ∀ k, (loadRanges packed).get k = m.get k := by
  obtain ⟨packed, hp, hget⟩ := get_load_pack (anchorsOf m) h.fits h.pairwise
  refine ⟨packed, hp, ?_⟩
  intro k
  rw [loadRanges, hget [] k, h.mapOK]
  unfold genGet rectsOf
  cases (List.map rectOf (anchorsOf m)).find? (fun q => q.has k) <;> rfl

/-- … and is again a merge state a save can take -/
theorem mergeOK_of_get (m m' : MMap) (h : MergeOK m) (hn : (mkeys m').Nodup) (hget : ∀ k, m'.get k = m.get k) :
    MergeOK m' := by
  have hmem : ∀ a, a ∈ anchorsOf m' ↔ a ∈ anchorsOf m := by
    intro a
    rw [anchor_iff_get m' hn, anchor_iff_get m h.nodup, hget]
  have hfits : ∀ a ∈ anchorsOf m', AnchorFits a := fun a ha => h.fits a ((hmem a).mp ha)
  have hdisj : ∀ a ∈ anchorsOf m', ∀ b ∈ anchorsOf m', a.1 ≠ b.1 → Rct.Disjoint (rectOf a) (rectOf b) :=
    fun a ha b hb hne => h.disj a ((hmem a).mp ha) b ((hmem b).mp hb) hne
  have hpw' : ((anchorsOf m').map rectOf).Pairwise Rct.Disjoint := by
    rw [List.pairwise_map]
    apply List.Nodup.pairwise_of_forall_ne (nodup_anchorsOf m' hn)
    intro a ha b hb hne
    exact hdisj a ha b hb (fun e => hne (anchor_keys_inj m' hn a b ha hb e))
  have hrm : ∀ q, q ∈ rectsOf m' ↔ q ∈ rectsOf m := by
    intro q
    simp only [rectsOf, List.mem_map]
    constructor
    · rintro ⟨a, ha, rfl⟩; exact ⟨a, (hmem a).mp ha, rfl⟩
    · rintro ⟨a, ha, rfl⟩; exact ⟨a, (hmem a).mpr ha, rfl⟩
  refine ⟨hn, hfits, hdisj, ?_⟩
  intro k
  rw [hget, h.mapOK]
  cases hg : genGet (rectsOf m) k with
  | none =>
    symm
    rw [genGet_none_iff] at hg ⊢
    intro p hp
    exact hg p ((hrm p).mp hp)
  | some e =>
    unfold genGet at hg
    cases hf : (rectsOf m).find? (fun q => q.has k) with
    | none => rw [hf] at hg; cases hg
    | some q =>
      rw [hf] at hg
      have hq : q ∈ rectsOf m := List.mem_of_find?_eq_some hf
      have hk : q.has k = true := by simpa using List.find?_some hf
      injection hg with hg
      rw [← hg]
      symm
      exact genGet_of_mem (rectsOf m') hpw' q ((hrm q).mpr hq) k hk

theorem isRef_congr (m m' : MMap) (hget : ∀ k, m'.get k = m.get k) : isRef m' = isRef m := by
  funext r c
  simp only [isRef, hget]

/-! ### cells -/

/-- the accessors' view of a cell, from what `Table.__init__` rebuilds for its record -/
def viewOfCore : Option Core → CellView
  | none => ⟨.merged, [], [], {}⟩
  | some k => ⟨TablePipeline.kindOfD k.kind, ((k.d128.orElse fun _ => k.double).orElse fun _ => k.seconds).getD [],
               k.text.getD [], k.ids⟩

theorem cellView_core (c : TCell) (hv : ValidCell c) : cellView c = viewOfCore (coreL (viewT c)) := by
  rcases hv with hm | ⟨he, _⟩
  · simp [cellView, viewT, viewK, hm, coreL, viewOfCore]
  · unfold EncodableT Encodable at he
    unfold viewT viewK
    cases hk : c.kind <;>
      simp_all [cellView, coreL, viewOfCore, view, toCell, TablePipeline.kindOfD, dkindOf, Option.orElse]

theorem validCell_not_other (c : TCell) (hv : ValidCell c) : c.kind ≠ .other := by
  rcases hv with hm | ⟨he, _⟩
  · rw [hm]; decide
  · intro hk
    unfold EncodableT Encodable at he
    simp [toCell, hk] at he

theorem views_of_core (g g' : List (List TCell))
    (hv : ∀ row ∈ g, ∀ c ∈ row, ValidCell c) (hv' : ∀ row ∈ g', ∀ c ∈ row, ValidCell c)
    (h : g'.map (·.map (coreL ∘ viewT)) = g.map (·.map (coreL ∘ viewT))) :
    g'.map (·.map cellView) = g.map (·.map cellView) := by
  have e1 : g.map (·.map cellView) = (g.map (·.map (coreL ∘ viewT))).map (·.map viewOfCore) := by
    rw [List.map_map]
    apply List.map_congr_left
    intro row hrow
    simp only [Function.comp, List.map_map]
    apply List.map_congr_left
    intro c hc
    exact cellView_core c (hv row hrow c hc)
  have e2 : g'.map (·.map cellView) = (g'.map (·.map (coreL ∘ viewT))).map (·.map viewOfCore) := by
    rw [List.map_map]
    apply List.map_congr_left
    intro row hrow
    simp only [Function.comp, List.map_map]
    apply List.map_congr_left
    intro c hc
    exact cellView_core c (hv' row hrow c hc)
  rw [e1, e2, h]

/-! ### one table -/

/-- a table of an OPEN document that is not a pivot table: the hypotheses of C01 `table_roundtrip` on the grid (non-empty,
    rectangular, within the library's limits, every cell but a formula-error cell has a payload of its class's width and
    int32 ids), placeholders exactly where the merge map has a reference (`MergeAgrees`), and a merge map in the form
    `Table.merge_cells` / `calculate_merge_cell_ranges` leave it (`MergeOK`) -/
structure LiveOpened (t : TableSt) : Prop where
  ne : t.grid ≠ []
  rect : ∃ w, Rect t.grid w ∧ w ≤ Gen.MAX_COL_COUNT
  rows : t.grid.length ≤ Gen.MAX_ROW_COUNT
  cells : ∀ row ∈ t.grid, ∀ c ∈ row, c.kind ≠ .other → ValidCell c
  agrees : MergeAgrees (isRef t.mmap) t.grid
  merge : MergeOK t.mmap

/-- a pivot table of an open document is what `Table.__init__` read from its stored objects -/
def TableOpened (t : TableSt) : Prop :=
  match t.pivot with
  | none => LiveOpened t
  | some s => loadLive s = .ok { t with pivot := none }

/-- no formula-error cell (`ErrorCell`: "cannot write") in a table that a save rewrites -/
def TableWritable (t : TableSt) : Prop :=
  t.pivot = none → ∀ row ∈ t.grid, ∀ c ∈ row, c.kind ≠ .other

theorem lists_eq (t : TableSt) (g : List (List TCell)) (m : MMap) (hget : ∀ k, m.get k = t.mmap.get k) :
    TableSt.lists ⟨g, m, t.formulas, t.formats, t.rich, none⟩ = t.lists := by
  simp only [TableSt.lists]
  congr 1
  funext k
  exact hget k

theorem table_cycle (t : TableSt) (hO : TableOpened t) (hW : TableWritable t) :
    ∃ s t', saveTableSt t = .ok s ∧ loadTableSt t.pivot.isSome s = .ok t' ∧
      TableOpened t' ∧ TableWritable t' ∧ t'.pivot.isSome = t.pivot.isSome ∧
      ∀ env tid, obsTable env tid t' = obsTable env tid t := by
  cases hp : t.pivot with
  | some s =>
    unfold TableOpened at hO
    rw [hp] at hO
    simp only at hO
    refine ⟨s, t, by simp [saveTableSt, hp], ?_, ?_, hW, by simp [hp], fun _ _ => rfl⟩
    · simp only [loadTableSt, hO, Option.isSome_some, bind, Except.bind, pure, Except.pure, if_true]
      congr 1
      cases t
      simp_all
    · unfold TableOpened; rw [hp]; exact hO
  | none =>
    unfold TableOpened at hO
    rw [hp] at hO
    simp only at hO
    obtain ⟨w, hrect, hw⟩ := hO.rect
    have hvalid : ∀ row ∈ t.grid, ∀ c ∈ row, ValidCell c :=
      fun row hrow c hc => hO.cells row hrow c hc (hW hp row hrow c hc)
    obtain ⟨s, g, hs, hg, _, _, _, hall⟩ :=
      load_save_rel (isRef t.mmap) t.grid w hO.ne hrect hw hO.rows hvalid hO.agrees
    obtain ⟨a1, a2, a3, a4, a5, a6⟩ := reread_valid (isRef t.mmap) t.grid w hO.ne hrect hvalid hO.agrees g hall
    obtain ⟨packed, hpk, hget⟩ := merge_cycle_get t.mmap hO.merge
    have href := isRef_congr t.mmap (loadRanges packed) hget
    have hmok := mergeOK_of_get t.mmap (loadRanges packed) hO.merge (nodup_loadRanges packed) hget
    refine ⟨{ table := s, ranges := packed, formulas := t.formulas, formats := t.formats, rich := t.rich },
      { grid := g.map (·.map recell), mmap := loadRanges packed, formulas := t.formulas, formats := t.formats,
        rich := t.rich }, ?_, ?_, ?_, ?_, by simp, ?_⟩
    · simp [saveTableSt, hp, hs, hpk, bind, Except.bind, pure, Except.pure]
    · simp [loadTableSt, loadLive, href, hg, bind, Except.bind, pure, Except.pure]
    · show LiveOpened _
      exact ⟨a1, ⟨w, a2, hw⟩, by rw [a3]; exact hO.rows, fun row hrow c hc _ => a4 row hrow c hc,
        by rw [href]; exact a5, hmok⟩
    · intro _ row hrow c hc
      exact validCell_not_other c (a4 row hrow c hc)
    · intro env tid
      have hv := views_of_core t.grid (g.map (·.map recell)) hvalid a4 a6
      simp only [obsTable, hp, Option.isSome_none, Bool.false_eq_true, if_false, hv]
      rw [lists_eq t _ _ hget]

/-! ### the tree -/

/-- the part of Lemmas/DocTreeOps.lean `Valid` the names / order theorems use, plus `FilesMatch` (the archive segments of the
    members are the store's objects, each once) -/
structure TreeOK (d : DocTree.Doc) : Prop where
  nodup : (dictKeys d.objects).Nodup
  listed : DocTree.Listed d.objects
  files : (DocTree.fileIds d.files).Perm (dictKeys d.objects)

open DocTree in
theorem listed_perm (os os' : Objects) (hp : os'.Perm os) (hn : (dictKeys os).Nodup) (hl : Listed os) : Listed os' := by
  intro k p tm c h x y hm
  obtain ⟨nm, dr, hg, hk⟩ := hl k p tm c h x y (hp.subset hm)
  exact ⟨nm, dr, by rw [dictGet?_perm os os' hp hn]; exact hg, hk⟩

open DocTree in
theorem reload_tree (d : DocTree.Doc) (h : TreeOK d) :
    (load (serialise d)).objects.Perm d.objects ∧ TreeOK (load (serialise d)) := by
  have hp := serialise_perm d h.nodup h.files
  have hn : ((flatArchives (serialise d)).map Prod.fst).Nodup := (List.Perm.map Prod.fst hp).nodup_iff.mpr h.nodup
  have ho := load_objects (serialise d) hn
  refine ⟨by rw [ho]; exact hp, ⟨by rw [ho]; exact hn, listed_perm _ _ (by rw [ho]; exact hp) h.nodup h.listed, ?_⟩⟩
  rw [ho]
  have : fileIds (load (serialise d)).files = dictKeys (flatArchives (serialise d)) := by
    simp only [load, fileIds, flatArchives, dictKeys]
    induction serialise d with
    | nil => rfl
    | cons m ms ih =>
      obtain ⟨nm, seg⟩ := m
      cases seg with
      | none => simpa using ih
      | some as =>
        simp only [List.map_cons, List.filterMap_cons, Option.map_some, List.flatten_cons, List.map_append]
        rw [ih]
  rw [this]

/-! ### `mapM'` -/

open DocTree in
theorem mapM'_congr {α β} (f g : α → PyM β) : ∀ (l : List α), (∀ a ∈ l, f a = g a) → mapM' f l = mapM' g l := by
  intro l
  induction l with
  | nil => intro _; rfl
  | cons a r ih =>
    intro h
    simp only [mapM']
    rw [h a (by simp), ih (fun x hx => h x (List.mem_cons_of_mem _ hx))]

open DocTree in
theorem mapM'_ok {α β} (f : α → PyM β) : ∀ (l : List α) (bs : List β), mapM' f l = .ok bs →
    List.Forall₂ (fun a b => f a = .ok b) l bs := by
  intro l
  induction l with
  | nil => intro bs h; simp only [mapM'] at h; injection h with h; subst h; exact .nil
  | cons a r ih =>
    intro bs h
    simp only [mapM', bind, Except.bind] at h
    cases hfa : f a with
    | error e => rw [hfa] at h; cases h
    | ok b =>
      rw [hfa] at h
      simp only at h
      cases hr : mapM' f r with
      | error e => rw [hr] at h; cases h
      | ok bs' =>
        rw [hr] at h
        simp only at h
        injection h with h
        subst h
        exact .cons hfa (ih bs' hr)

open DocTree in
theorem mapM'_total {α β} (f : α → PyM β) : ∀ (l : List α), (∀ a ∈ l, ∃ b, f a = .ok b) →
    ∃ bs, mapM' f l = .ok bs := by
  intro l
  induction l with
  | nil => intro _; exact ⟨[], rfl⟩
  | cons a r ih =>
    intro h
    obtain ⟨b, hb⟩ := h a (by simp)
    obtain ⟨bs, hbs⟩ := ih (fun x hx => h x (List.mem_cons_of_mem _ hx))
    exact ⟨b :: bs, by simp [mapM', hb, hbs, bind, Except.bind]⟩

theorem forall₂_mem_left {α β} {R : α → β → Prop} : ∀ {l : List α} {xs : List β}, List.Forall₂ R l xs →
    ∀ a ∈ l, ∃ x ∈ xs, R a x
  | _, _, .nil, a, h => by cases h
  | _, _, .cons hr ht, a, h => by
    rcases List.mem_cons.mp h with rfl | h
    · exact ⟨_, by simp, hr⟩
    · obtain ⟨x, hx, hax⟩ := forall₂_mem_left ht a h
      exact ⟨x, List.mem_cons_of_mem _ hx, hax⟩

/-- a keyed list built by `mapM'` over its keys reads back, under each key, what the body computed for that key -/
theorem dictGet?_built {β} (G : Nat → PyM (Nat × β)) (hG : ∀ a x, G a = .ok x → x.1 = a) :
    ∀ {l : List Nat} {xs : List (Nat × β)}, List.Forall₂ (fun a x => G a = .ok x) l xs →
    ∀ a ∈ l, ∃ y, dictGet? xs a = some y ∧ G a = .ok (a, y)
  | _, _, .nil, a, h => by cases h
  | _, _, @List.Forall₂.cons _ _ _ a0 x0 l0 xs0 hr ht, a, h => by
    obtain ⟨k, y⟩ := x0
    have hk : k = a0 := hG a0 _ hr
    subst hk
    by_cases e : k = a
    · subst e
      exact ⟨y, by simp [dictGet?], hr⟩
    · have hm : a ∈ l0 := by
        rcases List.mem_cons.mp h with e' | h'
        · exact absurd e'.symm e
        · exact h'
      obtain ⟨y', h1, h2⟩ := dictGet?_built G hG ht a hm
      exact ⟨y', by simp [dictGet?, e, h1], h2⟩

/-! ### the document -/

/-- **Opened**: what a document that `Document(path)` returned satisfies (`opened_after_load`) and what the component
    theorems need:
    * `tree` — identifiers distinct, every table info listed by its sheet, the members' archive segments are the store's
      objects (DocTree `order_after_reload` / `serialise_perm`);
    * `tables` — the tables the sheets reach exist, and each is `TableOpened`: C01 `table_roundtrip`'s hypotheses on the
      grid, `MergeAgrees`, C12's consistency of the merge map (`MergeOK`). -/
structure Opened (d : Doc) : Prop where
  tree : TreeOK d.tree
  tables : ∃ tids, allTableIds d.tree.objects = .ok tids ∧
    ∀ tid ∈ tids, ∃ t, dictGet? d.tables tid = some t ∧ TableOpened t

/-- **Writable**: no table that a save rewrites holds a formula-error cell (pivot tables are not rewritten) -/
def Writable (d : Doc) : Prop :=
  ∀ tids, allTableIds d.tree.objects = .ok tids → ∀ tid ∈ tids, ∀ t, dictGet? d.tables tid = some t → TableWritable t

open DocTree in
theorem readers_perm (os os' : Objects) (hp : os'.Perm os) (hn : (dictKeys os).Nodup) (hl : Listed os) :
    sheetIds os' = sheetIds os ∧ sheetName os' = sheetName os ∧
    (∀ s, tableIds os' (some s) = tableIds os (some s)) ∧ tableName os' = tableName os ∧
    allTableIds os' = allTableIds os := by
  have h1 : sheetIds os' = sheetIds os := by simp only [sheetIds, getObj_perm os os' hp hn]
  have h2 : sheetName os' = sheetName os := by funext s; simp only [sheetName, dictGet?_perm os os' hp hn]
  have h3 : ∀ s, tableIds os' (some s) = tableIds os (some s) := tableIds_perm os os' hp hn hl
  have h4 : tableName os' = tableName os := by funext s; simp only [tableName, getObj_perm os os' hp hn]
  refine ⟨h1, h2, h3, h4, ?_⟩
  simp only [allTableIds, h1, h3]

open DocTree in
theorem doc_cycle (d : Doc) (hO : Opened d) (hW : Writable d) :
    ∃ s d', saveDoc d = .ok s ∧ loadDoc s = .ok d' ∧ Opened d' ∧ Writable d' ∧ ∀ env, dump env d' = dump env d := by
  obtain ⟨tids, htids, htab⟩ := hO.tables
  -- per table
  have hcyc : ∀ tid ∈ tids, ∃ t s t', dictGet? d.tables tid = some t ∧ saveTableSt t = .ok s ∧
      loadTableSt t.pivot.isSome s = .ok t' ∧ TableOpened t' ∧ TableWritable t' ∧
      ∀ env tid', obsTable env tid' t' = obsTable env tid' t := by
    intro tid hm
    obtain ⟨t, ht, hto⟩ := htab tid hm
    obtain ⟨s, t', h1, h2, h3, h4, _, h6⟩ := table_cycle t hto (hW tids htids tid hm t ht)
    exact ⟨t, s, t', ht, h1, h2, h3, h4, h6⟩
  -- the save
  let F : Nat → PyM (Nat × Bool × SavedTableSt) := fun tid => do
    let t ← dictGet d.tables tid
    let s ← saveTableSt t
    pure (tid, t.pivot.isSome, s)
  have hF : ∀ tid ∈ tids, ∃ t s t', dictGet? d.tables tid = some t ∧ F tid = .ok (tid, t.pivot.isSome, s) ∧
      loadTableSt t.pivot.isSome s = .ok t' ∧ TableOpened t' ∧ TableWritable t' ∧
      ∀ env tid', obsTable env tid' t' = obsTable env tid' t := by
    intro tid hm
    obtain ⟨t, s, t', ht, h1, h2, h3, h4, h6⟩ := hcyc tid hm
    exact ⟨t, s, t', ht, by simp [F, dictGet, ht, h1, bind, Except.bind, pure, Except.pure], h2, h3, h4, h6⟩
  obtain ⟨saved, hsaved⟩ := mapM'_total F tids (fun tid hm => by
    obtain ⟨t, s, _, _, h, _⟩ := hF tid hm; exact ⟨_, h⟩)
  have hFshape : ∀ a x, F a = .ok x → x.1 = a := by
    intro a x h
    simp only [F, bind, Except.bind] at h
    cases h1 : dictGet d.tables a with
    | error e => rw [h1] at h; cases h
    | ok t =>
      rw [h1] at h
      simp only at h
      cases h2 : saveTableSt t with
      | error e => rw [h2] at h; cases h
      | ok s => rw [h2] at h; simp only [pure, Except.pure] at h; injection h with h; rw [← h]
  have hsavedGet := dictGet?_built F hFshape (mapM'_ok F tids saved hsaved)
  have hsave : saveDoc d = .ok { members := serialise d.tree, tables := saved } := by
    simp only [saveDoc, htids, bind, Except.bind]
    have h' := hsaved
    simp only [F, bind, Except.bind] at h'
    rw [h']; rfl
  -- the tree
  obtain ⟨hperm, htree'⟩ := reload_tree d.tree hO.tree
  obtain ⟨r1, r2, r3, r4, r5⟩ := readers_perm d.tree.objects (load (serialise d.tree)).objects hperm hO.tree.nodup hO.tree.listed
  -- the load
  let H : Nat → PyM (Nat × TableSt) := fun tid => do
    let (pv, st) ← dictGet saved tid
    let t ← loadTableSt pv st
    pure (tid, t)
  have hH : ∀ tid ∈ tids, ∃ t t', dictGet? d.tables tid = some t ∧ H tid = .ok (tid, t') ∧ TableOpened t' ∧
      TableWritable t' ∧ ∀ env tid', obsTable env tid' t' = obsTable env tid' t := by
    intro tid hm
    obtain ⟨t, s, t', ht, h1, h2, h3, h4, h6⟩ := hF tid hm
    obtain ⟨y, hy1, hy2⟩ := hsavedGet tid hm
    rw [h1] at hy2
    injection hy2 with hy2
    injection hy2 with _ hy2
    subst hy2
    exact ⟨t, t', ht, by simp [H, dictGet, hy1, h2, bind, Except.bind, pure, Except.pure], h3, h4, h6⟩
  obtain ⟨tabs, htabs⟩ := mapM'_total H tids (fun tid hm => by
    obtain ⟨_, _, _, h, _⟩ := hH tid hm; exact ⟨_, h⟩)
  have hHshape : ∀ a x, H a = .ok x → x.1 = a := by
    intro a x h
    simp only [H, bind, Except.bind] at h
    cases h1 : dictGet saved a with
    | error e => rw [h1] at h; cases h
    | ok ps =>
      obtain ⟨pv, st⟩ := ps
      rw [h1] at h
      simp only at h
      cases h2 : loadTableSt pv st with
      | error e => rw [h2] at h; cases h
      | ok t => rw [h2] at h; simp only [pure, Except.pure] at h; injection h with h; rw [← h]
  have htabsGet := dictGet?_built H hHshape (mapM'_ok H tids tabs htabs)
  have hfin : ∀ tid ∈ tids, ∃ t t', dictGet? d.tables tid = some t ∧ dictGet? tabs tid = some t' ∧ TableOpened t' ∧
      TableWritable t' ∧ ∀ env tid', obsTable env tid' t' = obsTable env tid' t := by
    intro tid hm
    obtain ⟨t, t', ht, h1, h3, h4, h6⟩ := hH tid hm
    obtain ⟨y, hy1, hy2⟩ := htabsGet tid hm
    rw [h1] at hy2
    injection hy2 with hy2
    injection hy2 with _ hy2
    subst hy2
    exact ⟨t, t', ht, hy1, h3, h4, h6⟩
  have hload : loadDoc { members := serialise d.tree, tables := saved }
      = .ok { tree := load (serialise d.tree), tables := tabs } := by
    simp only [loadDoc, r5, htids, bind, Except.bind]
    have h' := htabs
    simp only [H, bind, Except.bind] at h'
    rw [h']; rfl
  refine ⟨_, _, hsave, hload, ⟨htree', tids, by simp only [r5, htids], ?_⟩, ?_, ?_⟩
  · intro tid hm
    obtain ⟨_, t', _, h2, h3, _⟩ := hfin tid hm
    exact ⟨t', h2, h3⟩
  · intro tids' htids' tid hm t ht
    simp only [r5, htids] at htids'
    injection htids' with htids'
    subst htids'
    obtain ⟨_, t', _, h2, _, h4, _⟩ := hfin tid hm
    simp only at ht
    rw [h2] at ht
    injection ht with ht
    subst ht
    exact h4
  · intro env
    simp only [dump, r1, r2, r3, r4]
    -- the sheets and their tables, from `allTableIds`
    simp only [allTableIds, bind, Except.bind] at htids
    cases hs : sheetIds d.tree.objects with
    | error e => rfl
    | ok sids =>
      rw [hs] at htids
      simp only at htids
      cases hts : mapM' (fun sid => tableIds d.tree.objects (some sid)) sids with
      | error e => rw [hts] at htids; cases htids
      | ok tss =>
        rw [hts] at htids
        simp only [pure, Except.pure] at htids
        injection htids with htids
        have hall := mapM'_ok _ sids tss hts
        simp only [bind, Except.bind]
        apply mapM'_congr
        intro sid hsid
        obtain ⟨ts, htsm, hts'⟩ := forall₂_mem_left hall sid hsid
        cases sheetName d.tree.objects sid with
        | error e => rfl
        | ok nm =>
          simp only [hts']
          have : mapM' (fun tid => do
                let tn ← tableName d.tree.objects tid
                let t ← dictGet tabs tid
                pure (tn, obsTable env tid t)) ts
              = mapM' (fun tid => do
                let tn ← tableName d.tree.objects tid
                let t ← dictGet d.tables tid
                pure (tn, obsTable env tid t)) ts := by
            apply mapM'_congr
            intro tid htid
            have hm : tid ∈ tids := by
              rw [← htids]
              exact List.mem_flatten.mpr ⟨ts, htsm, htid⟩
            obtain ⟨t, t', ht, h2, _, _, h6⟩ := hfin tid hm
            simp only [dictGet, ht, h2, bind, Except.bind, h6]
          simp only [bind, Except.bind] at this
          rw [this]

end NumbersModel.Document
