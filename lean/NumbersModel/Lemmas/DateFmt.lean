/-
Helper lemmas for C14 (date/time display): civil arithmetic step laws, the scanner.
-/
import NumbersModel.Model.DateFmt
import NumbersModel.Lemmas.Digits
namespace NumbersModel.DateFmt
open NumbersModel NumbersModel.Digits NumbersModel.A1

/-! ### civil arithmetic -/

/-- the calendar day after `(y, m, d)`. -/
def nextDay (y m d : Nat) : Nat × Nat × Nat :=
  if d < daysInMonth y m then (y, m, d + 1)
  else if m < 12 then (y, m + 1, 1)
  else (y + 1, 1, 1)

def yearLength (y : Nat) : Nat := if isLeap y then 366 else 365

theorem daysInMonth_cases (y m : Nat) :
    daysInMonth y m = 28 ∨ daysInMonth y m = 29 ∨ daysInMonth y m = 30 ∨ daysInMonth y m = 31 := by
  unfold daysInMonth; split <;> [split; split] <;> simp

theorem daysBeforeMonth_succ (y m : Nat) (h : 1 ≤ m) :
    daysBeforeMonth y (m + 1) = daysBeforeMonth y m + daysInMonth y m := by
  obtain ⟨k, rfl⟩ : ∃ k, m = k + 1 := ⟨m - 1, by omega⟩
  rfl

theorem daysBeforeMonth_13 (y : Nat) : daysBeforeMonth y 13 = yearLength y := by
  simp only [daysBeforeMonth, daysInMonth, yearLength]
  cases isLeap y <;> simp

theorem daysBeforeYear_succ (y : Nat) (h : 1 ≤ y) :
    daysBeforeYear (y + 1) = daysBeforeYear y + yearLength y := by
  unfold daysBeforeYear yearLength isLeap
  simp only [Nat.add_sub_cancel]
  obtain ⟨p, rfl⟩ : ∃ p, y = p + 1 := ⟨y - 1, by omega⟩
  simp only [Nat.add_sub_cancel]
  by_cases h4 : (p + 1) % 4 = 0 <;> by_cases h100 : (p + 1) % 100 = 0 <;> by_cases h400 : (p + 1) % 400 = 0 <;>
    simp [h4, h100, h400] <;> omega

theorem ordinal_step (y m d : Nat) (hy : 1 ≤ y) (hm : 1 ≤ m) (hm' : m ≤ 12) (hd' : d ≤ daysInMonth y m) :
    ordinalOf (nextDay y m d).1 (nextDay y m d).2.1 (nextDay y m d).2.2 = ordinalOf y m d + 1 := by
  unfold nextDay
  by_cases h1 : d < daysInMonth y m
  · simp [h1, ordinalOf, ydayOf]; omega
  · have hd : d = daysInMonth y m := by omega
    by_cases h2 : m < 12
    · simp only [h1, h2, if_false, if_true, ordinalOf, ydayOf]
      rw [daysBeforeMonth_succ y m hm]; omega
    · have : m = 12 := by omega
      subst this
      simp only [h1, h2, if_false, ordinalOf, ydayOf]
      rw [daysBeforeYear_succ y hy, ← daysBeforeMonth_13 y, daysBeforeMonth_succ y 12 (by omega)]
      simp [daysBeforeMonth]; omega

theorem weekday_step (y m d : Nat) (hy : 1 ≤ y) (hm : 1 ≤ m) (hm' : m ≤ 12) (hd' : d ≤ daysInMonth y m) :
    weekdayOf (nextDay y m d).1 (nextDay y m d).2.1 (nextDay y m d).2.2 = (weekdayOf y m d + 1) % 7 := by
  unfold weekdayOf
  rw [ordinal_step y m d hy hm hm' hd']; omega

theorem yday_step (y m d : Nat) (hm : 1 ≤ m) (hm' : m ≤ 12) (hd' : d ≤ daysInMonth y m) :
    ydayOf (nextDay y m d).1 (nextDay y m d).2.1 (nextDay y m d).2.2 =
      if m = 12 ∧ d = 31 then 1 else ydayOf y m d + 1 := by
  unfold nextDay
  by_cases h1 : d < daysInMonth y m
  · have : ¬ (m = 12 ∧ d = 31) := by
      rintro ⟨rfl, rfl⟩; simp [daysInMonth] at h1
    simp [h1, this, ydayOf]; omega
  · have hd : d = daysInMonth y m := by omega
    by_cases h2 : m < 12
    · have : ¬ (m = 12 ∧ d = 31) := by omega
      simp only [h1, h2, this, if_false, if_true, ydayOf]
      rw [daysBeforeMonth_succ y m hm]; omega
    · have hm12 : m = 12 := by omega
      subst hm12
      have h31 : d = 31 := by rw [hd]; simp [daysInMonth]
      simp only [h1, h2, if_false, ydayOf, daysBeforeMonth]
      simp [h31]

theorem daysBeforeMonth_mono (y : Nat) (m : Nat) (hm : 1 ≤ m) (hm' : m ≤ 12) :
    daysBeforeMonth y m + daysInMonth y m ≤ yearLength y := by
  rw [← daysBeforeMonth_13 y]
  have h : ∀ k, m + 1 + k ≤ 13 → daysBeforeMonth y (m + 1) ≤ daysBeforeMonth y (m + 1 + k) := by
    intro k
    induction k with
    | zero => intro _; exact Nat.le_refl _
    | succ k ih =>
      intro hk
      have := ih (by omega)
      rw [show m + 1 + (k + 1) = (m + 1 + k) + 1 by omega, daysBeforeMonth_succ y (m + 1 + k) (by omega)]
      omega
  have := h (12 - m) (by omega)
  rw [show m + 1 + (12 - m) = 13 by omega] at this
  rw [daysBeforeMonth_succ y m hm] at this
  exact this

theorem yday_range (y m d : Nat) (hm : 1 ≤ m) (hm' : m ≤ 12) (hd : 1 ≤ d) (hd' : d ≤ daysInMonth y m) :
    1 ≤ ydayOf y m d ∧ ydayOf y m d ≤ yearLength y := by
  unfold ydayOf
  have := daysBeforeMonth_mono y m hm hm'
  omega

/-! ### directives: distinct names -/

theorem dayName_injective : ∀ a, a < 7 → ∀ b, b < 7 → dayName a = dayName b → a = b := by decide
theorem dayAbbr_injective : ∀ a, a < 7 → ∀ b, b < 7 → (dayName a).take 3 = (dayName b).take 3 → a = b := by decide
theorem monthName_injective :
    ∀ a, a < 13 → ∀ b, b < 13 → 1 ≤ a → 1 ≤ b → monthName a = monthName b → a = b := by decide
theorem monthAbbr_injective :
    ∀ a, a < 13 → ∀ b, b < 13 → 1 ≤ a → 1 ≤ b → (monthName a).take 3 = (monthName b).take 3 → a = b := by
  decide

/-- first `n` of the six sub-second digits = microseconds / 10^(6-n). -/
theorem subsec_value (us n : Nat) (hus : us < 1000000) (hn : 1 ≤ n) (hn' : n ≤ 6) :
    (zfill 6 (natStr us)).take n = zfill n (natStr (us / 10 ^ (6 - n))) := by
  have t5 := zfill_take 5 us (by omega) (by omega)
  have t4 := zfill_take 4 (us / 10) (by omega) (by omega)
  have t3 := zfill_take 3 (us / 10 / 10) (by omega) (by omega)
  have t2 := zfill_take 2 (us / 10 / 10 / 10) (by omega) (by omega)
  have t1 := zfill_take 1 (us / 10 / 10 / 10 / 10) (by omega) (by omega)
  have hlen : (zfill 6 (natStr us)).length = 6 := zfill_exact_length 6 us (by omega) (by omega)
  have hk : ∀ a b : Nat, a ≤ b → ∀ l : List Char, (l.take b).take a = l.take a := by
    intro a b hab l; rw [List.take_take]; congr 1; omega
  have p1 : (10 : Nat) ^ (6 - 1) = 100000 := by decide
  have p2 : (10 : Nat) ^ (6 - 2) = 10000 := by decide
  have p3 : (10 : Nat) ^ (6 - 3) = 1000 := by decide
  have p4 : (10 : Nat) ^ (6 - 4) = 100 := by decide
  have p5 : (10 : Nat) ^ (6 - 5) = 10 := by decide
  rcases (by omega : n = 1 ∨ n = 2 ∨ n = 3 ∨ n = 4 ∨ n = 5 ∨ n = 6) with rfl | rfl | rfl | rfl | rfl | rfl
  · rw [← hk 1 5 (by omega), t5, ← hk 1 4 (by omega), t4, ← hk 1 3 (by omega), t3, ← hk 1 2 (by omega), t2, t1, p1]
    congr 2; omega
  · rw [← hk 2 5 (by omega), t5, ← hk 2 4 (by omega), t4, ← hk 2 3 (by omega), t3, t2, p2]
    congr 2; omega
  · rw [← hk 3 5 (by omega), t5, ← hk 3 4 (by omega), t4, t3, p3]
    congr 2; omega
  · rw [← hk 4 5 (by omega), t5, t4, p4]
    congr 2; omega
  · rw [t5, p5]
  · rw [List.take_of_length_le (by omega)]; simp

/-! ### the scanner -/

inductive Part where
  | field (name : Text)
  | lit (s : Text)
  | quoted (s : Text)
  | apostrophe
  deriving DecidableEq, Repr

def Part.serialise : Part → Text
  | .field n => n
  | .lit s => s
  | .quoted s => '\'' :: s ++ ['\'']
  | .apostrophe => ['\'', '\'']

def Part.display (renderFld : Text → Text) : Part → Text
  | .field n => renderFld n
  | .lit s => s
  | .quoted s => s
  | .apostrophe => ['\'']

def serialiseAll (ps : List Part) : Text := (ps.map Part.serialise).flatten
def displayAll (renderFld : Text → Text) (ps : List Part) : Text := (ps.map (Part.display renderFld)).flatten

/-- the shape of one part. -/
def Part.OK (isAlpha : Char → Bool) : Part → Prop
  | .field n => n ≠ [] ∧ ∀ c ∈ n, isAlpha c = true ∧ c ≠ '\''
  | .lit s => s ≠ [] ∧ ∀ c ∈ s, isAlpha c = false ∧ c ≠ '\''
  | .quoted s => s ≠ [] ∧ ∀ c ∈ s, c ≠ '\''
  | .apostrophe => True

def Part.isField : Part → Bool | .field _ => true | _ => false
def Part.isQuoteLike : Part → Bool | .quoted _ => true | .apostrophe => true | _ => false

/-- what may follow a part: a field is followed by literal or quoted text (two adjacent fields would be
    one longer name, and `''` does not end a field); quoted text is followed by a field or a literal. -/
def Part.follows : Part → Option Part → Prop
  | .field _, some p => p.isField = false ∧ p ≠ .apostrophe
  | .quoted _, some p => p.isQuoteLike = false
  | _, _ => True

def WellFormed (isAlpha : Char → Bool) : List Part → Prop
  | [] => True
  | p :: rest => p.OK isAlpha ∧ p.follows rest.head? ∧ WellFormed isAlpha rest

section
variable (isAlpha : Char → Bool) (rf : Text → Text)

theorem step_plain (c : Char) (tail : List Char) (st : St) (hc : c ≠ '\'') :
    scanLoop isAlpha rf (c :: tail) st = scanLoop isAlpha rf tail (stepPlain isAlpha rf c st) := by
  cases tail with
  | nil => simp [scanLoop, hc]
  | cons n r => simp [scanLoop, hc]

theorem step_quote_quote (tail : List Char) (st : St) :
    scanLoop isAlpha rf ('\'' :: '\'' :: tail) st =
      scanLoop isAlpha rf tail { st with res := st.res ++ ['\''] } := by
  simp [scanLoop]

theorem step_quote (x : Char) (tail : List Char) (st : St) (hx : x ≠ '\'') :
    scanLoop isAlpha rf ('\'' :: x :: tail) st = scanLoop isAlpha rf (x :: tail) (stepQuote rf st) := by
  simp [scanLoop, hx]

theorem step_quote_end (st : St) : scanLoop isAlpha rf ['\''] st = flush rf st := by
  simp [scanLoop]

theorem run_in_string (s tail : List Char) (st : St) (hs : st.inString = true) (hq : ∀ c ∈ s, c ≠ '\'') :
    scanLoop isAlpha rf (s ++ tail) st = scanLoop isAlpha rf tail { st with res := st.res ++ s } := by
  induction s generalizing st with
  | nil => simp
  | cons c r ih =>
    rw [List.cons_append, step_plain isAlpha rf c _ st (hq c (by simp))]
    have e : stepPlain isAlpha rf c st = { st with res := st.res ++ [c] } := by simp [stepPlain, hs]
    rw [e, ih _ (by simpa using hs) (fun c hc => hq c (by simp [hc]))]
    simp

theorem run_literal_aux (s tail : List Char) (st : St) (hs : st.inString = false) (hf : st.inField = false)
    (hq : ∀ c ∈ s, isAlpha c = false ∧ c ≠ '\'') :
    scanLoop isAlpha rf (s ++ tail) st = scanLoop isAlpha rf tail { st with res := st.res ++ s } := by
  induction s generalizing st with
  | nil => simp
  | cons c r ih =>
    rw [List.cons_append, step_plain isAlpha rf c _ st (hq c (by simp)).2]
    have e : stepPlain isAlpha rf c st = { st with res := st.res ++ [c] } := by
      simp [stepPlain, hs, (hq c (by simp)).1, flush, hf]
    rw [e, ih _ (by simpa using hs) (by simpa using hf) (fun c hc => hq c (by simp [hc]))]
    simp

theorem run_literal (s tail : List Char) (st : St) (hs : st.inString = false) (hne : s ≠ [])
    (hq : ∀ c ∈ s, isAlpha c = false ∧ c ≠ '\'') :
    scanLoop isAlpha rf (s ++ tail) st =
      scanLoop isAlpha rf tail { st with inField := false, res := flush rf st ++ s } := by
  cases s with
  | nil => exact absurd rfl hne
  | cons c r =>
    rw [List.cons_append, step_plain isAlpha rf c _ st (hq c (by simp)).2]
    have e : stepPlain isAlpha rf c st = { st with inField := false, res := flush rf st ++ [c] } := by
      simp [stepPlain, hs, (hq c (by simp)).1]
    rw [e, run_literal_aux isAlpha rf r tail _ (by simpa using hs) rfl (fun c hc => hq c (by simp [hc]))]
    simp

theorem run_field_aux (s tail : List Char) (st : St) (hs : st.inString = false) (hf : st.inField = true)
    (hq : ∀ c ∈ s, isAlpha c = true ∧ c ≠ '\'') :
    scanLoop isAlpha rf (s ++ tail) st = scanLoop isAlpha rf tail { st with fld := st.fld ++ s } := by
  induction s generalizing st with
  | nil => simp
  | cons c r ih =>
    rw [List.cons_append, step_plain isAlpha rf c _ st (hq c (by simp)).2]
    have e : stepPlain isAlpha rf c st = { st with fld := st.fld ++ [c] } := by
      simp [stepPlain, hs, (hq c (by simp)).1, hf]
    rw [e, ih _ (by simpa using hs) (by simpa using hf) (fun c hc => hq c (by simp [hc]))]
    simp

theorem run_field (s tail : List Char) (st : St) (hs : st.inString = false) (hf : st.inField = false)
    (hne : s ≠ []) (hq : ∀ c ∈ s, isAlpha c = true ∧ c ≠ '\'') :
    scanLoop isAlpha rf (s ++ tail) st =
      scanLoop isAlpha rf tail { st with inField := true, fld := s } := by
  cases s with
  | nil => exact absurd rfl hne
  | cons c r =>
    rw [List.cons_append, step_plain isAlpha rf c _ st (hq c (by simp)).2]
    have e : stepPlain isAlpha rf c st = { st with inField := true, fld := [c] } := by
      simp [stepPlain, hs, (hq c (by simp)).1, hf]
    rw [e, run_field_aux isAlpha rf r tail _ (by simpa using hs) rfl (fun c hc => hq c (by simp [hc]))]
    simp

/-- the text of a field or literal part starts with a character that is not a quote. -/
theorem serialiseAll_head (p : Part) (rest : List Part) (hp : p.OK isAlpha) (hq : p.isQuoteLike = false) :
    ∃ x tl, serialiseAll (p :: rest) = x :: tl ∧ x ≠ '\'' := by
  cases p with
  | field n =>
    obtain ⟨hne, hall⟩ := hp
    cases n with
    | nil => exact absurd rfl hne
    | cons x tl => exact ⟨x, tl ++ serialiseAll rest, by simp [serialiseAll, Part.serialise], (hall x (by simp)).2⟩
  | lit s =>
    obtain ⟨hne, hall⟩ := hp
    cases s with
    | nil => exact absurd rfl hne
    | cons x tl => exact ⟨x, tl ++ serialiseAll rest, by simp [serialiseAll, Part.serialise], (hall x (by simp)).2⟩
  | quoted s => simp [Part.isQuoteLike] at hq
  | apostrophe => simp [Part.isQuoteLike] at hq

theorem scan_parts (ps : List Part) : ∀ (st : St), WellFormed isAlpha ps → st.inString = false →
    (st.inField = true → ∀ p, ps.head? = some p → p.isField = false ∧ p ≠ .apostrophe) →
    scanLoop isAlpha rf (serialiseAll ps) st = flush rf st ++ displayAll rf ps := by
  induction ps with
  | nil => intro st _ _ _; simp [serialiseAll, displayAll, scanLoop]
  | cons p rest ih =>
    intro st hwf hs hpend
    obtain ⟨hok, hfol, hrest⟩ := hwf
    have hser : serialiseAll (p :: rest) = p.serialise ++ serialiseAll rest := by simp [serialiseAll]
    have hdis : displayAll rf (p :: rest) = p.display rf ++ displayAll rf rest := by simp [displayAll]
    cases p with
    | field n =>
      have hf : st.inField = false := by
        cases h : st.inField with
        | false => rfl
        | true => have := (hpend h _ rfl).1; simp [Part.isField] at this
      obtain ⟨hne, hall⟩ := hok
      rw [hser, hdis]
      simp only [Part.serialise, Part.display]
      rw [run_field isAlpha rf n _ st hs hf hne hall]
      rw [ih _ hrest (by simpa using hs) (by
        intro _ q hq
        have := hfol
        rw [hq] at this
        exact this)]
      simp [flush, hf]
    | lit s =>
      obtain ⟨hne, hall⟩ := hok
      rw [hser, hdis]
      simp only [Part.serialise, Part.display]
      rw [run_literal isAlpha rf s _ st hs hne hall]
      rw [ih _ hrest (by simpa using hs) (by intro h; simp at h)]
      simp [flush]
    | apostrophe =>
      have hf : st.inField = false := by
        cases h : st.inField with
        | false => rfl
        | true => have := (hpend h _ rfl).2; simp at this
      rw [hser, hdis]
      simp only [Part.serialise, Part.display, List.cons_append, List.nil_append]
      rw [step_quote_quote]
      rw [ih _ hrest (by simpa using hs) (by intro h; simp [hf] at h)]
      simp [flush, hf]
    | quoted s =>
      obtain ⟨hne, hall⟩ := hok
      rw [hser, hdis]
      simp only [Part.serialise, Part.display]
      cases s with
      | nil => exact absurd rfl hne
      | cons x tl =>
        have hx : x ≠ '\'' := hall x (by simp)
        simp only [List.cons_append, List.append_assoc, List.nil_append]
        rw [step_quote isAlpha rf x _ st hx]
        have e : stepQuote rf st = { st with inString := true, inField := false, res := flush rf st } := by
          simp [stepQuote, hs]
        rw [e, show x :: (tl ++ '\'' :: serialiseAll rest) = (x :: tl) ++ ('\'' :: serialiseAll rest) by simp]
        rw [run_in_string isAlpha rf (x :: tl) _ _ rfl hall]
        cases rest with
        | nil =>
          simp [serialiseAll, displayAll, scanLoop, flush]
        | cons q rest' =>
          have hq : q.isQuoteLike = false := by simpa [Part.follows] using hfol
          obtain ⟨y, tl', hy, hyq⟩ := serialiseAll_head isAlpha q rest' hrest.1 hq
          rw [hy, step_quote isAlpha rf y _ _ hyq, ← hy]
          rw [ih _ hrest (by simp [stepQuote]) (by intro h; simp [stepQuote] at h)]
          simp [flush, stepQuote]
end

/-! ### `_expand_quotes` is the same scanner with no letters -/

theorem expandLoop_eq_scan_aux (rf : Text → Text) (n : Nat) : ∀ (s : List Char), s.length ≤ n →
    ∀ (b : Bool) (fld res : Text),
    expandLoop s b res = scanLoop (fun _ => false) rf s ⟨b, false, fld, res⟩ := by
  induction n with
  | zero =>
    intro s hs b fld res
    have : s = [] := List.length_eq_zero_iff.mp (by omega)
    subst this; simp [expandLoop, scanLoop, flush]
  | succ n ih =>
    intro s hs b fld res
    match s with
    | [] => simp [expandLoop, scanLoop, flush]
    | [c] =>
      by_cases hc : c = '\''
      · simp [expandLoop, scanLoop, flush, hc]
      · cases b <;> simp [expandLoop, scanLoop, flush, hc, stepPlain]
    | c :: x :: rest =>
      by_cases hc : c = '\''
      · by_cases hx : x = '\''
        · simp only [expandLoop, scanLoop, hc, hx, if_true]
          exact ih rest (by simp at hs; omega) _ _ _
        · simp only [expandLoop, scanLoop, hc, hx, if_true, if_false]
          rw [ih (x :: rest) (by simp at hs ⊢; omega) (!b) fld res]
          cases b <;> simp [stepQuote, flush]
      · simp only [expandLoop, scanLoop, hc, if_false]
        rw [ih (x :: rest) (by simp at hs ⊢; omega) b fld (res ++ [c])]
        cases b <;> simp [stepPlain, flush]

theorem expandLoop_eq_scan (rf : Text → Text) (s : List Char) (b : Bool) (fld res : Text) :
    expandLoop s b res = scanLoop (fun _ => false) rf s ⟨b, false, fld, res⟩ :=
  expandLoop_eq_scan_aux rf s.length s (Nat.le_refl _) b fld res

end NumbersModel.DateFmt
