/-
The memoising wrapper of `numbers_cache.cache` (`inner_multi_args`) as `harness/py2lean.py` regenerates it from the source on
every check run (`Gen/TrCache.lean`: key construction, `in`, hit / miss, the store update; `self._cache[method]` is a state
variable returned beside the value) and the model `Cache.memoCall` the C03 memo theorems are stated about: same returned
value and, key by key, the same store.  (The model puts a new entry in front, a Python dict at the end: the lists differ,
every lookup agrees.)
-/
import NumbersModel.Gen.TrCache
import NumbersModel.Model.Cache

namespace NumbersModel.Translated
open NumbersModel NumbersModel.Gen.T NumbersModel.Cache

/-! ### the key -/

theorem pyIndex_append_length {α} (pre : List α) (a : α) (t : List α) :
    pyIndex (pre ++ a :: t) (pre.length : Int) = .ok a := by
  unfold pyIndex
  have h1 : ¬ ((pre.length : Int) < 0) := by omega
  simp only [h1, if_false, List.length_append, List.length_cons]
  have h2 : ¬ (False ∨ (pre.length : Int) ≥ ((pre.length + (t.length + 1) : Nat) : Int)) := by
    intro h; rcases h with h | h
    · exact h
    · omega
  simp only [h2, if_false, Int.toNat_natCast]
  simp

theorem key_parts (suf : List Int) : ∀ (pre : List Int),
    ((List.range suf.length).map (fun (k : Nat) => Int.ofNat (k + pre.length))).mapM
        (fun (x : Int) => (do let t ← pyIndex (pre ++ suf) x; pure (intStr t) : PyM Text))
      = .ok (suf.map intStr) := by
  induction suf with
  | nil => intro pre; rfl
  | cons a t ih =>
    intro pre
    rw [List.length_cons, List.range_succ_eq_map]
    simp only [List.map_cons, List.map_map, List.mapM_cons, Nat.zero_add]
    have h0 : pyIndex (pre ++ a :: t) (Int.ofNat pre.length) = .ok a := pyIndex_append_length pre a t
    rw [h0]
    have hrest := ih (pre ++ [a])
    have e1 : (pre ++ [a]) ++ t = pre ++ a :: t := by simp
    have e2 : ((fun (k : Nat) => Int.ofNat (k + pre.length)) ∘ Nat.succ)
        = (fun (k : Nat) => Int.ofNat (k + (pre ++ [a]).length)) := by
      funext k; simp only [Function.comp, List.length_append, List.length_cons, List.length_nil]; congr 1; omega
    rw [e1] at hrest
    rw [e2, hrest]
    rfl

theorem key_list (args : List Int) :
    (PyT.range (args.length : Int)).mapM
        (fun (x : Int) => (do let t ← pyIndex args x; pure (intStr t) : PyM Text)) = .ok (args.map intStr) := by
  have := key_parts args []
  simpa [PyT.range] using this

theorem join_key (args : List Int) : PyT.join ['.'] (args.map intStr) = cacheKey args := by
  induction args with
  | nil => rfl
  | cons a t ih =>
    cases t with
    | nil => rfl
    | cons b r =>
      simp only [List.map_cons] at ih ⊢
      simp only [PyT.join, cacheKey]
      rw [← ih]

/-! ### the dict -/

theorem contains_lookup {β} (d : List (Text × β)) (k : Text) : PyT.dictContains d k = (lookup d k).isSome := by
  induction d with
  | nil => rfl
  | cons e r ih =>
    by_cases h : e.1 = k
    · simp [PyT.dictContains, lookup, List.find?, h]
    · simp only [PyT.dictContains, List.any_cons, h, decide_false, Bool.false_or] at ih ⊢
      simp only [lookup, List.find?, h, decide_false] at ih ⊢
      exact ih

theorem get_lookup {β} (d : List (Text × β)) (k : Text) (v : β) (h : lookup d k = some v) : PyT.dictGet d k = .ok v := by
  unfold lookup at h
  unfold PyT.dictGet
  cases hf : d.find? (fun e => e.1 = k) with
  | none => rw [hf] at h; cases h
  | some e => rw [hf] at h; simp only [Option.map_some, Option.some.injEq] at h; simp [h]

theorem lookup_set {β} (d : List (Text × β)) (k : Text) (v : β) (k' : Text) :
    lookup (PyT.dictSet d k v) k' = if k = k' then some v else lookup d k' := by
  induction d with
  | nil => by_cases h : k = k' <;> simp [PyT.dictSet, lookup, List.find?, h]
  | cons e r ih =>
    by_cases he : e.1 = k
    · by_cases h : k = k'
      · subst h; simp [PyT.dictSet, he, lookup, List.find?]
      · have : ¬ e.1 = k' := by rw [he]; exact h
        simp [PyT.dictSet, he, lookup, List.find?, h]
    · by_cases h' : e.1 = k'
      · have hk : ¬ k = k' := by intro hk; apply he; rw [h', hk]
        simp only [PyT.dictSet, he, if_false, hk]
        simp only [lookup, List.find?, h', decide_true]
        rfl
      · simp only [PyT.dictSet, he, if_false]
        simp only [lookup, List.find?, h', decide_false] at ih ⊢
        exact ih

/-! ### one call through the wrapper -/

/-- for every method `f`, every store and every argument tuple (with `num_args` = the number of arguments, as for every
    decorated method of model.py): the wrapper returns what the model's `memoCall` returns and leaves a store with the same
    content, key by key. -/
theorem cache_inner_eq_model {β} (f : List Int → β) (store : Store β) (args : List Int) :
    ∃ st', cache_inner_multi_args f (args.length : Int) store args = .ok ((memoCall f store args).1, st') ∧
      ∀ k, lookup st' k = lookup (memoCall f store args).2 k := by
  unfold cache_inner_multi_args memoCall
  rw [key_list]
  simp only [bind, Except.bind, join_key, contains_lookup]
  cases hl : lookup store (cacheKey args) with
  | some v =>
    simp only [Option.isSome_some, if_true, get_lookup store _ v hl, pure, Except.pure]
    exact ⟨store, rfl, fun _ => rfl⟩
  | none =>
    simp only [Option.isSome_none, Bool.false_eq_true, if_false, pure, Except.pure]
    refine ⟨_, rfl, ?_⟩
    intro k
    rw [lookup_set]
    by_cases h : cacheKey args = k <;> simp [lookup, List.find?, h]

end NumbersModel.Translated
