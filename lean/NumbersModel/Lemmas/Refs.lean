import NumbersModel.Model.Refs
import NumbersModel.Lemmas.Formula
import NumbersModel.Props.C10
namespace NumbersModel.Refs
open NumbersModel NumbersModel.A1 NumbersModel.Formula

/-! ### general list facts -/

theorem find_of_nodup_key {α β : Type} [DecidableEq β] (f : α → β) :
    ∀ (l : List α) (x : α), x ∈ l → (l.map f).Nodup → l.find? (fun y => f y = f x) = some x
  | [], _, hx, _ => by simp at hx
  | a :: l, x, hx, hn => by
    simp only [List.map_cons, List.nodup_cons] at hn
    by_cases hax : a = x
    · subst hax; simp
    · have hxl : x ∈ l := by
        rcases List.mem_cons.1 hx with h | h
        · exact absurd h.symm hax
        · exact h
      have hne : f a ≠ f x := by
        intro heq
        exact hn.1 (heq ▸ List.mem_map_of_mem hxl)
      simp only [List.find?_cons, hne, decide_false]
      exact find_of_nodup_key f l x hxl hn.2

theorem eq_of_key_eq {α β : Type} (f : α → β) :
    ∀ (l : List α) (x y : α), x ∈ l → y ∈ l → (l.map f).Nodup → f x = f y → x = y
  | [], _, _, hx, _, _, _ => by simp at hx
  | a :: l, x, y, hx, hy, hn, hxy => by
    simp only [List.map_cons, List.nodup_cons] at hn
    rcases List.mem_cons.1 hx with h1 | h1 <;> rcases List.mem_cons.1 hy with h2 | h2
    · rw [h1, h2]
    · subst h1; exact absurd (hxy ▸ List.mem_map_of_mem h2) hn.1
    · subst h2; exact absurd (hxy ▸ List.mem_map_of_mem h1) hn.1
    · exact eq_of_key_eq f l x y h1 h2 hn.2 hxy

theorem filter_key_of_nodup {α β : Type} [DecidableEq β] (f : α → β) :
    ∀ (l : List α) (x : α), x ∈ l → (l.map f).Nodup → l.filter (fun y => f y = f x) = [x]
  | [], _, hx, _ => by simp at hx
  | a :: l, x, hx, hn => by
    simp only [List.map_cons, List.nodup_cons] at hn
    by_cases hax : a = x
    · subst hax
      have : l.filter (fun y => decide (f y = f a)) = [] := by
        apply List.filter_eq_nil_iff.2
        intro y hy hfy
        have : f y = f a := by simpa using hfy
        exact hn.1 (this ▸ List.mem_map_of_mem hy)
      simp [List.filter_cons, this]
    · have hxl : x ∈ l := by
        rcases List.mem_cons.1 hx with h | h
        · exact absurd h.symm hax
        · exact h
      have hne : f a ≠ f x := fun heq => hn.1 (heq ▸ List.mem_map_of_mem hxl)
      simp only [List.filter_cons, hne, decide_false, Bool.false_eq_true, if_false]
      exact filter_key_of_nodup f l x hxl hn.2

theorem filter_eq_singleton_of_count {α β : Type} [BEq β] [LawfulBEq β] [DecidableEq β] (f : α → β) (n : β) :
    ∀ (l : List α) (x : α), x ∈ l → f x = n → (l.map f).count n = 1 → l.filter (fun y => f y = n) = [x]
  | [], _, hx, _, _ => by simp at hx
  | a :: l, x, hx, hfx, hc => by
    simp only [List.map_cons, List.count_cons] at hc
    by_cases hfa : f a = n
    · simp only [hfa, beq_self_eq_true, if_true] at hc
      have h0 : (l.map f).count n = 0 := by omega
      have hnil : l.filter (fun y => decide (f y = n)) = [] := by
        apply List.filter_eq_nil_iff.2
        intro y hy hfy
        have hy' : f y = n := by simpa using hfy
        have : n ∈ l.map f := hy' ▸ List.mem_map_of_mem hy
        exact (List.count_eq_zero.1 h0) this
      have hxa : x = a := by
        rcases List.mem_cons.1 hx with h | h
        · exact h
        · exfalso
          have : n ∈ l.map f := hfx ▸ List.mem_map_of_mem h
          exact (List.count_eq_zero.1 h0) this
      simp [List.filter_cons, hfa, hnil, hxa]
    · have hne : (f a == n) = false := beq_eq_false_iff_ne.2 hfa
      simp only [hne, Bool.false_eq_true, if_false, Nat.add_zero] at hc
      have hxl : x ∈ l := by
        rcases List.mem_cons.1 hx with h | h
        · subst h; exact absurd hfx hfa
        · exact h
      simp only [List.filter_cons, hfa, decide_false, Bool.false_eq_true, if_false]
      exact filter_eq_singleton_of_count f n l x hxl hfx hc


/-! ### documents with well-behaved names -/

/-- the naming configuration the property quantifies over: sheet names distinct, table names
    distinct within each sheet (they may repeat across sheets), ids distinct. -/
structure NamesOK (doc : Doc) : Prop where
  sheetIds : (doc.map (·.id)).Nodup
  sheetNames : (doc.map (·.name)).Nodup
  tableIds : ((flat doc).map (·.2.id)).Nodup
  tableNames : ∀ s ∈ doc, (s.tables.map (·.name)).Nodup

theorem mem_flat {doc : Doc} {s : Sheet} {t : Table} (hs : s ∈ doc) (ht : t ∈ s.tables) :
    (s.id, t) ∈ flat doc := by
  simp only [flat, List.mem_flatMap, List.mem_map]
  exact ⟨s, hs, t, ht, rfl⟩

theorem mem_flat_iff {doc : Doc} {p : Nat × Table} :
    p ∈ flat doc ↔ ∃ s ∈ doc, p.2 ∈ s.tables ∧ p.1 = s.id := by
  simp only [flat, List.mem_flatMap, List.mem_map]
  constructor
  · rintro ⟨s, hs, t, ht, rfl⟩; exact ⟨s, hs, ht, rfl⟩
  · rintro ⟨s, hs, ht, hid⟩; exact ⟨s, hs, p.2, ht, by rw [← hid]⟩

theorem findTable_of_mem {doc : Doc} (h : NamesOK doc) {s : Sheet} {t : Table} (hs : s ∈ doc)
    (ht : t ∈ s.tables) : findTable doc t.id = .ok t := by
  have := find_of_nodup_key (fun p : Nat × Table => p.2.id) (flat doc) (s.id, t) (mem_flat hs ht) h.tableIds
  simp only [findTable]
  simp only at this
  rw [this]

theorem sheetOf_of_mem {doc : Doc} (h : NamesOK doc) {s : Sheet} {t : Table} (hs : s ∈ doc)
    (ht : t ∈ s.tables) : sheetOf doc t.id = some s.id := by
  have := find_of_nodup_key (fun p : Nat × Table => p.2.id) (flat doc) (s.id, t) (mem_flat hs ht) h.tableIds
  simp only [sheetOf]
  simp only at this
  rw [this]; rfl

theorem sheetNameText_of_mem {doc : Doc} (h : NamesOK doc) {s : Sheet} (hs : s ∈ doc) :
    sheetNameText doc (some s.id) = s.name := by
  have := find_of_nodup_key (fun x : Sheet => x.id) doc s hs h.sheetIds
  simp only [sheetNameText]
  rw [this]

theorem sheet_eq_of_id {doc : Doc} (h : NamesOK doc) {s₁ s₂ : Sheet} (h1 : s₁ ∈ doc) (h2 : s₂ ∈ doc)
    (hid : s₁.id = s₂.id) : s₁ = s₂ :=
  eq_of_key_eq (fun x : Sheet => x.id) doc s₁ s₂ h1 h2 h.sheetIds hid

/-- the entries of `flat doc` that belong to sheet `s` and satisfy `q` are `s`'s own tables satisfying `q`. -/
theorem flat_filter_sheet (doc : Doc) (hids : (doc.map (·.id)).Nodup) (s : Sheet) (hs : s ∈ doc)
    (q : Table → Bool) :
    (flat doc).filter (fun p => decide (p.1 = s.id) && q p.2) = (s.tables.filter q).map (fun t => (s.id, t)) := by
  induction doc with
  | nil => simp at hs
  | cons a doc ih =>
    simp only [List.map_cons, List.nodup_cons] at hids
    have hflat : flat (a :: doc) = a.tables.map (fun t => (a.id, t)) ++ flat doc := by
      simp [flat]
    rw [hflat, List.filter_append]
    by_cases hsa : s = a
    · subst hsa
      have h1 : (s.tables.map (fun t => (s.id, t))).filter (fun p => decide (p.1 = s.id) && q p.2)
          = (s.tables.filter q).map (fun t => (s.id, t)) := by
        rw [List.filter_map]
        congr 1
        apply List.filter_congr
        intro t _; simp
      have h2 : (flat doc).filter (fun p => decide (p.1 = s.id) && q p.2) = [] := by
        apply List.filter_eq_nil_iff.2
        intro p hp
        obtain ⟨s', hs', _, hid⟩ := mem_flat_iff.1 hp
        have : p.1 ≠ s.id := by
          intro he
          apply hids.1
          rw [← he, hid]
          exact List.mem_map_of_mem hs'
        simp [this]
      rw [h1, h2, List.append_nil]
    · have hsd : s ∈ doc := by
        rcases List.mem_cons.1 hs with h | h
        · exact absurd h hsa
        · exact h
      have hne : a.id ≠ s.id := by
        intro he
        apply hids.1
        rw [he]
        exact List.mem_map_of_mem hsd
      have h1 : (a.tables.map (fun t => (a.id, t))).filter (fun p => decide (p.1 = s.id) && q p.2) = [] := by
        apply List.filter_eq_nil_iff.2
        intro p hp
        obtain ⟨t, _, rfl⟩ := List.mem_map.1 hp
        simp [hne]
      rw [h1, List.nil_append]
      exact ih hids.2 hsd

theorem tables_filter_name {doc : Doc} (h : NamesOK doc) {s : Sheet} {t : Table} (hs : s ∈ doc)
    (ht : t ∈ s.tables) : s.tables.filter (fun tb => decide (tb.name = t.name)) = [t] :=
  filter_key_of_nodup (fun tb : Table => tb.name) s.tables t ht (h.tableNames s hs)



theorem resolve_table_same_sheet {doc : Doc} (h : NamesOK doc) {s : Sheet} {host target : Table}
    (hs : s ∈ doc) (hht : host ∈ s.tables) (htt : target ∈ s.tables) :
    resolveTable doc host.id (.table target.name) = some target.id := by
  simp only [resolveTable, sheetOf_of_mem h hs hht]
  have hf : (flat doc).filter (fun p => decide (some p.1 = some s.id ∧ p.2.name = target.name))
      = [(s.id, target)] := by
    have := flat_filter_sheet doc h.sheetIds s hs (fun tb => decide (tb.name = target.name))
    rw [tables_filter_name h hs htt] at this
    simp only [List.map_cons, List.map_nil] at this
    rw [← this]
    apply List.filter_congr
    intro p _
    simp
  rw [hf]

theorem resolve_table_unique {doc : Doc} (h : NamesOK doc) {hs ts : Sheet} {host target : Table}
    (hhs : hs ∈ doc) (hht : host ∈ hs.tables) (hts : ts ∈ doc) (htt : target ∈ ts.tables)
    (hne : hs.id ≠ ts.id) (hu : (tableNames doc).count target.name = 1) :
    resolveTable doc host.id (.table target.name) = some target.id := by
  have hall : (flat doc).filter (fun p => decide (p.2.name = target.name)) = [(ts.id, target)] :=
    filter_eq_singleton_of_count (fun p : Nat × Table => p.2.name) target.name (flat doc) (ts.id, target)
      (mem_flat hts htt) rfl (by simpa [tableNames] using hu)
  simp only [resolveTable, sheetOf_of_mem h hhs hht]
  have hf : (flat doc).filter (fun p => decide (some p.1 = some hs.id ∧ p.2.name = target.name)) = [] := by
    apply List.filter_eq_nil_iff.2
    intro p hp hcond
    simp only [Option.some.injEq, decide_eq_true_eq] at hcond
    have hmem : p ∈ (flat doc).filter (fun p => decide (p.2.name = target.name)) := by
      simp [List.mem_filter, hp, hcond.2]
    rw [hall] at hmem
    have : p = (ts.id, target) := by simpa using hmem
    rw [this] at hcond
    exact hne hcond.1.symm
  rw [hf]
  simp only
  rw [hall]

theorem resolve_sheet_table {doc : Doc} (h : NamesOK doc) {ts : Sheet} {target : Table}
    (hts : ts ∈ doc) (htt : target ∈ ts.tables) (host : Nat) :
    resolveTable doc host (.sheetTable ts.name target.name) = some target.id := by
  simp only [resolveTable]
  have h1 : doc.filter (fun sh => decide (sh.name = ts.name)) = [ts] :=
    filter_key_of_nodup (fun x : Sheet => x.name) doc ts hts h.sheetNames
  rw [h1]
  simp only
  rw [tables_filter_name h hts htt]

/-- the qualification `expand_ref` chooses for a plain (A1 / numeric) reference resolves to the target. -/
theorem choosePrefix_resolves {doc : Doc} (h : NamesOK doc) {hs ts : Sheet} {host target : Table}
    (hhs : hs ∈ doc) (hht : host ∈ hs.tables) (hts : ts ∈ doc) (htt : target ∈ ts.tables)
    (isAbs : Bool) (p : Prefix) (hp : choosePrefix doc host.id target.id none isAbs = .ok p) :
    resolveTable doc host.id p = some target.id := by
  unfold choosePrefix at hp
  by_cases heq : host.id = target.id
  · simp only [heq, if_true, Except.ok.injEq] at hp
    subst hp
    simp [resolveTable, heq]
  · simp only [heq, if_false, findTable_of_mem h hts htt, sheetOf_of_mem h hhs hht,
      sheetOf_of_mem h hts htt, bind, Except.bind] at hp
    by_cases hsame : hs.id = ts.id
    · have hst := sheet_eq_of_id h hhs hts hsame
      subst hst
      simp at hp
      subst hp
      exact resolve_table_same_sheet h hhs hht htt
    · by_cases hu : (tableNames doc).count target.name = 1
      · simp [hsame, hu] at hp
        subst hp
        exact resolve_table_unique h hhs hht hts htt hsame hu
      · simp [hsame, hu, sheetNameText_of_mem h hts] at hp
        subst hp
        exact resolve_sheet_table h hts htt host.id



/-! ### A1 / numeric reference text is never quoted -/

/-- the characters A1-style and numeric reference texts are made of. -/
def refChar (c : Char) : Bool := c = '$' || isUpper c || isAsciiDigit c

theorem hasSub_head_not_mem (h : Char) (t s : Text) (hn : h ∉ s) : hasSub (h :: t) s = false := by
  induction s with
  | nil => simp [hasSub]
  | cons c r ih =>
    have hc : h ≠ c := fun e => hn (by simp [e])
    have hr : h ∉ r := fun hm => hn (by simp [hm])
    simp [hasSub, List.isPrefixOf, hc, ih hr]

theorem opKeys_not_refChar :
    Gen.OPERATOR_PRECEDENCE.all (fun k => match k.1 with | c :: _ => !refChar c | [] => false) = true := by
  decide

theorem quoteRef_of_refChars (s : Text) (hs : ∀ c ∈ s, refChar c = true) : quoteRef s = s := by
  unfold quoteRef
  have h1 : Gen.OPERATOR_PRECEDENCE.any (fun k => hasSub k.1 s) = false := by
    rw [List.any_eq_false]
    intro k hk
    have hall := List.all_eq_true.1 opKeys_not_refChar k hk
    cases hk1 : k.1 with
    | nil => rw [hk1] at hall; simp at hall
    | cons c t =>
      rw [hk1] at hall
      simp only [Bool.not_eq_true'] at hall
      have hn : c ∉ s := fun hm => by rw [hs c hm] at hall; exact absurd hall (by simp)
      simp [hasSub_head_not_mem c t s hn]
  have h2 : s.contains '\'' = false := by
    rw [Bool.eq_false_iff]
    intro hc
    have hm : '\'' ∈ s := by simpa using hc
    have := hs _ hm
    exact absurd this (by decide)
  simp only [h1, h2, Bool.false_eq_true, if_false]

theorem refChar_upper {c : Char} (h : isUpper c = true) : refChar c = true := by simp [refChar, h]
theorem refChar_digit {c : Char} (h : isAsciiDigit c = true) : refChar c = true := by simp [refChar, h]

theorem natStr_refChars (n : Nat) : ∀ c ∈ natStr n, refChar c = true := by
  intro c hc
  rw [natStr_eq] at hc
  exact refChar_digit (natStrSpec_all_digits n c hc)

theorem dollar_refChars (b : Bool) : ∀ c ∈ (if b then ['$'] else []), refChar c = true := by
  intro c hc; cases b <;> simp at hc; subst hc; decide

theorem forall_mem_append {p : Char → Prop} {a b : Text} (ha : ∀ c ∈ a, p c) (hb : ∀ c ∈ b, p c) :
    ∀ c ∈ a ++ b, p c := by
  intro c hc; rcases List.mem_append.1 hc with h | h
  · exact ha c h
  · exact hb c h

/-- `xl_rowcol_to_cell` text: optional `$`, letters, optional `$`, digits. -/
theorem cellText_refChars (r c : Nat) (ra ca : Bool) :
    ∀ ch ∈ (if ca then ['$'] else []) ++ letters c ++ (if ra then ['$'] else []) ++ natStr (r + 1),
      refChar ch = true :=
  forall_mem_append (forall_mem_append (forall_mem_append (dollar_refChars ca)
    (fun ch h => refChar_upper (letters_upper c ch h))) (dollar_refChars ra)) (natStr_refChars (r + 1))

theorem colName_ok (c : Nat) (ca : Bool) :
    colName (c : Int) ca = .ok ((if ca then ['$'] else []) ++ letters c) := by
  have : ¬ ((c : Int) < 0) := by omega
  simp [colName, this]

theorem colText_refChars (c : Nat) (ca : Bool) :
    ∀ ch ∈ (if ca then ['$'] else []) ++ letters c, refChar ch = true :=
  forall_mem_append (dollar_refChars ca) (fun ch h => refChar_upper (letters_upper c ch h))

theorem rowNum_nat (r : Nat) : rowNum (r : Int) = natStr (r + 1) := by
  have h : ¬ ((r : Int) + 1 < 0) := by omega
  have h2 : ((r : Int) + 1).toNat = r + 1 := by omega
  simp [rowNum, intStr, h, h2]

theorem rowText_refChars (r : Nat) (ra : Bool) :
    ∀ ch ∈ (if ra then ['$'] else []) ++ natStr (r + 1), refChar ch = true :=
  forall_mem_append (dollar_refChars ra) (natStr_refChars (r + 1))

/-! ### expand_ref on plain references -/

theorem expandPlain_prefixed (doc : Doc) (cr : CellRange) (s : Text) (isAbs : Bool) :
    expandPlain doc cr s isAbs false =
      (choosePrefix doc cr.fromTable cr.toTable none isAbs).bind
        (fun p => .ok (renderPrefix p ++ quoteRef ((if isAbs then ['$'] else []) ++ s))) := by
  simp [expandPlain, expandRef, bind, Except.bind]

theorem expandPlain_bare (doc : Doc) (cr : CellRange) (s : Text) (isAbs : Bool) :
    expandPlain doc cr s isAbs true = .ok (quoteRef ((if isAbs then ['$'] else []) ++ s)) := by
  simp [expandPlain, expandRef]

/-- `choosePrefix` does not depend on `isAbs` for plain references. -/
theorem choosePrefix_plain_abs (doc : Doc) (a b : Nat) (x y : Bool) :
    choosePrefix doc a b none x = choosePrefix doc a b none y := by
  simp [choosePrefix]

/-! ### node_to_ref on the stored encodings -/

theorem resolve_encodeAxis (host maxVal : Int) (s : StoredAxis) (short : Bool) :
    resolveRange s.bAbs (encodeAxis host s short).2 (encodeAxis host s short).1 host maxVal = .ok s.b ∧
    resolveRangeEnd s.eAbs (encodeAxis host s short).2 (encodeAxis host s short).1 host maxVal = .ok s.e := by
  obtain ⟨b, e, bAbs, eAbs⟩ := s
  cases bAbs <;> cases eAbs <;> by_cases hse : short = true <;> by_cases hbe : b = e <;>
    simp [encodeAxis, resolveRange, resolveRangeEnd, first, rangeEnd, bind, Except.bind, pure, Except.pure, hse, hbe] <;>
    (try omega) <;> (try (constructor <;> omega))

theorem openToNone_ne (v m : Int) (h : v ≠ m) : openToNone v m = some v := by simp [openToNone, h]

theorem nodeToRef_encodeRect (tid : Nat) (row col : Int) (rs cs : StoredAxis) (short : Bool) (tgt : Option Nat)
    (h1 : rs.b ≠ ROW_OPEN) (h2 : rs.e ≠ ROW_OPEN) (h3 : cs.b ≠ COL_OPEN) (h4 : cs.e ≠ COL_OPEN) :
    nodeToRef tid row col (encodeRect row col rs cs short tgt) =
      .ok { rowStart := some rs.b, rowEnd := some rs.e, colStart := some cs.b, colEnd := some cs.e,
            rowStartAbs := rs.bAbs, rowEndAbs := rs.eAbs, colStartAbs := cs.bAbs, colEndAbs := cs.eAbs,
            fromTable := tid, toTable := tgt.getD tid } := by
  obtain ⟨r1, r2⟩ := resolve_encodeAxis row ROW_OPEN rs short
  obtain ⟨c1, c2⟩ := resolve_encodeAxis col COL_OPEN cs short
  simp only [nodeToRef, encodeRect, if_true, r1, r2, c1, c2, bind, Except.bind,
    openToNone_ne _ _ h1, openToNone_ne _ _ h2, openToNone_ne _ _ h3, openToNone_ne _ _ h4]
  cases tgt <;> rfl

theorem nodeToRef_cell (tid : Nat) (row col : Int) (n : RefNode) (hn : n.hasTract = false)
    (hr : n.hasRow = true) (hc : n.hasCol = true) :
    nodeToRef tid row col n =
      .ok { rowStart := some (if n.rowAbs then n.row else row + n.row),
            colStart := some (if n.colAbs then n.col else col + n.col),
            rowStartAbs := n.rowAbs, colStartAbs := n.colAbs,
            fromTable := tid, toTable := n.toTable.getD tid } := by
  simp only [nodeToRef, hn, hr, hc, Bool.false_eq_true, if_false, not_true_eq_false, and_false, and_self]
  cases n.toTable <;> rfl



/-- A1 text of a cell with its `$` marks. -/
def a1Text (r c : Nat) (ra ca : Bool) : Text :=
  (if ca then ['$'] else []) ++ letters c ++ (if ra then ['$'] else []) ++ natStr (r + 1)

theorem rowcolToCell_a1 (r c : Nat) (ra ca : Bool) : rowcolToCell r c ra ca = .ok (a1Text r c ra ca) :=
  Props.C10.rowcolToCell_ok r c ra ca

theorem quoteRef_a1 (r c : Nat) (ra ca : Bool) : quoteRef (a1Text r c ra ca) = a1Text r c ra ca :=
  quoteRef_of_refChars _ (cellText_refChars r c ra ca)

theorem refText_cell (doc : Doc) (cache : List TableCache) (hcache : nameCache false doc = .ok cache)
    (tid : Nat) (row col : Int) (n : RefNode) (hn : n.hasTract = false) (hr : n.hasRow = true)
    (hc : n.hasCol = true) (r' c' : Nat)
    (hr' : (if n.rowAbs then n.row else row + n.row) = (r' : Int))
    (hc' : (if n.colAbs then n.col else col + n.col) = (c' : Int))
    (p : Prefix) (hp : choosePrefix doc tid (n.toTable.getD tid) none false = .ok p) :
    refText false doc tid row col n = .ok (renderPrefix p ++ a1Text r' c' n.rowAbs n.colAbs) := by
  unfold refText
  rw [nodeToRef_cell tid row col n hn hr hc, hr', hc']
  simp only [bind, Except.bind, rangeStr, hcache, formatCellRange, rowcolToCell_a1, expandPlain_prefixed,
    hp, quoteRef_a1, if_false, Bool.false_eq_true, List.nil_append]

theorem refText_rect (doc : Doc) (cache : List TableCache) (hcache : nameCache false doc = .ok cache)
    (tid : Nat) (row col : Int) (rb re cb ce : Nat) (rbAbs reAbs cbAbs ceAbs : Bool) (short : Bool)
    (tgt : Option Nat)
    (hrb : rb < 0x7FFFFFFF) (hre : re < 0x7FFFFFFF) (hcb : cb < 0x7FFF) (hce : ce < 0x7FFF)
    (p : Prefix) (hp : choosePrefix doc tid (tgt.getD tid) none false = .ok p) :
    refText false doc tid row col
      (encodeRect row col ⟨rb, re, rbAbs, reAbs⟩ ⟨cb, ce, cbAbs, ceAbs⟩ short tgt) =
      .ok (renderPrefix p ++ a1Text rb cb rbAbs cbAbs ++ [':'] ++ a1Text re ce reAbs ceAbs) := by
  unfold refText
  rw [nodeToRef_encodeRect tid row col _ _ short tgt (by simp [ROW_OPEN]; omega) (by simp [ROW_OPEN]; omega)
    (by simp [COL_OPEN]; omega) (by simp [COL_OPEN]; omega)]
  simp only [bind, Except.bind, rangeStr, hcache, formatCellRange, rowcolToCell_a1, expandPlain_prefixed,
    expandPlain_bare, hp, quoteRef_a1, if_false, Bool.false_eq_true, List.nil_append, colon]

theorem resolveRange_open (off m : Int) :
    resolveRange false [{ rbegin := m, rend := none }] [] off m = .ok m ∧
    resolveRangeEnd false [{ rbegin := m, rend := none }] [] off m = .ok m := by
  simp [resolveRange, resolveRangeEnd, first, rangeEnd, bind, Except.bind, pure, Except.pure]

theorem nodeToRef_encodeRows (tid : Nat) (row col : Int) (rs : StoredAxis) (short : Bool) (tgt : Option Nat)
    (h1 : rs.b ≠ ROW_OPEN) (h2 : rs.e ≠ ROW_OPEN) :
    nodeToRef tid row col (encodeRows row rs short tgt) =
      .ok { rowStart := some rs.b, rowEnd := some rs.e, rowStartAbs := rs.bAbs, rowEndAbs := rs.eAbs,
            fromTable := tid, toTable := tgt.getD tid } := by
  obtain ⟨r1, r2⟩ := resolve_encodeAxis row ROW_OPEN rs short
  obtain ⟨c1, c2⟩ := resolveRange_open col COL_OPEN
  simp only [nodeToRef, encodeRows, if_true, r1, r2, c1, c2, bind, Except.bind,
    openToNone_ne _ _ h1, openToNone_ne _ _ h2]
  cases tgt <;> simp [openToNone]

theorem nodeToRef_encodeCols (tid : Nat) (row col : Int) (cs : StoredAxis) (short : Bool) (tgt : Option Nat)
    (h1 : cs.b ≠ COL_OPEN) (h2 : cs.e ≠ COL_OPEN) :
    nodeToRef tid row col (encodeCols col cs short tgt) =
      .ok { colStart := some cs.b, colEnd := some cs.e, colStartAbs := cs.bAbs, colEndAbs := cs.eAbs,
            fromTable := tid, toTable := tgt.getD tid } := by
  obtain ⟨r1, r2⟩ := resolve_encodeAxis col COL_OPEN cs short
  obtain ⟨c1, c2⟩ := resolveRange_open row ROW_OPEN
  simp only [nodeToRef, encodeCols, if_true, r1, r2, c1, c2, bind, Except.bind,
    openToNone_ne _ _ h1, openToNone_ne _ _ h2]
  cases tgt <;> simp [openToNone]

/-- numeric whole-row span: `[prefix]($)b+1:($)e+1`. -/
theorem refText_rows_numeric (doc : Doc) (cache : List TableCache) (hcache : nameCache false doc = .ok cache)
    (tid : Nat) (row col : Int) (rb re : Nat) (rbAbs reAbs : Bool) (short : Bool) (tgt : Option Nat)
    (hrb : rb < 0x7FFFFFFF) (hre : re < 0x7FFFFFFF)
    (tc : TableCache) (htc : cacheOf cache (tgt.getD tid) = .ok tc)
    (hunnamed : rangeAt tc.rows rb = .ok none)
    (p : Prefix) (hp : choosePrefix doc tid (tgt.getD tid) none rbAbs = .ok p) :
    refText false doc tid row col (encodeRows row ⟨rb, re, rbAbs, reAbs⟩ short tgt) =
      .ok (renderPrefix p ++ ((if rbAbs then ['$'] else []) ++ natStr (rb + 1)) ++ [':'] ++
            ((if reAbs then ['$'] else []) ++ natStr (re + 1))) := by
  unfold refText
  rw [nodeToRef_encodeRows tid row col _ short tgt (by simp [ROW_OPEN]; omega) (by simp [ROW_OPEN]; omega)]
  simp only [bind, Except.bind, rangeStr, hcache, htc, formatRowRange, hunnamed, rowNum_nat,
    expandPlain_prefixed, expandPlain_bare, hp, quoteRef_of_refChars _ (rowText_refChars _ _), colon]

/-- numeric whole-column span: `[prefix]($)B:($)E`. -/
theorem refText_cols_numeric (doc : Doc) (cache : List TableCache) (hcache : nameCache false doc = .ok cache)
    (tid : Nat) (row col : Int) (cb ce : Nat) (cbAbs ceAbs : Bool) (short : Bool) (tgt : Option Nat)
    (hcb : cb < 0x7FFF) (hce : ce < 0x7FFF)
    (tc : TableCache) (htc : cacheOf cache (tgt.getD tid) = .ok tc)
    (hunnamed : rangeAt tc.cols cb = .ok none)
    (p : Prefix) (hp : choosePrefix doc tid (tgt.getD tid) none false = .ok p) :
    refText false doc tid row col (encodeCols col ⟨cb, ce, cbAbs, ceAbs⟩ short tgt) =
      .ok (renderPrefix p ++ ((if cbAbs then ['$'] else []) ++ letters cb) ++ [':'] ++
            ((if ceAbs then ['$'] else []) ++ letters ce)) := by
  unfold refText
  rw [nodeToRef_encodeCols tid row col _ short tgt (by simp [COL_OPEN]; omega) (by simp [COL_OPEN]; omega)]
  simp only [bind, Except.bind, rangeStr, hcache, htc, formatColRange, hunnamed, colName_ok,
    expandPlain_prefixed, expandPlain_bare, hp, quoteRef_of_refChars _ (colText_refChars _ _), colon,
    List.nil_append, if_false, Bool.false_eq_true]



/-! ### name scopes -/

/-- what `_calculate_name_scopes` keeps as a name: never the empty text (fixed code), and only texts that
    occur once among the counted header texts `allNames` of the table. -/
theorem axisLoop_kept (pinned : Bool) (labels allNames : List Text) (first : Nat) :
    ∀ (idxs : List Nat) (sc nm : List (Option Text)),
      axisLoop pinned labels allNames first idxs = .ok (sc, nm) →
      ∀ n, some n ∈ sc → allNames.count n ≤ 1 ∧ (pinned = false → n ≠ [])
  | [], sc, nm, h, n, hn => by
    simp only [axisLoop, Except.ok.injEq, Prod.mk.injEq] at h
    rw [← h.1] at hn; simp at hn
  | idx :: rest, sc, nm, h, n, hn => by
    simp only [axisLoop, bind, Except.bind] at h
    cases hrec : axisLoop pinned labels allNames first rest with
    | error e => rw [hrec] at h; simp at h
    | ok pr =>
      obtain ⟨sc', nm'⟩ := pr
      have ih := axisLoop_kept pinned labels allNames first rest sc' nm' hrec
      rw [hrec] at h
      simp only at h
      by_cases hlt : idx < first
      · simp only [hlt, if_true, Except.ok.injEq, Prod.mk.injEq] at h
        rw [← h.1] at hn
        rcases List.mem_cons.1 hn with h1 | h1
        · simp at h1
        · exact ih n h1
      · simp only [hlt, if_false] at h
        cases hl : labelAt labels idx with
        | error e => rw [hl] at h; simp at h
        | ok name =>
          rw [hl] at h
          simp only at h
          by_cases hemp : (!pinned && name.isEmpty) = true
          · simp only [hemp, if_true, Except.ok.injEq, Prod.mk.injEq] at h
            rw [← h.1] at hn
            rcases List.mem_cons.1 hn with h1 | h1
            · simp at h1
            · exact ih n h1
          · simp only [hemp, Bool.false_eq_true, if_false] at h
            by_cases hcnt : allNames.count name > 1
            · simp only [hcnt, if_true, Except.ok.injEq, Prod.mk.injEq] at h
              rw [← h.1] at hn
              rcases List.mem_cons.1 hn with h1 | h1
              · simp at h1
              · exact ih n h1
            · simp only [hcnt, if_false, Except.ok.injEq, Prod.mk.injEq] at h
              rw [← h.1] at hn
              rcases List.mem_cons.1 hn with h1 | h1
              · have hnn : n = name := by simpa using h1
                subst hnn
                refine ⟨by omega, ?_⟩
                intro hp
                subst hp
                intro hnil
                subst hnil
                simp at hemp
              · exact ih n h1



theorem axisScopes_kept (labels : List Text) (first rangeEnd thisHeader : Nat) (otherLabels : List Text)
    (otherFirst otherEnd : Nat) (sc nm : List (Option Text))
    (h : axisScopes false labels first rangeEnd thisHeader otherLabels otherFirst otherEnd = .ok (sc, nm)) :
    ∀ n, some n ∈ sc → n ≠ [] ∧
      ∃ own, labelsRange labels first rangeEnd = .ok own ∧ own.count n ≤ 1 := by
  intro n hn
  unfold axisScopes at h
  by_cases h0 : thisHeader = 0
  · simp only [h0, if_true, Except.ok.injEq, Prod.mk.injEq] at h
    rw [← h.1] at hn
    simp [List.mem_replicate] at hn
  · simp only [h0, if_false, bind, Except.bind] at h
    cases hown : labelsRange labels first rangeEnd with
    | error e => rw [hown] at h; simp at h
    | ok own =>
      rw [hown] at h
      simp only at h
      by_cases hf : first > 0
      · simp only [Bool.not_false, Bool.true_and, hf, decide_true, if_true] at h
        cases hoth : labelsRange otherLabels otherFirst otherEnd with
        | error e => rw [hoth] at h; simp [bind, Except.bind] at h
        | ok other =>
          rw [hoth] at h
          simp only [bind, Except.bind, pure, Except.pure] at h
          obtain ⟨h1, h2⟩ := axisLoop_kept false labels (own ++ other) first _ sc nm h n hn
          refine ⟨h2 rfl, own, rfl, ?_⟩
          rw [List.count_append] at h1; omega
      · simp only [Bool.not_false, Bool.true_and, hf, decide_false, Bool.false_eq_true, if_false, pure,
          Except.pure] at h
        obtain ⟨h1, h2⟩ := axisLoop_kept false labels own first _ sc nm h n hn
        exact ⟨h2 rfl, own, rfl, h1⟩

theorem scopeOf_document (docNames sheetNames : List (Option Text)) (tableNames : List Text) (tname name : Text) :
    scopeOf docNames sheetNames tableNames tname name = .document ↔ docNames.count (some name) = 1 := by
  unfold scopeOf
  by_cases h : docNames.count (some name) = 1
  · simp [h]
  · simp only [h, if_false, iff_false]
    split <;> [skip; split] <;> simp


end NumbersModel.Refs
