import NumbersModel.Model.Loader
namespace NumbersModel.Loader
open NumbersModel

/-- the outcomes the property allows -/
def Allowed {α} (x : Ext) (r : PyM α) : Prop :=
  (∃ a, r = .ok a) ∨ (∃ e, r = .error e ∧ (isLibraryError e = true ∨ x.isWarning e = true))

/-- `_open_zipfile` turns BadZipFile into FileFormatError and passes everything else through. -/
theorem openZipfile_spec (r : PyM Nat) :
    openZipfile r = match r with
      | .ok z => .ok z
      | .error e => if e = .BadZipFile then .error .FileFormatError else .error e := by
  unfold openZipfile
  split
  · simp
  · rename_i h
    cases r with
    | ok z => rfl
    | error e =>
      have : e ≠ .BadZipFile := fun he => h (by rw [he])
      simp [this]

/-- `_store_blob` (fixed): once `is_iwa_file` has answered, whatever `IWAFile.from_buffer` does and whatever it
    returns (no chunk, a segment without objects, …) the outcome is success or FileFormatError. -/
theorem storeBlob_closed (x : Ext) (name : Text) (blob : Nat) (st : Store) (b : Bool)
    (hs : x.sniff blob = .ok b) :
    (∃ st', storeBlob fixed x name blob st = .ok st') ∨ storeBlob fixed x name blob st = .error .FileFormatError := by
  unfold storeBlob
  by_cases hn : endsWith name ".iwa".toList = true
  · simp only [hn, if_true, hs, bind, Except.bind, fixed]
    cases b with
    | false => left; exact ⟨_, rfl⟩
    | true =>
      simp only [if_true]
      split
      · left; exact ⟨_, rfl⟩
      · right; rfl
  · simp only [hn]
    left; exact ⟨_, rfl⟩

/-- if the sniffer itself raises, that exception is what `_store_blob` raises (it is outside the `try`). -/
theorem storeBlob_sniff_raises (v : Variant) (x : Ext) (name : Text) (blob : Nat) (st : Store) (e : PyExc)
    (hn : endsWith name ".iwa".toList = true) (hs : x.sniff blob = .error e) :
    storeBlob v x name blob st = .error e := by
  unfold storeBlob
  rw [if_pos hn]
  simp [hs, bind, Except.bind]

/-- the boundary: whatever `_open` does, `open` returns or raises a library error or a Warning. -/
theorem open_closed (x : Ext) : Allowed x (open_ fixed x) := by
  unfold open_ Allowed
  cases h : openBody fixed x with
  | ok st => left; exact ⟨st, rfl⟩
  | error e =>
    right
    simp only [fixed, Bool.not_true, Bool.false_eq_true, if_false]
    by_cases h1 : (isLibraryError e || x.isWarning e) = true
    · refine ⟨e, by simp [h1], ?_⟩
      simpa [Bool.or_eq_true] using h1
    · simp only [h1]
      by_cases h2 : x.isOSError e = true
      · exact ⟨.FileError, by simp [h2], Or.inl rfl⟩
      · exact ⟨.FileFormatError, by simp [h2], Or.inl rfl⟩

theorem load_closed (x : Ext) : Allowed x (load fixed x) := by
  unfold load
  rcases open_closed x with ⟨st, h⟩ | ⟨e, h, he⟩
  · rw [h]
    simp only [bind, Except.bind, fixed]
    by_cases hemp : st.objs.isEmpty = true
    · right; exact ⟨.FileFormatError, by simp [hemp], Or.inl rfl⟩
    · left; simp [hemp]
  · right
    rw [h]
    exact ⟨e, rfl, he⟩

end NumbersModel.Loader
