/-
Acceptance of quoted reference texts by the tokenizer (C18 clause 4): what `sqMatch` consumes on a
chain of quoted names `'a':'b'…`, and the loop iteration that meets an apostrophe at the start of an
operand, behind a `Table::` prefix, or after a range colon.
-/
import NumbersModel.Lemmas.TokenizerQuotes
import NumbersModel.Model.TokenizerCfg
namespace NumbersModel.Tokenizer
open NumbersModel

/-- `'b1':'b2':…` — quoted names (no apostrophe inside) joined by single colons. -/
inductive SQChain : List Char → Prop
  | one (b : List Char) : (∀ c ∈ b, c ≠ '\'') → SQChain ('\'' :: (b ++ ['\'']))
  | more (b rest : List Char) : (∀ c ∈ b, c ≠ '\'') → SQChain rest → SQChain ('\'' :: (b ++ '\'' :: ':' :: rest))

/-- what follows the chain does not continue the quoted-name regex: nothing; a character that is neither
    white space, a colon nor an apostrophe; or a colon followed by such a character. -/
def StopsSq (ws : List Nat) (y : List Char) : Prop :=
  y = [] ∨ (∃ c r, y = c :: r ∧ isWs ws c = false ∧ c ≠ ':' ∧ c ≠ '\'') ∨
    (∃ c r, y = ':' :: c :: r ∧ isWs ws c = false ∧ c ≠ '\'')

theorem stopsSq_no_apostrophe {ws : List Nat} {y : List Char} (h : StopsSq ws y) : ∀ cs', y = '\'' :: cs' → False := by
  intro cs' e
  rcases h with rfl | ⟨c, r, rfl, _, _, h3⟩ | ⟨c, r, rfl, _, _⟩
  · cases e
  · injection e with e1 _; exact h3 e1
  · injection e with e1 _; exact absurd e1 (by decide)

theorem sqScan_body (b y : List Char) (hb : ∀ c ∈ b, c ≠ '\'') (hy : ∀ cs', y = '\'' :: cs' → False) :
    ∀ (n : Nat) (fb : Option Nat), sqScan (b ++ '\'' :: y) n fb = some (n + b.length + 1) := by
  induction b with
  | nil => intro n fb; simpa using sqScan_lone y n fb hy
  | cons c b ih =>
    intro n fb
    simp only [List.cons_append]
    rw [sqScan_ne c _ n fb (hb c (by simp)), ih (fun x hx => hb x (by simp [hx]))]
    simp only [List.length_cons]; congr 1; omega

theorem sqPart_body (b y : List Char) (hb : ∀ c ∈ b, c ≠ '\'') (hy : ∀ cs', y = '\'' :: cs' → False) :
    sqPart ('\'' :: (b ++ '\'' :: y)) = some (b.length + 2) := by
  show (sqScan (b ++ '\'' :: y) 0 none).map (· + 1) = _
  rw [sqScan_body b y hb hy]; simp

theorem sqCont_stop {ws : List Nat} {y : List Char} (h : StopsSq ws y) : ∀ f, sqCont ws f y = 0 := by
  intro f
  cases f with
  | zero => rfl
  | succ f =>
    rcases h with rfl | ⟨c, r, rfl, h1, h2, _⟩ | ⟨c, r, rfl, h1, h3⟩
    · simp [sqCont]
    · have : (c :: r).dropWhile (isWs ws) = c :: r := by simp [List.dropWhile, h1]
      simp only [sqCont, this]
      split
      · rename_i s2 heq; injection heq with e _; exact absurd e h2
      · rfl
    · have hc : isWs ws ':' = false ∨ isWs ws ':' = true := by cases isWs ws ':' <;> simp
      rcases hc with hc | hc
      · have e1 : (':' :: c :: r).dropWhile (isWs ws) = ':' :: c :: r := by simp [List.dropWhile, hc]
        have e2 : (c :: r).dropWhile (isWs ws) = c :: r := by simp [List.dropWhile, h1]
        have e3 : sqPart (c :: r) = none := by
          unfold sqPart
          split
          · rename_i r' heq; injection heq with e _; exact absurd e h3
          · rfl
        simp only [sqCont, e1, e2, e3]
      · -- a colon that is white space: the whole prefix is skipped, then what is left does not start with `:`
        have e1 : (':' :: c :: r).dropWhile (isWs ws) = c :: r := by simp [List.dropWhile, hc, h1]
        simp only [sqCont, e1]
        split
        · rename_i s2 heq
          injection heq with e _
          rw [e] at h1; rw [h1] at hc; cases hc
        · rfl

theorem colon_not_ws : isWs liveCfg.ws ':' = false := by decide
theorem apostrophe_not_ws : isWs liveCfg.ws '\'' = false := by decide

/-- a continuation `:'b1':'b2'…` is consumed whole. -/
theorem sqCont_chain : ∀ {q : List Char}, SQChain q → ∀ (y : List Char), StopsSq liveCfg.ws y →
    ∀ f, q.length ≤ f → sqCont liveCfg.ws f (':' :: (q ++ y)) = 1 + q.length := by
  intro q hq
  induction hq with
  | one b hb =>
    intro y hy f hf
    obtain ⟨f', rfl⟩ : ∃ f', f = f' + 1 := ⟨f - 1, by simp at hf; omega⟩
    have e1 : (':' :: ('\'' :: (b ++ ['\'']) ++ y)).dropWhile (isWs liveCfg.ws) = ':' :: ('\'' :: (b ++ ['\'']) ++ y) := by
      simp [List.dropWhile, colon_not_ws]
    have e2 : ('\'' :: (b ++ ['\'']) ++ y).dropWhile (isWs liveCfg.ws) = '\'' :: (b ++ '\'' :: y) := by
      simp [List.dropWhile, apostrophe_not_ws]
    have e3 := sqPart_body b y hb (stopsSq_no_apostrophe hy)
    simp only [sqCont, e1, e2, e3]
    have hdrop : (':' :: ('\'' :: (b ++ ['\'']) ++ y)).drop
        ((':' :: ('\'' :: (b ++ ['\'']) ++ y)).length - ('\'' :: (b ++ '\'' :: y)).length + (b.length + 2)) = y := by
      have : (':' :: ('\'' :: (b ++ ['\'']) ++ y)).length - ('\'' :: (b ++ '\'' :: y)).length + (b.length + 2)
          = (':' :: '\'' :: (b ++ ['\''])).length := by simp; omega
      rw [this]
      have : ':' :: ('\'' :: (b ++ ['\'']) ++ y) = (':' :: '\'' :: (b ++ ['\''])) ++ y := by simp
      rw [this, List.drop_left]
    rw [hdrop, sqCont_stop hy]
    simp
  | more b rest hb hrest ih =>
    intro y hy f hf
    obtain ⟨f', rfl⟩ : ∃ f', f = f' + 1 := ⟨f - 1, by simp at hf; omega⟩
    have e1 : (':' :: ('\'' :: (b ++ '\'' :: ':' :: rest) ++ y)).dropWhile (isWs liveCfg.ws)
        = ':' :: ('\'' :: (b ++ '\'' :: ':' :: rest) ++ y) := by
      simp [List.dropWhile, colon_not_ws]
    have e2 : ('\'' :: (b ++ '\'' :: ':' :: rest) ++ y).dropWhile (isWs liveCfg.ws)
        = '\'' :: (b ++ '\'' :: (':' :: (rest ++ y))) := by
      simp [List.dropWhile, apostrophe_not_ws]
    have e3 := sqPart_body b (':' :: (rest ++ y)) hb (by intro cs' e; injection e with e _; exact absurd e (by decide))
    simp only [sqCont, e1, e2, e3]
    have hdrop : (':' :: ('\'' :: (b ++ '\'' :: ':' :: rest) ++ y)).drop
        ((':' :: ('\'' :: (b ++ '\'' :: ':' :: rest) ++ y)).length - ('\'' :: (b ++ '\'' :: (':' :: (rest ++ y)))).length
          + (b.length + 2)) = ':' :: (rest ++ y) := by
      have : (':' :: ('\'' :: (b ++ '\'' :: ':' :: rest) ++ y)).length - ('\'' :: (b ++ '\'' :: (':' :: (rest ++ y)))).length
          + (b.length + 2) = (':' :: '\'' :: (b ++ ['\''])).length := by simp; omega
      rw [this]
      have : ':' :: ('\'' :: (b ++ '\'' :: ':' :: rest) ++ y) = (':' :: '\'' :: (b ++ ['\''])) ++ (':' :: (rest ++ y)) := by simp
      rw [this, List.drop_left]
    rw [hdrop, ih y hy f' (by simp at hf; omega)]
    simp; omega

/-- the quoted-name scanner consumes exactly the chain. -/
theorem sqMatch_chain {q : List Char} (hq : SQChain q) (y : List Char) (hy : StopsSq liveCfg.ws y) :
    sqMatch liveCfg.ws (q ++ y) = some q.length := by
  cases hq with
  | one b hb =>
    have e3 := sqPart_body b y hb (stopsSq_no_apostrophe hy)
    have e0 : '\'' :: (b ++ ['\'']) ++ y = '\'' :: (b ++ '\'' :: y) := by simp
    rw [e0]
    unfold sqMatch
    rw [e3]
    have hdrop : ('\'' :: (b ++ '\'' :: y)).drop (b.length + 2) = y := by
      have : '\'' :: (b ++ '\'' :: y) = ('\'' :: (b ++ ['\''])) ++ y := by simp
      rw [this]; exact List.drop_left' (by simp)
    simp only [hdrop, sqCont_stop hy]
    simp
  | more b rest hb hrest =>
    have e3 := sqPart_body b (':' :: (rest ++ y)) hb (by intro cs' e; injection e with e _; exact absurd e (by decide))
    have e0 : '\'' :: (b ++ '\'' :: ':' :: rest) ++ y = '\'' :: (b ++ '\'' :: (':' :: (rest ++ y))) := by simp
    rw [e0]
    unfold sqMatch
    rw [e3]
    have hdrop : ('\'' :: (b ++ '\'' :: (':' :: (rest ++ y)))).drop (b.length + 2) = ':' :: (rest ++ y) := by
      have : '\'' :: (b ++ '\'' :: (':' :: (rest ++ y))) = ('\'' :: (b ++ ['\''])) ++ (':' :: (rest ++ y)) := by simp
      rw [this]; exact List.drop_left' (by simp)
    simp only [hdrop]
    rw [sqCont_chain hrest y hy _ (by simp; omega)]
    simp; omega

end NumbersModel.Tokenizer

namespace NumbersModel.Tokenizer
open NumbersModel

/-! ### the loop iteration at an apostrophe -/

theorem step_sq {st : St} {x : List Char} {n : Nat} (hr : st.rest = '\'' :: x)
    (ht : st.token = [] ∨ st.token.getLast? = some ':') (hm : sqMatch liveCfg.ws st.rest = some n) :
    step liveCfg st = .ok (if st.token ≠ [] then { st with token := st.token ++ st.rest.take n, rest := st.rest.drop n }
      else { st with items := st.items ++ [makeOperand (st.rest.take n)], rest := st.rest.drop n }) := by
  have hg : quoteGuard st = .ok () := by
    unfold quoteGuard linked
    rw [hr]
    rcases ht with h | h
    · simp [assertEmpty, h]
    · simp [h]
  have hps : parseString liveCfg.ws st = .ok (if st.token ≠ [] then { st with token := st.token ++ st.rest.take n, rest := st.rest.drop n }
      else { st with items := st.items ++ [makeOperand (st.rest.take n)], rest := st.rest.drop n }) := by
    unfold parseString
    simp only [hg, bind, Except.bind]
    obtain ⟨items, stack, token, rest⟩ := st
    simp only at hr hm ⊢
    subst hr
    simp only [hm]
    split
    · rename_i heq
      split at heq
      · rename_i tl e; injection e with e1 _; exact absurd e1 (by decide)
      · cases heq
    · rename_i m heq
      split at heq
      · rename_i tl e; injection e with e1 _; exact absurd e1 (by decide)
      · injection heq with heq
        subst heq
        by_cases htk : token ≠ []
        · simp [htk]
        · simp [htk]
  unfold step
  rw [hr]
  have hsci : ¬ ((('\'' : Char) = '+' ∨ ('\'' : Char) = '-') ∧ st.token.length ≥ 1 ∧ snMatch st.token = true) := by
    rintro ⟨h | h, _⟩ <;> exact absurd h (by decide)
  have hend : liveCfg.enders.contains '\'' = false := by decide
  simp only [hsci, if_false, hend, Bool.false_eq_true, or_true, if_true]
  rw [← hr]; exact hps

theorem snTail_cases {x : List Char} (h : snTail x = true) : x = ['E'] ∨ x = ['E', '\n'] := by
  unfold snTail at h
  split at h
  · exact Or.inl rfl
  · exact Or.inr rfl
  · cases h

/-- an operand of the `1E` / `2.5E` shape consists of digits, `.`, `E` and at most a trailing newline. -/
theorem snMatch_chars {t : List Char} (h : snMatch t = true) :
    ∀ c ∈ t, isDigit09 c = true ∨ c = '.' ∨ c = 'E' ∨ c = '\n' := by
  cases t with
  | nil => simp [snMatch] at h
  | cons d r =>
    unfold snMatch at h
    by_cases hd : '1' ≤ d ∧ d ≤ '9'
    · simp only [hd, and_self, if_true] at h
      have hd0 : isDigit09 d = true := by
        unfold isDigit09
        simp only [decide_eq_true_eq]
        refine ⟨?_, hd.2⟩
        have h01 : ('0' : Char) ≤ '1' := by decide
        exact Char.le_trans h01 hd.1
      intro c hc
      rcases List.mem_cons.1 hc with rfl | hc
      · exact Or.inl hd0
      · have tailOK : ∀ x : List Char, snTail x = true → ∀ c ∈ x, c = 'E' ∨ c = '\n' := by
          intro x hx c hc
          rcases snTail_cases hx with rfl | rfl <;> simp at hc <;> rcases hc with rfl | rfl <;> simp
        cases r with
        | nil => simp [snTail] at h
        | cons c2 r' =>
          by_cases hc2 : c2 = '.'
          · subst hc2
            simp only [Bool.and_eq_true, decide_eq_true_eq] at h
            have hsplit : r' = r'.takeWhile isDigit09 ++ r'.dropWhile isDigit09 := (List.takeWhile_append_dropWhile).symm
            rcases List.mem_cons.1 hc with rfl | hc
            · exact Or.inr (Or.inl rfl)
            · rw [hsplit] at hc
              rcases List.mem_append.1 hc with h1 | h1
              · exact Or.inl (mem_takeWhile_p _ _ c h1)
              · rcases tailOK _ h.2 c h1 with e | e
                · exact Or.inr (Or.inr (Or.inl e))
                · exact Or.inr (Or.inr (Or.inr e))
          · have h' : snTail (c2 :: r') = true := by
              split at h
              · rename_i r'' heq; injection heq with e _; exact absurd e hc2
              · exact h
            rcases tailOK _ h' c hc with e | e
            · exact Or.inr (Or.inr (Or.inl e))
            · exact Or.inr (Or.inr (Or.inr e))
    · simp [hd] at h

theorem snMatch_false_of_mem {t : List Char} {c : Char} (hc : c ∈ t)
    (hn : isDigit09 c = false ∧ c ≠ '.' ∧ c ≠ 'E' ∧ c ≠ '\n') : snMatch t = false := by
  cases h : snMatch t with
  | false => rfl
  | true =>
    rcases snMatch_chars h c hc with e | e | e | e
    · rw [hn.1] at e; cases e
    · exact absurd e hn.2.1
    · exact absurd e hn.2.2.1
    · exact absurd e hn.2.2.2

end NumbersModel.Tokenizer
