/- C15: a style that was written is read back (archive level). -/
import NumbersModel.Lemmas.StyleStore
namespace NumbersModel.StyleStore
open NumbersModel

/-- where a saved cell points: its text-style key resolves to the paragraph archive `p`, its
    cell-style key to the cell archive `ca`. -/
structure Points (st : Store) (t : TableCtx) (c : CellIds) (p : ParaArc) (ca : CellArc) : Prop where
  text : ∃ k, c.textStyleId = some k ∧ tableStyle st t k = .ok (.para p)
  cell : ∃ k, c.cellStyleId = some k ∧ tableStyle st t k = .ok (.cell ca)

theorem cellTextStyle_points {st t c p ca} (h : Points st t c p ca) : cellTextStyle st t c = .ok (.para p) := by
  obtain ⟨k, hk, ht⟩ := h.text
  unfold cellTextStyle
  rw [hk]; exact ht

theorem cellStyleOf_points {st t c p ca} (h : Points st t c p ca) : cellStyleOf st t c = .ok (some ca) := by
  obtain ⟨k, hk, ht⟩ := h.cell
  unfold cellStyleOf
  rw [hk]
  simp only [ht, bind, Except.bind, asCell, pure, Except.pure]

/-- **write, then read** at the archive level: a cell that points at the two archives written for `s`
    reads `s` back (floats as the file holds them), attribute by attribute — whatever the parent references
    of the two archives are (`update_paragraph_style` keeps the old one) and whatever name the cell archive
    carries (a cell archive shared through the fingerprint carries the name of the first style). -/
theorem fromStorage_written (n : Num) (hcol : ColourOK n) (s : Sty) (hs : s.Storable)
    (imgs imgs' : Images) (hw : imgs.WF) (hag : ∀ img, s.bgImage = some img → imgs.Agrees img)
    (p : ParaArc) (ca : CellArc)
    (hp : addParagraphStyle n s = .ok p) (hc : addCellStyle n s imgs = .ok (ca, imgs'))
    (par cpar : Option Nat) (nm : Text)
    (st : Store) (t : TableCtx) (c : CellIds)
    (hpt : Points st t c { p with parent := par } { ca with parent := cpar, name := nm }) :
    fromStorage n st t imgs' c = .ok (quantize n s) := by
  obtain ⟨font, hfont, rfl⟩ := addParagraphStyle_ok n s p hp
  have hback := font_roundtrip _ _ hfont
  have hts := cellTextStyle_points hpt
  have hcs := cellStyleOf_points hpt
  have hfc := rgb_roundtrip hcol s.fontColor hs.fontColor
  have hh := enumOf_mem _ _ hs.halign
  have hv := enumOf_mem _ _ hs.valign
  unfold addCellStyle at hc
  cases himg : s.bgImage with
  | some img =>
    have hbg : s.bgColor = .none := by
      rcases hs.oneFill with h | h
      · rw [himg] at h; cases h
      · exact h
    rw [himg] at hc
    simp only [bind, Except.bind, pure, Except.pure, Except.ok.injEq, Prod.mk.injEq] at hc
    obtain ⟨rfl, rfl⟩ := hc
    obtain ⟨hfind, _⟩ := internImage_lookup imgs img hw (hag img himg)
    cases s
    simp only at himg hbg hfc hh hv hback
    subst himg hbg
    simp only [fromStorage, cellImage, cellAlignment, cellBgColor, hts, hcs, bind, Except.bind, pure, Except.pure, asPara,
      paraInherit, cellInherit, hh, hv, hfc, hback, Option.getD, Fill.empty, hfind, quantize, underline_back, strikethru_back]
  | none =>
    rw [himg] at hc
    cases hbgc : s.bgColor with
    | gradient cs =>
      rw [hbgc] at hc
      simp [bind, Except.bind, throw, throwThe, MonadExceptOf.throw] at hc
    | none =>
      rw [hbgc] at hc
      simp only [bind, Except.bind, pure, Except.pure, Except.ok.injEq, Prod.mk.injEq] at hc
      obtain ⟨rfl, rfl⟩ := hc
      cases s
      simp only at himg hbgc hfc hh hv hback
      subst himg hbgc
      simp only [fromStorage, cellImage, cellAlignment, cellBgColor, hts, hcs, bind, Except.bind, pure, Except.pure, asPara,
        paraInherit, cellInherit, hh, hv, hfc, hback, Option.getD, Fill.empty, quantize, underline_back, strikethru_back]
    | rgb col =>
      rw [hbgc] at hc
      simp only [bind, Except.bind, pure, Except.pure, Except.ok.injEq, Prod.mk.injEq] at hc
      obtain ⟨rfl, rfl⟩ := hc
      have hbc := rgb_roundtrip hcol col (hs.bgColor col hbgc)
      cases s
      simp only at himg hbgc hfc hh hv hback
      subst himg hbgc
      simp only [fromStorage, cellImage, cellAlignment, cellBgColor, hts, hcs, bind, Except.bind, pure, Except.pure, asPara,
        paraInherit, cellInherit, hh, hv, hfc, hbc, hback, Option.getD, Fill.empty, quantize, underline_back, strikethru_back]

/-- the cell archive written for a style depends on the style only through its fingerprint (and the
    bytes of the image, given its file name), apart from the name the archive carries. -/
theorem addCellStyle_of_fingerprint (n : Num) (s s' : Sty) (imgs imgs' : Images) (ca : CellArc)
    (hfp : fingerprint s = fingerprint s')
    (hfn : ∀ i i', s.bgImage = some i → s'.bgImage = some i' → i.filename = i'.filename → i = i')
    (hc : addCellStyle n s imgs = .ok (ca, imgs')) :
    addCellStyle n s' imgs = .ok ({ ca with name := s'.name }, imgs') := by
  obtain ⟨h, v, img, bg, fc, fs, fn, b, i, st, u, fi, li, ri, ti, w, nm⟩ := s
  obtain ⟨h', v', img', bg', fc', fs', fn', b', i', st', u', fi', li', ri', ti', w', nm'⟩ := s'
  simp only [fingerprint, Fingerprint.mk.injEq] at hfp
  obtain ⟨h1, -, -, -, h5, h6, h7, h8⟩ := hfp
  simp only at hfn
  subst h1 h5 h6 h7
  have himg : img = img' := by
    cases img with
    | none => cases img' with
      | none => rfl
      | some j => simp at h8
    | some i => cases img' with
      | none => simp at h8
      | some j =>
        simp only [Option.map_some, Option.some.injEq] at h8
        rw [hfn i j rfl rfl h8]
  subst himg
  unfold addCellStyle at hc ⊢
  simp only at hc ⊢
  cases img with
  | some i =>
    simp only [bind, Except.bind, pure, Except.pure, Except.ok.injEq, Prod.mk.injEq] at hc ⊢
    obtain ⟨rfl, rfl⟩ := hc
    exact ⟨rfl, rfl⟩
  | none =>
    cases bg with
    | gradient cs => simp [bind, Except.bind, throw, throwThe, MonadExceptOf.throw] at hc
    | none =>
      simp only [bind, Except.bind, pure, Except.pure, Except.ok.injEq, Prod.mk.injEq] at hc ⊢
      obtain ⟨rfl, rfl⟩ := hc
      exact ⟨rfl, rfl⟩
    | rgb col =>
      simp only [bind, Except.bind, pure, Except.pure, Except.ok.injEq, Prod.mk.injEq] at hc ⊢
      obtain ⟨rfl, rfl⟩ := hc
      exact ⟨rfl, rfl⟩

/-! ### the style ids of a saved cell -/

/-- keys are distinct and below `next_key` -/
def StyleList.WF (dl : StyleList) : Prop :=
  (dl.entries.map Prod.fst).Nodup ∧ ∀ e ∈ dl.entries, e.1 < dl.nextKey

theorem styleList_find_key {entries : List (Nat × Nat)} (hn : (entries.map Prod.fst).Nodup) (e : Nat × Nat)
    (he : e ∈ entries) : entries.find? (fun x => x.1 = e.1) = some e := by
  induction entries with
  | nil => cases he
  | cons x xs ih =>
    simp only [List.map_cons, List.nodup_cons] at hn
    rw [List.find?_cons]
    rcases List.mem_cons.mp he with rfl | hm
    · simp
    · have hne : x.1 ≠ e.1 := by
        intro h
        exact hn.1 (h ▸ List.mem_map_of_mem (f := Prod.fst) hm)
      simp only [hne, decide_false]
      exact ih hn.2 hm

/-- `lookup_key` keeps the list well formed, only appends, and the key it returns resolves to the object. -/
theorem lookupKey_spec (dl : StyleList) (obj : Nat) (hw : dl.WF) :
    (dl.lookupKey obj).2.WF ∧ (∃ ext, (dl.lookupKey obj).2.entries = dl.entries ++ ext) ∧
    ((dl.lookupKey obj).1, obj) ∈ (dl.lookupKey obj).2.entries := by
  unfold StyleList.lookupKey
  cases hf : dl.entries.find? (fun e => decide (e.2 = obj)) with
  | some e =>
    simp only
    have hm := List.mem_of_find?_eq_some hf
    have hv : e.2 = obj := by simpa using List.find?_some hf
    refine ⟨hw, ⟨[], by simp⟩, ?_⟩
    rw [← hv]; exact hm
  | none =>
    simp only
    refine ⟨⟨?_, ?_⟩, ⟨_, rfl⟩, by simp⟩
    · rw [List.map_append, List.nodup_append]
      refine ⟨hw.1, by simp, ?_⟩
      intro a ha b hb
      simp only [List.map_cons, List.map_nil, List.mem_singleton] at hb
      obtain ⟨x, hx, rfl⟩ := List.mem_map.mp ha
      have := hw.2 x hx
      omega
    · intro e he
      rcases List.mem_append.mp he with h | h
      · have := hw.2 e h; simp only; omega
      · simp only [List.mem_singleton] at h; subst h; simp

/-- a key that resolves in a well-formed list resolves to the same object in every extension of it -/
theorem tableStyle_of_mem (st : Store) (t : TableCtx) (k obj : Nat) (hn : (t.styleList.map Prod.fst).Nodup)
    (hm : (k, obj) ∈ t.styleList) : tableStyle st t k = getObj st obj := by
  unfold tableStyle
  rw [styleList_find_key hn (k, obj) hm]

/-- **the ids `_to_buffer` writes**: a cell without `_style` keeps its ids and the list is untouched; a cell
    whose style has a text object `pobj` and a cell object `cobj` is given keys that resolve to exactly
    these objects in the resulting list; the list stays well formed and is only appended to (so the keys of
    cells saved earlier, and of cells that are not restyled, resolve as before). -/
theorem toBufferIds_spec (dl : StyleList) (c : CellIds) (hw : dl.WF) :
    toBufferIds dl c none = (c, dl) ∧
    ∀ pobj cobj, let r := toBufferIds dl c (some (some pobj, some cobj))
      r.2.WF ∧ (∃ ext, r.2.entries = dl.entries ++ ext) ∧
      (∃ k, r.1.textStyleId = some k ∧ (k, pobj) ∈ r.2.entries) ∧
      (∃ k, r.1.cellStyleId = some k ∧ (k, cobj) ∈ r.2.entries) ∧ r.1.row = c.row ∧ r.1.col = c.col := by
  refine ⟨rfl, ?_⟩
  intro pobj cobj
  simp only [toBufferIds]
  obtain ⟨w1, ⟨e1, x1⟩, m1⟩ := lookupKey_spec dl pobj hw
  obtain ⟨w2, ⟨e2, x2⟩, m2⟩ := lookupKey_spec (dl.lookupKey pobj).2 cobj w1
  refine ⟨w2, ⟨e1 ++ e2, by rw [x2, x1, List.append_assoc]⟩, ⟨_, rfl, ?_⟩, ⟨_, rfl, m2⟩, trivial, trivial⟩
  rw [x2]; exact List.mem_append_left _ m1

end NumbersModel.StyleStore
