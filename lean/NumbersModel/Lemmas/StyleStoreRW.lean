/- C15: a style that was written is read back (archive level). -/
import NumbersModel.Lemmas.StyleStore
namespace NumbersModel.StyleStore
open NumbersModel

/-- where a saved cell points: its text-style key resolves to the paragraph archive `p`, its
    cell-style key to the cell archive `ca`. -/
structure Points (st : Store) (t : TableCtx) (c : CellIds) (p : ParaArc) (ca : CellArc) : Prop where
  text : ∃ k, c.textStyleId = some k ∧ tableStyle st t k = .ok (.para p)
  cell : ∃ k, c.cellStyleId = some k ∧ tableStyle st t k = .ok (.cell ca)

theorem cellTextStyle_points {st t c p ca} (h : Points st t c p ca) : cellTextStyle st t c = .ok (.para p) := by
  obtain ⟨k, hk, ht⟩ := h.text
  unfold cellTextStyle
  rw [hk]; exact ht

theorem cellStyleOf_points {st t c p ca} (h : Points st t c p ca) : cellStyleOf st t c = .ok (some ca) := by
  obtain ⟨k, hk, ht⟩ := h.cell
  unfold cellStyleOf
  rw [hk]
  simp only [ht, bind, Except.bind, asCell, pure, Except.pure]

/-- **write, then read** at the archive level: a cell that points at the two archives written for `s`
    reads `s` back (floats as the file holds them), attribute by attribute. -/
theorem fromStorage_written (n : Num) (hcol : ColourOK n) (s : Sty) (hs : s.Storable)
    (imgs imgs' : Images) (hw : imgs.WF) (hag : ∀ img, s.bgImage = some img → imgs.Agrees img)
    (p : ParaArc) (ca : CellArc)
    (hp : addParagraphStyle n s = .ok p) (hc : addCellStyle n s imgs = .ok (ca, imgs'))
    (st : Store) (t : TableCtx) (c : CellIds) (hpt : Points st t c p ca) :
    fromStorage n st t imgs' c = .ok (quantize n s) := by
  obtain ⟨font, hfont, rfl⟩ := addParagraphStyle_ok n s p hp
  have hback := font_roundtrip _ _ hfont
  have hts := cellTextStyle_points hpt
  have hcs := cellStyleOf_points hpt
  have hfc := rgb_roundtrip hcol s.fontColor hs.fontColor
  have hh := enumOf_mem _ _ hs.halign
  have hv := enumOf_mem _ _ hs.valign
  unfold addCellStyle at hc
  cases himg : s.bgImage with
  | some img =>
    have hbg : s.bgColor = .none := by
      rcases hs.oneFill with h | h
      · rw [himg] at h; cases h
      · exact h
    rw [himg] at hc
    simp only [bind, Except.bind, pure, Except.pure, Except.ok.injEq, Prod.mk.injEq] at hc
    obtain ⟨rfl, rfl⟩ := hc
    obtain ⟨hfind, _⟩ := internImage_lookup imgs img hw (hag img himg)
    cases s
    simp only at himg hbg hfc hh hv hback
    subst himg hbg
    simp only [fromStorage, cellImage, cellAlignment, cellBgColor, hts, hcs, bind, Except.bind, pure, Except.pure, asPara,
      paraInherit, cellInherit, hh, hv, hfc, hback, Option.getD, Fill.empty, hfind, quantize, underline_back, strikethru_back]
  | none =>
    rw [himg] at hc
    cases hbgc : s.bgColor with
    | gradient cs =>
      rw [hbgc] at hc
      simp [bind, Except.bind, throw, throwThe, MonadExceptOf.throw] at hc
    | none =>
      rw [hbgc] at hc
      simp only [bind, Except.bind, pure, Except.pure, Except.ok.injEq, Prod.mk.injEq] at hc
      obtain ⟨rfl, rfl⟩ := hc
      cases s
      simp only at himg hbgc hfc hh hv hback
      subst himg hbgc
      simp only [fromStorage, cellImage, cellAlignment, cellBgColor, hts, hcs, bind, Except.bind, pure, Except.pure, asPara,
        paraInherit, cellInherit, hh, hv, hfc, hback, Option.getD, Fill.empty, quantize, underline_back, strikethru_back]
    | rgb col =>
      rw [hbgc] at hc
      simp only [bind, Except.bind, pure, Except.pure, Except.ok.injEq, Prod.mk.injEq] at hc
      obtain ⟨rfl, rfl⟩ := hc
      have hbc := rgb_roundtrip hcol col (hs.bgColor col hbgc)
      cases s
      simp only at himg hbgc hfc hh hv hback
      subst himg hbgc
      simp only [fromStorage, cellImage, cellAlignment, cellBgColor, hts, hcs, bind, Except.bind, pure, Except.pure, asPara,
        paraInherit, cellInherit, hh, hv, hfc, hbc, hback, Option.getD, Fill.empty, quantize, underline_back, strikethru_back]

end NumbersModel.StyleStore
