/-
Helper lemmas for C13, custom number patterns (Model/CustomFmt.lean): quote expansion, the digit content of the
rendered number (padding, grouping, sign), locating the spec outside quoted text, totality, the builder.
-/
import NumbersModel.Model.CustomFmt
import NumbersModel.Lemmas.NumFmt
namespace NumbersModel.CustomFmt
open NumbersModel NumbersModel.Digits NumbersModel.NumFmt

/-! ### `_expand_quotes` -/

theorem expandQuotes_flag (t : Text) (b b' : Bool) : expandQuotes t b = expandQuotes t b' := by
  fun_induction expandQuotes t b generalizing b' with
  | case1 => simp [expandQuotes]
  | case2 => simp [expandQuotes]
  | case3 r b ih => simp only [expandQuotes]; rw [ih b']
  | case4 c r b hc ih => rw [expandQuotes.eq_4 _ _ _ hc]; exact ih _
  | case5 c r b h1 h2 h3 ih =>
    rw [expandQuotes.eq_5 _ _ _ h1 h2 h3]; rw [ih b']

theorem expandQuotes_cons_ne (c : Char) (hc : c ≠ '\'') (r : Text) (b : Bool) :
    expandQuotes (c :: r) b = c :: expandQuotes r b := by
  rw [expandQuotes.eq_5] <;> intros <;> contradiction

/-- a case-5 head is not a quote (a quote always matches one of the first four equations). -/
theorem case5_ne_quote (c : Char) (r : List Char) (h1 : c = '\'' → r = [] → False)
    (h2 : ∀ (r_1 : List Char), c = '\'' → r = '\'' :: r_1 → False)
    (h3 : ∀ (c_1 : Char) (r_1 : List Char), c = '\'' → r = c_1 :: r_1 → False) : c ≠ '\'' := by
  intro hc
  cases r with
  | nil => exact h1 hc rfl
  | cons x r' => exact h3 x r' hc rfl

/-- text without quotes is copied. -/
theorem expandQuotes_noquote (t : Text) (b : Bool) (h : ∀ c ∈ t, c ≠ '\'') : expandQuotes t b = t := by
  induction t with
  | nil => simp [expandQuotes]
  | cons c r ih =>
    rw [expandQuotes_cons_ne c (h c (by simp)), ih (fun x hx => h x (by simp [hx]))]

/-- quote expansion distributes over a split whose right part does not start with a quote. -/
theorem expandQuotes_append (pre rest : Text) (b : Bool) (h : rest.head? ≠ some '\'') :
    expandQuotes (pre ++ rest) b = expandQuotes pre b ++ expandQuotes rest b := by
  fun_induction expandQuotes pre b with
  | case1 => simp [expandQuotes]
  | case2 b =>
    cases rest with
    | nil => simp [expandQuotes]
    | cons c r =>
      have hc : c ≠ '\'' := by intro hc; apply h; simp [hc]
      show expandQuotes ('\'' :: c :: r) b = expandQuotes ['\''] b ++ _
      rw [expandQuotes.eq_4 _ _ _ hc, expandQuotes_flag _ (!b) b]; simp [expandQuotes]
  | case3 r b ih =>
    show expandQuotes ('\'' :: '\'' :: (r ++ rest)) b = _
    simp only [expandQuotes]; rw [ih]; rfl
  | case4 c r b hc ih =>
    show expandQuotes ('\'' :: c :: (r ++ rest)) b = _
    rw [expandQuotes.eq_4 _ _ _ hc]
    have := ih
    rw [List.cons_append] at this
    rw [this, expandQuotes_flag rest (!b) b]
  | case5 c r b h1 h2 h3 ih =>
    have hc := case5_ne_quote c r h1 h2 h3
    show expandQuotes (c :: (r ++ rest)) b = _
    rw [expandQuotes_cons_ne c hc, ih]; rfl

/-- the literal parts of a pattern pass through around a quote-free, non-empty number text. -/
theorem expandQuotes_around (pre body suf : Text) (b : Bool) (hne : body ≠ []) (hq : ∀ c ∈ body, c ≠ '\'') :
    expandQuotes (pre ++ body ++ suf) b = expandQuotes pre b ++ body ++ expandQuotes suf b := by
  obtain ⟨c, r, rfl⟩ := List.exists_cons_of_ne_nil hne
  have hc : c ≠ '\'' := hq c (by simp)
  rw [List.append_assoc, expandQuotes_append pre _ b (by simp [hc])]
  have : ∀ (l : Text), (∀ x ∈ l, x ≠ '\'') → expandQuotes (l ++ suf) b = l ++ expandQuotes suf b := by
    intro l hl
    induction l with
    | nil => rfl
    | cons x l ih =>
      rw [List.cons_append, expandQuotes_cons_ne x (hl x (by simp)), ih (fun y hy => hl y (by simp [hy]))]; rfl
  rw [this _ hq, List.append_assoc]

/-- text between single quotes (itself free of quotes) is shown as it is. -/
theorem expandQuotes_quoted (lit : Text) (b : Bool) (hne : lit ≠ []) (h : ∀ c ∈ lit, c ≠ '\'') :
    expandQuotes ('\'' :: lit ++ ['\'']) b = lit := by
  cases lit with
  | nil => exact absurd rfl hne
  | cons c r =>
    have hc : c ≠ '\'' := h c (by simp)
    show expandQuotes ('\'' :: c :: (r ++ ['\''])) b = _
    rw [expandQuotes.eq_4 _ _ _ hc]
    have : expandQuotes ((c :: r) ++ ['\'']) (!b) = expandQuotes (c :: r) (!b) ++ expandQuotes ['\''] (!b) := by
      have hx : ∀ (l : Text), (∀ x ∈ l, x ≠ '\'') → expandQuotes (l ++ ['\'']) (!b) = l := by
        intro l hl
        induction l with
        | nil => simp [expandQuotes]
        | cons x l ih =>
          rw [List.cons_append, expandQuotes_cons_ne x (hl x (by simp)), ih (fun y hy => hl y (by simp [hy]))]
      rw [hx _ h, expandQuotes_noquote _ _ h]; simp [expandQuotes]
    rw [List.cons_append] at this
    rw [this, expandQuotes_noquote _ _ h]; simp [expandQuotes]

/-! ### the digits of the number text -/

/-- digits before the decimal point. -/
def intDigits (body : Text) : Text := (body.takeWhile (· != '.')).filter isDigit
/-- digits after the decimal point. -/
def fracDigits (body : Text) : Text := (body.dropWhile (· != '.')).filter isDigit
/-- a fraction-digit string completed with zeros to `n` places. -/
def padRight (n : Nat) (s : Text) : Text := s ++ List.replicate (n - s.length) '0'

/-- the characters an integer part is made of: digits, grouping commas, the minus sign, padding spaces. -/
def IntChar (c : Char) : Prop := isDigit c = true ∨ c = ',' ∨ c = '-' ∨ c = ' '

theorem IntChar.ne_dot {c : Char} (h : IntChar c) : c ≠ '.' := by
  rcases h with h | h | h | h
  · intro e; subst e; revert h; decide
  all_goals (subst h; decide)

theorem IntChar.ne_quote {c : Char} (h : IntChar c) : c ≠ '\'' := by
  rcases h with h | h | h | h
  · intro e; subst e; revert h; decide
  all_goals (subst h; decide)

theorem group3_go_mem (s : List Char) (n : Nat) : ∀ c ∈ group3.go s n, c ∈ s ∨ c = ',' := by
  induction s generalizing n with
  | nil => simp [group3.go]
  | cons x r ih =>
    intro c hc
    rw [group3_go_cons] at hc
    split at hc
    · rcases List.mem_cons.mp hc with h | h
      · exact Or.inl (by simp [h])
      · rcases List.mem_cons.mp h with h | h
        · exact Or.inr h
        · rcases ih _ c h with h | h
          · exact Or.inl (by simp [h])
          · exact Or.inr h
    · rcases List.mem_cons.mp hc with h | h
      · exact Or.inl (by simp [h])
      · rcases ih _ c h with h | h
        · exact Or.inl (by simp [h])
        · exact Or.inr h

theorem group3_mem (s : Text) : ∀ c ∈ group3 s, c ∈ s ∨ c = ',' := group3_go_mem s _

theorem filter_isDigit_group3 (s : Text) (h : ∀ c ∈ s, isDigit c = true) : (group3 s).filter isDigit = s := by
  have h1 := undecorate_group3 s h
  have h2 : (group3 s).filter isDigit = (undecorate (group3 s)).filter isDigit := by
    unfold undecorate
    rw [List.filter_filter]
    congr 1
    funext c
    cases hd : isDigit c <;> simp [hd]
  rw [h2, h1, List.filter_eq_self]
  exact fun c hc => h c hc

theorem group3_ne_nil (s : Text) (h : s ≠ []) : group3 s ≠ [] := by
  obtain ⟨c, r, rfl⟩ := List.exists_cons_of_ne_nil h
  unfold group3
  rw [group3_go_cons]
  split <;> simp

/-- `format(n, "0w,")` only adds zeros on the left before grouping. -/
theorem zeroPadGrouped_eq (fuel w : Nat) (s : Text) : ∃ k, zeroPadGrouped fuel w s = group3 (List.replicate k '0' ++ s) := by
  induction fuel generalizing s with
  | zero => exact ⟨0, by simp [zeroPadGrouped]⟩
  | succ f ih =>
    unfold zeroPadGrouped
    split
    · exact ⟨0, by simp⟩
    · obtain ⟨k, hk⟩ := ih ('0' :: s)
      refine ⟨k + 1, ?_⟩
      rw [hk]
      congr 1
      rw [List.replicate_succ', List.append_assoc]; rfl

theorem filter_isDigit_replicate_space (k : Nat) : (List.replicate k ' ').filter isDigit = [] := by
  rw [List.filter_eq_nil_iff]
  intro c hc
  rw [(List.mem_replicate.mp hc).2]; decide

theorem filter_isDigit_rjust (w : Nat) (s : Text) : (rjust w s).filter isDigit = s.filter isDigit := by
  unfold rjust
  rw [List.filter_append, filter_isDigit_replicate_space]; rfl

theorem filter_isDigit_ljust (w : Nat) (s : Text) : (ljust w s).filter isDigit = s.filter isDigit := by
  unfold ljust
  rw [List.filter_append, filter_isDigit_replicate_space]; simp

theorem filter_isDigit_digits (s : Text) (h : ∀ c ∈ s, isDigit c = true) : s.filter isDigit = s := by
  rw [List.filter_eq_self]; exact h

/-- the sign text: empty or a single minus. -/
def IsSign (sign : Text) : Prop := sign = [] ∨ sign = ['-']

theorem IsSign.filter {sign : Text} (h : IsSign sign) : sign.filter isDigit = [] := by
  rcases h with h | h <;> subst h <;> decide

theorem IsSign.intChar {sign : Text} (h : IsSign sign) : ∀ c ∈ sign, IntChar c := by
  rcases h with h | h <;> subst h
  · simp
  · intro c hc; simp at hc; subst hc; exact Or.inr (Or.inr (Or.inl rfl))

/-- what the integer part of the text is made of and what its digits are: nothing at all (only when the integer is
    zero) or the decimal numeral of the integer after zeros. -/
structure IntShape (it : Text) (integer : Nat) : Prop where
  chars : ∀ c ∈ it, IntChar c
  digits : (it.filter isDigit = [] ∧ integer = 0) ∨ ∃ k, it.filter isDigit = List.replicate k '0' ++ natStr integer

theorem intChar_of_digit {c : Char} (h : isDigit c = true) : IntChar c := Or.inl h
theorem intChar_space : IntChar ' ' := Or.inr (Or.inr (Or.inr rfl))
theorem intChar_comma : IntChar ',' := Or.inr (Or.inl rfl)

theorem intChar_rjust (w : Nat) (s : Text) (h : ∀ c ∈ s, IntChar c) : ∀ c ∈ rjust w s, IntChar c := by
  intro c hc
  unfold rjust at hc
  rcases List.mem_append.mp hc with h1 | h1
  · rw [(List.mem_replicate.mp h1).2]; exact intChar_space
  · exact h c h1

theorem intChar_group3 (s : Text) (h : ∀ c ∈ s, isDigit c = true) : ∀ c ∈ group3 s, IntChar c := by
  intro c hc
  rcases group3_mem s c hc with h1 | h1
  · exact Or.inl (h c h1)
  · subst h1; exact intChar_comma

theorem digits_zeros_natStr (k n : Nat) : ∀ c ∈ List.replicate k '0' ++ natStr n, isDigit c = true := by
  intro c hc
  rcases List.mem_append.mp hc with h1 | h1
  · rw [(List.mem_replicate.mp h1).2]; decide
  · exact natStr_all_digits n c h1

theorem integerText_shape (thousands : Bool) (pad dpad : Pad) (width nd integer : Nat) (decimalStr sign : Text)
    (hs : IsSign sign) : IntShape (integerText thousands pad dpad width nd integer decimalStr sign) integer := by
  have hsd := hs.filter
  have hsc := hs.intChar
  have happ : ∀ (t : Text), (∀ c ∈ t, IntChar c) → ∀ c ∈ sign ++ t, IntChar c := by
    intro t ht c hc
    rcases List.mem_append.mp hc with h | h
    · exact hsc c h
    · exact ht c h
  have hnat : ∀ c ∈ natStr integer, IntChar c := fun c hc => Or.inl (natStr_all_digits integer c hc)
  unfold integerText
  split
  · rename_i h
    exact ⟨intChar_rjust _ _ (by simp), Or.inl ⟨by rw [filter_isDigit_rjust]; rfl, h.1⟩⟩
  split
  · rename_i _ h
    exact ⟨hsc, Or.inl ⟨hsd, h.1⟩⟩
  split
  · rename_i _ _ h
    have h0 : integer = 0 := by rcases h with h | h <;> exact h.1
    exact ⟨intChar_rjust _ _ hsc, Or.inl ⟨by rw [filter_isDigit_rjust]; exact hsd, h0⟩⟩
  split
  · split
    · obtain ⟨k, hk⟩ := zeroPadGrouped_eq width width (natStr integer)
      rw [hk]
      refine ⟨happ _ (intChar_group3 _ (digits_zeros_natStr k integer)), Or.inr ⟨k, ?_⟩⟩
      rw [List.filter_append, hsd, filter_isDigit_group3 _ (digits_zeros_natStr k integer)]; rfl
    · refine ⟨happ _ ?_, Or.inr ⟨width - (natStr integer).length, ?_⟩⟩
      · intro c hc; exact Or.inl (zfill_all_digits _ _ (natStr_all_digits integer) c hc)
      · rw [List.filter_append, hsd, filter_isDigit_digits _ (zfill_all_digits _ _ (natStr_all_digits integer))]; rfl
  split
  · split
    · refine ⟨intChar_rjust _ _ (happ _ (intChar_group3 _ (natStr_all_digits integer))), Or.inr ⟨0, ?_⟩⟩
      rw [filter_isDigit_rjust, List.filter_append, hsd, filter_isDigit_group3 _ (natStr_all_digits integer)]; rfl
    · refine ⟨intChar_rjust _ _ (happ _ hnat), Or.inr ⟨0, ?_⟩⟩
      rw [filter_isDigit_rjust, List.filter_append, hsd, filter_isDigit_digits _ (natStr_all_digits integer)]; rfl
  split
  · refine ⟨happ _ (intChar_group3 _ (natStr_all_digits integer)), Or.inr ⟨0, ?_⟩⟩
    rw [List.filter_append, hsd, filter_isDigit_group3 _ (natStr_all_digits integer)]; rfl
  · refine ⟨happ _ hnat, Or.inr ⟨0, ?_⟩⟩
    rw [List.filter_append, hsd, filter_isDigit_digits _ (natStr_all_digits integer)]; rfl

/-! ### the decimal part -/

theorem all_zero_eq_replicate (l : Text) (h : ∀ c ∈ l, c = '0') : l = List.replicate l.length '0' :=
  List.eq_replicate_iff.mpr ⟨rfl, h⟩

theorem mem_takeWhile_sat {α} (p : α → Bool) (l : List α) : ∀ c ∈ l.takeWhile p, p c = true := by
  induction l with
  | nil => simp
  | cons x r ih =>
    intro c hc
    rw [List.takeWhile_cons] at hc
    split at hc
    · rcases List.mem_cons.mp hc with h | h
      · subst h; assumption
      · exact ih c h
    · simp at hc

/-- `rstrip("0")` removes zeros only, and only at the end. -/
theorem rstripZeros_spec (s : Text) :
    s = rstripZeros s ++ List.replicate (s.length - (rstripZeros s).length) '0' ∧ (rstripZeros s).length ≤ s.length := by
  unfold rstripZeros
  have h1 := List.takeWhile_append_dropWhile (p := (· == '0')) (l := s.reverse)
  have h2 : ∀ c ∈ s.reverse.takeWhile (· == '0'), c = '0' := by
    intro c hc
    have := mem_takeWhile_sat _ _ c hc
    simpa using this
  have h3 := all_zero_eq_replicate _ h2
  have h4 : s = (s.reverse.dropWhile (· == '0')).reverse ++ (s.reverse.takeWhile (· == '0')).reverse := by
    rw [← List.reverse_append, h1, List.reverse_reverse]
  have hlen : s.length = (s.reverse.dropWhile (· == '0')).length + (s.reverse.takeWhile (· == '0')).length := by
    have := congrArg List.length h1
    simp only [List.length_append, List.length_reverse] at this
    omega
  refine ⟨?_, by simp only [List.length_reverse]; omega⟩
  have h5 : s.length - ((s.reverse.dropWhile (· == '0')).reverse).length = (s.reverse.takeWhile (· == '0')).length := by
    simp only [List.length_reverse]; omega
  rw [h5]
  conv_lhs => rw [h4]
  congr 1
  rw [h3, List.reverse_replicate, List.length_replicate]

theorem rstripZeros_sub (s : Text) : ∀ c ∈ rstripZeros s, c ∈ s := by
  intro c hc
  have h := (rstripZeros_spec s).1
  rw [h]; exact List.mem_append_left _ hc

/-- what the decimal part of the text is made of, and its digits: at most `nd` of them, and completed with zeros they
    are the `nd` decimals of the rounded value. -/
structure DecShape (dt decimal : Text) (nd : Nat) : Prop where
  head : dt = [] ∨ ∃ r, dt = '.' :: r ∧ ∀ c ∈ r, isDigit c = true ∨ c = ' '
  len : (dt.filter isDigit).length ≤ nd
  pad : padRight nd (dt.filter isDigit) = decimal

theorem filter_dot_cons (r : Text) : ('.' :: r).filter isDigit = r.filter isDigit := by
  have : isDigit '.' = false := by decide
  simp [List.filter_cons, this]

theorem decimalText_shape (dpad : Pad) (numIntegers nd : Nat) (decimal : Text) (hlen : decimal.length = nd)
    (hdig : ∀ c ∈ decimal, isDigit c = true) :
    DecShape (decimalText dpad numIntegers nd decimal (rstripZeros decimal)) decimal nd := by
  obtain ⟨hspec, hle⟩ := rstripZeros_spec decimal
  have hsd : ∀ c ∈ rstripZeros decimal, isDigit c = true := fun c hc => hdig c (rstripZeros_sub _ c hc)
  have hzero : rstripZeros decimal = [] → decimal = List.replicate nd '0' := by
    intro h; rw [h] at hspec; simpa [hlen] using hspec
  have hstr : padRight nd (rstripZeros decimal) = decimal := by
    unfold padRight; rw [← hlen]; exact hspec.symm
  unfold decimalText
  split
  · rename_i h0
    subst h0
    have : decimal = [] := List.length_eq_zero_iff.mp hlen
    subst this
    exact ⟨Or.inl rfl, by simp, by simp [padRight]⟩
  rename_i hnd
  split
  · refine ⟨Or.inr ⟨decimal, rfl, fun c hc => Or.inl (hdig c hc)⟩, ?_, ?_⟩
    · rw [filter_dot_cons, filter_isDigit_digits _ hdig]; omega
    · rw [filter_dot_cons, filter_isDigit_digits _ hdig]; unfold padRight; simp [hlen]
  split
  · rename_i _ h
    have hz := hzero h.2.1
    have e : ljust (nd + 1) ['.'] = '.' :: List.replicate nd ' ' := by simp [ljust]
    rw [e]
    refine ⟨Or.inr ⟨_, rfl, fun c hc => Or.inr (List.mem_replicate.mp hc).2⟩, ?_, ?_⟩
    · rw [filter_dot_cons, filter_isDigit_replicate_space]; simp
    · rw [filter_dot_cons, filter_isDigit_replicate_space, hz]; simp [padRight]
  split
  · refine ⟨Or.inr ⟨_, rfl, ?_⟩, ?_, ?_⟩
    · intro c hc
      unfold ljust at hc
      rcases List.mem_append.mp hc with h | h
      · exact Or.inl (hsd c h)
      · exact Or.inr (List.mem_replicate.mp h).2
    · rw [filter_dot_cons, filter_isDigit_ljust, filter_isDigit_digits _ hsd]; omega
    · rw [filter_dot_cons, filter_isDigit_ljust, filter_isDigit_digits _ hsd]; exact hstr
  split
  · by_cases hs : rstripZeros decimal = []
    · rw [if_pos hs]
      have hz := hzero hs
      refine ⟨Or.inr ⟨_, rfl, fun c hc => Or.inl (by simp at hc; subst hc; decide)⟩, ?_, ?_⟩
      · rw [filter_dot_cons]; simp [List.filter_cons, show isDigit '0' = true by decide]; omega
      · rw [filter_dot_cons, hz]
        simp only [List.filter_cons, show isDigit '0' = true by decide, List.filter_nil, if_true, padRight,
          List.length_singleton]
        obtain ⟨j, rfl⟩ : ∃ j, nd = j + 1 := ⟨nd - 1, by omega⟩
        simp [List.replicate_succ]
    · rw [if_neg hs]
      refine ⟨Or.inr ⟨_, rfl, fun c hc => Or.inl (hsd c hc)⟩, ?_, ?_⟩
      · rw [filter_dot_cons, filter_isDigit_digits _ hsd]; omega
      · rw [filter_dot_cons, filter_isDigit_digits _ hsd]; exact hstr
  · rename_i _ _ _ h
    have hs : rstripZeros decimal = [] := by
      by_contra hne; exact h (Or.inl hne)
    refine ⟨Or.inl rfl, by simp, ?_⟩
    rw [hzero hs]; simp [padRight]

/-! ### the whole number text -/

theorem removeCommas_ne_nil (ip : Text) (h : (removeCommas ip).length > 0) : ip ≠ [] := by
  intro e; subst e; simp [removeCommas] at h

/-- `int_part[0]` is always guarded: the pad/width computation never raises; space padding has a positive width. -/
theorem intPadWidth_ok (a : Archive) (ip : Text) (integer : Nat) :
    ∃ pad w, intPadWidth a ip integer = .ok (pad, w) ∧ (pad = .space → 1 ≤ w) := by
  unfold intPadWidth
  simp only
  split
  · rename_i hpos
    have hne : (if (!a.showThousands) = true then removeCommas ip else ip) ≠ [] := by
      split
      · intro e; rw [e] at hpos; simp at hpos
      · exact removeCommas_ne_nil ip hpos
    split
    · rename_i heq; exact absurd heq hne
    · rename_i c r heq
      split
      · exact ⟨_, _, rfl, by intro h; cases h⟩
      · split
        · split
          · exact ⟨_, _, rfl, by intro h; cases h⟩
          · exact ⟨_, _, rfl, by intro h; cases h⟩
        · refine ⟨_, _, rfl, fun _ => ?_⟩
          rw [heq]; simp
  · exact ⟨_, _, rfl, by intro h; cases h⟩

theorem rjust_length_ge (w : Nat) (s : Text) : w ≤ (rjust w s).length := by
  simp [rjust]; omega

theorem integerText_ne_nil (thousands : Bool) (pad dpad : Pad) (width nd integer : Nat) (decimalStr sign : Text)
    (hw : pad = .space → 1 ≤ width) :
    integerText thousands pad dpad width nd integer decimalStr sign ≠ [] ∨ (pad = .none ∧ dpad = .space) := by
  have hn := natStr_ne_nil integer
  have hr : ∀ s, pad = .space → rjust width s ≠ [] := by
    intro s hp e
    have := rjust_length_ge width s
    rw [e] at this
    have := hw hp
    simp at *; omega
  unfold integerText
  split
  · rename_i h; exact Or.inl (hr _ h.2.1)
  split
  · rename_i _ h; exact Or.inr ⟨h.2.1, h.2.2⟩
  split
  · rename_i _ _ h
    refine Or.inl (hr _ ?_)
    rcases h with h | h <;> exact h.2.1
  split
  · split
    · obtain ⟨k, hk⟩ := zeroPadGrouped_eq width width (natStr integer)
      rw [hk]
      exact Or.inl (by simp [group3_ne_nil _ (show List.replicate k '0' ++ natStr integer ≠ [] by simp [hn])])
    · exact Or.inl (by simp [zfill, hn])
  split
  · rename_i h
    split
    · exact Or.inl (hr _ h)
    · exact Or.inl (hr _ h)
  split
  · exact Or.inl (by simp [group3_ne_nil _ hn])
  · exact Or.inl (by simp [hn])

theorem decimalText_ne_nil (numIntegers nd : Nat) (decimal decimalStr : Text) (hnd : nd ≠ 0) :
    decimalText .space numIntegers nd decimal decimalStr ≠ [] := by
  unfold decimalText
  rw [if_neg hnd]
  split
  · simp
  split
  · simp [ljust]
  split
  · simp
  · rename_i h; exact absurd rfl h

theorem decPad_space (a : Archive) (dp : Text) (h : decPad a dp = .space) : dp.length ≠ 0 := by
  unfold decPad at h
  split at h
  · cases h
  · simp

theorem roundedParts_decimal (value : Dec) (nd : Nat) :
    (roundedParts value nd).2.length = nd ∧ (∀ c ∈ (roundedParts value nd).2, isDigit c = true) ∧
    readDigits (roundedParts value nd).2 0 = some (scaleTo value nd % 10 ^ nd) := by
  unfold roundedParts
  simp only
  split
  · rename_i h; subst h
    refine ⟨rfl, by simp, ?_⟩
    simp [readDigits, Nat.mod_one]
  · rename_i h
    have hlt : scaleTo value nd % 10 ^ nd < 10 ^ nd := Nat.mod_lt _ (Nat.pow_pos (by omega))
    refine ⟨zfill_exact_length nd _ (by omega) hlt, zfill_all_digits _ _ (natStr_all_digits _), ?_⟩
    have := readNat_zfill_natStr nd (scaleTo value nd % 10 ^ nd)
    unfold readNat at this
    split at this
    · cases this
    · exact this

/-- the text that replaces the spec is an integer part followed by a decimal part of the shapes above; it is not
    empty. -/
theorem numberBody_spec (a : Archive) (ip dp : Text) (value : Dec) :
    ∃ it dt, numberBody a ip dp value = .ok (it ++ dt) ∧
      IntShape it (scaleTo value dp.length / 10 ^ dp.length) ∧
      DecShape dt (roundedParts value dp.length).2 dp.length ∧ it ++ dt ≠ [] := by
  obtain ⟨pad, w, hpw, hw⟩ := intPadWidth_ok a ip (scaleTo value dp.length / 10 ^ dp.length)
  obtain ⟨hdl, hdd, _⟩ := roundedParts_decimal value dp.length
  have hsign : ∀ (p : Prop) [Decidable p], IsSign (if p then ['-'] else []) := by
    intro p _; by_cases h : p
    · rw [if_pos h]; exact Or.inr rfl
    · rw [if_neg h]; exact Or.inl rfl
  have hS := hsign (value.isNeg = true ∧ (scaleTo value dp.length / 10 ^ dp.length ≠ 0 ∨
            rstripZeros (roundedParts value dp.length).2 ≠ []))
  refine ⟨_, _, ?_, integerText_shape a.showThousands pad (decPad a dp) w dp.length _
      (rstripZeros (roundedParts value dp.length).2) _ hS,
    decimalText_shape (decPad a dp) (removeCommas ip).length dp.length _ hdl hdd, ?_⟩
  · unfold numberBody
    have hrp : (roundedParts value dp.length).1 = scaleTo value dp.length / 10 ^ dp.length := rfl
    simp only [hrp, hpw, bind, Except.bind, pure, Except.pure]
  · rcases integerText_ne_nil a.showThousands pad (decPad a dp) w dp.length
        (scaleTo value dp.length / 10 ^ dp.length) (rstripZeros (roundedParts value dp.length).2)
        (if value.isNeg = true ∧ (scaleTo value dp.length / 10 ^ dp.length ≠ 0 ∨
            rstripZeros (roundedParts value dp.length).2 ≠ []) then ['-'] else []) hw with h | h
    · intro e; exact h (List.append_eq_nil_iff.mp e).1
    · have hnd := decPad_space a dp h.2
      have := decimalText_ne_nil (removeCommas ip).length dp.length (roundedParts value dp.length).2
        (rstripZeros (roundedParts value dp.length).2) hnd
      intro e
      have e2 := (List.append_eq_nil_iff.mp e).2
      rw [h.2] at e2; exact this e2

theorem takeWhile_dropWhile_split (it dt : Text) (hi : ∀ c ∈ it, c ≠ '.')
    (hd : dt = [] ∨ ∃ r, dt = '.' :: r) :
    (it ++ dt).takeWhile (· != '.') = it ∧ (it ++ dt).dropWhile (· != '.') = dt := by
  induction it with
  | nil =>
    rcases hd with h | ⟨r, h⟩ <;> subst h <;> simp
  | cons c r ih =>
    have hc : c ≠ '.' := hi c (by simp)
    have := ih (fun x hx => hi x (by simp [hx]))
    simp [List.takeWhile_cons, List.dropWhile_cons, hc, this.1, this.2]

theorem body_digits (it dt decimal : Text) (integer nd : Nat) (hi : IntShape it integer) (hd : DecShape dt decimal nd) :
    intDigits (it ++ dt) = it.filter isDigit ∧ fracDigits (it ++ dt) = dt.filter isDigit := by
  have h := takeWhile_dropWhile_split it dt (fun c hc => (hi.chars c hc).ne_dot)
    (by rcases hd.head with h | ⟨r, h, _⟩; exact Or.inl h; exact Or.inr ⟨r, h⟩)
  unfold intDigits fracDigits
  rw [h.1, h.2]; exact ⟨rfl, rfl⟩

theorem readDigits_natStr (n : Nat) : readDigits (natStr n) 0 = some n := by
  have := readNat_natStr n
  unfold readNat at this
  rw [if_neg (natStr_ne_nil n)] at this
  exact this

theorem IntShape.reads {it : Text} {integer : Nat} (h : IntShape it integer) :
    readDigits (it.filter isDigit) 0 = some integer := by
  rcases h.digits with ⟨h1, h2⟩ | ⟨k, h1⟩
  · rw [h1, h2]; rfl
  · rw [h1, readDigits_zeros]; simpa using readDigits_natStr integer

/-- **read-back of the number text**: the digits before the point read as `iv`, the digits after it (at most `nd`,
    completed with zeros) as `fv`, and `iv·10^nd + fv` is `|value|·10^nd` rounded half up. -/
theorem numberBody_reads_back (a : Archive) (ip dp : Text) (value : Dec) (body : Text)
    (h : numberBody a ip dp value = .ok body) :
    ∃ iv fv, readDigits (intDigits body) 0 = some iv ∧ (fracDigits body).length ≤ dp.length ∧
      readDigits (padRight dp.length (fracDigits body)) 0 = some fv ∧ fv < 10 ^ dp.length ∧
      iv * 10 ^ dp.length + fv = scaleTo value dp.length := by
  obtain ⟨it, dt, hb, hi, hd, _⟩ := numberBody_spec a ip dp value
  rw [hb] at h
  have hbody : body = it ++ dt := by injection h with h; exact h.symm
  obtain ⟨h1, h2⟩ := body_digits it dt _ _ _ hi hd
  obtain ⟨_, _, hread⟩ := roundedParts_decimal value dp.length
  refine ⟨scaleTo value dp.length / 10 ^ dp.length, scaleTo value dp.length % 10 ^ dp.length, ?_, ?_, ?_,
    Nat.mod_lt _ (Nat.pow_pos (by omega)), ?_⟩
  · rw [hbody, h1]; exact hi.reads
  · rw [hbody, h2]; exact hd.len
  · rw [hbody, h2, hd.pad]; exact hread
  · rw [Nat.mul_comm]; exact Nat.div_add_mod _ _

theorem numberBody_chars (a : Archive) (ip dp : Text) (value : Dec) (body : Text)
    (h : numberBody a ip dp value = .ok body) :
    body ≠ [] ∧ ∀ c ∈ body, IntChar c ∨ c = '.' := by
  obtain ⟨it, dt, hb, hi, hd, hne⟩ := numberBody_spec a ip dp value
  rw [hb] at h
  have hbody : body = it ++ dt := by injection h with h; exact h.symm
  subst hbody
  refine ⟨hne, ?_⟩
  intro c hc
  rcases List.mem_append.mp hc with h1 | h1
  · exact Or.inl (hi.chars c h1)
  · rcases hd.head with h2 | ⟨r, h2, h3⟩
    · rw [h2] at h1; simp at h1
    · rw [h2] at h1
      rcases List.mem_cons.mp h1 with h4 | h4
      · exact Or.inr h4
      · rcases h3 c h4 with h5 | h5
        · exact Or.inl (Or.inl h5)
        · subst h5; exact Or.inl intChar_space

theorem numberBody_noquote (a : Archive) (ip dp : Text) (value : Dec) (body : Text)
    (h : numberBody a ip dp value = .ok body) : ∀ c ∈ body, c ≠ '\'' := by
  intro c hc
  rcases (numberBody_chars a ip dp value body h).2 c hc with h1 | h1
  · exact h1.ne_quote
  · subst h1; decide

/-! ### the scientific text has no quote either -/

theorem formatScientific_chars (d : Dec) (p : Nat) :
    formatScientific d p ≠ [] ∧ ∀ c ∈ formatScientific d p, c ≠ '\'' := by
  have hdig : ∀ (t : Text), (∀ c ∈ t, isDigit c = true) → ∀ c ∈ t, c ≠ '\'' := by
    intro t ht c hc e; subst e; have := ht _ hc; revert this; decide
  unfold formatScientific
  simp only
  generalize (if d.mant = 0 then ((0 : Nat), (0 : Int)) else _) = de
  obtain ⟨digits, e10⟩ := de
  simp only
  have hz := zfill_all_digits (p + 1) (natStr digits) (natStr_all_digits digits)
  have hz2 := zfill_all_digits 2 (natStr e10.natAbs) (natStr_all_digits e10.natAbs)
  refine ⟨by simp, ?_⟩
  intro c hc
  simp only [List.mem_append] at hc
  rcases hc with ((((h | h) | h) | h) | h) | h
  · split at h
    · simp at h; subst h; decide
    · simp at h
  · exact hdig _ hz c (List.mem_of_mem_take h)
  · split at h
    · simp at h
    · rcases List.mem_cons.mp h with h | h
      · subst h; decide
      · exact hdig _ hz c (List.mem_of_mem_drop h)
  · simp at h; subst h; decide
  · split at h <;> (simp at h; subst h; decide)
  · exact hdig _ hz2 c h

/-! ### the structure of `_decode_number_format`'s result -/

/-- the literal text before and after the spec. -/
def literalBefore (a : Archive) (m : SpecMatch) : Text := expandQuotes ((patternOf a).take m.start) false
def literalAfter (a : Archive) (m : SpecMatch) : Text :=
  expandQuotes ((patternOf a).drop (m.start + m.spec.length)) false

/-- with the spec found at `m` (not scientific) the result is: literal text, number text, literal text — the two
    literal parts are functions of the pattern alone. -/
theorem decode_structure (zeros : List Nat) (a : Archive) (v v100 : FloatVal) (m : SpecMatch) (ip dp : Text)
    (hm : findSpec zeros (maskQuoted (patternOf a) false) 0 = some m) (hs : splitSpec m.spec = .ok (ip, dp))
    (hsci : m.sci = false) :
    ∃ body, numberBody a ip dp (chosenValue a v v100).repr = .ok body ∧
      decodeNumberFormat zeros a v v100 = .ok (literalBefore a m ++ body ++ literalAfter a m) := by
  obtain ⟨it, dt, hb, _, _, hne⟩ := numberBody_spec a ip dp (chosenValue a v v100).repr
  refine ⟨it ++ dt, hb, ?_⟩
  unfold decodeNumberFormat
  simp only [hm, hs, hsci, hb, bind, Except.bind, Bool.false_eq_true, if_false]
  rw [expandQuotes_around _ _ _ _ hne (numberBody_noquote a ip dp _ _ hb)]
  rfl

/-- the same for a scientific spec. -/
theorem decode_structure_sci (zeros : List Nat) (a : Archive) (v v100 : FloatVal) (m : SpecMatch) (ip dp : Text)
    (hm : findSpec zeros (maskQuoted (patternOf a) false) 0 = some m) (hs : splitSpec m.spec = .ok (ip, dp))
    (hsci : m.sci = true) (h4 : 4 ≤ dp.length) :
    decodeNumberFormat zeros a v v100 =
      .ok (literalBefore a m ++ formatScientific (chosenValue a v v100).exact (dp.length - 4) ++ literalAfter a m) := by
  obtain ⟨hne, hq⟩ := formatScientific_chars (chosenValue a v v100).exact (dp.length - 4)
  unfold decodeNumberFormat
  have : ¬ dp.length < 4 := by omega
  simp only [hm, hs, hsci, bind, Except.bind, if_true, this, if_false]
  rw [expandQuotes_around _ _ _ _ hne hq]
  rfl

/-! ### locating the spec -/

theorem maskQuoted_inside (lit rest : Text) (h : ∀ c ∈ lit, c ≠ '\'') :
    maskQuoted (lit ++ '\'' :: rest) true = List.replicate (lit.length + 1) '\x00' ++ maskQuoted rest false := by
  induction lit with
  | nil => simp [maskQuoted]
  | cons x l ih =>
    have hx : x ≠ '\'' := h x (by simp)
    rw [List.cons_append, maskQuoted]
    have : (x != '\'') = true := by simp [hx]
    rw [this, ih (fun y hy => h y (by simp [hy]))]
    simp [List.replicate_succ]

/-- a quoted piece `'lit'` is blanked out whatever characters it contains. -/
theorem maskQuoted_quoted (lit rest : Text) (h : ∀ c ∈ lit, c ≠ '\'') :
    maskQuoted ('\'' :: lit ++ '\'' :: rest) false = List.replicate (lit.length + 2) '\x00' ++ maskQuoted rest false := by
  rw [List.cons_append, maskQuoted]
  have : (lit ++ '\'' :: rest).contains '\'' = true := by simp
  rw [if_pos ⟨rfl, this⟩, maskQuoted_inside lit rest h]
  simp [List.replicate_succ]

/-- text without quotes is not touched. -/
theorem maskQuoted_noquote (run rest : Text) (h : ∀ c ∈ run, c ≠ '\'') :
    maskQuoted (run ++ rest) false = run ++ maskQuoted rest false := by
  induction run with
  | nil => rfl
  | cons x l ih =>
    have hx : x ≠ '\'' := h x (by simp)
    rw [List.cons_append, maskQuoted, if_neg (by simp [hx]), ih (fun y hy => h y (by simp [hy]))]
    rfl

theorem maskQuoted_nil (b : Bool) : maskQuoted [] b = [] := by cases b <;> rfl

theorem isSpecChar_ne_quote {c : Char} (h : isSpecChar c = true) : c ≠ '\'' := by
  intro e; subst e; revert h; decide

theorem findSpec_skip (zeros : List Nat) (p t : Text) (i : Nat) (h : ∀ c ∈ p, isSpecChar c = false) :
    findSpec zeros (p ++ t) i = findSpec zeros t (i + p.length) := by
  induction p generalizing i with
  | nil => rfl
  | cons x l ih =>
    rw [List.cons_append, findSpec]
    have hx : isSpecChar x = false := h x (by simp)
    simp only [hx, Bool.false_eq_true, if_false]
    rw [ih (i + 1) (fun y hy => h y (by simp [hy]))]
    congr 1
    simp only [List.length_cons]; omega

theorem takeWhile_dropWhile_run (p : Char → Bool) (run rest : Text) (hr : ∀ c ∈ run, p c = true)
    (hh : rest = [] ∨ ∃ x r, rest = x :: r ∧ p x = false) :
    (run ++ rest).takeWhile p = run ∧ (run ++ rest).dropWhile p = rest := by
  induction run with
  | nil =>
    rcases hh with h | ⟨x, r, h, hx⟩ <;> subst h <;> simp [List.takeWhile_cons, List.dropWhile_cons, *]
  | cons c l ih =>
    have hc := hr c (by simp)
    have := ih (fun y hy => hr y (by simp [hy]))
    simp [List.takeWhile_cons, List.dropWhile_cons, hc, this.1, this.2]

/-- the search stops at the first run of spec characters. -/
theorem findSpec_run (zeros : List Nat) (run rest : Text) (i : Nat) (hne : run ≠ []) (hr : ∀ c ∈ run, isSpecChar c = true)
    (hh : rest = [] ∨ ∃ x r, rest = x :: r ∧ isSpecChar x = false) :
    findSpec zeros (run ++ rest) i =
      some ⟨i, run ++ rest.take (sciSuffixLen zeros rest), sciSuffixLen zeros rest != 0⟩ := by
  obtain ⟨c, l, rfl⟩ := List.exists_cons_of_ne_nil hne
  have hc := hr c (by simp)
  have h2 := takeWhile_dropWhile_run isSpecChar (c :: l) rest hr hh
  rw [List.cons_append] at h2 ⊢
  rw [findSpec]
  simp only [hc, if_true]
  rw [h2.1, h2.2]

theorem sciSuffixLen_nul (zeros : List Nat) (r : Text) : sciSuffixLen zeros ('\x00' :: r) = 0 := by
  unfold sciSuffixLen; split
  · rename_i h; cases h
  · rfl

theorem sciSuffixLen_nil (zeros : List Nat) : sciSuffixLen zeros [] = 0 := by
  unfold sciSuffixLen; rfl

theorem replicate_nul_notspec (k : Nat) : ∀ c ∈ List.replicate k '\x00', isSpecChar c = false := by
  intro c hc; rw [(List.mem_replicate.mp hc).2]; decide

/-- **quoted literals around a spec**: in the pattern `'lit1'` spec `'lit2'` (the quoted texts may contain any
    character but a quote — digits and `# 0 . ,` included) the spec found is `run`, at its own position. -/
theorem findSpec_quoted (zeros : List Nat) (lit1 run lit2 : Text) (h1 : ∀ c ∈ lit1, c ≠ '\'') (h2 : ∀ c ∈ lit2, c ≠ '\'')
    (hne : run ≠ []) (hr : ∀ c ∈ run, isSpecChar c = true) :
    findSpec zeros (maskQuoted (('\'' :: lit1) ++ ('\'' :: (run ++ (('\'' :: lit2) ++ ['\''])))) false) 0 =
      some ⟨lit1.length + 2, run, false⟩ := by
  rw [maskQuoted_quoted lit1 _ h1, maskQuoted_noquote run _ (fun c hc => isSpecChar_ne_quote (hr c hc)),
    maskQuoted_quoted lit2 [] h2, maskQuoted_nil, findSpec_skip _ _ _ _ (replicate_nul_notspec _)]
  have hh : List.replicate (lit2.length + 2) '\x00' ++ [] = [] ∨ ∃ x r, List.replicate (lit2.length + 2) '\x00' ++ [] = x :: r ∧
      isSpecChar x = false := Or.inr ⟨'\x00', List.replicate (lit2.length + 1) '\x00', by simp [List.replicate_succ], by decide⟩
  rw [findSpec_run zeros run _ _ hne hr hh]
  have : sciSuffixLen zeros (List.replicate (lit2.length + 2) '\x00' ++ []) = 0 := by
    rw [List.append_nil, List.replicate_succ]; exact sciSuffixLen_nul zeros _
  rw [this]; simp

theorem patternOf_plain (a : Archive) (h : a.currencyCode = []) : patternOf a = a.formatString := by
  unfold patternOf; rw [h]; simp

/-- **quoted text passes through unchanged**: for the pattern `'lit1'` spec `'lit2'` the text shown is `lit1`, the
    number text, `lit2` — whatever the quoted texts contain. -/
theorem decode_quoted_literals (zeros : List Nat) (a : Archive) (v v100 : FloatVal) (lit1 run lit2 ip dp : Text)
    (hfs : a.formatString = ('\'' :: lit1) ++ ('\'' :: (run ++ (('\'' :: lit2) ++ ['\'']))))
    (hcur : a.currencyCode = []) (h1 : ∀ c ∈ lit1, c ≠ '\'') (h2 : ∀ c ∈ lit2, c ≠ '\'') (hn1 : lit1 ≠ []) (hn2 : lit2 ≠ [])
    (hne : run ≠ []) (hr : ∀ c ∈ run, isSpecChar c = true) (hs : splitSpec run = .ok (ip, dp)) :
    ∃ body, numberBody a ip dp (chosenValue a v v100).repr = .ok body ∧
      decodeNumberFormat zeros a v v100 = .ok (lit1 ++ body ++ lit2) := by
  have hp : patternOf a = ('\'' :: lit1) ++ ('\'' :: (run ++ (('\'' :: lit2) ++ ['\'']))) := by
    rw [patternOf_plain a hcur, hfs]
  have hm : findSpec zeros (maskQuoted (patternOf a) false) 0 = some ⟨lit1.length + 2, run, false⟩ := by
    rw [hp]; exact findSpec_quoted zeros lit1 run lit2 h1 h2 hne hr
  obtain ⟨body, hb, hd⟩ := decode_structure zeros a v v100 _ ip dp hm hs rfl
  refine ⟨body, hb, ?_⟩
  rw [hd]
  have e1 : patternOf a = (('\'' :: lit1) ++ ['\'']) ++ (run ++ (('\'' :: lit2) ++ ['\''])) := by
    rw [hp]; simp
  have e2 : patternOf a = ((('\'' :: lit1) ++ ['\'']) ++ run) ++ (('\'' :: lit2) ++ ['\'']) := by
    rw [hp]; simp
  have hb1 : literalBefore a ⟨lit1.length + 2, run, false⟩ = lit1 := by
    unfold literalBefore
    simp only
    rw [e1, List.take_left' (by simp)]
    exact expandQuotes_quoted lit1 false hn1 h1
  have hb2 : literalAfter a ⟨lit1.length + 2, run, false⟩ = lit2 := by
    unfold literalAfter
    simp only
    rw [e2, List.drop_left' (by simp; omega)]
    exact expandQuotes_quoted lit2 false hn2 h2
  rw [hb1, hb2]

/-! ### totality -/

theorem splitOnDot_length (s : Text) : (splitOnDot s).length = s.count '.' + 1 := by
  induction s with
  | nil => rfl
  | cons c r ih =>
    unfold splitOnDot
    split
    · rename_i h; rw [h] at ih; simp at ih
    · rename_i hd tl h
      rw [h] at ih
      by_cases hc : c = '.'
      · subst hc; simp at ih ⊢; omega
      · simp [hc, List.count_cons] at ih ⊢; omega

/-- `a, b = spec.split(".")` does not raise when the spec starts with a dot or holds at most one. -/
theorem splitSpec_ok (spec : Text) (h : spec.head? = some '.' ∨ spec.count '.' ≤ 1) :
    ∃ ip dp, splitSpec spec = .ok (ip, dp) := by
  unfold splitSpec
  split
  · exact ⟨_, _, rfl⟩
  · rename_i hnd
    split
    · rename_i hc
      have hcount : spec.count '.' = 1 := by
        rcases h with h | h
        · cases spec with
          | nil => simp at h
          | cons x r => simp at h; subst h; exact absurd rfl (hnd r)
        · have : 0 < spec.count '.' := List.count_pos_iff.mpr (by simpa using hc)
          omega
      have hl := splitOnDot_length spec
      rw [hcount] at hl
      match hsp : splitOnDot spec, hl with
      | [x, y], _ => exact ⟨x, y, rfl⟩
    · exact ⟨_, _, rfl⟩

/-- well-formed archive: the spec found in the pattern starts with a dot or holds at most one, and a scientific
    spec has a decimal part of at least four characters (`.…E+dd`). -/
def WellFormed (zeros : List Nat) (a : Archive) : Prop :=
  ∀ m, findSpec zeros (maskQuoted (patternOf a) false) 0 = some m →
    (m.spec.head? = some '.' ∨ m.spec.count '.' ≤ 1) ∧
    (m.sci = true → ∀ ip dp, splitSpec m.spec = .ok (ip, dp) → 4 ≤ dp.length)

/-- **totality**: no exception for a well-formed archive, whatever the value. -/
theorem decode_total (zeros : List Nat) (a : Archive) (v v100 : FloatVal) (h : WellFormed zeros a) :
    ∃ t, decodeNumberFormat zeros a v v100 = .ok t := by
  cases hm : findSpec zeros (maskQuoted (patternOf a) false) 0 with
  | none => exact ⟨patternOf a, by unfold decodeNumberFormat; simp only [hm]⟩
  | some m =>
    obtain ⟨h1, h2⟩ := h m hm
    obtain ⟨ip, dp, hs⟩ := splitSpec_ok m.spec h1
    cases hsci : m.sci with
    | false =>
      obtain ⟨body, _, hd⟩ := decode_structure zeros a v v100 m ip dp hm hs hsci
      exact ⟨_, hd⟩
    | true => exact ⟨_, decode_structure_sci zeros a v v100 m ip dp hm hs hsci (h2 hsci ip dp hs)⟩

/-! ### the builder produces well-formed archives -/

theorem insertCommas_mem (s : Text) (n : Nat) : ∀ c ∈ insertCommas s n, c ∈ s ∨ c = ',' := by
  intro c hc
  unfold insertCommas at hc
  split at hc
  · simp only [List.mem_append, List.mem_singleton] at hc
    rcases hc with (((h | h) | h) | h) | h
    · exact Or.inl (List.mem_of_mem_take h)
    · exact Or.inr h
    · exact Or.inl (List.mem_of_mem_drop (List.mem_of_mem_take h))
    · exact Or.inr h
    · exact Or.inl (List.mem_of_mem_drop h)
  · split at hc
    · simp only [List.mem_append, List.mem_singleton] at hc
      rcases hc with (h | h) | h
      · exact Or.inl (List.mem_of_mem_take h)
      · exact Or.inr h
      · exact Or.inl (List.mem_of_mem_drop h)
    · exact Or.inl hc

/-- the integer tokens of a built pattern: `#`, `0` and commas only. -/
theorem buildInt_chars (ifmt : PaddingType) (ni : Nat) :
    ∀ c ∈ insertCommas (if ni = 0 then [] else if ifmt = .none then List.replicate ni '#' else List.replicate ni '0') ni,
      c = '#' ∨ c = '0' ∨ c = ',' := by
  intro c hc
  rcases insertCommas_mem _ _ c hc with h | h
  · split at h
    · simp at h
    · split at h
      · exact Or.inl (List.mem_replicate.mp h).2
      · exact Or.inr (Or.inl (List.mem_replicate.mp h).2)
  · exact Or.inr (Or.inr h)

theorem buildFormatString_spec (ifmt dfmt : PaddingType) (ni nd : Nat) :
    (∀ c ∈ buildFormatString ifmt dfmt ni nd, isSpecChar c = true) ∧ (buildFormatString ifmt dfmt ni nd).count '.' ≤ 1 := by
  have hi := buildInt_chars ifmt ni
  have hi0 : (insertCommas (if ni = 0 then [] else if ifmt = .none then List.replicate ni '#' else List.replicate ni '0') ni).count '.' = 0 := by
    rw [List.count_eq_zero]
    intro hmem
    rcases hi _ hmem with h | h | h <;> cases h
  have hspec : ∀ c, (c = '#' ∨ c = '0' ∨ c = ',') → isSpecChar c = true := by
    intro c h; rcases h with h | h | h <;> subst h <;> decide
  unfold buildFormatString
  simp only
  split
  · constructor
    · intro c hc
      rcases List.mem_append.mp hc with h | h
      · exact hspec c (hi c h)
      · rcases List.mem_cons.mp h with h | h
        · subst h; decide
        · have := (List.mem_replicate.mp h).2
          split at this <;> subst this <;> decide
    · rw [List.count_append, hi0, List.count_cons]
      have : (List.replicate nd (if dfmt = .none then '#' else '0')).count '.' = 0 := by
        rw [List.count_eq_zero]; intro h
        have := (List.mem_replicate.mp h).2
        split at this <;> cases this
      rw [this]; simp
  · exact ⟨fun c hc => hspec c (hi c hc), by rw [hi0]; omega⟩

/-- **the builder's output is well-formed** — for every padding, every number of integer and decimal tokens, with
    or without separator. -/
theorem build_wellFormed (zeros : List Nat) (ifmt dfmt : PaddingType) (ni nd : Nat) (thousands : Bool) :
    WellFormed zeros (buildArchive ifmt dfmt ni nd thousands) := by
  obtain ⟨hchars, hcount⟩ := buildFormatString_spec ifmt dfmt ni nd
  have hp : patternOf (buildArchive ifmt dfmt ni nd thousands) = buildFormatString ifmt dfmt ni nd := by
    rw [patternOf_plain _ rfl]; rfl
  intro m hm
  rw [hp] at hm
  have hmask : maskQuoted (buildFormatString ifmt dfmt ni nd) false = buildFormatString ifmt dfmt ni nd := by
    have := maskQuoted_noquote (buildFormatString ifmt dfmt ni nd) [] (fun c hc => isSpecChar_ne_quote (hchars c hc))
    rw [List.append_nil, maskQuoted_nil, List.append_nil] at this
    exact this
  rw [hmask] at hm
  by_cases hne : buildFormatString ifmt dfmt ni nd = []
  · rw [hne] at hm; simp [findSpec] at hm
  · have := findSpec_run zeros (buildFormatString ifmt dfmt ni nd) [] 0 hne hchars (Or.inl rfl)
    rw [List.append_nil] at this
    rw [this] at hm
    injection hm with hm
    subst hm
    simp only [sciSuffixLen_nil, List.take_zero, List.append_nil]
    exact ⟨Or.inr hcount, by simp⟩

/-! ### padding only pads -/

/-- the digits of the number text, exactly: before the point the numeral of the integer after zeros only (or nothing
    when the integer is zero); after the point, completed with zeros, the `nd` decimals of the rounded value. -/
theorem numberBody_digits (a : Archive) (ip dp : Text) (value : Dec) (body : Text)
    (h : numberBody a ip dp value = .ok body) :
    ((intDigits body = [] ∧ scaleTo value dp.length / 10 ^ dp.length = 0) ∨
      ∃ k, intDigits body = List.replicate k '0' ++ natStr (scaleTo value dp.length / 10 ^ dp.length)) ∧
    padRight dp.length (fracDigits body) = (roundedParts value dp.length).2 := by
  obtain ⟨it, dt, hb, hi, hd, _⟩ := numberBody_spec a ip dp value
  rw [hb] at h
  have hbody : body = it ++ dt := by injection h with h; exact h.symm
  obtain ⟨h1, h2⟩ := body_digits it dt _ _ _ hi hd
  rw [hbody, h1, h2]
  exact ⟨hi.digits, hd.pad⟩

/-! ### the sign -/

/-- the minus signs of a text. -/
def minusSigns (t : Text) : Text := t.filter (· == '-')

theorem minusSigns_append (a b : Text) : minusSigns (a ++ b) = minusSigns a ++ minusSigns b := by
  simp [minusSigns]

theorem minusSigns_none (t : Text) (h : ∀ c ∈ t, c ≠ '-') : minusSigns t = [] := by
  unfold minusSigns
  rw [List.filter_eq_nil_iff]
  intro c hc; simp [h c hc]

theorem digit_ne_minus {c : Char} (h : isDigit c = true) : c ≠ '-' := by
  intro e; subst e; revert h; decide

theorem minusSigns_digits (t : Text) (h : ∀ c ∈ t, isDigit c = true) : minusSigns t = [] :=
  minusSigns_none t (fun c hc => digit_ne_minus (h c hc))

theorem minusSigns_group3 (t : Text) (h : ∀ c ∈ t, isDigit c = true) : minusSigns (group3 t) = [] := by
  apply minusSigns_none
  intro c hc
  rcases group3_mem t c hc with h1 | h1
  · exact digit_ne_minus (h c h1)
  · subst h1; decide

theorem minusSigns_rjust (w : Nat) (t : Text) : minusSigns (rjust w t) = minusSigns t := by
  unfold rjust
  rw [minusSigns_append, minusSigns_none _ (fun c hc => by rw [(List.mem_replicate.mp hc).2]; decide)]
  rfl

theorem minusSigns_sign {sign : Text} (h : IsSign sign) : minusSigns sign = sign := by
  rcases h with h | h <;> subst h <;> decide

/-- the integer part carries exactly the sign text as its minus signs, unless it is the all-blank rendering of a value
    that rounds to zero with no decimals (first branch), where the sign text is empty anyway. -/
theorem integerText_minus (thousands : Bool) (pad dpad : Pad) (width nd integer : Nat) (decimalStr sign : Text)
    (hs : IsSign sign) (h0 : integer = 0 ∧ nd = 0 → sign = []) :
    minusSigns (integerText thousands pad dpad width nd integer decimalStr sign) = sign := by
  have hss := minusSigns_sign hs
  have hn := natStr_all_digits integer
  unfold integerText
  split
  · rename_i h
    rw [minusSigns_rjust, h0 ⟨h.1, h.2.2⟩]; rfl
  split
  · exact hss
  split
  · rw [minusSigns_rjust]; exact hss
  split
  · split
    · obtain ⟨k, hk⟩ := zeroPadGrouped_eq width width (natStr integer)
      rw [hk, minusSigns_append, hss, minusSigns_group3 _ (digits_zeros_natStr k integer)]; simp
    · rw [minusSigns_append, hss, minusSigns_digits _ (zfill_all_digits _ _ hn)]; simp
  split
  · split
    · rw [minusSigns_rjust, minusSigns_append, hss, minusSigns_group3 _ hn]; simp
    · rw [minusSigns_rjust, minusSigns_append, hss, minusSigns_digits _ hn]; simp
  split
  · rw [minusSigns_append, hss, minusSigns_group3 _ hn]; simp
  · rw [minusSigns_append, hss, minusSigns_digits _ hn]; simp

theorem DecShape.noMinus {dt decimal : Text} {nd : Nat} (h : DecShape dt decimal nd) : minusSigns dt = [] := by
  rcases h.head with h1 | ⟨r, h1, h2⟩
  · rw [h1]; rfl
  · rw [h1]
    apply minusSigns_none
    intro c hc
    rcases List.mem_cons.mp hc with h3 | h3
    · subst h3; decide
    · rcases h2 c h3 with h4 | h4
      · exact digit_ne_minus h4
      · subst h4; decide

theorem rstripZeros_replicate (k : Nat) : rstripZeros (List.replicate k '0') = [] := by
  unfold rstripZeros
  rw [List.reverse_replicate]
  have : (List.replicate k '0').dropWhile (· == '0') = [] := by
    induction k with
    | zero => rfl
    | succ k ih => rw [List.replicate_succ, List.dropWhile_cons]; simp [ih]
  rw [this]; rfl

/-- the decimals are all zeros exactly when the fraction part of the rounded value is zero. -/
theorem roundedParts_decimal_zero (value : Dec) (nd : Nat) :
    rstripZeros (roundedParts value nd).2 = [] ↔ scaleTo value nd % 10 ^ nd = 0 := by
  obtain ⟨hlen, hdig, hread⟩ := roundedParts_decimal value nd
  constructor
  · intro h
    have hspec := (rstripZeros_spec (roundedParts value nd).2).1
    rw [h, List.nil_append, hlen] at hspec
    simp only [List.length_nil, Nat.sub_zero] at hspec
    rw [hspec] at hread
    have : readDigits (List.replicate nd '0') 0 = some 0 := by
      have := readDigits_zeros nd [] 0
      simpa [readDigits] using this
    rw [this] at hread
    injection hread with hread
    exact hread.symm
  · intro h
    have : (roundedParts value nd).2 = List.replicate nd '0' := by
      unfold roundedParts
      simp only [h]
      split
      · rename_i h0; subst h0; rfl
      · rename_i h0
        have : natStr 0 = ['0'] := natStr_zero
        rw [this]
        unfold zfill
        obtain ⟨j, rfl⟩ : ∃ j, nd = j + 1 := ⟨nd - 1, by omega⟩
        simp only [List.length_singleton, Nat.add_sub_cancel]
        rw [List.replicate_succ']
    rw [this]; exact rstripZeros_replicate nd

/-- **the sign**: the number text holds one minus sign exactly when the value is negative and is not displayed as zero
    (its rounding to the decimals shown is not zero); otherwise none. -/
theorem numberBody_sign (a : Archive) (ip dp : Text) (value : Dec) (body : Text)
    (h : numberBody a ip dp value = .ok body) :
    minusSigns body = if value.isNeg = true ∧ scaleTo value dp.length ≠ 0 then ['-'] else [] := by
  obtain ⟨pad, w, hpw, _⟩ := intPadWidth_ok a ip (scaleTo value dp.length / 10 ^ dp.length)
  obtain ⟨hdl, hdd, _⟩ := roundedParts_decimal value dp.length
  have hz := roundedParts_decimal_zero value dp.length
  have hm : (scaleTo value dp.length / 10 ^ dp.length ≠ 0 ∨ rstripZeros (roundedParts value dp.length).2 ≠ []) ↔
      scaleTo value dp.length ≠ 0 := by
    have hdm := Nat.div_add_mod (scaleTo value dp.length) (10 ^ dp.length)
    have hpos : 0 < 10 ^ dp.length := Nat.pow_pos (by omega)
    constructor
    · rintro (h1 | h1)
      · intro h0; apply h1; rw [h0]; simp
      · intro h0; apply h1; rw [hz, h0]; simp
    · intro h1
      by_cases hq : scaleTo value dp.length / 10 ^ dp.length = 0
      · right; intro h2
        rw [hz] at h2
        rw [hq, h2] at hdm
        simp at hdm; exact h1 hdm.symm
      · exact Or.inl hq
  unfold numberBody at h
  have hrp : (roundedParts value dp.length).1 = scaleTo value dp.length / 10 ^ dp.length := rfl
  simp only [hrp, hpw, bind, Except.bind, pure, Except.pure] at h
  injection h with h
  rw [← h, minusSigns_append]
  have hdec := (decimalText_shape (decPad a dp) (removeCommas ip).length dp.length _ hdl hdd).noMinus
  rw [hdec, List.append_nil]
  have hS : ∀ (p : Prop) [Decidable p], IsSign (if p then ['-'] else []) := by
    intro p _; by_cases h : p
    · rw [if_pos h]; exact Or.inr rfl
    · rw [if_neg h]; exact Or.inl rfl
  rw [integerText_minus _ _ _ _ _ _ _ _ (hS _)]
  · by_cases hc : value.isNeg = true ∧ scaleTo value dp.length ≠ 0
    · rw [if_pos hc, if_pos ⟨hc.1, hm.mpr hc.2⟩]
    · rw [if_neg hc, if_neg (fun hh => hc ⟨hh.1, hm.mp hh.2⟩)]
  · rintro ⟨hi0, hnd0⟩
    rw [if_neg]
    rintro ⟨_, h1 | h1⟩
    · exact h1 hi0
    · apply h1
      have : (roundedParts value dp.length).2 = [] := List.length_eq_zero_iff.mp (by rw [hdl]; exact hnd0)
      rw [this]; rfl

/-! ### dispatch -/

/-- `Cell._custom_format` raises only a KeyError, and only when the selected format carries a custom uid that the
    document's custom format map does not hold. -/
theorem customFormatRenderer_error (c : CellFormats) (e : PyExc) (h : customFormatRenderer c = .error e) :
    e = .KeyError ∧ ∃ f, selectFormat c = some f ∧ f.customUid = some none := by
  unfold customFormatRenderer at h
  split at h
  · cases h
  · rename_i f hf
    split at h
    · injection h with h; exact ⟨h.symm, f, hf, by assumption⟩
    · split at h
      · cases h
      · split at h <;> cases h
    · split at h <;> cases h

end NumbersModel.CustomFmt
