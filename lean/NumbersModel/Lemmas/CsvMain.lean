/-
Lemmas for the model of csv2numbers' `main()` (C20): which exceptions can leave the conversion of one file.
-/
import NumbersModel.Model.CsvMain
import NumbersModel.Lemmas.CsvCodec
namespace NumbersModel.CsvMain
open NumbersModel NumbersModel.Csv NumbersModel.CsvCodec

variable {ν : Type}

/-! ## the modelled reader raises only `csv.Error`, or what the line iterator raised -/

theorem addChar_err {cfg : Cfg} {rd : Rd} {c : Char} {st : St} {e : PyExc}
    (h : addChar cfg rd c st = .error e) : isModelCsvError e = true := by
  unfold addChar at h
  split at h
  · cases h; decide
  · cases h

theorem stepStartField_err {cfg : Cfg} {rd : Rd} {c : Option Char} {e : PyExc}
    (h : stepStartField cfg rd c = .error e) : isModelCsvError e = true := by
  unfold stepStartField at h
  split at h
  · cases h
  · split at h
    · cases h
    · split at h
      · cases h
      · split at h
        · cases h
        · exact addChar_err h

theorem step_err {cfg : Cfg} {rd : Rd} {c : Option Char} {e : PyExc}
    (h : step cfg rd c = .error e) : isModelCsvError e = true := by
  unfold step at h
  split at h
  · split at h
    · cases h
    · split at h
      · cases h
      · exact stepStartField_err h
  · exact stepStartField_err h
  · split at h
    · cases h
    · split at h
      · cases h
      · split at h
        · cases h
        · exact addChar_err h
  · split at h
    · cases h
    · split at h
      · cases h
      · exact addChar_err h
  · split at h
    · cases h
    · split at h
      · exact addChar_err h
      · split at h
        · cases h
        · split at h
          · cases h
          · split at h
            · exact addChar_err h
            · cases h; decide
  · split at h
    · cases h
    · split at h
      · cases h
      · cases h; decide

theorem processLine_err {cfg : Cfg} (line : Text) : ∀ {rd : Rd} {e : PyExc},
    processLine cfg rd line = .error e → isModelCsvError e = true := by
  induction line with
  | nil => intro rd e h; exact step_err h
  | cons c rest ih =>
    intro rd e h
    simp only [processLine] at h
    cases hs : step cfg rd (some c) with
    | error e' => rw [hs] at h; cases h; exact step_err hs
    | ok rd' => rw [hs] at h; exact ih h

theorem emit_err {row : List Text} {r : PyM (List (List Text))} {e : PyExc} (h : emit row r = .error e) :
    r = .error e := by
  cases r with
  | ok rows => cases h
  | error e' => cases h; rfl

theorem atEof_err {cfg : Cfg} {rd : Rd} {e : PyExc} (h : atEof cfg rd = .error e) :
    isModelCsvError e = true ∨ cfg.iterFails = some e := by
  unfold atEof at h
  split at h
  · rename_i e' he; cases h; exact Or.inr he
  · split at h
    · split at h
      · cases h; exact Or.inl (by decide)
      · cases h
    · cases h

theorem readLines_err {cfg : Cfg} (lines : List Text) : ∀ {rd : Rd} {e : PyExc},
    readLines cfg rd lines = .error e → isModelCsvError e = true ∨ cfg.iterFails = some e := by
  induction lines with
  | nil => intro rd e h; exact atEof_err h
  | cons line rest ih =>
    intro rd e h
    simp only [readLines] at h
    cases hp : processLine cfg rd line with
    | error e' => rw [hp] at h; cases h; exact Or.inl (processLine_err line hp)
    | ok rd' =>
      rw [hp] at h
      simp only at h
      split at h
      · exact ih (emit_err h)
      · exact ih h

theorem readGrid_err {cfg : Cfg} {t : Text} {e : PyExc} (h : readGrid cfg t = .error e) :
    isModelCsvError e = true ∨ cfg.iterFails = some e := readLines_err _ h

/-! ## one file -/

/-- `e` is caught by `except RuntimeError` in `main` -/
def Caught (c : Classes) (e : PyExc) : Prop := e = .RuntimeError ∨ c.isRuntimeError e = true

/-- none of the `except` clauses of `_read_csv` applies to `e` -/
def Untranslated (c : Classes) (e : PyExc) : Prop :=
  c.isFileNotFound e = false ∧ c.isCsvError e = false ∧ c.isOSError e = false ∧ c.isUnicodeError e = false ∧
    c.isLookupError e = false

/-- `e` was raised by one of the external calls made for `x`, at a place where nothing translates it -/
def RaisedBy (c : Classes) (x : FileExt ν) (e : PyExc) : Prop :=
  (x.openFile = .error e ∧ Untranslated c e) ∨
  (∃ content, x.openFile = .ok content ∧ content.fail = some e ∧ Untranslated c e) ∨
  (∃ r k, x.newDocument r k = .error e) ∨
  (∃ r k cell, x.write r k cell = .error e) ∨
  (x.saveDoc = .error e ∧ c.isOSError e = false)

theorem translateRead_cases (c : Classes) (e : PyExc) :
    translateRead fixed c e = .RuntimeError ∨ (translateRead fixed c e = e ∧ isModelCsvError e = false ∧ Untranslated c e) := by
  unfold translateRead Untranslated
  cases h1 : c.isFileNotFound e <;> cases h2 : isModelCsvError e <;> cases h3 : c.isCsvError e <;>
    cases h4 : c.isOSError e <;> cases h5 : c.isUnicodeError e <;> cases h6 : c.isLookupError e <;> simp [fixed]

theorem readCsv_err (c : Classes) (x : FileExt ν) (o : Opts) (e : PyExc)
    (h : readCsv fixed c x o = .error e) : e = .RuntimeError ∨ RaisedBy c x e := by
  unfold readCsv at h
  cases ho : x.openFile with
  | error e0 =>
    rw [ho] at h
    simp only at h
    cases h
    rcases translateRead_cases c e0 with ht | ⟨ht, _, hu⟩
    · exact Or.inl ht
    · rw [ht]; exact Or.inr (Or.inl ⟨ho, hu⟩)
  | ok content =>
    rw [ho] at h
    simp only at h
    cases hr : readGrid { strict := true, limit := x.fieldLimit, iterFails := content.fail } content.text with
    | error e0 =>
      rw [hr] at h
      simp only at h
      cases h
      rcases translateRead_cases c e0 with ht | ⟨ht, hm, hu⟩
      · exact Or.inl ht
      · rw [ht]
        rcases readGrid_err hr with hm' | hf
        · rw [hm] at hm'; cases hm'
        · exact Or.inr (Or.inr (Or.inl ⟨content, ho, hf, hu⟩))
    | ok rows =>
      rw [hr] at h
      simp only at h
      split at h
      · simp only [fixed, if_true] at h; cases h; exact Or.inl rfl
      · cases h

theorem convert_err (pyFloat : Text → FloatCls ν) (norm : Text → Text) (o : Opts) (grid : List (List Text)) (e : PyExc)
    (h : convert pyFloat norm o grid = .error e) : e = .RuntimeError := by
  unfold convert at h
  split at h
  · split at h
    · cases h; rfl
    · cases h
  · split at h
    · cases h; rfl
    · cases h

theorem writeRow_err (x : FileExt ν) (r : Nat) (row : List (Cell ν)) : ∀ (col : Nat) (e : PyExc),
    writeRow x r col row = .error e → ∃ r k cell, x.write r k cell = .error e := by
  induction row with
  | nil => intro col e h; cases h
  | cons cell rest ih =>
    intro col e h
    simp only [writeRow] at h
    cases hw : x.write r col cell with
    | error e' => rw [hw] at h; cases h; exact ⟨r, col, cell, hw⟩
    | ok u => rw [hw] at h; exact ih (col + 1) e h

theorem writeRows_err (x : FileExt ν) (data : List (List (Cell ν))) : ∀ (r : Nat) (e : PyExc),
    writeRows x r data = .error e → ∃ r k cell, x.write r k cell = .error e := by
  induction data with
  | nil => intro r e h; cases h
  | cons row rest ih =>
    intro r e h
    simp only [writeRows] at h
    cases hw : writeRow x r 0 row with
    | error e' => rw [hw] at h; cases h; exact writeRow_err x r row 0 _ hw
    | ok u => rw [hw] at h; exact ih (r + 1) e h

theorem save_err (c : Classes) (x : FileExt ν) (data : List (List (Cell ν))) (e : PyExc)
    (h : save fixed c x data = .error e) : e = .RuntimeError ∨ RaisedBy c x e := by
  unfold save at h
  simp only [fixed, if_true, Bool.true_and] at h
  split at h
  · cases h; exact Or.inl rfl
  · split at h
    · rename_i e' hd
      cases h
      exact Or.inr (Or.inr (Or.inr (Or.inl ⟨_, _, hd⟩)))
    · split at h
      · rename_i e' hw
        cases h
        exact Or.inr (Or.inr (Or.inr (Or.inr (Or.inl (writeRows_err x data 0 _ hw)))))
      · split at h
        · rename_i e' hs
          cases hos : c.isOSError e' with
          | true => rw [hos] at h; simp only [if_true] at h; cases h; exact Or.inl rfl
          | false =>
            rw [hos] at h; simp only [Bool.false_eq_true, if_false] at h; cases h
            exact Or.inr (Or.inr (Or.inr (Or.inr (Or.inr ⟨hs, hos⟩))))
        · cases h

/-- what leaves the conversion of one file is RuntimeError, or an exception of an external call that no
    `except` clause names -/
theorem convertFile_err (c : Classes) (o : Opts) (x : FileExt ν) (e : PyExc)
    (h : convertFile fixed c o x = .error e) : e = .RuntimeError ∨ RaisedBy c x e := by
  unfold convertFile at h
  cases hr : readCsv fixed c x o with
  | error e' => rw [hr] at h; cases h; exact readCsv_err c x o _ hr
  | ok rows =>
    rw [hr] at h
    simp only at h
    cases hc : convert x.pyFloat x.norm o rows with
    | error e' => rw [hc] at h; cases h; exact Or.inl (convert_err _ _ _ _ _ hc)
    | ok table => rw [hc] at h; exact save_err c x table e h

theorem convertAll_err (c : Classes) (o : Opts) (files : List (FileExt ν)) (e : PyExc)
    (h : convertAll fixed c o files = .error e) : e = .RuntimeError ∨ ∃ x ∈ files, RaisedBy c x e := by
  induction files with
  | nil => cases h
  | cons x rest ih =>
    simp only [convertAll] at h
    cases hx : convertFile fixed c o x with
    | error e' =>
      rw [hx] at h; cases h
      rcases convertFile_err c o x _ hx with h1 | h2
      · exact Or.inl h1
      · exact Or.inr ⟨x, by simp, h2⟩
    | ok u =>
      rw [hx] at h
      rcases ih h with h1 | ⟨y, hy, h2⟩
      · exact Or.inl h1
      · exact Or.inr ⟨y, by simp [hy], h2⟩

theorem deriveAll_err (files : List (FileExt ν)) (e : PyExc) (h : deriveAll files = .error e) :
    ∃ x ∈ files, x.deriveOutput = .error e := by
  induction files with
  | nil => cases h
  | cons x rest ih =>
    simp only [deriveAll] at h
    cases hx : x.deriveOutput with
    | error e' => rw [hx] at h; cases h; exact ⟨x, by simp, hx⟩
    | ok u =>
      rw [hx] at h
      obtain ⟨y, hy, h2⟩ := ih h
      exact ⟨y, by simp [hy], h2⟩

theorem runFiles_cases (c : Classes) (o : Opts) (files : List (FileExt ν)) (n : Nat) :
    runFiles fixed c o files n = .ok ⟨0, 0, 0⟩ ∨ runFiles fixed c o files n = .ok ⟨1, 0, 1⟩ ∨
    ∃ e, runFiles fixed c o files n = .error e ∧ ¬ Caught c e ∧ ∃ x ∈ files, RaisedBy c x e := by
  unfold runFiles
  by_cases hn : files.length ≠ n
  · rw [if_pos hn]; exact Or.inr (Or.inl rfl)
  · rw [if_neg hn]
    cases hc : convertAll fixed c o files with
    | ok u => exact Or.inl rfl
    | error e =>
      simp only
      cases hcaught : (e == .RuntimeError || c.isRuntimeError e) with
      | true => simp
      | false =>
        simp only [Bool.false_eq_true, if_false]
        simp only [Bool.or_eq_false_iff, beq_eq_false_iff_ne] at hcaught
        have hnc : ¬ Caught c e := by
          intro hk
          rcases hk with hk | hk
          · exact hcaught.1 hk
          · rw [hcaught.2] at hk; cases hk
        rcases convertAll_err c o files e hc with h1 | ⟨x, hx, h2⟩
        · exact absurd h1 hcaught.1
        · exact Or.inr (Or.inr ⟨e, rfl, hnc, x, hx, h2⟩)

/-- the three ways `main` can end -/
theorem main_cases (c : Classes) (o : Opts) (args : Args) (files : List (FileExt ν))
    (hv : args.version = false) (hf : files ≠ []) :
    main fixed c o args files = .ok ⟨0, 0, 0⟩ ∨ main fixed c o args files = .ok ⟨1, 0, 1⟩ ∨
    ∃ e, main fixed c o args files = .error e ∧
      ∃ x ∈ files, x.deriveOutput = .error e ∨ (¬ Caught c e ∧ RaisedBy c x e) := by
  have hne : files.isEmpty = false := by cases files with
    | nil => exact absurd rfl hf
    | cons _ _ => rfl
  obtain ⟨version, outputs, helpLines⟩ := args
  simp only at hv
  subst hv
  unfold main
  simp only [Bool.false_eq_true, if_false, hne]
  have lift : ∀ n, runFiles fixed c o files n = .ok ⟨0, 0, 0⟩ ∨ runFiles fixed c o files n = .ok ⟨1, 0, 1⟩ ∨
      ∃ e, runFiles fixed c o files n = .error e ∧
        ∃ x ∈ files, x.deriveOutput = .error e ∨ (¬ Caught c e ∧ RaisedBy c x e) := by
    intro n
    rcases runFiles_cases c o files n with h | h | ⟨e, he, hnc, x, hx, hr⟩
    · exact Or.inl h
    · exact Or.inr (Or.inl h)
    · exact Or.inr (Or.inr ⟨e, he, x, hx, Or.inr ⟨hnc, hr⟩⟩)
  cases outputs with
  | some n => exact lift n
  | none =>
    simp only
    cases hd : deriveAll files with
    | error e =>
      obtain ⟨x, hx, hxe⟩ := deriveAll_err files e hd
      exact Or.inr (Or.inr ⟨e, rfl, x, hx, Or.inl hxe⟩)
    | ok u => exact lift files.length

/-- the external calls made for `x` raise only what the code handles: opening and reading the file raise
    FileNotFoundError / csv.Error / OSError / UnicodeError / LookupError (or RuntimeError); `Document(…)` and
    `table.write` do not raise (or raise RuntimeError); `doc.save` raises OSError (or RuntimeError);
    `Path.with_suffix` does not raise -/
structure Tame (c : Classes) (x : FileExt ν) : Prop where
  derive : x.deriveOutput = .ok ()
  open_ : ∀ e, x.openFile = .error e →
    c.isFileNotFound e = true ∨ c.isCsvError e = true ∨ c.isOSError e = true ∨ c.isUnicodeError e = true ∨
      c.isLookupError e = true ∨ Caught c e
  iter : ∀ content e, x.openFile = .ok content → content.fail = some e →
    c.isFileNotFound e = true ∨ c.isCsvError e = true ∨ c.isOSError e = true ∨ c.isUnicodeError e = true ∨
      c.isLookupError e = true ∨ Caught c e
  doc : ∀ r k e, x.newDocument r k = .error e → Caught c e
  write : ∀ r k cell e, x.write r k cell = .error e → Caught c e
  save : ∀ e, x.saveDoc = .error e → c.isOSError e = true ∨ Caught c e

theorem untranslated_handled {c : Classes} {e : PyExc} (hu : Untranslated c e)
    (h : c.isFileNotFound e = true ∨ c.isCsvError e = true ∨ c.isOSError e = true ∨ c.isUnicodeError e = true ∨
      c.isLookupError e = true ∨ Caught c e) : Caught c e := by
  obtain ⟨h1, h2, h3, h4, h5⟩ := hu
  rcases h with h | h | h | h | h | h
  · rw [h1] at h; cases h
  · rw [h2] at h; cases h
  · rw [h3] at h; cases h
  · rw [h4] at h; cases h
  · rw [h5] at h; cases h
  · exact h

theorem tame_raised {c : Classes} {x : FileExt ν} {e : PyExc} (ht : Tame c x) (hr : RaisedBy c x e) : Caught c e := by
  rcases hr with ⟨ho, hu⟩ | ⟨content, ho, hf, hu⟩ | ⟨r, k, hd⟩ | ⟨r, k, cell, hw⟩ | ⟨hs, hos⟩
  · exact untranslated_handled hu (ht.open_ e ho)
  · exact untranslated_handled hu (ht.iter content e ho hf)
  · exact ht.doc r k e hd
  · exact ht.write r k cell e hw
  · rcases ht.save e hs with h | h
    · rw [hos] at h; cases h
    · exact h

end NumbersModel.CsvMain
