/-
Equivalence of the definitions that `harness/py2lean.py` regenerates from the Python source on every
check run (`Gen/TrItems.lean`) with the hand-written model functions the property theorems are stated
about.  When the Python source of one of these functions changes, the generated definition changes and
the corresponding `…_eq_model` theorem here is re-checked by the kernel against what the code says now.
-/
import NumbersModel.Gen.TrItems
import NumbersModel.Model.Items
import Mathlib.Tactic.Ring

namespace NumbersModel.Translated
open NumbersModel NumbersModel.Gen.T

/-! ### `ItemsList.__getitem__` -/

def toT (it : Items.Item) : PyT.Item := ⟨(it.id : Int), it.name⟩

theorem getitem_int_eq_model (items : Items.Coll) (k : Int) :
    ItemsList.getitem (items.map toT) (.int k) = (Items.getByIndex items k).map toT := by
  unfold ItemsList.getitem Items.getByIndex
  simp only [List.length_map]
  by_cases hk : k < 0
  · simp only [hk, decide_true, if_true, bind, Except.bind, pure, Except.pure]
    by_cases h1 : k + (items.length : Int) < 0
    · simp [h1]; rfl
    · by_cases h2 : k + (items.length : Int) ≥ items.length
      · omega
      · simp only [h1, h2, decide_false, Bool.or_self, Bool.false_eq_true, if_false, pyIndex, List.length_map]
        have h3 : (k + (items.length : Int)).toNat < items.length := by omega
        simp [h1, h2, h3, Except.map]
  · simp only [hk, decide_false, Bool.false_eq_true, if_false, bind, Except.bind, pure, Except.pure]
    by_cases h2 : k ≥ items.length
    · simp [hk, h2]; rfl
    · have h3 : k.toNat < items.length := by omega
      simp [hk, h2, h3, pyIndex, Except.map]

theorem getitem_for1_eq (key : Text) (items : Items.Coll) :
    ItemsList.getitem.for1 key (items.map toT)
      = .ok ((items.find? (fun it => it.name = key)).map toT, ()) := by
  induction items with
  | nil => rfl
  | cons it rest ih =>
    simp only [List.map_cons, ItemsList.getitem.for1, toT]
    by_cases h : it.name = key
    · simp [h, pure, Except.pure, toT]
    · simp only [h, decide_false, Bool.false_eq_true, if_false]
      rw [ih]
      simp [List.find?, h]

theorem getitem_str_eq_model (items : Items.Coll) (key : Text) :
    ItemsList.getitem (items.map toT) (.str key) = (Items.getByName items key).map toT := by
  unfold ItemsList.getitem Items.getByName
  simp only [getitem_for1_eq, bind, Except.bind]
  cases items.find? (fun it => it.name = key) <;> rfl

theorem getitem_other (items : List PyT.Item) :
    ItemsList.getitem items .other = .error (.Other "LookupError") := rfl

end NumbersModel.Translated
