/-
C02 — the demo document of Props/C02.lean and the proof that it satisfies `Opened` and `Writable` (non-vacuity of the
hypotheses of `document_resave_identity` / `document_resave_stable`).
-/
import NumbersModel.Lemmas.Document
namespace NumbersModel.Document
open NumbersModel NumbersModel.Layout NumbersModel.CellRecord NumbersModel.TablePipeline NumbersModel.Merge

def demoTree : DocTree.Doc :=
  { objects := [(1, .document [2, 3]), (2, .sheet "One".toList [10, 11]), (3, .sheet "Two".toList [12]),
                (20, .tableModel "T1".toList true 1 1), (21, .tableModel "T2".toList true 1 0),
                (22, .tableModel "T3".toList false 0 0),
                (11, .tableInfo 2 21 0 false 0 0), (10, .tableInfo 2 20 0 false 0 0), (12, .tableInfo 3 22 0 true 5 7)],
    files := [("Index/Document.iwa".toList, some [1, 2, 3, 10, 11, 12]), ("preview.jpg".toList, none),
              ("Index/Tables/DataList.iwa".toList, some [22, 21, 20])],
    maxId := 1000000 }

def demoCur : FormatDispatch.Fmt := { formatType := 257, decimalPlaces := 2, currencyCode := "EUR".toList, showThousands := true }

/-- `=A1+B1` style: two reference nodes and an addition; the reference texts come from the host (`demoEnv.refText`) -/
def demoFormula : List Formula.Node := [{ ty := 36 }, { ty := 36 }, { ty := 1 }]

def demoT1 : TableSt :=
  { grid := [[⟨.currency, List.replicate 16 7, [], none, { curFmt := some 5, formula := some 1 }⟩, ⟨.merged, [], [], none, {}⟩],
             [⟨.text, [], "x".toList, none, {}⟩, ⟨.number, List.replicate 16 3, [], none, { formula := some 1 }⟩]],
    mmap := [((0, 0), .anchor 1 2), ((0, 1), .ref 0 0 0 1)],
    formulas := [(1, demoFormula)], formats := [(5, demoCur)], rich := [] }

def demoT2 : TableSt :=
  { grid := [[⟨.text, [], "x".toList, some 4, {}⟩], [⟨.rich, [], [], none, { rich := some 2 }⟩]], mmap := [],
    formulas := [], formats := [], rich := [(2, 77)] }

def demoT3 : TableSt :=
  { grid := [[⟨.date, List.replicate 8 9, [], none, { dateFmt := some 2 }⟩, ⟨.empty, [], [], none, {}⟩]], mmap := [],
    formulas := [], formats := [(2, { dateTimeFormat := "yyyy".toList })], rich := [] }

def demoDoc : Doc := { tree := demoTree, tables := [(22, demoT3), (20, demoT1), (21, demoT2)] }

def demoNum : FormatDispatch.NumVal :=
  { repr := ⟨false, 12345, -1⟩, times100 := ⟨false, 123450, 0⟩, sci := ⟨false, 12345, -1⟩, ratio := (2469, 2),
    fracProduct := fun _ => (false, 1, 2), custom := fun _ => (⟨⟨false, 12345, -1⟩, ⟨false, 12345, -1⟩⟩, ⟨⟨false, 123450, 0⟩, ⟨false, 123450, 0⟩⟩) }

def demoEnv : Env :=
  { fenv := ⟨Char.isAlpha, [48], 'x'⟩,
    interp := fun _ _ _ v =>
      match v.kind with
      | .number => FormatDispatch.Cell.ofNumber demoNum "1234.5".toList
      | .currency => { FormatDispatch.Cell.ofNumber demoNum "1234.5".toList with currencyType := true }
      | .text => { FormatDispatch.Cell.ofText v.text with stringText := v.text }
      | .date => FormatDispatch.Cell.ofDate ⟨2020, 2, 29, 13, 5, 7, 0⟩ "2020-02-29 13:05:07".toList
      | .empty => { kind := .empty }
      | .rich => { kind := .richText }
      | _ => { kind := .merged },
    refText := fun _ r c i => [Char.ofNat (65 + c + i), Char.ofNat (49 + r)] }


theorem demo_tree_ok : TreeOK demoTree := by
  refine ⟨by decide, ?_, by decide⟩
  intro k p tm c h x y hm
  simp only [demoTree, List.mem_cons, Prod.mk.injEq, reduceCtorEq, and_false, false_or, List.not_mem_nil, or_false,
    DocTree.Obj.tableInfo.injEq] at hm
  rcases hm with ⟨rfl, rfl, rfl, rfl, rfl, rfl, rfl⟩ | ⟨rfl, rfl, rfl, rfl, rfl, rfl, rfl⟩ | ⟨rfl, rfl, rfl, rfl, rfl, rfl, rfl⟩
  · exact ⟨"One".toList, [10, 11], by decide, by decide⟩
  · exact ⟨"One".toList, [10, 11], by decide, by decide⟩
  · exact ⟨"Two".toList, [12], by decide, by decide⟩

theorem demo_merge_ok : MergeOK demoT1.mmap := by
  refine ⟨by decide, ?_, ?_, ?_⟩
  · intro a ha
    simp only [demoT1, anchorsOf, List.mem_singleton] at ha
    subst ha
    simp [AnchorFits]
  · intro a ha b hb hne
    simp only [demoT1, anchorsOf, List.mem_singleton] at ha hb
    subst ha; subst hb
    exact absurd rfl hne
  · rintro ⟨a, b⟩
    simp only [demoT1, MMap.get, genGet, rectsOf, anchorsOf, List.map_cons, List.map_nil, rectOf, List.find?_cons,
      List.find?_nil, Prod.mk.injEq]
    cases hk : Rct.has (0, 0, 0 + 1 - 1, 0 + 2 - 1) (a, b) with
    | false =>
      have hn : ¬ (0 ≤ a ∧ a ≤ 0 ∧ 0 ≤ b ∧ b ≤ 1) := by
        intro h
        have := (Rct.has_iff (0, 0, 0 + 1 - 1, 0 + 2 - 1) (a, b)).mpr (by simpa [Rct.r0, Rct.r1, Rct.c0, Rct.c1] using h)
        rw [hk] at this; cases this
      have h1 : ¬ ((0 : Int) = a ∧ (0 : Int) = b) := by omega
      have h2 : ¬ ((0 : Int) = a ∧ (1 : Int) = b) := by omega
      simp [h1, h2]
    | true =>
      have h := (Rct.has_iff _ _).mp hk
      simp only [Rct.r0, Rct.r1, Rct.c0, Rct.c1] at h
      have ha : a = 0 := by omega
      subst ha
      have hb : b = 0 ∨ b = 1 := by omega
      rcases hb with rfl | rfl <;>
        simp [Rct.entry, Rct.origin, Rct.r0, Rct.c0, Rct.r1, Rct.c1, Rct.height, Rct.width]

theorem demo_t1_opened : LiveOpened demoT1 := by
  refine ⟨by simp [demoT1], ⟨2, by simp [Rect, demoT1], by decide⟩, by simp [demoT1]; decide, ?_, ?_, demo_merge_ok⟩
  · intro row hrow c hc _
    simp only [demoT1, List.mem_cons, List.not_mem_nil, or_false] at hrow
    rcases hrow with rfl | rfl <;> simp only [List.mem_cons, List.not_mem_nil, or_false] at hc <;>
      rcases hc with rfl | rfl <;>
      simp [ValidCell, EncodableT, Encodable, toCell, IdsInRange, I32]
  · intro r row hr c cell hc
    rcases r with _ | _ | r <;> simp [demoT1] at hr <;> subst hr <;>
      rcases c with _ | _ | c <;> simp at hc <;> subst hc <;> simp [isRef, demoT1, MMap.get]

theorem demo_t2_opened : LiveOpened demoT2 := by
  refine ⟨by simp [demoT2], ⟨1, by simp [Rect, demoT2], by decide⟩, by simp [demoT2]; decide, ?_, ?_, mergeOK_nil⟩
  · intro row hrow c hc _
    simp only [demoT2, List.mem_cons, List.not_mem_nil, or_false] at hrow
    rcases hrow with rfl | rfl <;> simp only [List.mem_cons, List.not_mem_nil, or_false] at hc <;>
      subst hc <;>
      simp [ValidCell, EncodableT, Encodable, toCell, IdsInRange, I32]
  · intro r row hr c cell hc
    rcases r with _ | _ | r <;> simp [demoT2] at hr <;> subst hr <;>
      rcases c with _ | c <;> simp at hc <;> subst hc <;> simp [isRef, demoT2, MMap.get]

theorem demo_t3_opened : LiveOpened demoT3 := by
  refine ⟨by simp [demoT3], ⟨2, by simp [Rect, demoT3], by decide⟩, by simp [demoT3]; decide, ?_, ?_, mergeOK_nil⟩
  · intro row hrow c hc _
    simp only [demoT3, List.mem_cons, List.not_mem_nil, or_false] at hrow
    subst hrow
    simp only [List.mem_cons, List.not_mem_nil, or_false] at hc
    rcases hc with rfl | rfl <;>
      simp [ValidCell, EncodableT, Encodable, toCell, IdsInRange, I32]
  · intro r row hr c cell hc
    rcases r with _ | r <;> simp [demoT3] at hr <;> subst hr <;>
      rcases c with _ | _ | c <;> simp at hc <;> subst hc <;> simp [isRef, demoT3, MMap.get]

theorem demo_t1_writable : TableWritable demoT1 := by
  intro _ row hrow c hc
  simp only [demoT1, List.mem_cons, List.not_mem_nil, or_false] at hrow
  rcases hrow with rfl | rfl <;> simp only [List.mem_cons, List.not_mem_nil, or_false] at hc <;>
    rcases hc with rfl | rfl <;> decide

theorem demo_t2_writable : TableWritable demoT2 := by
  intro _ row hrow c hc
  simp only [demoT2, List.mem_cons, List.not_mem_nil, or_false] at hrow
  rcases hrow with rfl | rfl <;> simp only [List.mem_cons, List.not_mem_nil, or_false] at hc <;>
    subst hc <;> decide

theorem demo_t3_writable : TableWritable demoT3 := by
  intro _ row hrow c hc
  simp only [demoT3, List.mem_cons, List.not_mem_nil, or_false] at hrow
  subst hrow
  simp only [List.mem_cons, List.not_mem_nil, or_false] at hc
  rcases hc with rfl | rfl <;> decide

/-- **the hypotheses are satisfiable**: the demo document (two sheets, three tables, a merge, a shared formula, a currency
    format, string cells, a rich cell, a date) is `Opened` and `Writable` -/
theorem demo_opened : Opened demoDoc ∧ Writable demoDoc := by
  have hids : allTableIds demoDoc.tree.objects = .ok [20, 21, 22] := by decide +kernel
  refine ⟨⟨demo_tree_ok, [20, 21, 22], hids, ?_⟩, ?_⟩
  · intro tid hm
    simp only [List.mem_cons, List.not_mem_nil, or_false] at hm
    rcases hm with rfl | rfl | rfl
    · exact ⟨demoT1, by simp [demoDoc, dictGet?], demo_t1_opened⟩
    · exact ⟨demoT2, by simp [demoDoc, dictGet?], demo_t2_opened⟩
    · exact ⟨demoT3, by simp [demoDoc, dictGet?], demo_t3_opened⟩
  · intro tids h tid hm t ht
    rw [hids] at h
    injection h with h
    subst h
    simp only [List.mem_cons, List.not_mem_nil, or_false] at hm
    rcases hm with rfl | rfl | rfl <;> simp [demoDoc, dictGet?] at ht <;> subst ht
    · exact demo_t1_writable
    · exact demo_t2_writable
    · exact demo_t3_writable

end NumbersModel.Document
