import NumbersModel.Model.Cache
import NumbersModel.Lemmas.A1
namespace NumbersModel.Cache
open NumbersModel NumbersModel.A1

theorem natStrSpec_chars (n : Nat) : ∀ ch ∈ natStrSpec n, ∃ d, d < 10 ∧ ch = digitChar d := by
  induction n using Nat.strongRecOn with
  | _ n ih =>
    unfold natStrSpec
    by_cases h : n < 10
    · simp only [h, dite_true, List.mem_singleton]; intro ch hch; exact ⟨n, h, hch⟩
    · simp only [h, dite_false, List.mem_append, List.mem_singleton]
      intro ch hch
      rcases hch with hch | hch
      · exact ih _ (by omega) ch hch
      · exact ⟨n % 10, Nat.mod_lt _ (by decide), hch⟩

theorem natStr_chars (n : Nat) : ∀ ch ∈ natStr n, 48 ≤ ch.toNat ∧ ch.toNat ≤ 57 := by
  rw [natStr_eq]
  intro ch hch
  obtain ⟨d, hd, rfl⟩ := natStrSpec_chars n ch hch
  rw [digitChar_toNat d hd]; omega

theorem natStr_ne_nil (n : Nat) : natStr n ≠ [] := by
  obtain ⟨c, tl, h, _⟩ := natStr_head_not_upper n
  rw [h]; simp

/-- characters of `str(i)` are digits or '-', never '.'. -/
theorem intStr_no_dot (i : Int) : '.' ∉ intStr i := by
  intro h
  unfold intStr at h
  have hdot : ('.' : Char).toNat = 46 := by decide
  split at h
  · rcases List.mem_cons.mp h with h | h
    · exact absurd h (by decide)
    · have := natStr_chars _ _ h; omega
  · have := natStr_chars _ _ h; omega

theorem intStr_injective {a b : Int} (h : intStr a = intStr b) : a = b := by
  unfold intStr at h
  have hminus : ('-' : Char).toNat = 45 := by decide
  by_cases ha : a < 0 <;> by_cases hb : b < 0 <;> simp only [ha, hb, if_true, if_false] at h
  · injection h with _ h
    have := natStr_injective h; omega
  · exfalso
    have hm : '-' ∈ natStr b.toNat := by rw [← h]; simp
    have := natStr_chars _ _ hm; omega
  · exfalso
    have hm : '-' ∈ natStr a.toNat := by rw [h]; simp
    have := natStr_chars _ _ hm; omega
  · have := natStr_injective h; omega

theorem intStr_ne_nil (i : Int) : intStr i ≠ [] := by
  unfold intStr; split
  · simp
  · exact natStr_ne_nil _

/-- splitting at the first '.' : two dot-free prefixes followed by '.' (or by the end) agree. -/
theorem prefix_unique {u v r s : List Char} (hu : '.' ∉ u) (hv : '.' ∉ v)
    (h : u ++ '.' :: r = v ++ '.' :: s) : u = v ∧ r = s := by
  induction u generalizing v with
  | nil =>
    cases v with
    | nil => simpa using h
    | cons c v' =>
      simp only [List.nil_append, List.cons_append, List.cons.injEq] at h
      exact absurd (by rw [← h.1]; simp) hv
  | cons a u' ih =>
    cases v with
    | nil =>
      simp only [List.nil_append, List.cons_append, List.cons.injEq] at h
      exact absurd (by rw [h.1]; simp) hu
    | cons c v' =>
      simp only [List.cons_append, List.cons.injEq] at h
      obtain ⟨e1, e2⟩ := ih (fun hh => hu (List.mem_cons_of_mem _ hh)) (fun hh => hv (List.mem_cons_of_mem _ hh)) h.2
      exact ⟨by rw [h.1, e1], e2⟩

theorem cacheKey_no_dot_single (a : Int) : '.' ∉ cacheKey [a] := intStr_no_dot a

/-- the cache key determines the argument tuple (same number of key arguments). -/
theorem cacheKey_injective : ∀ (xs ys : List Int), xs.length = ys.length →
    cacheKey xs = cacheKey ys → xs = ys := by
  intro xs
  induction xs with
  | nil => intro ys hl _; cases ys <;> simp_all
  | cons a r ih =>
    intro ys hl h
    cases ys with
    | nil => simp at hl
    | cons b s =>
      simp only [List.length_cons, Nat.add_right_cancel_iff] at hl
      cases r with
      | nil =>
        cases s with
        | nil => simp only [cacheKey] at h; rw [intStr_injective h]
        | cons _ _ => simp at hl
      | cons a2 r2 =>
        cases s with
        | nil => simp at hl
        | cons b2 s2 =>
          simp only [cacheKey, List.append_assoc, List.singleton_append] at h
          obtain ⟨e1, e2⟩ := prefix_unique (intStr_no_dot a) (intStr_no_dot b) h
          rw [intStr_injective e1, ih (b2 :: s2) hl e2]

/-- every stored value is the function's value at arguments of the right arity with that key. -/
def Sound {β} (f : List Int → β) (n : Nat) (s : Store β) : Prop :=
  ∀ e ∈ s, ∃ args : List Int, args.length = n ∧ cacheKey args = e.1 ∧ e.2 = f args

theorem memoCall_transparent {β} (f : List Int → β) (n : Nat) (s : Store β) (args : List Int)
    (hs : Sound f n s) (hn : args.length = n) :
    (memoCall f s args).1 = f args ∧ Sound f n (memoCall f s args).2 := by
  unfold memoCall lookup
  cases hf : s.find? (fun e => e.1 = cacheKey args) with
  | none =>
    simp only [Option.map_none]
    refine ⟨by trivial, ?_⟩
    intro e he
    rcases List.mem_cons.mp he with h | h
    · subst h; exact ⟨args, hn, rfl, rfl⟩
    · exact hs e h
  | some e =>
    simp only [Option.map_some]
    have hm := List.mem_of_find?_eq_some hf
    have hk : e.1 = cacheKey args := by simpa using List.find?_some hf
    obtain ⟨args', hl, hkey, hv⟩ := hs e hm
    have : args' = args := cacheKey_injective args' args (by omega) (by rw [hkey, hk])
    subst this
    exact ⟨hv, hs⟩

/-- memoisation with this key is transparent: any sequence of calls (all with `n` key
    arguments) returns exactly the values of the undecorated function. -/
theorem memoCalls_transparent {β} (f : List Int → β) (n : Nat) :
    ∀ (calls : List (List Int)) (s : Store β), Sound f n s → (∀ a ∈ calls, a.length = n) →
      (memoCalls f s calls).1 = calls.map f := by
  intro calls
  induction calls with
  | nil => intro s _ _; rfl
  | cons a r ih =>
    intro s hs hl
    obtain ⟨h1, h2⟩ := memoCall_transparent f n s a hs (hl a (by simp))
    simp only [memoCalls, List.map_cons]
    rw [h1, ih _ h2 (fun b hb => hl b (by simp [hb]))]

end NumbersModel.Cache
