/-
Python slicing (`Py/Basic.lean: pySlice`) with non-negative bounds as `take` / `drop`: what the definitions translated from the
source compute with, against what the hand-written models use.
-/
import NumbersModel.Py.Basic
namespace NumbersModel.PySliceLemmas
open NumbersModel

theorem slice_to {α} (l : List α) (k : Int) (hk : 0 ≤ k) : pySlice l none (some k) = l.take k.toNat := by
  unfold pySlice pyClamp
  have h1 : ¬ k < 0 := by omega
  simp only [h1, if_false, List.drop_zero, Nat.sub_zero]
  by_cases h2 : k > (l.length : Int)
  · simp only [h2, if_true]
    rw [List.take_of_length_le (Nat.le_refl _), List.take_of_length_le (by omega)]
  · simp only [h2, if_false]

theorem slice_from {α} (l : List α) (k : Int) (hk : 0 ≤ k) : pySlice l (some k) none = l.drop k.toNat := by
  unfold pySlice pyClamp
  have h1 : ¬ k < 0 := by omega
  simp only [h1, if_false]
  by_cases h2 : k > (l.length : Int)
  · simp only [h2, if_true]
    rw [List.drop_of_length_le (Nat.le_refl _), List.drop_of_length_le (by omega)]
    simp
  · simp only [h2, if_false]
    apply List.take_of_length_le
    simp [List.length_drop]

theorem slice_mid {α} (l : List α) (a b : Int) (ha : 0 ≤ a) (hab : a ≤ b) :
    pySlice l (some a) (some b) = (l.drop a.toNat).take (b.toNat - a.toNat) := by
  unfold pySlice pyClamp
  have h1 : ¬ a < 0 := by omega
  have h1' : ¬ b < 0 := by omega
  simp only [h1, h1', if_false]
  by_cases h2 : a > (l.length : Int)
  · have h3 : b > (l.length : Int) := by omega
    simp only [h2, h3, if_true]
    rw [List.drop_of_length_le (Nat.le_refl _), List.drop_of_length_le (by omega)]
    simp
  · simp only [h2, if_false]
    by_cases h3 : b > (l.length : Int)
    · simp only [h3, if_true]
      rw [List.take_of_length_le (by simp [List.length_drop]), List.take_of_length_le (by simp [List.length_drop]; omega)]
    · simp only [h3, if_false]

end NumbersModel.PySliceLemmas
