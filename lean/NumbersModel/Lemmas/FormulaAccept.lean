/-
Bridge between C08's renderer (Model/Formula.lean: `render`) and the tokenizer acceptance
theorem (Lemmas/TokenizerAccept.lean: `tokenize_accepts` over the grammar `G`).
-/
import NumbersModel.Lemmas.TokenizerAccept
import NumbersModel.Lemmas.Formula
import NumbersModel.Lemmas.Cache
namespace NumbersModel.FormulaAccept
open NumbersModel NumbersModel.Tokenizer NumbersModel.Formula

theorem atom_of_ok {t : Text} (h : atomOK t = true) : G true t := by
  unfold atomOK at h
  simp only [Bool.and_eq_true, Bool.not_eq_true', List.all_eq_true] at h
  obtain ⟨⟨h1, h2⟩, h3⟩ := h
  exact G.atom t (by intro he; subst he; simp at h1) h2 h3

theorem snMatch_needs_E (t : Text) (h : 'E' ∉ t) : snMatch t = false := by
  cases ht : snMatch t with
  | false => rfl
  | true =>
    exfalso
    unfold snMatch at ht
    have tailE : ∀ x : List Char, snTail x = true → 'E' ∈ x := by
      intro x hx
      unfold snTail at hx
      split at hx <;> simp_all
    split at ht
    · rename_i d r
      split at ht
      · split at ht
        · rename_i r'
          simp only [Bool.and_eq_true, decide_eq_true_eq] at ht
          have := tailE _ ht.2
          have hsub : ∀ x ∈ r'.dropWhile isDigit09, x ∈ r' := fun x hx => (List.dropWhile_sublist _).subset hx
          exact h (by simp [hsub _ this])
        · have := tailE _ ht
          exact h (by simp [this])
      · cases ht
    · cases ht

theorem digits_plain (n : Nat) : atomOK (natStr n) = true := by
  have hchars := NumbersModel.Cache.natStr_chars n
  have hne := NumbersModel.Cache.natStr_ne_nil n
  unfold atomOK
  simp only [Bool.and_eq_true, Bool.not_eq_true', List.all_eq_true]
  refine ⟨⟨by simpa [List.isEmpty_iff] using hne, ?_⟩, ?_⟩
  · intro c hc
    have hb := hchars c hc
    have hall : ∀ k, 48 ≤ k → k ≤ 57 → plain (Char.ofNat k) = true := by decide
    have := hall c.toNat hb.1 hb.2
    rwa [Char.ofNat_toNat] at this
  · apply snMatch_needs_E
    intro hE
    have := hchars 'E' hE
    have h69 : ('E' : Char).toNat = 69 := by decide
    omega

end NumbersModel.FormulaAccept

namespace NumbersModel.FormulaAccept
open NumbersModel NumbersModel.Tokenizer NumbersModel.Formula

theorem doubleQuotes_escaped (s : Text) : escapedBody '"' (doubleQuotes s) = true := by
  induction s with
  | nil => rfl
  | cons c r ih =>
    unfold doubleQuotes
    by_cases hc : c = '"'
    · simp only [hc, if_true]; rw [escapedBody_pair]; exact ih
    · simp only [hc, if_false]; rw [escapedBody_ne _ _ _ hc]; exact ih

theorem quoteLit_G (s : Text) : G true (quoteLit s) :=
  G.str _ ⟨doubleQuotes s, rfl, doubleQuotes_escaped s⟩

theorem glyph_bin (op : BinOp) : ∃ c, glyph op = [c] ∧ BinGlyph c = true := by
  cases op <;> exact ⟨_, rfl, by decide⟩

theorem date_G (m : Int) : G true (dateSpec m) := by
  unfold dateSpec
  generalize civil (epochOrdinal + m / 86400000000).toNat = ymd
  obtain ⟨y, mo, d⟩ := ymd
  have hy := atom_of_ok (digits_plain y)
  have hm := atom_of_ok (digits_plain mo)
  have hd := atom_of_ok (digits_plain d)
  have hargs : G false (natStr y ++ ',' :: (natStr mo ++ ',' :: natStr d)) :=
    G.args_cons _ ',' _ hy (Or.inl rfl) (G.args_cons _ ',' _ hm (Or.inl rfl) (G.args_one _ hd))
  have hname : ∀ c ∈ "DATE".toList, plain c = true := by decide
  have := G.group "DATE".toList _ hname hargs
  have heq : "DATE(".toList ++ natStr y ++ [','] ++ natStr mo ++ [','] ++ natStr d ++ [')']
      = "DATE".toList ++ '(' :: ((natStr y ++ ',' :: (natStr mo ++ ',' :: natStr d)) ++ [')']) := by
    simp [List.append_assoc]
  show G true ("DATE(".toList ++ natStr y ++ [','] ++ natStr mo ++ [','] ++ natStr d ++ [')'])
  rw [heq]; exact this

theorem skipBody_spec : ∀ (r y : List Char), skipBody r = some y →
    ∃ b, r = b ++ '\'' :: y ∧ ∀ c ∈ b, c ≠ '\''
  | [], _, h => by simp [skipBody] at h
  | c :: r, y, h => by
    unfold skipBody at h
    by_cases hc : c = '\''
    · simp only [hc, if_true, Option.some.injEq] at h
      exact ⟨[], by simp [hc, h], by simp⟩
    · simp only [hc, if_false] at h
      obtain ⟨b, hb, hne⟩ := skipBody_spec r y h
      refine ⟨c :: b, by simp [hb], ?_⟩
      intro x hx
      rcases List.mem_cons.1 hx with rfl | hx
      · exact hc
      · exact hne x hx

theorem contTail_spec {y z : List Char} (h : contTail y = some z) : y = ':' :: z ∧ ∃ r, z = '\'' :: r := by
  unfold contTail at h
  split at h
  · injection h with h; subst h; exact ⟨rfl, _, rfl⟩
  · cases h

theorem skipChain_spec : ∀ (f : Nat) (s post : List Char), skipChain f s = some post →
    ∃ q, SQChain q ∧ s = q ++ post
  | 0, _, _, h => by simp [skipChain] at h
  | f + 1, s, post, h => by
    cases s with
    | nil => simp [skipChain] at h
    | cons c r =>
      by_cases hc : c = '\''
      · subst hc
        simp only [skipChain] at h
        cases hb : skipBody r with
        | none => rw [hb] at h; cases h
        | some y =>
          rw [hb] at h
          obtain ⟨b, hr, hne⟩ := skipBody_spec r y hb
          simp only [] at h
          cases hz : contTail y with
          | none =>
            rw [hz] at h
            injection h with h
            subst h
            exact ⟨'\'' :: (b ++ ['\'']), SQChain.one b hne, by simp [hr]⟩
          | some z =>
            rw [hz] at h
            obtain ⟨hy, _⟩ := contTail_spec hz
            obtain ⟨q', hq', hzq⟩ := skipChain_spec f z post h
            refine ⟨'\'' :: (b ++ '\'' :: ':' :: q'), SQChain.more b q' hne hq', ?_⟩
            simp [hr, hy, hzq]
      · have : skipChain (f + 1) (c :: r) = none := by
          unfold skipChain
          split
          · rfl
          · rename_i heq; injection heq with e _; exact absurd e hc
          · rfl
        rw [this] at h; cases h

theorem postOKb_spec {post : List Char} (h : postOKb post = true) : PostOK post := by
  unfold postOKb at h
  split at h
  · exact Or.inl rfl
  · rename_i c r
    simp only [Bool.and_eq_true, Bool.not_eq_true', List.all_eq_true] at h
    exact Or.inr ⟨c, r, rfl, h.1.1, h.1.2, h.2⟩
  · cases h

theorem qref_G {t : Text} (h : qrefOK t = true) : G true t := by
  unfold qrefOK at h
  simp only [Bool.and_eq_true, Bool.or_eq_true, List.all_eq_true, List.isEmpty_iff, beq_iff_eq] at h
  obtain ⟨⟨hp, hpre⟩, hch⟩ := h
  cases hs : skipChain (t.dropWhile (fun c => c != '\'')).length (t.dropWhile (fun c => c != '\'')) with
  | none => rw [hs] at hch; cases hch
  | some post =>
    rw [hs] at hch
    obtain ⟨q, hq, hrem⟩ := skipChain_spec _ _ _ hs
    have ht : t = t.takeWhile (fun c => c != '\'') ++ (q ++ post) := by
      rw [← hrem]; exact (List.takeWhile_append_dropWhile).symm
    rw [ht]
    exact G.qatom _ q post hp hpre hq (postOKb_spec hch)

theorem ref_G {t : Text} (h : refOK t = true) : G true t := by
  unfold refOK at h
  rcases Bool.or_eq_true_iff.1 h with h | h
  · exact atom_of_ok h
  · exact qref_G h

/-! ### argument lists and array rows -/

theorem args_append : ∀ {b : Bool} {a : List Char}, G b a → b = false → ∀ (sep : Char) (rest : List Char),
    (sep = ',' ∨ sep = ';') → G false rest → G false (a ++ sep :: rest) := by
  intro b a h
  induction h with
  | args_nil => intro _ sep rest hs hr; exact G.args_sep sep rest hs hr
  | args_one e he _ => intro _ sep rest hs hr; exact G.args_cons e sep rest he hs hr
  | args_sep s' rest' hs' _ ih =>
    intro _ sep rest hs hr
    exact G.args_sep s' _ hs' (ih rfl sep rest hs hr)
  | args_cons e s' rest' he hs' _ _ ih =>
    intro _ sep rest hs hr
    have := G.args_cons e s' _ he hs' (ih rfl sep rest hs hr)
    simpa [List.append_assoc] using this
  | atom _ _ _ _ => intro h; cases h
  | qatom _ _ _ _ _ _ _ => intro h; cases h
  | str _ _ => intro h; cases h
  | neg _ _ _ => intro h; cases h
  | pct _ _ _ => intro h; cases h
  | bin _ _ _ _ _ _ _ _ => intro h; cases h
  | group _ _ _ _ _ => intro h; cases h
  | arr _ _ _ => intro h; cases h

theorem join_G (sep : Char) (hs : sep = ',' ∨ sep = ';') : ∀ xs : List Text, (∀ x ∈ xs, G true x) → G false (join [sep] xs)
  | [], _ => G.args_nil
  | [x], h => by simp only [join]; exact G.args_one _ (h x (by simp))
  | x :: y :: r, h => by
    simp only [join]
    have := G.args_cons x sep _ (h x (by simp)) hs (join_G sep hs (y :: r) (fun z hz => h z (by simp [hz])))
    simpa [List.append_assoc] using this

theorem rows_G : ∀ rows : List (List Text), (∀ row ∈ rows, ∀ x ∈ row, G true x) →
    G false (join [';'] (rows.map (join [','])))
  | [], _ => G.args_nil
  | [row], h => by
    simp only [List.map, join]
    exact join_G ',' (Or.inl rfl) row (h row (by simp))
  | row :: r2 :: rs, h => by
    simp only [List.map, join]
    have h1 := join_G ',' (Or.inl rfl) row (h row (by simp))
    have h2 := rows_G (r2 :: rs) (fun r hr => h r (by simp [hr]))
    simp only [List.map] at h2
    have := args_append h1 rfl ';' _ (Or.inr rfl) h2
    simpa [List.append_assoc] using this

theorem chunks_mem : ∀ (r c : Nat) (xs : List Text), ∀ row ∈ chunks r c xs, ∀ x ∈ row, x ∈ xs
  | 0, _, _, row, h, _, _ => by simp [chunks] at h
  | r + 1, c, xs, row, h, x, hx => by
    simp only [chunks, List.mem_cons] at h
    rcases h with rfl | h
    · exact List.mem_of_mem_take hx
    · exact List.mem_of_mem_drop (chunks_mem r c _ row h x hx)

theorem argsSafe_cons (e : Expr) (es : List Expr) (h : ArgsSafe (e :: es) = true) :
    ((∃ _ : Unit, e = .empty) ∨ TokSafe e = true) ∧ ArgsSafe es = true := by
  cases e <;> simp_all [ArgsSafe]

mutual
theorem render_G : ∀ (e : Expr), TokSafe e = true → G true (render e)
  | .num n, h => by simp only [TokSafe] at h; simp only [render]; exact atom_of_ok h
  | .str s, _ => by simp only [render]; exact quoteLit_G s
  | .bool _ b, _ => by
    simp only [render]
    cases b
    · exact atom_of_ok (by decide)
    · exact atom_of_ok (by decide)
  | .date m, _ => by simp only [render]; exact date_G m
  | .ref t, h => by simp only [TokSafe] at h; simp only [render]; exact ref_G h
  | .empty, h => by simp [TokSafe] at h
  | .bin op l r, h => by
    simp only [TokSafe, Bool.and_eq_true] at h
    obtain ⟨c, hg, hb⟩ := glyph_bin op
    simp only [render, hg]
    have := G.bin _ c _ (render_G l h.1) hb (render_G r h.2)
    simpa [List.append_assoc] using this
  | .neg e, h => by
    simp only [TokSafe] at h
    simp only [render]
    exact G.neg _ (render_G e h)
  | .pct e, h => by
    simp only [TokSafe] at h
    simp only [render]
    exact G.pct _ (render_G e h)
  | .paren es, h => by
    simp only [TokSafe] at h
    simp only [render]
    have := G.group [] _ (by simp) (renderList_G es h)
    simpa [List.append_assoc] using this
  | .call f args, h => by
    simp only [TokSafe, Bool.and_eq_true] at h
    simp only [render]
    have hn : ∀ c ∈ funcName f, plain c = true := by
      have := h.1; unfold nameOK at this; simpa [List.all_eq_true] using this
    have := G.group (funcName f) _ hn (renderList_G args h.2)
    simpa [List.append_assoc] using this
  | .arr c r es, h => by
    simp only [TokSafe] at h
    simp only [render]
    have hcells := renderEach_G es h
    have := G.arr _ (rows_G (chunks r c (renderList es))
      (fun row hrow x hx => hcells x (chunks_mem r c _ row hrow x hx)))
    simpa [List.append_assoc] using this
theorem renderEach_G : ∀ (es : List Expr), CellsSafe es = true → ∀ x ∈ renderList es, G true x
  | [], _ => by simp [renderList]
  | e :: es, h => by
    simp only [CellsSafe, Bool.and_eq_true] at h
    intro x hx
    simp only [renderList, List.mem_cons] at hx
    rcases hx with rfl | hx
    · exact render_G e h.1
    · exact renderEach_G es h.2 x hx
theorem renderList_G : ∀ (es : List Expr), ArgsSafe es = true → G false (join [','] (renderList es))
  | [], _ => by simp only [renderList, join]; exact G.args_nil
  | [e], h => by
    simp only [renderList, join]
    rcases (argsSafe_cons e [] h).1 with ⟨_, he⟩ | he
    · subst he; simp only [render]; exact G.args_nil
    · exact G.args_one _ (render_G e he)
  | e :: y :: r, h => by
    simp only [renderList, join]
    have hrest : G false (join [','] (renderList (y :: r))) := renderList_G (y :: r) (argsSafe_cons e _ h).2
    simp only [renderList] at hrest
    rcases (argsSafe_cons e _ h).1 with ⟨_, he⟩ | he
    · subst he
      simp only [render, List.nil_append, List.singleton_append]
      exact G.args_sep ',' _ (Or.inl rfl) hrest
    · have := G.args_cons _ ',' _ (render_G e he) (Or.inl rfl) hrest
      simpa [List.append_assoc] using this
end

end NumbersModel.FormulaAccept
