/-
Bridge between C08's renderer (Model/Formula.lean: `render`) and the tokenizer acceptance
theorem (Lemmas/TokenizerAccept.lean: `tokenize_accepts` over the grammar `G`).
-/
import NumbersModel.Lemmas.TokenizerAccept
import NumbersModel.Lemmas.Formula
import NumbersModel.Lemmas.Cache
namespace NumbersModel.FormulaAccept
open NumbersModel NumbersModel.Tokenizer NumbersModel.Formula

/-- an operand text the tokenizer keeps as one plain token: non-empty, plain characters only
    (no quotes, brackets, separators, operator glyphs, `#`), and not of the `1E` shape. -/
def atomOK (t : Text) : Bool := !t.isEmpty && t.all plain && !snMatch t

def nameOK (t : Text) : Bool := t.all plain

mutual
/-- expressions whose rendering stays inside the grammar `G` (everything except array literals,
    and with operand / function-name texts that are plain: references that need quoting —
    names with operator characters or apostrophes — are outside). -/
def TokSafe : Expr → Bool
  | .num n => atomOK (numText n)
  | .str _ => true
  | .bool _ _ => true
  | .date _ => true
  | .ref t => atomOK t
  | .empty => false
  | .bin _ l r => TokSafe l && TokSafe r
  | .neg e => TokSafe e
  | .pct e => TokSafe e
  | .paren es => ArgsSafe es
  | .call f args => nameOK (funcName f) && ArgsSafe args
  | .arr _ _ _ => false
/-- arguments may also be empty (`F(,1)`). -/
def ArgsSafe : List Expr → Bool
  | [] => true
  | .empty :: es => ArgsSafe es
  | e :: es => TokSafe e && ArgsSafe es
end

theorem atom_of_ok {t : Text} (h : atomOK t = true) : G true t := by
  unfold atomOK at h
  simp only [Bool.and_eq_true, Bool.not_eq_true', List.all_eq_true] at h
  obtain ⟨⟨h1, h2⟩, h3⟩ := h
  exact G.atom t (by intro he; subst he; simp at h1) h2 h3

theorem snMatch_needs_E (t : Text) (h : 'E' ∉ t) : snMatch t = false := by
  cases ht : snMatch t with
  | false => rfl
  | true =>
    exfalso
    unfold snMatch at ht
    have tailE : ∀ x : List Char, snTail x = true → 'E' ∈ x := by
      intro x hx
      unfold snTail at hx
      split at hx <;> simp_all
    split at ht
    · rename_i d r
      split at ht
      · split at ht
        · rename_i r'
          simp only [Bool.and_eq_true, decide_eq_true_eq] at ht
          have := tailE _ ht.2
          have hsub : ∀ x ∈ r'.dropWhile isDigit09, x ∈ r' := fun x hx => (List.dropWhile_sublist _).subset hx
          exact h (by simp [hsub _ this])
        · have := tailE _ ht
          exact h (by simp [this])
      · cases ht
    · cases ht

theorem digits_plain (n : Nat) : atomOK (natStr n) = true := by
  have hchars := NumbersModel.Cache.natStr_chars n
  have hne := NumbersModel.Cache.natStr_ne_nil n
  unfold atomOK
  simp only [Bool.and_eq_true, Bool.not_eq_true', List.all_eq_true]
  refine ⟨⟨by simpa [List.isEmpty_iff] using hne, ?_⟩, ?_⟩
  · intro c hc
    have hb := hchars c hc
    have hall : ∀ k, 48 ≤ k → k ≤ 57 → plain (Char.ofNat k) = true := by decide
    have := hall c.toNat hb.1 hb.2
    rwa [Char.ofNat_toNat] at this
  · apply snMatch_needs_E
    intro hE
    have := hchars 'E' hE
    have h69 : ('E' : Char).toNat = 69 := by decide
    omega

end NumbersModel.FormulaAccept

namespace NumbersModel.FormulaAccept
open NumbersModel NumbersModel.Tokenizer NumbersModel.Formula

theorem doubleQuotes_escaped (s : Text) : escapedBody '"' (doubleQuotes s) = true := by
  induction s with
  | nil => rfl
  | cons c r ih =>
    unfold doubleQuotes
    by_cases hc : c = '"'
    · simp only [hc, if_true]; rw [escapedBody_pair]; exact ih
    · simp only [hc, if_false]; rw [escapedBody_ne _ _ _ hc]; exact ih

theorem quoteLit_G (s : Text) : G true (quoteLit s) :=
  G.str _ ⟨doubleQuotes s, rfl, doubleQuotes_escaped s⟩

theorem glyph_bin (op : BinOp) : ∃ c, glyph op = [c] ∧ BinGlyph c = true := by
  cases op <;> exact ⟨_, rfl, by decide⟩

theorem date_G (m : Int) : G true (dateSpec m) := by
  unfold dateSpec
  generalize civil (epochOrdinal + m / 86400000000).toNat = ymd
  obtain ⟨y, mo, d⟩ := ymd
  have hy := atom_of_ok (digits_plain y)
  have hm := atom_of_ok (digits_plain mo)
  have hd := atom_of_ok (digits_plain d)
  have hargs : G false (natStr y ++ ',' :: (natStr mo ++ ',' :: natStr d)) :=
    G.args_cons _ ',' _ hy (Or.inl rfl) (G.args_cons _ ',' _ hm (Or.inl rfl) (G.args_one _ hd))
  have hname : ∀ c ∈ "DATE".toList, plain c = true := by decide
  have := G.group "DATE".toList _ hname hargs
  have heq : "DATE(".toList ++ natStr y ++ [','] ++ natStr mo ++ [','] ++ natStr d ++ [')']
      = "DATE".toList ++ '(' :: ((natStr y ++ ',' :: (natStr mo ++ ',' :: natStr d)) ++ [')']) := by
    simp [List.append_assoc]
  show G true ("DATE(".toList ++ natStr y ++ [','] ++ natStr mo ++ [','] ++ natStr d ++ [')'])
  rw [heq]; exact this

theorem argsSafe_cons (e : Expr) (es : List Expr) (h : ArgsSafe (e :: es) = true) :
    ((∃ _ : Unit, e = .empty) ∨ TokSafe e = true) ∧ ArgsSafe es = true := by
  cases e <;> simp_all [ArgsSafe]

mutual
theorem render_G : ∀ (e : Expr), TokSafe e = true → G true (render e)
  | .num n, h => by simp only [TokSafe] at h; simp only [render]; exact atom_of_ok h
  | .str s, _ => by simp only [render]; exact quoteLit_G s
  | .bool _ b, _ => by
    simp only [render]
    cases b
    · exact atom_of_ok (by decide)
    · exact atom_of_ok (by decide)
  | .date m, _ => by simp only [render]; exact date_G m
  | .ref t, h => by simp only [TokSafe] at h; simp only [render]; exact atom_of_ok h
  | .empty, h => by simp [TokSafe] at h
  | .bin op l r, h => by
    simp only [TokSafe, Bool.and_eq_true] at h
    obtain ⟨c, hg, hb⟩ := glyph_bin op
    simp only [render, hg]
    have := G.bin _ c _ (render_G l h.1) hb (render_G r h.2)
    simpa [List.append_assoc] using this
  | .neg e, h => by
    simp only [TokSafe] at h
    simp only [render]
    exact G.neg _ (render_G e h)
  | .pct e, h => by
    simp only [TokSafe] at h
    simp only [render]
    exact G.pct _ (render_G e h)
  | .paren es, h => by
    simp only [TokSafe] at h
    simp only [render]
    have := G.group [] _ (by simp) (renderList_G es h)
    simpa [List.append_assoc] using this
  | .call f args, h => by
    simp only [TokSafe, Bool.and_eq_true] at h
    simp only [render]
    have hn : ∀ c ∈ funcName f, plain c = true := by
      have := h.1; unfold nameOK at this; simpa [List.all_eq_true] using this
    have := G.group (funcName f) _ hn (renderList_G args h.2)
    simpa [List.append_assoc] using this
  | .arr _ _ _, h => by simp [TokSafe] at h
theorem renderList_G : ∀ (es : List Expr), ArgsSafe es = true → G false (join [','] (renderList es))
  | [], _ => by simp only [renderList, join]; exact G.args_nil
  | [e], h => by
    simp only [renderList, join]
    rcases (argsSafe_cons e [] h).1 with ⟨_, he⟩ | he
    · subst he; simp only [render]; exact G.args_nil
    · exact G.args_one _ (render_G e he)
  | e :: y :: r, h => by
    simp only [renderList, join]
    have hrest : G false (join [','] (renderList (y :: r))) := renderList_G (y :: r) (argsSafe_cons e _ h).2
    simp only [renderList] at hrest
    rcases (argsSafe_cons e _ h).1 with ⟨_, he⟩ | he
    · subst he
      simp only [render, List.nil_append, List.singleton_append]
      exact G.args_sep ',' _ (Or.inl rfl) hrest
    · have := G.args_cons _ ',' _ (render_G e he) (Or.inl rfl) hrest
      simpa [List.append_assoc] using this
end

end NumbersModel.FormulaAccept
