/-
The exception flow of container loading as `harness/py2lean.py` regenerates it from `iwork.py` / `containers.py` on every
check run (`Gen/TrLoad.lean`) against the hand-written model (Model/Loader.lean, variant `fixed`), for EVERY behaviour of
the externals (`x : Loader.Ext`).  The translated methods return `((), state)` (what the method leaves in the handler), the
model returns the state; `ObjectStore.__init__` leaves `_max_id` and the handler state, the model's `load` reports
`(_max_id, number of distinct identifiers, number of distinct file names)`.
-/
import NumbersModel.Gen.TrLoad
import NumbersModel.Lemmas.Loader

set_option linter.unusedSimpArgs false
namespace NumbersModel.TrLoad
open NumbersModel NumbersModel.Loader

/-- what a translated method with the handler state returns, against the model's `PyM Store` -/
def withUnit (r : PyM Store) : PyM (Unit × Store) := r.map (fun st => ((), st))

@[simp] theorem withUnit_ok (st : Store) : withUnit (.ok st) = .ok ((), st) := rfl
@[simp] theorem withUnit_error (e : PyExc) : withUnit (.error e) = .error e := rfl

/-- `_open_zipfile`: the translated `try … except BadZipFile` is the model's `openZipfile`, whatever `ZipFile(…)` does. -/
theorem open_zipfile_eq_model (r : PyM Nat) : Gen.T.open_zipfile r = openZipfile r := by
  rw [openZipfile_spec]
  unfold Gen.T.open_zipfile
  cases r with
  | ok z => rfl
  | error e =>
    by_cases h : e = .BadZipFile
    · subst h; rfl
    · simp [h, bind, Except.bind, throw, throwThe, MonadExceptOf.throw]

theorem objectAt_zero (a : Nat × Nat) :
    objectAt a 0 = if a.2 = 0 then .error .IndexError else .ok () := by
  unfold objectAt pyIndex
  rcases a with ⟨i, n⟩
  cases n with
  | zero => simp
  | succ n =>
    simp only [List.length_replicate]
    have h1 : ¬ ((0 : Int) < 0) := by omega
    have h2 : ¬ ((0 : Int) < 0 ∨ (0 : Int) ≥ ((n + 1 : Nat) : Int)) := by omega
    simp [h1, h2, List.replicate_succ]

/-- the loop over `iwaf.chunks[0].archives` -/
theorem store_blob_for1_eq (x : Ext) (name : Text) (segs : List (Nat × Nat)) (st : Store) :
    Gen.T.store_blob.for1 x name segs st = storeSegs segs st := by
  induction segs generalizing st with
  | nil => rfl
  | cons a rest ih =>
    rcases a with ⟨i, n⟩
    unfold Gen.T.store_blob.for1 storeSegs
    rw [objectAt_zero]
    by_cases h : n = 0
    · simp [h, bind, Except.bind]
    · simp [h, bind, Except.bind, ih, storeObject]

/-- `_store_blob` -/
theorem store_blob_eq_model (x : Ext) (name : Text) (blob : Nat) (st : Store) :
    Gen.T.store_blob x name blob st = withUnit (storeBlob fixed x name blob st) := by
  unfold Gen.T.store_blob storeBlob
  simp only [PyT.endswith, endsWith, fixed]
  by_cases hn : (".iwa".toList).isSuffixOf name = true
  · have hn' : (['.', 'i', 'w', 'a'] : Text).isSuffixOf name = true := hn
    simp only [hn, hn', if_true]
    cases hs : x.sniff blob with
    | error e => simp [bind, Except.bind]
    | ok b =>
      cases b with
      | false => simp [bind, Except.bind, pure, Except.pure, storeFile]
      | true =>
        simp only [bind, Except.bind, pure, Except.pure, if_true]
        cases hd : x.decode blob name with
        | error e => simp [throw, throwThe, MonadExceptOf.throw]
        | ok chunks =>
          simp only []
          cases hi : pyIndex chunks 0 with
          | error e => simp [throw, throwThe, MonadExceptOf.throw]
          | ok c0 =>
            simp only [store_blob_for1_eq]
            cases hl : storeSegs c0 st with
            | error e => simp [throw, throwThe, MonadExceptOf.throw]
            | ok st' => simp [storeFile]
  · have hn' : (['.', 'i', 'w', 'a'] : Text).isSuffixOf name = false := (Bool.not_eq_true _).mp hn
    have hn2 : (".iwa".toList).isSuffixOf name = false := hn'
    simp [hn', hn2, bind, Except.bind, pure, Except.pure, storeFile]

/-- the loop over `zipf.namelist()`, given that the nested call agrees -/
theorem read_zip_for1_eq (x : Ext) (fuel : Nat) (zid : Nat)
    (recT : Nat → Store → PyM (Unit × Store)) (recM : Nat → Store → PyM Store)
    (hrec : ∀ z st, recT z st = withUnit (recM z st)) (names : List Text) (st : Store) :
    Gen.T.read_objects_from_zipfile.for1 x fuel zid recT names st = readMembers fixed x recM zid names st := by
  induction names generalizing st with
  | nil => rfl
  | cons n rest ih =>
    unfold Gen.T.read_objects_from_zipfile.for1 readMembers
    cases hr : x.zipRead zid n with
    | error e => simp [bind, Except.bind]
    | ok blob =>
      simp only [bind, Except.bind, PyT.endswith, endsWith]
      have hlit : (['i', 'n', 'd', 'e', 'x', '.', 'z', 'i', 'p'] : Text) = "index.zip".toList := rfl
      rw [hlit]
      by_cases hz : ("index.zip".toList).isSuffixOf (lower n) = true
      · simp only [hz, if_true, open_zipfile_eq_model]
        cases ho : openZipfile (x.openZipBytes blob) with
        | error e => simp
        | ok inner =>
          simp only [hrec]
          cases hn : recM inner st with
          | error e => simp
          | ok st' => simp [pure, Except.pure, ih]
      · have hz' : ("index.zip".toList).isSuffixOf (lower n) = false := (Bool.not_eq_true _).mp hz
        simp only [hz', Bool.false_eq_true, if_false, store_blob_eq_model]
        cases hb : storeBlob fixed x n blob st with
        | error e => simp
        | ok st' => simp [pure, Except.pure, ih]

theorem getinfo_eq (x : Ext) (z : Nat) (n : Text) :
    getinfo x z n = if (x.zipNames z).contains n then .ok () else .error .KeyError := rfl

/-- `_read_objects_from_zipfile`, every depth of the recursion into `Index.zip` -/
theorem read_objects_from_zipfile_eq_model (x : Ext) (fuel : Nat) (zid : Nat) (st : Store) :
    Gen.T.read_objects_from_zipfile x fuel zid st = withUnit (readZip fixed x fuel zid st) := by
  induction fuel generalizing zid st with
  | zero => rfl
  | succ fuel ih =>
    unfold Gen.T.read_objects_from_zipfile readZip getinfo
    have hlit : (".iwph".toList : Text) = ['.', 'i', 'w', 'p', 'h'] := rfl
    rw [hlit]
    cases hc : (x.zipNames zid).contains ['.', 'i', 'w', 'p', 'h'] with
    | true => rfl
    | false =>
      simp only [Bool.false_eq_true, if_false, bind, Except.bind, pure, Except.pure, decide_true, if_true]
      rw [read_zip_for1_eq x fuel zid _ (readZip fixed x fuel) (fun z st => ih z st)]
      cases readMembers fixed x (readZip fixed x fuel) zid (x.zipNames zid) st <;> rfl

/-- the loop over the (flattened) package walk; the recursive call is never reached, so any `recT` will do -/
theorem read_package_for1_eq (x : Ext) (fuel : Nat)
    (recT : List (PyM PkgEntry) → Store → PyM (Unit × Store)) (steps : List (PyM PkgEntry)) (st : Store) :
    Gen.T.read_objects_from_package.for1 x fuel recT steps st = readPackage fixed x steps st := by
  induction steps generalizing st with
  | nil => rfl
  | cons step rest ih =>
    unfold Gen.T.read_objects_from_package.for1 readPackage
    cases step with
    | error e => rfl
    | ok entry =>
      cases entry with
      | indexZip o =>
        simp only [stepIsDir, stepIsIndexZip, stepOpen, bind, Except.bind, Bool.false_eq_true, if_false, if_true,
          open_zipfile_eq_model]
        cases ho : openZipfile o with
        | error e => simp
        | ok z =>
          simp only [read_objects_from_zipfile_eq_model]
          cases hz : readZip fixed x x.depth z st with
          | error e => simp
          | ok st' => simp [pure, Except.pure, ih]
      | file name read =>
        simp only [stepIsDir, stepIsIndexZip, stepRead, stepName, bind, Except.bind, Bool.false_eq_true, if_false]
        cases hr : read with
        | error e => simp
        | ok blob =>
          simp only [store_blob_eq_model]
          cases hb : storeBlob fixed x name blob st with
          | error e => simp
          | ok st' => simp [pure, Except.pure, ih]

/-- `_read_objects_from_package` (any positive recursion budget: the flattened walk never recurses) -/
theorem read_objects_from_package_eq_model (x : Ext) (fuel : Nat) (steps : List (PyM PkgEntry)) (st : Store) :
    Gen.T.read_objects_from_package x (fuel + 1) steps st = withUnit (readPackage fixed x steps st) := by
  unfold Gen.T.read_objects_from_package
  simp only [bind, Except.bind, pure, Except.pure, read_package_for1_eq]
  cases readPackage fixed x steps st <;> rfl

/-- the `try … except plistlib.InvalidFileException` tail of `document_version`, as a function of what
    `plistlib.loads(…)["fileFormatVersion"]` does -/
def plistTail (x : Ext) (r : PyM (Option Text)) : PyM (Option Text) :=
  match r with
  | .ok v => .ok v
  | .error e => if e = invalidFile then do x.warn 0; .ok (some []) else .error e

/-- `document_version` of a package -/
theorem document_version_package_eq_model (x : Ext) (zipf : Option Nat) :
    Gen.T.document_version x (some true) zipf = documentVersion x none := by
  unfold Gen.T.document_version documentVersion
  simp only [PyT.attrGet, bind, Except.bind, if_true]
  cases x.propsExists with
  | error e => rfl
  | ok p =>
    cases p with
    | false => rfl
    | true =>
      simp only [Bool.not_true, Bool.false_eq_true, if_false, if_true]
      cases x.buildExists with
      | error e => rfl
      | ok b =>
        cases b with
        | false => rfl
        | true =>
          simp only [pure, Except.pure, Bool.not_true, Bool.false_eq_true, if_false]
          cases x.propsRead with
          | error e => rfl
          | ok blob =>
            simp only []
            cases x.plistVersion blob with
            | ok v => rfl
            | error e =>
              by_cases h : e = invalidFile
              · subst h
                simp only [invalidFile, decide_true, if_true] <;> (cases x.warn 0 <;> rfl)
              · have h' : ¬ e = PyExc.Other "InvalidFileException" := h
                simp [h, h', throw, throwThe, MonadExceptOf.throw]

theorem metadata_filter_eq (names : List Text) :
    ((names.filter (fun (n : Text) =>
        (PyT.endswith n (['M', 'e', 't', 'a', 'd', 'a', 't', 'a', '/', 'P', 'r', 'o', 'p', 'e', 'r', 't', 'i', 'e', 's', '.', 'p', 'l', 'i', 's', 't'] : Text)
          || PyT.endswith n (['M', 'e', 't', 'a', 'd', 'a', 't', 'a', '/', 'B', 'u', 'i', 'l', 'd', 'V', 'e', 'r', 's', 'i', 'o', 'n', 'H', 'i', 's', 't', 'o', 'r', 'y', '.', 'p', 'l', 'i', 's', 't'] : Text)))).map
      (fun (n : Text) => n)) = names.filter isMetadataName := by
  rw [List.map_id']
  rfl

/-- `document_version` of a single-file document whose zip is open -/
theorem document_version_zip_eq_model (x : Ext) (z : Nat) :
    Gen.T.document_version x (some false) (some z) = documentVersion x (some z) := by
  unfold Gen.T.document_version documentVersion
  simp only [PyT.attrGet, filelist, zipfRead, bind, Except.bind, pure, Except.pure, Bool.false_eq_true, if_false,
    metadata_filter_eq]
  by_cases hl : ((x.zipNames z).filter isMetadataName).length = 2
  · have hl' : ¬ ((((x.zipNames z).filter isMetadataName).length : Int) ≠ (2 : Int)) := by omega
    simp only [hl, hl', decide_false, ne_eq, not_true_eq_false, Bool.false_eq_true, if_false]
    cases lastSorted ((x.zipNames z).filter isMetadataName) with
    | error e => rfl
    | ok name =>
      simp only []
      cases x.zipRead z name with
      | error e => rfl
      | ok blob =>
        simp only []
        cases x.plistVersion blob with
        | ok v => rfl
        | error e =>
          by_cases h : e = invalidFile
          · subst h
            simp only [invalidFile, decide_true, if_true] <;> (cases x.warn 0 <;> rfl)
          · have h' : ¬ e = PyExc.Other "InvalidFileException" := h
            simp [h, h', throw, throwThe, MonadExceptOf.throw]
  · have hl' : ((((x.zipNames z).filter isMetadataName).length : Int) ≠ (2 : Int)) := by omega
    simp [hl, hl', throw, throwThe, MonadExceptOf.throw]

/-- the second `filepath.is_dir()` and the two readers (used at every leaf of `open_tail_eq`) -/
local macro "open_tail_leaf" x:ident zipf:ident : tactic => `(tactic| (
  cases ($x).isDir 1 with
  | error e => rfl
  | ok d2 =>
    cases d2 with
    | true =>
      simp only [if_true, read_objects_from_package_eq_model $x 0]
      cases readPackage fixed $x ($x).pkgSteps {} <;> rfl
    | false =>
      simp only [Bool.false_eq_true, if_false]
      cases $zipf:ident with
      | none => rfl
      | some z =>
        simp only [PyT.attrGet, read_objects_from_zipfile_eq_model]
        cases readZip fixed $x ($x).depth z {} <;> rfl))

/-- what `_open` does after `document_version` has answered (both forms) -/
theorem open_tail_eq (x : Ext) (zipf : Option Nat) (ver : Option Text) :
    ((do
      let t5 ← (allowedVersion x ver)
      let () : Unit ← (if (!t5) then (do
          let _ ← x.warn 1
          pure ()
        ) else (do
          pure ()
        ))
      let t7 ← x.isDir 1
      let st : Store ← (if t7 then (do
          let (_, st) ← Gen.T.read_objects_from_package x (1) x.pkgSteps {}
          pure st
        ) else (do
          let t9 ← PyT.attrGet zipf
          let (_, st) ← Gen.T.read_objects_from_zipfile x (x.depth) t9 {}
          pure st
        ))
      pure ((), st)) : PyM (Unit × Store))
    = withUnit (match ver with
      | none => .error .TypeError
      | some version => do
        if !x.versionOk version then x.warn 1
        let d2 ← x.isDir 1
        if d2 then readPackage fixed x x.pkgSteps {}
        else match zipf with
          | none => .error .AttributeError
          | some z => readZip fixed x x.depth z {}) := by
  cases ver with
  | none => rfl
  | some version =>
    simp only [allowedVersion, bind, Except.bind]
    cases x.versionOk version with
    | true =>
      simp only [Bool.not_true, Bool.false_eq_true, if_false, pure, Except.pure]
      open_tail_leaf x zipf
    | false =>
      simp only [Bool.not_false, if_true]
      cases x.warn 1 with
      | error e => rfl
      | ok u =>
        simp only [pure, Except.pure]
        open_tail_leaf x zipf

/-- `IWork._open` on a fresh object with an empty handler -/
theorem open_body_eq_model (x : Ext) :
    Gen.T.open_body x () {} = withUnit (openBody fixed x) := by
  unfold Gen.T.open_body openBody
  simp only [bind, Except.bind]
  cases x.pathExists with
  | error e => rfl
  | ok ex =>
    cases ex with
    | false => rfl
    | true =>
      simp only [Bool.not_true, Bool.false_eq_true, if_false]
      cases hs : x.suffixOk with
      | false => rfl
      | true =>
        simp only [Bool.not_true, Bool.false_eq_true, if_false]
        cases x.isDir 0 with
        | error e => rfl
        | ok d1 =>
          cases d1 with
          | true =>
            simp only [if_true, pure, Except.pure, document_version_package_eq_model]
            cases documentVersion x none with
            | error e => rfl
            | ok ver => exact open_tail_eq x none ver
          | false =>
            simp only [Bool.false_eq_true, if_false, pure, Except.pure, open_zipfile_eq_model]
            cases openZipfile x.openZipPath with
            | error e => rfl
            | ok z =>
              simp only [document_version_zip_eq_model]
              cases documentVersion x (some z) with
              | error e => rfl
              | ok ver => exact open_tail_eq x (some z) ver

/-- `IWork.open`: the translated handler chain (`except (FileError, FileFormatError, UnsupportedError, Warning): raise`,
    `except OSError`, `except Exception`) is the model's translation boundary. -/
theorem iwork_open_eq_model (x : Ext) :
    Gen.T.iwork_open x () {} = withUnit (open_ fixed x) := by
  unfold Gen.T.iwork_open open_
  simp only [bind, Except.bind, open_body_eq_model, fixed]
  cases openBody ⟨true, true, true⟩ x with
  | ok st => rfl
  | error e =>
    simp only [withUnit_error, Bool.not_true, Bool.false_eq_true, if_false]
    have hl : ((decide (e = .FileError)) || (decide (e = .FileFormatError)) || (decide (e = .UnsupportedError))) = isLibraryError e := by
      cases e <;> simp [isLibraryError]
    rw [hl]
    cases h1 : (isLibraryError e || x.isWarning e) with
    | true => simp [throw, throwThe, MonadExceptOf.throw]
    | false =>
      cases h2 : x.isOSError e <;> simp [throw, throwThe, MonadExceptOf.throw]

/-- what `ObjectStore.__init__` reports in the model's terms: (`_max_id`, distinct identifiers, distinct file names) -/
def report (r : Unit × Int × Store) : Nat × Nat × Nat :=
  (r.2.1.toNat, r.2.2.objs.eraseDups.length, r.2.2.files.eraseDups.length)

theorem ceil_million (m : Nat) :
    PyT.ceilDivFloat (m : Int) 1000000 = .ok (((m + 999999) / 1000000 : Nat) : Int) := by
  unfold PyT.ceilDivFloat
  simp only [show ¬ ((1000000 : Int) = 0) by omega, if_false]
  congr 1
  rw [Int.fdiv_eq_ediv_of_nonneg _ (by omega)]
  omega

/-- `ObjectStore.__init__`: MAIN EQUIVALENCE, for every behaviour of the externals. -/
theorem load_eq_model (x : Ext) :
    (Gen.T.load x ()).map report = load fixed x := by
  unfold Gen.T.load load
  simp only [bind, Except.bind, iwork_open_eq_model]
  cases open_ fixed x with
  | error e => rfl
  | ok st =>
    simp only [withUnit_ok, fixed, if_true]
    by_cases he : st.objs.isEmpty = true
    · have h0 : ((st.objs.length : Int) = 0) := by
        have := List.isEmpty_iff.mp he
        simp [this]
      simp [he, h0, throw, throwThe, MonadExceptOf.throw, Except.map]
    · have h0 : ¬ ((st.objs.length : Int) = 0) := by
        intro h
        apply he
        have : st.objs.length = 0 := by omega
        simp [List.length_eq_zero_iff.mp this]
      simp only [he, h0, decide_false, Bool.false_eq_true, if_false, maxKey, ceil_million, pure, Except.pure, Except.map,
        report, roundUpMillion]
      congr 2

end NumbersModel.TrLoad
