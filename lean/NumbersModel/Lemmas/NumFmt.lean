/-
Helper lemmas for C13 (number display): rounding, digit strings, grouping, decoration, number bases,
two's complement, fractions, the denominator bound of limit_denominator.
-/
import NumbersModel.Model.NumFmt
import NumbersModel.Lemmas.Digits
namespace NumbersModel.NumFmt
open NumbersModel NumbersModel.Digits NumbersModel.A1

/-- `q` is a nearest integer to `m / 10^k`: `|m − q·10^k| ≤ 10^k / 2`. -/
def Nearest (m k q : Nat) : Prop := 2 * (q * 10 ^ k) ≤ 2 * m + 10 ^ k ∧ 2 * m ≤ 2 * (q * 10 ^ k) + 10 ^ k

theorem pow10_succ_even (k : Nat) : 10 ^ (k + 1) = 2 * (5 * 10 ^ k) := by rw [Nat.pow_succ]; omega

theorem dropHalfUp_nearest (m k : Nat) : Nearest m k (dropHalfUp m k) ∧
    (k ≠ 0 → 2 * m < 2 * (dropHalfUp m k * 10 ^ k) + 10 ^ k) := by
  unfold Nearest dropHalfUp
  by_cases hk : k = 0
  · subst hk; simp
  · obtain ⟨j, rfl⟩ : ∃ j, k = j + 1 := ⟨k - 1, by omega⟩
    simp only [hk, if_false, Nat.add_sub_cancel]
    rw [pow10_succ_even j]
    have hHpos : 0 < 5 * 10 ^ j := by
      have : 0 < 10 ^ j := Nat.pow_pos (by omega)
      omega
    generalize 5 * 10 ^ j = H at *
    have h1 := Nat.div_add_mod (m + H) (2 * H)
    have h2 : (m + H) % (2 * H) < 2 * H := Nat.mod_lt _ (by omega)
    generalize (m + H) / (2 * H) = q at *
    generalize (m + H) % (2 * H) = r at *
    rw [Nat.mul_comm q (2 * H)]
    generalize 2 * H * q = X at *
    refine ⟨⟨by omega, by omega⟩, fun _ => by omega⟩

theorem splitFixed_spec (m p : Nat) :
    (splitFixed m p).1 ++ (splitFixed m p).2 = zfill (p + 1) (natStr m) ∧
    (splitFixed m p).2.length = p ∧ 1 ≤ (splitFixed m p).1.length := by
  unfold splitFixed
  simp only
  have hl : p + 1 ≤ (zfill (p + 1) (natStr m)).length := by rw [zfill_length]; omega
  refine ⟨List.take_append_drop _ _, ?_, ?_⟩
  · rw [List.length_drop]; omega
  · rw [List.length_take]; omega

theorem splitFixed_reads_back (m p : Nat) :
    readNat ((splitFixed m p).1 ++ (splitFixed m p).2) = some m := by
  rw [(splitFixed_spec m p).1]; exact readNat_zfill_natStr _ _

/-! ### rounding half to even -/

theorem dropHalfEven_nearest (m k : Nat) : Nearest m k (dropHalfEven m k) := by
  unfold Nearest dropHalfEven
  by_cases hk : k = 0
  · subst hk; simp
  · obtain ⟨j, rfl⟩ : ∃ j, k = j + 1 := ⟨k - 1, by omega⟩
    simp only [hk, if_false, Nat.add_sub_cancel]
    rw [pow10_succ_even j]
    have hHpos : 0 < 5 * 10 ^ j := by
      have : 0 < 10 ^ j := Nat.pow_pos (by omega)
      omega
    generalize 5 * 10 ^ j = H at *
    have h1 := Nat.div_add_mod m (2 * H)
    have h2 : m % (2 * H) < 2 * H := Nat.mod_lt _ (by omega)
    generalize m / (2 * H) = q at *
    generalize m % (2 * H) = r at *
    split
    · rw [Nat.add_mul, Nat.mul_comm q (2 * H)]
      generalize 2 * H * q = X at *
      rename_i hc
      rcases hc with hc | ⟨hc, _⟩ <;> constructor <;> omega
    · rename_i hc
      rw [Nat.mul_comm q (2 * H)]
      generalize 2 * H * q = X at *
      have : r ≤ H := by
        by_contra hgt
        exact hc (Or.inl (by omega))
      constructor <;> omega

/-- ties go to the even neighbour. -/
theorem dropHalfEven_tie (m k : Nat) (hk : k ≠ 0) (htie : 2 * (m % 10 ^ k) = 10 ^ k) :
    dropHalfEven m k % 2 = 0 := by
  unfold dropHalfEven
  obtain ⟨j, rfl⟩ : ∃ j, k = j + 1 := ⟨k - 1, by omega⟩
  simp only [hk, if_false, Nat.add_sub_cancel]
  rw [pow10_succ_even j] at htie ⊢
  generalize 5 * 10 ^ j = H at *
  generalize m / (2 * H) = q at *
  generalize m % (2 * H) = r at *
  have hr : r = H := by omega
  subst hr
  by_cases hq : q % 2 = 1
  · simp [hq]; omega
  · simp [hq]; omega

/-! ### grouping -/

theorem group3_go_filter (s : List Char) (n : Nat) (h : ∀ c ∈ s, c ≠ ',') :
    (group3.go s n).filter (· ≠ ',') = s := by
  induction s generalizing n with
  | nil => simp [group3.go]
  | cons c r ih =>
    have hc : c ≠ ',' := h c (by simp)
    have hr := ih (n - 1) (fun x hx => h x (by simp [hx]))
    have hr' : List.filter (fun x => !decide (x = ',')) (group3.go r (n - 1)) = r := by simpa using hr
    unfold group3.go
    split <;> simp [hc, hr']

/-- grouping only inserts separators. -/
theorem group3_filter (s : Text) (h : ∀ c ∈ s, c ≠ ',') : (group3 s).filter (· ≠ ',') = s :=
  group3_go_filter s _ h

/-- every separator inserted by `group3` is followed by a number of digits that is a multiple of 3:
    the `i`-th character from the right (0-based, counting digits only) is preceded by a comma iff `i % 3 = 2`…
    stated on the recursion: after position `n` (digits remaining) a comma appears iff `n % 3 = 0 ∧ n ≠ 0`. -/
theorem group3_go_cons (c : Char) (r : List Char) (n : Nat) :
    group3.go (c :: r) n =
      if n % 3 = 0 ∧ n ≠ 0 ∧ r ≠ [] then c :: ',' :: group3.go r (n - 1) else c :: group3.go r (n - 1) := by
  rw [group3.go]

/-! ### decoration -/

/-- keep digits and the decimal point. -/
def undecorate (t : Text) : Text := t.filter (fun c => isDigit c || c == '.')

theorem undecorate_append (a b : Text) : undecorate (a ++ b) = undecorate a ++ undecorate b := by
  simp [undecorate]

theorem undecorate_digits (s : Text) (h : ∀ c ∈ s, isDigit c = true) : undecorate s = s := by
  unfold undecorate
  rw [List.filter_eq_self]
  intro c hc; simp [h c hc]

theorem undecorate_none (s : Text) (h : ∀ c ∈ s, isDigit c = false ∧ c ≠ '.') : undecorate s = [] := by
  unfold undecorate
  rw [List.filter_eq_nil_iff]
  intro c hc
  have := h c hc
  simp [this.1, this.2]

theorem undecorate_group3 (s : Text) (h : ∀ c ∈ s, isDigit c = true) : undecorate (group3 s) = s := by
  have hne : ∀ c ∈ s, c ≠ ',' := by
    intro c hc e; subst e
    have := h _ hc
    revert this; decide
  have h1 : undecorate (group3 s) = undecorate ((group3 s).filter (· ≠ ',')) := by
    unfold undecorate
    rw [List.filter_filter]
    congr 1
    funext c
    by_cases hc : c = ','
    · subst hc; decide
    · simp [hc]
  rw [h1, group3_filter s hne, undecorate_digits s h]

theorem zfill_all_digits (w : Nat) (s : Text) (h : ∀ c ∈ s, isDigit c = true) :
    ∀ c ∈ zfill w s, isDigit c = true := by
  intro c hc
  unfold zfill at hc
  rcases List.mem_append.mp hc with h1 | h1
  · rw [(List.mem_replicate.mp h1).2]; decide
  · exact h c h1

theorem splitFixed_digits (m p : Nat) :
    (∀ c ∈ (splitFixed m p).1, isDigit c = true) ∧ (∀ c ∈ (splitFixed m p).2, isDigit c = true) := by
  have hall := zfill_all_digits (p + 1) (natStr m) (natStr_all_digits m)
  unfold splitFixed
  exact ⟨fun c hc => hall c (List.mem_of_mem_take hc), fun c hc => hall c (List.mem_of_mem_drop hc)⟩

theorem autoDigits_digits (d : Dec) :
    (∀ c ∈ (autoDigits d).1, isDigit c = true) ∧ (∀ c ∈ (autoDigits d).2, isDigit c = true) := by
  unfold autoDigits
  simp only
  split
  · exact ⟨natStr_all_digits _, by simp⟩
  · exact splitFixed_digits _ _

theorem decimalDigits_digits (d : Dec) (f : DecFmt) :
    (∀ c ∈ (decimalDigits d f).1, isDigit c = true) ∧ (∀ c ∈ (decimalDigits d f).2.1, isDigit c = true) := by
  unfold decimalDigits
  split
  · exact ⟨natStr_all_digits _, by simp⟩
  · split
    · exact autoDigits_digits d
    · exact splitFixed_digits _ _

/-- the undecorated rendering: integer digits, and `.` + fraction digits if there are any. -/
def plainDigits (ip fp : Text) : Text := ip ++ (if fp.isEmpty then [] else '.' :: fp)

theorem undecorate_joinDigits (ip fp : Text) (th : Bool) (hi : ∀ c ∈ ip, isDigit c = true)
    (hf : ∀ c ∈ fp, isDigit c = true) : undecorate (joinDigits ip fp th) = plainDigits ip fp := by
  unfold joinDigits plainDigits
  rw [undecorate_append]
  congr 1
  · cases th
    · simpa using undecorate_digits ip hi
    · simpa using undecorate_group3 ip hi
  · split
    · rfl
    · show undecorate (['.'] ++ fp) = _
      rw [undecorate_append, undecorate_digits fp hf]; rfl

theorem undecorate_formatDecimal (d : Dec) (f : DecFmt) (pct : Bool) :
    undecorate (formatDecimal d f pct) = plainDigits (decimalDigits d f).1 (decimalDigits d f).2.1 := by
  obtain ⟨hi, hf⟩ := decimalDigits_digits d f
  have hj := undecorate_joinDigits _ _ f.thousands hi hf
  unfold formatDecimal
  simp only
  generalize decimalDigits d f = dd at *
  obtain ⟨ip, fp, z⟩ := dd
  simp only at hj ⊢
  have em : undecorate ['-'] = [] := by decide
  have ep : undecorate ['%'] = [] := by decide
  have eo : undecorate ['('] = [] := by decide
  have ec : undecorate [')'] = [] := by decide
  have enil : undecorate [] = [] := rfl
  split <;> split <;> split <;>
    simp only [undecorate_append, hj, em, ep, eo, ec, enil, List.nil_append, List.append_nil,
      show ∀ t : Text, undecorate ('(' :: t) = undecorate t from fun t => by
        show undecorate (['('] ++ t) = _; rw [undecorate_append, eo]; rfl]

/-! ### number bases -/

/-- value of a digit character `0-9A-Z`. -/
def charVal (c : Char) : Nat := if isDigit c then c.toNat - 48 else c.toNat - 55

/-- read a numeral in base `b`. -/
def parseBase (b : Nat) (s : Text) : Nat := s.foldl (fun a c => a * b + charVal c) 0

def toBaseSpec (b : Nat) (n : Nat) : List Char :=
  if h : n = 0 ∨ b < 2 then [] else toBaseSpec b (n / b) ++ [baseChar (n % b)]
termination_by n
decreasing_by
  have : 2 ≤ b := by omega
  have : 0 < n := by omega
  exact Nat.div_lt_self this (by omega)

theorem charVal_baseChar (x : Nat) (h : x < 36) : charVal (baseChar x) = x := by
  unfold charVal baseChar
  by_cases h10 : x < 10
  · simp only [h10, if_true]
    have e := toNat_ofNat_small (48 + x) (by omega)
    have hd : isDigit (Char.ofNat (48 + x)) = true := by rw [isDigit_iff, e]; omega
    rw [hd, if_pos rfl, e]; omega
  · simp only [h10, if_false]
    have e := toNat_ofNat_small (55 + x) (by omega)
    have hd : isDigit (Char.ofNat (55 + x)) = false := by
      cases hh : isDigit (Char.ofNat (55 + x)) with
      | false => rfl
      | true => rw [isDigit_iff, e] at hh; omega
    rw [hd]; simp [e]

theorem toBaseAux_eq (b : Nat) (hb : 2 ≤ b) (fuel n : Nat) (acc : List Char) (h : n < fuel) :
    toBaseAux b fuel n acc = toBaseSpec b n ++ acc := by
  induction fuel generalizing n acc with
  | zero => omega
  | succ f ih =>
    unfold toBaseAux
    by_cases hn : n = 0
    · subst hn; unfold toBaseSpec; simp
    · simp only [hn, if_false]
      have hlt : n / b < n := Nat.div_lt_self (by omega) (by omega)
      rw [ih _ _ (by omega)]
      conv => rhs; unfold toBaseSpec
      have : ¬ (n = 0 ∨ b < 2) := by omega
      simp [this]

theorem toBase_eq (b : Nat) (hb : 2 ≤ b) (n : Nat) : toBase b n = toBaseSpec b n := by
  simp [toBase, toBaseAux_eq b hb]

theorem parseBase_append (b : Nat) (s : Text) (c : Char) :
    parseBase b (s ++ [c]) = parseBase b s * b + charVal c := by
  simp [parseBase, List.foldl_append]

theorem parseBase_toBaseSpec (b : Nat) (hb : 2 ≤ b) (hb' : b ≤ 36) (n : Nat) : parseBase b (toBaseSpec b n) = n := by
  induction n using Nat.strongRecOn with
  | _ n ih =>
    unfold toBaseSpec
    by_cases h : n = 0 ∨ b < 2
    · have : n = 0 := by omega
      subst this; simp [parseBase]
    · simp only [h, dite_false]
      have hlt : n / b < n := Nat.div_lt_self (by omega) (by omega)
      rw [parseBase_append, ih _ hlt, charVal_baseChar _ (by have := Nat.mod_lt n (show 0 < b by omega); omega)]
      exact Nat.div_add_mod' n b

/-- **read-back**: a numeral produced by the digit loop denotes the number it was produced from. -/
theorem parseBase_toBase (b : Nat) (hb : 2 ≤ b) (hb' : b ≤ 36) (n : Nat) : parseBase b (toBase b n) = n := by
  rw [toBase_eq b hb, parseBase_toBaseSpec b hb hb']

theorem parseBase_zeros (b k : Nat) (s : Text) : parseBase b (List.replicate k '0' ++ s) = parseBase b s := by
  unfold parseBase
  rw [List.foldl_append]
  congr 1
  induction k with
  | zero => rfl
  | succ k ih =>
    rw [List.replicate_succ, List.foldl_cons]
    have : charVal '0' = 0 := by decide
    simpa [this] using ih

theorem parseBase_zfill (b w : Nat) (s : Text) : parseBase b (zfill w s) = parseBase b s := parseBase_zeros b _ s

/-- the leading digit is not zero (no padding comes from the digit loop). -/
theorem toBaseSpec_head (b : Nat) (hb : 2 ≤ b) (hb' : b ≤ 36) (n : Nat) (hn : n ≠ 0) :
    ∃ c tl, toBaseSpec b n = c :: tl ∧ charVal c ≠ 0 := by
  induction n using Nat.strongRecOn with
  | _ n ih =>
    unfold toBaseSpec
    have h : ¬ (n = 0 ∨ b < 2) := by omega
    simp only [h, dite_false]
    by_cases hq : n / b = 0
    · have hlt : n < b := by
        by_contra hge
        have : 0 < n / b := Nat.div_pos (by omega) (by omega)
        omega
      rw [hq]
      have : toBaseSpec b 0 = [] := by unfold toBaseSpec; simp
      rw [this]
      refine ⟨baseChar (n % b), [], rfl, ?_⟩
      rw [charVal_baseChar _ (by have := Nat.mod_lt n (show 0 < b by omega); omega), Nat.mod_eq_of_lt hlt]
      exact hn
    · have hlt : n / b < n := Nat.div_lt_self (by omega) (by omega)
      obtain ⟨c, tl, e, hc⟩ := ih _ hlt hq
      exact ⟨c, tl ++ [baseChar (n % b)], by rw [e]; rfl, hc⟩

/-! two's complement -/

theorem clog2Aux_spec (n : Nat) : ∀ fuel k, n < k + fuel → n ≤ 2 ^ (clog2Aux fuel n k) := by
  intro fuel
  induction fuel with
  | zero =>
    intro k h
    unfold clog2Aux
    have : k < 2 ^ k := Nat.lt_two_pow_self
    omega
  | succ f ih =>
    intro k h
    unfold clog2Aux
    split
    · assumption
    · exact ih (k + 1) (by omega)

theorem clog2_spec (n : Nat) : n ≤ 2 ^ clog2 n := clog2Aux_spec n (n + 1) 0 (by omega)

/-- the bit width used: at least 32, and wide enough that `-a` fits (`a ≤ 2^(bits-1)`). -/
theorem twos_bits (a : Nat) : 32 ≤ max 32 (clog2 a + 1) ∧ a ≤ 2 ^ (max 32 (clog2 a + 1) - 1) := by
  refine ⟨by omega, ?_⟩
  have h := clog2_spec a
  have : clog2 a ≤ max 32 (clog2 a + 1) - 1 := by omega
  exact Nat.le_trans h (Nat.pow_le_pow_right (by omega) this)

theorem toBaseSpec2_length (L : Nat) : ∀ t, 2 ^ L ≤ t → t < 2 ^ (L + 1) → (toBaseSpec 2 t).length = L + 1 := by
  induction L with
  | zero =>
    intro t h1 h2
    have : t = 1 := by simp at h1 h2; omega
    subst this
    unfold toBaseSpec; simp
    unfold toBaseSpec; simp
  | succ L ih =>
    intro t h1 h2
    unfold toBaseSpec
    have hpos : 0 < 2 ^ (L + 1) := Nat.pow_pos (by omega)
    have h : ¬ (t = 0 ∨ 2 < 2) := by omega
    simp only [h, dite_false, List.length_append, List.length_singleton]
    rw [ih (t / 2) (by rw [Nat.pow_succ] at h1; omega) (by rw [Nat.pow_succ] at h2; omega)]

theorem twosComplement_value (a base : Nat) (ha : 1 ≤ a) (hb : base = 2 ∨ base = 8 ∨ base = 16) :
    parseBase base (twosComplement a base) = 2 ^ (max 32 (clog2 a + 1)) - a ∧
    2 ^ (max 32 (clog2 a + 1) - 1) ≤ 2 ^ (max 32 (clog2 a + 1)) - a ∧
    (base = 2 → (twosComplement a base).length = max 32 (clog2 a + 1)) := by
  obtain ⟨h32, hfit⟩ := twos_bits a
  generalize hB : max 32 (clog2 a + 1) = B at *
  obtain ⟨L, rfl⟩ : ∃ L, B = L + 1 := ⟨B - 1, by omega⟩
  simp only [Nat.add_sub_cancel] at hfit
  have hp : 2 ^ (L + 1) = 2 * 2 ^ L := by rw [Nat.pow_succ]; omega
  have hge : 2 ^ L ≤ 2 ^ (L + 1) - a := by omega
  have hlt : 2 ^ (L + 1) - a < 2 ^ (L + 1) := by
    have : 0 < 2 ^ L := Nat.pow_pos (by omega)
    omega
  have hlen := toBaseSpec2_length L _ hge hlt
  unfold twosComplement
  simp only [hB]
  refine ⟨?_, by simpa using hge, ?_⟩
  · by_cases h2 : base = 2
    · subst h2
      simp only [if_true]
      rw [toBase_eq 2 (by omega), hlen]
      simp [parseBase_toBaseSpec 2 (by omega) (by omega)]
    · simp only [h2, if_false]
      exact parseBase_toBase base (by omega) (by omega) _
  · intro h2
    subst h2
    simp only [if_true]
    rw [toBase_eq 2 (by omega), hlen]; simp [hlen]

/-! ### fractions -/

theorem roundRatEven_nearest (neg : Bool) (p q : Nat) (hq : 0 < q) :
    let a := (roundRatEven neg p q).natAbs
    2 * (a * q) ≤ 2 * p + q ∧ 2 * p ≤ 2 * (a * q) + q := by
  unfold roundRatEven
  simp only
  have h1 := Nat.div_add_mod p q
  have h2 := Nat.mod_lt p hq
  generalize p / q = k at *
  generalize p % q = r at *
  have key : ∀ a : Nat, (if neg = true then -(a : Int) else (a : Int)).natAbs = a := by
    intro a; cases neg <;> simp
  rw [key]
  split
  · rw [Nat.add_mul, Nat.mul_comm k q]
    generalize q * k = X at *
    rename_i hc
    rcases hc with hc | ⟨hc, _⟩ <;> constructor <;> omega
  · rename_i hc
    rw [Nat.mul_comm k q]
    generalize q * k = X at *
    have : 2 * r ≤ q := by
      by_contra hgt
      exact hc (Or.inl (by omega))
    constructor <;> omega

/-! ### the digits of `_format_decimal` -/

/-- `m1·10^e1 = m2·10^e2` (both brought to a common exponent). -/
def SameValue (m1 : Nat) (e1 : Int) (m2 : Nat) (e2 : Int) : Prop :=
  ∃ j1 j2 : Nat, m1 * 10 ^ j1 = m2 * 10 ^ j2 ∧ e1 - (j1 : Int) = e2 - (j2 : Int)

theorem roundSig_spec (d : Dec) (n : Nat) :
    roundSig d n = d ∨
    ∃ k, k ≠ 0 ∧ numDigits d.mant = n + k ∧ roundSig d n = ⟨d.neg, dropHalfUp d.mant k, d.exp + (k : Int)⟩ := by
  unfold roundSig
  simp only
  split
  · exact Or.inl rfl
  · rename_i h
    exact Or.inr ⟨numDigits d.mant - n, by omega, by omega, rfl⟩

theorem scaleTo_spec (d : Dec) (p : Nat) :
    (0 ≤ d.exp + (p : Int) ∧ scaleTo d p = d.mant * 10 ^ (d.exp + (p : Int)).toNat) ∨
    (d.exp + (p : Int) < 0 ∧ scaleTo d p = dropHalfUp d.mant (-(d.exp + (p : Int))).toNat ∧
      (-(d.exp + (p : Int))).toNat ≠ 0) := by
  unfold scaleTo
  simp only
  split
  · exact Or.inl ⟨by omega, rfl⟩
  · exact Or.inr ⟨by omega, rfl, by omega⟩

theorem stripZeros_spec (fuel m : Nat) (e : Int) :
    ∃ j : Nat, m = (stripZeros fuel m e).1 * 10 ^ j ∧ (stripZeros fuel m e).2 = e + (j : Int) := by
  induction fuel generalizing m e with
  | zero => exact ⟨0, by simp [stripZeros], by simp [stripZeros]⟩
  | succ f ih =>
    unfold stripZeros
    split
    · rename_i h
      obtain ⟨j, h1, h2⟩ := ih (m / 10) (e + 1)
      refine ⟨j + 1, ?_, by rw [h2]; push_cast; omega⟩
      rw [Nat.pow_succ, ← Nat.mul_assoc, ← h1]; omega
    · exact ⟨0, by simp, by simp⟩

/-- fixed places: the digits shown, read back, are `|value|` (15 significant digits) scaled by `10^places` and
    rounded half up; exactly `places` fraction digits; at least one integer digit. -/
theorem decimalDigits_fixed (d : Dec) (f : DecFmt) (hp : f.places < AUTO) :
    let dd := decimalDigits d f
    dd.2.1.length = f.places ∧ 1 ≤ dd.1.length ∧
    readNat (dd.1 ++ dd.2.1) = some (scaleTo (roundSig d 15) f.places) ∧
    (dd.2.2 = true ↔ scaleTo (roundSig d 15) f.places = 0) := by
  unfold decimalDigits
  have h1 : ¬ (f.places ≥ AUTO) := by omega
  simp only [h1, and_false, if_false]
  obtain ⟨_, hl, hi⟩ := splitFixed_spec (scaleTo (roundSig d 15) f.places) f.places
  exact ⟨hl, hi, splitFixed_reads_back _ _, by simp⟩

theorem truncNat_exact (d : Dec) (h : d.isInteger = true) : SameValue d.truncNat 0 d.mant d.exp := by
  unfold Dec.isInteger at h
  unfold Dec.truncNat
  by_cases he : d.exp ≥ 0
  · simp only [he, if_true]
    exact ⟨0, d.exp.toNat, by simp, by omega⟩
  · simp only [he, if_false] at h ⊢
    refine ⟨(-d.exp).toNat, 0, ?_, by omega⟩
    have : d.mant % 10 ^ (-d.exp).toNat = 0 := by simpa using h
    simp only [Nat.pow_zero, Nat.mul_one]
    exact Nat.div_mul_cancel (Nat.dvd_of_mod_eq_zero this)

/-- automatic places: the digits shown, read back with as many decimals as are shown, are exactly the
    value (rounded to 15 significant digits) — nothing is lost. -/
theorem decimalDigits_auto (d : Dec) (f : DecFmt) (hp : f.places ≥ AUTO) :
    let dd := decimalDigits d f
    ∃ m, readNat (dd.1 ++ dd.2.1) = some m ∧
      ((d.isInteger = true ∧ dd.2.1 = [] ∧ SameValue m 0 d.mant d.exp) ∨
       (d.isInteger = false ∧ SameValue m (-(dd.2.1.length : Int)) (roundSig d 15).mant (roundSig d 15).exp)) := by
  unfold decimalDigits
  by_cases hi : d.isInteger = true
  · simp only [hi, hp, and_self, if_true]
    exact ⟨d.truncNat, by simpa using readNat_natStr _, Or.inl ⟨by first | rfl | trivial, by first | rfl | trivial, truncNat_exact d hi⟩⟩
  · have hi' : d.isInteger = false := by simpa using hi
    simp only [hi', hp, Bool.false_eq_true, false_and, if_false, if_true]
    unfold autoDigits
    simp only
    obtain ⟨j, h1, h2⟩ := stripZeros_spec (numDigits (roundSig d 15).mant) (roundSig d 15).mant (roundSig d 15).exp
    generalize stripZeros (numDigits (roundSig d 15).mant) (roundSig d 15).mant (roundSig d 15).exp = st at *
    obtain ⟨m, e⟩ := st
    simp only at h1 h2 ⊢
    split
    · rename_i he
      refine ⟨m * 10 ^ e.toNat, by simpa using readNat_natStr _, Or.inr ⟨by first | rfl | trivial, ?_⟩⟩
      refine ⟨j, e.toNat, ?_, by simp; omega⟩
      rw [h1]; ring
    · rename_i he
      obtain ⟨_, hl, _⟩ := splitFixed_spec m (-e).toNat
      refine ⟨m, splitFixed_reads_back _ _, Or.inr ⟨by first | rfl | trivial, ?_⟩⟩
      rw [hl]
      exact ⟨j, 0, by rw [h1]; simp, by simp; omega⟩

/-! ### currency -/

theorem removeMinus_undecorate (t : Text) : undecorate (removeMinus t) = undecorate t := by
  unfold removeMinus
  split
  · rename_i t'
    show _ = undecorate (['-'] ++ t')
    rw [undecorate_append]; rfl
  · rfl

theorem undecorate_currencySymbol (symbols : List (String × String)) (code : Text)
    (hs : ∀ e ∈ symbols, undecorate e.2.toList = []) (hc : undecorate code = []) :
    undecorate (currencySymbol symbols code) = [] := by
  unfold currencySymbol
  split
  · rename_i e he
    exact hs e (List.mem_of_find?_eq_some he)
  · rw [undecorate_append, hc]; rfl

theorem undecorate_formatCurrency (symbols : List (String × String)) (d : Dec) (f : DecFmt) (acct : Bool) (code : Text)
    (hs : ∀ e ∈ symbols, undecorate e.2.toList = []) (hc : undecorate code = []) :
    undecorate (formatCurrency symbols d f acct code) = undecorate (formatDecimal d f false) := by
  unfold formatCurrency
  simp only
  have hsym := undecorate_currencySymbol symbols code hs hc
  have e1 : undecorate ['\t', '('] = [] := by decide
  have e2 : undecorate [')'] = [] := by decide
  have e3 : undecorate ['\t'] = [] := by decide
  split
  · simp only [undecorate_append, hsym, e1, e2, removeMinus_undecorate, List.nil_append, List.append_nil]
  · split <;> simp only [undecorate_append, hsym, e3, List.nil_append]

/-! ### fraction texts -/

/-- what `_format_fraction_parts_to` displays: the sign, and the mixed number `w n/den` in normal form. -/
theorem fractionParts_spec (whole numerator : Int) (den : Nat) :
    let neg := whole < 0 ∨ numerator < 0
    let carry := numerator.natAbs = den
    let w := if carry then whole.natAbs + 1 else whole.natAbs
    let n := if carry then 0 else numerator.natAbs
    fractionParts whole numerator den =
      if w > 0 then
        (if neg then ['-'] else []) ++ natStr w ++ (if n = 0 then [] else [' '] ++ natStr n ++ ['/'] ++ natStr den)
      else if n = 0 then ['0']
      else (if neg then ['-'] else []) ++ natStr n ++ ['/'] ++ natStr den := by
  unfold fractionParts
  simp only
  by_cases hc : numerator.natAbs = den <;> by_cases hn : whole < 0 ∨ numerator < 0 <;> simp [hc, hn] <;>
    split <;> (try split) <;> (try simp_all)

/-! ### `Fraction.limit_denominator`: the denominator bound -/

/-- loop invariant after at least one iteration. -/
def LimitInv (M q0 q1 n d : Int) : Prop := 0 ≤ d ∧ d < n ∧ 0 ≤ q0 ∧ q0 ≤ q1 ∧ 1 ≤ q1 ∧ q1 ≤ M

theorem limitLoop_inv (M : Int) (fuel : Nat) : ∀ p0 q0 p1 q1 n d, LimitInv M q0 q1 n d →
    ∀ r, limitLoop M fuel p0 q0 p1 q1 n d = .ok r →
      0 ≤ r.2.1 ∧ r.2.1 ≤ r.2.2.2.1 ∧ 1 ≤ r.2.2.2.1 ∧ r.2.2.2.1 ≤ M := by
  induction fuel with
  | zero => intro p0 q0 p1 q1 n d _ r h; simp [limitLoop] at h
  | succ f ih =>
    intro p0 q0 p1 q1 n d hinv r h
    obtain ⟨hd0, hdn, hq0, hq01, hq1, hq1M⟩ := hinv
    unfold limitLoop at h
    by_cases hdz : d = 0
    · simp [hdz] at h
    · simp only [hdz, if_false] at h
      have hdpos : 0 < d := by omega
      have ha : 1 ≤ n / d := Int.le_ediv_of_mul_le hdpos (by omega)
      by_cases hq2 : q0 + n / d * q1 > M
      · simp only [hq2, if_true] at h
        cases h
        exact ⟨hq0, hq01, hq1, hq1M⟩
      · simp only [hq2, if_false] at h
        refine ih _ _ _ _ _ _ ⟨?_, ?_, by omega, ?_, ?_, by omega⟩ r h
        · have := Int.emod_nonneg n (show d ≠ 0 by omega)
          have e := Int.emod_def n d
          rw [Int.mul_comm] at e
          have : n - n / d * d = n % d := by rw [e]
          omega
        · have h1 := Int.emod_lt_of_pos n hdpos
          have e := Int.emod_def n d
          have : n - n / d * d = n % d := by rw [e, Int.mul_comm]
          omega
        · nlinarith
        · nlinarith

/-- whenever `limit_denominator` returns, the denominator it returns lies in `1 … max_denominator`. -/
theorem limitDenominator_bound (M num den : Int) (hM : 1 ≤ M) (hden : 0 < den) (p q : Int)
    (h : limitDenominator M num den = .ok (p, q)) : 1 ≤ q ∧ q ≤ M := by
  unfold limitDenominator at h
  by_cases hle : den ≤ M
  · simp only [hle, if_true] at h
    cases h; exact ⟨by omega, hle⟩
  · simp only [hle, if_false] at h
    -- first iteration by hand
    have hfuel : den.toNat + 2 = (den.toNat + 1) + 1 := rfl
    rw [hfuel] at h
    unfold limitLoop at h
    have hd0 : den ≠ 0 := by omega
    simp only [hd0, if_false, Int.mul_zero, Int.add_zero, Int.mul_one, Int.zero_add] at h
    have h1M : ¬ (1 > M) := by omega
    simp only [h1M, if_false] at h
    cases hl : limitLoop M (den.toNat + 1) 1 0 (num / den) 1 den (num - num / den * den) with
    | error e => rw [hl] at h; simp [bind, Except.bind] at h
    | ok r =>
      rw [hl] at h
      have hinv : LimitInv M 0 1 den (num - num / den * den) := by
        have e := Int.emod_def num den
        have e2 : num - num / den * den = num % den := by rw [e, Int.mul_comm]
        rw [e2]
        exact ⟨Int.emod_nonneg _ hd0, Int.emod_lt_of_pos _ hden, by omega, by omega, by omega, hM⟩
      obtain ⟨a0, a1, a2, a3⟩ := limitLoop_inv M _ _ _ _ _ _ _ hinv r hl
      obtain ⟨p0, q0, p1, q1, n', d'⟩ := r
      simp only [bind, Except.bind] at h
      simp only at a0 a1 a2 a3
      split at h
      · cases h; exact ⟨a2, a3⟩
      · cases h
        have hk0 : 0 ≤ (M - q0) / q1 := Int.ediv_nonneg (by omega) (by omega)
        have hkm : (M - q0) / q1 * q1 ≤ M - q0 := Int.ediv_mul_le _ (by omega)
        constructor
        · by_cases hq : q0 = 0
          · subst hq
            have : 1 ≤ (M - 0) / q1 := Int.le_ediv_of_mul_le (by omega) (by omega)
            nlinarith
          · have := Int.mul_nonneg hk0 (show 0 ≤ q1 by omega)
            omega
        · omega
end NumbersModel.NumFmt
