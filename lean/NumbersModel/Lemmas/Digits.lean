/-
Decimal digit strings: reading back `natStr`, zero padding, the "shows n padded to width w" predicate
used by the C13/C14 property statements.
-/
import NumbersModel.Lemmas.A1
import NumbersModel.Model.TextUtil
import Mathlib.Tactic.Ring
namespace NumbersModel.Digits
open NumbersModel NumbersModel.A1

/-- `t` is the decimal numeral of `n`, zero-padded on the left to *exactly* the width needed to reach
    `w` characters (no padding beyond `w`; `w ≤ 1` means unpadded). -/
def Shows (t : Text) (n w : Nat) : Prop :=
  readNat t = some n ∧ w ≤ t.length ∧ (w < t.length → t.head? ≠ some '0') ∧ 1 ≤ t.length

theorem isDigit_iff (c : Char) : isDigit c = true ↔ 48 ≤ c.toNat ∧ c.toNat ≤ 57 := by
  unfold isDigit
  simp only [Bool.and_eq_true, decide_eq_true_eq]
  constructor
  · rintro ⟨h1, h2⟩
    have a : ('0' : Char).toNat ≤ c.toNat := h1
    have b : c.toNat ≤ ('9' : Char).toNat := h2
    have e0 : ('0' : Char).toNat = 48 := by decide
    have e9 : ('9' : Char).toNat = 57 := by decide
    omega
  · rintro ⟨h1, h2⟩
    exact ⟨show ('0' : Char).toNat ≤ c.toNat by (have e0 : ('0' : Char).toNat = 48 := by decide); omega,
           show c.toNat ≤ ('9' : Char).toNat by (have e9 : ('9' : Char).toNat = 57 := by decide); omega⟩

theorem isDigit_digitChar (d : Nat) (h : d < 10) : isDigit (digitChar d) = true := by
  rw [isDigit_iff, digitChar_toNat d h]; omega

theorem readDigits_append (a b : List Char) (acc : Nat) :
    readDigits (a ++ b) acc = (readDigits a acc).bind (readDigits b) := by
  induction a generalizing acc with
  | nil => simp [readDigits]
  | cons c r ih =>
    simp only [List.cons_append, readDigits]
    split
    · exact ih _
    · rfl

theorem readDigits_digitChar (d : Nat) (h : d < 10) (acc : Nat) :
    readDigits [digitChar d] acc = some (acc * 10 + d) := by
  simp [readDigits, isDigit_digitChar d h, digitChar_toNat d h]

theorem readDigits_natStrSpec (n : Nat) (acc : Nat) :
    readDigits (natStrSpec n) acc = some (acc * 10 ^ (natStrSpec n).length + n) := by
  induction n using Nat.strongRecOn generalizing acc with
  | _ n ih =>
    unfold natStrSpec
    by_cases h : n < 10
    · simp only [h, dite_true]
      rw [readDigits_digitChar n h]; simp
    · simp only [h, dite_false]
      rw [readDigits_append, ih (n / 10) (by omega)]
      simp only [Option.bind_some, List.length_append, List.length_singleton]
      rw [readDigits_digitChar _ (by omega)]
      congr 1
      rw [Nat.pow_succ]
      have : n = 10 * (n / 10) + n % 10 := by omega
      generalize 10 ^ (natStrSpec (n / 10)).length = p
      generalize hq : n / 10 = q at *
      generalize hr : n % 10 = r at *
      subst this
      ring

theorem natStrSpec_ne_nil (n : Nat) : natStrSpec n ≠ [] := by
  unfold natStrSpec; split <;> simp

theorem natStr_ne_nil (n : Nat) : natStr n ≠ [] := by rw [natStr_eq]; exact natStrSpec_ne_nil n

theorem readNat_natStr (n : Nat) : readNat (natStr n) = some n := by
  unfold readNat
  rw [if_neg (natStr_ne_nil n), natStr_eq, readDigits_natStrSpec]; simp

theorem natStrSpec_all_digits (n : Nat) : ∀ c ∈ natStrSpec n, isDigit c = true := by
  induction n using Nat.strongRecOn with
  | _ n ih =>
    unfold natStrSpec
    by_cases h : n < 10
    · simp only [h, dite_true, List.mem_singleton]
      rintro c rfl; exact isDigit_digitChar n h
    · simp only [h, dite_false, List.mem_append, List.mem_singleton]
      rintro c (hc | rfl)
      · exact ih (n / 10) (by omega) c hc
      · exact isDigit_digitChar _ (by omega)

theorem natStr_all_digits (n : Nat) : ∀ c ∈ natStr n, isDigit c = true := by
  rw [natStr_eq]; exact natStrSpec_all_digits n

theorem readDigits_zeros (k : Nat) (t : Text) (acc : Nat) :
    readDigits (List.replicate k '0' ++ t) acc = readDigits t (acc * 10 ^ k) := by
  induction k generalizing acc with
  | zero => simp
  | succ k ih =>
    simp only [List.replicate_succ, List.cons_append, readDigits]
    have : isDigit '0' = true := by decide
    simp only [this, if_true]
    rw [ih]
    have : ('0' : Char).toNat - 48 = 0 := by decide
    rw [this, Nat.pow_succ]; congr 1; ring

/-- leading digit of a positive number is not `0`. -/
theorem natStrSpec_head (n : Nat) (h : n ≠ 0) : (natStrSpec n).head? ≠ some '0' := by
  induction n using Nat.strongRecOn with
  | _ n ih =>
    unfold natStrSpec
    by_cases h10 : n < 10
    · simp only [h10, dite_true, List.head?_cons]
      intro hc
      have e := digitChar_toNat n h10
      have : digitChar n = '0' := by simpa using hc
      rw [this] at e
      have : ('0' : Char).toNat = 48 := by decide
      omega
    · simp only [h10, dite_false]
      have hne := natStrSpec_ne_nil (n / 10)
      cases hs : natStrSpec (n / 10) with
      | nil => exact absurd hs hne
      | cons a tl =>
        have := ih (n / 10) (by omega) (by omega)
        rw [hs] at this
        simpa using this

theorem natStr_head (n : Nat) (h : n ≠ 0) : (natStr n).head? ≠ some '0' := by
  rw [natStr_eq]; exact natStrSpec_head n h

theorem natStr_zero : natStr 0 = ['0'] := by decide

theorem natStrSpec_length_lt10 (n : Nat) (h : n < 10) : (natStrSpec n).length = 1 := by
  unfold natStrSpec; simp [h]

theorem natStrSpec_length_ge10 (n : Nat) (h : 10 ≤ n) :
    (natStrSpec n).length = (natStrSpec (n / 10)).length + 1 := by
  conv => lhs; unfold natStrSpec
  have : ¬ n < 10 := by omega
  simp [this]

/-- `n < 10^k` (k ≥ 1) ⇒ at most `k` digits. -/
theorem natStrSpec_length_le (k : Nat) : ∀ n, n < 10 ^ (k + 1) → (natStrSpec n).length ≤ k + 1 := by
  induction k with
  | zero => intro n h; rw [natStrSpec_length_lt10 n (by simpa using h)]
  | succ k ih =>
    intro n h
    by_cases h10 : n < 10
    · rw [natStrSpec_length_lt10 n h10]; omega
    · rw [natStrSpec_length_ge10 n (by omega)]
      have : n / 10 < 10 ^ (k + 1) := by
        rw [Nat.pow_succ] at h; omega
      have := ih _ this; omega

/-- `10^k ≤ n` ⇒ more than `k` digits. -/
theorem natStrSpec_length_gt (k : Nat) : ∀ n, 10 ^ k ≤ n → k < (natStrSpec n).length := by
  induction k with
  | zero => intro n _; have := natStrSpec_ne_nil n; exact List.length_pos_iff.mpr this
  | succ k ih =>
    intro n h
    have h10 : 10 ≤ n := by
      have : 10 ^ (k + 1) ≥ 10 := by
        rw [Nat.pow_succ]; have := Nat.one_le_two_pow (n := 0); have : 10 ^ k ≥ 1 := Nat.one_le_pow _ _ (by omega); omega
      omega
    rw [natStrSpec_length_ge10 n h10]
    have : 10 ^ k ≤ n / 10 := by rw [Nat.pow_succ] at h; omega
    have := ih _ this; omega

theorem zfill_length (w : Nat) (s : Text) : (zfill w s).length = max w s.length := by
  simp [zfill]; omega

theorem readNat_zfill_natStr (w n : Nat) : readNat (zfill w (natStr n)) = some n := by
  unfold readNat zfill
  have hne : List.replicate (w - (natStr n).length) '0' ++ natStr n ≠ [] := by
    simp [natStr_ne_nil]
  rw [if_neg hne, readDigits_zeros, natStr_eq, readDigits_natStrSpec]; simp

theorem shows_natStr (n : Nat) : Shows (natStr n) n 1 := by
  refine ⟨readNat_natStr n, ?_, ?_, ?_⟩
  · exact List.length_pos_iff.mpr (natStr_ne_nil n)
  · intro hlen
    by_cases h0 : n = 0
    · subst h0; rw [natStr_zero] at hlen; simp at hlen
    · exact natStr_head n h0
  · exact List.length_pos_iff.mpr (natStr_ne_nil n)

theorem shows_zfill_natStr (w n : Nat) (hw : 1 ≤ w) : Shows (zfill w (natStr n)) n w := by
  refine ⟨readNat_zfill_natStr w n, ?_, ?_, ?_⟩
  · rw [zfill_length]; omega
  · rw [zfill_length]
    intro hlen
    have hl : w < (natStr n).length := by omega
    have : zfill w (natStr n) = natStr n := by
      unfold zfill
      have : w - (natStr n).length = 0 := by omega
      rw [this]; simp
    rw [this]
    by_cases h0 : n = 0
    · subst h0; rw [natStr_zero] at hl; simp at hl; omega
    · exact natStr_head n h0
  · rw [zfill_length]; omega

/-- the `Shows` specification pins the text down completely. -/
theorem zfill_succ (k n : Nat) (hk : 1 ≤ k) :
    zfill (k + 1) (natStr n) = zfill k (natStr (n / 10)) ++ [digitChar (n % 10)] := by
  rw [natStr_eq, natStr_eq]
  by_cases h : n < 10
  · have e1 : natStrSpec n = [digitChar n] := by unfold natStrSpec; simp [h]
    have e2 : n / 10 = 0 := by omega
    have e3 : n % 10 = n := by omega
    have e4 : natStrSpec 0 = ['0'] := by rw [← natStr_eq]; decide
    rw [e1, e2, e3, e4]
    unfold zfill
    simp only [List.length_singleton, Nat.add_sub_cancel]
    have : List.replicate (k - 1) '0' ++ ['0'] = List.replicate k '0' := by
      rw [← List.replicate_succ']; congr 1; omega
    rw [this]
  · have e1 : natStrSpec n = natStrSpec (n / 10) ++ [digitChar (n % 10)] := by
      conv => lhs; unfold natStrSpec
      simp [h]
    rw [e1]
    unfold zfill
    simp only [List.length_append, List.length_singleton, List.append_assoc]
    congr 2
    omega

theorem zfill_exact_length (k n : Nat) (hk : 1 ≤ k) (h : n < 10 ^ k) : (zfill k (natStr n)).length = k := by
  rw [zfill_length, natStr_eq]
  obtain ⟨j, rfl⟩ : ∃ j, k = j + 1 := ⟨k - 1, by omega⟩
  have := natStrSpec_length_le j n h
  omega

/-- dropping the last digit of an exactly-`k+1`-wide numeral divides by ten. -/
theorem zfill_take (k n : Nat) (hk : 1 ≤ k) (h : n < 10 ^ (k + 1)) :
    (zfill (k + 1) (natStr n)).take k = zfill k (natStr (n / 10)) := by
  rw [zfill_succ k n hk]
  have hl : (zfill k (natStr (n / 10))).length = k :=
    zfill_exact_length k (n / 10) hk (by rw [Nat.pow_succ] at h; omega)
  rw [List.take_append_of_le_length (by omega), List.take_of_length_le (by omega)]

/-! ### reading the numbers of a text -/

/-- digits then a digit-free suffix; the digits read as `v`. -/
def NumText (t : Text) (v : Nat) : Prop :=
  ∃ ds suf, t = ds ++ suf ∧ ds ≠ [] ∧ (∀ c ∈ ds, isDigit c = true) ∧ readDigits ds 0 = some v ∧
    ∀ c ∈ suf, isDigit c = false

theorem readNumbersAux_digits (ds rest : List Char) (hd : ∀ c ∈ ds, isDigit c = true) (hne : ds ≠ []) :
    ∀ cur, ∃ v, readDigits ds (cur.getD 0) = some v ∧
      readNumbersAux (ds ++ rest) cur = readNumbersAux rest (some v) := by
  induction ds with
  | nil => exact absurd rfl hne
  | cons c r ih =>
    intro cur
    have hc : isDigit c = true := hd c (by simp)
    by_cases hr : r = []
    · subst hr
      exact ⟨cur.getD 0 * 10 + (c.toNat - 48), by simp [readDigits, hc], by simp [readNumbersAux, hc]⟩
    · obtain ⟨v, h1, h2⟩ := ih (fun c hc => hd c (by simp [hc])) hr (some (cur.getD 0 * 10 + (c.toNat - 48)))
      exact ⟨v, by simpa [readDigits, hc] using h1, by simpa [readNumbersAux, hc] using h2⟩

theorem readNumbersAux_nondigits (s rest : List Char) (hs : ∀ c ∈ s, isDigit c = false) :
    readNumbersAux (s ++ rest) none = readNumbersAux rest none := by
  induction s with
  | nil => rfl
  | cons c r ih =>
    simp only [List.cons_append, readNumbersAux, hs c (by simp)]
    exact ih (fun c hc => hs c (by simp [hc]))

theorem readNumbersAux_close (s rest : List Char) (v : Nat) (hs : ∀ c ∈ s, isDigit c = false) (hne : s ≠ []) :
    readNumbersAux (s ++ rest) (some v) = v :: readNumbersAux rest none := by
  cases s with
  | nil => exact absurd rfl hne
  | cons c r =>
    simp only [List.cons_append, readNumbersAux, hs c (by simp), Bool.false_eq_true, if_false]
    congr 1
    exact readNumbersAux_nondigits r rest (fun c hc => hs c (by simp [hc]))

theorem readNumbers_numText (t : Text) (v : Nat) (h : NumText t v) (sep rest : List Char)
    (hsep : ∀ c ∈ sep, isDigit c = false) (hne : sep ≠ []) :
    readNumbersAux (t ++ sep ++ rest) none = v :: readNumbersAux rest none := by
  obtain ⟨ds, suf, rfl, hdne, hd, hv, hsuf⟩ := h
  obtain ⟨v', h1, h2⟩ := readNumbersAux_digits ds (suf ++ sep ++ rest) hd hdne none
  simp only [Option.getD_none] at h1
  rw [hv] at h1; cases h1
  rw [show ds ++ suf ++ sep ++ rest = ds ++ (suf ++ sep ++ rest) by simp, h2]
  rw [show suf ++ sep ++ rest = (suf ++ sep) ++ rest by simp]
  exact readNumbersAux_close (suf ++ sep) rest v
    (fun c hc => by rcases List.mem_append.mp hc with h | h; exact hsuf c h; exact hsep c h) (by simp [hne])

theorem readNumbers_numText_last (t : Text) (v : Nat) (h : NumText t v) :
    readNumbersAux t none = [v] := by
  obtain ⟨ds, suf, rfl, hdne, hd, hv, hsuf⟩ := h
  obtain ⟨v', h1, h2⟩ := readNumbersAux_digits ds suf hd hdne none
  simp only [Option.getD_none] at h1
  rw [hv] at h1; cases h1
  rw [h2]
  by_cases hs : suf = []
  · subst hs; simp [readNumbersAux]
  · have := readNumbersAux_close suf [] v hsuf hs
    simpa [readNumbersAux] using this

/-- swapping one non-digit for another does not change the numbers read. -/
theorem readNumbersAux_swap (pre suf : List Char) (c c' : Char) (hc : isDigit c = false) (hc' : isDigit c' = false) :
    ∀ cur, readNumbersAux (pre ++ c :: suf) cur = readNumbersAux (pre ++ c' :: suf) cur := by
  induction pre with
  | nil => intro cur; simp [readNumbersAux, hc, hc']
  | cons x r ih =>
    intro cur
    simp only [List.cons_append, readNumbersAux]
    split
    · exact ih _
    · cases cur <;> simp [ih]

theorem numText_natStr_suffix (pad suf : Text) (v : Nat) (hp : ∀ c ∈ pad, c = '0')
    (hs : ∀ c ∈ suf, isDigit c = false) : NumText (pad ++ natStr v ++ suf) v := by
  refine ⟨pad ++ natStr v, suf, rfl, by simp [natStr_ne_nil], ?_, ?_, hs⟩
  · intro c hc
    rcases List.mem_append.mp hc with h | h
    · rw [hp c h]; decide
    · exact natStr_all_digits v c h
  · have : pad = List.replicate pad.length '0' := by
      exact List.eq_replicate_iff.mpr ⟨rfl, hp⟩
    rw [this, readDigits_zeros, natStr_eq, readDigits_natStrSpec]; simp

end NumbersModel.Digits
