/-
The argument checks of `Table.add_row` / `add_column` / `delete_row` / `delete_column` as `harness/py2lean.py` regenerates
them from `document.py` on every check run (`Gen/TrEdit.lean`: everything before the first mutation of the table), and their
place in the model of Model/Grid.lean: each model operation *is* the translated prefix followed by the rest of the
operation (`…Body`, the model's own text after the checks), for every state and all arguments.
-/
import NumbersModel.Gen.TrEdit
import NumbersModel.Model.Grid

namespace NumbersModel.Translated
open NumbersModel NumbersModel.Gen.T NumbersModel.Grid

variable {α : Type}

/-- `add_row` after the checks, with the defaulted start row -/
def addRowBody (empty : α) (s : State α) (num st : Int) : PyM (State α) := do
  let numRows' := s.numRows + num
  let rows := compRange (fun row => compRange (fun col => (⟨row, col, empty⟩ : CellM α)) s.numCols.toNat 0)
                num.toNat st
  let data1 := pyInsertAt s.data st rows
  let data2 ← renumberRows data1 st numRows' s.numCols
  pure { numRows := numRows', numCols := s.numCols, data := data2 }

theorem add_row_args_eq_model (empty : α) (s : State α) (num : Int) (start : Option Int) :
    addRowCore empty s num start = (add_row_args s.numRows num start).bind (addRowBody empty s num) := by
  unfold addRowCore add_row_args addRowBody
  cases start with
  | none =>
    by_cases hn : num < 0
    · simp [hn, bind, Except.bind, throw, throwThe, MonadExceptOf.throw]
    · simp [hn, bind, Except.bind, pure, Except.pure]
  | some st =>
    by_cases h1 : st < 0 ∨ st ≥ s.numRows
    · rcases h1 with h | h <;> simp [h, bind, Except.bind, throw, throwThe, MonadExceptOf.throw]
    · have h1a : ¬ st < 0 := fun h => h1 (Or.inl h)
      have h1b : ¬ st ≥ s.numRows := fun h => h1 (Or.inr h)
      by_cases hn : num < 0
      · simp [h1a, h1b, hn, bind, Except.bind, throw, throwThe, MonadExceptOf.throw, pure, Except.pure]
      · simp [h1a, h1b, hn, bind, Except.bind, pure, Except.pure]

/-- `add_column` after the checks, with the defaulted start column -/
def addColBody (empty : α) (fill : State α → Int → Int → PyM (State α)) (s : State α) (num st : Int) : PyM (State α) := do
  let s1 : State α := { s with numCols := s.numCols + num }
  forRange (fun row s => do
      let s2 ← addColRow empty num st s row
      fill s2 row st)
    s1.numRows.toNat 0 s1

theorem add_column_args_eq_model (empty : α) (fill : State α → Int → Int → PyM (State α)) (s : State α) (num : Int)
    (start : Option Int) :
    addColGen empty fill s num start = (add_column_args s.numCols num start).bind (addColBody empty fill s num) := by
  unfold addColGen add_column_args addColBody
  cases start with
  | none =>
    by_cases hn : num < 0
    · simp [hn, bind, Except.bind, throw, throwThe, MonadExceptOf.throw]
    · simp [hn, bind, Except.bind, pure, Except.pure]
  | some st =>
    by_cases h1 : st < 0 ∨ st ≥ s.numCols
    · rcases h1 with h | h <;> simp [h, bind, Except.bind, throw, throwThe, MonadExceptOf.throw]
    · have h1a : ¬ st < 0 := fun h => h1 (Or.inl h)
      have h1b : ¬ st ≥ s.numCols := fun h => h1 (Or.inr h)
      by_cases hn : num < 0
      · simp [h1a, h1b, hn, bind, Except.bind, throw, throwThe, MonadExceptOf.throw]
      · simp [h1a, h1b, hn, bind, Except.bind, pure, Except.pure]

/-- `delete_row` after the checks -/
def delRowBody (s : State α) (num : Int) (start : Option Int) : PyM (State α) := do
  let data1 := match start with
    | some st => pyDelSlice s.data (some st) (some (st + num))
    | none => pyDelSlice s.data (some (s.numRows - num)) none
  let numRows' := s.numRows - num
  match start with
  | some st =>
    let data2 ← renumberRows data1 st numRows' s.numCols
    pure { s with numRows := numRows', data := data2 }
  | none => pure { s with numRows := numRows', data := data1 }

theorem delete_row_args_eq_model (s : State α) (num : Int) (start : Option Int) :
    delRow s num start = (delete_row_args s.numRows num start).bind (fun _ => delRowBody s num start) := by
  unfold delRow delete_row_args delRowBody
  cases start with
  | none =>
    by_cases hn : num < 0 ∨ num ≥ s.numRows
    · rcases hn with h | h <;> simp [h, bind, Except.bind, throw, throwThe, MonadExceptOf.throw]
    · have ha : ¬ num < 0 := fun h => hn (Or.inl h)
      have hb : ¬ num ≥ s.numRows := fun h => hn (Or.inr h)
      simp [ha, hb, bind, Except.bind, pure, Except.pure]
  | some st =>
    by_cases h1 : st < 0 ∨ st ≥ s.numRows
    · rcases h1 with h | h <;> simp [h, bind, Except.bind, throw, throwThe, MonadExceptOf.throw]
    · have h1a : ¬ st < 0 := fun h => h1 (Or.inl h)
      have h1b : ¬ st ≥ s.numRows := fun h => h1 (Or.inr h)
      by_cases hn : num < 0 ∨ num ≥ s.numRows ∨ st + num > s.numRows
      · rcases hn with h | h | h <;>
          simp [h1a, h1b, h, bind, Except.bind, throw, throwThe, MonadExceptOf.throw]
      · have ha : ¬ num < 0 := fun h => hn (Or.inl h)
        have hb : ¬ num ≥ s.numRows := fun h => hn (Or.inr (Or.inl h))
        have hc : ¬ st + num > s.numRows := fun h => hn (Or.inr (Or.inr h))
        simp [h1a, h1b, ha, hb, hc, bind, Except.bind, pure, Except.pure]

/-- `delete_column` after the checks -/
def delColBody (s : State α) (num : Int) (start : Option Int) : PyM (State α) := do
  let s1 ← forRange (fun row s => delColRow num start s.numCols s row) s.numRows.toNat 0 s
  pure { s1 with numCols := s1.numCols - num }

theorem delete_column_args_eq_model (s : State α) (num : Int) (start : Option Int) :
    delCol s num start = (delete_column_args s.numCols num start).bind (fun _ => delColBody s num start) := by
  unfold delCol delete_column_args delColBody
  cases start with
  | none =>
    by_cases hn : num < 0 ∨ num ≥ s.numCols
    · rcases hn with h | h <;> simp [h, bind, Except.bind, throw, throwThe, MonadExceptOf.throw]
    · have ha : ¬ num < 0 := fun h => hn (Or.inl h)
      have hb : ¬ num ≥ s.numCols := fun h => hn (Or.inr h)
      simp [ha, hb, bind, Except.bind, pure, Except.pure]
  | some st =>
    by_cases h1 : st < 0 ∨ st ≥ s.numCols
    · rcases h1 with h | h <;> simp [h, bind, Except.bind, throw, throwThe, MonadExceptOf.throw]
    · have h1a : ¬ st < 0 := fun h => h1 (Or.inl h)
      have h1b : ¬ st ≥ s.numCols := fun h => h1 (Or.inr h)
      by_cases hn : num < 0 ∨ num ≥ s.numCols ∨ st + num > s.numCols
      · rcases hn with h | h | h <;>
          simp [h1a, h1b, h, bind, Except.bind, throw, throwThe, MonadExceptOf.throw]
      · have ha : ¬ num < 0 := fun h => hn (Or.inl h)
        have hb : ¬ num ≥ s.numCols := fun h => hn (Or.inr (Or.inl h))
        have hc : ¬ st + num > s.numCols := fun h => hn (Or.inr (Or.inr h))
        simp [h1a, h1b, ha, hb, hc, bind, Except.bind, pure, Except.pure]

end NumbersModel.Translated
