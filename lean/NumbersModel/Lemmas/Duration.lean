/-
Helper lemmas for C14 (duration display).
-/
import NumbersModel.Model.Duration
import NumbersModel.Lemmas.Digits
namespace NumbersModel.Duration
open NumbersModel NumbersModel.Digits NumbersModel.A1

/-- the six `DurationUnits` values a format can hold. -/
def IsDurUnit (u : Nat) : Prop := u = 1 ∨ u = 2 ∨ u = 4 ∨ u = 8 ∨ u = 16 ∨ u = 32

instance (u : Nat) : Decidable (IsDurUnit u) := by unfold IsDurUnit; exact inferInstance

/-- size of a unit in milliseconds. -/
def unitMsOf (u : Nat) : Nat :=
  if u = WEEK then msWeek else if u = DAY then msDay else if u = HOUR then msHour
  else if u = MINUTE then msMinute else if u = SECOND then msSecond else 1

def allUnits : List Nat := [WEEK, DAY, HOUR, MINUTE, SECOND, MILLISECOND]

/-- sizes (ms) of the units from `largest` down to `smallest`. -/
def unitsBetween (largest smallest : Nat) : List Nat :=
  (allUnits.filter (fun u => largest ≤ u && u ≤ smallest)).map unitMsOf

/-- Σ aᵢ·bᵢ -/
def dot : List Nat → List Nat → Nat
  | a :: as, b :: bs => a * b + dot as bs
  | _, _ => 0

def sumItems (l : List Item) : Nat := dot (l.map (·.unitMs)) (l.map (·.value))

/-! ### arithmetic of the straight-line body -/

theorem items_sum (style l s ms : Nat) (hl : IsDurUnit l) (hs : IsDurUnit s) (hle : l ≤ s) :
    sumItems (durationItems style l s ms) = ms - ms % unitMsOf s := by
  rcases hl with rfl | rfl | rfl | rfl | rfl | rfl <;> rcases hs with rfl | rfl | rfl | rfl | rfl | rfl <;>
    first
    | (exfalso; omega)
    | (simp [durationItems, block, unitInRange, sumItems, dot, unitMsOf, WEEK, DAY, HOUR, MINUTE, SECOND,
        MILLISECOND, msWeek, msDay, msHour, msMinute, msSecond]; omega)

theorem items_units (style l s ms : Nat) (hl : IsDurUnit l) (hs : IsDurUnit s) (hle : l ≤ s) :
    (durationItems style l s ms).map (·.unitMs) = unitsBetween l s := by
  rcases hl with rfl | rfl | rfl | rfl | rfl | rfl <;> rcases hs with rfl | rfl | rfl | rfl | rfl | rfl <;>
    first
    | (exfalso; omega)
    | (simp [durationItems, block, unitInRange, unitsBetween, allUnits, unitMsOf, WEEK, DAY, HOUR, MINUTE, SECOND,
        MILLISECOND, msWeek, msDay, msHour, msMinute, msSecond])

/-- every unit after the first shows less than one of the next larger unit shown. -/
def Normalised : List Item → Prop
  | a :: b :: rest => b.unitMs * b.value < a.unitMs ∧ Normalised (b :: rest)
  | _ => True

theorem items_normalised (style l s ms : Nat) (hl : IsDurUnit l) (hs : IsDurUnit s) (hle : l ≤ s) :
    Normalised (durationItems style l s ms) := by
  rcases hl with rfl | rfl | rfl | rfl | rfl | rfl <;> rcases hs with rfl | rfl | rfl | rfl | rfl | rfl <;>
    first
    | (exfalso; omega)
    | (simp [durationItems, block, unitInRange, Normalised, WEEK, DAY, HOUR, MINUTE, SECOND,
        MILLISECOND, msWeek, msDay, msHour, msMinute, msSecond] <;> omega)

theorem readNumbers_join (sep : Text) (hsep : ∀ c ∈ sep, isDigit c = false) (hne : sep ≠ [])
    (items : List Item) (h : ∀ it ∈ items, NumText it.text it.value) :
    readNumbers (joinWith sep (items.map (·.text))) = items.map (·.value) := by
  unfold readNumbers
  induction items with
  | nil => simp [joinWith, readNumbersAux]
  | cons a rest ih =>
    cases rest with
    | nil => simpa [joinWith] using readNumbers_numText_last a.text a.value (h a (by simp))
    | cons b rest' =>
      simp only [List.map_cons, joinWith]
      rw [show a.text ++ sep ++ joinWith sep (b.text :: List.map (·.text) rest')
            = a.text ++ sep ++ joinWith sep ((b :: rest').map (·.text)) by simp]
      rw [readNumbers_numText a.text a.value (h a (by simp)) sep _ hsep hne]
      rw [ih (fun it hit => h it (by simp [hit]))]
      simp

theorem readNumbers_fixMillis (t : Text) : readNumbers (fixMillis t) = readNumbers t := by
  unfold fixMillis
  split
  · rename_i c b a r hrev
    split
    · have ht : t = r.reverse ++ ':' :: [a, b, c] := by
        have := congrArg List.reverse hrev
        simpa using this
      rw [ht]
      simp only [List.reverse_cons, List.append_assoc, List.cons_append, List.nil_append]
      unfold readNumbers
      exact readNumbersAux_swap r.reverse [a, b, c] '.' ':' (by decide) (by decide) none
    · rfl
  · rfl

/-! ### the item texts -/

theorem unitFormat_nodigits (nm : Text) (ab : Option Text) (v style : Nat)
    (hn : ∀ c ∈ nm, isDigit c = false) (ha : ∀ a, ab = some a → ∀ c ∈ a, isDigit c = false) :
    ∀ c ∈ unitFormat nm v style ab, isDigit c = false := by
  intro c hc
  unfold unitFormat at hc
  simp only at hc
  split at hc
  · simp at hc
  · split at hc
    · cases ab with
      | none => exact hn c (List.mem_of_mem_take hc)
      | some a => exact ha a rfl c hc
    · simp only [List.mem_cons, List.mem_append] at hc
      rcases hc with (rfl | h) | h
      · decide
      · exact hn c h
      · split at h
        · simp at h
        · simp at h; subst h; decide

theorem numText_labelled (nm : Text) (ab : Option Text) (style dd : Nat)
    (hn : ∀ c ∈ nm, isDigit c = false) (ha : ∀ a, ab = some a → ∀ c ∈ a, isDigit c = false) :
    NumText (labelled nm style ab dd) dd := by
  have := numText_natStr_suffix [] (unitFormat nm dd style ab) dd (by simp) (unitFormat_nodigits nm ab dd style hn ha)
  simpa [labelled] using this

theorem numText_clockField (nm : Text) (style l s u dd : Nat) (hn : ∀ c ∈ nm, isDigit c = false) :
    NumText (clockField nm style l s u dd) dd := by
  unfold clockField
  split
  · split
    · simpa using numText_natStr_suffix [] [] dd (by simp) (by simp)
    · simpa using numText_natStr_suffix ['0'] [] dd (by simp) (by simp)
  · exact numText_labelled nm none style dd hn (by simp)

theorem numText_milliField (style dd : Nat) : NumText (milliField style dd) dd := by
  unfold milliField
  split
  · simp only
    split
    · simpa using numText_natStr_suffix [] [] dd (by simp) (by simp)
    · split
      · simpa using numText_natStr_suffix ['0'] [] dd (by simp) (by simp)
      · simpa using numText_natStr_suffix ['0', '0'] [] dd (by simp) (by simp)
  · exact numText_labelled _ _ style dd (by decide) (by intro a h; cases h; decide)

theorem block_numText (active reduce : Bool) (u : Nat) (mk : Nat → Text) (s : Nat × List Item)
    (hmk : ∀ dd, NumText (mk dd) dd) (hs : ∀ it ∈ s.2, NumText it.text it.value) :
    ∀ it ∈ (block active reduce u mk s).2, NumText it.text it.value := by
  unfold block
  split
  · intro it hit
    simp only [List.mem_append, List.mem_singleton] at hit
    rcases hit with h | rfl
    · exact hs it h
    · exact hmk _
  · exact hs

theorem items_numText (style l s ms : Nat) :
    ∀ it ∈ durationItems style l s ms, NumText it.text it.value := by
  unfold durationItems
  simp only
  apply block_numText _ _ _ _ _ (numText_milliField style)
  apply block_numText _ _ _ _ _ (fun dd => numText_clockField _ style l s SECOND dd (by decide))
  apply block_numText _ _ _ _ _ (fun dd => numText_clockField _ style l s MINUTE dd (by decide))
  apply block_numText _ _ _ _ _ (fun dd => numText_labelled _ none style dd (by decide) (by simp))
  apply block_numText _ _ _ _ _ (fun dd => numText_labelled _ none style dd (by decide) (by simp))
  apply block_numText _ _ _ _ _ (fun dd => numText_labelled _ none style dd (by decide) (by simp))
  simp

theorem format_numbers (ms : Nat) (f : Fmt) :
    readNumbers (durationFormat ms f) =
      (durationItems f.style (effectiveUnits ms f).2 (effectiveUnits ms f).1 ms).map (·.value) := by
  unfold durationFormat
  simp only
  have hj : ∀ sep : Text, (∀ c ∈ sep, isDigit c = false) → sep ≠ [] →
      readNumbers (joinWith sep ((durationItems f.style (effectiveUnits ms f).2 (effectiveUnits ms f).1 ms).map (·.text)))
        = (durationItems f.style (effectiveUnits ms f).2 (effectiveUnits ms f).1 ms).map (·.value) :=
    fun sep h1 h2 => readNumbers_join sep h1 h2 _ (items_numText _ _ _ _)
  by_cases h0 : f.style = 0
  · rw [if_pos h0, if_pos (show f.style = COMPACT from h0), readNumbers_fixMillis]
    exact hj [':'] (by decide) (by simp)
  · rw [if_neg h0, if_neg (show ¬ f.style = COMPACT from h0)]
    exact hj [' '] (by decide) (by simp)

/-! ### automatic units -/

theorem autoUnits_largest (ms : Nat) (L : Nat)
    (hL : L = (if ms ≥ msWeek then WEEK else if ms ≥ msDay then DAY else if ms ≥ msHour then HOUR
      else if ms ≥ msMinute then MINUTE else if ms ≥ msSecond then SECOND else MILLISECOND)) :
    IsDurUnit L ∧ ∀ u, IsDurUnit u → unitMsOf u ≤ ms → L ≤ u := by
  split_ifs at hL <;> subst hL <;> refine ⟨by simp [IsDurUnit, WEEK, DAY, HOUR, MINUTE, SECOND, MILLISECOND], ?_⟩ <;>
    (intro u hu; rcases hu with rfl | rfl | rfl | rfl | rfl | rfl <;>
      simp [unitMsOf, WEEK, DAY, HOUR, MINUTE, SECOND, MILLISECOND, msWeek, msDay, msHour, msMinute, msSecond] at * <;> omega)

theorem autoUnits_smallest (ms : Nat) (fs : Nat) (hf : IsDurUnit fs) (S : Nat)
    (hS : S = (if ms % msSecond ≠ 0 then MILLISECOND else if ms % msMinute ≠ 0 then SECOND
      else if ms % msHour ≠ 0 then MINUTE else if ms % msDay ≠ 0 then HOUR
      else if ms % msWeek ≠ 0 then DAY else fs)) :
    IsDurUnit S ∧ ms % unitMsOf S = 0 := by
  split_ifs at hS <;> subst hS
  · exact ⟨by simp [IsDurUnit, MILLISECOND], by simp [unitMsOf, WEEK, DAY, HOUR, MINUTE, SECOND, MILLISECOND, Nat.mod_one]⟩
  · exact ⟨by simp [IsDurUnit, SECOND], by simp [unitMsOf, WEEK, DAY, HOUR, MINUTE, SECOND, msSecond] at *; omega⟩
  · exact ⟨by simp [IsDurUnit, MINUTE], by simp [unitMsOf, WEEK, DAY, HOUR, MINUTE, SECOND, msMinute] at *; omega⟩
  · exact ⟨by simp [IsDurUnit, HOUR], by simp [unitMsOf, WEEK, DAY, HOUR, MINUTE, SECOND, msHour] at *; omega⟩
  · exact ⟨by simp [IsDurUnit, DAY], by simp [unitMsOf, WEEK, DAY, HOUR, MINUTE, SECOND, msDay] at *; omega⟩
  · refine ⟨hf, ?_⟩
    simp only [msWeek, msDay, msHour, msMinute, msSecond, ne_eq, Decidable.not_not] at *
    rcases hf with rfl | rfl | rfl | rfl | rfl | rfl <;>
      simp [unitMsOf, WEEK, DAY, HOUR, MINUTE, SECOND, msWeek, msDay, msHour, msMinute, msSecond] <;> omega

theorem autoUnits_valid (ms : Nat) (f : Fmt) (hf : IsDurUnit f.smallest) :
    IsDurUnit (autoUnits ms f).1 ∧ IsDurUnit (autoUnits ms f).2 ∧ (autoUnits ms f).2 ≤ (autoUnits ms f).1 ∧
      ms % unitMsOf (autoUnits ms f).1 = 0 := by
  unfold autoUnits
  by_cases h0 : ms = 0
  · subst h0; simp [IsDurUnit, DAY, unitMsOf, WEEK]
  · simp only [h0, if_false]
    generalize hLe : (if ms ≥ msWeek then WEEK else if ms ≥ msDay then DAY else if ms ≥ msHour then HOUR
      else if ms ≥ msMinute then MINUTE else if ms ≥ msSecond then SECOND else MILLISECOND) = L
    generalize hSe : (if ms % msSecond ≠ 0 then MILLISECOND else if ms % msMinute ≠ 0 then SECOND
      else if ms % msHour ≠ 0 then MINUTE else if ms % msDay ≠ 0 then HOUR
      else if ms % msWeek ≠ 0 then DAY else f.smallest) = S
    obtain ⟨hL, hLmin⟩ := autoUnits_largest ms L hLe.symm
    obtain ⟨hS, hSdiv⟩ := autoUnits_smallest ms f.smallest hf S hSe.symm
    have hle : L ≤ S := by
      apply hLmin S hS
      have hpos : 0 < unitMsOf S := by
        rcases hS with rfl | rfl | rfl | rfl | rfl | rfl <;>
          simp [unitMsOf, WEEK, DAY, HOUR, MINUTE, SECOND, msWeek, msDay, msHour, msMinute, msSecond]
      exact Nat.le_of_dvd (by omega) (Nat.dvd_of_mod_eq_zero hSdiv)
    have hmax : max S L = S := by omega
    simp only [hmax]
    exact ⟨hS, hL, hle, hSdiv⟩

end NumbersModel.Duration
