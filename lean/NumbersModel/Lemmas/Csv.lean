/-
Lemmas for the CSV → Numbers → CSV pipeline (C20): rows survive the header-keyed dict when the keys are
distinct, rectangular tables are not padded, and the exported table of a rectangular grid is `expectedGrid`.
-/
import NumbersModel.Model.Csv
import NumbersModel.Lemmas.CsvCodec
import Mathlib.Data.List.Nodup
import Mathlib.Data.List.Range
namespace NumbersModel.Csv
open NumbersModel

variable {ν : Type}

theorem dictSet_fresh {κ} [DecidableEq κ] (d : List (κ × Text)) (k : κ) (v : Text)
    (h : k ∉ d.map Prod.fst) : dictSet d k v = d ++ [(k, v)] := by
  induction d with
  | nil => rfl
  | cons a r ih =>
    simp only [List.map_cons, List.mem_cons, not_or] at h
    simp only [dictSet, List.cons_append]
    rw [if_neg (fun e => h.1 e.symm), ih h.2]

theorem dictZip_go {κ} [DecidableEq κ] (kvs acc : List (κ × Text))
    (hn : (acc.map Prod.fst ++ kvs.map Prod.fst).Nodup) :
    kvs.foldl (fun d kv => dictSet d kv.1 kv.2) acc = acc ++ kvs := by
  induction kvs generalizing acc with
  | nil => simp
  | cons a r ih =>
    simp only [List.foldl_cons]
    have hfresh : a.1 ∉ acc.map Prod.fst := by
      intro hm
      rw [List.nodup_append] at hn
      exact hn.2.2 a.1 hm a.1 (by simp) rfl
    rw [dictSet_fresh acc a.1 a.2 hfresh, ih]
    · simp
    · simpa [List.map_append, List.append_assoc] using hn

theorem dictZip_values {κ} [DecidableEq κ] (header : List κ) (row : List Text)
    (hn : header.Nodup) (hl : header.length = row.length) :
    (dictZip header row).map Prod.snd = row := by
  unfold dictZip
  have hk : (header.zip row).map Prod.fst = header := by
    rw [List.map_fst_zip]; omega
  rw [dictZip_go (header.zip row) [] (by simpa [hk] using hn)]
  simp only [List.nil_append]
  rw [List.map_snd_zip]; omega

/-- with distinct keys a data row is coerced cell by cell, in place -/
theorem dataRow_eq {κ} [DecidableEq κ] (pyFloat : Text → FloatCls ν) (norm : Text → Text) (o : Opts)
    (header : List κ) (row : List Text) (hn : header.Nodup) (hl : header.length = row.length) :
    dataRow pyFloat norm o header row =
      row.map (fun v => coerce pyFloat (if o.whitespace then norm v else v)) := by
  unfold dataRow
  conv => rhs; rw [← dictZip_values header row hn hl]
  simp [List.map_map, Function.comp_def]

theorem maxLen_le {α} (rows : List (List α)) (w : Nat) (h : ∀ r ∈ rows, r.length ≤ w) : maxLen rows ≤ w := by
  induction rows with
  | nil => simp [maxLen]
  | cons r rest ih =>
    simp only [maxLen]
    have h1 := h r (by simp)
    have h2 := ih (fun x hx => h x (by simp [hx]))
    omega

/-- a table whose rows all have the same width (at least one column) is laid out as it is -/
theorem padTable_rect (rows : List (List (Cell ν))) (w : Nat) (hw : 1 ≤ w) (h : ∀ r ∈ rows, r.length = w) :
    padTable rows = rows := by
  unfold padTable
  have hm : maxLen rows ≤ w := maxLen_le rows w (fun r hr => by rw [h r hr])
  conv => rhs; rw [← List.map_id rows]
  apply List.map_congr_left
  intro r hr
  have : max (maxLen rows) 1 - r.length = 0 := by rw [h r hr]; omega
  simp [this]

theorem export_dataRows (pyFloat : Text → FloatCls ν) (norm : Text → Text) (render : ν → Text) (o : Opts)
    {κ} [DecidableEq κ] (header : List κ) (hn : header.Nodup) (rows : List (List Text))
    (hl : ∀ r ∈ rows, r.length = header.length) :
    exportGrid render (rows.map (dataRow pyFloat norm o header)) =
      rows.map (·.map (cellOut pyFloat norm render o)) := by
  unfold exportGrid
  rw [List.map_map]
  apply List.map_congr_left
  intro r hr
  simp only [Function.comp_def]
  rw [dataRow_eq pyFloat norm o header r hn (hl r hr).symm, List.map_map]
  rfl

theorem mem_revIf {α} (b : Bool) (l : List α) (x : α) : x ∈ (if b then l.reverse else l) ↔ x ∈ l := by
  cases b <;> simp

/-- the exported table of a rectangular grid (distinct header cells in header mode) is `expectedGrid` -/
theorem export_convert (pyFloat : Text → FloatCls ν) (norm : Text → Text) (render : ν → Text) (o : Opts)
    (grid : List (List Text)) (w : Nat) (hne : grid ≠ []) (hw : 1 ≤ w) (hrect : ∀ r ∈ grid, r.length = w)
    (hdistinct : o.noHeader = false → ∀ header ∈ grid.head?, header.Nodup) :
    ∃ table, convert pyFloat norm o grid = .ok table ∧
      exportGrid render (padTable table) = expectedGrid pyFloat norm render o grid := by
  cases grid with
  | nil => exact absurd rfl hne
  | cons first rest =>
    have hfirst : first.length = w := hrect first (by simp)
    cases hnh : o.noHeader with
    | true =>
      refine ⟨_, by simp only [convert, hnh, if_true]; rfl, ?_⟩
      simp only [expectedGrid, hnh, if_true]
      have hl : ∀ r ∈ (if o.reverse then (first :: rest).reverse else first :: rest),
          r.length = (List.range first.length).length := by
        intro r hr
        rw [mem_revIf] at hr
        rw [List.length_range, hfirst]; exact hrect r hr
      rw [padTable_rect _ w hw]
      · exact export_dataRows pyFloat norm render o (List.range first.length) List.nodup_range _ hl
      · intro r hr
        simp only [List.mem_map] at hr
        obtain ⟨r0, hr0, rfl⟩ := hr
        rw [dataRow_eq pyFloat norm o _ r0 List.nodup_range (hl r0 hr0).symm, List.length_map]
        rw [mem_revIf] at hr0
        exact hrect r0 hr0
    | false =>
      have hnd : first.Nodup := hdistinct hnh first (by simp)
      refine ⟨_, by simp only [convert, hnh, Bool.false_eq_true, if_false]; rfl, ?_⟩
      simp only [expectedGrid, hnh, Bool.false_eq_true, if_false]
      have hl : ∀ r ∈ (if o.reverse then rest.reverse else rest), r.length = first.length := by
        intro r hr
        rw [mem_revIf] at hr
        rw [hfirst]; exact hrect r (by simp [hr])
      rw [padTable_rect _ w hw]
      · have := export_dataRows pyFloat norm render o first hnd _ hl
        simp only [exportGrid, List.map_cons, List.map_map] at this ⊢
        rw [this]
        congr 1
        simp [Function.comp_def, exportCell]
      · intro r hr
        simp only [List.mem_cons, List.mem_map] at hr
        rcases hr with rfl | ⟨r0, hr0, rfl⟩
        · simpa using hfirst
        · rw [dataRow_eq pyFloat norm o _ r0 hnd (hl r0 hr0).symm, List.length_map]
          rw [mem_revIf] at hr0
          exact hrect r0 (by simp [hr0])

end NumbersModel.Csv
