/-
Helper lemmas for C06 (Model/Layout.lean).
-/
import NumbersModel.Model.Layout
import Mathlib.Data.List.Nodup
import Mathlib.Data.List.Perm.Basic
import Mathlib.Data.List.Flatten
namespace NumbersModel.Layout
open NumbersModel

/-! ### dict -/
section dict
variable {κ β ε : Type} [DecidableEq κ]

theorem dictGet?_dictSet (d : List (κ × β)) (k : κ) (v : β) (q : κ) :
    dictGet? (dictSet d k v) q = if k = q then some v else dictGet? d q := by
  induction d with
  | nil => simp [dictSet, dictGet?]
  | cons a r ih =>
    obtain ⟨k', v'⟩ := a
    simp only [dictSet]
    by_cases h : k' = k
    · subst h
      simp only [if_true, dictGet?]
      by_cases hq : k' = q <;> simp [hq]
    · simp only [if_neg h, dictGet?, ih]
      by_cases hq : k' = q
      · subst hq
        simp [Ne.symm h]
      · simp [hq]

theorem dictGet?_eq_none_iff (d : List (κ × β)) (q : κ) : dictGet? d q = none ↔ q ∉ dictKeys d := by
  induction d with
  | nil => simp [dictGet?, dictKeys]
  | cons a r ih =>
    obtain ⟨k', v'⟩ := a
    simp only [dictGet?, dictKeys, List.map_cons, List.mem_cons, not_or]
    by_cases h : k' = q
    · simp [h]
    · simp only [if_neg h, ih, dictKeys]
      constructor
      · intro hh; exact ⟨fun e => h e.symm, hh⟩
      · intro hh; exact hh.2

theorem dictKeys_dictSet_fresh (d : List (κ × β)) (k : κ) (v : β) (h : k ∉ dictKeys d) :
    dictKeys (dictSet d k v) = dictKeys d ++ [k] := by
  induction d with
  | nil => rfl
  | cons a r ih =>
    simp only [dictKeys, List.map_cons, List.mem_cons, not_or] at h
    simp only [dictSet, dictKeys, List.map_cons, List.cons_append]
    rw [if_neg (fun e => h.1 e.symm)]
    simp only [List.map_cons]
    congr 1
    exact ih h.2

/-- a fold of assignments `d[f e] = g e` over a list -/
def foldSet (f : ε → κ) (g : ε → β) (l : List ε) (d : List (κ × β)) : List (κ × β) :=
  l.foldl (fun d e => dictSet d (f e) (g e)) d

theorem foldSet_get_not_mem (f : ε → κ) (g : ε → β) (l : List ε) (d : List (κ × β)) (q : κ)
    (h : q ∉ l.map f) : dictGet? (foldSet f g l d) q = dictGet? d q := by
  induction l generalizing d with
  | nil => rfl
  | cons a r ih =>
    simp only [List.map_cons, List.mem_cons, not_or] at h
    simp only [foldSet, List.foldl_cons]
    have := ih (dictSet d (f a) (g a)) h.2
    simp only [foldSet] at this
    rw [this, dictGet?_dictSet, if_neg (fun e => h.1 e.symm)]

theorem foldSet_get_mem (f : ε → κ) (g : ε → β) (l : List ε) (d : List (κ × β))
    (hn : (l.map f).Nodup) (e : ε) (he : e ∈ l) : dictGet? (foldSet f g l d) (f e) = some (g e) := by
  induction l generalizing d with
  | nil => cases he
  | cons a r ih =>
    simp only [List.map_cons, List.nodup_cons] at hn
    simp only [foldSet, List.foldl_cons]
    rcases List.mem_cons.mp he with rfl | hr
    · have := foldSet_get_not_mem f g r (dictSet d (f e) (g e)) (f e) hn.1
      simp only [foldSet] at this
      rw [this, dictGet?_dictSet, if_pos rfl]
    · have := ih (dictSet d (f a) (g a)) hn.2 hr
      simpa only [foldSet] using this

/-- with pairwise distinct keys, what a key reads after the fold does not depend on the order of the
    assignments. -/
theorem foldSet_perm (f : ε → κ) (g : ε → β) (l l' : List ε) (d : List (κ × β)) (hn : (l.map f).Nodup)
    (hp : l'.Perm l) (q : κ) : dictGet? (foldSet f g l' d) q = dictGet? (foldSet f g l d) q := by
  have hn' : (l'.map f).Nodup := (hp.map f).nodup_iff.mpr hn
  by_cases hq : q ∈ l.map f
  · obtain ⟨e, he, rfl⟩ := List.mem_map.mp hq
    rw [foldSet_get_mem f g l d hn e he, foldSet_get_mem f g l' d hn' e (hp.mem_iff.mpr he)]
  · have hq' : q ∉ l'.map f := fun h => hq ((hp.map f).mem_iff.mp h)
    rw [foldSet_get_not_mem f g l d q hq, foldSet_get_not_mem f g l' d q hq']

theorem foldSet_keys (f : ε → κ) (g : ε → β) (l : List ε) (d : List (κ × β))
    (hn : (dictKeys d ++ l.map f).Nodup) : dictKeys (foldSet f g l d) = dictKeys d ++ l.map f := by
  induction l generalizing d with
  | nil => simp [foldSet]
  | cons a r ih =>
    simp only [foldSet, List.foldl_cons]
    have hfresh : f a ∉ dictKeys d := by
      intro hm
      rw [List.nodup_append] at hn
      exact hn.2.2 (f a) hm (f a) (by simp) rfl
    have h2 := ih (dictSet d (f a) (g a)) (by
      rw [dictKeys_dictSet_fresh d (f a) (g a) hfresh]
      simpa [List.append_assoc] using hn)
    simp only [foldSet] at h2
    rw [h2, dictKeys_dictSet_fresh d (f a) (g a) hfresh]
    simp
end dict

/-! ### `add_table` -/
section index
variable {ν : Type} [DecidableEq ν]

theorem addTableGo_byKey (l : List (Entry ν)) (i mk : Nat) (st : Index ν) :
    (addTableGo l i mk st).byKey = foldSet (·.key) (·.value) l st.byKey := by
  induction l generalizing i mk st with
  | nil => rfl
  | cons e r ih => simp only [addTableGo, ih, foldSet, List.foldl_cons]

theorem addTableGo_byValue (l : List (Entry ν)) (i mk : Nat) (st : Index ν) :
    (addTableGo l i mk st).byValue = foldSet (·.value) (·.key) l st.byValue := by
  induction l generalizing i mk st with
  | nil => rfl
  | cons e r ih => simp only [addTableGo, ih, foldSet, List.foldl_cons]

theorem addTableGo_keyIndex_not_mem (l : List (Entry ν)) (i mk : Nat) (st : Index ν) (q : Nat)
    (h : q ∉ l.map (·.key)) : dictGet? (addTableGo l i mk st).keyIndex q = dictGet? st.keyIndex q := by
  induction l generalizing i mk st with
  | nil => rfl
  | cons e r ih =>
    simp only [List.map_cons, List.mem_cons, not_or] at h
    simp only [addTableGo]
    rw [ih _ _ _ h.2]
    simp only [dictGet?_dictSet]
    rw [if_neg (fun x => h.1 x.symm)]

theorem addTableGo_keyIndex_mem (l : List (Entry ν)) (i mk : Nat) (st : Index ν)
    (hn : (l.map (·.key)).Nodup) (j : Nat) (e : Entry ν) (he : l[j]? = some e) :
    dictGet? (addTableGo l i mk st).keyIndex e.key = some (i + j) := by
  induction l generalizing i mk st j with
  | nil => simp at he
  | cons a r ih =>
    simp only [List.map_cons, List.nodup_cons] at hn
    simp only [addTableGo]
    cases j with
    | zero =>
      simp only [List.getElem?_cons_zero, Option.some.injEq] at he
      subst he
      rw [addTableGo_keyIndex_not_mem r _ _ _ _ hn.1]
      simp [dictGet?_dictSet]
    | succ j =>
      simp only [List.getElem?_cons_succ] at he
      rw [ih _ _ _ hn.2 j he]
      congr 1; omega

/-- what `next_key` is: one more than the largest key seen (or than the starting maximum). -/
theorem addTableGo_nextKey (l : List (Entry ν)) (i mk : Nat) (st : Index ν) :
    let nk := (addTableGo l i mk st).nextKey
    (∀ e ∈ l, e.key < nk) ∧ mk < nk ∧ (nk = mk + 1 ∨ ∃ e ∈ l, nk = e.key + 1) := by
  induction l generalizing i mk st with
  | nil => simp [addTableGo]
  | cons a r ih =>
    simp only [addTableGo]
    by_cases hk : a.key > mk
    · rw [if_pos hk]
      obtain ⟨h1, h2, h3⟩ := ih (i + 1) a.key
        { st with byKey := dictSet st.byKey a.key a.value, keyIndex := dictSet st.keyIndex a.key i,
                  byValue := dictSet st.byValue a.value a.key }
      refine ⟨?_, by omega, ?_⟩
      · intro e he
        rcases List.mem_cons.mp he with rfl | hr
        · exact h2
        · exact h1 e hr
      · rcases h3 with h3 | ⟨e, he, h3⟩
        · right; exact ⟨a, by simp, h3⟩
        · right; exact ⟨e, List.mem_cons_of_mem _ he, h3⟩
    · rw [if_neg hk]
      obtain ⟨h1, h2, h3⟩ := ih (i + 1) mk
        { st with byKey := dictSet st.byKey a.key a.value, keyIndex := dictSet st.keyIndex a.key i,
                  byValue := dictSet st.byValue a.value a.key }
      refine ⟨?_, h2, ?_⟩
      · intro e he
        rcases List.mem_cons.mp he with rfl | hr
        · omega
        · exact h1 e hr
      · rcases h3 with h3 | ⟨e, he, h3⟩
        · left; exact h3
        · right; exact ⟨e, List.mem_cons_of_mem _ he, h3⟩
end index

/-! ### row index → stored record -/
section rows
variable {ρ : Type}

theorem mapRowInfos_eq (base : Nat) (rs : List (RowInfo ρ)) (idx : Nat) (m : RowMap) :
    mapRowInfos base rs idx m =
      (mapHeadersPinned (rs.map (fun r => base + r.tileRowIndex)) idx m, idx + rs.length) := by
  induction rs generalizing idx m with
  | nil => rfl
  | cons r rest ih =>
    simp only [mapRowInfos, ih, List.map_cons, mapHeadersPinned, List.length_cons]
    congr 1; omega

theorem mapHeadersPinned_append (a b : List Nat) (idx : Nat) (m : RowMap) :
    mapHeadersPinned (a ++ b) idx m = mapHeadersPinned b (idx + a.length) (mapHeadersPinned a idx m) := by
  induction a generalizing idx m with
  | nil => rfl
  | cons x r ih =>
    simp only [List.cons_append, mapHeadersPinned, ih, List.length_cons]
    congr 1; omega

/-- the nested loops over tiles and row-infos assign, in storage order, position `k` to the row the
    `k`-th record declares. -/
theorem mapTiles_eq (ts : Nat) (tiles : List (Tile ρ)) (idx : Nat) (m : RowMap) :
    mapTiles ts tiles idx m = mapHeadersPinned (declaredRows ts tiles) idx m := by
  induction tiles generalizing idx m with
  | nil => rfl
  | cons t rest ih =>
    simp only [mapTiles, mapRowInfos_eq, ih, declaredRows, List.map_cons, List.flatten_cons,
      mapHeadersPinned_append, List.length_map]

theorem mapHeaders_not_mem (ks : List Nat) (idx : Nat) (m : RowMap) (q : Nat) (h : q ∉ ks) :
    dictGet? (mapHeadersPinned ks idx m) q = dictGet? m q := by
  induction ks generalizing idx m with
  | nil => rfl
  | cons k r ih =>
    simp only [List.mem_cons, not_or] at h
    simp only [mapHeadersPinned]
    rw [ih _ _ h.2, dictGet?_dictSet, if_neg (fun e => h.1 e.symm)]

theorem mapHeaders_mem (ks : List Nat) (idx : Nat) (m : RowMap) (hn : ks.Nodup) (j : Nat) (q : Nat)
    (hj : ks[j]? = some q) : dictGet? (mapHeadersPinned ks idx m) q = some (some (idx + j)) := by
  induction ks generalizing idx m j with
  | nil => simp at hj
  | cons k r ih =>
    simp only [List.nodup_cons] at hn
    simp only [mapHeadersPinned]
    cases j with
    | zero =>
      simp only [List.getElem?_cons_zero, Option.some.injEq] at hj
      subst hj
      rw [mapHeaders_not_mem r _ _ _ hn.1, dictGet?_dictSet, if_pos rfl]
      rfl
    | succ j =>
      simp only [List.getElem?_cons_succ] at hj
      rw [ih _ _ hn.2 j hj]
      congr 2; omega

theorem initRowMap_get (n q : Nat) : dictGet? (initRowMap n) q = if q < n then some none else none := by
  unfold initRowMap
  induction n with
  | zero => simp [dictGet?]
  | succ n ih =>
    rw [List.range_succ, List.map_append]
    have happ : ∀ (a b : RowMap), dictGet? (a ++ b) q = (dictGet? a q).or (dictGet? b q) := by
      intro a b
      induction a with
      | nil => simp [dictGet?]
      | cons x r ihx =>
        obtain ⟨k, v⟩ := x
        simp only [List.cons_append, dictGet?]
        by_cases hk : k = q <;> simp [hk, ihx]
    rw [happ, ih]
    by_cases h : q < n
    · simp [h, Nat.lt_succ_of_lt h]
    · simp only [if_neg h, List.map_cons, List.map_nil, dictGet?, Option.none_or]
      by_cases h2 : n = q
      · subst h2; simp
      · simp only [if_neg h2]
        rw [if_neg (by omega)]

/-- the stored records as (declared row, payload) pairs in storage order -/
def recs (ts : Nat) (tiles : List (Tile ρ)) : List (Nat × ρ) :=
  (tiles.map (fun t => t.rowInfos.map (fun r => (t.tileid * ts + r.tileRowIndex, r.payload)))).flatten

theorem recs_fst (ts : Nat) (tiles : List (Tile ρ)) : (recs ts tiles).map Prod.fst = declaredRows ts tiles := by
  simp only [recs, declaredRows, List.map_flatten, List.map_map]
  congr 1
  apply List.map_congr_left
  intro t _
  simp [Function.comp_def]

theorem recs_snd (ts : Nat) (tiles : List (Tile ρ)) : (recs ts tiles).map Prod.snd = storageBuffers tiles := by
  simp only [recs, storageBuffers, List.map_flatten, List.map_map]
  congr 1
  apply List.map_congr_left
  intro t _
  simp [Function.comp_def]

theorem mem_recs (ts : Nat) (tiles : List (Tile ρ)) (t : Tile ρ) (ht : t ∈ tiles) (r : RowInfo ρ)
    (hr : r ∈ t.rowInfos) : (t.tileid * ts + r.tileRowIndex, r.payload) ∈ recs ts tiles := by
  simp only [recs, List.mem_flatten, List.mem_map]
  exact ⟨_, ⟨t, ht, rfl⟩, List.mem_map.mpr ⟨r, hr, rfl⟩⟩
end rows

/-! ### cell offsets -/

theorem nextEnd_narrow_wide (len : Nat) (offs : List Int) :
    nextEnd len (offs.map narrowOf) = nextEnd len (offs.map (· * 4)) := by
  induction offs with
  | nil => rfl
  | cons x r ih =>
    simp only [List.map_cons, nextEnd, narrowOf]
    by_cases hx : x < 0
    · rw [if_pos hx, if_neg (by omega), if_neg (by omega), ih]
    · rw [if_neg hx, if_pos (by omega), if_pos (by omega)]; omega

theorem rowCells_narrow_wide (buf : Bytes) (offs : List Int) (n : Nat) :
    rowCells buf (offs.map narrowOf) n = rowCells buf (offs.map (· * 4)) n := by
  induction offs generalizing n with
  | nil => rfl
  | cons x r ih =>
    cases n with
    | zero => rfl
    | succ n =>
      simp only [List.map_cons, rowCells, ih, nextEnd_narrow_wide]
      congr 1
      by_cases hx : x < 0
      · have e : narrowOf x = -1 := by simp [narrowOf, hx]
        rw [e, if_pos (by omega), if_pos (by omega)]
      · have e : narrowOf x = x * 4 := by simp only [narrowOf, if_neg hx]; omega
        rw [e]

theorem unpackH_packH (l : List Int) (b : Bytes) (h : packH l = .ok b) : unpackH b = .ok l := by
  induction l generalizing b with
  | nil => simp only [packH, Except.ok.injEq] at h; subst h; rfl
  | cons v r ih =>
    simp only [packH] at h
    split at h
    · cases h
    · rename_i hv
      cases hr : packH r with
      | error e => simp [hr, Except.map] at h
      | ok t =>
        simp only [hr, Except.map, Except.ok.injEq] at h
        subst h
        simp only [unpackH, ih t hr, Except.map]
        congr 2
        simp only [UInt8.toNat_ofNat']
        by_cases hneg : v < 0
        · simp only [if_pos hneg]
          have : ((v + 65536).toNat % 256 % 256 + 256 * ((v + 65536).toNat / 256 % 256)) = (v + 65536).toNat := by omega
          rw [this]
          rw [if_pos (by omega)]
          omega
        · simp only [if_neg hneg]
          have : (v.toNat % 256 % 256 + 256 * (v.toNat / 256 % 256)) = v.toNat := by omega
          rw [this]
          rw [if_neg (by omega)]
          omega

/-! ### object store -/
section store
variable {α : Type}

/-- all segments in traversal order, with the member name -/
def flatSegs (members : List (Member α)) : List (String × Nat × α) :=
  members.flatMap (fun m => m.2.map (fun s => (m.1, s.1, s.2)))

theorem fillStore_go (members : List (Member α)) (st : Store α) :
    members.foldl (fun st m => m.2.foldl (fun st s => storeObject st m.1 s.1 s.2) st) st =
      { objects := foldSet (·.2.1) (·.2.2) (flatSegs members) st.objects,
        fileOf := foldSet (·.2.1) (·.1) (flatSegs members) st.fileOf } := by
  induction members generalizing st with
  | nil => rfl
  | cons m rest ih =>
    simp only [List.foldl_cons, ih, flatSegs, List.flatMap_cons, foldSet, List.foldl_append]
    have inner : ∀ (segs : List (Nat × α)) (st : Store α),
        segs.foldl (fun st s => storeObject st m.1 s.1 s.2) st =
          { objects := (segs.map (fun s => (m.1, s.1, s.2))).foldl (fun d e => dictSet d e.2.1 e.2.2) st.objects,
            fileOf := (segs.map (fun s => (m.1, s.1, s.2))).foldl (fun d e => dictSet d e.2.1 e.1) st.fileOf } := by
      intro segs
      induction segs with
      | nil => intro st; rfl
      | cons s r ihs => intro st; simp only [List.foldl_cons, List.map_cons]; rw [ihs]; rfl
    rw [inner]

theorem fillStore_eq (members : List (Member α)) :
    fillStore members =
      { objects := foldSet (·.2.1) (·.2.2) (flatSegs members) [],
        fileOf := foldSet (·.2.1) (·.1) (flatSegs members) [] } := by
  unfold fillStore
  rw [fillStore_go]

theorem flatSegs_ids (members : List (Member α)) : (flatSegs members).map (·.2.1) = memberIds members := by
  simp only [flatSegs, memberIds, List.flatMap, List.map_flatten, List.map_map]
  congr 1
  apply List.map_congr_left
  intro m _
  simp [Function.comp_def]

theorem maxKey_spec (d : List (Nat × α)) (m : Nat) (h : maxKey d = .ok m) :
    m ∈ dictKeys d ∧ ∀ k ∈ dictKeys d, k ≤ m := by
  cases d with
  | nil => cases h
  | cons a r =>
    obtain ⟨k, v⟩ := a
    simp only [maxKey, Except.ok.injEq] at h
    subst h
    have gen : ∀ (r : List (Nat × α)) (k0 : Nat),
        let m := r.foldl (fun m kv => if kv.1 > m then kv.1 else m) k0
        (m = k0 ∨ m ∈ dictKeys r) ∧ k0 ≤ m ∧ ∀ k ∈ dictKeys r, k ≤ m := by
      intro r
      induction r with
      | nil => intro k0; simp [dictKeys]
      | cons x r ih =>
        intro k0
        simp only [List.foldl_cons, dictKeys, List.map_cons, List.mem_cons]
        by_cases hx : x.1 > k0
        · rw [if_pos hx]
          obtain ⟨h1, h2, h3⟩ := ih x.1
          simp only [dictKeys] at h1 h3
          refine ⟨?_, by omega, ?_⟩
          · rcases h1 with h1 | h1
            · right; left; exact h1
            · right; right; exact h1
          · intro k hk
            rcases hk with rfl | hk
            · exact h2
            · exact h3 k hk
        · rw [if_neg hx]
          obtain ⟨h1, h2, h3⟩ := ih k0
          simp only [dictKeys] at h1 h3
          refine ⟨?_, h2, ?_⟩
          · rcases h1 with h1 | h1
            · left; exact h1
            · right; right; exact h1
          · intro k hk
            rcases hk with rfl | hk
            · omega
            · exact h3 k hk
    obtain ⟨h1, h2, h3⟩ := gen r k
    simp only [dictKeys, List.map_cons, List.mem_cons]
    refine ⟨?_, ?_⟩
    · rcases h1 with h1 | h1
      · left; exact h1
      · right; exact h1
    · intro q hq
      rcases hq with rfl | hq
      · exact h2
      · exact h3 q hq
end store

end NumbersModel.Layout
