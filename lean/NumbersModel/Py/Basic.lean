/-
Python-semantics prelude.  Core Lean only (no Mathlib) so that the driver links.

`PyExc` is the small enum of exception classes the models can produce; `PyM` is the
result type of every modelled function that can raise.  Partial Python operations
(`l[i]`, `pop()`, `int(s)`, ...) return `PyM`, never a totalising default.
-/
namespace NumbersModel

inductive PyExc where
  | IndexError | KeyError | ValueError | TypeError | StructError | TokenizerError
  | FileError | FileFormatError | UnsupportedError | AttributeError
  | BadZipFile | ZlibError | RuntimeError | OutOfFuel
  | Other (name : String)
  deriving DecidableEq, Repr, Inhabited

def PyExc.name : PyExc → String
  | .IndexError => "IndexError" | .KeyError => "KeyError" | .ValueError => "ValueError"
  | .TypeError => "TypeError" | .StructError => "error" | .TokenizerError => "TokenizerError"
  | .FileError => "FileError" | .FileFormatError => "FileFormatError"
  | .UnsupportedError => "UnsupportedError" | .AttributeError => "AttributeError"
  | .BadZipFile => "BadZipFile" | .ZlibError => "error" | .RuntimeError => "RuntimeError"
  | .OutOfFuel => "OutOfFuel" | .Other n => n

abbrev PyM := Except PyExc

instance instDecidableEqPyM {α} [DecidableEq α] : DecidableEq (PyM α)
  | .ok a, .ok b =>
    if h : a = b then isTrue (by rw [h]) else isFalse (fun h' => h (by injection h'))
  | .error a, .error b =>
    if h : a = b then isTrue (by rw [h]) else isFalse (fun h' => h (by injection h'))
  | .ok _, .error _ => isFalse (fun h => by cases h)
  | .error _, .ok _ => isFalse (fun h => by cases h)

abbrev Text := List Char
abbrev Bytes := List UInt8

/-- Python `l[i]` for an `int` index (negative indices wrap once; IndexError outside). -/
def pyIndex {α} (l : List α) (i : Int) : PyM α :=
  let n : Int := l.length
  let j := if i < 0 then i + n else i
  if j < 0 ∨ j ≥ n then .error .IndexError
  else match l[j.toNat]? with
    | some x => .ok x
    | none => .error .IndexError

/-- Python slice bound normalisation for step 1: `None` is passed as `none`. -/
def pyClamp (n : Nat) (i : Option Int) (dflt : Nat) : Nat :=
  match i with
  | none => dflt
  | some i =>
    let j := if i < 0 then i + (n : Int) else i
    if j < 0 then 0 else if j > n then n else j.toNat

/-- Python `l[a:b]`. Never raises. -/
def pySlice {α} (l : List α) (a b : Option Int) : List α :=
  let lo := pyClamp l.length a 0
  let hi := pyClamp l.length b l.length
  (l.drop lo).take (hi - lo)

/-- Python `del l[a:b]`. -/
def pyDelSlice {α} (l : List α) (a b : Option Int) : List α :=
  let lo := pyClamp l.length a 0
  let hi := pyClamp l.length b l.length
  if hi ≤ lo then l else l.take lo ++ l.drop hi

/-- Python `l[a:a] = xs` / `l.insert`-style splice (slice assignment with equal ends). -/
def pyInsertAt {α} (l : List α) (a : Int) (xs : List α) : List α :=
  let lo := pyClamp l.length (some a) 0
  l.take lo ++ xs ++ l.drop lo

/-- Python `l.pop()` → (popped, rest) where the list is stored with its *last* element last. -/
def pyPop {α} (l : List α) : PyM (α × List α) :=
  match l.reverse with
  | [] => .error .IndexError
  | x :: r => .ok (x, r.reverse)

/-- decimal digits of a natural number, most significant first (`str(n)` for n ≥ 0). -/
def natDigitsAux : Nat → Nat → List Char → List Char
  | 0, _, acc => acc
  | fuel + 1, n, acc =>
    let acc' := Char.ofNat (48 + n % 10) :: acc
    if n / 10 = 0 then acc' else natDigitsAux fuel (n / 10) acc'

def natStr (n : Nat) : Text := natDigitsAux (n + 1) n []

def intStr (i : Int) : Text :=
  if i < 0 then '-' :: natStr i.natAbs else natStr i.toNat

def Text.ofString (s : String) : Text := s.toList
def Text.toStr (t : Text) : String := String.ofList t

end NumbersModel
