/-
`struct.pack` / `struct.unpack` for the little-endian integer formats the storage code uses
(`"<i"`, `"<I"`-style unsigned view, `"<H"`, `"<h"`), and Python byte slicing `b[a:a+w]`.
Core Lean only.  Doubles (`"<d"`) are never interpreted by the models: they cross the
boundary as 8 opaque bytes.
-/
import NumbersModel.Py.Basic
namespace NumbersModel

/-- the `w` little-endian bytes of `n` (low byte first); `n` is reduced modulo `256^w`. -/
def leBytes : Nat → Nat → Bytes
  | 0, _ => []
  | w + 1, n => UInt8.ofNat (n % 256) :: leBytes w (n / 256)

/-- value of a little-endian byte string. -/
def leNat : Bytes → Nat
  | [] => 0
  | b :: r => b.toNat + 256 * leNat r

/-- Python `buffer[off:off+w]` for non-negative `off` (clamps, never raises). -/
def bslice (buf : Bytes) (off w : Nat) : Bytes := (buf.drop off).take w

/-- the four little-endian two's-complement bytes of an int32. -/
def encI32 (v : Int) : Bytes := leBytes 4 (if v < 0 then (v + 4294967296).toNat else v.toNat)

/-- `struct.pack("<i", v)`; `struct.error` outside the int32 range. -/
def packI32 (v : Int) : PyM Bytes :=
  if v < -2147483648 ∨ v > 2147483647 then .error .StructError else .ok (encI32 v)

/-- `struct.pack("<i", x)` where `x` may be `None` (→ `struct.error`). -/
def packOptI32 : Option Int → PyM Bytes
  | none => .error .StructError
  | some v => packI32 v

/-- two's-complement reading of an unsigned 32-bit value. -/
def toSigned32 (n : Nat) : Int := if n ≥ 2147483648 then (n : Int) - 4294967296 else (n : Int)

/-- the int32 held by a 4-byte little-endian field (total on any byte list). -/
def i32OfBytes (b : Bytes) : Int := toSigned32 (leNat b)

/-- `struct.unpack("<i", b)[0]`; `struct.error` unless `len(b) == 4`. -/
def unpackI32 (b : Bytes) : PyM Int :=
  if b.length ≠ 4 then .error .StructError else .ok (i32OfBytes b)

/-- `struct.unpack("<H", b)[0]`. -/
def unpackU16 (b : Bytes) : PyM Nat :=
  if b.length ≠ 2 then .error .StructError else .ok (leNat b)

/-- `struct.pack("<h", v)`; `struct.error` outside the int16 range. -/
def packI16 (v : Int) : PyM Bytes :=
  if v < -32768 ∨ v > 32767 then .error .StructError
  else .ok (leBytes 2 (if v < 0 then (v + 65536).toNat else v.toNat))

/-- the int16 held by a 2-byte little-endian field. -/
def i16OfBytes (b : Bytes) : Int :=
  let n := leNat b
  if n ≥ 32768 then (n : Int) - 65536 else (n : Int)

end NumbersModel
