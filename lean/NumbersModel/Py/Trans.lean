/-
Run-time support for the definitions in `Gen/Translated.lean`, which are produced from the
Python source of /repo by `harness/py2lean.py` on every check run.  Core Lean only.

Each function here is the meaning the translator assigns to one Python builtin / operator on
the static types it supports (`int` ↦ `Int`, `str` ↦ `Text`, `bool` ↦ `Bool`, tuples, lists,
`Optional`).  A one-character `str` (result of `chr`, element of a `str` iteration) is a
`Text` of length one, as in Python.  Operations that can raise return `PyM`.
-/
import NumbersModel.Py.Basic
namespace NumbersModel.PyT
open NumbersModel

def zeroDiv : PyExc := .Other "ZeroDivisionError"

/-- `a // b` on ints. -/
def floordiv (a b : Int) : PyM Int := if b = 0 then .error zeroDiv else .ok (Int.fdiv a b)

/-- `a % b` on ints (sign of the divisor). -/
def mod (a b : Int) : PyM Int := if b = 0 then .error zeroDiv else .ok (Int.fmod a b)

/-- `int(a / b)` on ints: true division then truncation.  Exact whenever the quotient is exactly
    representable / |a| < 2^53 (CPython int/int is correctly rounded); the translator uses it only
    for this call shape and the bound is recorded as an assumption of the translated function. -/
def trueDivTrunc (a b : Int) : PyM Int := if b = 0 then .error zeroDiv else .ok (Int.tdiv a b)

/-- `int(ceil(a / c))` for an int `a` and a float literal `c` whose value is the integer `b`: the ceiling of the true
    quotient.  Exact whenever |a| < 2^53 / |b| (a non-integer quotient is then further from every integer than the rounding
    error of the float division); the bound is recorded as an assumption of the translated function. -/
def ceilDivFloat (a b : Int) : PyM Int := if b = 0 then .error zeroDiv else .ok (-(Int.fdiv (-a) b))

/-- `a ** b` on ints with an int result (negative exponents give a float in Python: unsupported). -/
def pow (a b : Int) : PyM Int := if b < 0 then .error (.Other "FloatResult") else .ok (a ^ b.toNat)

/-- `a & b` on ints, Python's infinite two's-complement reading of negative operands (`-(n+1)` is `~n`):
    `m & ~n = m - (m & n)`, `~m & ~n = ~(m | n)`. -/
def bitAnd (a b : Int) : Int :=
  match a, b with
  | .ofNat m, .ofNat n => ((m &&& n : Nat) : Int)
  | .ofNat m, .negSucc n => ((m - (m &&& n) : Nat) : Int)
  | .negSucc m, .ofNat n => ((n - (n &&& m) : Nat) : Int)
  | .negSucc m, .negSucc n => .negSucc (m ||| n)

/-- `a | b` on ints (two's complement as for `bitAnd`): `m | ~n = ~(n & ~m)`, `~m | ~n = ~(m & n)`. -/
def bitOr (a b : Int) : Int :=
  match a, b with
  | .ofNat m, .ofNat n => ((m ||| n : Nat) : Int)
  | .ofNat m, .negSucc n => .negSucc (n - (n &&& m))
  | .negSucc m, .ofNat n => .negSucc (m - (m &&& n))
  | .negSucc m, .negSucc n => .negSucc (m &&& n)

/-- `a << b`: `a * 2**b`; a negative count raises ValueError. -/
def shl (a b : Int) : PyM Int := if b < 0 then .error .ValueError else .ok (a * 2 ^ b.toNat)

/-- `a >> b`: floor of `a / 2**b` (also for negative `a`); a negative count raises ValueError. -/
def shr (a b : Int) : PyM Int := if b < 0 then .error .ValueError else .ok (a >>> b.toNat)

/-- `range(a, b, c)` as a list; `c = 0` raises ValueError. -/
def range3 (a b c : Int) : PyM (List Int) :=
  if c = 0 then .error .ValueError
  else
    let n : Int := if c > 0 then Int.fdiv (b - a + c - 1) c else Int.fdiv (a - b + (-c) - 1) (-c)
    .ok ((List.range n.toNat).map (fun (k : Nat) => a + (k : Int) * c))

/-- storing `x` in a protobuf `uint32` field (`Msg(field=x)`): ValueError outside `0 .. 2^32 - 1`; stands for `x`. -/
def uint32Field (x : Int) : PyM Int := if x < 0 ∨ x ≥ 2 ^ 32 then .error .ValueError else .ok x

/-- `buf[i]` on a `bytes` / `bytearray`: an int in `range(256)` -/
def byteAt (buf : Bytes) (i : Int) : PyM Int := (pyIndex buf i).map (fun x => (x.toNat : Int))

/-- `k in d` on a `dict` kept as its items in insertion order -/
def dictContains {β} (d : List (Text × β)) (k : Text) : Bool := d.any (fun e => e.1 = k)

/-- `d[k]`: KeyError for a missing key -/
def dictGet {β} (d : List (Text × β)) (k : Text) : PyM β :=
  match d.find? (fun e => e.1 = k) with
  | some e => .ok e.2
  | none => .error .KeyError

/-- `d[k] = v`: an existing key keeps its place, a new one goes to the end -/
def dictSet {β} : List (Text × β) → Text → β → List (Text × β)
  | [], k, v => [(k, v)]
  | (k', v') :: rest, k, v => if k' = k then (k', v) :: rest else (k', v') :: dictSet rest k v

/-- `bytearray(n)`: `n` zero bytes; a negative count raises ValueError. -/
def bytearrayZeros (n : Int) : PyM Bytes := if n < 0 then .error .ValueError else .ok (List.replicate n.toNat 0)

/-- `buf[i] = v` on a `bytearray`: IndexError outside the buffer (negative indices wrap once), ValueError unless
    `v` is in `range(256)`. -/
def setByte (buf : Bytes) (i : Int) (v : Int) : PyM Bytes :=
  let n : Int := buf.length
  let j := if i < 0 then i + n else i
  if j < 0 ∨ j ≥ n then .error .IndexError
  else if v < 0 ∨ v > 255 then .error .ValueError
  else .ok (buf.set j.toNat (UInt8.ofNat v.toNat))

/-- `chr(n)`; lone surrogates are not representable as a Lean `Char`. -/
def chr (n : Int) : PyM Text :=
  if n < 0 ∨ n ≥ 0x110000 then .error .ValueError
  else if 0xD800 ≤ n ∧ n ≤ 0xDFFF then .error (.Other "Surrogate")
  else .ok [Char.ofNat n.toNat]

/-- `ord(s)` -/
def ord (s : Text) : PyM Int :=
  match s with
  | [c] => .ok (c.toNat : Int)
  | _ => .error .TypeError

/-- iterating a `str` yields one-character strings -/
def strIter (s : Text) : List Text := s.map (fun c => [c])

/-- `enumerate(l)` -/
def enumerateFrom {α} : Int → List α → List (Int × α)
  | _, [] => []
  | i, x :: xs => (i, x) :: enumerateFrom (i + 1) xs

def enumerate {α} (l : List α) : List (Int × α) := enumerateFrom 0 l

/-- `range(n)` -/
def range (n : Int) : List Int := (List.range n.toNat).map (fun (k : Nat) => (Int.ofNat k))

/-- `"".join(parts)` -/
def joinEmpty (parts : List Text) : Text := parts.flatten

/-- `sep.join(parts)` -/
def join (sep : Text) : List Text → Text
  | [] => []
  | [x] => x
  | x :: xs => x ++ sep ++ join sep xs

/-- `s.rjust(width, fill)` for a one-character fill -/
def rjust (s : Text) (width : Int) (fill : Char) : Text :=
  List.replicate (width.toNat - s.length) fill ++ s

/-- `abs(x)` -/
def abs (x : Int) : Int := (x.natAbs : Int)

def maxI (a b : Int) : Int := if a ≥ b then a else b
def minI (a b : Int) : Int := if a ≤ b then a else b

/-- `x.bit_length()` -/
def bitLengthAux : Nat → Nat → Nat → Nat
  | 0, _, k => k
  | fuel + 1, n, k => if n = 0 then k else bitLengthAux fuel (n / 2) (k + 1)

def bitLength (x : Int) : Int := (bitLengthAux (x.natAbs + 1) x.natAbs 0 : Nat)

def digitChar (d : Nat) : Char := if d < 10 then Char.ofNat (48 + d) else Char.ofNat (87 + d)

def digitsAux (b : Nat) : Nat → Nat → List Char → List Char
  | 0, _, acc => acc
  | fuel + 1, n, acc => if n = 0 then acc else digitsAux b fuel (n / b) (digitChar (n % b) :: acc)

/-- `bin(x)[2:]`, `oct(x)[2:]`, `hex(x)[2:]` for `x ≥ 0` (lower-case digits; `"0"` for zero). -/
def digitsOfBase (x : Int) (b : Nat) : PyM Text :=
  if x < 0 then .error (.Other "NegativeOutsideSubset")
  else if x = 0 then .ok ['0']
  else .ok (digitsAux b (x.toNat + 1) x.toNat [])

def digitValue (c : Char) : Option Nat :=
  if '0' ≤ c ∧ c ≤ '9' then some (c.toNat - 48)
  else if 'a' ≤ c ∧ c ≤ 'z' then some (c.toNat - 87)
  else if 'A' ≤ c ∧ c ≤ 'Z' then some (c.toNat - 55)
  else none

/-- `int(s, b)` for a plain digit string (no sign, blanks, underscores or prefix: outside the subset). -/
def intOfBase (s : Text) (b : Nat) : PyM Int :=
  if s = [] then .error .ValueError
  else
    s.foldlM (fun (acc : Int) c => match digitValue c with
      | some v => if v < b then .ok (acc * b + v) else .error .ValueError
      | none => .error .ValueError) 0

/-- `str.upper()` restricted to ASCII letters (digits of `hex()` output). -/
def upperAscii (s : Text) : Text := s.map (fun c => if 'a' ≤ c ∧ c ≤ 'z' then Char.ofNat (c.toNat - 32) else c)

/-- `x in s` for two `str`: `x` occurs in `s` as a substring (the empty string occurs in every string). -/
def strIn (x : Text) : Text → Bool
  | [] => x.isEmpty
  | c :: s => x.isPrefixOf (c :: s) || strIn x s

/-- `struct.unpack("<I", b)[0]`: the little-endian value of exactly four bytes, struct.error for any other length -/
def unpackU32LE (b : Bytes) : PyM Int :=
  match b with
  | [b0, b1, b2, b3] => .ok ((b0.toNat + 256 * b1.toNat + 65536 * b2.toNat + 16777216 * b3.toNat : Nat) : Int)
  | _ => .error .StructError

/-- `struct.pack("<I", n)`: four little-endian bytes; struct.error outside `0 .. 2^32 - 1` -/
def packU32LE (n : Int) : PyM Bytes :=
  if n < 0 ∨ n ≥ 4294967296 then .error .StructError
  else .ok [UInt8.ofNat (n.toNat % 256), UInt8.ofNat (n.toNat / 256 % 256), UInt8.ofNat (n.toNat / 65536 % 256),
            UInt8.ofNat (n.toNat / 16777216 % 256)]

/-- reading an attribute of `self` that `__init__` does not set: AttributeError while it is unset -/
def attrGet {α} : Option α → PyM α
  | some a => .ok a
  | none => .error .AttributeError

/-- `s.startswith(p)` / `s.endswith(p)` for two `str` -/
def startswith (s p : Text) : Bool := p.isPrefixOf s
def endswith (s p : Text) : Bool := p.isSuffixOf s

/-- a dict built as `for chars, f in pairs: d.update(dict.fromkeys(chars, f))`: every character of every `chars` is a key,
    a later pair overwrites an earlier one.  `dispatchFind [chars₀, chars₁, …] k` is the index of the pair whose method `d[k]`
    is (`none`: `k not in d`, `d[k]` raises KeyError); a key is one character, so a text of any other length is never found. -/
def dispatchFindFrom (c : Char) : List Text → Nat → Option Nat
  | [], _ => none
  | t :: rest, i =>
    match dispatchFindFrom c rest (i + 1) with
    | some j => some j
    | none => if t.contains c then some i else none

def dispatchFind (table : List Text) (k : Text) : Option Nat :=
  match k with
  | [c] => dispatchFindFrom c table 0
  | _ => none

/-- `s.isalpha()`: not empty and every character alphabetic (`isAlpha` is `str.isalpha` of one character). -/
def strIsAlpha (isAlpha : Char → Bool) (s : Text) : Bool := !s.isEmpty && s.all isAlpha

/-- a `float` that holds a duration of a whole number of milliseconds (the double nearest to `ms / 1000` seconds), carried
    as that number.  Only the operations below are translated for it; each is exact on such doubles: comparison with an int
    (rounding to nearest is monotone and ints are representable), `math.floor(x) != x` (decided by `ms % 1000`), and `x % c`
    for an int `c` (`fmod` is exact; reached in the translated code only for whole seconds). -/
structure Millis where
  ms : Int
  deriving DecidableEq, Repr

/-- an `int` number of seconds compared with / used beside a `Millis` -/
def Millis.ofInt (c : Int) : Millis := ⟨1000 * c⟩
/-- `math.floor(x)` -/
def Millis.floor (x : Millis) : Millis := ⟨1000 * Int.fdiv x.ms 1000⟩
/-- `x % c` for an int `c` (sign of the divisor) -/
def Millis.mod (x : Millis) (c : Int) : PyM Millis :=
  if c = 0 then .error zeroDiv else .ok ⟨Int.fmod x.ms (1000 * c)⟩

/-- a sheet / table as `ItemsList` sees it: identity + current name -/
structure Item where
  id : Int
  name : Text
  deriving DecidableEq, Repr

/-- the key of `ItemsList.__getitem__`: `isinstance` dispatch over what the caller passed.
    `bool` is a subclass of `int` in Python, so `True`/`False` arrive as `int 1`/`int 0`. -/
inductive Key where
  | int (i : Int)
  | str (s : Text)
  | other
  deriving DecidableEq, Repr

def Key.isInt : Key → Bool | .int _ => true | _ => false
def Key.isStr : Key → Bool | .str _ => true | _ => false
def Key.asInt : Key → PyM Int | .int i => .ok i | _ => .error .TypeError
def Key.asStr : Key → PyM Text | .str s => .ok s | _ => .error .TypeError

end NumbersModel.PyT
