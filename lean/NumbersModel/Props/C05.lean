/-
C05 — IWA archive decoding and encoding are mutually inverse and chunking-independent.
Statements only (short proofs by reference to Lemmas/Iwa.lean) and non-vacuity examples.

Third-party functions are the fields of `e : Ext H M` (or explicit function arguments); the laws assumed
of them are hypotheses, named as in DESIGN.md:
  H1  snappy.uncompress (snappy.compress x) = x
  H2  len (snappy.compress x) < 2^24 whenever len x ≤ 65536
  H3/H4, S1/S2  protobuf parse and serialise are inverse on the headers / messages involved
                (per instance inside `SegCode`, or as global laws S1/S2 in `encode_decode_stream`)
-/
import NumbersModel.Lemmas.Iwa
import NumbersModel.Lemmas.TrIwa
namespace NumbersModel.Props.C05
open NumbersModel NumbersModel.Iwa

/-! ### varints -/

/-- every 32-bit value survives `_VarintBytes` → `_DecodeVarint32`, whatever follows it in the buffer,
    and the decoder stops exactly behind the encoding. -/
theorem varint_roundtrip (n : Nat) (rest : Bytes) (h : n < 4294967296) :
    varintDec32 (varintEnc n ++ rest) 0 = .ok (n, (varintEnc n).length) := by
  have := varintDec_enc n rest (by have : (4294967296 : Nat) < 2 ^ 70 := by norm_num
                                   omega)
  rwa [Nat.mod_eq_of_lt h] at this

/-- the same for every value the decoder accepts at all (up to ten bytes): the 32-bit mask is the only loss. -/
theorem varint_roundtrip_wide (n : Nat) (rest : Bytes) (h : n < 2 ^ 70) :
    varintDec32 (varintEnc n ++ rest) 0 = .ok (n % 4294967296, (varintEnc n).length) :=
  varintDec_enc n rest h

/-- an encoding is never empty and has at most ⌈bits/7⌉ bytes. -/
theorem varint_length (n k : Nat) (h : n < 2 ^ (7 * (k + 1))) :
    varintEnc n ≠ [] ∧ (varintEnc n).length ≤ k + 1 :=
  ⟨varintEnc_ne_nil n, varintEncAux_length (n + 1) n k (by omega) h⟩

/-! ### chunk framing -/

/-- `_decompress_all (to_buffer-framing s) = s` for every byte string `s` of any length. -/
theorem unframe_frame (compress : Bytes → Bytes) (uncompress : Bytes → PyM Bytes)
    (H1 : ∀ x, uncompress (compress x) = .ok x)
    (H2 : ∀ x : Bytes, x.length ≤ 65536 → (compress x).length < 16777216) (s : Bytes) :
    ∃ buf, frameStream compress s = .ok buf ∧ decompress uncompress buf = .ok s := by
  obtain ⟨sl, h1, h2, h3⟩ := frameStream_spec compress H2 s
  refine ⟨_, h1, ?_⟩
  rw [decompress_frames, pieces_compress _ _ H1, h2]
  intro p hp
  obtain ⟨x, hx, rfl⟩ := List.mem_map.mp hp
  exact H2 x (h3 x hx).2

/-- un-framing any sequence of chunks (each payload shorter than 2^24) yields, in order, the uncompressed
    payload of each chunk, or the payload itself where `uncompress` fails (stored chunk). -/
theorem unframe_pieces (uncompress : Bytes → PyM Bytes) (payloads : List Bytes)
    (h : ∀ p ∈ payloads, p.length < 16777216) :
    decompress uncompress (framesOf payloads) = .ok ((payloads.map (pieceOf uncompress)).flatten) :=
  decompress_frames uncompress payloads h

/-- the decoded stream does not depend on where the stream was cut into compressed chunks:
    ANY list of pieces (any number, any sizes, empty ones included) that concatenates to `s` decodes to `s`,
    i.e. to what the single-chunk file decodes to. -/
theorem chunking_independent (compress : Bytes → Bytes) (uncompress : Bytes → PyM Bytes)
    (H1 : ∀ x, uncompress (compress x) = .ok x) (s : Bytes) (pieces : List Bytes)
    (hcut : pieces.flatten = s)
    (hlen : ∀ p ∈ pieces, (compress p).length < 16777216) (hlen1 : (compress s).length < 16777216) :
    decompress uncompress (framesOf (pieces.map compress)) = .ok s ∧
    decompress uncompress (framesOf (pieces.map compress)) = decompress uncompress (framesOf [compress s]) := by
  have a : decompress uncompress (framesOf (pieces.map compress)) = .ok s := by
    rw [decompress_frames, pieces_compress _ _ H1, hcut]
    intro p hp
    obtain ⟨x, hx, rfl⟩ := List.mem_map.mp hp
    exact hlen x hx
  refine ⟨a, ?_⟩
  rw [a, show [compress s] = [s].map compress from rfl, decompress_frames, pieces_compress _ _ H1]
  · simp
  · intro p hp
    simp only [List.map_cons, List.map_nil, List.mem_singleton] at hp
    subst hp; exact hlen1

/-- the same for stored (uncompressed) chunks: pieces on which `uncompress` fails are taken as they are. -/
theorem chunking_independent_stored (uncompress : Bytes → PyM Bytes) (s : Bytes) (pieces : List Bytes)
    (hcut : pieces.flatten = s)
    (hst : ∀ p ∈ pieces, p.length < 16777216 ∧ ∃ x, uncompress p = .error x) :
    decompress uncompress (framesOf pieces) = .ok s := by
  rw [decompress_frames _ _ (fun p hp => (hst p hp).1), pieces_stored _ _ (fun p hp => (hst p hp).2), hcut]

/-- container rules: the encoder's output is a sequence of chunks, each with marker byte 0, a 3-byte length
    field equal to the payload length (which is below 2^24), holding between 1 and 65536 bytes of data,
    and the data of the chunks concatenates to the stream. -/
theorem container_rules (compress : Bytes → Bytes)
    (H2 : ∀ x : Bytes, x.length ≤ 65536 → (compress x).length < 16777216) (s : Bytes) :
    ∃ sl : List Bytes, frameStream compress s = .ok ((sl.map fun x => frameOf (compress x)).flatten) ∧
      sl.flatten = s ∧
      ∀ x ∈ sl, x ≠ [] ∧ x.length ≤ 65536 ∧
        (frameOf (compress x)).head? = some 0 ∧
        unle24 ((frameOf (compress x)).take 4) = .ok (compress x).length ∧
        (frameOf (compress x)).drop 4 = compress x ∧ (compress x).length < 16777216 := by
  obtain ⟨sl, h1, h2, h3⟩ := frameStream_spec compress H2 s
  refine ⟨sl, by rw [h1]; simp [framesOf, List.map_map, Function.comp_def], h2, fun x hx => ?_⟩
  have hl := H2 x (h3 x hx).2
  refine ⟨(h3 x hx).1, (h3 x hx).2, rfl, ?_, ?_, hl⟩
  · simpa using unle24_frame (compress x) [] hl
  · simpa using frameOf_drop4 (compress x) []

/-- H2 is needed: a payload of 2^24 bytes gets the length field 0 (`struct.pack("<I", n)[:3]` truncates). -/
theorem length_field_truncates : le24 16777216 = .ok [0, 0, 0] := by decide

/-- the library recognises its own output: `is_iwa_file` holds of every sequence of well-formed chunks. -/
theorem is_iwa_file_of_encoded (payloads : List Bytes) (h : ∀ p ∈ payloads, p.length < 16777216) :
    isIwaFile (framesOf payloads) = .ok true :=
  isIwaFile_frames payloads h

/-! ### segments -/

/-- after the length fix-up of `IWAArchiveSegment.to_buffer` every header length equals the size of the
    serialised message it describes (law of the protobuf setter as hypothesis). -/
theorem header_lengths_match {H M : Type} (e : Ext H M)
    (hset : ∀ h i v, e.infos (e.setLength h i v) = (e.infos h).modify i (fun mi => { mi with length := v }))
    (s : Seg H M) (h' : H) (hfix : fixLoop e s.objects 0 s.header = .ok h') :
    (e.infos h').length = (e.infos s.header).length ∧
    ∀ j o, s.objects[j]? = some o → j < (e.infos s.header).length →
      ∃ b mi, e.serMsg o = .ok b ∧ (e.infos h')[j]? = some mi ∧ mi.length = b.length := by
  obtain ⟨h1, _, h3⟩ := fixLoop_spec e hset s.objects 0 s.header h' hfix
  refine ⟨h1, fun j o hj hlt => ?_⟩
  simpa using h3 j o hj (by simpa using hlt)

/-- a segment and its encoding determine each other (`SegCode`: varint, header, messages; parse/serialise
    inverse on this header and these messages; announced classes = classes of the objects):
    `to_buffer` produces exactly that encoding and leaves the segment unchanged, `from_buffer` on the
    encoding followed by anything returns the segment and the remainder. -/
theorem seg_decode_encode {H M : Type} (e : Ext H M) (s : Seg H M) (enc rest : Bytes)
    (hc : SegCode e s enc) :
    segToBuffer e s = .ok (enc, s) ∧ segFromBuffer e (enc ++ rest) = .ok (s, rest) :=
  ⟨segToBuffer_code e s enc hc, segFromBuffer_code e s enc rest hc⟩

/-! ### whole files -/

/-- encode then decode: a file of one chunk whose segments have the encodings `st` is written as a
    container that `is_iwa_file` accepts, whose uncompressed stream is `st`, and that decodes to the same
    segments in the same order (for any `filename` argument). -/
theorem decode_encode {H M : Type} (e : Ext H M) (segs : List (Seg H M)) (st : Bytes) (hasName : Bool)
    (hc : StreamCode e segs st)
    (H1 : ∀ x, e.uncompress (e.compress x) = .ok x)
    (H2 : ∀ x : Bytes, x.length ≤ 65536 → (e.compress x).length < 16777216) :
    ∃ buf, fileToBuffer e [segs] = .ok buf ∧ isIwaFile buf = .ok true ∧
      decompress e.uncompress buf = .ok st ∧
      fileFromBuffer e hasName buf = .ok (if segs.isEmpty then [] else [segs]) := by
  obtain ⟨buf, h1, h2, h3, h4, h5⟩ := chunk_roundtrip e segs st hc H1 H2
  refine ⟨buf, by simp [fileToBuffer, h1, bind, Except.bind], h4, h3, ?_⟩
  unfold fileFromBuffer
  cases segs with
  | nil => simp [h5.mpr rfl]
  | cons a t =>
    have : buf ≠ [] := fun hb => by simpa using h5.mp hb
    have hne : buf.isEmpty = false := by
      cases buf with
      | nil => exact absurd rfl this
      | cons _ _ => rfl
    simp [hne, h2]

/-- decode then encode: for every container `buf` (however chunked, compressed or stored) whose uncompressed
    stream `st` is laid out as an archive stream (canonical header-length varints, complete headers, message
    bytes as long as announced), if `from_buffer` succeeds then `to_buffer` of the result succeeds and its
    uncompressed stream is `st` again, byte for byte (global protobuf laws S1/S2: serialise ∘ parse = id). -/
theorem encode_decode_stream {H M : Type} (e : Ext H M) (buf st : Bytes) (hasName : Bool)
    (f : List (List (Seg H M)))
    (H1 : ∀ x, e.uncompress (e.compress x) = .ok x)
    (H2 : ∀ x : Bytes, x.length ≤ 65536 → (e.compress x).length < 16777216)
    (S1 : ∀ b h, e.parseInfo b = .ok h → e.serInfo h = .ok b)
    (S2 : ∀ t p b m, e.parseMsg t p b = .ok m → e.serMsg m = .ok b)
    (hstream : decompress e.uncompress buf = .ok st) (hlayout : StreamLayout e st)
    (hdec : fileFromBuffer e hasName buf = .ok f) :
    ∃ buf', fileToBuffer e f = .ok buf' ∧ decompress e.uncompress buf' = .ok st ∧
      isIwaFile buf' = .ok true := by
  unfold fileFromBuffer at hdec
  cases hb : buf.isEmpty with
  | true =>
    have : buf = [] := by simpa using hb
    subst this
    simp only [List.isEmpty_nil, if_true, Except.ok.injEq] at hdec
    subst hdec
    have : st = [] := by simpa [decompress, decompressAll] using hstream.symm
    subst this
    exact ⟨[], rfl, by simp [decompress, decompressAll], by decide⟩
  | false =>
    simp only [hb, Bool.false_eq_true, if_false] at hdec
    cases hc : chunkFromBuffer e buf with
    | error x => cases hasName <;> simp [hc] at hdec
    | ok c =>
      simp only [hc, Except.ok.injEq] at hdec
      subst hdec
      simp only [chunkFromBuffer, hstream, bind, Except.bind] at hc
      have hcode := streamCode_of_decode e S1 S2 st hlayout _ c (Nat.le_refl _) hc
      obtain ⟨buf', h1, _, h3, h4, _⟩ := chunk_roundtrip e c st hcode H1 H2
      exact ⟨buf', by simp [fileToBuffer, h1, bind, Except.bind], h3, h4⟩

/-! ### non-vacuity: a toy instance of the third-party functions satisfying every law used above -/

/-- compress = prefix a 1; a header is the list of its (type, length) byte pairs; messages are their bytes. -/
def toy : Ext (List MsgInfo) Bytes where
  compress x := 1 :: x
  uncompress | 1 :: x => .ok x | _ => .error .ValueError
  parseInfo b :=
    let rec go : List UInt8 → PyM (List MsgInfo)
      | [] => .ok []
      | [_] => .error (.Other "DecodeError")
      | t :: l :: r => (go r).bind fun is => .ok (⟨t.toNat, l.toNat, 0⟩ :: is)
    go b
  serInfo h := .ok (h.map fun mi => [UInt8.ofNat mi.type, UInt8.ofNat mi.length]).flatten
  reprEmpty h := h.isEmpty
  shouldMerge _ := false
  infos h := h
  setLength h i v := h.modify i fun mi => { mi with length := v }
  known t := t == 7
  parseMsg _ _ b := .ok b
  serMsg m := .ok m

def toySeg : Seg (List MsgInfo) Bytes := ⟨[⟨7, 2, 0⟩, ⟨7, 0, 0⟩, ⟨7, 1, 0⟩], [[5, 6], [], [9]]⟩

example : varintEnc 300 = [0xAC, 0x02] ∧ varintDec32 [0xAC, 0x02, 0xFF] 0 = .ok (300, 2) := by decide
example : varintDec32 [0x80, 0x80] 0 = .error .IndexError ∧
    varintDec32 [0x80, 0x80, 0x80, 0x80, 0x80, 0x80, 0x80, 0x80, 0x80, 0x80, 0x01] 0 = .error (.Other "DecodeError") := by
  decide
example : segToBuffer toy toySeg = .ok ([6, 7, 2, 7, 0, 7, 1, 5, 6, 9], toySeg) := by decide
example : segFromBuffer toy [6, 7, 2, 7, 0, 7, 1, 5, 6, 9, 42] = .ok (toySeg, [42]) := by decide
example : fileToBuffer toy [[toySeg, toySeg]] =
    .ok [0, 21, 0, 0, 1, 6, 7, 2, 7, 0, 7, 1, 5, 6, 9, 6, 7, 2, 7, 0, 7, 1, 5, 6, 9] := by decide
example : fileFromBuffer toy true [0, 21, 0, 0, 1, 6, 7, 2, 7, 0, 7, 1, 5, 6, 9, 6, 7, 2, 7, 0, 7, 1, 5, 6, 9]
    = .ok [[toySeg, toySeg]] := by decide
/-- the same stream cut into a compressed and a stored chunk decodes to the same segments -/
example : fileFromBuffer toy true
    ([0, 5, 0, 0, 1, 6, 7, 2, 7] ++ [0, 16, 0, 0, 0, 7, 1, 5, 6, 9, 6, 7, 2, 7, 0, 7, 1, 5, 6, 9])
    = .ok [[toySeg, toySeg]] := by decide
example : SegCode toy toySeg [6, 7, 2, 7, 0, 7, 1, 5, 6, 9] :=
  ⟨[7, 2, 7, 0, 7, 1], [(⟨7, 2, 0⟩, [5, 6], [5, 6]), (⟨7, 0, 0⟩, [], []), (⟨7, 1, 0⟩, [9], [9])],
    by decide, by decide, by decide, by decide, by decide, by decide, by decide,
    ⟨⟨7, false, by decide, rfl⟩, rfl, ⟨7, false, by decide, rfl⟩, rfl, ⟨7, false, by decide, rfl⟩, rfl, trivial⟩,
    by decide⟩
/-- damaged input: wrong marker, dangling header, unknown type, a header without content -/
example : decompress toy.uncompress [1, 0, 0, 0] = .error .ValueError ∧
    decompress toy.uncompress [0, 1] = .error .StructError ∧
    isIwaFile [0, 1] = .error .StructError ∧ isIwaFile [3] = .ok false ∧ isIwaFile [] = .ok true ∧
    segFromBuffer toy [2, 8, 0] = .error notImplemented ∧
    segFromBuffer toy [0] = .error .ValueError ∧ segFromBuffer toy [] = .error .IndexError := by decide

/-! ### the clauses over the definitions REGENERATED FROM THE SOURCE (`Gen/TrIwa.lean`, harness/py2lean.py group `Iwa`)

`Gen.T.is_iwa_file`, `Gen.T.decompress_all` (the generator `IWACompressedChunk._decompress_all`: the list of what it yields),
`Gen.T.chunk_to_buffer` (`IWACompressedChunk.to_buffer` from the joined archive bytes on) and
`Gen.T.get_archive_info_and_remainder` are translated statement by statement from `iwafile.py` on every check run (Python
ints and slices; `unpack('<I', …)`, `struct.pack('<I', …)` as `PyT.unpackU32LE` / `packU32LE`; snappy and
`ArchiveInfo.FromString` are parameters, `_DecodeVarint32` is the model's `varintDec32`). -/
namespace Src
open NumbersModel.TrIwa

/-- the translated functions ARE the model's, for all byte strings and every behaviour of snappy / protobuf -/
theorem src_framing_eq_model :
    (∀ data, Gen.T.is_iwa_file data = isIwaFile data) ∧
    (∀ unc data, joinPieces (Gen.T.decompress_all unc data) = decompress unc data) ∧
    (∀ compress s, Gen.T.chunk_to_buffer compress s = frameStream compress s) :=
  ⟨is_iwa_file_eq_model, decompress_all_eq_model, chunk_to_buffer_eq_model⟩

/-- `get_archive_info_and_remainder` is the head of the model's segment reader (varint length, header bytes, remainder) -/
theorem src_archive_info_eq_model {H M : Type} (e : Ext H M) (buf : Bytes) :
    Gen.T.get_archive_info_and_remainder e.parseInfo buf = archiveInfoAndRemainder e.parseInfo buf ∧
    segFromBuffer e buf = (do
      let (h, payload) ← Gen.T.get_archive_info_and_remainder e.parseInfo buf
      if e.reprEmpty h then .error .ValueError
      else do
        let (objs, n) ← msgLoop e h payload (e.infos h) 0 []
        .ok (⟨h, objs⟩, payload.drop n)) :=
  ⟨get_archive_info_and_remainder_eq_model e.parseInfo buf, segFromBuffer_head e buf⟩

/-- `b"".join(_decompress_all(to_buffer-framing s)) = s` over the source as it is now, for every byte string of any length -/
theorem src_unframe_frame (compress : Bytes → Bytes) (uncompress : Bytes → PyM Bytes)
    (H1 : ∀ x, uncompress (compress x) = .ok x)
    (H2 : ∀ x : Bytes, x.length ≤ 65536 → (compress x).length < 16777216) (s : Bytes) :
    ∃ buf, Gen.T.chunk_to_buffer compress s = .ok buf ∧ joinPieces (Gen.T.decompress_all uncompress buf) = .ok s := by
  obtain ⟨buf, h1, h2⟩ := unframe_frame compress uncompress H1 H2 s
  exact ⟨buf, by rw [chunk_to_buffer_eq_model, h1], by rw [decompress_all_eq_model, h2]⟩

/-- chunking independence over the translated un-framer: any cut of `s` into compressed chunks decodes to `s` -/
theorem src_chunking_independent (compress : Bytes → Bytes) (uncompress : Bytes → PyM Bytes)
    (H1 : ∀ x, uncompress (compress x) = .ok x) (s : Bytes) (pieces : List Bytes)
    (hcut : pieces.flatten = s)
    (hlen : ∀ p ∈ pieces, (compress p).length < 16777216) (hlen1 : (compress s).length < 16777216) :
    joinPieces (Gen.T.decompress_all uncompress (framesOf (pieces.map compress))) = .ok s ∧
    joinPieces (Gen.T.decompress_all uncompress (framesOf (pieces.map compress))) =
      joinPieces (Gen.T.decompress_all uncompress (framesOf [compress s])) := by
  rw [decompress_all_eq_model, decompress_all_eq_model]
  exact chunking_independent compress uncompress H1 s pieces hcut hlen hlen1

/-- … and stored (uncompressed) chunks, through the translated `except Exception: yield chunk` -/
theorem src_chunking_independent_stored (uncompress : Bytes → PyM Bytes) (s : Bytes) (pieces : List Bytes)
    (hcut : pieces.flatten = s)
    (hst : ∀ p ∈ pieces, p.length < 16777216 ∧ ∃ x, uncompress p = .error x) :
    joinPieces (Gen.T.decompress_all uncompress (framesOf pieces)) = .ok s := by
  rw [decompress_all_eq_model]
  exact chunking_independent_stored uncompress s pieces hcut hst

/-- container rules over the translated `to_buffer` -/
theorem src_container_rules (compress : Bytes → Bytes)
    (H2 : ∀ x : Bytes, x.length ≤ 65536 → (compress x).length < 16777216) (s : Bytes) :
    ∃ sl : List Bytes, Gen.T.chunk_to_buffer compress s = .ok ((sl.map fun x => frameOf (compress x)).flatten) ∧
      sl.flatten = s ∧
      ∀ x ∈ sl, x ≠ [] ∧ x.length ≤ 65536 ∧
        (frameOf (compress x)).head? = some 0 ∧
        unle24 ((frameOf (compress x)).take 4) = .ok (compress x).length ∧
        (frameOf (compress x)).drop 4 = compress x ∧ (compress x).length < 16777216 := by
  rw [chunk_to_buffer_eq_model]
  exact container_rules compress H2 s

/-- the translated `is_iwa_file` recognises every sequence of well-formed chunks -/
theorem src_is_iwa_file_of_encoded (payloads : List Bytes) (h : ∀ p ∈ payloads, p.length < 16777216) :
    Gen.T.is_iwa_file (framesOf payloads) = .ok true := by
  rw [is_iwa_file_eq_model]
  exact is_iwa_file_of_encoded payloads h

/-- non-vacuity: the translated definitions run (toy snappy: one leading byte) -/
example : Gen.T.chunk_to_buffer toy.compress [5, 6, 7] = .ok [0, 4, 0, 0, 1, 5, 6, 7] := by decide
example : Gen.T.decompress_all toy.uncompress [0, 4, 0, 0, 1, 5, 6, 7, 0, 2, 0, 0, 9, 9] = .ok [[5, 6, 7], [9, 9]] := by decide
example : Gen.T.decompress_all toy.uncompress [1, 0, 0, 0] = .error .ValueError ∧
    Gen.T.decompress_all toy.uncompress [0, 1] = .error .StructError ∧
    Gen.T.is_iwa_file [0, 1] = .error .StructError ∧ Gen.T.is_iwa_file [3] = .ok false ∧ Gen.T.is_iwa_file [] = .ok true ∧
    Gen.T.is_iwa_file [0, 4, 0, 0, 1, 5, 6, 7] = .ok true := by decide

end Src

end NumbersModel.Props.C05
