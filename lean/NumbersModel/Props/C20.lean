/-
C20 — CSV import followed by CSV export reproduces the cell grid (thin: decision logic only).
`pyFloat`, `norm`, `render` are arbitrary (third-party behaviour); the numeric clause needs
`parse (render x) = x`, stated as a hypothesis where used.
-/
import NumbersModel.Model.Csv
import Mathlib.Data.List.Nodup
namespace NumbersModel.Props.C20
open NumbersModel NumbersModel.Csv

variable {ν : Type}

theorem dictSet_fresh {κ} [DecidableEq κ] (d : List (κ × Text)) (k : κ) (v : Text)
    (h : k ∉ d.map Prod.fst) : dictSet d k v = d ++ [(k, v)] := by
  induction d with
  | nil => rfl
  | cons a r ih =>
    simp only [List.map_cons, List.mem_cons, not_or] at h
    simp only [dictSet, List.cons_append]
    rw [if_neg (fun e => h.1 e.symm), ih h.2]

theorem dictZip_go {κ} [DecidableEq κ] (kvs acc : List (κ × Text))
    (hn : (acc.map Prod.fst ++ kvs.map Prod.fst).Nodup) :
    kvs.foldl (fun d kv => dictSet d kv.1 kv.2) acc = acc ++ kvs := by
  induction kvs generalizing acc with
  | nil => simp
  | cons a r ih =>
    simp only [List.foldl_cons]
    have hfresh : a.1 ∉ acc.map Prod.fst := by
      intro hm
      rw [List.nodup_append] at hn
      exact hn.2.2 a.1 hm a.1 (by simp) rfl
    rw [dictSet_fresh acc a.1 a.2 hfresh, ih]
    · simp
    · simpa [List.map_append, List.append_assoc] using hn

/-- with pairwise distinct column keys, a row survives the dict round trip
    (`dict(zip(header, row)).values() == row`): no cell is dropped, moved or merged. -/
theorem row_survives_dict {κ} [DecidableEq κ] (header : List κ) (row : List Text)
    (hn : header.Nodup) (hl : header.length = row.length) :
    (dictZip header row).map Prod.snd = row := by
  unfold dictZip
  have hk : (header.zip row).map Prod.fst = header := by
    rw [List.map_fst_zip]; omega
  rw [dictZip_go (header.zip row) [] (by simpa [hk] using hn)]
  simp only [List.nil_append]
  rw [List.map_snd_zip]; omega

/-- the defect recorded as a known finding: a repeated header cell merges two columns. -/
example : (dictZip ["h".toList, "h".toList] ["a".toList, "b".toList]).map Prod.snd = ["b".toList] := by decide

/-- text cells come back identical, character for character: whatever `float()` rejects is
    stored and exported unchanged. -/
theorem text_cells_identical (pyFloat : Text → FloatCls ν) (render : ν → Text) (v : Text)
    (h : pyFloat v = .valueError) : exportCell render (coerce pyFloat v) = v := by
  simp [coerce, h, exportCell]

/-- text that merely resembles a special float (nan, inf, 1e400 …) stays text. -/
theorem special_spellings_stay_text (pyFloat : Text → FloatCls ν) (render : ν → Text) (v : Text)
    (h : pyFloat v = .nan ∨ pyFloat v = .inf) : exportCell render (coerce pyFloat v) = v := by
  rcases h with h | h <;> simp [coerce, h, exportCell]

/-- cells that are numbers come back numerically equal (given the exporter prints re-readably). -/
theorem numbers_numerically_equal (pyFloat : Text → FloatCls ν) (render : ν → Text)
    (parse : Text → Option ν) (hr : ∀ x, parse (render x) = some x) (v : Text) (x : ν)
    (h : pyFloat v = .finite x) : parse (exportCell render (coerce pyFloat v)) = some x := by
  simp [coerce, h, exportCell, hr]

/-- every cell is one of the three cases above: the converter never raises on a cell. -/
theorem coerce_total (pyFloat : Text → FloatCls ν) (v : Text) :
    (∃ x, coerce pyFloat v = .num x ∧ pyFloat v = .finite x) ∨ coerce pyFloat v = .text v := by
  unfold coerce
  cases h : pyFloat v <;> simp

/-- whole-grid statement (header mode, no options): with distinct header cells and rectangular
    rows the exported grid has the header unchanged and every data cell as above. -/
theorem grid_roundtrip_header (pyFloat : Text → FloatCls ν) (norm : Text → Text) (render : ν → Text)
    (header : List Text) (data : List (List Text)) (hn : header.Nodup)
    (hrect : ∀ r ∈ data, r.length = header.length) :
    exportGrid render (convert pyFloat norm ⟨false, false, false⟩ (header :: data)) =
      header :: data.map (·.map (fun v => exportCell render (coerce pyFloat v))) := by
  simp only [convert, exportGrid, List.map_cons, List.map_map, Bool.false_eq_true, if_false]
  congr 1
  · simp [Function.comp_def, exportCell]
  · apply List.map_congr_left
    intro r hr
    simp only [Function.comp_def, dataRow, Bool.false_eq_true, if_false, List.map_map]
    have := row_survives_dict header r hn (hrect r hr).symm
    conv => rhs; rw [← this]
    simp [List.map_map, Function.comp_def]

/-- `--reverse` reverses exactly the data rows; `--no-header` treats every row as data. -/
theorem reverse_reverses_data (pyFloat : Text → FloatCls ν) (norm : Text → Text) (ws : Bool)
    (header : List Text) (data : List (List Text)) :
    convert pyFloat norm ⟨false, true, ws⟩ (header :: data) =
      header.map Cell.text :: (data.reverse).map (dataRow pyFloat norm ⟨false, true, ws⟩ header) := by
  simp [convert]

/-! ### the defect of the pinned commit: nan / inf reach `Table.write`, which raises ValueError -/
example : coercePinned (fun _ => (FloatCls.nan : FloatCls Nat)) "nan".toList = .error .ValueError := rfl

/-! ### non-vacuity -/
example : exportGrid (fun (n : Nat) => natStr n)
    (convert (fun v => if v = "12".toList then FloatCls.finite 12 else if v = "nan".toList then .nan else .valueError)
      id ⟨false, false, false⟩ [["a".toList, "b".toList], ["12".toList, "nan".toList], ["x,y".toList, "".toList]])
    = [["a".toList, "b".toList], ["12".toList, "nan".toList], ["x,y".toList, "".toList]] := by decide

end NumbersModel.Props.C20
