/-
C20 — CSV import followed by CSV export reproduces the cell grid.

Three layers, each with its own model and its own tie to the code:
  1. the CSV codec both tools use (`Model/CsvCodec.lean`: `csv.writer` / `csv.reader` of the excel dialect as
     CPython's `_csv.c` implements them, over a file opened with `newline=""`): `csv_codec_roundtrip`;
  2. the converter and the exporter (`Model/Csv.lean`): per-cell theorems and the whole-grid theorem
     `grid_roundtrip` for every combination of header / --no-header, --whitespace, --reverse;
  3. `main()` of csv2numbers with every external call as a parameter (`Model/CsvMain.lean`): `converter_total`,
     `converter_escapes`.
`pyFloat` (what `float(v.replace(",", ""))` does), `norm` (`re.sub(r"\s+", " ", v.strip())`) and `render` (how the
exporter prints a stored number) are arbitrary; the numeric clause needs `parse (render x) = x`, a hypothesis
where used.  Saving and reopening the document is the identity on cells here: that is C01's statement.
-/
import NumbersModel.Lemmas.Csv
import NumbersModel.Lemmas.CsvCodec
import NumbersModel.Lemmas.CsvMain
namespace NumbersModel.Props.C20
open NumbersModel NumbersModel.Csv NumbersModel.CsvCodec NumbersModel.CsvMain

variable {ν : Type}

/-! ## 1. the codec -/

/-- Whatever grid of Unicode cell texts is written with `csv.writer(dialect="excel")` (one `writerow` per row) is read
    back unchanged by `csv.reader(dialect=excel)` over a `newline=""` file, strict or not: quotes, commas, CR, LF,
    CRLF inside cells, empty cells, leading/trailing blanks, empty rows, rows that are a single empty cell.
    The only precondition is the module-wide field size limit (131072 characters by default). -/
theorem csv_codec_roundtrip (cfg : Cfg) (hit : cfg.iterFails = none) (grid : List (List Text))
    (hlim : ∀ row ∈ grid, ∀ f ∈ row, f.length ≤ cfg.limit) :
    readGrid cfg (writeGrid grid) = .ok grid := by
  rw [readGrid_eq_run]; exact run_writeGrid cfg hit grid hlim

/-- the line-by-line reader (physical lines of a `newline=""` file, EOL after each) is one pass over the characters -/
theorem reader_is_character_machine (cfg : Cfg) (t : Text) : readGrid cfg t = run cfg Rd.reset false t :=
  readGrid_eq_run cfg t

/-- the reader raises only `csv.Error` (one of its four messages), or what the file iterator raised -/
theorem reader_errors (cfg : Cfg) (t : Text) (e : PyExc) (h : readGrid cfg t = .error e) :
    e = errDelimExpected ∨ e = errUnexpectedEnd ∨ e = errNewlineInUnquoted ∨ e = errFieldLimit ∨
      cfg.iterFails = some e := by
  rcases readGrid_err h with hm | hf
  · simp only [isModelCsvError, Bool.or_eq_true, beq_iff_eq] at hm
    rcases hm with ((h1 | h2) | h3) | h4
    · exact Or.inl h1
    · exact Or.inr (Or.inl h2)
    · exact Or.inr (Or.inr (Or.inl h3))
    · exact Or.inr (Or.inr (Or.inr (Or.inl h4)))
  · exact Or.inr (Or.inr (Or.inr (Or.inr hf)))

/-- the "exception" that is none: a row that is one empty cell is written `""` (quoted) and comes back as one empty
    cell; an empty row is written as an empty line and comes back as an empty row.  Unquoted, the single empty
    cell would be the empty line, i.e. the empty row — that is why `csv_writerow` quotes it. -/
example : writeGrid [[[]]] = "\"\"\r\n".toList ∧ readGrid ⟨true, 131072, none⟩ "\"\"\r\n".toList = .ok [[[]]] := by decide
example : writeGrid [[]] = "\r\n".toList ∧ readGrid ⟨true, 131072, none⟩ "\r\n".toList = .ok [[]] := by decide
/-- non-vacuity: a hostile grid -/
example : readGrid ⟨true, 131072, none⟩
    (writeGrid [["a,b".toList, "say \"hi\"".toList], ["l1\r\nl2".toList, [], " x ".toList], [], [[]], ["\r".toList]])
    = .ok [["a,b".toList, "say \"hi\"".toList], ["l1\r\nl2".toList, [], " x ".toList], [], [[]], ["\r".toList]] := by
  decide
/-- the written text of that grid's first two rows -/
example : writeGrid [["a,b".toList, "say \"hi\"".toList], ["l1\r\nl2".toList, [], " x ".toList]]
    = "\"a,b\",\"say \"\"hi\"\"\"\r\n\"l1\r\nl2\",, x \r\n".toList := by decide
/-- malformed input: strict refuses text after a closing quote, non-strict appends it; the field limit -/
example : readGrid ⟨true, 131072, none⟩ "\"a\"b".toList = .error errDelimExpected ∧
    readGrid ⟨false, 131072, none⟩ "\"a\"b".toList = .ok [["ab".toList]] ∧
    readGrid ⟨true, 131072, none⟩ "\"a".toList = .error errUnexpectedEnd ∧
    readGrid ⟨false, 2, none⟩ "abc".toList = .error errFieldLimit ∧
    readLineList ⟨false, 9, none⟩ ["a\rb".toList] = .error errNewlineInUnquoted := by decide

/-! ## 2. converter and exporter -/

/-- with pairwise distinct column keys, a row survives the dict round trip
    (`dict(zip(header, row)).values() == row`): no cell is dropped, moved or merged. -/
theorem row_survives_dict {κ} [DecidableEq κ] (header : List κ) (row : List Text)
    (hn : header.Nodup) (hl : header.length = row.length) :
    (dictZip header row).map Prod.snd = row := dictZip_values header row hn hl

/-- the defect recorded as a known finding: a repeated header cell merges two columns. -/
example : (dictZip ["h".toList, "h".toList] ["a".toList, "b".toList]).map Prod.snd = ["b".toList] := by decide

/-- text cells come back identical, character for character: whatever `float()` rejects is
    stored and exported unchanged. -/
theorem text_cells_identical (pyFloat : Text → FloatCls ν) (render : ν → Text) (v : Text)
    (h : pyFloat v = .valueError) : exportCell render (coerce pyFloat v) = v := by
  simp [coerce, h, exportCell]

/-- text that merely resembles a special float (nan, inf, 1e400 …) stays text. -/
theorem special_spellings_stay_text (pyFloat : Text → FloatCls ν) (render : ν → Text) (v : Text)
    (h : pyFloat v = .nan ∨ pyFloat v = .inf) : exportCell render (coerce pyFloat v) = v := by
  rcases h with h | h <;> simp [coerce, h, exportCell]

/-- cells that are numbers come back numerically equal (given the exporter prints re-readably). -/
theorem numbers_numerically_equal (pyFloat : Text → FloatCls ν) (render : ν → Text)
    (parse : Text → Option ν) (hr : ∀ x, parse (render x) = some x) (v : Text) (x : ν)
    (h : pyFloat v = .finite x) : parse (exportCell render (coerce pyFloat v)) = some x := by
  simp [coerce, h, exportCell, hr]

/-- every cell is one of the three cases above: the converter never raises on a cell. -/
theorem coerce_total (pyFloat : Text → FloatCls ν) (v : Text) :
    (∃ x, coerce pyFloat v = .num x ∧ pyFloat v = .finite x) ∨ coerce pyFloat v = .text v := by
  unfold coerce
  cases h : pyFloat v <;> simp

/-- Whole-grid statement for every combination of header / --no-header, --whitespace, --reverse, over TEXT:
    let `csvText` be any CSV file text that the importer's reader parses to a rectangular grid of at least one
    column (header cells pairwise distinct in header mode — see the counter-example below).  Then
    csv2numbers followed by cat-numbers -b prints a text that `csv.reader` parses to `expectedGrid`: the header
    row unchanged, the data rows in file order (reversed under --reverse), each data cell `cellOut`, i.e.
    `exportCell render (coerce pyFloat v')` with `v'` the (whitespace-normalised) cell — which the four theorems
    above describe: text identical, special spellings identical, numbers numerically equal. -/
theorem grid_roundtrip (cfg cfg' : Cfg) (hit' : cfg'.iterFails = none)
    (pyFloat : Text → FloatCls ν) (norm : Text → Text) (render : ν → Text) (o : Opts)
    (csvText : Text) (grid : List (List Text)) (w : Nat)
    (hread : readGrid cfg csvText = .ok grid)
    (hne : grid ≠ []) (hw : 1 ≤ w) (hrect : ∀ r ∈ grid, r.length = w)
    (hdistinct : o.noHeader = false → ∀ header ∈ grid.head?, header.Nodup)
    (hlim : ∀ r ∈ expectedGrid pyFloat norm render o grid, ∀ f ∈ r, f.length ≤ cfg'.limit) :
    ∃ out, importExport cfg pyFloat norm render o csvText = .ok out ∧
      readGrid cfg' out = .ok (expectedGrid pyFloat norm render o grid) := by
  obtain ⟨table, hconv, hexp⟩ := export_convert pyFloat norm render o grid w hne hw hrect hdistinct
  refine ⟨writeGrid (exportGrid render (padTable table)), ?_, ?_⟩
  · simp only [importExport, hread, hconv]
  · rw [hexp]; exact csv_codec_roundtrip cfg' hit' _ hlim

/-- the same, starting from a grid: the CSV file is what `csv.writer` writes for it -/
theorem grid_roundtrip_written (cfg cfg' : Cfg) (hit : cfg.iterFails = none) (hit' : cfg'.iterFails = none)
    (pyFloat : Text → FloatCls ν) (norm : Text → Text) (render : ν → Text) (o : Opts)
    (grid : List (List Text)) (w : Nat)
    (hne : grid ≠ []) (hw : 1 ≤ w) (hrect : ∀ r ∈ grid, r.length = w)
    (hdistinct : o.noHeader = false → ∀ header ∈ grid.head?, header.Nodup)
    (hlim0 : ∀ r ∈ grid, ∀ f ∈ r, f.length ≤ cfg.limit)
    (hlim : ∀ r ∈ expectedGrid pyFloat norm render o grid, ∀ f ∈ r, f.length ≤ cfg'.limit) :
    ∃ out, importExport cfg pyFloat norm render o (writeGrid grid) = .ok out ∧
      readGrid cfg' out = .ok (expectedGrid pyFloat norm render o grid) :=
  grid_roundtrip cfg cfg' hit' pyFloat norm render o (writeGrid grid) grid w
    (csv_codec_roundtrip cfg hit grid hlim0) hne hw hrect hdistinct hlim

/-- `--reverse` reverses exactly the data rows; `--no-header` treats every row as data. -/
theorem reverse_reverses_data (pyFloat : Text → FloatCls ν) (norm : Text → Text) (ws : Bool)
    (header : List Text) (data : List (List Text)) :
    convert pyFloat norm ⟨false, true, ws⟩ (header :: data) =
      .ok (header.map Cell.text :: (data.reverse).map (dataRow pyFloat norm ⟨false, true, ws⟩ header)) := by
  simp [convert]

/-- the explicit exception of `grid_roundtrip` in header mode (known finding
    csv-duplicate-header-collapses-columns): with a repeated header cell the exported grid differs -/
example : importExport ⟨true, 131072, none⟩ (fun _ => (FloatCls.valueError : FloatCls Nat)) id (fun n => natStr n)
    ⟨false, false, false⟩ "h,h\r\na,b\r\n".toList = .ok "h,h\r\nb,\r\n".toList := by decide

/-! ### the defect of the pinned commit: nan / inf reach `Table.write`, which raises ValueError -/
example : coercePinned (fun _ => (FloatCls.nan : FloatCls Nat)) "nan".toList = .error .ValueError := rfl

/-! ### non-vacuity of `grid_roundtrip`: all eight option combinations on one text -/
def demoFloat (v : Text) : FloatCls Nat :=
  if v = "12".toList then .finite 12 else if v = "nan".toList then .nan else .valueError
def demoNorm (v : Text) : Text := v.filter (· ≠ ' ')
def demoText : Text := "a,\"b\r\nc\"\r\n12,nan\r\n\"x,y\", 12 \r\n".toList

example : readGrid ⟨true, 131072, none⟩ demoText =
    .ok [["a".toList, "b\r\nc".toList], ["12".toList, "nan".toList], ["x,y".toList, " 12 ".toList]] := by decide
example : importExport ⟨true, 131072, none⟩ demoFloat demoNorm natStr ⟨false, false, false⟩ demoText = .ok demoText := by
  decide
example : importExport ⟨true, 131072, none⟩ demoFloat demoNorm natStr ⟨false, true, true⟩ demoText =
    .ok "a,\"b\r\nc\"\r\n\"x,y\",12\r\n12,nan\r\n".toList := by decide
example : importExport ⟨true, 131072, none⟩ demoFloat demoNorm natStr ⟨true, true, false⟩ demoText =
    .ok "\"x,y\", 12 \r\n12,nan\r\na,\"b\r\nc\"\r\n".toList := by decide
example : importExport ⟨true, 131072, none⟩ demoFloat demoNorm natStr ⟨true, false, true⟩ demoText =
    .ok "a,\"b\r\nc\"\r\n12,nan\r\n\"x,y\",12\r\n".toList := by decide

/-! ## 3. `main()` -/

/-- Conversion either succeeds or reports a one-line error and a non-zero exit status: if the external calls raise
    only what the code handles (`Tame`: opening/reading the file raises FileNotFoundError, csv.Error, OSError,
    UnicodeError or LookupError; `Document(…)`/`table.write` do not raise; `doc.save` raises OSError;
    RuntimeError anywhere), then `main()` returns normally with nothing on stderr (exit status 0), or prints exactly one
    line to stderr and exits with status 1.  Whatever the CSV text is: malformed text is a `csv.Error`
    (`reader_errors`), an empty file and an oversize grid are refused with RuntimeError. -/
theorem converter_total (c : Classes) (o : Opts) (args : Args) (files : List (FileExt ν))
    (hv : args.version = false) (hf : files ≠ []) (ht : ∀ x ∈ files, Tame c x) :
    main fixed c o args files = .ok ⟨0, 0, 0⟩ ∨ main fixed c o args files = .ok ⟨1, 0, 1⟩ := by
  rcases main_cases c o args files hv hf with h | h | ⟨e, _, x, hx, hd | ⟨hnc, hr⟩⟩
  · exact Or.inl h
  · exact Or.inr h
  · rw [(ht x hx).derive] at hd; cases hd
  · exact absurd (tame_raised (ht x hx) hr) hnc

/-- … and precisely which exceptions leave `main()` as a traceback, for ANY behaviour of the external calls:
    only an exception raised by `Path.with_suffix` (outside the `try`), or one that is not a RuntimeError and was
    raised by `open`/the file iterator without being FileNotFoundError, csv.Error, OSError, UnicodeError or
    LookupError, by `Document(…)`, by `table.write`, or by `doc.save` without being OSError. -/
theorem converter_escapes (c : Classes) (o : Opts) (args : Args) (files : List (FileExt ν))
    (hv : args.version = false) (hf : files ≠ []) (e : PyExc) (h : main fixed c o args files = .error e) :
    ∃ x ∈ files, x.deriveOutput = .error e ∨ (¬ Caught c e ∧ RaisedBy c x e) := by
  rcases main_cases c o args files hv hf with h' | h' | ⟨e', he', x, hx, hr⟩
  · rw [h'] at h; cases h
  · rw [h'] at h; cases h
  · rw [he'] at h; cases h; exact ⟨x, hx, hr⟩

/-- `-V` prints the version and exits with status 0 -/
theorem version_exits_zero (v : Variant) (c : Classes) (o : Opts) (args : Args) (files : List (FileExt ν))
    (hv : args.version = true) : main v c o args files = .ok ⟨0, 1, 0⟩ := by
  simp [main, hv]

/-! ### witnesses: a well-behaved world, and what the pinned code did -/
def demoClasses : Classes where
  isFileNotFound e := e == .Other "FileNotFoundError"
  isCsvError e := e == .Other "Error"
  isOSError e := e == .Other "FileNotFoundError" || e == .Other "IsADirectoryError" || e == .Other "OSError"
  isUnicodeError e := e == .Other "UnicodeDecodeError"
  isLookupError e := e == .Other "LookupError" || e == .IndexError || e == .KeyError
  isRuntimeError e := e == .RuntimeError || e == .Other "RecursionError"

/-- `Document(…)` refuses more than 1 000 000 rows / 1000 columns and 0 columns with IndexError -/
def realDoc (r k : Nat) : PyM Unit := if r > 1000000 ∨ k > 1000 ∨ k = 0 then .error .IndexError else .ok ()

def demoFile (openFile : PyM Content) (saveDoc : PyM Unit := .ok ())
    (newDocument : Nat → Nat → PyM Unit := fun _ _ => .ok ()) : FileExt Nat where
  deriveOutput := .ok ()
  openFile := openFile
  fieldLimit := 131072
  pyFloat := demoFloat
  norm := demoNorm
  newDocument := newDocument
  write := fun _ _ _ => .ok ()
  saveDoc := saveDoc

def demoArgs : Args := ⟨false, some 1, 30⟩
def hdr : Opts := ⟨false, false, false⟩
def noHdr : Opts := ⟨true, false, false⟩

/-- success -/
example : main fixed demoClasses hdr demoArgs [demoFile (.ok ⟨demoText, none⟩)] = .ok ⟨0, 0, 0⟩ := by decide
/-- malformed CSV (strict reader): one line, exit 1 — fixed and pinned -/
example : main fixed demoClasses hdr demoArgs [demoFile (.ok ⟨"\"a\"b\r\n".toList, none⟩)] = .ok ⟨1, 0, 1⟩ := by decide
example : main pinned demoClasses hdr demoArgs [demoFile (.ok ⟨"\"a\"b\r\n".toList, none⟩)] = .ok ⟨1, 0, 1⟩ := by decide
/-- an empty file: the pinned code lets StopIteration (header mode) / IndexError (--no-header) escape -/
example : main pinned demoClasses hdr demoArgs [demoFile (.ok ⟨[], none⟩)] = .error stopIteration := by decide
example : main pinned demoClasses noHdr demoArgs [demoFile (.ok ⟨[], none⟩)] = .error .IndexError := by decide
example : main fixed demoClasses hdr demoArgs [demoFile (.ok ⟨[], none⟩)] = .ok ⟨1, 0, 1⟩ := by decide
example : main fixed demoClasses noHdr demoArgs [demoFile (.ok ⟨[], none⟩)] = .ok ⟨1, 0, 1⟩ := by decide
/-- a directory as input, undecodable bytes, an unwritable output: tracebacks on the pinned code -/
example : main pinned demoClasses hdr demoArgs [demoFile (.error (.Other "IsADirectoryError"))] =
    .error (.Other "IsADirectoryError") := by decide
example : main fixed demoClasses hdr demoArgs [demoFile (.error (.Other "IsADirectoryError"))] = .ok ⟨1, 0, 1⟩ := by decide
example : main pinned demoClasses hdr demoArgs [demoFile (.ok ⟨"a\r\n".toList, some (.Other "UnicodeDecodeError")⟩)] =
    .error (.Other "UnicodeDecodeError") := by decide
example : main fixed demoClasses hdr demoArgs [demoFile (.ok ⟨"a\r\n".toList, some (.Other "UnicodeDecodeError")⟩)] =
    .ok ⟨1, 0, 1⟩ := by decide
example : main pinned demoClasses hdr demoArgs [demoFile (.ok ⟨demoText, none⟩) (.error (.Other "FileNotFoundError"))] =
    .error (.Other "FileNotFoundError") := by decide
example : main fixed demoClasses hdr demoArgs [demoFile (.ok ⟨demoText, none⟩) (.error (.Other "FileNotFoundError"))] =
    .ok ⟨1, 0, 1⟩ := by decide
/-- a blank first line (a header row without cells): the pinned code asks for a table of 0 columns -/
example : main pinned demoClasses hdr demoArgs [demoFile (.ok ⟨"\r\n".toList, none⟩) (.ok ()) realDoc] = .error .IndexError := by
  decide
example : main fixed demoClasses hdr demoArgs [demoFile (.ok ⟨"\r\n".toList, none⟩) (.ok ()) realDoc] = .ok ⟨0, 0, 0⟩ := by
  decide
/-- what still escapes (the hypothesis of `converter_total` is needed): e.g. MemoryError while reading -/
example : main fixed demoClasses hdr demoArgs [demoFile (.error (.Other "MemoryError"))] = .error (.Other "MemoryError") := by
  decide
/-- `Tame` is satisfiable -/
example : Tame demoClasses (demoFile (.ok ⟨demoText, none⟩)) where
  derive := rfl
  open_ := by intro e h; cases h
  iter := by intro content e h hf; cases h; cases hf
  doc := by intro r k e h; cases h
  write := by intro r k cell e h; cases h
  save := by intro e h; cases h

end NumbersModel.Props.C20
