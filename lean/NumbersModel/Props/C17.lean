/-
C17 — Damaged or foreign files fail only with the library's own error types.
Statements only (short proofs by reference to Lemmas/Loader.lean), counter-example witnesses for the
pinned (unpatched) variant, and non-vacuity examples.

`Ext` quantifies over EVERY behaviour of every external call (pathlib, zipfile, plistlib, warnings,
is_iwa_file, IWAFile.from_buffer): each returns or raises an arbitrary exception.
-/
import NumbersModel.Lemmas.Loader
import NumbersModel.Lemmas.TrLoad
namespace NumbersModel.Props.C17
open NumbersModel NumbersModel.Loader

/-- MAIN THEOREM.  For all behaviours of the externals, loading a path (`ObjectStore(filepath)`, i.e. what
    `Document(path)` does first) returns, or raises FileError / FileFormatError / UnsupportedError, or
    re-raises a Warning that an external raised (only possible when warnings are escalated to errors). -/
theorem load_error_closed (x : Ext) :
    (∃ r, load fixed x = .ok r) ∨
    (∃ e, load fixed x = .error e ∧
      (e = .FileError ∨ e = .FileFormatError ∨ e = .UnsupportedError ∨ x.isWarning e = true)) := by
  rcases load_closed x with h | ⟨e, h, he⟩
  · exact Or.inl h
  · refine Or.inr ⟨e, h, ?_⟩
    rcases he with he | he
    · cases e <;> simp_all [isLibraryError]
    · exact Or.inr (Or.inr (Or.inr he))

/-- with warnings not escalated (no external ever raises a Warning instance) exactly the three error types remain. -/
theorem load_error_closed_no_escalation (x : Ext) (hw : ∀ e, x.isWarning e = false) :
    (∃ r, load fixed x = .ok r) ∨ load fixed x = .error .FileError ∨
      load fixed x = .error .FileFormatError ∨ load fixed x = .error .UnsupportedError := by
  rcases load_error_closed x with h | ⟨e, h, he⟩
  · exact Or.inl h
  · rcases he with rfl | rfl | rfl | he
    · exact Or.inr (Or.inl h)
    · exact Or.inr (Or.inr (Or.inl h))
    · exact Or.inr (Or.inr (Or.inr h))
    · rw [hw e] at he; cases he

/-- the same boundary statement for `IWork.open` alone. -/
theorem open_error_closed (x : Ext) :
    (∃ st, open_ fixed x = .ok st) ∨
    (∃ e, open_ fixed x = .error e ∧ (isLibraryError e = true ∨ x.isWarning e = true)) :=
  open_closed x

/-- per stage: `_store_blob` never lets an exception of `IWAFile.from_buffer`, a file without chunks or a
    segment without objects escape as anything but FileFormatError. -/
theorem store_blob_closed (x : Ext) (name : Text) (blob : Nat) (st : Store) (b : Bool)
    (hs : x.sniff blob = .ok b) :
    (∃ st', storeBlob fixed x name blob st = .ok st') ∨
      storeBlob fixed x name blob st = .error .FileFormatError :=
  storeBlob_closed x name blob st b hs

/-- per stage: `is_iwa_file` is called outside the `try`; what it raises leaves `_store_blob` unchanged
    (and is translated only by the boundary in `open`). -/
theorem store_blob_sniff_raises (v : Variant) (x : Ext) (name : Text) (blob : Nat) (st : Store) (e : PyExc)
    (hn : endsWith name ".iwa".toList = true) (hs : x.sniff blob = .error e) :
    storeBlob v x name blob st = .error e :=
  storeBlob_sniff_raises v x name blob st e hn hs

/-- per stage: `_open_zipfile` translates BadZipFile (only). -/
theorem open_zipfile_translates (r : PyM Nat) :
    openZipfile r = match r with
      | .ok z => .ok z
      | .error e => if e = .BadZipFile then .error .FileFormatError else .error e :=
  openZipfile_spec r

/-! ### a healthy document and the damaged variants of it (witnesses) -/

def props : Text := "Metadata/Properties.plist".toList
def build : Text := "Metadata/BuildVersionHistory.plist".toList
def docIwa : Text := "Index/Document.iwa".toList
def jpg : Text := "preview.jpg".toList

/-- zip 0 with four members (blob ids 0..3); Document.iwa decodes to one chunk with two archives. -/
def healthy : Ext where
  pathExists := .ok true
  suffixOk := true
  isDir _ := .ok false
  openZipPath := .ok 0
  zipNames _ := [docIwa, props, build, jpg]
  zipRead _ n := if n = docIwa then .ok 0 else if n = props then .ok 1 else if n = build then .ok 2 else .ok 3
  openZipBytes _ := .error .BadZipFile
  plistVersion _ := .ok (some "14.1".toList)
  versionOk _ := true
  warn _ := .ok ()
  sniff b := .ok (b == 0)
  decode _ _ := .ok [[(1, 1), (2000123, 3)]]
  propsExists := .ok false
  buildExists := .ok false
  propsRead := .error .FileError
  pkgSteps := []
  isOSError e := e == .Other "OSError"
  isWarning e := e == .Other "RuntimeWarning"
  depth := 40

example : load fixed healthy = .ok (3000000, 2, 4) := by decide
example : load pinned healthy = .ok (3000000, 2, 4) := by decide

/-- one flipped bit inside a member: `zipf.read` raises BadZipFile (bad CRC) -/
def badCrc : Ext := { healthy with zipRead := fun _ n => if n = jpg then .error .BadZipFile else healthy.zipRead 0 n }
/-- an empty `.iwa` member: `from_buffer(b"")` has no chunk -/
def emptyIwa : Ext := { healthy with decode := fun _ _ => .ok [] }
/-- a two-byte `.iwa` member: `is_iwa_file` raises struct.error -/
def shortIwa : Ext := { healthy with sniff := fun _ => .error .StructError }
/-- a segment whose header announces no message -/
def noObjects : Ext := { healthy with decode := fun _ _ => .ok [[(1, 0)]] }
/-- malformed XML in Properties.plist -/
def badPlist : Ext := { healthy with plistVersion := fun _ => .error (.Other "ExpatError") }
/-- no archive at all -/
def noIwa : Ext := { healthy with sniff := fun _ => .ok false }
/-- the path cannot even be probed -/
def nameTooLong : Ext := { healthy with pathExists := .error (.Other "OSError") }
/-- an encrypted document -/
def encrypted : Ext := { healthy with zipNames := fun _ => [docIwa, props, build, ".iwph".toList] }

/-- THE PROPERTY IS FALSE ON THE PINNED TREE: each damaged variant escapes with a foreign exception … -/
example : load pinned badCrc = .error .BadZipFile := by decide
example : load pinned emptyIwa = .error .IndexError := by decide
example : load pinned shortIwa = .error .StructError := by decide
example : load pinned noObjects = .error .IndexError := by decide
example : load pinned badPlist = .error (.Other "ExpatError") := by decide
example : load pinned noIwa = .error .ValueError := by decide
example : load pinned nameTooLong = .error (.Other "OSError") := by decide

/-- … and after the patch fails with a library error (the hypotheses of the theorem are satisfiable and
    each branch of its conclusion is inhabited) -/
example : load fixed badCrc = .error .FileFormatError := by decide
example : load fixed emptyIwa = .error .FileFormatError := by decide
example : load fixed shortIwa = .error .FileFormatError := by decide
example : load fixed noObjects = .error .FileFormatError := by decide
example : load fixed badPlist = .error .FileFormatError := by decide
example : load fixed noIwa = .error .FileFormatError := by decide
example : load fixed nameTooLong = .error .FileError := by decide
example : load fixed encrypted = .error .UnsupportedError ∧ load pinned encrypted = .error .UnsupportedError := by decide
example : load fixed { healthy with pathExists := .ok false } = .error .FileError := by decide
example : load fixed { healthy with suffixOk := false } = .error .FileFormatError := by decide
example : load fixed { healthy with openZipPath := .error .BadZipFile } = .error .FileFormatError := by decide
/-- an escalated warning passes the boundary unchanged (the fourth disjunct of `load_error_closed`) -/
example : load fixed { healthy with versionOk := fun _ => false, warn := fun _ => .error (.Other "RuntimeWarning") }
    = .error (.Other "RuntimeWarning") := by decide
/-- malformed *binary* plist: tolerated with a warning, as the code documents -/
example : load fixed { healthy with plistVersion := fun _ => .error invalidFile } = .ok (3000000, 2, 4) := by decide

/-! ### the whole `Document(path)` call: container loading, then the eager construction of sheets and tables -/

/-- For all behaviours of the externals AND of the construction stage (which may raise anything at all when objects
    are missing), `Document(path)` returns a document, or raises FileError / FileFormatError / UnsupportedError, or
    re-raises a Warning that was escalated to an error. -/
theorem document_open_closed {δ} (x : Ext) (build : Nat × Nat × Nat → PyM δ) :
    (∃ d, openDocument fixed true x build = .ok d) ∨
    (∃ e, openDocument fixed true x build = .error e ∧
      (e = .FileError ∨ e = .FileFormatError ∨ e = .UnsupportedError ∨ x.isWarning e = true)) := by
  rcases load_error_closed x with ⟨r, hr⟩ | ⟨e, he, hcls⟩
  · cases hb : build r with
    | ok d => exact Or.inl ⟨d, by simp [openDocument, hr, hb]⟩
    | error e =>
      right
      by_cases h : (isLibraryError e || x.isWarning e) = true
      · refine ⟨e, by simp [openDocument, hr, hb, h], ?_⟩
        rcases Bool.or_eq_true _ _ |>.mp h with h1 | h2
        · cases e <;> simp_all [isLibraryError]
        · exact Or.inr (Or.inr (Or.inr h2))
      · exact ⟨.FileFormatError, by simp [openDocument, hr, hb, h], Or.inr (Or.inl rfl)⟩
  · exact Or.inr ⟨e, by simp [openDocument, he], hcls⟩

/-- what the construction stage returns is returned unchanged (the boundary never swallows a document). -/
theorem document_open_ok {δ} (x : Ext) (build : Nat × Nat × Nat → PyM δ) (r : Nat × Nat × Nat) (d : δ)
    (hl : load fixed x = .ok r) (hb : build r = .ok d) : openDocument fixed true x build = .ok d := by
  simp [openDocument, hl, hb]

/-- before the repair a missing object escaped as whatever the look-up raised: `Index/Document.iwa` with a broken
    chunk header is not an IWA file, so it is kept as a blob, object 1 is absent and `sheet_ids()` raises KeyError -/
example : openDocument fixed false healthy (fun _ => (.error .KeyError : PyM Nat)) = .error .KeyError := by decide
example : openDocument fixed true healthy (fun _ => (.error .KeyError : PyM Nat)) = .error .FileFormatError := by decide
example : openDocument fixed true healthy (fun _ => (.error .UnsupportedError : PyM Nat)) = .error .UnsupportedError := by decide
example : openDocument fixed true healthy (fun st => (.ok st.2.1 : PyM Nat)) = .ok 2 := by decide

/-! ### the clauses over the definitions REGENERATED FROM THE SOURCE (`Gen/TrLoad.lean`, harness/py2lean.py group `Load`)

`Gen.T.load`, `Gen.T.iwork_open`, `Gen.T.open_body`, `Gen.T.document_version`, `Gen.T.read_objects_from_zipfile`,
`Gen.T.read_objects_from_package`, `Gen.T.store_blob`, `Gen.T.open_zipfile` are translated statement by statement from
`ObjectStore.__init__` / `IWork.open` / `_open` / `document_version` / `_read_objects_from_zipfile` /
`_read_objects_from_package` / `_store_blob` / `_open_zipfile` on every check run (`try / except X as e: raise Y from e` is a
match on the outcome with the classes as written); every call that leaves the library is a field of the same `Ext`. -/
namespace Src
open NumbersModel.TrLoad

/-- the translated `ObjectStore.__init__` IS the model's `load`, for every behaviour of the externals (what it leaves in
    `_max_id` / the handler, reported as (`_max_id`, distinct identifiers, distinct file names)). -/
theorem src_load_eq_model (x : Ext) : (Gen.T.load x ()).map report = load fixed x := load_eq_model x

/-- the translated `IWork.open` IS the model's translation boundary. -/
theorem src_open_eq_model (x : Ext) : Gen.T.iwork_open x () {} = withUnit (open_ fixed x) := iwork_open_eq_model x

/-- the translated `_store_blob`, `_read_objects_from_zipfile` (every recursion budget), `_read_objects_from_package`,
    `document_version` (both forms), `_open`, `_open_zipfile` are the model's functions. -/
theorem src_stages_eq_model (x : Ext) :
    (∀ name blob st, Gen.T.store_blob x name blob st = withUnit (storeBlob fixed x name blob st)) ∧
    (∀ fuel z st, Gen.T.read_objects_from_zipfile x fuel z st = withUnit (readZip fixed x fuel z st)) ∧
    (∀ fuel steps st, Gen.T.read_objects_from_package x (fuel + 1) steps st = withUnit (readPackage fixed x steps st)) ∧
    (∀ zipf, Gen.T.document_version x (some true) zipf = documentVersion x none) ∧
    (∀ z, Gen.T.document_version x (some false) (some z) = documentVersion x (some z)) ∧
    Gen.T.open_body x () {} = withUnit (openBody fixed x) ∧
    (∀ r, Gen.T.open_zipfile r = openZipfile r) :=
  ⟨store_blob_eq_model x, read_objects_from_zipfile_eq_model x, read_objects_from_package_eq_model x,
   document_version_package_eq_model x, document_version_zip_eq_model x, open_body_eq_model x, open_zipfile_eq_model⟩

/-- MAIN THEOREM over the source as it is now: whatever the externals do, the translated `ObjectStore.__init__` returns, or
    raises FileError / FileFormatError / UnsupportedError, or re-raises an escalated Warning. -/
theorem src_load_error_closed (x : Ext) :
    (∃ r, Gen.T.load x () = .ok r) ∨
    (∃ e, Gen.T.load x () = .error e ∧
      (e = .FileError ∨ e = .FileFormatError ∨ e = .UnsupportedError ∨ x.isWarning e = true)) := by
  cases h : Gen.T.load x () with
  | ok r => exact Or.inl ⟨r, rfl⟩
  | error e =>
    have hm : load fixed x = .error e := by rw [← load_eq_model, h]; rfl
    rcases load_error_closed x with ⟨r, hr⟩ | ⟨e', he', hc⟩
    · rw [hm] at hr; cases hr
    · rw [hm] at he'; cases he'; exact Or.inr ⟨e, rfl, hc⟩

/-- the boundary statement for the translated `IWork.open` alone. -/
theorem src_open_error_closed (x : Ext) :
    (∃ st, Gen.T.iwork_open x () {} = .ok ((), st)) ∨
    (∃ e, Gen.T.iwork_open x () {} = .error e ∧ (isLibraryError e = true ∨ x.isWarning e = true)) := by
  rw [iwork_open_eq_model]
  rcases open_error_closed x with ⟨st, hs⟩ | ⟨e, he, hc⟩
  · exact Or.inl ⟨st, by rw [hs]; rfl⟩
  · exact Or.inr ⟨e, by rw [he]; rfl, hc⟩

/-- per stage, over the translated `_store_blob`: once `is_iwa_file` has answered, the outcome is success or FileFormatError. -/
theorem src_store_blob_closed (x : Ext) (name : Text) (blob : Nat) (st : Store) (b : Bool)
    (hs : x.sniff blob = .ok b) :
    (∃ st', Gen.T.store_blob x name blob st = .ok ((), st')) ∨
      Gen.T.store_blob x name blob st = .error .FileFormatError := by
  rw [store_blob_eq_model]
  rcases store_blob_closed x name blob st b hs with ⟨st', h⟩ | h
  · exact Or.inl ⟨st', by rw [h]; rfl⟩
  · exact Or.inr (by rw [h]; rfl)

/-- per stage, over the translated `_open_zipfile`: BadZipFile (only) is translated. -/
theorem src_open_zipfile_translates (r : PyM Nat) :
    Gen.T.open_zipfile r = match r with
      | .ok z => .ok z
      | .error e => if e = .BadZipFile then .error .FileFormatError else .error e := by
  rw [open_zipfile_eq_model]; exact openZipfile_spec r

/-- non-vacuity: the translated definitions run on the healthy document and on the damaged variants of it -/
example : (Gen.T.load healthy ()).map report = .ok (3000000, 2, 4) := by decide
example : Gen.T.load badCrc () = .error .FileFormatError := by decide
example : Gen.T.load emptyIwa () = .error .FileFormatError := by decide
example : Gen.T.load noObjects () = .error .FileFormatError := by decide
example : Gen.T.load nameTooLong () = .error .FileError := by decide
example : Gen.T.load encrypted () = .error .UnsupportedError := by decide
example : Gen.T.load { healthy with versionOk := fun _ => false, warn := fun _ => .error (.Other "RuntimeWarning") } ()
    = .error (.Other "RuntimeWarning") := by decide

end Src

end NumbersModel.Props.C17
