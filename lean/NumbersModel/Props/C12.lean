/-
C12 — Merged regions are reported consistently, immediately and after reload.
Statements only (proofs by reference to Lemmas/Merge.lean) and non-vacuity examples.

Model: Model/Merge.lean (`MergeCells`, `Table.merge_cells` with fixes/C12-merge-placeholders.patch,
`Cell._set_merge`, `merge_ranges`, `recalculate_merged_cells`, `calculate_merge_cell_ranges`,
`Table.__init__`, and `Table._move_merges` of fixes/C12-merge-map-shift.patch at the end of
`add_row` / `add_column` / `delete_row` / `delete_column`) on top of the grid model of C03.
-/
import NumbersModel.Lemmas.MergeEdit
import NumbersModel.Lemmas.TrMerge
namespace NumbersModel.Props.C12
open NumbersModel NumbersModel.Grid NumbersModel.Merge

/-- a new table has no merges and is consistent. -/
theorem consistent_init (nr nc : Nat) : Consistent (minit nr nc) := consistent_minit nr nc

/-- **The picture.**  In a consistent table (in particular: after any number of `merge_cells` calls
    with pairwise disjoint in-table rectangles, see `merge_step` / `merge_picture_list`) every cell
    reports its own position, and
    * the top-left cell of a merged rectangle is a value cell with `is_merged` and the rectangle's size,
    * every other cell of the rectangle is a placeholder (`MergedCell`) without value that reports
      the rectangle (`rect`; `merge_range` is its A1 form),
    * every cell outside all rectangles is an ordinary cell: not merged, size (1, 1), no rect. -/
theorem merge_picture (s : MState) (hs : Consistent s) (a b : Nat) (cell : CellM MCell)
    (hc : cellAt s.grid.data a b = some cell) :
    (cell.row = (a : Int) ∧ cell.col = (b : Int)) ∧
    (∀ q ∈ rectsOf s.mmap, q.has ((a : Int), (b : Int)) = true →
      (((a : Int), (b : Int)) = q.origin →
        cell.val.ph = false ∧ cell.val.merged = true ∧ cell.val.size = some (q.height, q.width) ∧ cell.val.rect = none) ∧
      (((a : Int), (b : Int)) ≠ q.origin →
        cell.val.ph = true ∧ cell.val.val = 0 ∧ cell.val.merged = false ∧ cell.val.size = none ∧
        cell.val.rect = some (q.r0, q.c0, q.r1, q.c1))) ∧
    ((∀ q ∈ rectsOf s.mmap, q.has ((a : Int), (b : Int)) = false) →
      cell.val.ph = false ∧ cell.val.merged = false ∧ cell.val.size = some (1, 1) ∧ cell.val.rect = none) :=
  consistent_picture s hs a b cell hc

/-- **One merge.**  Merging a rectangle that lies in the table and is disjoint from the rectangles
    merged so far succeeds, keeps the table consistent (so `merge_picture` describes it), adds exactly
    this rectangle, keeps the dimensions, and changes no value except that the non-anchor cells of the
    rectangle lose theirs (cells outside are untouched, the anchor keeps its value). -/
theorem merge_step (s : MState) (hs : Consistent s) (r0 c0 r1 c1 : Nat)
    (hin : Rct.InTable ((r0 : Int), (c0 : Int), (r1 : Int), (c1 : Int)) s.grid.numRows s.grid.numCols)
    (hdisj : ∀ p ∈ rectsOf s.mmap, Rct.Disjoint p ((r0 : Int), (c0 : Int), (r1 : Int), (c1 : Int))) :
    ∃ s', mergeOne s (r0 : Int) (c0 : Int) (r1 : Int) (c1 : Int) = .ok s' ∧ Consistent s' ∧
      rectsOf s'.mmap = rectsOf s.mmap ++ [((r0 : Int), (c0 : Int), (r1 : Int), (c1 : Int))] ∧
      s'.grid.numRows = s.grid.numRows ∧ s'.grid.numCols = s.grid.numCols ∧
      (∀ a b cell, cellAt s.grid.data a b = some cell → ∃ cell', cellAt s'.grid.data a b = some cell' ∧
        cell'.val.val = if Rct.has ((r0 : Int), (c0 : Int), (r1 : Int), (c1 : Int)) ((a : Int), (b : Int)) = true ∧
            ((a : Int), (b : Int)) ≠ ((r0 : Int), (c0 : Int)) then 0 else cell.val.val) :=
  mergeOne_consistent s hs r0 c0 r1 c1 _ rfl hin hdisj

/-- **List form, any shape, any number of rectangles.**  `merge_cells([...])` on a new `nr × nc`
    table with pairwise disjoint rectangles inside the table succeeds; the result is consistent and its
    rectangles are exactly the given ones. -/
theorem merge_picture_list (nr nc : Nat) (qs : List (Nat × Nat × Nat × Nat))
    (hin : ∀ q ∈ qs, Rct.InTable ((q.1 : Int), (q.2.1 : Int), (q.2.2.1 : Int), (q.2.2.2 : Int)) nr nc)
    (hpw : (qs.map (fun q => (((q.1 : Int), (q.2.1 : Int), (q.2.2.1 : Int), (q.2.2.2 : Int)) : Rct))).Pairwise Rct.Disjoint) :
    ∃ s', mergeList (minit nr nc) (qs.map (fun q => ((q.1 : Int), (q.2.1 : Int), (q.2.2.1 : Int), (q.2.2.2 : Int)))) = .ok s' ∧
      Consistent s' ∧
      rectsOf s'.mmap = qs.map (fun q => (((q.1 : Int), (q.2.1 : Int), (q.2.2.1 : Int), (q.2.2.2 : Int)) : Rct)) ∧
      s'.grid.numRows = nr ∧ s'.grid.numCols = nc := by
  obtain ⟨s', h1, h2, h3, h4, h5⟩ := mergeList_consistent qs (minit nr nc) (consistent_minit nr nc)
    (by intro q hq; simpa [minit, Grid.init] using hin q hq)
    (by intro q _ p hp; simp [minit, rectsOf, anchorsOf] at hp) hpw
  refine ⟨s', h1, h2, ?_, ?_, ?_⟩
  · rw [h3]; simp [minit, rectsOf, anchorsOf]
  · rw [h4]; simp [minit, Grid.init]
  · rw [h5]; simp [minit, Grid.init]

/-- `Table.merge_ranges` lists exactly the merged rectangles (no more, no fewer). -/
theorem merge_ranges_exact (s : MState) (hs : Consistent s) :
    ∃ l, mergeRanges s = .ok l ∧ ∀ q : Rct, q ∈ l ↔ q ∈ rectsOf s.mmap := mergeRanges_exact s hs

/-- **Packing round trip.**  `hi << 16 | lo` followed by `>> 16` / `& 0xFFFF` returns both fields
    exactly when the low field (the row of an origin, the height of a size) is below 2^16 and the
    high field below 2^16 (so that the value fits the `uint32`). -/
theorem mergemap_roundtrip (hi lo : Nat) (h1 : hi < 65536) (h2 : lo < 65536) :
    ∃ v, pack32 (hi : Int) (lo : Int) = .ok v ∧ v >>> 16 = hi ∧ v &&& 0xFFFF = lo :=
  ⟨_, pack32_ok hi lo h1 h2, unpack_hi hi lo h2, unpack_lo hi lo h2⟩

/-- ... and the bound on the low field is needed: row 65536, column 0 is read back as row 0, column 1. -/
theorem mergemap_roundtrip_needs_bound :
    ∃ v, pack32 0 65536 = .ok v ∧ (v >>> 16, v &&& 0xFFFF) = (1, 0) := ⟨65536, by decide, by decide⟩

/-- the largest row that survives is 65535. -/
theorem pack_bound_is_sharp :
    (∃ v, pack32 7 65535 = .ok v ∧ (v >>> 16, v &&& 0xFFFF) = (7, 65535)) ∧
    (∃ v, pack32 7 65536 = .ok v ∧ (v >>> 16, v &&& 0xFFFF) ≠ (7, 65536)) :=
  ⟨⟨7 * 65536 + 65535, by decide, by decide⟩, ⟨7 * 65536, by decide, by decide⟩⟩

/-- **Open = reloaded.**  Saving a consistent table with fewer than 65536 rows and columns and opening
    the file again (`packRanges` → `loadRanges` → `Table.__init__`) reproduces every cell — class, value,
    `is_merged`, `size`, `rect`, position — and a merge map with the same entries; hence also the same
    `merge_ranges`.  (Values themselves are assumed to round-trip: C01.) -/
theorem open_eq_reloaded (s : MState) (hs : Consistent s) (hnr : 0 < s.grid.numRows)
    (hr : s.grid.numRows < 65536) (hc : s.grid.numCols < 65536) :
    ∃ s', reload s = .ok s' ∧ s'.grid = s.grid ∧ ∀ k, s'.mmap.get k = s.mmap.get k :=
  reload_consistent s hs hnr hr hc

/-- **Writes.**  A `write` anywhere except into a placeholder (outside every rectangle, on an anchor,
    beyond the table edge with auto-extension) keeps the table consistent, hence keeps the picture and
    `open_eq_reloaded`.  (Writing into a placeholder is the known defect `write-into-placeholder`.) -/
theorem consistent_write (s : MState) (hs : Consistent s) (r c : Int) (v : Nat)
    (hnot : ∀ q ∈ rectsOf s.mmap, q.has (r, c) = true → (r, c) = q.origin)
    (s' : MState) (h : mwrite s r c v = .ok s') : Consistent s' ∧ s'.mmap = s.mmap :=
  safe_edit_consistent s hs (.write r c v) hnot s' h

/-- **Row / column edits, anywhere** (before, inside, overlapping or after the rectangles).  For a
    consistent table and any `add_row` / `add_column` / `delete_row` / `delete_column`:
    * if the arguments are in range (`Grid.Valid`; and a `default` fill stays inside the library's
      row / column limits, `Grid.FillOK`) the edit succeeds;
    * whenever it succeeds the table is consistent again (so `merge_picture` describes it and
      `open_eq_reloaded` applies), its rectangles are exactly `shiftRects op` of the old ones - the
      specification in Lemmas/MergeEdit.lean: a rectangle at or after the insertion / deletion point
      moves with its cells, one before it is untouched, an insertion strictly inside grows it, a
      deletion overlapping it shrinks it (the next surviving row / column becomes the anchor's), and a
      rectangle deleted entirely or reduced to a single cell stops being a merge - and the dimensions
      are the expected ones. -/
theorem consistent_edit (s : MState) (hs : Consistent s) (op : Grid.Op Nat) (hst : IsStructural op) :
    (Grid.Valid s.grid (liftOp s op) → Grid.FillOK s.grid (liftOp s op) → ∃ s', mstep s op = .ok s') ∧
    (∀ s', mstep s op = .ok s' → Consistent s' ∧
      rectsOf s'.mmap = shiftRects op s.grid.numRows s.grid.numCols (rectsOf s.mmap) ∧
      (s'.grid.numRows, s'.grid.numCols) = dimsAfter op s.grid.numRows s.grid.numCols) :=
  ⟨(edit_consistent_full s hs op hst).1, fun s' h =>
    let r := (edit_consistent_full s hs op hst).2 s' h; ⟨r.1, r.2.1, r.2.2.1⟩⟩

/-- **... and the values.**  After a row / column edit the cells are those of the plain grid with the same
    edit applied (C03's `specStep` on the grid of cells: surviving cells at their new positions, new cells
    empty or holding the `default`), except that every non-anchor cell of a (new) rectangle is empty
    (`Covered`): cells outside the rectangles are untouched, an anchor that survives keeps its value, new
    cells inside a grown rectangle are placeholders whatever the `default`. -/
theorem edit_values (s : MState) (hs : Consistent s) (op : Grid.Op Nat) (hst : IsStructural op)
    (s' : MState) (h : mstep s op = .ok s') (a b : Nat) (y : MCell)
    (hy : gget (Grid.specStep emptyCell (Grid.abs s.grid) (liftOp s op)).cells a b = some y) :
    ∃ cell', cellAt s'.grid.data a b = some cell' ∧
      (Covered (rectsOf s'.mmap) ((a : Int), (b : Int)) → cell'.val.val = 0) ∧
      (¬ Covered (rectsOf s'.mmap) ((a : Int), (b : Int)) → cell'.val.val = y.val) :=
  ((edit_consistent_full s hs op hst).2 s' h).2.2.2 a b y hy

/-- the code's rectangle arithmetic (`_move_merges`: `count > 0` inserts, otherwise deletes `-count`,
    written with `max`) is the specification, for insertions and for deletions. -/
theorem move_arithmetic_is_spec (rows : Bool) (start n : Int) (hn : 0 ≤ n) (q : Rct) :
    shiftRect rows start n q = shiftRectSpec rows true start n q ∧
    shiftRect rows start (-n) q = shiftRectSpec rows false start n q :=
  ⟨shiftRect_ins rows start n hn q, shiftRect_del rows start n hn q⟩

/-- the specification keeps what `Consistent` needs: the transformed rectangles lie in the new table
    and stay pairwise disjoint (for the arguments of an accepted edit, `EditOK`). -/
theorem shift_spec_sound {rows ins : Bool} {start n nr nc nr' nc' : Int} (he : EditOK rows ins start n nr nc nr' nc')
    (qs : List Rct) (hin : ∀ q ∈ qs, q.InTable nr nc) (hd : qs.Pairwise Rct.Disjoint) :
    (∀ q' ∈ qs.filterMap (shiftRectSpec rows ins start n), q'.InTable nr' nc') ∧
    (qs.filterMap (shiftRectSpec rows ins start n)).Pairwise Rct.Disjoint := by
  refine ⟨?_, ?_⟩
  · intro q' hq'
    obtain ⟨q, hq, hqq⟩ := List.mem_filterMap.mp hq'
    exact spec_inTable he (hin q hq) hqq
  · have hp : qs.Pairwise (fun a b => a.Nonempty ∧ b.Nonempty ∧ Rct.Disjoint a b) :=
      hd.imp_of_mem (fun ha hb hd => ⟨(hin _ ha).nonempty, (hin _ hb).nonempty, hd⟩)
    exact List.Pairwise.filterMap _ (fun a a' ⟨x, y, z⟩ b hb b' hb' => spec_disjoint he.n0 x y z hb hb') hp

/-- **The specification, cell by cell (insertion).**  A rectangle is never dropped; an old cell lies in the
    rectangle iff its new position (indices from `start` on move by `n`) lies in the new rectangle - rectangles
    move with their cells, rectangles before the insertion are untouched; and a *new* cell lies in the new
    rectangle iff the insertion was strictly inside the old one (after its first, at or before its last
    row / column) and the cell is within the rectangle's other axis - the rectangle grows. -/
theorem shift_spec_insert_cells (rows : Bool) (start n : Int) (hn : 0 ≤ n) (q : Rct) (hq : q.Nonempty) :
    ∃ q', shiftRectSpec rows true start n q = some q' ∧
      (∀ k : Key, q.has k = true ↔ q'.has (moveKey rows (fun i => if start ≤ i then i + n else i) k) = true) ∧
      (∀ k : Key, start ≤ axisOf rows k → axisOf rows k < start + n →
        (q'.has k = true ↔ ((if rows then q.r0 else q.c0) < start ∧ start ≤ (if rows then q.r1 else q.c1) ∧
          (if rows then q.c0 ≤ k.2 ∧ k.2 ≤ q.c1 else q.r0 ≤ k.1 ∧ k.1 ≤ q.r1)))) :=
  spec_ins_cells rows start n hn q hq

/-- **The specification, cell by cell (deletion).**  If the rectangle remains, a surviving old cell (row /
    column index outside `start .. start+n-1`) lies in it iff its new position (indices from `start + n` on move
    down by `n`) lies in the new rectangle - it moves with its cells and shrinks by the deleted rows / columns;
    if it ceases to be a merge, it lost a row / column and at most one of its cells survives. -/
theorem shift_spec_delete_cells (rows : Bool) (start n : Int) (hn : 0 ≤ n) (q : Rct) (hq : q.Nonempty) :
    match shiftRectSpec rows false start n q with
    | some q' => ∀ k : Key, (axisOf rows k < start ∨ start + n ≤ axisOf rows k) →
        (q.has k = true ↔ q'.has (moveKey rows (fun i => if start + n ≤ i then i - n else i) k) = true)
    | none =>
      (∃ i, (if rows then q.r0 else q.c0) ≤ i ∧ i ≤ (if rows then q.r1 else q.c1) ∧ start ≤ i ∧ i < start + n) ∧
      (∀ k k' : Key, (axisOf rows k < start ∨ start + n ≤ axisOf rows k) →
        (axisOf rows k' < start ∨ start + n ≤ axisOf rows k') → q.has k = true → q.has k' = true → k = k') :=
  spec_del_cells rows start n hn q hq

/-- **Histories.**  Every table reachable from a new table of any shape by any finite history of merges
    (in-table, disjoint from the existing rectangles), writes not aimed at a placeholder, and row /
    column insertions / deletions anywhere is consistent (induction over the history) ... -/
theorem history_consistent (s : MState) (h : Reachable s) : Consistent s := reachable_consistent h

/-- ... hence the open document and the reopened file show the same picture: every cell (class, value,
    `is_merged`, `size`, `rect`, position) and the merge map entries, so also `merge_ranges`. -/
theorem history_open_eq_reloaded (s : MState) (h : Reachable s) (hnr : 0 < s.grid.numRows)
    (hr : s.grid.numRows < 65536) (hc : s.grid.numCols < 65536) :
    ∃ s', reload s = .ok s' ∧ s'.grid = s.grid ∧ ∀ k, s'.mmap.get k = s.mmap.get k :=
  reload_consistent s (reachable_consistent h) hnr hr hc

/-! ### non-vacuity and witnesses -/

/-- the specification on B3:C4 (rows 2..3, columns 1..2) of a 6×4 table: an insertion before moves it,
    one strictly inside grows it, one after leaves it; a deletion overlapping it shrinks it (also when
    the anchor row goes), a deletion of its columns down to one cell or of all its rows ends the merge. -/
example : shiftRects (.addRow 1 (some 0) none) 6 4 [(2, 1, 3, 2)] = [(3, 1, 4, 2)] := by decide
example : shiftRects (.addRow 1 (some 2) none) 6 4 [(2, 1, 3, 2)] = [(3, 1, 4, 2)] := by decide
example : shiftRects (.addRow 2 (some 3) (some 7)) 6 4 [(2, 1, 3, 2)] = [(2, 1, 5, 2)] := by decide
example : shiftRects (.addRow 2 none none) 6 4 [(2, 1, 3, 2)] = [(2, 1, 3, 2)] := by decide
example : shiftRects (.addCol 1 (some 2) none) 6 4 [(2, 1, 3, 2)] = [(2, 1, 3, 3)] := by decide
example : shiftRects (.delRow 1 (some 2)) 6 4 [(2, 1, 3, 2)] = [(2, 1, 2, 2)] := by decide
example : shiftRects (.delRow 2 (some 1)) 6 4 [(2, 1, 3, 2)] = [(1, 1, 1, 2)] := by decide
example : shiftRects (.delRow 2 (some 2)) 6 4 [(2, 1, 3, 2)] = [] := by decide
example : shiftRects (.delCol 1 (some 0)) 6 4 [(2, 1, 3, 2)] = [(2, 0, 3, 1)] := by decide
example : shiftRects (.delCol 3 none) 6 4 [(2, 1, 3, 2), (0, 0, 0, 0)] = [(0, 0, 0, 0)] := by decide
example : shiftRects (.delCol 1 (some 2)) 6 4 [(2, 1, 2, 2), (0, 0, 0, 0)] = [(0, 0, 0, 0)] := by decide

/-- (for the examples below) B3:C4 with a value in its anchor on a 6×4 table, one structural edit, save +
    reopen: the rectangles of the open table followed by `merge_ranges` of the reopened one, and whether the
    reopened grid equals the open one. -/
def editThenReload (op : Grid.Op Nat) : PyM (List Rct × Bool) := do
  let s1 ← mwrite (minit 6 4) 2 1 5
  let s2 ← mergeOne s1 2 1 3 2
  let a ← mstep s2 op
  let a' ← reload a
  let ra ← mergeRanges a'
  pure (rectsOf a.mmap ++ ra, a'.grid == a.grid)

/-- the model on that table: insertion before, insertion inside (with a default fill), deletion
    overlapping the rectangle (the anchor row goes), deletion leaving a single cell: the open table
    lists the specified rectangle, and save + reopen reproduces it and the whole grid. -/
example : editThenReload (.addRow 1 (some 0) none) = .ok ([(3, 1, 4, 2), (3, 1, 4, 2)], true) := by decide +kernel
example : editThenReload (.addRow 2 (some 3) (some 7)) = .ok ([(2, 1, 5, 2), (2, 1, 5, 2)], true) := by decide +kernel
example : editThenReload (.delRow 1 (some 2)) = .ok ([(2, 1, 2, 2), (2, 1, 2, 2)], true) := by decide +kernel
example : editThenReload (.delCol 2 (some 0)) = .ok ([(2, 0, 3, 0), (2, 0, 3, 0)], true) := by decide +kernel
example : editThenReload (.delRow 1 (some 3)) = .ok ([(2, 1, 2, 2), (2, 1, 2, 2)], true) := by decide +kernel

/-- a history satisfying the hypotheses of `history_open_eq_reloaded`: merge B3:C4 on 6×4, write the
    anchor, insert two rows inside the rectangle, delete its first column. -/
example : ∃ s, Reachable s ∧ rectsOf s.mmap = [(2, 1, 5, 1)] ∧ s.grid.numRows = 8 ∧ s.grid.numCols = 3 := by
  obtain ⟨s1, h1, c1, r1, n1, m1, _⟩ := merge_step (minit 6 4) (consistent_init 6 4) 2 1 3 2
    (by simp [Rct.InTable, Rct.r0, Rct.r1, Rct.c0, Rct.c1, minit, Grid.init])
    (by intro p hp; simp [minit, rectsOf, anchorsOf] at hp)
  have R1 : Reachable s1 := .step (.init 6 4) (.merge 2 1 3 2
    (by simp [Rct.InTable, Rct.r0, Rct.r1, Rct.c0, Rct.c1, minit, Grid.init])
    (by intro p hp; simp [minit, rectsOf, anchorsOf] at hp) h1)
  have d1 : s1.grid.numRows = 6 ∧ s1.grid.numCols = 4 := by rw [n1, m1]; simp [minit, Grid.init]
  have e1 : rectsOf s1.mmap = [(2, 1, 3, 2)] := by rw [r1]; simp [minit, rectsOf, anchorsOf]
  obtain ⟨s2, h2⟩ := (consistent_edit s1 c1 (.addRow 2 (some 3) none) trivial).1
    (by simp [liftOp, Grid.Valid, d1.1]) (by simp [liftOp, Grid.FillOK])
  obtain ⟨c2, r2, n2⟩ := (consistent_edit s1 c1 (.addRow 2 (some 3) none) trivial).2 s2 h2
  have R2 : Reachable s2 := .step R1 (.edit (.addRow 2 (some 3) none) trivial h2)
  rw [e1, d1.1, d1.2] at r2
  rw [d1.1, d1.2] at n2
  have d2 : s2.grid.numRows = 8 ∧ s2.grid.numCols = 4 := by
    have := n2; simp only [dimsAfter, Prod.mk.injEq] at this; omega
  obtain ⟨s3, h3⟩ := (consistent_edit s2 c2 (.delCol 1 (some 1)) trivial).1
    (by simp [liftOp, Grid.Valid, d2.2]) (by simp [liftOp, Grid.FillOK])
  obtain ⟨c3, r3, n3⟩ := (consistent_edit s2 c2 (.delCol 1 (some 1)) trivial).2 s3 h3
  rw [r2, d2.1, d2.2] at r3
  rw [d2.1, d2.2] at n3
  refine ⟨s3, .step R2 (.edit (.delCol 1 (some 1)) trivial h3), ?_, ?_, ?_⟩
  · rw [r3]; decide
  · have := n3; simp only [dimsAfter, Prod.mk.injEq] at this; omega
  · have := n3; simp only [dimsAfter, Prod.mk.injEq] at this; omega

/-- the defect repaired by fixes/C12-merge-map-shift.patch ("merge map not shifted"), on the edits
    without `_move_merges` (`mstepPinned`): merge B3:C4 on a 6×4 table, insert a row at the top.  The open
    table lists B4:C5, the reloaded one B3:C4. -/
example :
    (do let s1 ← mergeOne (minit 6 4) 2 1 3 2
        let s2 ← mstepPinned s1 (.addRow 1 (some 0) none)
        let s3 ← reload s2
        let a ← mergeRanges s2
        let b ← mergeRanges s3
        pure (a, b)) = .ok ([(3, 1, 4, 2)], [(2, 1, 3, 2)]) := by decide +kernel


/-- B2:C3 on a 4×3 table with a value in the anchor: the whole picture, computed. -/
example :
    (do let s1 ← mwrite (minit 4 3) 1 1 5
        let s2 ← mergeOne s1 1 1 2 2
        let l ← mergeRanges s2
        pure (s2.grid.data.map (fun (r : List (CellM MCell)) =>
          r.map (fun (c : CellM MCell) => (c.val.ph, c.val.val, c.val.merged, c.val.size, c.val.rect))), l))
      = .ok ([[(false, 0, false, some (1, 1), none), (false, 0, false, some (1, 1), none), (false, 0, false, some (1, 1), none)],
              [(false, 0, false, some (1, 1), none), (false, 5, true, some (2, 2), none), (true, 0, false, none, some (1, 1, 2, 2))],
              [(false, 0, false, some (1, 1), none), (true, 0, false, none, some (1, 1, 2, 2)), (true, 0, false, none, some (1, 1, 2, 2))],
              [(false, 0, false, some (1, 1), none), (false, 0, false, some (1, 1), none), (false, 0, false, some (1, 1), none)]],
             [(1, 1, 2, 2)]) := by rfl

/-- the hypotheses of `merge_picture_list` / `open_eq_reloaded` are satisfiable by touching rectangles
    at the edges: three merges, then save + reopen gives the very same state. -/
example : (do let s ← mergeList (minit 4 3) [(0, 0, 3, 0), (0, 1, 0, 2), (1, 1, 2, 2)]; reload s)
    = mergeList (minit 4 3) [(0, 0, 3, 0), (0, 1, 0, 2), (1, 1, 2, 2)] := by decide +kernel

/-- the known defect "write into a placeholder": the open table shows the value, the reloaded one does not. -/
example :
    (do let s1 ← mergeOne (minit 3 3) 1 1 2 2
        let s2 ← mwrite s1 2 2 7
        let s3 ← reload s2
        pure ((s2.grid.data.map (fun (r : List (CellM MCell)) => r.map (fun (c : CellM MCell) => c.val.val))),
              (s3.grid.data.map (fun (r : List (CellM MCell)) => r.map (fun (c : CellM MCell) => c.val.val)))))
      = .ok ([[0, 0, 0], [0, 0, 0], [0, 0, 7]], [[0, 0, 0], [0, 0, 0], [0, 0, 0]]) := by rfl

end NumbersModel.Props.C12

/-! ## The packing clauses over the arithmetic translated from the Python source

`Gen/TrMerge.lean` is regenerated by `harness/py2lean.py` from `model.py` in the working tree on every check run: the body
of the loop of `recalculate_merged_cells` (`col << 16 | row`, `ncols << 16 | nrows`, each stored in a `uint32` field) and
the body of the loop of `calculate_merge_cell_ranges` up to the loops that fill the map (`>> 16`, `& 0xFFFF`, the two
`… - 1`).  `Lemmas/TrMerge.lean` proves them equal to `pack32` / `loadRange` for all ints resp. all stored values
(`|` and `&` with Python's two's-complement reading of negative operands). -/
namespace NumbersModel.Props.C12.Src
open NumbersModel NumbersModel.Merge NumbersModel.Gen.T NumbersModel.Translated

/-- **Packing round trip over the source.**  An anchor at `(row, col)` of size `(h, w)`, all four below 2^16: what the
    save loop stores is read back by the load loop as the same origin, the same size and the rectangle's last row / column. -/
theorem src_mergemap_roundtrip (row col h w : Nat) (hr : row < 65536) (hc : col < 65536) (hh : h < 65536) (hw : w < 65536) :
    ∃ o sz : Nat, merge_pack ((row : Int), (col : Int)) ((h : Int), (w : Int)) = .ok ((o : Int), (sz : Int)) ∧
      merge_unpack (o : Int) (sz : Int) =
        .ok ((row : Int), (col : Int), (row : Int) + (h : Int) - 1, (col : Int) + (w : Int) - 1, (h : Int), (w : Int)) := by
  refine ⟨col <<< 16 ||| row, w <<< 16 ||| h, ?_, ?_⟩
  · rw [merge_pack_eq_model, pack32_ok col row hc hr, pack32_ok w h hw hh]; rfl
  · rw [merge_unpack_values, unpack_hi col row hr, unpack_lo col row hr, unpack_hi w h hh, unpack_lo w h hh]

/-- a negative coordinate or size never reaches the file: the `uint32` field refuses it (`ValueError`). -/
theorem src_pack_rejects_negative (row col h w : Int) (hneg : row < 0 ∨ col < 0) :
    merge_pack (row, col) (h, w) = .error .ValueError := by
  rw [merge_pack_eq_model]
  have : col < 0 ∨ row < 0 := hneg.symm
  simp only [pack32, this, if_true, bind, Except.bind]

/-- the loop body of the reader is the model's `loadRange` (same entries in the same order), for every stored pair. -/
theorem src_load_range (m : MMap) (p : Nat × Nat) :
    (merge_unpack (p.1 : Int) (p.2 : Int)).map (fillRect m) = .ok (loadRange m p) := merge_unpack_eq_model m p

/-- the bound on the row is needed (known finding merge-origin-row-over-65535): row 65536, column 0 is stored without
    complaint and read back as row 0, column 1. -/
example : merge_pack (65536, 0) (1, 1) = .ok (65536, 65537) ∧ merge_unpack 65536 65537 = .ok (0, 1, 0, 1, 1, 1) := by
  decide +kernel

example : merge_pack (3, 70000) (1, 1) = .error .ValueError ∧ merge_pack (-1, 2) (1, 1) = .error .ValueError := by
  decide +kernel

end NumbersModel.Props.C12.Src
