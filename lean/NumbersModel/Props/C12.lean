/-
C12 — Merged regions are reported consistently, immediately and after reload.
Statements only (proofs by reference to Lemmas/Merge.lean) and non-vacuity examples.

Model: Model/Merge.lean (`MergeCells`, `Table.merge_cells` with fixes/C12-merge-placeholders.patch,
`Cell._set_merge`, `merge_ranges`, `recalculate_merged_cells`, `calculate_merge_cell_ranges`,
`Table.__init__`) on top of the grid model of C03.
-/
import NumbersModel.Lemmas.Merge
import NumbersModel.Lemmas.TrMerge
namespace NumbersModel.Props.C12
open NumbersModel NumbersModel.Grid NumbersModel.Merge

/-- a new table has no merges and is consistent. -/
theorem consistent_init (nr nc : Nat) : Consistent (minit nr nc) := consistent_minit nr nc

/-- **The picture.**  In a consistent table (in particular: after any number of `merge_cells` calls
    with pairwise disjoint in-table rectangles, see `merge_step` / `merge_picture_list`) every cell
    reports its own position, and
    * the top-left cell of a merged rectangle is a value cell with `is_merged` and the rectangle's size,
    * every other cell of the rectangle is a placeholder (`MergedCell`) without value that reports
      the rectangle (`rect`; `merge_range` is its A1 form),
    * every cell outside all rectangles is an ordinary cell: not merged, size (1, 1), no rect. -/
theorem merge_picture (s : MState) (hs : Consistent s) (a b : Nat) (cell : CellM MCell)
    (hc : cellAt s.grid.data a b = some cell) :
    (cell.row = (a : Int) ∧ cell.col = (b : Int)) ∧
    (∀ q ∈ rectsOf s.mmap, q.has ((a : Int), (b : Int)) = true →
      (((a : Int), (b : Int)) = q.origin →
        cell.val.ph = false ∧ cell.val.merged = true ∧ cell.val.size = some (q.height, q.width) ∧ cell.val.rect = none) ∧
      (((a : Int), (b : Int)) ≠ q.origin →
        cell.val.ph = true ∧ cell.val.val = 0 ∧ cell.val.merged = false ∧ cell.val.size = none ∧
        cell.val.rect = some (q.r0, q.c0, q.r1, q.c1))) ∧
    ((∀ q ∈ rectsOf s.mmap, q.has ((a : Int), (b : Int)) = false) →
      cell.val.ph = false ∧ cell.val.merged = false ∧ cell.val.size = some (1, 1) ∧ cell.val.rect = none) :=
  consistent_picture s hs a b cell hc

/-- **One merge.**  Merging a rectangle that lies in the table and is disjoint from the rectangles
    merged so far succeeds, keeps the table consistent (so `merge_picture` describes it), adds exactly
    this rectangle, keeps the dimensions, and changes no value except that the non-anchor cells of the
    rectangle lose theirs (cells outside are untouched, the anchor keeps its value). -/
theorem merge_step (s : MState) (hs : Consistent s) (r0 c0 r1 c1 : Nat)
    (hin : Rct.InTable ((r0 : Int), (c0 : Int), (r1 : Int), (c1 : Int)) s.grid.numRows s.grid.numCols)
    (hdisj : ∀ p ∈ rectsOf s.mmap, Rct.Disjoint p ((r0 : Int), (c0 : Int), (r1 : Int), (c1 : Int))) :
    ∃ s', mergeOne s (r0 : Int) (c0 : Int) (r1 : Int) (c1 : Int) = .ok s' ∧ Consistent s' ∧
      rectsOf s'.mmap = rectsOf s.mmap ++ [((r0 : Int), (c0 : Int), (r1 : Int), (c1 : Int))] ∧
      s'.grid.numRows = s.grid.numRows ∧ s'.grid.numCols = s.grid.numCols ∧
      (∀ a b cell, cellAt s.grid.data a b = some cell → ∃ cell', cellAt s'.grid.data a b = some cell' ∧
        cell'.val.val = if Rct.has ((r0 : Int), (c0 : Int), (r1 : Int), (c1 : Int)) ((a : Int), (b : Int)) = true ∧
            ((a : Int), (b : Int)) ≠ ((r0 : Int), (c0 : Int)) then 0 else cell.val.val) :=
  mergeOne_consistent s hs r0 c0 r1 c1 _ rfl hin hdisj

/-- **List form, any shape, any number of rectangles.**  `merge_cells([...])` on a new `nr × nc`
    table with pairwise disjoint rectangles inside the table succeeds; the result is consistent and its
    rectangles are exactly the given ones. -/
theorem merge_picture_list (nr nc : Nat) (qs : List (Nat × Nat × Nat × Nat))
    (hin : ∀ q ∈ qs, Rct.InTable ((q.1 : Int), (q.2.1 : Int), (q.2.2.1 : Int), (q.2.2.2 : Int)) nr nc)
    (hpw : (qs.map (fun q => (((q.1 : Int), (q.2.1 : Int), (q.2.2.1 : Int), (q.2.2.2 : Int)) : Rct))).Pairwise Rct.Disjoint) :
    ∃ s', mergeList (minit nr nc) (qs.map (fun q => ((q.1 : Int), (q.2.1 : Int), (q.2.2.1 : Int), (q.2.2.2 : Int)))) = .ok s' ∧
      Consistent s' ∧
      rectsOf s'.mmap = qs.map (fun q => (((q.1 : Int), (q.2.1 : Int), (q.2.2.1 : Int), (q.2.2.2 : Int)) : Rct)) ∧
      s'.grid.numRows = nr ∧ s'.grid.numCols = nc := by
  obtain ⟨s', h1, h2, h3, h4, h5⟩ := mergeList_consistent qs (minit nr nc) (consistent_minit nr nc)
    (by intro q hq; simpa [minit, Grid.init] using hin q hq)
    (by intro q _ p hp; simp [minit, rectsOf, anchorsOf] at hp) hpw
  refine ⟨s', h1, h2, ?_, ?_, ?_⟩
  · rw [h3]; simp [minit, rectsOf, anchorsOf]
  · rw [h4]; simp [minit, Grid.init]
  · rw [h5]; simp [minit, Grid.init]

/-- `Table.merge_ranges` lists exactly the merged rectangles (no more, no fewer). -/
theorem merge_ranges_exact (s : MState) (hs : Consistent s) :
    ∃ l, mergeRanges s = .ok l ∧ ∀ q : Rct, q ∈ l ↔ q ∈ rectsOf s.mmap := mergeRanges_exact s hs

/-- **Packing round trip.**  `hi << 16 | lo` followed by `>> 16` / `& 0xFFFF` returns both fields
    exactly when the low field (the row of an origin, the height of a size) is below 2^16 and the
    high field below 2^16 (so that the value fits the `uint32`). -/
theorem mergemap_roundtrip (hi lo : Nat) (h1 : hi < 65536) (h2 : lo < 65536) :
    ∃ v, pack32 (hi : Int) (lo : Int) = .ok v ∧ v >>> 16 = hi ∧ v &&& 0xFFFF = lo :=
  ⟨_, pack32_ok hi lo h1 h2, unpack_hi hi lo h2, unpack_lo hi lo h2⟩

/-- ... and the bound on the low field is needed: row 65536, column 0 is read back as row 0, column 1. -/
theorem mergemap_roundtrip_needs_bound :
    ∃ v, pack32 0 65536 = .ok v ∧ (v >>> 16, v &&& 0xFFFF) = (1, 0) := ⟨65536, by decide, by decide⟩

/-- the largest row that survives is 65535. -/
theorem pack_bound_is_sharp :
    (∃ v, pack32 7 65535 = .ok v ∧ (v >>> 16, v &&& 0xFFFF) = (7, 65535)) ∧
    (∃ v, pack32 7 65536 = .ok v ∧ (v >>> 16, v &&& 0xFFFF) ≠ (7, 65536)) :=
  ⟨⟨7 * 65536 + 65535, by decide, by decide⟩, ⟨7 * 65536, by decide, by decide⟩⟩

/-- **Open = reloaded.**  Saving a consistent table with fewer than 65536 rows and columns and opening
    the file again (`packRanges` → `loadRanges` → `Table.__init__`) reproduces every cell — class, value,
    `is_merged`, `size`, `rect`, position — and a merge map with the same entries; hence also the same
    `merge_ranges`.  (Values themselves are assumed to round-trip: C01.) -/
theorem open_eq_reloaded (s : MState) (hs : Consistent s) (hnr : 0 < s.grid.numRows)
    (hr : s.grid.numRows < 65536) (hc : s.grid.numCols < 65536) :
    ∃ s', reload s = .ok s' ∧ s'.grid = s.grid ∧ ∀ k, s'.mmap.get k = s.mmap.get k :=
  reload_consistent s hs hnr hr hc

/-- **Writes.**  A `write` anywhere except into a placeholder (outside every rectangle, on an anchor,
    beyond the table edge with auto-extension) keeps the table consistent, hence keeps the picture and
    `open_eq_reloaded`.  (Writing into a placeholder is the known defect `write-into-placeholder`.) -/
theorem consistent_write (s : MState) (hs : Consistent s) (r c : Int) (v : Nat)
    (hnot : ∀ q ∈ rectsOf s.mmap, q.has (r, c) = true → (r, c) = q.origin)
    (s' : MState) (h : mwrite s r c v = .ok s') : Consistent s' ∧ s'.mmap = s.mmap :=
  safe_edit_consistent s hs (.write r c v) hnot s' h

/-- **Row / column edits after the rectangles** (`SafeEdit`: insertion or deletion index strictly
    greater than every rectangle's last row / column; appending is always such an edit) keep the table
    consistent, hence the open and the reloaded picture equal.

    `_partial`: the full statement of the property — the same for edits *before or inside* a rectangle —
    is false for the library (the merge map is not shifted; known finding `merge-map-not-shifted`, see the
    counter-example below), so it cannot be proved for a faithful model. -/
theorem consistent_safe_edit_partial (s : MState) (hs : Consistent s) (op : Grid.Op Nat) (hsafe : SafeEdit s op)
    (s' : MState) (h : mstep s op = .ok s') : Consistent s' ∧ s'.mmap = s.mmap :=
  safe_edit_consistent s hs op hsafe s' h

/-! ### non-vacuity and witnesses -/

/-- after merging B2:C3 on a 5×4 table, appending rows and deleting row 4 are `SafeEdit`s, inserting at
    the top is not. -/
example : (mergeOne (minit 5 4) 1 1 2 2).map (fun s => (rectsOf s.mmap, s.grid.numRows)) = .ok ([(1, 1, 2, 2)], 5) := by
  decide +kernel
example (s : MState) (h : rectsOf s.mmap = [(1, 1, 2, 2)]) (hn : s.grid.numRows = 5) :
    SafeEdit s (.addRow 2 none (some 3)) ∧ SafeEdit s (.delRow 1 (some 3)) ∧ ¬ SafeEdit s (.addRow 1 (some 0) none) := by
  simp only [SafeEdit, h, hn, Grid.startNat, List.mem_singleton, forall_eq]
  decide

/-- the known defect "merge map not shifted": merge B3:C4 on a 6×4 table, insert a row at the top.  The open
    table lists B4:C5, the reloaded one B3:C4. -/
example :
    (do let s1 ← mergeOne (minit 6 4) 2 1 3 2
        let s2 ← mstep s1 (.addRow 1 (some 0) none)
        let s3 ← reload s2
        let a ← mergeRanges s2
        let b ← mergeRanges s3
        pure (a, b)) = .ok ([(3, 1, 4, 2)], [(2, 1, 3, 2)]) := by decide +kernel


/-- B2:C3 on a 4×3 table with a value in the anchor: the whole picture, computed. -/
example :
    (do let s1 ← mwrite (minit 4 3) 1 1 5
        let s2 ← mergeOne s1 1 1 2 2
        let l ← mergeRanges s2
        pure (s2.grid.data.map (fun (r : List (CellM MCell)) =>
          r.map (fun (c : CellM MCell) => (c.val.ph, c.val.val, c.val.merged, c.val.size, c.val.rect))), l))
      = .ok ([[(false, 0, false, some (1, 1), none), (false, 0, false, some (1, 1), none), (false, 0, false, some (1, 1), none)],
              [(false, 0, false, some (1, 1), none), (false, 5, true, some (2, 2), none), (true, 0, false, none, some (1, 1, 2, 2))],
              [(false, 0, false, some (1, 1), none), (true, 0, false, none, some (1, 1, 2, 2)), (true, 0, false, none, some (1, 1, 2, 2))],
              [(false, 0, false, some (1, 1), none), (false, 0, false, some (1, 1), none), (false, 0, false, some (1, 1), none)]],
             [(1, 1, 2, 2)]) := by rfl

/-- the hypotheses of `merge_picture_list` / `open_eq_reloaded` are satisfiable by touching rectangles
    at the edges: three merges, then save + reopen gives the very same state. -/
example : (do let s ← mergeList (minit 4 3) [(0, 0, 3, 0), (0, 1, 0, 2), (1, 1, 2, 2)]; reload s)
    = mergeList (minit 4 3) [(0, 0, 3, 0), (0, 1, 0, 2), (1, 1, 2, 2)] := by decide +kernel

/-- the known defect "write into a placeholder": the open table shows the value, the reloaded one does not. -/
example :
    (do let s1 ← mergeOne (minit 3 3) 1 1 2 2
        let s2 ← mwrite s1 2 2 7
        let s3 ← reload s2
        pure ((s2.grid.data.map (fun (r : List (CellM MCell)) => r.map (fun (c : CellM MCell) => c.val.val))),
              (s3.grid.data.map (fun (r : List (CellM MCell)) => r.map (fun (c : CellM MCell) => c.val.val)))))
      = .ok ([[0, 0, 0], [0, 0, 0], [0, 0, 7]], [[0, 0, 0], [0, 0, 0], [0, 0, 0]]) := by rfl

end NumbersModel.Props.C12

/-! ## The packing clauses over the arithmetic translated from the Python source

`Gen/TrMerge.lean` is regenerated by `harness/py2lean.py` from `model.py` in the working tree on every check run: the body
of the loop of `recalculate_merged_cells` (`col << 16 | row`, `ncols << 16 | nrows`, each stored in a `uint32` field) and
the body of the loop of `calculate_merge_cell_ranges` up to the loops that fill the map (`>> 16`, `& 0xFFFF`, the two
`… - 1`).  `Lemmas/TrMerge.lean` proves them equal to `pack32` / `loadRange` for all ints resp. all stored values
(`|` and `&` with Python's two's-complement reading of negative operands). -/
namespace NumbersModel.Props.C12.Src
open NumbersModel NumbersModel.Merge NumbersModel.Gen.T NumbersModel.Translated

/-- **Packing round trip over the source.**  An anchor at `(row, col)` of size `(h, w)`, all four below 2^16: what the
    save loop stores is read back by the load loop as the same origin, the same size and the rectangle's last row / column. -/
theorem src_mergemap_roundtrip (row col h w : Nat) (hr : row < 65536) (hc : col < 65536) (hh : h < 65536) (hw : w < 65536) :
    ∃ o sz : Nat, merge_pack ((row : Int), (col : Int)) ((h : Int), (w : Int)) = .ok ((o : Int), (sz : Int)) ∧
      merge_unpack (o : Int) (sz : Int) =
        .ok ((row : Int), (col : Int), (row : Int) + (h : Int) - 1, (col : Int) + (w : Int) - 1, (h : Int), (w : Int)) := by
  refine ⟨col <<< 16 ||| row, w <<< 16 ||| h, ?_, ?_⟩
  · rw [merge_pack_eq_model, pack32_ok col row hc hr, pack32_ok w h hw hh]; rfl
  · rw [merge_unpack_values, unpack_hi col row hr, unpack_lo col row hr, unpack_hi w h hh, unpack_lo w h hh]

/-- a negative coordinate or size never reaches the file: the `uint32` field refuses it (`ValueError`). -/
theorem src_pack_rejects_negative (row col h w : Int) (hneg : row < 0 ∨ col < 0) :
    merge_pack (row, col) (h, w) = .error .ValueError := by
  rw [merge_pack_eq_model]
  have : col < 0 ∨ row < 0 := hneg.symm
  simp only [pack32, this, if_true, bind, Except.bind]

/-- the loop body of the reader is the model's `loadRange` (same entries in the same order), for every stored pair. -/
theorem src_load_range (m : MMap) (p : Nat × Nat) :
    (merge_unpack (p.1 : Int) (p.2 : Int)).map (fillRect m) = .ok (loadRange m p) := merge_unpack_eq_model m p

/-- the bound on the row is needed (known finding merge-origin-row-over-65535): row 65536, column 0 is stored without
    complaint and read back as row 0, column 1. -/
example : merge_pack (65536, 0) (1, 1) = .ok (65536, 65537) ∧ merge_unpack 65536 65537 = .ok (0, 1, 0, 1, 1, 1) := by
  decide +kernel

example : merge_pack (3, 70000) (1, 1) = .error .ValueError ∧ merge_pack (-1, 2) (1, 1) = .error .ValueError := by
  decide +kernel

end NumbersModel.Props.C12.Src
