/-
C15 — Styles and borders applied through the API read back equal, now and after reload.

Borders.  `Border.applyOps` is `Table.set_cell_border` (repaired call order) over a history of
strokes, `Border.extract` is what `extract_strokes` reads from the stored layers when the saved
file is opened, `Border.view` is `Cell.border.<side>`, `Border.lww` the specification: an edge map
in which the most recent stroke along a unit edge wins.  `cfs t sd r c` says that side `sd` of cell
`(r, c)` is shown by that cell (it is in the table and not interior to a merged rectangle).
Everything is for every table shape, every history and — via `Inv` — every starting file whose
stored layers are well formed (`SidecarOK`).

Styles.  `Style.key` is the de-duplication key of `update_cell_styles` (repaired),
`Style.dedup` the grouping it produces, `Style.fromStorage` the flags of a style that was read.
-/
import NumbersModel.Lemmas.Border
import NumbersModel.Lemmas.Style
namespace NumbersModel.Props.C15
open NumbersModel NumbersModel.Border

/-- what is expected of a slot: the most recent accepted stroke along its edge, if the cell shows
    that side at all. -/
def spec (t : Table) (ops : List Op) (r c : Nat) (sd : Side) : Option Nat :=
  if cfs t sd r c then lww (accepted t ops) (edgeOf sd r c) else none

/-- **open document = last writer wins**, for a new document (any initial order counter `m`),
    any table shape, any sequence of strokes, every cell and side. -/
theorem open_view_lww (t : Table) (m : Nat) (ops : List Op) (r c : Nat) (sd : Side) :
    view t (applyOps t (St.init m) ops).cells r c sd = spec t ops r c sd := by
  unfold spec view
  cases hc : cfs t sd r c
  · have := hidden_slot t _ (inv_applyOps t _ (inv_init t m) ops) r c sd hc
    simp [this]
  · rw [cfs_not_merged t sd r c hc]
    simp only [Bool.false_eq_true, if_false, if_true]
    rw [open_slot_lww t _ (inv_init t m) ops r c sd hc]
    have : ((St.init m).cells r c).get sd = none := by cases sd <;> rfl
    rw [this]
    cases lww (accepted t ops) (edgeOf sd r c) <;> rfl

/-- the same from any state that satisfies the invariant (e.g. a loaded file): a slot shows the most
    recent new stroke along its edge, or what it showed before if no new stroke runs along it. -/
theorem open_view_lww_from (t : Table) (st : St) (hinv : Inv t st) (ops : List Op) (r c : Nat) (sd : Side)
    (hc : cfs t sd r c = true) :
    view t (applyOps t st ops).cells r c sd =
      match lww (accepted t ops) (edgeOf sd r c) with
      | some s => some s
      | none => view t st.cells r c sd := by
  unfold view
  rw [cfs_not_merged t sd r c hc]
  simp only [Bool.false_eq_true, if_false]
  exact open_slot_lww t st hinv ops r c sd hc

/-- **the file agrees with the open document**: from any state satisfying the invariant, after any
    history, what `extract_strokes` reads from the stored layers equals the open view, slot by slot. -/
theorem open_eq_saved (t : Table) (st : St) (hinv : Inv t st) (ops : List Op) (r c : Nat) (sd : Side) :
    view t (applyOps t st ops).cells r c sd = view t (extract t (applyOps t st ops).sc) r c sd := by
  unfold view
  split
  · rfl
  · exact open_eq_extract t _ (inv_applyOps t st hinv ops) r c sd

/-- **saved file = last writer wins**. -/
theorem saved_view_lww (t : Table) (m : Nat) (ops : List Op) (r c : Nat) (sd : Side) :
    view t (extract t (applyOps t (St.init m) ops).sc) r c sd = spec t ops r c sd := by
  rw [← open_eq_saved t _ (inv_init t m) ops r c sd]
  exact open_view_lww t m ops r c sd

/-- the invariant holds of a new document and of every file whose layers are well formed, and
    every stroke keeps it (so save / reopen may happen at any point of a history). -/
theorem load_establishes_inv (t : Table) :
    (∀ m, Inv t (St.init m)) ∧
    (∀ sc, SidecarOK sc → Inv t ⟨extract t sc, sc⟩) ∧
    (∀ st, Inv t st → ∀ ops, Inv t (applyOps t st ops) ∧ SidecarOK (applyOps t st ops).sc) :=
  ⟨inv_init t, inv_load t, fun st h ops => ⟨inv_applyOps t st h ops, (inv_applyOps t st h ops).ok⟩⟩

/-- **a shared edge is reported by both cells**: two visible slots on the same unit edge (the bottom
    of a cell and the top of the cell below, …) always show the same stroke. -/
theorem shared_edge_both_sides (t : Table) (st : St) (hinv : Inv t st) (r c r' c' : Nat) (sd sd' : Side)
    (h1 : cfs t sd r c = true) (h2 : cfs t sd' r' c' = true) (he : edgeOf sd r c = edgeOf sd' r' c') :
    view t st.cells r c sd = view t st.cells r' c' sd' := by
  unfold view
  rw [cfs_not_merged t sd r c h1, cfs_not_merged t sd' r' c' h2]
  simp only [Bool.false_eq_true, if_false]
  have g1 := (hinv.agree r c sd).1 h1
  have g2 := (hinv.agree r' c' sd').1 h2
  rw [he] at g1
  exact g1.unique g2 (fun b b' => hinv.ok.coherent _ b b')

/-- the API call is total on in-range start cells (IndexError is the only exception, and only
    outside the table). -/
theorem api_total_in_range (t : Table) (st : St) (ops : List Op)
    (h : ∀ op ∈ ops, op.row < t.nrows ∧ op.col < t.ncols) :
    apiStrokes t st ops = .ok (applyOps t st ops) := apiStrokes_ok t ops h st

/-! ### styles -/

/-- the repaired de-duplication key determines every attribute a cell-style archive stores. -/
theorem fingerprint_injective (a b : Style.CellAttrs) (h : Style.key a = Style.key b) : a = b :=
  Style.key_injective a b h

/-- hence two cells are pointed at the same new cell-style object only if their styles agree on
    every stored attribute (and only cells whose style is marked changed are touched). -/
theorem dedup_shares_only_equal (cells : List (Bool × Style.CellAttrs)) (i j g : Nat) (ci cj : Bool × Style.CellAttrs)
    (hi : cells[i]? = some ci) (hj : cells[j]? = some cj)
    (gi : (Style.dedup Style.key cells)[i]? = some (some g)) (gj : (Style.dedup Style.key cells)[j]? = some (some g)) :
    ci.2 = cj.2 ∧ ci.1 = true ∧ cj.1 = true := by
  obtain ⟨final, _, hf⟩ := Style.dedupGo_spec Style.key cells []
  obtain ⟨d1, k1⟩ := hf i g ci hi gi
  obtain ⟨d2, k2⟩ := hf j g cj hj gj
  rw [k1] at k2
  exact ⟨Style.key_injective _ _ (Option.some.inj k2), d1, d2⟩

/-- **reading is pure**: a style obtained by reading a cell is not marked changed, and a table
    whose cells carry only such styles gets no new cell style on save. -/
theorem reading_is_pure :
    Style.fromStorage = ⟨false, false⟩ ∧
    ∀ (cells : List (Bool × Style.CellAttrs)), (∀ c ∈ cells, c.1 = Style.fromStorage.updCell) →
      Style.dedup Style.key cells = cells.map (fun _ => none) :=
  ⟨rfl, fun cells h => Style.dedupGo_clean Style.key cells h []⟩

/-! ### the defects of the pinned commit, as theorems about the pinned variants -/

def plain3 : Table := ⟨3, 3, fun _ _ => .plain⟩

/-- (a) a second stroke over an existing edge is ignored by the open document but saved:
    after `top (1,1)` with stroke 7 and again with stroke 9 the open cell shows 7, the file 9. -/
example : view plain3 ([⟨.top, 1, 1, 1, 7⟩, ⟨.top, 1, 1, 1, 9⟩].foldl (applyOpPinned plain3) (St.init 2)).cells 1 1 .top
    = some 7 := by decide
example : view plain3 (extract plain3
    ([⟨.top, 1, 1, 1, 7⟩, ⟨.top, 1, 1, 1, 9⟩].foldl (applyOpPinned plain3) (St.init 2)).sc) 1 1 .top = some 9 := by decide
/-- repaired: both 9, also on the neighbour above. -/
example : view plain3 (applyOps plain3 (St.init 2) [⟨.top, 1, 1, 1, 7⟩, ⟨.top, 1, 1, 1, 9⟩]).cells 1 1 .top = some 9 := by
  decide
example : view plain3 (applyOps plain3 (St.init 2) [⟨.top, 1, 1, 1, 7⟩, ⟨.top, 1, 1, 1, 9⟩]).cells 0 1 .bottom = some 9 := by
  decide

/-- (b) the pinned fingerprint is not injective: `right_indent=1.0, text_inset=11.0` and
    `right_indent=1.01, text_inset=1.0` collide (`"1.0" ++ "11.0" = "1.01" ++ "1.0"`). -/
def styA : Style.CellAttrs := ⟨"0".toList, "0".toList, "0".toList, "1.0".toList, "11.0".toList, "True".toList, [], []⟩
def styB : Style.CellAttrs := ⟨"0".toList, "0".toList, "0".toList, "1.01".toList, "1.0".toList, "True".toList, [], []⟩
example : Style.keyPinned styA = Style.keyPinned styB ∧ styA ≠ styB := by decide
example : Style.dedup Style.keyPinned [(true, styA), (true, styB)] = [some 0, some 0] := by decide
example : Style.dedup Style.key [(true, styA), (true, styB)] = [some 0, some 1] := by decide

/-- (c)/(d) in the pinned commit a style that was merely read is marked changed (the dataclass
    constructor assigns every field through `__setattr__`, per the live attribute tables). -/
example : Style.fromStoragePinned = ⟨true, true⟩ := by decide

/-! ### non-vacuity -/

/-- a merged table: B2:C2 (anchor (1,1), one row high) in 4×4; overlapping, abutting and superseding strokes. -/
def merged4 : Table := ⟨4, 4, fun r c =>
  if r = 1 ∧ c = 1 then .anchor 1 2 else if r = 1 ∧ c = 2 then .ref 1 1 1 2 else .plain⟩

def hist : List Op :=
  [⟨.bottom, 1, 0, 4, 5⟩, ⟨.top, 2, 1, 2, 6⟩, ⟨.right, 1, 1, 1, 8⟩, ⟨.bottom, 1, 2, 1, 7⟩, ⟨.left, 0, 2, 3, 4⟩]

example : accepted merged4 hist = [⟨.bottom, 1, 0, 4, 5⟩, ⟨.top, 2, 1, 2, 6⟩, ⟨.bottom, 1, 2, 1, 7⟩, ⟨.left, 0, 2, 3, 4⟩] := by
  decide
example : (List.range 4).map (fun c => view merged4 (applyOps merged4 (St.init 2) hist).cells 1 c .bottom)
    = [some 5, some 6, some 7, some 5] := by decide
example : (List.range 4).map (fun c => view merged4 (extract merged4 (applyOps merged4 (St.init 2) hist).sc) 2 c .top)
    = [some 5, some 6, some 7, some 5] := by decide
/-- the interior edge of the merge (left of C2) is not shown although stroke 4 runs along it. -/
example : view merged4 (applyOps merged4 (St.init 2) hist).cells 1 2 .left = none ∧
    view merged4 (applyOps merged4 (St.init 2) hist).cells 0 2 .left = some 4 := by decide
/-- what the history stores in the bottom layers: the 4-unit run split around the later stroke 7 ("middle" case). -/
example : (applyOps merged4 (St.init 2) hist).sc.bottom =
    [⟨1, [⟨0, 2, ⟨5, 3⟩⟩, ⟨2, 1, ⟨7, 5⟩⟩, ⟨3, 1, ⟨5, 3⟩⟩]⟩] := by decide

end NumbersModel.Props.C15
