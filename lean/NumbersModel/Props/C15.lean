/-
C15 — Styles and borders applied through the API read back equal, now and after reload.

Borders.  `Border.applyOps` is `Table.set_cell_border` (repaired call order) over a history of
strokes, `Border.extract` is what `extract_strokes` reads from the stored layers when the saved
file is opened, `Border.view` is `Cell.border.<side>`, `Border.lww` the specification: an edge map
in which the most recent stroke along a unit edge wins.  `cfs t sd r c` says that side `sd` of cell
`(r, c)` is shown by that cell (it is in the table and not interior to a merged rectangle).
Everything is for every table shape, every history and — via `Inv` — every starting file whose
stored layers are well formed (`SidecarOK`).

Editing histories.  `Border.Step` is one API call out of `set_cell_border`, `Table.write`, `merge_cells` (any
rectangle) and `add_row(n)` / `add_column(n)` without a start index; `Doc.run` runs a history on a table of an
open document (as repaired: `write` keeps the border object of the cell it replaces, `merge_cells` and appended
rows / columns drop the `extract_strokes` cache entry so that the borders are extracted again onto the cells as
they are); `Doc.view` is `Cell.border.<side>`, `Doc.savedView` what a reopened copy reports; `histSpec` is the
specification: the table shape after the history and the edge map of the accepted strokes.  Not covered (no
step for them): rows / columns inserted before the end, deleted rows / columns, `write` onto a placeholder of
a merged rectangle, `merge_cells` over an existing merged rectangle (the model's `mergeKind` is the merge map
only for rectangles that do not overlap earlier ones).

Styles.  `Style.key` is the de-duplication key of `update_cell_styles` (repaired),
`Style.dedup` the grouping it produces, `Style.fromStorage` the flags of a style that was read.

Style storage path (`Model/StyleStore.lean`).  `StyleStore.Sty` is the sixteen public attributes of a
`Style`, `addParagraphStyle` / `updateParagraphStyle` / `addCellStyle` are the writers,
`StyleStore.fromStorage` is `Style.from_storage` over the readers (own member, else the parent's, else
the protobuf default), `toBufferIds` the style ids `Cell._to_buffer` writes, `Num` the rounding of
protobuf `float` fields (`f32`) and Python float arithmetic (`f64`); `quantize n s` is `s` with its five
float attributes as a `float` field holds them (`= s` when they are binary32 values).
-/
import NumbersModel.Lemmas.Border
import NumbersModel.Lemmas.BorderEdits
import NumbersModel.Lemmas.Style
import NumbersModel.Lemmas.StyleStoreRW
namespace NumbersModel.Props.C15
open NumbersModel NumbersModel.Border

/-- what is expected of a slot: the most recent accepted stroke along its edge, if the cell shows
    that side at all. -/
def spec (t : Table) (ops : List Op) (r c : Nat) (sd : Side) : Option Nat :=
  if cfs t sd r c then lww (accepted t ops) (edgeOf sd r c) else none

/-- **open document = last writer wins**, for a new document (any initial order counter `m`),
    any table shape, any sequence of strokes, every cell and side. -/
theorem open_view_lww (t : Table) (m : Nat) (ops : List Op) (r c : Nat) (sd : Side) :
    view t (applyOps t (St.init m) ops).cells r c sd = spec t ops r c sd := by
  unfold spec view
  cases hc : cfs t sd r c
  · have := hidden_slot t _ (inv_applyOps t _ (inv_init t m) ops) r c sd hc
    simp [this]
  · rw [cfs_not_merged t sd r c hc]
    simp only [Bool.false_eq_true, if_false, if_true]
    rw [open_slot_lww t _ (inv_init t m) ops r c sd hc]
    have : ((St.init m).cells r c).get sd = none := by cases sd <;> rfl
    rw [this]
    cases lww (accepted t ops) (edgeOf sd r c) <;> rfl

/-- the same from any state that satisfies the invariant (e.g. a loaded file): a slot shows the most
    recent new stroke along its edge, or what it showed before if no new stroke runs along it. -/
theorem open_view_lww_from (t : Table) (st : St) (hinv : Inv t st) (ops : List Op) (r c : Nat) (sd : Side)
    (hc : cfs t sd r c = true) :
    view t (applyOps t st ops).cells r c sd =
      match lww (accepted t ops) (edgeOf sd r c) with
      | some s => some s
      | none => view t st.cells r c sd := by
  unfold view
  rw [cfs_not_merged t sd r c hc]
  simp only [Bool.false_eq_true, if_false]
  exact open_slot_lww t st hinv ops r c sd hc

/-- **the file agrees with the open document**: from any state satisfying the invariant, after any
    history, what `extract_strokes` reads from the stored layers equals the open view, slot by slot. -/
theorem open_eq_saved (t : Table) (st : St) (hinv : Inv t st) (ops : List Op) (r c : Nat) (sd : Side) :
    view t (applyOps t st ops).cells r c sd = view t (extract t (applyOps t st ops).sc) r c sd := by
  unfold view
  split
  · rfl
  · exact open_eq_extract t _ (inv_applyOps t st hinv ops) r c sd

/-- **saved file = last writer wins**. -/
theorem saved_view_lww (t : Table) (m : Nat) (ops : List Op) (r c : Nat) (sd : Side) :
    view t (extract t (applyOps t (St.init m) ops).sc) r c sd = spec t ops r c sd := by
  rw [← open_eq_saved t _ (inv_init t m) ops r c sd]
  exact open_view_lww t m ops r c sd

/-- the invariant holds of a new document and of every file whose layers are well formed, and
    every stroke keeps it (so save / reopen may happen at any point of a history). -/
theorem load_establishes_inv (t : Table) :
    (∀ m, Inv t (St.init m)) ∧
    (∀ sc, SidecarOK sc → Inv t ⟨extract t sc, sc⟩) ∧
    (∀ st, Inv t st → ∀ ops, Inv t (applyOps t st ops) ∧ SidecarOK (applyOps t st ops).sc) :=
  ⟨inv_init t, inv_load t, fun st h ops => ⟨inv_applyOps t st h ops, (inv_applyOps t st h ops).ok⟩⟩

/-- **a shared edge is reported by both cells**: two visible slots on the same unit edge (the bottom
    of a cell and the top of the cell below, …) always show the same stroke. -/
theorem shared_edge_both_sides (t : Table) (st : St) (hinv : Inv t st) (r c r' c' : Nat) (sd sd' : Side)
    (h1 : cfs t sd r c = true) (h2 : cfs t sd' r' c' = true) (he : edgeOf sd r c = edgeOf sd' r' c') :
    view t st.cells r c sd = view t st.cells r' c' sd' := by
  unfold view
  rw [cfs_not_merged t sd r c h1, cfs_not_merged t sd' r' c' h2]
  simp only [Bool.false_eq_true, if_false]
  have g1 := (hinv.agree r c sd).1 h1
  have g2 := (hinv.agree r' c' sd').1 h2
  rw [he] at g1
  exact g1.unique g2 (fun b b' => hinv.ok.coherent _ b b')

/-- the API call is total on in-range start cells (IndexError is the only exception, and only
    outside the table). -/
theorem api_total_in_range (t : Table) (st : St) (ops : List Op)
    (h : ∀ op ∈ ops, op.row < t.nrows ∧ op.col < t.ncols) :
    apiStrokes t st ops = .ok (applyOps t st ops) := apiStrokes_ok t ops h st

/-! ### histories that interleave strokes with writes, merges and appended rows / columns -/

/-- what is expected of a slot after an editing history on a new document: the most recent accepted stroke
    along its unit edge (whenever it was drawn — before or after the cell was written to, merged around or
    appended), if the cell of the final table shows that side. -/
def specEdits (t : Table) (steps : List Step) (r c : Nat) (sd : Side) : Option Nat :=
  if cfs (histSpec t (fun _ => none) steps).1 sd r c then (histSpec t (fun _ => none) steps).2 (edgeOf sd r c) else none

/-- **open document = last writer wins, through edits**: new document (any order counter), any table shape,
    any history of strokes, writes, merges and appended rows / columns that does not raise. -/
theorem open_view_lww_edits (t : Table) (m : Nat) (steps : List Step) (d : Doc)
    (hrun : (Doc.init t m).run steps = .ok d) (r c : Nat) (sd : Side) :
    d.view r c sd = specEdits t steps r c sd := by
  obtain ⟨hinv, ht⟩ := docInv_run steps _ d _ (docInv_init t m) hrun
  rw [view_of_docInv d _ hinv, ht]
  rfl

/-- **saved file = last writer wins, through edits**. -/
theorem saved_view_lww_edits (t : Table) (m : Nat) (steps : List Step) (d : Doc)
    (hrun : (Doc.init t m).run steps = .ok d) (r c : Nat) (sd : Side) :
    d.savedView r c sd = specEdits t steps r c sd := by
  obtain ⟨hinv, ht⟩ := docInv_run steps _ d _ (docInv_init t m) hrun
  rw [savedView_of_docInv d _ hinv, ht]
  rfl

/-- the same from any state that satisfies the stroke-history invariant (e.g. a loaded file) whose layers
    have the edge map `em`: the final table shape and edge map are those of the specification. -/
theorem open_view_lww_edits_from (t : Table) (st : St) (hinv : Inv t st) (em : EdgeMap) (hem : Tops st.sc em)
    (steps : List Step) (d : Doc) (hrun : (Doc.mk t st false).run steps = .ok d) (r c : Nat) (sd : Side) :
    d.view r c sd =
      if cfs (histSpec t em steps).1 sd r c then (histSpec t em steps).2 (edgeOf sd r c) else none := by
  obtain ⟨h, ht⟩ := docInv_run steps _ d _ (docInv_of_inv t st hinv em hem) hrun
  rw [view_of_docInv d _ h, ht]

/-- **the file agrees with the open document, through edits**: from any state satisfying the invariant (new
    document, loaded file, after any strokes), after any editing history, every cell side of the open
    document shows what a reopened copy of the saved file shows. -/
theorem open_eq_saved_edits (t : Table) (st : St) (hinv : Inv t st) (steps : List Step) (d : Doc)
    (hrun : (Doc.mk t st false).run steps = .ok d) (r c : Nat) (sd : Side) :
    d.view r c sd = d.savedView r c sd := by
  obtain ⟨em, hem⟩ := exists_tops st.sc hinv.ok
  obtain ⟨h, _⟩ := docInv_run steps _ d _ (docInv_of_inv t st hinv em hem) hrun
  rw [view_of_docInv d _ h, savedView_of_docInv d _ h]

/-- **a shared edge is reported by both cells, through edits**: after any editing history two visible slots
    on the same unit edge show the same stroke. -/
theorem shared_edge_both_sides_edits (t : Table) (st : St) (hinv : Inv t st) (steps : List Step) (d : Doc)
    (hrun : (Doc.mk t st false).run steps = .ok d) (r c r' c' : Nat) (sd sd' : Side)
    (h1 : cfs d.t sd r c = true) (h2 : cfs d.t sd' r' c' = true) (he : edgeOf sd r c = edgeOf sd' r' c') :
    d.view r c sd = d.view r' c' sd' := by
  obtain ⟨em, hem⟩ := exists_tops st.sc hinv.ok
  obtain ⟨h, _⟩ := docInv_run steps _ d _ (docInv_of_inv t st hinv em hem) hrun
  rw [view_of_docInv d _ h, view_of_docInv d _ h, h1, h2, he]

/-- editing histories keep the stroke-history invariant (once `extract_strokes` has run again), so strokes,
    edits and save / reopen may be interleaved in any order and the stroke-only theorems above apply to the
    state an editing history leaves behind. -/
theorem edits_keep_inv (t : Table) (st : St) (hinv : Inv t st) (steps : List Step) (d : Doc)
    (hrun : (Doc.mk t st false).run steps = .ok d) :
    Inv d.t d.ensure.st ∧ SidecarOK d.st.sc := by
  obtain ⟨em, hem⟩ := exists_tops st.sc hinv.ok
  obtain ⟨h, _⟩ := docInv_run steps _ d _ (docInv_of_inv t st hinv em hem) hrun
  exact ⟨inv_ensure d _ h, h.ok⟩

/-- a history whose cell arguments lie in the table (as it is when the call is made) does not raise. -/
theorem edits_total_in_range (d0 : Doc) (steps : List Step) (h : StepsInRange d0.t steps) :
    ∃ d, d0.run steps = .ok d := run_ok steps d0 h

/-! non-vacuity and the three recorded defects of the pinned commit -/

def plain5 : Table := ⟨5, 5, fun _ _ => .plain⟩

/-- (open view, reloaded view) of a slot after a history on a new 5×5 table -/
def after (run : Doc → List Step → PyM Doc) (steps : List Step) (r c : Nat) (sd : Side) : Option (Option Nat × Option Nat) :=
  match run (Doc.init plain5 2) steps with
  | .ok d => some (d.view r c sd, d.savedView r c sd)
  | .error _ => none

/-- `border-lost-after-write`: top of B2 stroked, then a value written to B2 -/
example : after Doc.runPinned [.stroke ⟨.top, 1, 1, 1, 7⟩, .write 1 1] 1 1 .top = some (none, some 7) := by decide
example : after Doc.run [.stroke ⟨.top, 1, 1, 1, 7⟩, .write 1 1] 1 1 .top = some (some 7, some 7) := by decide
/-- `border-lost-after-merge-cells`: top of A1 stroked, then C3:D4 merged -/
example : after Doc.runPinned [.stroke ⟨.top, 0, 0, 1, 7⟩, .merge 2 2 1 1] 0 0 .top = some (none, some 7) := by decide
example : after Doc.run [.stroke ⟨.top, 0, 0, 1, 7⟩, .merge 2 2 1 1] 0 0 .top = some (some 7, some 7) := by decide
/-- `size-changes-on-reopen-after-add-next-to-stroke`: bottom of A5 stroked, two rows appended: the new A6
    shares the edge -/
example : after Doc.runPinned [.stroke ⟨.bottom, 4, 0, 1, 7⟩, .addRows 2] 5 0 .top = some (none, some 7) := by decide
example : after Doc.run [.stroke ⟨.bottom, 4, 0, 1, 7⟩, .addRows 2] 5 0 .top = some (some 7, some 7) := by decide
/-- a stroke that runs past the last row is picked up by the rows appended later (no neighbour carries it) -/
example : after Doc.run [.stroke ⟨.left, 3, 2, 4, 9⟩, .addRows 1, .addCols 1] 5 2 .left = some (some 9, some 9) ∧
    after Doc.run [.stroke ⟨.left, 3, 2, 4, 9⟩, .addRows 1, .addCols 1] 5 1 .right = some (some 9, some 9) := by decide

/-- an interleaved history: strokes before and after a merge that swallows part of them, a write onto the
    anchor, a refused stroke, appended rows and columns, a stroke on the new cells -/
def histE : List Step :=
  [.stroke ⟨.bottom, 1, 0, 5, 5⟩, .stroke ⟨.right, 0, 1, 4, 6⟩, .merge 1 1 1 1, .write 1 1, .stroke ⟨.right, 1, 1, 1, 8⟩,
   .stroke ⟨.top, 1, 2, 2, 4⟩, .addRows 1, .addCols 2, .stroke ⟨.bottom, 5, 3, 3, 3⟩, .write 5 4, .merge 4 5 1 1]

example : StepsInRange plain5 histE := by
  simp [histE, StepsInRange, Step.InRange, stepTable, plain5]
example : (histSpec plain5 (fun _ => none) histE).1.nrows = 6 ∧ (histSpec plain5 (fun _ => none) histE).1.ncols = 7 := by decide +kernel
/-- the edge right of column B: rows 1, 2 are now inside B2:C3 (hidden), rows 0 and 3 still show stroke 6;
    the refused stroke 8 is nowhere -/
example : (List.range 4).map (fun r => after Doc.run histE r 1 .right) =
    [some (some 6, some 6), some (none, none), some (none, none), some (some 6, some 6)] := by decide +kernel
/-- the bottom of row 1 in columns 1, 2 is inside the merge; C2's top (placeholder, first row) shows stroke 4 -/
example : (List.range 5).map (fun c => after Doc.run histE 1 c .bottom) =
    [some (some 5, some 5), some (none, none), some (none, none), some (some 5, some 5), some (some 5, some 5)] ∧
    after Doc.run histE 1 2 .top = some (some 4, some 4) ∧ after Doc.run histE 0 2 .bottom = some (some 4, some 4) := by decide +kernel
/-- the stroke on the appended row is shown by the appended cells, also by the written one; (5, 5) has
    become a placeholder of F5:G6 whose bottom row it is -/
example : (List.range 7).map (fun c => after Doc.run histE 5 c .bottom) =
    [some (none, none), some (none, none), some (none, none), some (some 3, some 3), some (some 3, some 3),
     some (some 3, some 3), some (none, none)] := by decide +kernel
example : (List.range 4).map (fun r => specEdits plain5 histE r 1 .right) = [some 6, none, none, some 6] := by decide +kernel

/-! ### styles -/

/-- the repaired de-duplication key determines every attribute a cell-style archive stores. -/
theorem fingerprint_injective (a b : Style.CellAttrs) (h : Style.key a = Style.key b) : a = b :=
  Style.key_injective a b h

/-- hence two cells are pointed at the same new cell-style object only if their styles agree on
    every stored attribute (and only cells whose style is marked changed are touched). -/
theorem dedup_shares_only_equal (cells : List (Bool × Style.CellAttrs)) (i j g : Nat) (ci cj : Bool × Style.CellAttrs)
    (hi : cells[i]? = some ci) (hj : cells[j]? = some cj)
    (gi : (Style.dedup Style.key cells)[i]? = some (some g)) (gj : (Style.dedup Style.key cells)[j]? = some (some g)) :
    ci.2 = cj.2 ∧ ci.1 = true ∧ cj.1 = true := by
  obtain ⟨final, _, hf⟩ := Style.dedupGo_spec Style.key cells []
  obtain ⟨d1, k1⟩ := hf i g ci hi gi
  obtain ⟨d2, k2⟩ := hf j g cj hj gj
  rw [k1] at k2
  exact ⟨Style.key_injective _ _ (Option.some.inj k2), d1, d2⟩

/-- **reading is pure**: a style obtained by reading a cell is not marked changed, and a table
    whose cells carry only such styles gets no new cell style on save. -/
theorem reading_is_pure :
    Style.fromStorage = ⟨false, false⟩ ∧
    ∀ (cells : List (Bool × Style.CellAttrs)), (∀ c ∈ cells, c.1 = Style.fromStorage.updCell) →
      Style.dedup Style.key cells = cells.map (fun _ => none) :=
  ⟨rfl, fun cells h => Style.dedupGo_clean Style.key cells h []⟩

/-! ### style storage path: every attribute is stored in and read from its own field -/

section storage
open NumbersModel.StyleStore

/-- **colour arithmetic**: `round(f32(c / 255) * 255) = c` for every channel value `0 ≤ c ≤ 255`, for every
    rounding behaviour of the float32 store and of the two Python float operations whose relative error is
    at most `2^-24` (`RelErr24 f : ∀ x, |f x - x| ≤ |x| / 2^24`). Over the rationals; no enumeration. -/
theorem colour_roundtrip (n : Num) (h32 : RelErr24 n.f32) (h64 : RelErr24 n.f64) (c : Int) (h0 : 0 ≤ c) (h255 : c ≤ 255) :
    chanOfArc n (chanToArc n c) = c :=
  chan_roundtrip_of_relErr n h32 h64 c h0 h255

/-- the same for the concrete formats (correctly rounded binary64 division and product, binary32 store,
    `round` half-even): all 256 values decided in the kernel. -/
theorem colour_roundtrip_binary32 (c : Int) (h0 : 0 ≤ c) (h255 : c ≤ 255) :
    chanOfArc Num.ieee (chanToArc Num.ieee c) = c :=
  chan_roundtrip_ieee c h0 h255

/-- a font family that `add_paragraph_style` accepts is read back from the name it stores
    (`FONT_NAME_TO_FAMILY[FONT_FAMILY_TO_NAME[f]] = f` for every family of the regenerated table). -/
theorem font_name_roundtrip (family name : Codes) (h : dictGet fontFamilyToName family = .ok name) :
    dictGet Gen.fontNameToFamily name = .ok family :=
  font_roundtrip family name h

/-- **write, then read, attribute by attribute**.  Let `s` be any style whose colour components are in
    0..255, whose alignment members are enum members and which has at most one fill (`Storable`), `p` the
    paragraph-style archive and `ca` the cell-style archive the writers produce for it (so the font is in the
    table and the background is not a gradient).  Then for every store, table and cell whose text-style key
    resolves to `p` and whose cell-style key resolves to `ca` — with any parent references, and any name on
    the cell archive — `Style.from_storage` returns exactly `s` with its floats as binary32 holds them: no
    attribute is read from another attribute's field. -/
theorem style_attributes_after_reload_quantized (n : Num) (hcol : ColourOK n) (s : Sty) (hs : s.Storable)
    (imgs imgs' : Images) (hw : imgs.WF) (hag : ∀ img, s.bgImage = some img → imgs.Agrees img)
    (p : ParaArc) (ca : CellArc) (hp : addParagraphStyle n s = .ok p) (hc : addCellStyle n s imgs = .ok (ca, imgs'))
    (par cpar : Option Nat) (nm : Text) (st : Store) (t : TableCtx) (c : CellIds)
    (hpt : Points st t c { p with parent := par } { ca with parent := cpar, name := nm }) :
    fromStorage n st t imgs' c = .ok (quantize n s) :=
  fromStorage_written n hcol s hs imgs imgs' hw hag p ca hp hc par cpar nm st t c hpt

/-- **styles read back equal after reload**: if moreover the five float attributes are values a `float`
    field holds (`n.f32 x = x`), the style read back is `s` itself. -/
theorem style_attributes_after_reload (n : Num) (hcol : ColourOK n) (s : Sty) (hs : s.Storable)
    (hrep : n.f32 s.fontSize = s.fontSize ∧ n.f32 s.firstIndent = s.firstIndent ∧ n.f32 s.leftIndent = s.leftIndent ∧
      n.f32 s.rightIndent = s.rightIndent ∧ n.f32 s.textInset = s.textInset)
    (imgs imgs' : Images) (hw : imgs.WF) (hag : ∀ img, s.bgImage = some img → imgs.Agrees img)
    (p : ParaArc) (ca : CellArc) (hp : addParagraphStyle n s = .ok p) (hc : addCellStyle n s imgs = .ok (ca, imgs'))
    (par cpar : Option Nat) (nm : Text) (st : Store) (t : TableCtx) (c : CellIds)
    (hpt : Points st t c { p with parent := par } { ca with parent := cpar, name := nm }) :
    fromStorage n st t imgs' c = .ok s := by
  rw [fromStorage_written n hcol s hs imgs imgs' hw hag p ca hp hc par cpar nm st t c hpt]
  obtain ⟨h1, h2, h3, h4, h5⟩ := hrep
  cases s
  simp only [quantize] at *
  rw [h1, h2, h3, h4, h5]

/-- the concrete formats need no hypothesis on the numbers. -/
theorem style_attributes_after_reload_binary32 (s : Sty) (hs : s.Storable)
    (imgs imgs' : Images) (hw : imgs.WF) (hag : ∀ img, s.bgImage = some img → imgs.Agrees img)
    (p : ParaArc) (ca : CellArc) (hp : addParagraphStyle Num.ieee s = .ok p)
    (hc : addCellStyle Num.ieee s imgs = .ok (ca, imgs'))
    (par cpar : Option Nat) (nm : Text) (st : Store) (t : TableCtx) (c : CellIds)
    (hpt : Points st t c { p with parent := par } { ca with parent := cpar, name := nm }) :
    fromStorage Num.ieee st t imgs' c = .ok (quantize Num.ieee s) :=
  fromStorage_written Num.ieee (fun c h0 h1 => chan_roundtrip_ieee c h0 h1) s hs imgs imgs' hw hag p ca hp hc par cpar nm st t c hpt

/-- a style that already has a paragraph archive and is changed (any attributes, the name included —
    repaired) is read back from the updated archive. -/
theorem updated_style_reads_back (n : Num) (hcol : ColourOK n) (s : Sty) (hs : s.Storable)
    (imgs imgs' : Images) (hw : imgs.WF) (hag : ∀ img, s.bgImage = some img → imgs.Agrees img)
    (old p : ParaArc) (ca : CellArc) (hp : updateParagraphStyle n s old = .ok p) (hc : addCellStyle n s imgs = .ok (ca, imgs'))
    (st : Store) (t : TableCtx) (c : CellIds) (hpt : Points st t c p ca) :
    fromStorage n st t imgs' c = .ok (quantize n s) := by
  obtain ⟨q, hq, rfl⟩ := updateParagraphStyle_ok n s old p hp
  exact fromStorage_written n hcol s hs imgs imgs' hw hag q ca hq hc old.parent ca.parent ca.name st t c hpt

/-- **sharing a cell archive through the fingerprint is sound**: a cell whose text style was written for `s'`
    and whose cell style is the archive written for another style `s` with the same fingerprint (image
    file names identify images) reads `s'` back. -/
theorem shared_cell_style_reads_back (n : Num) (hcol : ColourOK n) (s s' : Sty) (hs' : s'.Storable)
    (hfp : fingerprint s = fingerprint s')
    (hfn : ∀ i i', s.bgImage = some i → s'.bgImage = some i' → i.filename = i'.filename → i = i')
    (imgs imgs' : Images) (hw : imgs.WF) (hag : ∀ img, s'.bgImage = some img → imgs.Agrees img)
    (p' : ParaArc) (ca : CellArc) (hp : addParagraphStyle n s' = .ok p') (hc : addCellStyle n s imgs = .ok (ca, imgs'))
    (st : Store) (t : TableCtx) (c : CellIds) (hpt : Points st t c p' ca) :
    fromStorage n st t imgs' c = .ok (quantize n s') :=
  fromStorage_written n hcol s' hs' imgs imgs' hw hag p' _ hp (addCellStyle_of_fingerprint n s s' imgs imgs' ca hfp hfn hc)
    p'.parent ca.parent ca.name st t c hpt

/-- **two styles that differ are stored in archives that differ**: storable styles (same image table) whose
    paragraph archives and cell archives coincide agree on all sixteen attributes (floats as stored). -/
theorem style_archives_injective (n : Num) (hcol : ColourOK n) (s s' : Sty) (hs : s.Storable) (hs' : s'.Storable)
    (imgs imgs' : Images) (hw : imgs.WF) (hag : ∀ img, s.bgImage = some img → imgs.Agrees img)
    (hag' : ∀ img, s'.bgImage = some img → imgs.Agrees img) (p : ParaArc) (ca : CellArc)
    (hp : addParagraphStyle n s = .ok p) (hp' : addParagraphStyle n s' = .ok p)
    (hc : addCellStyle n s imgs = .ok (ca, imgs')) (hc' : addCellStyle n s' imgs = .ok (ca, imgs')) :
    quantize n s = quantize n s' := by
  let t : TableCtx := ⟨[(1, 1), (2, 2)], 1, 0, 0, 0, 0, 0, 0, 0⟩
  have hpt : Points [(1, .para p), (2, .cell ca)] t ⟨0, 0, some 1, some 2⟩ p ca :=
    ⟨⟨1, rfl, rfl⟩, ⟨2, rfl, rfl⟩⟩
  have h1 := fromStorage_written n hcol s hs imgs imgs' hw hag p ca hp hc p.parent ca.parent ca.name _ t _ hpt
  have h2 := fromStorage_written n hcol s' hs' imgs imgs' hw hag' p ca hp' hc' p.parent ca.parent ca.name _ t _ hpt
  rw [h1] at h2
  exact Except.ok.inj h2

/-- **the ids of a saved cell**: a cell without `_style` keeps its style ids and leaves the table's style list
    untouched; a cell whose style has the text object `pobj` and the cell object `cobj` is given keys that
    resolve to these objects; the list stays well formed and is only appended to. -/
theorem saved_cell_style_ids (dl : StyleList) (c : CellIds) (hw : dl.WF) :
    toBufferIds dl c none = (c, dl) ∧
    ∀ pobj cobj, let r := toBufferIds dl c (some (some pobj, some cobj))
      r.2.WF ∧ (∃ ext, r.2.entries = dl.entries ++ ext) ∧
      (∃ k, r.1.textStyleId = some k ∧ (k, pobj) ∈ r.2.entries) ∧
      (∃ k, r.1.cellStyleId = some k ∧ (k, cobj) ∈ r.2.entries) ∧ r.1.row = c.row ∧ r.1.col = c.col :=
  toBufferIds_spec dl c hw

/-- **a restyled cell reads its style back** (one cell, end to end): the archives written for `s` sit in the
    store at `pobj` / `cobj`, `_to_buffer` points the cell at them through the table's style list; then
    `Style.from_storage` of that cell returns `s` (floats as stored). -/
theorem restyled_cell_reads_back (n : Num) (hcol : ColourOK n) (s : Sty) (hs : s.Storable)
    (imgs imgs' : Images) (hw : imgs.WF) (hag : ∀ img, s.bgImage = some img → imgs.Agrees img)
    (p : ParaArc) (ca : CellArc) (hp : addParagraphStyle n s = .ok p) (hc : addCellStyle n s imgs = .ok (ca, imgs'))
    (st : Store) (pobj cobj : Nat) (hpo : getObj st pobj = .ok (.para p)) (hco : getObj st cobj = .ok (.cell ca))
    (t : TableCtx) (dl : StyleList) (hdl : dl.WF) (c : CellIds) :
    fromStorage n st { t with styleList := (toBufferIds dl c (some (some pobj, some cobj))).2.entries } imgs'
      (toBufferIds dl c (some (some pobj, some cobj))).1 = .ok (quantize n s) := by
  obtain ⟨wf, -, ⟨k1, hk1, m1⟩, ⟨k2, hk2, m2⟩, -⟩ := (toBufferIds_spec dl c hdl).2 pobj cobj
  apply fromStorage_written n hcol s hs imgs imgs' hw hag p ca hp hc p.parent ca.parent ca.name
  exact ⟨⟨k1, hk1, by rw [tableStyle_of_mem _ _ k1 pobj wf.1 m1]; exact hpo⟩,
         ⟨k2, hk2, by rw [tableStyle_of_mem _ _ k2 cobj wf.1 m2]; exact hco⟩⟩

/-! non-vacuity: a concrete style with every attribute off its default, a colour fill, through the real tables -/

def helv : Codes := [72, 101, 108, 118, 101, 116, 105, 99, 97, 32, 78, 101, 117, 101]   -- "Helvetica Neue"
def sty1 : Sty :=
  { halign := 2, valign := 1, bgImage := none, bgColor := .rgb ⟨127, 128, 254⟩, fontColor := ⟨255, 1, 0⟩, fontSize := 27 / 2,
    fontName := helv, bold := true, italic := false, strikethrough := true, underline := true, firstIndent := 1 / 8,
    leftIndent := 11, rightIndent := 5 / 2, textInset := 31 / 4, textWrap := false, name := "S 1".toList }
def sty2 : Sty := { sty1 with bgColor := .none, bgImage := some ⟨"a.png".toList, 7⟩, leftIndent := 5 / 2, rightIndent := 11 }

def written (s : Sty) : PyM Sty := do
  let p ← addParagraphStyle Num.ieee s
  let (c, imgs) ← addCellStyle Num.ieee s ⟨[], 40⟩
  fromStorage Num.ieee [(9, .para p), (10, .cell c)] ⟨[(1, 9), (2, 10)], 3, 1, 0, 0, 0, 0, 0, 0⟩ imgs ⟨2, 1, some 1, some 2⟩

example : written sty1 = .ok sty1 := by decide +kernel
example : written sty2 = .ok sty2 := by decide +kernel
/-- a value binary32 cannot hold comes back rounded (known finding `style-float-not-binary32`) -/
example : written { sty1 with firstIndent := 101 / 100 } = .ok { sty1 with firstIndent := 4236247 / 4194304 } := by decide +kernel
/-- a gradient background cannot be written (known finding `gradient-style-cannot-be-saved`) -/
example : written { sty1 with bgColor := .gradient [⟨1, 2, 3⟩] } = .error .AttributeError := by decide +kernel
/-- inheritance: a text style without `bold` / `font_size` takes them from its parent, and the protobuf default
    when the parent has none (one level only) -/
def bare : ParaArc := ⟨"child".toList, some 5, ⟨none, none, none, none, none, none, some [72, 101, 108, 118, 101, 116, 105, 99, 97, 78, 101, 117, 101], none⟩, ⟨none, none, none, none⟩⟩
def parent5 : ParaArc := ⟨"parent".toList, some 6, ⟨none, some true, none, none, none, some 9, none, none⟩, ⟨some 1, none, none, none⟩⟩
example : (fromStorage Num.ieee [(4, .para bare), (5, .para parent5)] ⟨[(1, 4)], 1, 0, 0, 0, 0, 0, 0, 0⟩ ⟨[], 1⟩ ⟨0, 0, some 1, none⟩).map
    (fun s => (s.bold, s.italic, s.fontSize, s.halign, s.textInset)) = .ok (true, false, 9, 1, 4) := by decide +kernel
/-- the colour hypothesis is satisfiable, and a channel scaled by 256 instead of 255 would not come back -/
example : RelErr24 (fun x => x) := fun x => by show |x - x| ≤ |x| / 2 ^ 24; rw [sub_self, abs_zero]; exact div_nonneg (abs_nonneg x) (by norm_num)
example : roundHalfEven (Num.ieee.f64 (Num.ieee.f32 (Num.ieee.f64 ((255 : Rat) / 256)) * 255)) = 254 := by decide +kernel
/-- two cells, the second not restyled: its ids and the list are untouched -/
example : (toBufferAll ⟨[(1, 30), (2, 31)], 3⟩ [(⟨0, 0, some 1, none⟩, some (some 40, some 41)), (⟨0, 1, some 1, some 2⟩, none)]) =
    ([⟨0, 0, some 3, some 4⟩, ⟨0, 1, some 1, some 2⟩], ⟨[(1, 30), (2, 31), (3, 40), (4, 41)], 5⟩) := by decide

/-- the pinned `update_paragraph_style` leaves `super.name` alone: a renamed style reloads under its old name. -/
example : (updateParagraphStylePinned Num.ieee { sty1 with name := "B".toList }
      ⟨"A".toList, none, ⟨none, none, none, none, none, none, none, none⟩, ⟨none, none, none, none⟩⟩).map (·.name) = .ok "A".toList ∧
    (updateParagraphStyle Num.ieee { sty1 with name := "B".toList }
      ⟨"A".toList, none, ⟨none, none, none, none, none, none, none, none⟩, ⟨none, none, none, none⟩⟩).map (·.name) = .ok "B".toList := by
  decide +kernel

end storage

/-! ### the defects of the pinned commit, as theorems about the pinned variants -/

def plain3 : Table := ⟨3, 3, fun _ _ => .plain⟩

/-- (a) a second stroke over an existing edge is ignored by the open document but saved:
    after `top (1,1)` with stroke 7 and again with stroke 9 the open cell shows 7, the file 9. -/
example : view plain3 ([⟨.top, 1, 1, 1, 7⟩, ⟨.top, 1, 1, 1, 9⟩].foldl (applyOpPinned plain3) (St.init 2)).cells 1 1 .top
    = some 7 := by decide
example : view plain3 (extract plain3
    ([⟨.top, 1, 1, 1, 7⟩, ⟨.top, 1, 1, 1, 9⟩].foldl (applyOpPinned plain3) (St.init 2)).sc) 1 1 .top = some 9 := by decide
/-- repaired: both 9, also on the neighbour above. -/
example : view plain3 (applyOps plain3 (St.init 2) [⟨.top, 1, 1, 1, 7⟩, ⟨.top, 1, 1, 1, 9⟩]).cells 1 1 .top = some 9 := by
  decide
example : view plain3 (applyOps plain3 (St.init 2) [⟨.top, 1, 1, 1, 7⟩, ⟨.top, 1, 1, 1, 9⟩]).cells 0 1 .bottom = some 9 := by
  decide

/-- (b) the pinned fingerprint is not injective: `right_indent=1.0, text_inset=11.0` and
    `right_indent=1.01, text_inset=1.0` collide (`"1.0" ++ "11.0" = "1.01" ++ "1.0"`). -/
def styA : Style.CellAttrs := ⟨"0".toList, "0".toList, "0".toList, "1.0".toList, "11.0".toList, "True".toList, [], []⟩
def styB : Style.CellAttrs := ⟨"0".toList, "0".toList, "0".toList, "1.01".toList, "1.0".toList, "True".toList, [], []⟩
example : Style.keyPinned styA = Style.keyPinned styB ∧ styA ≠ styB := by decide
example : Style.dedup Style.keyPinned [(true, styA), (true, styB)] = [some 0, some 0] := by decide
example : Style.dedup Style.key [(true, styA), (true, styB)] = [some 0, some 1] := by decide

/-- (c)/(d) in the pinned commit a style that was merely read is marked changed (the dataclass
    constructor assigns every field through `__setattr__`, per the live attribute tables). -/
example : Style.fromStoragePinned = ⟨true, true⟩ := by decide

/-! ### non-vacuity -/

/-- a merged table: B2:C2 (anchor (1,1), one row high) in 4×4; overlapping, abutting and superseding strokes. -/
def merged4 : Table := ⟨4, 4, fun r c =>
  if r = 1 ∧ c = 1 then .anchor 1 2 else if r = 1 ∧ c = 2 then .ref 1 1 1 2 else .plain⟩

def hist : List Op :=
  [⟨.bottom, 1, 0, 4, 5⟩, ⟨.top, 2, 1, 2, 6⟩, ⟨.right, 1, 1, 1, 8⟩, ⟨.bottom, 1, 2, 1, 7⟩, ⟨.left, 0, 2, 3, 4⟩]

example : accepted merged4 hist = [⟨.bottom, 1, 0, 4, 5⟩, ⟨.top, 2, 1, 2, 6⟩, ⟨.bottom, 1, 2, 1, 7⟩, ⟨.left, 0, 2, 3, 4⟩] := by
  decide
example : (List.range 4).map (fun c => view merged4 (applyOps merged4 (St.init 2) hist).cells 1 c .bottom)
    = [some 5, some 6, some 7, some 5] := by decide
example : (List.range 4).map (fun c => view merged4 (extract merged4 (applyOps merged4 (St.init 2) hist).sc) 2 c .top)
    = [some 5, some 6, some 7, some 5] := by decide
/-- the interior edge of the merge (left of C2) is not shown although stroke 4 runs along it. -/
example : view merged4 (applyOps merged4 (St.init 2) hist).cells 1 2 .left = none ∧
    view merged4 (applyOps merged4 (St.init 2) hist).cells 0 2 .left = some 4 := by decide
/-- what the history stores in the bottom layers: the 4-unit run split around the later stroke 7 ("middle" case). -/
example : (applyOps merged4 (St.init 2) hist).sc.bottom =
    [⟨1, [⟨0, 2, ⟨5, 3⟩⟩, ⟨2, 1, ⟨7, 5⟩⟩, ⟨3, 1, ⟨5, 3⟩⟩]⟩] := by decide

end NumbersModel.Props.C15
