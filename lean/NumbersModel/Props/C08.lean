/-
C08 — formula text is a faithful infix rendering of the stored post-fix expression.
Statements only (short proofs by reference to Lemmas/Formula.lean) and non-vacuity examples.

Model: `Formula.exec` mirrors `TableFormulas.formula` + every `Formula.*` handler (pop order as
written, dispatch through the generated `AST_NODE_TYPES` / `NODE_FUNCTION_MAP` / `FUNCTION_MAP`).
Spec: `Expr`, `compile` (Numbers' post-fix serialisation), `render` (the conventional infix renderer).
-/
import NumbersModel.Lemmas.Formula
import NumbersModel.Lemmas.FormulaParse
namespace NumbersModel.Props.C08
open NumbersModel NumbersModel.Formula

/-- Stack-machine refinement, generalised over the initial stack: running the renderer on the
    serialisation of ANY well-formed tree pushes exactly the conventional infix text of that tree —
    same operators, same operands in the same order, same function names and argument order,
    same literals.  No depth or size bound. -/
theorem exec_compile (e : Expr) (st : List Text) (h : WellFormed e = true) :
    exec (compile e) st = .ok (render e :: st) := exec_compile_aux e st h

/-- … and what `Cell.formula` returns for it is that text. -/
theorem exec_compile_top (e : Expr) (h : WellFormed e = true) :
    formulaText (compile e) = .ok (render e) := by
  simp [formulaText, exec_compile e [] h, bind, Except.bind]

/-- reading a formula never fails for well-formed expressions. -/
theorem render_total (e : Expr) (h : WellFormed e = true) : ∀ x, formulaText (compile e) ≠ .error x := by
  intro x; rw [exec_compile_top e h]; exact fun h => nomatch h

/-- reading is deterministic (a function of the stored nodes alone). -/
theorem render_deterministic (ns : List Node) (t₁ t₂ : PyM Text)
    (h₁ : formulaText ns = t₁) (h₂ : formulaText ns = t₂) : t₁ = t₂ := h₁ ▸ h₂

/-- quote doubling is undone by the conventional reader of string literals, in any context that does
    not continue with a quote: the literal printed for `s` reads back as exactly `s`, and the reader
    stops exactly at its end. -/
theorem string_literal_invertible (s rest : Text) (h : rest.head? ≠ some '"') :
    scanString (quoteLit s ++ rest) = some (s, rest) := scanString_quoteLit s rest h

/-- the printed literal starts and ends with a quote and every inner quote is doubled
    (its body is `doubleQuotes s`). -/
theorem string_literal_wellquoted (s : Text) :
    quoteLit s = ['"'] ++ doubleQuotes s ++ ['"'] ∧ scanString (quoteLit s) = some (s, []) := by
  refine ⟨rfl, ?_⟩
  have := scanString_quoteLit s [] (by simp)
  simpa using this

/-- `number_to_str` preserves the value of every exponent-form `repr` `i.f e±xx` in `sciOk` (negative
    exponent, or positive exponent with exactly one fraction digit): the plain text `t` it returns reads as
    `n / 10^k` with `n / 10^k = (digits i f) × 10^e / 10^|f|`.
    FULL STATEMENT (all `sciShape` reprs with CPython's law `|f| ≤ e`) is FALSE for the pinned code — see
    `pinned_number_to_str_wrong` — and is proved for the proposed repair in
    `proposed_fix_number_text_denotes`. -/
theorem number_text_denotes (i : Char) (f : List Char) (e : Int) (h : sciOk i f e = true) :
    ∃ t n k, numberToStr (sciRepr i f e) = .ok t ∧ decValue t = some (n, k) ∧
      n * 10 ^ (f.length + (-e).toNat) = digitsVal (i :: f) * 10 ^ (k + e.toNat) :=
  numberToStr_value i f e h

/-- reprs without an exponent are printed unchanged. -/
theorem number_text_denotes_plain (r : Text) (h : r.contains 'e' = false) : numberToStr r = .ok r :=
  numberToStr_plain r h

/-- KNOWN FINDING (signature `number-to-str-value:positive-exponent`): the pinned `number_to_str` does not
    preserve the value of a positive-exponent `repr` unless the mantissa has exactly one fraction digit:
    `repr(1e16) = "1e+16"` is printed as `1000000000000000` (= 10^15), `repr(1.25e20)` as 1.25e21.
    Witnesses confirmed on the real code by harness/checks/c08.py.  Not repaired: the repository's own
    test_extra_functions expects the wrong text for a stored 1e+21. -/
theorem pinned_number_to_str_wrong :
    numberToStr "1e+16".toList = .ok "1000000000000000".toList ∧
    decValue "1000000000000000".toList = some (10 ^ 15, 0) ∧
    numberToStr "1.25e+20".toList = .ok "1250000000000000000000".toList ∧
    numberToStrFixed "1e+16".toList = .ok "10000000000000000".toList ∧
    numberToStrFixed "1.25e+20".toList = .ok "125000000000000000000".toList := by
  decide

/-- the proposed repair (notes/C08-number-to-str-exponent.patch.proposed) preserves the value of EVERY
    exponent-form repr; `hrepr` is CPython's repr law (exponent form from 1e16 on, ≤ 17 significant digits). -/
theorem proposed_fix_number_text_denotes (i : Char) (f : List Char) (e : Int) (h : sciShape i f e = true)
    (hrepr : e > 0 → (f.length : Int) ≤ e) :
    ∃ t n k, numberToStrFixed (sciRepr i f e) = .ok t ∧ decValue t = some (n, k) ∧
      n * 10 ^ (f.length + (-e).toNat) = digitsVal (i :: f) * 10 ^ (k + e.toNat) :=
  numberToStrFixed_value i f e h hrepr

/-- the node types `compile` emits are dispatched by the *generated* tables to the handlers the
    model assumes (re-checked whenever formula.py's NODE_FUNCTION_MAP or the enum changes). -/
theorem dispatch_as_modelled :
    ([1, 2, 3, 4, 5, 6, 7, 8, 9, 10, 11, 12, 13, 15, 16, 17, 18, 19, 20, 22, 23, 24, 25, 29, 36, 45, 67].map
      (fun ty => (Gen.AST_NODE_TYPES.lookup ty).bind (fun tn => (Gen.NODE_FUNCTION_MAP.lookup tn).bind id)))
    = ["add", "sub", "mul", "div", "power", "concat", "greater_than", "greater_than_or_equal", "less_than",
       "less_than_or_equal", "equals", "not_equals", "negate", "percent", "function", "number", "boolean",
       "string", "date", "empty", "boolean", "array", "list", "range", "xref", "range", "xref"].map
      (fun s => some s.toList) := by
  decide

/-- function ids and names correspond one-to-one, so "same function name" means "same function". -/
theorem function_names_distinct :
    (Gen.FUNCTION_MAP.map Prod.snd).Nodup ∧ (Gen.FUNCTION_MAP.map Prod.fst).Nodup :=
  ⟨functionNames_nodup, functionIds_nodup⟩

/-- PARTIAL (design stretch `parse_show`).
    FULL STATEMENT: ∀ e : Expr, WellParen e → parse (lex (render e)) = some e, for a precedence-climbing
    parser over the characters of the rendered text and all constructors.
    PROVED HERE, for the operator fragment `Parse.PE` = {opaque atoms, the 12 binary operators, unary minus,
    postfix %, a parenthesised expression (LIST node with one element)} at TOKEN level:
    (1) the stored post-fix nodes of the tree render to exactly the concatenation of its tokens' texts,
    (2) the precedence-climbing parser `Parse.parse` (all binary operators left-associative, comparisons
        loosest, unary minus tighter than any binary operator, % tightest; `prec` = the library's
        OPERATOR_PRECEDENCE, see `prec_as_library`) reads the token stream back to exactly that tree, for every
        tree parenthesised the way Numbers stores it (`Parse.WP`) and all sufficiently large fuel.
    NOT covered: the lexer (characters → tokens), function calls, multi-element lists, arrays, literals'
    internal syntax (strings: `string_literal_invertible`; numbers: `number_text_denotes`). -/
theorem parse_show_partial (name : Nat → Text) (e : Parse.PE) (hw : Parse.WP e) :
    formulaText (compile (Parse.embed name e)) = .ok (((Parse.toks e).map (Parse.tokText name)).flatten) ∧
    ∃ F, ∀ F', F ≤ F' → Parse.parse F' (Parse.toks e) = some e := by
  refine ⟨?_, Parse.parse_toks e hw⟩
  rw [exec_compile_top _ (Parse.wellFormed_embed name e), Parse.render_embed]

/-- the parser's precedence table is the library's own OPERATOR_PRECEDENCE (generated) on the operators
    it lists; comparisons (not listed there) bind loosest. -/
theorem prec_as_library :
    [BinOp.add, .sub, .mul, .div, .pow, .concat].all
      (fun o => Gen.OPERATOR_PRECEDENCE.lookup (glyph o) == some (Parse.prec o)) = true ∧
    [BinOp.gt, .ge, .lt, .le, .eq, .ne].all (fun o => Parse.prec o == 1) = true := by
  decide

/-! ### non-vacuity -/

-- 1 − (2 − 3): the LIST node keeps the parentheses; operands are not swapped
example : formulaText (compile (.bin .sub (.num (.int 1)) (.paren [.bin .sub (.num (.int 2)) (.num (.int 3))])))
    = .ok "1-(2-3)".toList := by decide
example : WellFormed (.bin .sub (.num (.int 1)) (.paren [.bin .sub (.num (.int 2)) (.num (.int 3))])) = true := by
  decide
-- function call with an omitted argument, a string with a quote, a 2×2 array, a date
example : render (.call 1 [.date 0, .empty, .arr 2 2 [.num (.int 1), .num (.int 2), .num (.int 3), .str "a\"".toList]])
    = "ABS(DATE(2001,1,1),,{1,2;3,\"a\"\"\"})".toList := by decide
example : WellFormed (.call 1 [.date 0, .empty,
    .arr 2 2 [.num (.int 1), .num (.int 2), .num (.int 3), .str "a\"".toList]]) = true := by decide
example : sciOk '1' "5".toList 16 = true ∧ sciOk '1' "25".toList (-7) = true ∧ sciShape '1' "25".toList 20 = true := by
  decide
example : WellFormed (.num (.sci '1' "5".toList 16)) = true ∧
    formulaText (compile (.num (.sci '1' "5".toList 16))) = .ok "15000000000000000".toList := by decide
example : scanString "\"a\"\"b\"+1".toList = some ("a\"b".toList, "+1".toList) := by decide
example : formulaText [{ ty := 17, decHigh := 0, numRepr := "1.5e-07".toList }] = .ok "0.00000015".toList := by decide
-- 1-(2-3) and -(1+2)%^3×4 are read back; 1-2-3 is the left-nested tree
example : Parse.WP (.bin .sub (.atom 1) (.paren (.bin .sub (.atom 2) (.atom 3)))) ∧
    Parse.parse 20 (Parse.toks (.bin .sub (.atom 1) (.paren (.bin .sub (.atom 2) (.atom 3)))))
      = some (.bin .sub (.atom 1) (.paren (.bin .sub (.atom 2) (.atom 3)))) := by
  refine ⟨by simp [Parse.WP, Parse.lvl, Parse.prec], by decide⟩
example : Parse.parse 9 [.atom 1, .op .sub, .atom 2, .op .sub, .atom 3]
    = some (.bin .sub (.bin .sub (.atom 1) (.atom 2)) (.atom 3)) := by decide
example : Parse.parse 12 [.atom 1, .op .add, .atom 2, .op .mul, .op .sub, .atom 3, .pct, .op .pow, .atom 4]
    = some (.bin .add (.atom 1) (.bin .mul (.atom 2) (.bin .pow (.neg (.pct (.atom 3))) (.atom 4)))) := by decide
-- ill-formed programs fail the way the code does (pop from empty list)
example : formulaText [{ ty := 1 }] = .error .IndexError := by decide

end NumbersModel.Props.C08
