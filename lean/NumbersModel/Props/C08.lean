/-
C08 — formula text is a faithful infix rendering of the stored post-fix expression.
Statements only (short proofs by reference to Lemmas/Formula.lean) and non-vacuity examples.

Model: `Formula.exec` mirrors `TableFormulas.formula` + every `Formula.*` handler (pop order as
written, dispatch through the generated `AST_NODE_TYPES` / `NODE_FUNCTION_MAP` / `FUNCTION_MAP`).
Spec: `Expr`, `compile` (Numbers' post-fix serialisation), `render` (the conventional infix renderer).
-/
import NumbersModel.Lemmas.Formula
import NumbersModel.Lemmas.FormulaParse
import NumbersModel.Lemmas.FormulaCanon
namespace NumbersModel.Props.C08
open NumbersModel NumbersModel.Formula

/-- Stack-machine refinement, generalised over the initial stack: running the renderer on the
    serialisation of ANY well-formed tree pushes exactly the conventional infix text of that tree —
    same operators, same operands in the same order, same function names and argument order,
    same literals.  No depth or size bound. -/
theorem exec_compile (e : Expr) (st : List Text) (h : WellFormed e = true) :
    exec (compile e) st = .ok (render e :: st) := exec_compile_aux e st h

/-- … and what `Cell.formula` returns for it is that text. -/
theorem exec_compile_top (e : Expr) (h : WellFormed e = true) :
    formulaText (compile e) = .ok (render e) := by
  simp [formulaText, exec_compile e [] h, bind, Except.bind]

/-- reading a formula never fails for well-formed expressions. -/
theorem render_total (e : Expr) (h : WellFormed e = true) : ∀ x, formulaText (compile e) ≠ .error x := by
  intro x; rw [exec_compile_top e h]; exact fun h => nomatch h

/-- reading is deterministic (a function of the stored nodes alone). -/
theorem render_deterministic (ns : List Node) (t₁ t₂ : PyM Text)
    (h₁ : formulaText ns = t₁) (h₂ : formulaText ns = t₂) : t₁ = t₂ := h₁ ▸ h₂

/-- quote doubling is undone by the conventional reader of string literals, in any context that does
    not continue with a quote: the literal printed for `s` reads back as exactly `s`, and the reader
    stops exactly at its end. -/
theorem string_literal_invertible (s rest : Text) (h : rest.head? ≠ some '"') :
    scanString (quoteLit s ++ rest) = some (s, rest) := scanString_quoteLit s rest h

/-- the printed literal starts and ends with a quote and every inner quote is doubled
    (its body is `doubleQuotes s`). -/
theorem string_literal_wellquoted (s : Text) :
    quoteLit s = ['"'] ++ doubleQuotes s ++ ['"'] ∧ scanString (quoteLit s) = some (s, []) := by
  refine ⟨rfl, ?_⟩
  have := scanString_quoteLit s [] (by simp)
  simpa using this

/-- `number_to_str` preserves the value of every exponent-form `repr` `i.f e±xx` in `sciOk` (negative
    exponent, or positive exponent with exactly one fraction digit): the plain text `t` it returns reads as
    `n / 10^k` with `n / 10^k = (digits i f) × 10^e / 10^|f|`.
    FULL STATEMENT (all `sciShape` reprs with CPython's law `|f| ≤ e`) is FALSE for the pinned code — see
    `pinned_number_to_str_wrong` — and is proved for the proposed repair in
    `proposed_fix_number_text_denotes`. -/
theorem number_text_denotes (i : Char) (f : List Char) (e : Int) (h : sciOk i f e = true) :
    ∃ t n k, numberToStr (sciRepr i f e) = .ok t ∧ decValue t = some (n, k) ∧
      n * 10 ^ (f.length + (-e).toNat) = digitsVal (i :: f) * 10 ^ (k + e.toNat) :=
  numberToStr_value i f e h

/-- reprs without an exponent are printed unchanged. -/
theorem number_text_denotes_plain (r : Text) (h : r.contains 'e' = false) : numberToStr r = .ok r :=
  numberToStr_plain r h

/-- KNOWN FINDING (signature `number-to-str-value:positive-exponent`): the pinned `number_to_str` does not
    preserve the value of a positive-exponent `repr` unless the mantissa has exactly one fraction digit:
    `repr(1e16) = "1e+16"` is printed as `1000000000000000` (= 10^15), `repr(1.25e20)` as 1.25e21.
    Witnesses confirmed on the real code by harness/checks/c08.py.  Not repaired: the repository's own
    test_extra_functions expects the wrong text for a stored 1e+21. -/
theorem pinned_number_to_str_wrong :
    numberToStr "1e+16".toList = .ok "1000000000000000".toList ∧
    decValue "1000000000000000".toList = some (10 ^ 15, 0) ∧
    numberToStr "1.25e+20".toList = .ok "1250000000000000000000".toList ∧
    numberToStrFixed "1e+16".toList = .ok "10000000000000000".toList ∧
    numberToStrFixed "1.25e+20".toList = .ok "125000000000000000000".toList := by
  decide

/-- the proposed repair (notes/C08-number-to-str-exponent.patch.proposed) preserves the value of EVERY
    exponent-form repr; `hrepr` is CPython's repr law (exponent form from 1e16 on, ≤ 17 significant digits). -/
theorem proposed_fix_number_text_denotes (i : Char) (f : List Char) (e : Int) (h : sciShape i f e = true)
    (hrepr : e > 0 → (f.length : Int) ≤ e) :
    ∃ t n k, numberToStrFixed (sciRepr i f e) = .ok t ∧ decValue t = some (n, k) ∧
      n * 10 ^ (f.length + (-e).toNat) = digitsVal (i :: f) * 10 ^ (k + e.toNat) :=
  numberToStrFixed_value i f e h hrepr

/-- the node types `compile` emits are dispatched by the *generated* tables to the handlers the
    model assumes (re-checked whenever formula.py's NODE_FUNCTION_MAP or the enum changes). -/
theorem dispatch_as_modelled :
    ([1, 2, 3, 4, 5, 6, 7, 8, 9, 10, 11, 12, 13, 15, 16, 17, 18, 19, 20, 22, 23, 24, 25, 29, 36, 45, 67].map
      (fun ty => (Gen.AST_NODE_TYPES.lookup ty).bind (fun tn => (Gen.NODE_FUNCTION_MAP.lookup tn).bind id)))
    = ["add", "sub", "mul", "div", "power", "concat", "greater_than", "greater_than_or_equal", "less_than",
       "less_than_or_equal", "equals", "not_equals", "negate", "percent", "function", "number", "boolean",
       "string", "date", "empty", "boolean", "array", "list", "range", "xref", "range", "xref"].map
      (fun s => some s.toList) := by
  decide

/-- function ids and names correspond one-to-one, so "same function name" means "same function". -/
theorem function_names_distinct :
    (Gen.FUNCTION_MAP.map Prod.snd).Nodup ∧ (Gen.FUNCTION_MAP.map Prod.fst).Nodup :=
  ⟨functionNames_nodup, functionIds_nodup⟩

/-! ### the text denotes the stored expression (`parse_show`)

`Parse.PT` is what a formula text can denote; it has a constructor for every constructor of `Expr`.
`Parse.canon : Expr → PT` forgets exactly what the text cannot show: how a number is stored (it keeps its
decimal text), which of the two boolean node kinds was used, a date literal versus the `DATE(y,m,d)` call
it is printed as, a function id versus its name (`function_names_distinct`: one-to-one on known ids),
an array's flat row-major storage versus its rows.  Operators, operand order, function names, argument
order (omitted arguments included), list and array shapes and every literal are kept. -/

/-- TOKEN LEVEL, every constructor: the precedence-climbing parser `Parse.parseToks` (all binary operators
    left-associative, comparisons loosest, unary minus tighter than any binary operator, `%` tightest;
    `prec` = the library's OPERATOR_PRECEDENCE, see `prec_as_library`; `,` between arguments / list
    elements / array cells and `;` between array rows, as `Formula.function/list/array` print them; fuel =
    four units per token, proved sufficient) reads the token stream of EVERY tree that is parenthesised the
    way Numbers stores it (`Parse.WP`) back to exactly that tree: literals, references, the 12 binary
    operators, unary minus, `%`, lists `(a,b,…)`, calls `NAME(arg,…)` with 0..n arguments and omitted
    arguments, 1-D and 2-D array literals.  No depth or size bound. -/
theorem parse_show (t : Parse.PT) (hw : Parse.WP t = true) : Parse.parseToks (Parse.toks t) = some t :=
  Parse.parseToks_toks t hw

/-- … in particular for the image of every stored expression. -/
theorem parse_show_expr (e : Expr) (hw : Parse.WellParen e = true) :
    Parse.parseToks (Parse.toks (Parse.canon e)) = some (Parse.canon e) :=
  Parse.parseToks_toks _ hw

/-- what the renderer prints for `e` is the conventional rendering of `canon e`, for every expression. -/
theorem render_canon (e : Expr) : render e = Parse.renderPT (Parse.canon e) := Parse.render_canon e

/-- CHARACTER LEVEL: the lexer `Parse.lex` (numbers, `"…"` strings with doubled quotes, names / references
    as maximal runs incl. `'…'` quoted segments, one- and two-character operators incl. × ÷ ≥ ≤ ≠,
    separators, brackets) reads the rendered text of a tree back to exactly the tree's token stream, for
    trees whose atoms are `LexSafe`. -/
theorem lex_renderPT (t : Parse.PT) (hw : Parse.WP t = true) (hs : Parse.LexSafe t = true) :
    Parse.lex (Parse.renderPT t) = some (Parse.toks t) := Parse.lex_renderPT t hw hs

/-- for a stored expression the only conditions are on what is opaque here: reference texts must be
    `Parse.nameSafe` (one word: no operator, bracket, separator or double-quote character outside a closed
    `'…'` segment; not a decimal; not TRUE/FALSE) and exponent-free stored numbers must print as decimals
    (`Parse.numSafe`; true for every finite non-negative float).  Integers, exponent-form numbers, dates,
    strings with arbitrary content, booleans and all function names (checked over the generated
    FUNCTION_MAP) are always read back. -/
theorem lex_render (e : Expr) (hwf : WellFormed e = true) (hw : Parse.WellParen e = true)
    (hs : Parse.RefsSafe e = true) : Parse.lex (render e) = some (Parse.toks (Parse.canon e)) := by
  rw [render_canon]
  exact Parse.lex_renderPT _ hw (Parse.lexSafe_canon e hwf hs)

/-- COMPOSITION (`parse (lex (render e)) = some e` of the design, with `canon` making explicit what a text
    can show): reading the text that `Cell.formula` returns for a well-formed stored expression gives back
    the expression — same operators on the same operands in the same order, same function names and
    arguments in order, same literals. -/
theorem read_render (e : Expr) (hwf : WellFormed e = true) (hw : Parse.WellParen e = true)
    (hs : Parse.RefsSafe e = true) :
    ∃ text, formulaText (compile e) = .ok text ∧ Parse.readText text = some (Parse.canon e) := by
  refine ⟨render e, exec_compile_top e hwf, ?_⟩
  rw [render_canon]
  exact Parse.readText_renderPT _ hw (Parse.lexSafe_canon e hwf hs)

/-- hence the text determines the expression: two stored expressions with the same formula text denote
    the same tree. -/
theorem text_determines_expression (e₁ e₂ : Expr)
    (h₁ : WellFormed e₁ = true ∧ Parse.WellParen e₁ = true ∧ Parse.RefsSafe e₁ = true)
    (h₂ : WellFormed e₂ = true ∧ Parse.WellParen e₂ = true ∧ Parse.RefsSafe e₂ = true)
    (h : formulaText (compile e₁) = formulaText (compile e₂)) : Parse.canon e₁ = Parse.canon e₂ := by
  obtain ⟨t₁, ht₁, hr₁⟩ := read_render e₁ h₁.1 h₁.2.1 h₁.2.2
  obtain ⟨t₂, ht₂, hr₂⟩ := read_render e₂ h₂.1 h₂.2.1 h₂.2.2
  rw [ht₁, ht₂] at h
  injection h with h
  subst h
  rw [hr₁] at hr₂
  exact Option.some.inj hr₂

/-- `nameSafe` holds for every plain reference text: non-empty, only word characters (no operator, bracket,
    separator or quote character), at least one character that is not a digit or `.` (a column letter, `$`, `:`),
    not TRUE / FALSE — i.e. every A1-style reference, range, row / column range and `Table::` prefix made of
    such characters. -/
theorem a1_references_nameSafe (t : Text) (hne : t ≠ []) (hp : ∀ c ∈ t, Parse.isDelim c = false ∧ c ≠ '\'')
    (hnd : ∃ c ∈ t, isAsciiDigit c = false ∧ c ≠ '.') (h1 : t ≠ "TRUE".toList) (h2 : t ≠ "FALSE".toList) :
    Parse.nameSafe t = true := Parse.nameSafe_plain t hne hp hnd h1 h2

/-- every function name of the generated FUNCTION_MAP (and `UNDEFINED!`) is one word for the lexer. -/
theorem function_names_lex (f : Nat) : Parse.wordOK (funcName f) = true := Parse.wordOK_funcName f

/-- the parser's precedence table is the library's own OPERATOR_PRECEDENCE (generated) on the operators
    it lists; comparisons (not listed there) bind loosest. -/
theorem prec_as_library :
    [BinOp.add, .sub, .mul, .div, .pow, .concat].all
      (fun o => Gen.OPERATOR_PRECEDENCE.lookup (glyph o) == some (Parse.prec o)) = true ∧
    [BinOp.gt, .ge, .lt, .le, .eq, .ne].all (fun o => Parse.prec o == 1) = true := by
  decide

/-! ### non-vacuity -/

-- 1 − (2 − 3): the LIST node keeps the parentheses; operands are not swapped
example : formulaText (compile (.bin .sub (.num (.int 1)) (.paren [.bin .sub (.num (.int 2)) (.num (.int 3))])))
    = .ok "1-(2-3)".toList := by decide
example : WellFormed (.bin .sub (.num (.int 1)) (.paren [.bin .sub (.num (.int 2)) (.num (.int 3))])) = true := by
  decide
-- function call with an omitted argument, a string with a quote, a 2×2 array, a date
example : render (.call 1 [.date 0, .empty, .arr 2 2 [.num (.int 1), .num (.int 2), .num (.int 3), .str "a\"".toList]])
    = "ABS(DATE(2001,1,1),,{1,2;3,\"a\"\"\"})".toList := by decide
example : WellFormed (.call 1 [.date 0, .empty,
    .arr 2 2 [.num (.int 1), .num (.int 2), .num (.int 3), .str "a\"".toList]]) = true := by decide
example : sciOk '1' "5".toList 16 = true ∧ sciOk '1' "25".toList (-7) = true ∧ sciShape '1' "25".toList 20 = true := by
  decide
example : WellFormed (.num (.sci '1' "5".toList 16)) = true ∧
    formulaText (compile (.num (.sci '1' "5".toList 16))) = .ok "15000000000000000".toList := by decide
example : scanString "\"a\"\"b\"+1".toList = some ("a\"b".toList, "+1".toList) := by decide
example : formulaText [{ ty := 17, decHigh := 0, numRepr := "1.5e-07".toList }] = .ok "0.00000015".toList := by decide
-- reading real-looking texts: 1-(2-3) keeps its parentheses; 1-2-3 is the left-nested tree
example : (Parse.readText "1-(2-3)".toList).map Parse.sexp
    = some "(sub (num 1) (paren (sub (num 2) (num 3))))".toList := by decide +kernel
example : (Parse.readText "1-2-3".toList).map Parse.sexp
    = some "(sub (sub (num 1) (num 2)) (num 3))".toList := by decide +kernel
example : (Parse.readText "1+2×-3%^4".toList).map Parse.sexp
    = some "(add (num 1) (mul (num 2) (pow (neg (pct (num 3))) (num 4))))".toList := by decide +kernel
-- calls with omitted arguments, a 2×2 array, a quoted string, a quoted reference, TRUE as literal and as function
example : (Parse.readText "SUM(A1:B2,,{1,2;3,\"a\"\"b\"})≤Table 1::'a+b'&TRUE()<>TRUE".toList).map Parse.sexp
    = some ("(ne (le (call SUM (name A1:B2) (empty) (arr (row (num 1) (num 2)) (row (num 3) (str \"a\"\"b\")))) " ++
        "(concat (name Table 1::'a+b') (call TRUE))) (bool TRUE))").toList := by decide +kernel
example : Parse.readText "1+".toList = none ∧ Parse.readText "(1".toList = none ∧ Parse.readText "'a".toList = none ∧
    Parse.readText "\"a".toList = none ∧ Parse.readText "{1,2;}".toList = none := by decide +kernel
-- the hypotheses of read_render are satisfiable on a tree using every constructor
def sampleExpr : Expr :=
  .bin .sub
    (.call 168 [.date 0, .empty, .arr 2 2 [.num (.int 1), .num (.plain "0.5".toList),
      .num (.sci '1' "5".toList (-7)), .str "a\"".toList]])
    (.paren [.neg (.pct (.ref "$A$1:B2".toList)), .bool true false])
example : WellFormed sampleExpr = true ∧ Parse.WellParen sampleExpr = true ∧ Parse.RefsSafe sampleExpr = true := by
  decide +kernel
example : (render sampleExpr, (Parse.readText (render sampleExpr)).map Parse.sexp) =
    ("SUM(DATE(2001,1,1),,{1,0.5;0.00000015,\"a\"\"\"})-(-$A$1:B2%,FALSE)".toList,
     some ("(sub (call SUM (call DATE (num 2001) (num 1) (num 1)) (empty) (arr (row (num 1) (num 0.5)) " ++
       "(row (num 0.00000015) (str \"a\"\"\")))) (paren (neg (pct (name $A$1:B2))) (bool FALSE)))").toList) := by
  decide +kernel
example : Parse.nameSafe "A1".toList = true ∧ Parse.nameSafe "$A$1:$B2".toList = true ∧
    Parse.nameSafe "Sheet 1::Table 1::A1:B2".toList = true ∧ Parse.nameSafe "Table 1::'a-b':'c+d'".toList = true ∧
    Parse.nameSafe "#REF!".toList = true ∧ Parse.nameSafe "1:3".toList = true ∧
    Parse.nameSafe "a+b".toList = false ∧ Parse.nameSafe "12".toList = false ∧ Parse.nameSafe "'a".toList = false := by
  decide
-- ill-formed programs fail the way the code does (pop from empty list)
example : formulaText [{ ty := 1 }] = .error .IndexError := by decide

end NumbersModel.Props.C08
