/-
C06 — what is read does not depend on meaning-preserving choices of file layout.

Statements are about `Model/Layout.lean`, which mirrors `DataLists.add_table` / `lookup_value` /
`table_string`, `row_storage_map` / `storage_buffers` / `storage_buffer`,
`get_storage_buffers_for_row` and `ObjectStore.store_object` as they are after the two repairs
of this property.  Chunk boundaries are C05's `chunking_independent`; zip and file-system
behaviour is outside the model (exercised by the metamorphic runs of harness/checks/c06.py).
-/
import NumbersModel.Lemmas.Layout
import NumbersModel.Lemmas.DocTreeOps
namespace NumbersModel.Props.C06
open NumbersModel NumbersModel.Layout

variable {ν : Type} [DecidableEq ν]

/-! ### lookup lists -/

/-- A lookup by key finds the entry carrying that key, wherever the entry sits in the list. -/
theorem lookup_finds_key (l : List (Entry ν)) (hn : (l.map (·.key)).Nodup) (e : Entry ν) (he : e ∈ l) :
    lookupValue (addTable l) e.key = .ok e.value := by
  unfold lookupValue addTable dictGet
  rw [addTableGo_byKey, foldSet_get_mem _ _ l _ hn e he]

/-- …and a key that no entry carries is the only way to get `KeyError`. -/
theorem lookup_absent_key (l : List (Entry ν)) (k : Nat) (hk : k ∉ l.map (·.key)) :
    lookupValue (addTable l) k = .error .KeyError := by
  unfold lookupValue addTable dictGet
  rw [addTableGo_byKey, foldSet_get_not_mem _ _ l _ k hk]
  rfl

/-- The order of the entries is irrelevant for every key (present or absent). -/
theorem lookup_perm_invariant (l l' : List (Entry ν)) (hn : (l.map (·.key)).Nodup) (hp : l'.Perm l) (k : Nat) :
    lookupValue (addTable l') k = lookupValue (addTable l) k := by
  unfold lookupValue addTable dictGet
  rw [addTableGo_byKey, addTableGo_byKey, foldSet_perm _ _ l l' _ hn hp k]

/-- Text never silently degrades to '': `table_string` returns the stored string of the entry
    carrying the key; the `KeyError → ''` fallback is reached only for a key no entry carries. -/
theorem table_string_never_degrades (l : List (Entry Text)) (hn : (l.map (·.key)).Nodup) (e : Entry Text)
    (he : e ∈ l) : tableString (addTable l) e.key = .ok e.value := by
  unfold tableString
  rw [lookup_finds_key l hn e he]

theorem table_string_perm_invariant (l l' : List (Entry Text)) (hn : (l.map (·.key)).Nodup) (hp : l'.Perm l)
    (k : Nat) : tableString (addTable l') k = tableString (addTable l) k := by
  unfold tableString
  rw [lookup_perm_invariant l l' hn hp k]

/-- `key_index` names the position of the entry carrying the key (used when a refcount is bumped). -/
theorem key_index_points_to_entry (l : List (Entry ν)) (hn : (l.map (·.key)).Nodup) (j : Nat) (e : Entry ν)
    (he : l[j]? = some e) : dictGet (addTable l).keyIndex e.key = .ok j := by
  unfold dictGet addTable
  rw [addTableGo_keyIndex_mem l 0 0 {} hn j e he]
  simp

/-- `next_key` exceeds every stored key, and does not depend on the order of the entries. -/
theorem next_key_fresh (l : List (Entry ν)) (e : Entry ν) (he : e ∈ l) : e.key < (addTable l).nextKey :=
  (addTableGo_nextKey l 0 0 {}).1 e he

theorem next_key_perm_invariant (l l' : List (Entry ν)) (hp : l'.Perm l) :
    (addTable l').nextKey = (addTable l).nextKey := by
  obtain ⟨a1, a2, a3⟩ := addTableGo_nextKey l 0 0 ({} : Index ν)
  obtain ⟨b1, b2, b3⟩ := addTableGo_nextKey l' 0 0 ({} : Index ν)
  unfold addTable
  apply Nat.le_antisymm
  · rcases b3 with b3 | ⟨e, he, b3⟩
    · omega
    · have := a1 e (hp.mem_iff.mp he); omega
  · rcases a3 with a3 | ⟨e, he, a3⟩
    · omega
    · have := b1 e (hp.mem_iff.mpr he); omega

/-! the pinned commit indexed an entry only while keys ascend: the same list, reversed, loses key 1 -/
example : lookupValue (addTablePinned [⟨1, 1, "a".toList⟩, ⟨2, 1, "b".toList⟩]) 1 = .ok "a".toList := by decide
example : lookupValue (addTablePinned [⟨2, 1, "b".toList⟩, ⟨1, 1, "a".toList⟩]) 1 = .error .KeyError := by decide
example : tableString (addTablePinned [⟨2, 1, "b".toList⟩, ⟨1, 1, "a".toList⟩]) 1 = .ok [] := by decide
/-! non-vacuity (distinct keys, not ascending) -/
example : tableString (addTable [⟨2, 1, "b".toList⟩, ⟨3, 1, "c".toList⟩, ⟨1, 1, "a".toList⟩]) 1 = .ok "a".toList := by decide
example : (addTable [⟨2, 1, "b".toList⟩, ⟨3, 1, "c".toList⟩, ⟨1, 1, "a".toList⟩]).nextKey = 4 := by decide

/-! ### rows -/
variable {ρ : Type}

/-- Every stored row record is returned for exactly the row index it declares
    (`tileid · tile_size + tile_row_index`, `tile_size = 0` read as 256) — for any header records
    (`tb.headers` is arbitrary: the mapping does not consult them) and any declared row count. -/
theorem row_at_declared_index (tb : TableRows ρ)
    (hn : (declaredRows (effTileSize tb.tileSize) tb.tiles).Nodup)
    (t : Tile ρ) (ht : t ∈ tb.tiles) (r : RowInfo ρ) (hr : r ∈ t.rowInfos) :
    readRow tb (t.tileid * effTileSize tb.tileSize + r.tileRowIndex) = .ok (some r.payload) := by
  have hm := mem_recs (effTileSize tb.tileSize) tb.tiles t ht r hr
  obtain ⟨j, hj⟩ := List.getElem?_of_mem hm
  have hj1 : (declaredRows (effTileSize tb.tileSize) tb.tiles)[j]? =
      some (t.tileid * effTileSize tb.tileSize + r.tileRowIndex) := by
    rw [← recs_fst, List.getElem?_map, hj]; rfl
  have hj2 : (storageBuffers tb.tiles)[j]? = some r.payload := by
    rw [← recs_snd (effTileSize tb.tileSize), List.getElem?_map, hj]; rfl
  unfold readRow storageRow storageRowWith rowStorageMap dictGet
  rw [mapTiles_eq, mapHeaders_mem _ 0 _ hn j _ hj1]
  simp [hj2, bind, Except.bind, pure, Except.pure]

/-- A row of the table that no stored record declares reads as empty. -/
theorem row_without_record_is_empty (tb : TableRows ρ) (row : Nat) (hrow : row < tb.numRows)
    (hno : row ∉ declaredRows (effTileSize tb.tileSize) tb.tiles) : readRow tb row = .ok none := by
  unfold readRow storageRow storageRowWith rowStorageMap dictGet
  rw [mapTiles_eq, mapHeaders_not_mem _ 0 _ row hno, initRowMap_get, if_pos hrow]
  rfl

/-- Header records do not enter the mapping at all. -/
theorem header_records_irrelevant (tb : TableRows ρ) (headers : List Nat) (row : Nat) :
    readRow { tb with headers := headers } row = readRow tb row := rfl

/-! the pinned commit counted header records: a header-only record for the empty row 1 makes row 1
    read the record that declares row 2, and row 2 nothing (issue-66-collab in miniature) -/
example : readRowPinned ⟨3, 256, [0, 1, 2], [⟨0, [⟨0, "r0"⟩, ⟨2, "r2"⟩]⟩]⟩ 1 = .ok (some "r2") := by decide
example : readRowPinned ⟨3, 256, [0, 1, 2], [⟨0, [⟨0, "r0"⟩, ⟨2, "r2"⟩]⟩]⟩ 2 = .ok none := by decide
example : readRow ⟨3, 256, [0, 1, 2], [⟨0, [⟨0, "r0"⟩, ⟨2, "r2"⟩]⟩]⟩ 1 = .ok none := by decide
example : readRow ⟨3, 256, [0, 1, 2], [⟨0, [⟨0, "r0"⟩, ⟨2, "r2"⟩]⟩]⟩ 2 = .ok (some "r2") := by decide
/-! non-vacuity: two tiles, `tile_size` 0 read as 256 -/
example : readRow ⟨300, 0, [], [⟨0, [⟨5, "a"⟩]⟩, ⟨1, [⟨3, "b"⟩]⟩]⟩ 259 = .ok (some "b") := by decide +kernel

/-! ### cell offsets -/

/-- Byte offsets and 4-byte-unit offsets describing the same cells decode to the same cells. -/
theorem narrow_wide_agree (buf wideOffs narrowOffs : Bytes) (offs : List Int) (numCols : Nat)
    (hw : unpackH wideOffs = .ok offs) (hnw : unpackH narrowOffs = .ok (offs.map narrowOf)) :
    getStorageBuffersForRow buf narrowOffs numCols false = getStorageBuffersForRow buf wideOffs numCols true := by
  unfold getStorageBuffersForRow
  rw [hw, hnw]
  simp only [bind, Except.bind, pure, Except.pure, if_true, Bool.false_eq_true, if_false]
  rw [rowCells_narrow_wide]

/-- `struct.pack('<h…')` followed by `array('h', …)` is the identity, so both encodings exist
    whenever every offset is representable (`packH` succeeds). -/
theorem unpack_pack (l : List Int) (b : Bytes) (h : packH l = .ok b) : unpackH b = .ok l :=
  unpackH_packH l b h

example : getStorageBuffersForRow [1, 2, 3, 4, 5, 6, 7, 8] [0, 0, 0xff, 0xff, 1, 0] 3 true
    = .ok [some [1, 2, 3, 4], none, some [5, 6, 7, 8]] := by decide
example : getStorageBuffersForRow [1, 2, 3, 4, 5, 6, 7, 8] [0, 0, 0xff, 0xff, 4, 0] 3 false
    = .ok [some [1, 2, 3, 4], none, some [5, 6, 7, 8]] := by decide

/-! ### object store -/
variable {α : Type}

/-- With pairwise distinct object identifiers, reading the members (zip entries, package files) in
    any order yields the same object for every identifier, the same owning file, the same set of
    identifiers and hence the same `_max_id`.  (The *iteration order* of the store does follow the
    traversal; see notes/C06.md.) -/
theorem store_order_irrelevant (members members' : List (Member α)) (hn : (memberIds members).Nodup)
    (hp : members'.Perm members) :
    (∀ id, dictGet (fillStore members').objects id = dictGet (fillStore members).objects id) ∧
    (∀ id, dictGet (fillStore members').fileOf id = dictGet (fillStore members).fileOf id) ∧
    (dictKeys (fillStore members').objects).Perm (dictKeys (fillStore members).objects) ∧
    maxKey (fillStore members').objects = maxKey (fillStore members).objects := by
  have hflat : (flatSegs members').Perm (flatSegs members) := List.Perm.flatMap_right _ hp
  have hn1 : ((flatSegs members).map (·.2.1)).Nodup := by rw [flatSegs_ids]; exact hn
  have hn2 : ((flatSegs members').map (·.2.1)).Nodup := (hflat.map _).nodup_iff.mpr hn1
  have hk : ∀ ms : List (Member α), ((flatSegs ms).map (·.2.1)).Nodup →
      dictKeys (fillStore ms).objects = (flatSegs ms).map (·.2.1) := by
    intro ms h
    rw [fillStore_eq]
    simpa [dictKeys] using foldSet_keys (·.2.1) (·.2.2) (flatSegs ms) ([] : List (Nat × α)) (by simpa [dictKeys] using h)
  have hperm : (dictKeys (fillStore members').objects).Perm (dictKeys (fillStore members).objects) := by
    rw [hk _ hn1, hk _ hn2]; exact hflat.map _
  refine ⟨?_, ?_, hperm, ?_⟩
  · intro id
    simp only [fillStore_eq, dictGet]
    rw [foldSet_perm _ _ _ _ _ hn1 hflat id]
  · intro id
    simp only [fillStore_eq, dictGet]
    rw [foldSet_perm _ _ _ _ _ hn1 hflat id]
  · cases h1 : maxKey (fillStore members').objects with
    | error e =>
      cases h2 : maxKey (fillStore members).objects with
      | error e' =>
        -- both stores are empty: the only error is ValueError
        cases hd : (fillStore members').objects <;> cases hd2 : (fillStore members).objects <;>
          simp_all [maxKey]
      | ok m =>
        exfalso
        have := (maxKey_spec _ _ h2).1
        have hmem := hperm.mem_iff.mpr this
        cases hd : (fillStore members').objects with
        | nil => simp [hd, dictKeys] at hmem
        | cons a r => obtain ⟨k, v⟩ := a; simp [hd, maxKey] at h1
    | ok m' =>
      cases h2 : maxKey (fillStore members).objects with
      | error e =>
        exfalso
        have := (maxKey_spec _ _ h1).1
        have hmem := hperm.mem_iff.mp this
        cases hd : (fillStore members).objects with
        | nil => simp [hd, dictKeys] at hmem
        | cons a r => obtain ⟨k, v⟩ := a; simp [hd, maxKey] at h2
      | ok m =>
        obtain ⟨a1, a2⟩ := maxKey_spec _ _ h1
        obtain ⟨b1, b2⟩ := maxKey_spec _ _ h2
        have := a2 m (hperm.mem_iff.mpr b1)
        have := b2 m' (hperm.mem_iff.mp a1)
        congr 1; omega

/-- without distinct identifiers the later member wins, so order matters (why `Nodup` is assumed) -/
example : dictGet (fillStore [("a.iwa", [(7, "x")]), ("b.iwa", [(7, "y")])]).objects 7 = .ok "y" := by decide
example : dictGet (fillStore [("b.iwa", [(7, "y")]), ("a.iwa", [(7, "x")])]).objects 7 = .ok "x" := by decide
/-- non-vacuity, and the iteration order does differ -/
example : dictKeys (fillStore [("a.iwa", [(7, "x"), (9, "z")]), ("b.iwa", [(8, "y")])]).objects = [7, 9, 8] := by decide
example : dictKeys (fillStore [("b.iwa", [(8, "y")]), ("a.iwa", [(7, "x"), (9, "z")])]).objects = [8, 7, 9] := by decide

end NumbersModel.Props.C06


/-! ## Table order inside a sheet does not follow the file (`Model/DocTree.lean`, after
fixes/C06-table-order-from-drawable-list.patch) -/
namespace NumbersModel.Props.C06
open NumbersModel NumbersModel.Layout NumbersModel.DocTree

/-- **table order within a sheet**: two stores holding the same objects in different iteration orders (= different member
    or archive orders in the file) give the same `table_ids(sheet)`: which objects are tables of the sheet is decided by
    their `parent`, the order by the sheet's drawable list. -/
theorem table_order_within_a_sheet (os os' : Objects) (hp : os'.Perm os) (hn : (dictKeys os).Nodup) (hl : Listed os) (s : Nat) :
    tableIds os' (some s) = tableIds os (some s) := tableIds_perm os os' hp hn hl s

/-- the whole reading of names: sheets in order, per sheet the tables in order -/
theorem names_independent_of_store_order (os os' : Objects) (hp : os'.Perm os) (hn : (dictKeys os).Nodup) (hl : Listed os) :
    names os' = names os := names_perm os os' hp hn hl

/-- the pinned code read the tables in store order: the same three archives in two file orders -/
example : tableIdsPinned [(5, .sheet [] [21, 11]), (11, .tableInfo 5 10 0 false 0 0), (21, .tableInfo 5 20 0 false 0 0)] (some 5)
    = .ok [10, 20] := by decide
example : tableIdsPinned [(5, .sheet [] [21, 11]), (21, .tableInfo 5 20 0 false 0 0), (11, .tableInfo 5 10 0 false 0 0)] (some 5)
    = .ok [20, 10] := by decide
example : tableIds [(5, .sheet [] [21, 11]), (11, .tableInfo 5 10 0 false 0 0), (21, .tableInfo 5 20 0 false 0 0)] (some 5)
    = .ok [20, 10] := by decide
example : tableIds [(5, .sheet [] [21, 11]), (21, .tableInfo 5 20 0 false 0 0), (11, .tableInfo 5 10 0 false 0 0)] (some 5)
    = .ok [20, 10] := by decide

end NumbersModel.Props.C06
