/-
C14 — displayed dates and durations agree with the stored value.
Statements only (short proofs by reference to Lemmas/DateFmt.lean, Lemmas/Duration.lean,
Lemmas/Digits.lean) and non-vacuity examples.

`Shows t n w` (Lemmas/Digits.lean): the text `t` read back as a decimal number is `n`, it has at
least `w` characters and carries no more leading zeros than needed to reach `w` — i.e. `t` is `n`
zero-padded to width `w` (`w = 1`: not padded).
-/
import NumbersModel.Lemmas.DateFmt
import NumbersModel.Lemmas.Duration
import NumbersModel.Lemmas.TrDateFmt
import NumbersModel.Lemmas.TrDuration
import NumbersModel.Lemmas.FormatDispatch
import NumbersModel.Gen.Constants
namespace NumbersModel.Props.C14
open NumbersModel NumbersModel.Digits NumbersModel.DateFmt NumbersModel.Duration

/-! ## the directive table is the one in the source -/

/-- names, order and strftime codes of the live `DATETIME_FIELD_MAP` (regenerated on every run) are
    those the model's table was transcribed from. -/
theorem table_as_modelled :
    Gen.datetimeFieldCodes = directiveTable.map (fun e => (e.1, e.2.2)) := by decide

/-- every key of the live table is a directive of the model (nothing renders as "unsupported"). -/
theorem every_directive_defined :
    ∀ n ∈ Gen.datetimeFieldNames, (lookupDirective n.toList).isSome = true := by decide

/-- a name that is not a key renders as the empty string (`_decode_date_format_field`). -/
theorem unknown_field_empty (dt : DateTime) (n : Text) (h : lookupDirective n = none) :
    decodeField dt n = [] := by simp [decodeField, h]

/-! ## clock directives — for every date-time, no bound on the fields -/

/-- `H`: hour as a decimal number; `HH`: zero-padded to two digits. -/
theorem hour24_directives (dt : DateTime) :
    Shows (Directive.H.render dt) dt.hour 1 ∧ Shows (Directive.HH.render dt) dt.hour 2 :=
  ⟨shows_natStr _, shows_zfill_natStr 2 _ (by omega)⟩

/-- `k` / `kk`: the 24-hour clock counted 1 … 24 (midnight is 24), unpadded / two digits. -/
theorem hour_1_to_24_directives (dt : DateTime) (h : dt.hour < 24) :
    Shows (Directive.k.render dt) (hour24k dt.hour) 1 ∧ Shows (Directive.kk.render dt) (hour24k dt.hour) 2 ∧
    1 ≤ hour24k dt.hour ∧ hour24k dt.hour ≤ 24 ∧ hour24k dt.hour % 24 = dt.hour :=
  ⟨shows_natStr _, shows_zfill_natStr 2 _ (by omega), by unfold hour24k; split <;> omega,
   by unfold hour24k; split <;> omega, by unfold hour24k; split <;> omega⟩

/-- `h` / `hh`: the 12-hour clock counted 1 … 12. -/
theorem hour12_directives (dt : DateTime) :
    Shows (Directive.h.render dt) (hour12 dt.hour) 1 ∧ Shows (Directive.hh.render dt) (hour12 dt.hour) 2 ∧
    1 ≤ hour12 dt.hour ∧ hour12 dt.hour ≤ 12 ∧ hour12 dt.hour % 12 = dt.hour % 12 :=
  ⟨shows_natStr _, shows_zfill_natStr 2 _ (by omega), by unfold hour12; split <;> omega,
   by unfold hour12; split <;> omega, by unfold hour12; split <;> omega⟩

/-- `K` / `KK`: the 12-hour clock counted 0 … 11. -/
theorem hour_0_to_11_directives (dt : DateTime) :
    Shows (Directive.K.render dt) (dt.hour % 12) 1 ∧ Shows (Directive.KK.render dt) (dt.hour % 12) 2 ∧
    dt.hour % 12 ≤ 11 :=
  ⟨shows_natStr _, shows_zfill_natStr 2 _ (by omega), by omega⟩

/-- `a`: `am` exactly for the hours 0 … 11, otherwise `pm`. -/
theorem ampm_directive (dt : DateTime) :
    (Directive.a.render dt = "am".toList ↔ dt.hour < 12) ∧
    (Directive.a.render dt = "pm".toList ↔ ¬ dt.hour < 12) := by
  unfold Directive.render
  by_cases h : dt.hour < 12 <;> simp [h] <;> decide

/-- the 12-hour reading together with am/pm determines the hour. -/
theorem clock12_determines_hour (dt : DateTime) (h : dt.hour < 24) :
    dt.hour = hour12 dt.hour % 12 + (if Directive.a.render dt = "pm".toList then 12 else 0) := by
  have hpm := (ampm_directive dt).2
  unfold hour12
  by_cases h12 : dt.hour < 12
  · have : ¬ Directive.a.render dt = "pm".toList := fun e => (hpm.mp e) h12
    rw [if_neg this]; split <;> omega
  · rw [if_pos (hpm.mpr h12)]; split <;> omega

theorem minute_directives (dt : DateTime) :
    Shows (Directive.m.render dt) dt.minute 1 ∧ Shows (Directive.mm.render dt) dt.minute 2 :=
  ⟨shows_natStr _, shows_zfill_natStr 2 _ (by omega)⟩

theorem second_directives (dt : DateTime) :
    Shows (Directive.s.render dt) dt.second 1 ∧ Shows (Directive.ss.render dt) dt.second 2 :=
  ⟨shows_natStr _, shows_zfill_natStr 2 _ (by omega)⟩

/-- `S` … `SSSSS`: exactly `n` digits, the fraction of the second truncated to `n` places. -/
theorem subsecond_directives (dt : DateTime) (h : dt.micro < 1000000) :
    (Shows (Directive.S1.render dt) (dt.micro / 100000) 1 ∧ (Directive.S1.render dt).length = 1) ∧
    (Shows (Directive.S2.render dt) (dt.micro / 10000) 2 ∧ (Directive.S2.render dt).length = 2) ∧
    (Shows (Directive.S3.render dt) (dt.micro / 1000) 3 ∧ (Directive.S3.render dt).length = 3) ∧
    (Shows (Directive.S4.render dt) (dt.micro / 100) 4 ∧ (Directive.S4.render dt).length = 4) ∧
    (Shows (Directive.S5.render dt) (dt.micro / 10) 5 ∧ (Directive.S5.render dt).length = 5) := by
  have key : ∀ n, 1 ≤ n → n ≤ 5 →
      Shows (subsec dt n) (dt.micro / 10 ^ (6 - n)) n ∧ (subsec dt n).length = n := by
    intro n h1 h5
    unfold subsec
    rw [subsec_value dt.micro n h h1 (by omega)]
    refine ⟨shows_zfill_natStr n _ h1, zfill_exact_length n _ h1 ?_⟩
    have : (10 : Nat) ^ 6 = 10 ^ (6 - n) * 10 ^ n := by rw [← Nat.pow_add]; congr 1; omega
    exact Nat.div_lt_of_lt_mul (by rw [← this]; exact h)
  exact ⟨key 1 (by omega) (by omega), key 2 (by omega) (by omega), key 3 (by omega) (by omega),
         key 4 (by omega) (by omega), key 5 (by omega) (by omega)⟩

/-! ## calendar directives -/

theorem day_directives (dt : DateTime) :
    Shows (Directive.d.render dt) dt.day 1 ∧ Shows (Directive.dd.render dt) dt.day 2 :=
  ⟨shows_natStr _, shows_zfill_natStr 2 _ (by omega)⟩

theorem month_directives (dt : DateTime) :
    Shows (Directive.M.render dt) dt.month 1 ∧ Shows (Directive.MM.render dt) dt.month 2 :=
  ⟨shows_natStr _, shows_zfill_natStr 2 _ (by omega)⟩

/-- `yyyy` and `y`: the full year, unpadded (as Numbers displays `y`; the documentation table
    describes `y` differently — see notes); `yy`: the year within the century, two digits. -/
theorem year_directives (dt : DateTime) :
    Shows (Directive.yyyy.render dt) dt.year 1 ∧ Shows (Directive.y.render dt) dt.year 1 ∧
    Shows (Directive.yy.render dt) (dt.year % 100) 2 ∧ (Directive.yy.render dt).length = 2 :=
  ⟨shows_natStr _, shows_natStr _, shows_zfill_natStr 2 _ (by omega),
   zfill_exact_length 2 _ (by omega) (by omega)⟩

/-- `D` / `DD` / `DDD`: the day of the year, unpadded / at least two / at least three digits. -/
theorem day_of_year_directives (dt : DateTime) :
    Shows (Directive.D.render dt) dt.yday 1 ∧ Shows (Directive.DD.render dt) dt.yday 2 ∧
    Shows (Directive.DDD.render dt) dt.yday 3 :=
  ⟨shows_zfill_natStr 1 _ (by omega), shows_zfill_natStr 2 _ (by omega), shows_zfill_natStr 3 _ (by omega)⟩

/-- the day of the year lies in 1 … 365 (366 in leap years). -/
theorem day_of_year_range (dt : DateTime) (h : dt.Valid) :
    1 ≤ dt.yday ∧ dt.yday ≤ (if isLeap dt.year then 366 else 365) := by
  obtain ⟨_, _, hm, hm', hd, hd', _⟩ := h
  exact yday_range dt.year dt.month dt.day hm hm' hd hd'

/-- the day of the year of the next calendar day: one more, or 1 after 31 December.
    With `day_of_year_anchor` this determines the day of the year of every date. -/
theorem day_of_year_step (y m d : Nat) (hm : 1 ≤ m) (hm' : m ≤ 12) (hd' : d ≤ daysInMonth y m) :
    ydayOf (nextDay y m d).1 (nextDay y m d).2.1 (nextDay y m d).2.2 =
      if m = 12 ∧ d = 31 then 1 else ydayOf y m d + 1 := yday_step y m d hm hm' hd'

theorem day_of_year_anchor (y : Nat) : ydayOf y 1 1 = 1 := by simp [ydayOf, daysBeforeMonth]

/-- consecutive calendar days have consecutive ordinals (no day skipped or repeated, leap years
    included), for every year ≥ 1. -/
theorem ordinal_step (y m d : Nat) (hy : 1 ≤ y) (hm : 1 ≤ m) (hm' : m ≤ 12) (hd' : d ≤ daysInMonth y m) :
    ordinalOf (nextDay y m d).1 (nextDay y m d).2.1 (nextDay y m d).2.2 = ordinalOf y m d + 1 :=
  DateFmt.ordinal_step y m d hy hm hm' hd'

/-- the weekday advances by one (mod 7) from each day to the next … -/
theorem weekday_step (y m d : Nat) (hy : 1 ≤ y) (hm : 1 ≤ m) (hm' : m ≤ 12) (hd' : d ≤ daysInMonth y m) :
    weekdayOf (nextDay y m d).1 (nextDay y m d).2.1 (nextDay y m d).2.2 = (weekdayOf y m d + 1) % 7 :=
  DateFmt.weekday_step y m d hy hm hm' hd'

/-- … and 1 January 2001 (the Numbers epoch) is a Monday (= 0), 1 January of year 1 too. -/
theorem weekday_anchor : weekdayOf 2001 1 1 = 0 ∧ weekdayOf 1 1 1 = 0 ∧ ordinalOf 1 1 1 = 1 := by decide

/-- `EEEE` / `EEE`: the name of the weekday; the seven names (and their abbreviations) are pairwise
    different, so the name read back determines the weekday. -/
theorem weekday_name_directives (dt : DateTime) :
    Directive.EEEE.render dt = dayName dt.weekday ∧ Directive.EEE.render dt = (dayName dt.weekday).take 3 ∧
    dt.weekday < 7 ∧
    (∀ a, a < 7 → ∀ b, b < 7 → dayName a = dayName b → a = b) ∧
    (∀ a, a < 7 → ∀ b, b < 7 → (dayName a).take 3 = (dayName b).take 3 → a = b) :=
  ⟨rfl, rfl, by unfold DateTime.weekday weekdayOf; omega, dayName_injective, dayAbbr_injective⟩

theorem month_name_directives (dt : DateTime) :
    Directive.MMMM.render dt = monthName dt.month ∧ Directive.MMM.render dt = (monthName dt.month).take 3 ∧
    (∀ a, a < 13 → ∀ b, b < 13 → 1 ≤ a → 1 ≤ b → monthName a = monthName b → a = b) ∧
    (∀ a, a < 13 → ∀ b, b < 13 → 1 ≤ a → 1 ≤ b → (monthName a).take 3 = (monthName b).take 3 → a = b) :=
  ⟨rfl, rfl, monthName_injective, monthAbbr_injective⟩

/-- `W`: week of the month counted from zero, weeks starting on Monday: the number of whole weeks
    between the Monday on or before the 1st and the date. -/
theorem week_of_month_directive (dt : DateTime) (hd : 1 ≤ dt.day) (hd' : dt.day ≤ 31) :
    Shows (Directive.W.render dt) ((dt.day - 1 + weekdayOf dt.year dt.month 1) / 7) 1 ∧
    (dt.day - 1 + weekdayOf dt.year dt.month 1) / 7 ≤ 5 := by
  have hw : weekdayOf dt.year dt.month 1 < 7 := by unfold weekdayOf; omega
  have e : weekOfMonth dt - 1 = (dt.day - 1 + weekdayOf dt.year dt.month 1) / 7 := by
    unfold weekOfMonth; omega
  refine ⟨?_, by omega⟩
  show Shows (natStr (weekOfMonth dt - 1)) _ 1
  rw [e]; exact shows_natStr _

/-- `ww`: week of the year, two digits: `(yday + 6 − weekday) / 7` … -/
theorem week_of_year_directive (dt : DateTime) :
    Shows (Directive.ww.render dt) (weekOfYear dt) 2 := shows_zfill_natStr 2 _ (by omega)

/-- … which is 1 on a 1 January that is a Monday and 0 on any other 1 January, and from one day to
    the next (within the year) grows by one exactly when the next day is a Monday: it counts the
    Mondays of the year up to the date (days before the first Monday are week 0). -/
theorem week_of_year_step (yd wd : Nat) (hyd : 1 ≤ yd) (hwd : wd < 7) :
    ((1 + 6 - wd) / 7 = if wd = 0 then 1 else 0) ∧
    ((yd + 1) + 6 - ((wd + 1) % 7)) / 7 = (yd + 6 - wd) / 7 + (if (wd + 1) % 7 = 0 then 1 else 0) := by
  constructor
  · split <;> omega
  · split <;> omega

/-- `F`: which occurrence of its weekday in the month the day is (1 … 5). -/
theorem nth_weekday_directive (dt : DateTime) (hd : 1 ≤ dt.day) (hd' : dt.day ≤ 31) :
    Shows (Directive.F.render dt) ((dt.day - 1) / 7 + 1) 1 ∧ 1 ≤ (dt.day - 1) / 7 + 1 ∧ (dt.day - 1) / 7 + 1 ≤ 5 :=
  ⟨shows_natStr _, by omega, by omega⟩

theorem era_directive (dt : DateTime) : Directive.G.render dt = "AD".toList := rfl

/-! ## the scanner: a format is the concatenation of its parts -/

/-- For every list of parts — fields (maximal runs of letters), literal text (no letters, no quote),
    quoted text (no quote inside), `''` — in which a field is followed by literal or quoted text and
    quoted text is not directly followed by another quote, the format made of the parts displays
    as the concatenation of what the parts display: fields render through the table, literal and
    quoted text pass through unchanged, `''` is a quote character. -/
theorem scanner_concat (isAlpha : Char → Bool) (dt : DateTime) (ps : List Part) (h : WellFormed isAlpha ps) :
    decodeDateFormat isAlpha (serialiseAll ps) dt = displayAll (decodeField dt) ps := by
  have := scan_parts isAlpha (decodeField dt) ps St.init h rfl (by intro h; simp [St.init] at h)
  simpa [decodeDateFormat, flush, St.init] using this

/-- text without letters and quotes is displayed unchanged. -/
theorem scanner_literal_passthrough (isAlpha : Char → Bool) (dt : DateTime) (s : Text) (hne : s ≠ [])
    (h : ∀ c ∈ s, isAlpha c = false ∧ c ≠ '\'') :
    decodeDateFormat isAlpha s dt = s := by
  have := scanner_concat isAlpha dt [.lit s] ⟨⟨hne, h⟩, trivial, trivial⟩
  simpa [serialiseAll, displayAll, Part.serialise, Part.display] using this

/-- quoted text is displayed unchanged, whatever letters it contains. -/
theorem scanner_quoted_passthrough (isAlpha : Char → Bool) (dt : DateTime) (s : Text) (hne : s ≠ [])
    (h : ∀ c ∈ s, c ≠ '\'') :
    decodeDateFormat isAlpha ('\'' :: s ++ ['\'']) dt = s := by
  have := scanner_concat isAlpha dt [.quoted s] ⟨⟨hne, h⟩, trivial, trivial⟩
  simpa [serialiseAll, displayAll, Part.serialise, Part.display] using this

/-- `_expand_quotes` is the same scanner with an empty alphabet … -/
theorem expand_quotes_is_fieldless_scanner (s : Text) (rf : Text → Text) :
    expandQuotes s = scanLoop (fun _ => false) rf s St.init := expandLoop_eq_scan rf s false [] []

/-- … hence also displays the concatenation of its parts (there are no fields). -/
theorem expand_quotes_concat (ps : List Part) (h : WellFormed (fun _ => false) ps) :
    expandQuotes (serialiseAll ps) = displayAll (fun _ => []) ps := by
  rw [expand_quotes_is_fieldless_scanner _ (fun _ => [])]
  have := scan_parts (fun _ => false) (fun _ => []) ps St.init h rfl (by intro h; simp [St.init] at h)
  simpa [flush, St.init] using this

/-! ## durations -/

/-- The digit groups of the displayed duration are the values of the units shown (any style,
    stored or automatic units) … -/
theorem duration_text_numbers (ms : Nat) (f : Fmt) :
    readNumbers (durationFormat ms f) =
      (durationItems f.style (effectiveUnits ms f).2 (effectiveUnits ms f).1 ms).map (·.value) :=
  format_numbers ms f

/-- … the units shown are exactly those from the largest to the smallest selected … -/
theorem duration_units_shown (style l s ms : Nat) (hl : IsDurUnit l) (hs : IsDurUnit s) (hle : l ≤ s) :
    (durationItems style l s ms).map (·.unitMs) = unitsBetween l s := items_units style l s ms hl hs hle

/-- **read back unit by unit**: Σ unit · (number displayed) = the duration truncated to the smallest
    unit shown — every largest/smallest pair, every style, every duration (no bound). -/
theorem duration_reads_back (ms style l s : Nat) (hl : IsDurUnit l) (hs : IsDurUnit s) (hle : l ≤ s) :
    dot (unitsBetween l s) (readNumbers (durationFormat ms ⟨style, l, s, false⟩)) = ms - ms % unitMsOf s := by
  rw [duration_text_numbers]
  simp only [effectiveUnits, Bool.false_eq_true, if_false]
  rw [← items_units style l s ms hl hs hle]
  exact items_sum style l s ms hl hs hle

/-- automatic units are two of the six units, largest ≤ smallest, and the smallest divides the
    duration … -/
theorem auto_units_valid (ms : Nat) (f : Fmt) (hf : IsDurUnit f.smallest) :
    IsDurUnit (autoUnits ms f).1 ∧ IsDurUnit (autoUnits ms f).2 ∧ (autoUnits ms f).2 ≤ (autoUnits ms f).1 :=
  ⟨(autoUnits_valid ms f hf).1, (autoUnits_valid ms f hf).2.1, (autoUnits_valid ms f hf).2.2.1⟩

theorem auto_units_exact (ms : Nat) (f : Fmt) (hf : IsDurUnit f.smallest) :
    ms % unitMsOf (autoUnits ms f).1 = 0 := (autoUnits_valid ms f hf).2.2.2

/-- … so with automatic units the display reads back to the duration exactly (nothing truncated). -/
theorem duration_reads_back_auto (ms style l s : Nat) (hs : IsDurUnit s) :
    let u := autoUnits ms ⟨style, l, s, true⟩
    dot (unitsBetween u.2 u.1) (readNumbers (durationFormat ms ⟨style, l, s, true⟩)) = ms := by
  intro u
  obtain ⟨h1, h2, h3, h4⟩ := autoUnits_valid ms ⟨style, l, s, true⟩ hs
  rw [duration_text_numbers]
  simp only [effectiveUnits, if_true]
  rw [← items_units style u.2 u.1 ms h2 h1 h3]
  have := items_sum style u.2 u.1 ms h2 h1 h3
  unfold sumItems at this
  rw [this]
  show ms - ms % unitMsOf (autoUnits ms ⟨style, l, s, true⟩).1 = ms
  rw [h4]; rfl

/-- every unit after the first shows less than one of the preceding unit (60 s never shown as
    `0m 60s` …). -/
theorem duration_fields_normalised (style l s ms : Nat) (hl : IsDurUnit l) (hs : IsDurUnit s) (hle : l ≤ s) :
    Normalised (durationItems style l s ms) := items_normalised style l s ms hl hs hle

/-! ## non-vacuity -/

def sample : DateTime := ⟨2024, 2, 29, 0, 7, 9, 123456⟩

example : sample.Valid := by decide
example : decodeDateFormat isAsciiAlpha "k:mm 'on' EEEE, d MMMM yyyy (D) ''ww".toList sample
    = "24:07 on Thursday, 29 February 2024 (60) '09".toList := by decide
/-- outside the well-formed formats: `''` does not end a field (the code appends the quote first). -/
example : decodeDateFormat isAsciiAlpha "d''d".toList sample = "'29".toList := by decide
example : (Directive.kk.render ⟨2023, 1, 1, 10, 0, 0, 0⟩, Directive.k.render ⟨2023, 1, 1, 20, 0, 0, 0⟩)
    = ("10".toList, "20".toList) := by decide
example : WellFormed isAsciiAlpha [.field "k".toList, .lit ":".toList, .field "mm".toList, .lit " ".toList,
    .quoted "on".toList, .field "EEEE".toList, .lit " ".toList, .apostrophe] := by
  simp [WellFormed, Part.OK, Part.follows, Part.isField, Part.isQuoteLike]; decide
example : Directive.S3.render sample = "123".toList ∧ Directive.DDD.render sample = "060".toList := by decide
example : nextDay 2024 2 28 = (2024, 2, 29) ∧ nextDay 2023 2 28 = (2023, 3, 1) ∧ nextDay 1900 2 28 = (1900, 3, 1)
    ∧ nextDay 2023 12 31 = (2024, 1, 1) := by decide
example : durationFormat 694861001 ⟨0, 1, 32, true⟩ = "1:1:1:01:01.001".toList := by decide
example : durationFormat 3661500 ⟨2, 4, 16, false⟩ = "1 hour 1 minute 1 second".toList := by decide
example : dot (unitsBetween 4 16) (readNumbers (durationFormat 3661500 ⟨2, 4, 16, false⟩)) = 3661000 := by decide
example : autoUnits 604800000 ⟨0, 2, 16, true⟩ = (16, 1) := by decide
example : expandQuotes "it''s 'a' 'b c'".toList = "it's a b c".toList := by decide

end NumbersModel.Props.C14

/-! ## the format-selection glue on the date / duration path (`Model/FormatDispatch.lean`): `set_cell_formatting("datetime")`,
`Formatting.__post_init__` (directive validation, the default format), `Cell.formatted_value` → `_date_format` /
`_duration_format` — the C14 clauses stated once over `formatted_value` of a cell with its format record. -/
namespace NumbersModel.Props.C14
section Glue
open NumbersModel NumbersModel.Digits NumbersModel.DateFmt NumbersModel.Duration NumbersModel.FormatDispatch

/-- **set_then_display** (datetime) — what `set_cell_formatting("datetime", date_time_format=fmt)` stores on a date cell is what
    `formatted_value` dispatches on: the text is `_decode_date_format` of the format held by the `Formatting` object (the one
    passed, else the default `dd MMM yyyy HH:mm`) on the cell's date-time; a format with an undocumented directive is the
    `TypeError` of `__post_init__`. -/
theorem set_then_display_datetime (env : Env) (c : Cell) (hk : c.kind = .date) (hs : c.hasSeconds = true)
    (hd : c.durationFmt = none) (dt : DateTime) (hdt : c.datetime = some dt) (a : FormatDispatch.Args) :
    setThenDisplay env c "datetime".toList a =
      (Formatting.make .datetime a >>= fun r => pure (decodeDateFormat env.isAlpha r.1.dateTimeFormat dt)) := by
  rw [setThenDisplay_eq, set_datetime c hk hd hs a]
  cases Formatting.make .datetime a <;> simp [bind, Except.bind, formatterOf, applyFormatter, hdt, pure, Except.pure]

/-- **display_reads_back** (dates) — if the date cell displays `txt`, the format was accepted (only documented directives),
    it is the one passed or the documented default, and for every way of writing it as well-formed parts (fields, literal
    text, quoted text, `''`) the text is the concatenation of what the parts display (`scanner_concat`) — so every
    directive theorem of this file applies to the text `formatted_value` returns. -/
theorem display_reads_back_datetime (env : Env) (c : Cell) (hk : c.kind = .date) (hs : c.hasSeconds = true)
    (hd : c.durationFmt = none) (dt : DateTime) (hdt : c.datetime = some dt) (a : FormatDispatch.Args) (txt : Text)
    (h : setThenDisplay env c "datetime".toList a = .ok txt) :
    let fmt := a.dateTimeFormat.getD "dd MMM yyyy HH:mm".toList
    validFormat fmt = true ∧ txt = decodeDateFormat env.isAlpha fmt dt ∧
    ∀ ps, WellFormed env.isAlpha ps → serialiseAll ps = fmt → txt = displayAll (decodeField dt) ps := by
  intro fmt
  rw [set_then_display_datetime env c hk hs hd dt hdt a] at h
  cases hm : Formatting.make .datetime a with
  | error e => simp [hm, bind, Except.bind] at h
  | ok r =>
    obtain ⟨f, p⟩ := r
    simp only [hm, bind, Except.bind, pure, Except.pure] at h
    injection h with h
    obtain ⟨_, _, _, _, _, _, _, _, _, hfmt, _, _, hvalid, _, _⟩ := formatting_post_init .datetime a f p hm
    have hf : f.dateTimeFormat = fmt := hfmt
    refine ⟨hf ▸ hvalid rfl, by rw [← h, hf], fun ps hw hser => ?_⟩
    rw [← h, hf, ← hser]
    exact scanner_concat env.isAlpha dt ps hw

/-- **display_reads_back** (durations) — a cell that carries a duration format record (read from a file; the API cannot set
    one) and its `_double` displays `_duration_format` of that value under the record's style and units, whatever other
    format ids it carries; read back unit by unit the text is the duration truncated to the smallest unit shown
    (`duration_reads_back`), and exactly the duration with automatic units (`duration_reads_back_auto`). -/
theorem display_reads_back_duration (env : Env) (c : Cell) (hk : c.kind ≠ .empty) (f : FormatDispatch.Fmt) (ms : Nat)
    (hf : c.durationFmt = some f) (hms : c.doubleMs = some ms) :
    formattedValue env c =
      .ok (durationFormat ms ⟨f.durationStyle, f.durationLargest, f.durationSmallest, f.useAutoUnits⟩) ∧
    (f.useAutoUnits = false → IsDurUnit f.durationLargest → IsDurUnit f.durationSmallest →
      f.durationLargest ≤ f.durationSmallest →
      dot (unitsBetween f.durationLargest f.durationSmallest)
          (readNumbers (durationFormat ms ⟨f.durationStyle, f.durationLargest, f.durationSmallest, false⟩)) =
        ms - ms % unitMsOf f.durationSmallest) ∧
    (f.useAutoUnits = true → IsDurUnit f.durationSmallest →
      let u := autoUnits ms ⟨f.durationStyle, f.durationLargest, f.durationSmallest, true⟩
      dot (unitsBetween u.2 u.1)
          (readNumbers (durationFormat ms ⟨f.durationStyle, f.durationLargest, f.durationSmallest, true⟩)) = ms) := by
  refine ⟨?_, fun _ hl hs hle => duration_reads_back ms _ _ _ hl hs hle, fun _ hs => duration_reads_back_auto ms _ _ _ hs⟩
  simp [formattedValue, selectFormatter, hk, hf, hms, applyFormatter, bind, Except.bind]

/-- a date format stored with a custom uid: a uid the document's list does not hold is the `KeyError`; a custom date archive is
    rendered by `_decode_date_format` on its pattern; any other custom archive displays `""` (with a warning). -/
theorem date_dispatch (f : FormatDispatch.Fmt) :
    (f.customUid = none → dateFormatter f = .ok (.date f.dateTimeFormat)) ∧
    (f.customUid = some none → dateFormatter f = .error .KeyError) ∧
    (∀ e, f.customUid = some (some e) →
      dateFormatter f = .ok (if CustomFmt.FormatType.ofCode e.formatType = .customDate then .date e.archive.formatString
                             else .dateUnexpected)) := by
  refine ⟨fun h => by simp [dateFormatter, h], fun h => by simp [dateFormatter, h], fun e h => ?_⟩
  simp only [dateFormatter, h]
  split <;> rfl

end Glue
end NumbersModel.Props.C14

/-! ## The same clauses over the definitions translated from the Python source

`Gen/TrDateFmt.lean` and `Gen/TrDuration.lean` are regenerated by `harness/py2lean.py` from `constants.py`
(`_day_of_year`, `_week_of_month`, `_days_occurred_in_month`) and `cell.py` (`_expand_quotes`, `_decode_date_format`,
`_unit_format`, `_auto_units`) in the working tree on every check run; `Lemmas/TrDateFmt.lean` / `Lemmas/TrDuration.lean`
prove them equal to the model (`*_eq_model`: the index-based `while` loops of the two scanners against the list recursion
of `scanLoop` / `expandLoop`, for every text).  The calendar (`weekday()`, `tm_yday`), `str.isalpha` and the directive table
stay parameters of the translated definitions. -/
namespace NumbersModel.Props.C14.Src
open NumbersModel NumbersModel.Digits NumbersModel.DateFmt NumbersModel.Duration NumbersModel.Gen.T NumbersModel.Translated

/-- `W` = `str(_week_of_month(x) - 1)` over the translated `_week_of_month`: the number of whole weeks between the Monday on
    or before the 1st and the date, at most 5. -/
theorem src_week_of_month_directive (dt : DateTime) (hd : 1 ≤ dt.day) (hd' : dt.day ≤ 31) :
    ∃ w : Int, week_of_month (dt.day : Int) (weekdayOf dt.year dt.month 1 : Int) = .ok w ∧
      intStr (w - 1) = Directive.W.render dt ∧
      Shows (intStr (w - 1)) ((dt.day - 1 + weekdayOf dt.year dt.month 1) / 7) 1 ∧
      (dt.day - 1 + weekdayOf dt.year dt.month 1) / 7 ≤ 5 := by
  refine ⟨(weekOfMonth dt : Int), week_of_month_eq_model dt, ?_⟩
  have hw : 1 ≤ weekOfMonth dt := by unfold weekOfMonth; omega
  have e : ((weekOfMonth dt : Int) - 1) = ((weekOfMonth dt - 1 : Nat) : Int) := by omega
  have h2 : ¬ (((weekOfMonth dt - 1 : Nat) : Int) < 0) := by omega
  have e2 : intStr ((weekOfMonth dt : Int) - 1) = Directive.W.render dt := by
    rw [e]; simp only [intStr, h2, if_false, Int.toNat_natCast]; rfl
  obtain ⟨h3, h4⟩ := C14.week_of_month_directive dt hd hd'
  exact ⟨e2, by rw [e2]; exact h3, h4⟩

/-- `F` over the translated `_days_occurred_in_month`: which occurrence of its weekday in the month the day is (1 … 5). -/
theorem src_nth_weekday_directive (dt : DateTime) (hd : 1 ≤ dt.day) (hd' : dt.day ≤ 31) :
    ∃ t, days_occurred_in_month (dt.day : Int) = .ok t ∧ t = Directive.F.render dt ∧
      Shows t ((dt.day - 1) / 7 + 1) 1 ∧ 1 ≤ (dt.day - 1) / 7 + 1 ∧ (dt.day - 1) / 7 + 1 ≤ 5 :=
  ⟨_, days_occurred_in_month_eq_model dt, rfl, C14.nth_weekday_directive dt hd hd'⟩

/-- `D`/`DD`/`DDD` over the translated `_day_of_year`: it hands `tm_yday` through unchanged, and the three directives
    show it unpadded / to two / to three digits. -/
theorem src_day_of_year_directives (dt : DateTime) :
    day_of_year (dt.yday : Int) = .ok (dt.yday : Int) ∧
    Shows (Directive.D.render dt) dt.yday 1 ∧ Shows (Directive.DD.render dt) dt.yday 2 ∧
    Shows (Directive.DDD.render dt) dt.yday 3 :=
  ⟨day_of_year_eq_model _, C14.day_of_year_directives dt⟩

/-- `scanner_concat` over the translated `_decode_date_format`: never raises, and a well-formed format displays as the
    concatenation of what its parts display. -/
theorem src_scanner_concat (isAlpha : Char → Bool) (dt : DateTime) (ps : List Part) (h : WellFormed isAlpha ps) :
    decode_date_format isAlpha (decodeField dt) (serialiseAll ps) = .ok (displayAll (decodeField dt) ps) := by
  rw [decode_date_format_eq_model]
  exact congrArg Except.ok (C14.scanner_concat isAlpha dt ps h)

/-- the translated scanner is total: for every alphabet, renderer and text it returns the model's text. -/
theorem src_scanner_total (isAlpha : Char → Bool) (dt : DateTime) (fmt : Text) :
    decode_date_format isAlpha (decodeField dt) fmt = .ok (decodeDateFormat isAlpha fmt dt) :=
  decode_date_format_eq_model isAlpha (decodeField dt) fmt

theorem src_scanner_literal_passthrough (isAlpha : Char → Bool) (dt : DateTime) (s : Text) (hne : s ≠ [])
    (h : ∀ c ∈ s, isAlpha c = false ∧ c ≠ '\'') :
    decode_date_format isAlpha (decodeField dt) s = .ok s := by
  rw [src_scanner_total]; exact congrArg Except.ok (C14.scanner_literal_passthrough isAlpha dt s hne h)

theorem src_scanner_quoted_passthrough (isAlpha : Char → Bool) (dt : DateTime) (s : Text) (hne : s ≠ [])
    (h : ∀ c ∈ s, c ≠ '\'') :
    decode_date_format isAlpha (decodeField dt) ('\'' :: s ++ ['\'']) = .ok s := by
  rw [src_scanner_total]; exact congrArg Except.ok (C14.scanner_quoted_passthrough isAlpha dt s hne h)

/-- the translated `_expand_quotes` is the translated `_decode_date_format` with an empty alphabet … -/
theorem src_expand_quotes_is_fieldless_scanner (s : Text) (rf : Text → Text) :
    expand_quotes s = decode_date_format (fun _ => false) rf s := by
  rw [expand_quotes_eq_model, decode_date_format_eq_model, C14.expand_quotes_is_fieldless_scanner s rf]

/-- … and displays the concatenation of its parts. -/
theorem src_expand_quotes_concat (ps : List Part) (h : WellFormed (fun _ => false) ps) :
    expand_quotes (serialiseAll ps) = .ok (displayAll (fun _ => []) ps) := by
  rw [expand_quotes_eq_model]; exact congrArg Except.ok (C14.expand_quotes_concat ps h)

/-- the translated `_unit_format` for a named unit: the model's label. -/
theorem src_unit_format (u : Text) (hu : u ≠ []) (v style : Nat) (ab : Option Text) :
    unit_format u (v : Int) (style : Int) ab = .ok (unitFormat u v style ab) := by
  rw [unit_format_eq_model]; simp [hu]

/-- the translated `_auto_units` returns two of the six units, largest ≤ smallest, and the smallest divides the duration … -/
theorem src_auto_units_valid (ms l s : Nat) (hs : IsDurUnit s) :
    ∃ sm lg : Nat, auto_units ⟨(ms : Int)⟩ (l : Int) (s : Int) = .ok ((sm : Int), (lg : Int)) ∧
      IsDurUnit sm ∧ IsDurUnit lg ∧ lg ≤ sm ∧ ms % unitMsOf sm = 0 := by
  refine ⟨(autoUnits ms ⟨0, l, s, true⟩).1, (autoUnits ms ⟨0, l, s, true⟩).2, auto_units_eq_model ms 0 l s true, ?_⟩
  obtain ⟨h1, h2, h3⟩ := C14.auto_units_valid ms ⟨0, l, s, true⟩ hs
  exact ⟨h1, h2, h3, C14.auto_units_exact ms ⟨0, l, s, true⟩ hs⟩

/-- … so with the units the translated `_auto_units` picks, the displayed duration reads back exactly. -/
theorem src_duration_reads_back_auto (ms style l s : Nat) (hs : IsDurUnit s) :
    ∃ sm lg : Nat, auto_units ⟨(ms : Int)⟩ (l : Int) (s : Int) = .ok ((sm : Int), (lg : Int)) ∧
      dot (unitsBetween lg sm) (readNumbers (durationFormat ms ⟨style, l, s, true⟩)) = ms :=
  ⟨_, _, auto_units_eq_model ms style l s true, C14.duration_reads_back_auto ms style l s hs⟩

example : expand_quotes "it''s 'a' 'b c'".toList = .ok "it's a b c".toList := by decide +kernel
example : decode_date_format isAsciiAlpha (decodeField C14.sample) "k:mm 'on' EEEE".toList
    = .ok "24:07 on Thursday".toList := by decide +kernel
example : week_of_month 8 0 = .ok 2 ∧ days_occurred_in_month 29 = .ok ['5'] := by decide +kernel
example : auto_units ⟨604800000⟩ 2 16 = .ok (16, 1) ∧ auto_units ⟨1500⟩ 2 16 = .ok (32, 16) := by decide +kernel
example : unit_format "week".toList 2 2 none = .ok " weeks".toList ∧ unit_format [] 2 1 none = .error .IndexError := by
  decide +kernel

end NumbersModel.Props.C14.Src
