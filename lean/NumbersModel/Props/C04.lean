/-
C04 — cell storage records decode to exactly what was encoded, field by field.
Statements only (proofs by reference to Lemmas/CellRecord.lean) and examples.

Vocabulary (defined in Model/CellRecord.lean and Lemmas/CellRecord.lean):
  `encode` / `decode`     mirrors of `Cell._to_buffer` / `Cell._from_storage` (code after
                          fixes/C04-*.patch); `encodePinned` / `decodePinned` mirror the pinned tree
  `Encodable c`           c is of a stored kind, its payload has the width the packers produce
                          (16 / 8 bytes) and its string key fits an int32
  `IdsInRange ids`        every id that is present fits an int32
  `view c`                what the decoder must return: same kind, the same payload bytes in the
                          payload slot of that kind, the string key, and all twelve ids unchanged
  `specEncode r`          independent encoder from the published layout: header, then for every
                          present field — in ascending flag-bit order — its bytes
  `SpecRecord.WF r`       4 unused bytes, 2 extras bytes, 21 optional fields of the documented widths
  `r.project`             the 16 fields the library interprets, picked by flag bit
-/
import NumbersModel.Lemmas.CellRecord
import NumbersModel.Lemmas.TrCellRec
namespace NumbersModel.Props.C04
open NumbersModel NumbersModel.CellRecord

/-- **Round trip.** For every encodable cell — all eight stored kinds, every one of the 2^12
    subsets of optional ids at once (they are `Option`s), arbitrary payload bytes, arbitrary
    int32 id values — the encoder succeeds and the decoder returns the same kind, the same
    payload and the same value for every attribute. -/
theorem decode_encode (c : Cell) (he : Encodable c) (hr : IdsInRange c.ids) :
    ∃ b, encode c = .ok (some b) ∧ decode b = .ok (view c) :=
  ⟨cellBytes c, encode_eq c he hr, decode_cellBytes c he hr⟩

/-- **Decoding follows the published layout.** For every well-formed layout record — all 2^21
    subsets of the documented flag bits, any field values, any cell type, any trailing bytes —
    the decoder returns exactly the interpreted fields `r.project` (and the extras / flags
    words); the only way it can fail is the cell-type dispatch (unknown type, or a
    date/bool/duration type without its payload field). -/
theorem decode_specEncode (r : SpecRecord) (hwf : r.WF) (rest : Bytes) :
    decode (specEncode r ++ rest)
      = (dispatch r.ctype r.project).bind
          (fun k => .ok (assemble k r.project (leNat r.extras) (flagsOf r.fields))) :=
  decode_specEncode_aux r hwf rest

/-- **Uninterpreted fields are skipped in place**: two well-formed records that agree on
    everything the library interprets (type, extras, the 16 interpreted fields) decode to the
    same attributes, whatever the fields 0x80, 0x100, 0x800, 0x80000, 0x100000 contain and
    whether or not they are present — up to the raw flags word, which records their presence. -/
theorem uninterpreted_fields_do_not_matter (r s : SpecRecord) (hr : r.WF) (hs : s.WF)
    (ht : r.ctype = s.ctype) (hx : r.extras = s.extras) (hp : r.project = s.project) :
    (decode (specEncode r)).map (fun d => { d with flags := 0 })
      = (decode (specEncode s)).map (fun d => { d with flags := 0 }) := by
  have h1 := decode_specEncode r hr []
  have h2 := decode_specEncode s hs []
  rw [List.append_nil] at h1 h2
  rw [h1, h2, ht, hx, hp]
  cases dispatch s.ctype s.project <;> rfl

/-- **The encoder emits the published layout**: the record of an encodable cell is the
    layout-encoding of its fields (`cellFields c`: payload of the kind in bits 0..3, ids in
    bits 4,5,6,9,10,12..18, nothing else), i.e. optional fields in ascending flag-bit order. -/
theorem encode_is_spec_layout (c : Cell) (he : Encodable c) (hr : IdsInRange c.ids) :
    encode c = .ok (some (specEncode
      ⟨kindCType c.kind, [0, 0, 0, 0], [UInt8.ofNat (cellAcc c).b6, 0], cellFields c⟩)) := by
  rw [encode_eq c he hr]
  exact congrArg (fun b => Except.ok (some b)) (encBytes_eq_spec _ _ _ _ c _)

/-- record length is a multiple of 4 and at most 12 + 16 + 12·4 bytes (used by C01 / C07). -/
theorem encode_length_aligned (c : Cell) (he : Encodable c) (hr : IdsInRange c.ids) :
    ∃ b, encode c = .ok (some b) ∧ b.length % 4 = 0 ∧ b.length ≤ 12 + 16 + 12 * 4 :=
  ⟨cellBytes c, encode_eq c he hr, cellBytes_length c he⟩

/-- the flags word has bit `i` set exactly when field `i` is written. -/
theorem flags_word_matches_fields (c : Cell) :
    flagsWordOf c = flagsOf (cellFields c) ∧
    ∀ i (h : i < (cellFields c).length), (flagsWordOf c).testBit i = ((cellFields c)[i]).isSome :=
  ⟨encAcc_flags_eq _ _ _ _ c, encAcc_announces _ _ _ _ c⟩

/-- byte 6 as tabulated in docs/Numbers.md (0x01 number format, 0x02 currency format, 0x04
    duration format, 0x08 date format, 0x20 bool format, 0x80 string id). -/
theorem extras_byte_spec (c : Cell) :
    extrasOf c = (if c.ids.numFmt.isSome then 1 else 0) + (if c.ids.curFmt.isSome then 2 else 0)
      + (if c.ids.durFmt.isSome then 4 else 0) + (if c.ids.dateFmt.isSome then 8 else 0)
      + (if c.ids.boolFmt.isSome then 0x20 else 0) + (if c.stringId.isSome then 0x80 else 0) :=
  extrasOf_spec c

/-- merged placeholders and unsupported classes have no record. -/
theorem encode_none_iff (c : Cell) (h : c.kind = .merged ∨ c.kind = .other) :
    encode c = .ok none := encode_none c h

/-! ### non-vacuity -/

/-- a rich-text cell carrying a cell style, a formula and a bool format (the combination the
    pinned tree mis-encodes). -/
def richWitness : Cell :=
  { kind := .rich, payload := [], stringKey := 0, stringId := none,
    ids := { rich := some 5, cellStyle := some 9, formula := some 11, boolFmt := some (-2) } }

example : Encodable richWitness ∧ IdsInRange richWitness.ids := by
  refine ⟨trivial, ?_⟩
  intro o ho v hv
  simp only [richWitness, List.mem_cons, List.mem_nil_iff, or_false] at ho
  have : v = 5 ∨ v = 9 ∨ v = 11 ∨ v = -2 := by
    rcases ho with rfl | rfl | rfl | rfl | rfl | rfl | rfl | rfl | rfl | rfl | rfl | rfl <;> simp_all
  unfold I32; omega

example : encode richWitness = .ok (some
    [5, 9, 0, 0, 0, 0, 0x20, 0, 0x30, 0x02, 0x04, 0, 5, 0, 0, 0, 9, 0, 0, 0, 11, 0, 0, 0,
     0xfe, 0xff, 0xff, 0xff]) := by decide

example : (decode [5, 9, 0, 0, 0, 0, 0x20, 0, 0x30, 0x02, 0x04, 0, 5, 0, 0, 0, 9, 0, 0, 0, 11, 0, 0, 0,
     0xfe, 0xff, 0xff, 0xff]).map (·.ids) = .ok richWitness.ids := by decide

/-- a layout record with the uninterpreted fields 0x100 and 0x800 next to a formula id. -/
def specWitness : SpecRecord :=
  { ctype := 2, unused := [0, 0, 0, 0], extras := [0, 0],
    fields := [none, none, none, none, none, none, none, none, some [7, 0, 0, 0], some [10, 0, 0, 0],
               none, some [8, 0, 0, 0], some [12, 0, 0, 0], none, none, none, none, none, none, none, none] }

example : specWitness.WF := by
  refine ⟨rfl, rfl, rfl, ?_⟩
  intro i hi b hb
  have : i < 21 := hi
  match i, this with
  | 8, _ | 9, _ | 11, _ | 12, _ => simp [specWitness] at hb; subst hb; rfl
  | 0, _ | 1, _ | 2, _ | 3, _ | 4, _ | 5, _ | 6, _ | 7, _ | 10, _ | 13, _ | 14, _ | 15, _ | 16, _
  | 17, _ | 18, _ | 19, _ | 20, _ => simp [specWitness] at hb
  | n + 21, h => omega

example : (decode (specEncode specWitness)).map (fun d => (d.ids.formula, d.ids.suggest))
    = .ok (some 10, some 12) := by decide

/-! ### the pinned tree violates the property (counter-examples, confirmed on the real code by
    harness/checks/c04.py before the fixes were applied) -/

/-- pinned `_to_buffer` writes the rich-text id twice, so the decoder (pinned or fixed) reads the
    cell-style id from the slot holding the second copy: wrote style 9, read 5; wrote formula
    11, read 9. -/
theorem pinned_richtext_shifts_fields :
    (do let b ← encodePinned richWitness
        let d ← decode (b.getD [])
        pure (d.ids.rich, d.ids.cellStyle, d.ids.formula))
      = .ok (some 5, some 5, some 9) := by decide

/-- pinned `_from_storage` skips the 0x100 / 0x800 fields only after 0x1000: with 0x100 set the
    formula id is read from the 0x100 slot (7 instead of 10) and the suggest id from the formula
    slot (10 instead of 12). -/
theorem pinned_late_skip_misreads_formula :
    (decodePinned (specEncode specWitness)).map (fun d => (d.ids.formula, d.ids.suggest))
      = .ok (some 7, some 10) := by decide

/-! ### the clauses over the field walk REGENERATED FROM THE SOURCE (`Gen/TrCellRec.lean`, harness/py2lean.py group `CellRec`)

`Gen.T.from_storage_fields` is `Cell._from_storage` up to `cell_type = buffer[1]`, translated statement by statement from `cell.py`
on every check run: the version check, `flags = unpack("<i", buffer[8:12])[0]`, the nineteen `if flags & mask:` blocks in source
order with Python ints and slices (the 0x1 / 0x2 / 0x4 payloads handed on uninterpreted by the parameters `readD128` /
`readDouble`, the ids read with `unpack("<i", …)`, the 0x80 / 0x100 / 0x800 fields skipped in place).  `finishDecode` is the rest
of the model's decoder (class dispatch, `_extras`). -/
namespace Src
open NumbersModel.TrCellRec

/-- the translated field walk IS the model's (`decodeFields` behind `fieldsView`), for every buffer -/
theorem src_from_storage_fields_eq_model (buf : Bytes) :
    Gen.T.from_storage_fields readD128 readDouble buf = fieldsView buf :=
  from_storage_fields_eq_model buf

/-- … and the model's decoder is that walk followed by the dispatch -/
theorem src_from_storage_eq_model (buf : Bytes) :
    Gen.T.from_storage_fields readD128 readDouble buf >>= finishDecode buf = decode buf :=
  from_storage_eq_model buf

/-- `decode_encode` with the field walk of the source as it is now: every encodable cell comes back field by field -/
theorem src_decode_encode (c : Cell) (he : Encodable c) (hr : IdsInRange c.ids) :
    ∃ b, encode c = .ok (some b) ∧
      Gen.T.from_storage_fields readD128 readDouble b >>= finishDecode b = .ok (view c) := by
  obtain ⟨b, h1, h2⟩ := decode_encode c he hr
  exact ⟨b, h1, by rw [from_storage_eq_model, h2]⟩

/-- `decode_specEncode` with the translated field walk: every layout-conformant record (all 2^21 flag subsets, any trailing
    bytes) is read field by field, uninterpreted fields skipped in place -/
theorem src_decode_specEncode (r : SpecRecord) (hwf : r.WF) (rest : Bytes) :
    Gen.T.from_storage_fields readD128 readDouble (specEncode r ++ rest) >>= finishDecode (specEncode r ++ rest)
      = (dispatch r.ctype r.project).bind
          (fun k => .ok (assemble k r.project (leNat r.extras) (flagsOf r.fields))) := by
  rw [from_storage_eq_model]
  exact decode_specEncode r hwf rest

/-- non-vacuity: the translated walk runs (formula id behind a skipped 0x100 field; a truncated record; a foreign version) -/
example : (Gen.T.from_storage_fields readD128 readDouble (specEncode specWitness)).map (fun v => (v.2.2.2.2.2.2.2.2.1, v.2.2.2.2.2.2.2.2.2.2.2.1))
    = .ok (some 10, some 12) := by decide
example : (Gen.T.from_storage_fields readD128 readDouble [5, 2, 0, 0, 0, 0, 0, 0, 1, 0, 0, 0, 7]).map (fun v => v.1)
    = .error .IndexError := by decide
example : (Gen.T.from_storage_fields readD128 readDouble [4, 2, 0, 0, 0, 0, 0, 0, 0, 0, 0, 0]).map (fun v => v.1)
    = .error .UnsupportedError := by decide

end Src

end NumbersModel.Props.C04
