/-
C07 — every saved package is structurally sound and referentially closed (thin).

Theorems about `Model/ObjectStore.lean`: identifier allocation and creation bookkeeping as a state
machine (`new_message_id`, `create_object_from_dict`, `add_component_metadata`), the tile loop of
`recalculate_table_data` (after fixes/C07-no-empty-trailing-tile.patch) and the row-info builder
`recalculate_row_info`; the object graph (every message abstracted to the list of identifiers it refers to) with
reference closure as an invariant over creation / editing / save histories, and what `update_object_file_store`
writes into the archive headers.  The histories of real sessions are recorded by harness/objgraph.py and replayed
through the model (`ostore ghist`), whose final state is compared with the decoded saved package.
-/
import NumbersModel.Lemmas.ObjectStore
import NumbersModel.Lemmas.ObjectGraph
namespace NumbersModel.Props.C07
open NumbersModel NumbersModel.Layout NumbersModel.ObjStore

/-! ### identifiers -/

/-- `ObjectStore.__init__` starts from a high-water mark that is not below any loaded identifier. -/
theorem open_store_bounds (ids : List Nat) (last : Nat) (files comps) (st : Store)
    (h : openStore ids last files comps = .ok st) : st.ids = ids ∧ ∀ i ∈ st.ids, i ≤ st.maxId := by
  unfold openStore at h
  cases hm : listMax ids with
  | error e => simp [hm, bind, Except.bind] at h
  | ok m =>
    simp only [hm, bind, Except.bind, pure, Except.pure, Except.ok.injEq] at h
    subst h
    exact ⟨rfl, fun i hi => Nat.le_trans (listMax_ge ids m hm i hi) (le_roundUpMillion m)⟩

/-- Over any sequence of creations (whatever archive file each one targets, whether it appends,
    succeeds or raises half-way), the identifiers handed out are pairwise distinct, differ from every
    loaded identifier, and are not above the recorded high-water mark
    (`PackageMetadata.last_object_identifier`); all identifiers in the store stay distinct. -/
theorem ids_unique_and_below_hwm (st0 : Store) (hnd : st0.ids.Nodup) (hbase : ∀ i ∈ st0.ids, i ≤ st0.maxId)
    (ops : List Op) :
    ∃ new : List Nat, (run st0 ops).ids = st0.ids ++ new ∧ (run st0 ops).ids.Nodup ∧
      (∀ i ∈ new, i ∉ st0.ids ∧ st0.maxId < i ∧ i ≤ (run st0 ops).lastObjId) ∧
      (∀ i ∈ (run st0 ops).ids, i ≤ (run st0 ops).maxId) := by
  obtain ⟨⟨new, h1, h2, h3⟩, hmono, hh⟩ := reach_run hbase ops st0 (Reach.refl st0)
  refine ⟨new, h1, ?_, ?_, ?_⟩
  · rw [h1, List.nodup_append]
    refine ⟨hnd, h2, ?_⟩
    intro a ha b hb hab
    subst hab
    have := hbase a ha
    have := (h3 a hb).1
    omega
  · intro i hi
    have hi3 := h3 i hi
    refine ⟨fun hold => ?_, hi3.1, ?_⟩
    · have := hbase i hold; omega
    · have hne : (run st0 ops).maxId ≠ st0.maxId := by omega
      rw [hh hne]; exact hi3.2
  · intro i hi
    rw [h1] at hi
    rcases List.mem_append.mp hi with hi | hi
    · have := hbase i hi; omega
    · exact (h3 i hi).2

/-- Where a creator site makes a *new* archive file (no IWA member's name contains the pattern — the
    `…-{}` patterns never do; members that are not IWA archives do not count, whatever their names) and lists it, the package metadata gets a component whose locator names
    exactly that file and whose identifier is the object stored in it. -/
theorem new_file_listed (st st' : Store) (loc parent : List Char) (id : Nat)
    (hnew : iwaPaths st.files ("Index/".toList ++ loc) = [])
    (h : createListed st loc parent = (st', .ok id)) :
    ∃ c ∈ st'.components, c.identifier = id ∧
      dictGet? st'.files ("Index/".toList ++ c.locator ++ ".iwa".toList) = some (some [id]) ∧
      dictGet? st'.fileOf id = some ("Index/".toList ++ c.locator ++ ".iwa".toList) :=
  (createListed_new_file st st' loc parent id hnew h).2

/-! non-vacuity: two tile files and an object appended to an existing archive -/
example :
    let st0 : Store := ⟨2000000, 1999999, [1, 2, 1999999], [], [("Index/CalculationEngine.iwa".toList, some [1999999]),
      ("Index/Metadata.iwa".toList, some [2])], [⟨1999999, "CalculationEngine".toList, "CalculationEngine".toList, []⟩]⟩
    let st := run st0 [.listed "Tables/Tile-{}".toList "CalculationEngine".toList, .create "CalculationEngine".toList false,
      .listed "Tables/Tile-{}".toList "CalculationEngine".toList]
    st.ids = [1, 2, 1999999, 2000001, 2000002, 2000003] ∧ st.lastObjId = 2000003 ∧
    st.files.map (·.1) = ["Index/CalculationEngine.iwa".toList, "Index/Metadata.iwa".toList,
      "Index/Tables/Tile-2000001.iwa".toList, "Index/Tables/Tile-2000003.iwa".toList] ∧
    st.components.map (·.locator) = ["CalculationEngine".toList, "Tables/Tile-2000001".toList, "Tables/Tile-2000003".toList] ∧
    st.components.map (·.preferred) = ["CalculationEngine".toList, "Tables/Tile".toList, "Tables/Tile".toList] := by
  decide +kernel

/-! ### which member a new object goes to (after fixes/C19-new-objects-go-to-iwa-members.patch) -/

/-- **Creation never fails on what the package happens to contain.**  `create_object_from_dict(pattern, …)` (not `append`) returns
    the next identifier for every file store — whatever blobs it holds, under whatever names, in whatever order; with `append` the
    only failure is `KeyError` when no IWA member's name contains the pattern.  (Before the repair the first member whose name
    contained the pattern was taken, also a `bytes` blob: AttributeError.) -/
theorem create_total (st : Store) (f : List Char) :
    (createObject st f false).2 = .ok (st.maxId + 1) ∧
    ((createObject st f true).2 = .ok (st.maxId + 1) ∨
     ((createObject st f true).2 = .error .KeyError ∧ iwaPaths st.files f = [])) :=
  ⟨createObject_noappend_ok st f, createObject_append_cases st f⟩

/-- **The new object is filed.**  Whenever a creation succeeds, `_object_to_filename_map[id]` names an IWA member of the file store
    whose archives include `id` — in particular never a blob — so the next `update_object_file_store` reaches it. -/
theorem created_object_filed (g : GStore) (f : List Char) (a : Bool) (rs : List Nat) (id : Nat)
    (h : (createG g f a rs).2 = .ok id) : Filed (createG g f a rs).1 id :=
  createG_filed g f a rs id h

/-- …and it goes to the FIRST IWA member (file-store order) whose name contains the pattern, after that member's archives; blobs
    before it are passed over. -/
theorem created_goes_to_first_iwa_member (st : Store) (f : List Char) (a : Bool) (path : List Char) (segs : List Nat)
    (rest : List (List Char × List Nat)) (h : iwaPaths st.files f = (path, segs) :: rest) :
    (createObject st f a).2 = .ok (st.maxId + 1) ∧
    dictGet? (createObject st f a).1.files path = some (some (segs ++ [st.maxId + 1])) ∧
    dictGet? (createObject st f a).1.fileOf (st.maxId + 1) = some path :=
  createObject_first_member st f a path segs rest h

/-- the members passed over are exactly the non-IWA ones and those whose names do not contain the pattern -/
theorem iwaPaths_mem (files : List (List Char × Option (List Nat))) (f path : List Char) (segs : List Nat) :
    (path, segs) ∈ iwaPaths files f ↔ ((path, some segs) ∈ files ∧ isInfix f path = true) :=
  mem_iwaPaths files f path segs

/-! the pinned code on a container that lists `Metadata/DocumentIdentifier` before `Index/Document.iwa` (a saved file with its zip
    members in another order, C06): the first candidate of the pinned comprehension is a blob (→ AttributeError in
    `self._file_store[p].chunks`, known finding `edit-raises-on-reordered-container`, now fixed); the repaired code appends to
    `Index/Document.iwa` -/
example :
    let files : List (List Char × Option (List Nat)) :=
      [("Metadata/DocumentIdentifier".toList, none), ("Index/Document.iwa".toList, some [1]), ("Index/Metadata.iwa".toList, some [2])]
    let st : Store := { maxId := 1000000, lastObjId := 7, ids := [1, 2], files := files }
    (pathsPinned files "Document".toList).head? = some ("Metadata/DocumentIdentifier".toList, none) ∧
    iwaPaths files "Document".toList = [("Index/Document.iwa".toList, [1])] ∧
    (createObject st "Document".toList false).2 = .ok 1000001 ∧
    (createObject st "Document".toList false).1.files =
      [("Metadata/DocumentIdentifier".toList, none), ("Index/Document.iwa".toList, some [1, 1000001]), ("Index/Metadata.iwa".toList, some [2])] := by
  decide +kernel

/-! non-vacuity of `create_total` (append, nothing but a blob carries the name: KeyError, no AttributeError) and of
    `created_goes_to_first_iwa_member` (two IWA members match: the first one in file-store order is taken, not the last) -/
example :
    let st : Store := { maxId := 50, lastObjId := 7, ids := [2], files := [("preview.jpg".toList, none), ("Index/Metadata.iwa".toList, some [2])] }
    (createObject st "preview".toList true).2 = .error .KeyError ∧ (createObject st "preview".toList false).2 = .ok 51 ∧
    (createObject st "preview".toList false).1.files.map (·.1) = ["preview.jpg".toList, "Index/Metadata.iwa".toList, "preview.iwa".toList] := by
  decide +kernel
example :
    let st : Store := { maxId := 50, lastObjId := 7, ids := [2, 3, 4], files := [("Metadata/DocumentIdentifier".toList, none),
      ("Index/DocumentStylesheet.iwa".toList, some [3]), ("Index/Document.iwa".toList, some [4]), ("Index/Metadata.iwa".toList, some [2])] }
    iwaPaths st.files "Document".toList = [("Index/DocumentStylesheet.iwa".toList, [3]), ("Index/Document.iwa".toList, [4])] ∧
    (createObject st "Document".toList false).1.files = [("Metadata/DocumentIdentifier".toList, none),
      ("Index/DocumentStylesheet.iwa".toList, some [3, 51]), ("Index/Document.iwa".toList, some [4]), ("Index/Metadata.iwa".toList, some [2])] := by
  decide +kernel

/-! ### the object graph: reference closure over histories -/

/-- **Closure is an invariant.**  Take any document as opened (`g0`: whatever its objects refer to) and any history of
    creations (in an existing or a new archive file, succeeding or raising half-way), component / external-reference
    entries, reference writes (`addRef`, `setRef`), reference removals, blob additions and `update_object_file_store`
    runs.  If every reference the history writes targets an object that exists at that moment — or the object being
    created itself — or an identifier exempted by `ex` (`targetsExistEx`: what each creator site must guarantee), then
    in the state reached no loaded object has disappeared, and every reference held by a live message, by the message a
    save writes, or listed in an archive header's `object_references` resolves to a stored object, is exempted by `ex`,
    or was already unresolved at load *in that same object*. -/
theorem references_closed_except (ex : Nat → Bool) (g0 : GStore) (ops : List GOp)
    (h : targetsExistEx ex g0 ops = true) :
    (∀ i ∈ g0.ids, i ∈ (runG g0 ops).ids) ∧
    ∀ i r, (r ∈ (runG g0 ops).refsOf i ∨ r ∈ (runG g0 ops).writtenOf i ∨ r ∈ (runG g0 ops).hdrOf i) →
      r ∈ (runG g0 ops).ids ∨ ex r = true ∨ UnresolvedAtLoad g0 i r := by
  have hc := closed_run ops g0 (Closed.refl ex g0) h
  refine ⟨hc.ids, fun i r hr => ?_⟩
  rcases hr with hr | hr | hr
  · exact hc.refs i r hr
  · unfold GStore.writtenOf at hr
    split at hr
    · exact hc.refs i r hr
    · exact hc.arch i r hr
  · exact hc.hdr i r hr

/-- …with no exemption: under `TargetsExist` every reference in every reachable state resolves, except those already
    unresolved at load.  (Every state reachable by a history is the end of one: the statement is about all of them.) -/
theorem references_closed (g0 : GStore) (ops : List GOp) (h : TargetsExist g0 ops) :
    (∀ i ∈ g0.ids, i ∈ (runG g0 ops).ids) ∧
    ∀ i r, (r ∈ (runG g0 ops).refsOf i ∨ r ∈ (runG g0 ops).writtenOf i ∨ r ∈ (runG g0 ops).hdrOf i) →
      r ∈ (runG g0 ops).ids ∨ UnresolvedAtLoad g0 i r := by
  obtain ⟨h1, h2⟩ := references_closed_except (fun _ => false) g0 ops h
  refine ⟨h1, fun i r hr => ?_⟩
  rcases h2 i r hr with a | a | a
  · exact Or.inl a
  · cases a
  · exact Or.inr a

/-- `TargetsExist` is inherited by every prefix of a history (so the closure statement holds at every intermediate state). -/
theorem targetsExist_prefix (ex : Nat → Bool) (g0 : GStore) (pre post : List GOp)
    (h : targetsExistEx ex g0 (pre ++ post) = true) :
    targetsExistEx ex g0 pre = true ∧ targetsExistEx ex (runG g0 pre) post = true := by
  induction pre generalizing g0 with
  | nil => exact ⟨rfl, h⟩
  | cons op r ih =>
    simp only [List.cons_append, targetsExistEx, Bool.and_eq_true] at h ⊢
    obtain ⟨a, b⟩ := ih (stepG g0 op) h.2
    exact ⟨⟨h.1, a⟩, by simpa [runG] using b⟩

/-- **What a save writes into the headers.**  When every stored object is filed (`wellFiled`: its archive is in the file
    `_object_to_filename_map` names), `update_object_file_store` raises nothing, changes neither the store nor the live
    messages, and for every stored object the written message holds exactly the live references and the header's
    `object_references` are exactly those references — as the code computes them: **when the message has at least
    one**; a message without references leaves the header list as it was (`if len(references) > 0`). -/
theorem header_refs_exact (g : GStore) (hw : wellFiled g = true) :
    (updateFileStore g).2 = .ok () ∧ (updateFileStore g).1.toStore = g.toStore ∧ (updateFileStore g).1.refs = g.refs ∧
    ∀ i ∈ g.ids, (updateFileStore g).1.writtenOf i = g.refsOf i ∧
      (g.refsOf i ≠ [] → (updateFileStore g).1.hdrOf i = g.refsOf i) ∧
      (g.refsOf i = [] → (updateFileStore g).1.hdrOf i = g.hdrOf i) := by
  obtain ⟨h1, h2, h3, _, h5, _⟩ := copyAll_spec g g.ids ((wellFiled_iff g).mp hw)
  exact ⟨h1, h2, h3, h5⟩

/-- an object made by `create_object_from_dict` starts with an empty header list, so its first save is exact without the
    proviso: header = references of the message -/
theorem created_header_exact (g : GStore) (f : List Char) (a : Bool) (rs : List Nat) (id : Nat)
    (h : (createG g f a rs).2 = .ok id) : (createG g f a rs).1.hdrOf id = [] ∧ (createG g f a rs).1.refsOf id = rs := by
  obtain ⟨_, _, hc⟩ := createG_cases g f a rs
  rcases hc with ⟨e, he, _⟩ | ⟨hid, _, hr, _, hh⟩
  · rw [he] at h; cases h
  · rw [hid] at h
    simp only [Except.ok.injEq] at h
    subst h
    simp [GStore.hdrOf, GStore.refsOf, hr, hh, getL_dictSet]

/-- **New files stay listed, over histories.**  At any point of any history (the state `g` is arbitrary), when a creator makes a new
    archive file (`create_object_from_dict("Index/<loc>", …)`, no IWA member's name containing the pattern) and lists it
    (`add_component_metadata(id, parent, "<loc>")`), the metadata has a component for the object whose locator names exactly the
    file that now holds it — and whatever operations follow (`post`), a component with that identifier and that locator is still
    listed: no operation of the library removes or renames a component entry. -/
theorem new_files_listed_history (g : GStore) (loc parent : List Char) (rs : List Nat) (id : Nat) (post : List GOp)
    (hnew : iwaPaths g.files ("Index/".toList ++ loc) = [])
    (hc : (createG g ("Index/".toList ++ loc) false rs).2 = .ok id)
    (hm : (addComponentMetadata (createG g ("Index/".toList ++ loc) false rs).1.toStore id parent loc).2 = .ok ()) :
    ∃ c ∈ (runG g [.create ("Index/".toList ++ loc) false rs, .addMeta id parent loc]).components,
      c.identifier = id ∧
      dictGet? (runG g [.create ("Index/".toList ++ loc) false rs, .addMeta id parent loc]).files
        ("Index/".toList ++ c.locator ++ ".iwa".toList) = some (some [id]) ∧
      dictGet? (runG g [.create ("Index/".toList ++ loc) false rs, .addMeta id parent loc]).fileOf id =
        some ("Index/".toList ++ c.locator ++ ".iwa".toList) ∧
      ∃ c' ∈ (runG g ([.create ("Index/".toList ++ loc) false rs, .addMeta id parent loc] ++ post)).components,
        c'.identifier = id ∧ c'.locator = c.locator := by
  obtain ⟨e1, e2⟩ := createG_toStore g ("Index/".toList ++ loc) false rs
  have hlisted : createListed g.toStore loc parent =
      ((addComponentMetadata (createG g ("Index/".toList ++ loc) false rs).1.toStore id parent loc).1, .ok id) := by
    unfold createListed
    rw [e2] at hc
    rw [e1] at hm ⊢
    have h1 : createObject g.toStore ("Index/".toList ++ loc) false =
        ((createObject g.toStore ("Index/".toList ++ loc) false).1, .ok id) := Prod.ext rfl hc
    rw [h1]
    simp only
    have h2 : addComponentMetadata (createObject g.toStore ("Index/".toList ++ loc) false).1 id parent loc =
        ((addComponentMetadata (createObject g.toStore ("Index/".toList ++ loc) false).1 id parent loc).1, .ok ()) := Prod.ext rfl hm
    rw [h2]
  obtain ⟨c, hcm, hid, hf, hfo⟩ := (createListed_new_file g.toStore _ loc parent id hnew hlisted).2
  have hrun : (runG g [.create ("Index/".toList ++ loc) false rs, .addMeta id parent loc]).toStore =
      (addComponentMetadata (createG g ("Index/".toList ++ loc) false rs).1.toStore id parent loc).1 := rfl
  refine ⟨c, ?_, hid, ?_, ?_, ?_⟩
  · show c ∈ (runG g _).toStore.components; rw [hrun]; exact hcm
  · show dictGet? (runG g _).toStore.files _ = _; rw [hrun]; exact hf
  · show dictGet? (runG g _).toStore.fileOf _ = _; rw [hrun]; exact hfo
  · have hc2 : c ∈ (runG g [.create ("Index/".toList ++ loc) false rs, .addMeta id parent loc]).components := by
      show c ∈ (runG g _).toStore.components; rw [hrun]; exact hcm
    obtain ⟨c', h1, h2, h3, _⟩ := components_persist _ post c hc2
    refine ⟨c', ?_, h2.trans hid, h3⟩
    simpa [runG, List.foldl_append] using h1

/-! non-vacuity: a history that satisfies `TargetsExist` (a tile is created, listed, referenced from the table, the
    header lists are recomputed) — and the state it reaches -/
example :
    let g0 : GStore := {
      maxId := 2000000, lastObjId := 1999999, ids := [1, 2, 7, 1999999],
      fileOf := [(1, "Index/Document.iwa".toList), (2, "Index/Metadata.iwa".toList), (7, "Index/Document.iwa".toList),
                 (1999999, "Index/CalculationEngine.iwa".toList)],
      files := [("Index/Document.iwa".toList, some [1, 7]), ("Index/Metadata.iwa".toList, some [2]),
                ("Index/CalculationEngine.iwa".toList, some [1999999])],
      components := [⟨1999999, "CalculationEngine".toList, "CalculationEngine".toList, []⟩],
      refs := [(1, [7, 55]), (7, [1999999])], shared := [1, 2, 7, 1999999], hdr := [(1, [7, 55]), (7, [1999999])] }
    let ops := [GOp.create "Index/Tables/Tile-{}".toList false [], .addMeta 2000001 "CalculationEngine".toList "Tables/Tile-{}".toList,
      .clearRef 7 1999999, .addRef 7 2000001, .create "CalculationEngine".toList false [7, 2000002], .update]
    let g := runG g0 ops
    TargetsExist g0 ops ∧ wellFiled g0 = true ∧ wellFiled g = true ∧ g.ids = [1, 2, 7, 1999999, 2000001, 2000002] ∧
    g.refs = [(1, [7, 55]), (7, [2000001]), (2000001, []), (2000002, [7, 2000002])] ∧
    g.hdr = [(1, [7, 55]), (7, [2000001]), (2000001, []), (2000002, [7, 2000002])] ∧
    g.writtenOf 2000002 = [7, 2000002] ∧ 55 ∉ g.ids ∧ 55 ∉ g0.ids ∧
    g.components.map (fun c => (c.identifier, String.ofList c.locator)) = [(1999999, "CalculationEngine"), (2000001, "Tables/Tile-2000001")] := by
  decide +kernel

/-! **known finding `null-reference-identifier-zero`**: `add_table` creates the table model with the references of the
    template table, then overwrites `category_owner` with identifier 0 (`table_model.category_owner.identifier = 0`).
    The recorded history of a real `add_table` call starts  C …; X model old; A model 0 — the side condition fails exactly
    at that `addRef`: `TargetsExist` is false, it holds as soon as identifier 0 (and only 0) is exempted, and the state
    reached carries the unresolved reference, also in the header list after the save. -/
example :
    let g0 : GStore := {
      maxId := 1000000, lastObjId := 999999, ids := [1, 2, 904923, 904616],
      fileOf := [(1, "Index/Document.iwa".toList), (2, "Index/Metadata.iwa".toList), (904923, "Index/CalculationEngine.iwa".toList),
                 (904616, "Index/CalculationEngine.iwa".toList)],
      files := [("Index/Document.iwa".toList, some [1]), ("Index/Metadata.iwa".toList, some [2]),
                ("Index/CalculationEngine.iwa".toList, some [904923, 904616])],
      shared := [1, 2, 904923, 904616] }
    let addTable := [GOp.create "CalculationEngine".toList false [904616, 904923], .clearRef 1000001 904923, .addRef 1000001 0,
      .create "CalculationEngine".toList false [], .clearRef 1000001 904616, .addRef 1000001 1000002, .update]
    TargetsExist g0 addTable = False ∧
    targetsExistEx (fun _ => false) g0 (addTable.take 2) = true ∧ targetsExistEx (fun _ => false) g0 (addTable.take 3) = false ∧
    targetsExistEx (· == 0) g0 addTable = true ∧
    (runG g0 addTable).refsOf 1000001 = [0, 1000002] ∧ (runG g0 addTable).hdrOf 1000001 = [0, 1000002] ∧
    0 ∉ (runG g0 addTable).ids := by
  simp only [TargetsExist, eq_iff_iff, iff_false, Bool.not_eq_true]
  decide +kernel

/-! the proviso of `header_refs_exact` is real in the model: an object that loses its last reference keeps the header list
    of the previous save (`copy_object_to_iwa_file` only rewrites the list `if len(references) > 0`) -/
example :
    let g0 : GStore := {
      maxId := 1000000, lastObjId := 9, ids := [2, 5, 6], fileOf := [(2, ['m']), (5, ['d']), (6, ['d'])],
      files := [(['m'], some [2]), (['d'], some [5, 6])], refs := [(5, [6])], shared := [2, 5, 6], hdr := [(5, [6])] }
    let g := runG g0 [.clearRef 5 6, .update]
    g.refsOf 5 = [] ∧ g.hdrOf 5 = [6] := by
  decide +kernel

/-! `wellFiled` is not an invariant of arbitrary histories: a new archive file is stored under `pattern.format(id) + ".iwa"`
    whatever the file store holds under that name (the test `iwa_file in k` is made with the *unformatted* pattern) — a
    member that happens to carry the name is replaced and its objects are no longer filed.  No fixture or recorded
    session does this (the driver reports `wellFiled` before and after every recorded history). -/
example :
    let g0 : GStore := {
      maxId := 1000000, lastObjId := 9, ids := [2, 5], fileOf := [(2, ['m']), (5, "T-1000001.iwa".toList)],
      files := [(['m'], some [2]), ("T-1000001.iwa".toList, some [5])], shared := [2, 5] }
    wellFiled g0 = true ∧ wellFiled (runG g0 [.create "T-{}".toList false []]) = false := by
  decide +kernel

/-! ### stored objects stay filed -/

/-- **A creation keeps every stored object filed**, under the two side conditions the code relies on silently: the file store is a
    dict (member names pairwise distinct) and, when the creation makes a NEW member, the name `pattern.format(id) + ".iwa"` is not
    taken (`create_object_from_dict` tests the unformatted pattern and never looks).  The object created is filed as well. -/
theorem stored_objects_stay_filed_create (g : GStore) (f : List Char) (a : Bool) (rs : List Nat)
    (hw : wellFiled g = true) (hk : (dictKeys g.files).Nodup) (hb : ∀ i ∈ g.ids, i ≤ g.maxId)
    (hnew : iwaPaths g.files f = [] → a = false →
      dictGet? g.files (pyFormat1 f (natStr (g.maxId + 1)) ++ ".iwa".toList) = none) :
    wellFiled (createG g f a rs).1 = true :=
  wellFiled_createG g f a rs hw hk hb hnew

/-- **…over histories.**  From any state in which every stored object is filed, the file store is a dict and no identifier exceeds
    the high-water mark (`FiledInv`: true of every freshly opened document), every history of creations (succeeding or raising),
    component entries, reference writes and removals, `update_object_file_store` runs and blob additions in which no new member
    takes an existing member's name (`namesFree`, decidable, evaluated state by state) ends in such a state: `wellFiled` — the
    hypothesis of `header_refs_exact` — holds at every save. -/
theorem stored_objects_stay_filed (g : GStore) (ops : List GOp) (h : FiledInv g) (hops : namesFree g ops = true) :
    FiledInv (runG g ops) ∧ wellFiled (runG g ops) = true :=
  ⟨filedInv_run ops g h hops, (filedInv_run ops g h hops).1⟩

/-- …so every save of such a history writes exact headers -/
theorem header_refs_exact_history (g : GStore) (ops : List GOp) (h : FiledInv g) (hops : namesFree g ops = true) :
    (updateFileStore (runG g ops)).2 = .ok () ∧
    ∀ i ∈ (runG g ops).ids, (updateFileStore (runG g ops)).1.writtenOf i = (runG g ops).refsOf i ∧
      ((runG g ops).refsOf i ≠ [] → (updateFileStore (runG g ops)).1.hdrOf i = (runG g ops).refsOf i) := by
  obtain ⟨h1, _, _, h4⟩ := header_refs_exact (runG g ops) (stored_objects_stay_filed g ops h hops).2
  exact ⟨h1, fun i hi => ⟨(h4 i hi).1, (h4 i hi).2.1⟩⟩

/-! non-vacuity: the document of the example above as opened satisfies `FiledInv`, its history `namesFree`; in the counter-example
    below (`T-1000001.iwa` already there) `namesFree` is false — exactly the side condition -/
example :
    let g0 : GStore := {
      maxId := 2000000, lastObjId := 1999999, ids := [1, 2, 7, 1999999],
      fileOf := [(1, "Index/Document.iwa".toList), (2, "Index/Metadata.iwa".toList), (7, "Index/Document.iwa".toList),
                 (1999999, "Index/CalculationEngine.iwa".toList)],
      files := [("Metadata/DocumentIdentifier".toList, none), ("Index/Document.iwa".toList, some [1, 7]),
                ("Index/Metadata.iwa".toList, some [2]), ("Index/CalculationEngine.iwa".toList, some [1999999])],
      shared := [1, 2, 7, 1999999] }
    let ops := [GOp.create "Index/Tables/Tile-{}".toList false [], .create "Document".toList false [7], .blob "Data/x.png".toList,
      .create "CalculationEngine".toList false [7, 2000003], .update]
    (wellFiled g0 = true ∧ (dictKeys g0.files).Nodup ∧ ∀ i ∈ g0.ids, i ≤ g0.maxId) ∧ namesFree g0 ops = true ∧
    wellFiled (runG g0 ops) = true ∧ (runG g0 ops).ids = [1, 2, 7, 1999999, 2000001, 2000002, 2000003] := by
  decide +kernel
example :
    let g0 : GStore := {
      maxId := 1000000, lastObjId := 9, ids := [2, 5], fileOf := [(2, ['m']), (5, "T-1000001.iwa".toList)],
      files := [(['m'], some [2]), ("T-1000001.iwa".toList, some [5])], shared := [2, 5] }
    namesFree g0 [.create "T-{}".toList false []] = false := by
  decide +kernel

/-! ### tiles -/

/-- For every row count the tiles account for exactly the rows 0..n−1, in order, each row once. -/
theorem tiles_partition_rows (n : Nat) : (tiles n).flatMap tileRows = List.range n := by
  unfold tiles
  rw [tileLoop_rows n (n + 1) 0 (by omega)]
  simp [List.range_eq_range']

/-- …every tile is non-empty, holds at most 256 rows, starts at `tileid · 256` inside the table, and the
    tile ids are 0, 1, …, ⌈n/256⌉−1 (no extra tile when n is a multiple of 256). -/
theorem tiles_wellformed (n : Nat) :
    (∀ t ∈ tiles n, t.rowStart = t.tileid * 256 ∧ t.rowStart < n ∧ 0 < t.numRows ∧ t.numRows ≤ 256) ∧
    (tiles n).map (·.tileid) = List.range ((n + 255) / 256) := by
  constructor
  · intro t ht
    obtain ⟨j, _, hj, rfl⟩ := tileLoop_mem n (n + 1) 0 t ht
    obtain ⟨h1, h2, h3⟩ := tileGeom_spec n j hj
    rw [h1, h2, h3]
    refine ⟨rfl, hj, ?_, ?_⟩ <;> split <;> omega
  · unfold tiles
    rw [tileLoop_ids n (n + 1) 0 (by omega)]
    simp [List.range_eq_range']

/-! the pinned commit (`max_tile_idx = len(data) >> 8`) wrote an extra, empty tile at multiples of 256 -/
example : tilesPinned 256 = [⟨0, 0, 256⟩, ⟨1, 256, 0⟩] := by decide +kernel
example : tiles 256 = [⟨0, 0, 256⟩] := by decide +kernel
example : tiles 257 = [⟨0, 0, 256⟩, ⟨1, 256, 1⟩] := by decide +kernel
example : tiles 0 = [] := by decide

/-! ### cell records of a row -/

/-- The row-info written for a row of cell records whose lengths are multiples of 4 (C04) decodes,
    through the reader's `get_storage_buffers_for_row` with wide offsets, to exactly those records:
    each record lies inside the buffer and no two overlap, the offsets list has one entry per column,
    `cell_count` counts the stored cells and the buffer is the concatenation of the records. -/
theorem records_in_bounds_aligned_disjoint (cells : List (Option Bytes))
    (h4 : ∀ b, some b ∈ cells → b.length % 4 = 0) :
    let o := rowInfoGo cells 0
    rowCells o.storage (o.offsets.map (· * 4)) cells.length = cells ∧
    o.offsets.length = cells.length ∧ o.cellCount = (cells.filterMap id).length ∧
    o.storage = (cells.filterMap id).flatten := by
  have h := rowCells_rowInfoGo cells [] h4 rfl
  simp only [List.length_nil, List.nil_append] at h
  exact ⟨h, rowInfoGo_shape cells 0⟩

/-- …and each stored record starts at a 4-byte aligned position: the total length of the records
    before it, which is what its (4-byte-unit) offset says — nothing is lost by `>> 2`. -/
theorem record_positions (cells : List (Option Bytes)) (h4 : ∀ b, some b ∈ cells → b.length % 4 = 0)
    (col : Nat) (b : Bytes) (h : cells[col]? = some (some b)) :
    let start := ((cells.take col).filterMap id).flatten.length
    start % 4 = 0 ∧ (rowInfoGo cells 0).offsets[col]? = some ((start / 4 : Nat) : Int) ∧
    start + b.length ≤ (rowInfoGo cells 0).storage.length := by
  have hoff := rowInfoGo_offset cells 0 col b h
  simp only [Nat.zero_add] at hoff
  refine ⟨?_, hoff, ?_⟩
  · -- a sum of multiples of 4
    have : ∀ l : List (Option Bytes), (∀ b, some b ∈ l → b.length % 4 = 0) → ((l.filterMap id).flatten.length) % 4 = 0 := by
      intro l hl
      induction l with
      | nil => rfl
      | cons x r ih =>
        have hr := ih (fun b hb => hl b (List.mem_cons_of_mem _ hb))
        cases x with
        | none => simpa using hr
        | some c =>
          have := hl c (by simp)
          simp only [List.filterMap_cons, id, List.flatten_cons, List.length_append] at hr ⊢
          omega
    exact this _ (fun b hb => h4 b (List.mem_of_mem_take hb))
  · rw [(rowInfoGo_shape cells 0).2.2]
    have hsplit : cells = cells.take col ++ (some b :: cells.drop (col + 1)) := by
      have hlt : col < cells.length := by
        by_contra hge
        rw [List.getElem?_eq_none (by omega)] at h
        cases h
      have hget : cells[col] = some b := by
        rw [List.getElem?_eq_getElem hlt] at h
        exact Option.some.inj h
      conv => lhs; rw [← List.take_append_drop col cells]
      rw [List.drop_eq_getElem_cons hlt, hget]
    conv => rhs; rw [hsplit]
    simp only [List.filterMap_append, List.filterMap_cons, id, List.flatten_append, List.flatten_cons,
      List.length_append]
    omega

/-- `struct.pack('<Nh')` of those offsets reads back unchanged whenever it succeeds (each offset < 2^15,
    i.e. a row buffer below 128 KiB). -/
theorem row_info_offsets_roundtrip (cells : List (Option Bytes)) (st offs : Bytes) (cnt : Nat)
    (h : rowInfo cells = .ok (st, offs, cnt)) : unpackH offs = .ok (rowInfoGo cells 0).offsets := by
  unfold rowInfo at h
  cases hp : packH (rowInfoGo cells 0).offsets with
  | error e => simp [hp, bind, Except.bind] at h
  | ok b =>
    simp only [hp, bind, Except.bind, pure, Except.pure, Except.ok.injEq, Prod.mk.injEq] at h
    rw [← h.2.1]
    exact unpackH_packH _ _ hp

example : rowInfoGo [some [1, 2, 3, 4], none, some [5, 6, 7, 8, 9, 10, 11, 12], some [13, 14, 15, 16]] 0
    = ⟨[1, 2, 3, 4, 5, 6, 7, 8, 9, 10, 11, 12, 13, 14, 15, 16], [0, -1, 1, 3], 3⟩ := by decide

end NumbersModel.Props.C07
