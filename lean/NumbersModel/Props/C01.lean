/-
C01 — values written to cells are read back exactly after save and reopen.
Statements only (proofs by reference to Lemmas/Decimal128.lean, Lemmas/RowStorage.lean and
Lemmas/CellRecord.lean) and examples.

Layers of the write → save → reopen path and where each is covered:
  value → decimal triple            third-party `decimal` (assumed exact; harness computes it independently)
  decimal triple ↔ 16 payload bytes `d128_roundtrip`                                  (this file)
  payload + ids ↔ cell record       C04 `decode_encode`, re-used in `number_cell_roundtrip`
  records ↔ row (offset table)      `row_roundtrip`, `row_offsets_fit_int16`          (this file)
  rows ↔ 256-row tiles              `tiles_cover`, `tiles_bounded`, `tiles_count`      (this file)
  text ↔ string key ↔ string list   `DataLists.init` / `lookup_key` / `add_table` / `table_string`: inside `table_roundtrip`
  row index ↔ stored row record     `row_storage_map` / `storage_buffers` / `storage_buffer`: inside `table_roundtrip`
  ALL OF THE ABOVE COMPOSED         `table_roundtrip` — `recalculate_table_data` then `Table.__init__`   (this file)
  tiles ↔ file                      protobuf / snappy / zip: property C05, assumed here
  payload bytes → float/datetime    CPython float parsing, `struct`, `timedelta`: assumed, exercised
-/
import NumbersModel.Lemmas.Decimal128
import NumbersModel.Lemmas.RowStorage
import NumbersModel.Lemmas.CellRecord
import NumbersModel.Lemmas.TablePipeline
import NumbersModel.Lemmas.TrDec128
namespace NumbersModel.Props.C01
open NumbersModel NumbersModel.Decimal128 NumbersModel.RowStorage NumbersModel.CellRecord
open NumbersModel.TablePipeline

/-- the decimal triples the 16-byte payload can hold: 113-bit coefficient, 14-bit biased exponent. -/
def InFormat (d : Dec) : Prop :=
  d.coeff < 2 ^ 113 ∧ 0 ≤ d.exp + (Gen.DECIMAL128_BIAS : Int) ∧ d.exp + (Gen.DECIMAL128_BIAS : Int) < 2 ^ 14

theorem inFormat_nat (d : Dec) (h : InFormat d) :
    ∃ E : Nat, d.exp + (Gen.DECIMAL128_BIAS : Int) = (E : Int) ∧ E < 2 ^ 14 := by
  obtain ⟨_, h0, h1⟩ := h
  refine ⟨(d.exp + (Gen.DECIMAL128_BIAS : Int)).toNat, by omega, ?_⟩
  have : ((2:Int) ^ 14) = 16384 := by decide
  have h2 : (2:Nat) ^ 14 = 16384 := by decide
  omega

/-- **decimal128 round trip**, the whole format: for every sign, every coefficient below 2^113
    and every exponent whose biased value fits 14 bits, unpacking the packed payload returns
    exactly the triple that was packed (not a nearby one). -/
theorem d128_roundtrip (d : Dec) (h : InFormat d) : (pack d).bind unpack = .ok d := by
  obtain ⟨E, hE, hE2⟩ := inFormat_nat d h
  rw [pack_closed d E hE hE2 h.1]
  show unpack _ = _
  rw [unpack_closed d.coeff E d.sign hE2 h.1]
  have : (E : Int) - (Gen.DECIMAL128_BIAS : Int) = d.exp := by omega
  rw [this]

/-- the packer is total on the format and always produces 16 bytes. -/
theorem d128_pack_total (d : Dec) (h : InFormat d) : ∃ b, pack d = .ok b ∧ b.length = 16 := by
  obtain ⟨E, hE, hE2⟩ := inFormat_nat d h
  exact ⟨_, pack_closed d E hE hE2 h.1, by simp [leBytes_length]⟩

/-- distinct triples never share a payload. -/
theorem d128_pack_injective (d₁ d₂ : Dec) (h₁ : InFormat d₁) (h₂ : InFormat d₂)
    (h : pack d₁ = pack d₂) : d₁ = d₂ := by
  have r1 := d128_roundtrip d₁ h₁
  have r2 := d128_roundtrip d₂ h₂
  rw [h, r2] at r1
  injection r1 with r1
  exact r1.symm

/-- C04 `decode_encode` (restated from the same lemmas so that this file does not depend on Props/C04). -/
theorem cell_roundtrip (c : Cell) (he : Encodable c) (hr : IdsInRange c.ids) :
    ∃ b, encode c = .ok (some b) ∧ decode b = .ok (view c) :=
  ⟨cellBytes c, encode_eq c he hr, decode_cellBytes c he hr⟩

/-- a number (or currency) cell: value triple → payload → record → payload → value triple, with
    every optional id carried along unchanged (composition with C04). -/
theorem number_cell_roundtrip (d : Dec) (h : InFormat d) (currency : Bool) (sid : Option Int)
    (ids : Ids) (hr : IdsInRange ids) :
    ∃ p b, pack d = .ok p ∧
      encode { kind := if currency then .currency else .number, payload := p, stringKey := 0,
               stringId := sid, ids := ids } = .ok (some b) ∧
      (decode b).bind (fun r => (unpack (r.d128.getD [])).map (fun v => (v, r.ids))) = .ok (d, ids) := by
  obtain ⟨p, hp, hlen⟩ := d128_pack_total d h
  have hrt := d128_roundtrip d h
  rw [hp] at hrt
  have hrt' : unpack p = .ok d := hrt
  cases currency
  · obtain ⟨b, hb, hd⟩ := cell_roundtrip
      { kind := .number, payload := p, stringKey := 0, stringId := sid, ids := ids } hlen hr
    refine ⟨p, b, hp, hb, ?_⟩
    rw [hd]
    simp [view, Except.bind, hrt', Except.map]
  · obtain ⟨b, hb, hd⟩ := cell_roundtrip
      { kind := .currency, payload := p, stringKey := 0, stringId := sid, ids := ids } hlen hr
    refine ⟨p, b, hp, hb, ?_⟩
    rw [hd]
    simp [view, Except.bind, hrt', Except.map]

/-- date, bool and duration cells: the eight payload bytes read back are the eight bytes
    written. PARTIAL: the full statement is "the datetime / bool / timedelta read back equals
    the one written"; `struct.pack('<d')`, `timedelta(seconds=…)` and `EPOCH + …` are outside the
    model, so only byte fidelity is a theorem here (their inverse laws are assumptions exercised
    by the end-to-end oracle). -/
theorem seconds_payload_roundtrip_partial (c : Cell) (he : Encodable c) (hr : IdsInRange c.ids)
    (hk : c.kind = .date ∨ c.kind = .bool ∨ c.kind = .duration) :
    ∃ b, encode c = .ok (some b) ∧
      (decode b).map (fun r => (r.kind, r.double, r.seconds))
        = .ok (dkindOf c.kind, (if c.kind = .date then none else some c.payload),
               (if c.kind = .date then some c.payload else none)) := by
  obtain ⟨b, hb, hd⟩ := cell_roundtrip c he hr
  refine ⟨b, hb, ?_⟩
  rw [hd]
  rcases hk with hk | hk | hk <;> simp [view, hk, Except.map]

/-- **the offset table never overflows**: with at most `MAX_COL_COUNT` columns of records of at
    most 76 bytes (C04 `encode_length_aligned`) every stored offset fits an int16, so
    `recalculate_row_info` cannot raise and writes one offset per column. Re-checked against the
    generated constant: raising MAX_COL_COUNT beyond 1724 breaks this proof. -/
theorem row_offsets_fit_int16 (width0 : Nat) (cells : List (Option Bytes))
    (hw : cells.length ≤ width0) (hmax : cells.length ≤ Gen.MAX_COL_COUNT)
    (hl : ∀ b, some b ∈ cells → b.length ≤ 12 + 16 + 12 * 4 ∧ b.length % 4 = 0) :
    ∃ ob st n, rowInfo width0 cells = .ok (ob, st, n) ∧ ob.length = 2 * width0 := by
  have hfit := offsets_fit cells 76 hmax (fun b hb => (hl b hb).1) (by decide)
  obtain ⟨ob, st, n, h1, _, _, h4, _⟩ := row_write_read width0 cells hw hfit (fun b hb => (hl b hb).2)
  exact ⟨ob, st, n, h1, h4⟩

/-- **row round trip**: reading the offset table and storage buffer that the writer produced
    returns exactly the records written — same record in the same column, holes (`None`) where
    there was no record, for any number of columns up to the limit. -/
theorem row_roundtrip (cells : List (Option Bytes)) (hmax : cells.length ≤ Gen.MAX_COL_COUNT)
    (hl : ∀ b, some b ∈ cells → b.length ≤ 12 + 16 + 12 * 4 ∧ b.length % 4 = 0) :
    ∃ ob st n, rowInfo cells.length cells = .ok (ob, st, n) ∧
      rowBuffers st ob cells.length true = .ok cells := by
  have hfit := offsets_fit cells 76 hmax (fun b hb => (hl b hb).1) (by decide)
  obtain ⟨ob, st, n, h1, _, _, _, h5⟩ :=
    row_write_read cells.length cells (Nat.le_refl _) hfit (fun b hb => (hl b hb).2)
  refine ⟨ob, st, n, h1, ?_⟩
  simpa using h5

/-- the 256-row tiles concatenate back to the table, for any number of rows. -/
theorem tiles_cover {α} (data : List α) : (tiles data).flatMap (·.2) = data := by
  by_cases hn : data.length = 0
  · have : data = [] := List.length_eq_zero_iff.mp hn
    subst this; simp [tiles, tileLoop_empty]
  · have := tileLoop_cover data hn (data.length + 2) 0 (Nat.zero_le _)
      (by have := Nat.div_le_self (data.length - 1) 256; omega)
    simpa [tiles] using this

/-- no tile holds more than 256 rows. -/
theorem tiles_bounded {α} (data : List α) : ∀ t ∈ tiles data, t.2.length ≤ 256 :=
  tileLoop_bounded data _ 0

/-- exactly `ceil(len / 256)` tiles are written: a table whose row count is a multiple of 256
    gets no trailing empty tile (as repaired; the pinned code wrote `len // 256 + 1` tiles). -/
theorem tiles_count {α} (data : List α) (hn : data.length ≠ 0) :
    (tiles data).length = (data.length - 1) / 256 + 1 := by
  have := tileLoop_length data hn (data.length + 2) 0 (Nat.zero_le _)
    (by have := Nat.div_le_self (data.length - 1) 256; omega)
  simpa [tiles] using this

/-! ### the whole table: `recalculate_table_data` then `Table.__init__` -/

/-- **table round trip** (end-to-end composition of every layer above with the string list, the
    row map and the grid rebuild loop). For every grid of cells with at least one row, all rows of
    the same width `w ≤ MAX_COL_COUNT`, at most `MAX_ROW_COUNT` rows (any number of 256-row tiles),
    every cell either a merged placeholder (a hole in the row storage) or a supported class with a
    well-sized payload and int32 ids (`ValidCell`: any mix of number, currency, text, date, bool,
    duration, rich-text and empty cells), and a merge map that names exactly the placeholders:
    saving the grid (`saveTable` = `recalculate_table_data`) never raises, reading the saved
    objects back (`loadTable` = `Table.__init__` over `row_storage_map` / `storage_buffers` /
    `storage_buffer` / `_from_storage` / `table_string`) never raises, and the grid read is the grid
    saved, position by position: same class, same payload bytes, same twelve ids, same flag words —
    and for a text cell the same string, although every string key was re-assigned by the save
    (`forgetKey` hides only the numeric value of the key). No bound on the size other than the
    library's own limits; the row limit is what makes every key fit the int32 field
    (`MAX_ROW_COUNT · MAX_COL_COUNT ≤ 2^31 − 1`, re-`decide`d against the generated constants). -/
theorem table_roundtrip (mr : Nat → Nat → Bool) (grid : List (List TCell)) (w : Nat)
    (hne : 1 ≤ grid.length) (hrect : TablePipeline.Rect grid w) (hw : w ≤ Gen.MAX_COL_COUNT)
    (hrows : grid.length ≤ Gen.MAX_ROW_COUNT) (hvalid : ∀ row ∈ grid, ∀ c ∈ row, ValidCell c)
    (hmr : MergeAgrees mr grid) :
    ((saveTable grid).bind (loadTable mr)).map (fun g => g.map (·.map forgetKey))
      = .ok (grid.map (·.map viewT)) := by
  have hne' : grid ≠ [] := by intro h; rw [h] at hne; simp at hne
  obtain ⟨s, g, hs, hg, heq⟩ := load_save mr grid w hne' hrect hw hrows hvalid hmr
  rw [hs]
  show (loadTable mr s).map _ = _
  rw [hg]
  exact congrArg Except.ok heq

/-- the saved table has the dimensions of the grid and `ceil(rows / 256)` tiles. -/
theorem table_saved_shape (grid : List (List TCell)) (w : Nat)
    (hne : 1 ≤ grid.length) (hrect : TablePipeline.Rect grid w) (hw : w ≤ Gen.MAX_COL_COUNT)
    (hrows : grid.length ≤ Gen.MAX_ROW_COUNT) (hvalid : ∀ row ∈ grid, ∀ c ∈ row, ValidCell c) :
    ∃ s, saveTable grid = .ok s ∧ s.numRows = grid.length ∧ s.numCols = w ∧
      s.tiles.length = (grid.length - 1) / 256 + 1 := by
  have hne' : grid ≠ [] := by intro h; rw [h] at hne; simp at hne
  -- the merge map that agrees with the grid by construction
  let mr : Nat → Nat → Bool := fun r c =>
    match grid[r]? with
    | some row => (match row[c]? with | some cell => decide (cell.kind = .merged) | none => false)
    | none => false
  have hmr : MergeAgrees mr grid := by
    intro r row hrow c cell hcell
    simp [mr, hrow, hcell]
  obtain ⟨s, _, hs, _, h1, h2, h3, _⟩ := load_save_rel mr grid w hne' hrect hw hrows hvalid hmr
  exact ⟨s, hs, h1, h2, by rw [h3, tiles_count grid (by omega)]⟩

/-! ### non-vacuity -/

example : InFormat { sign := true, coeff := 12345, exp := -2 } := by
  refine ⟨by decide, by decide, by decide⟩
example : InFormat { sign := false, coeff := 2 ^ 113 - 1, exp := 6111 } := by
  refine ⟨by decide, by decide, by decide⟩
example : pack { sign := false, coeff := 12, exp := 0 }
    = .ok [12, 0, 0, 0, 0, 0, 0, 0, 0, 0, 0, 0, 0, 0, 0x40, 0x30] := by decide
example : unpack [12, 0, 0, 0, 0, 0, 0, 0, 0, 0, 0, 0, 0, 0, 0x40, 0x30]
    = .ok { sign := false, coeff := 12, exp := 0 } := by decide
example : rowInfo 3 [some [1, 2, 3, 4], none, some [5, 6, 7, 8, 9, 10, 11, 12]]
    = .ok ([0, 0, 0xff, 0xff, 1, 0], [1, 2, 3, 4, 5, 6, 7, 8, 9, 10, 11, 12], 2) := by decide
example : rowBuffers [1, 2, 3, 4, 5, 6, 7, 8, 9, 10, 11, 12] [0, 0, 0xff, 0xff, 1, 0] 3 true
    = .ok [some [1, 2, 3, 4], none, some [5, 6, 7, 8, 9, 10, 11, 12]] := by decide
example : (tiles (List.range 513)).map (fun t => (t.1, t.2.length)) = [(0, 256), (1, 256), (2, 1)] := by
  decide +kernel
example : (tiles (List.range 512)).map (fun t => (t.1, t.2.length)) = [(0, 256), (1, 256)] := by
  decide +kernel

/-- a 3 × 2 grid: a text, a number, a merged hole, the same text again, an empty cell, a bool. -/
def demoGrid : List (List TCell) :=
  [[⟨.text, [], "ab".toList, none, {}⟩, ⟨.number, List.replicate 16 7, [], none, { numFmt := some 3 }⟩],
   [⟨.merged, [], [], none, {}⟩, ⟨.text, [], "ab".toList, none, {}⟩],
   [⟨.empty, [], [], none, {}⟩, ⟨.bool, List.replicate 8 1, [], none, {}⟩]]
def demoMerge : Nat → Nat → Bool := fun r c => r == 1 && c == 0

/-- the hypotheses of `table_roundtrip` are satisfiable ... -/
example : 1 ≤ demoGrid.length ∧ TablePipeline.Rect demoGrid 2 ∧ 2 ≤ Gen.MAX_COL_COUNT ∧
    demoGrid.length ≤ Gen.MAX_ROW_COUNT ∧ (∀ row ∈ demoGrid, ∀ c ∈ row, ValidCell c) ∧
    MergeAgrees demoMerge demoGrid := by
  refine ⟨by decide, by simp [TablePipeline.Rect, demoGrid], by decide, by decide, ?_, ?_⟩
  · simp [demoGrid, ValidCell, EncodableT, Encodable, toCell, IdsInRange, I32]
  · intro r row hrow c cell hcell
    match r, c with
    | 0, 0 | 0, 1 | 1, 0 | 1, 1 | 2, 0 | 2, 1 =>
      simp [demoGrid] at hrow; subst hrow; simp at hcell; subst hcell; simp [demoMerge]
    | 0, c + 2 | 1, c + 2 | 2, c + 2 => simp [demoGrid] at hrow; subst hrow; simp at hcell
    | r + 3, _ => simp [demoGrid] at hrow
/-- ... and its conclusion, computed: both texts come back (they share key 1), the hole is the
    merged placeholder. -/
example : ((saveTable demoGrid).bind (loadTable demoMerge)).map (fun g => g.map (·.map forgetKey))
    = .ok (demoGrid.map (·.map viewT)) := by decide +kernel
example : (saveTable demoGrid).map (fun s => (s.numRows, s.numCols)) = .ok (3, 2) := by decide +kernel
example : (saveTable demoGrid).map (fun s => s.strings) = .ok [⟨1, 2, "ab".toList⟩] := by decide +kernel
example : (saveTable demoGrid).map (fun s => s.tiles.map (fun t => t.rowInfos.map (fun r => r.cellCount)))
    = .ok [[2, 1, 2]] := by decide +kernel
/-- 257 rows (two tiles), one column: 256 bools and, in the second tile, a text. The save writes
    tiles (0: 256 rows) and (1: 1 row); the cell of row 256 is read from the second tile with its
    text. (The whole-grid statement for this shape is `table_roundtrip`; evaluating all 257 cells in
    the kernel takes ~35 s, so the example evaluates the tiles and the last cell.) -/
def tallGrid : List (List TCell) := (List.range 257).map fun i =>
  [if i = 256 then (⟨.text, [], ['B'], none, {}⟩ : TCell) else ⟨.bool, List.replicate 8 1, [], none, {}⟩]
example : (saveTable tallGrid).map (fun s => s.tiles.map (fun t => (t.tileid, t.numrows, t.rowInfos.length)))
    = .ok [(0, 256, 256), (1, 1, 1)] := by decide +kernel
example : ((saveTable tallGrid).bind fun s =>
      loadCell (fun _ _ => false) (Layout.rowStorageMap s.numRows s.tileSize (s.tiles.map toLayoutTile))
        (decodeTiles s.numCols s.tiles) (Layout.addTable s.strings) 256 0).map forgetKey
    = .ok (viewT ⟨.text, [], ['B'], none, {}⟩) := by decide +kernel

end NumbersModel.Props.C01

/-! ## The decimal128 clause over the reader translated from the Python source

`Gen/TrDec128.lean` is regenerated by `harness/py2lean.py` from `cell._unpack_decimal128` in the working tree on every
check run (byte reads, `& << >> |`, the `for i in range(13, -1, -1)` loop, the sign test: everything before the final
`float(f"{mantissa}E{exp}")`); `Lemmas/TrDec128.lean` proves it equal to `Decimal128.unpack` for every buffer, short
ones included. -/
namespace NumbersModel.Props.C01.Src
open NumbersModel NumbersModel.Decimal128 NumbersModel.Gen.T NumbersModel.Translated

/-- for every sign, every coefficient below 2^113 and every exponent whose biased value fits 14 bits, the translated
    reader applied to the packed payload hands exactly that sign, that (signed) mantissa and that exponent to the final
    `float(f"{mantissa}E{exp}")`. -/
theorem src_d128_roundtrip (d : Dec) (h : C01.InFormat d) :
    (pack d).bind unpack_decimal128 = .ok (decView d) := by
  have hf : unpack_decimal128 = fun b => (Decimal128.unpack b).map decView := funext unpack_decimal128_eq_model
  obtain ⟨p, hp, _⟩ := C01.d128_pack_total d h
  have hrt := C01.d128_roundtrip d h
  rw [hp] at hrt ⊢
  have hu : Decimal128.unpack p = .ok d := hrt
  show unpack_decimal128 p = _
  rw [hf]
  simp only [hu, Except.map]

/-- the same with the writer translated from the source as well (`_pack_decimal128` from the decimal triple on): the two
    translated halves compose to the identity on the whole format. -/
theorem src_d128_roundtrip_both (d : Dec) (h : C01.InFormat d) :
    (pack_decimal128 (if d.sign then 1 else 0) (d.coeff : Int) d.exp).bind unpack_decimal128 = .ok (decView d) := by
  rw [pack_decimal128_eq_model]
  exact src_d128_roundtrip d h

/-- the translated writer is total on the format and produces 16 bytes. -/
theorem src_d128_pack_total (d : Dec) (h : C01.InFormat d) :
    ∃ b, pack_decimal128 (if d.sign then 1 else 0) (d.coeff : Int) d.exp = .ok b ∧ b.length = 16 := by
  rw [pack_decimal128_eq_model]
  exact C01.d128_pack_total d h

/-- the translated reader raises IndexError on a buffer shorter than 16 bytes and nothing else on any buffer. -/
theorem src_d128_unpack_errors (buf : Bytes) :
    (buf.length < 16 → unpack_decimal128 buf = .error .IndexError) ∧
    (16 ≤ buf.length → ∃ r, unpack_decimal128 buf = .ok r) := by
  rw [unpack_decimal128_eq_model]
  constructor
  · intro h
    rw [unpack_short buf h]; rfl
  · intro h
    have h15 := pyIndex_nat buf 15 (by omega)
    have h14 := pyIndex_nat buf 14 (by omega)
    have e15 : ((15 : Nat) : Int) = 15 := rfl
    have e14 : ((14 : Nat) : Int) = 14 := rfl
    rw [e15] at h15; rw [e14] at h14
    simp only [Decimal128.unpack, h15, h14, bind, Except.bind, pure, Except.pure, Except.map]
    exact ⟨_, rfl⟩

example : unpack_decimal128 [12, 0, 0, 0, 0, 0, 0, 0, 0, 0, 0, 0, 0, 0, 0x40, 0xB0] = .ok (1, -12, 0) := by decide +kernel
example : pack_decimal128 1 12 0 = .ok [12, 0, 0, 0, 0, 0, 0, 0, 0, 0, 0, 0, 0, 0, 0x40, 0xB0] := by decide +kernel
example : pack_decimal128 0 1 (-7000) = .error .ValueError ∧ pack_decimal128 0 (2 ^ 128) 0 = .error .IndexError := by
  decide +kernel

end NumbersModel.Props.C01.Src
