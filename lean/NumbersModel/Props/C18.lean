/-
C18 — Formula tokenizer is lossless, total, and accepts every formula the reader emits.
Statements over `tokenize liveCfg` (Model/Tokenizer.lean with the tables generated from the
source).  Clause 4 (reader output accepted) is not a theorem here; see harness/checks/c18.py.
-/
import NumbersModel.Lemmas.Tokenizer
import NumbersModel.Lemmas.TokenizerQuotes
import NumbersModel.Model.TokenizerCfg
import NumbersModel.Lemmas.FormulaAccept
import NumbersModel.Props.C08
import NumbersModel.Lemmas.TrTok
import NumbersModel.Lemmas.TrTokParse
namespace NumbersModel.Props.C18
open NumbersModel NumbersModel.Tokenizer

/-- the regexes in tokenizer.py are the ones the scanners were derived from. -/
theorem tables_as_modelled :
    Gen.stringRegexDq = "\"(?:[^\"]*\"\")*[^\"]*\"(?!\")" ∧
    Gen.stringRegexSq = "(?:'[^']*(?:''[^']*)*')(?:\\s*:\\s*'[^']*(?:''[^']*)*')*" ∧
    Gen.snRegex = "^[1-9](\\.[0-9]+)?E$" := by decide

/-- what the dispatcher silently relies on: every operator, closer and separator character
    it dispatches on is in TOKEN_ENDERS (so the pending operand was saved first). -/
theorem dispatch_chars_end_tokens : EndersOK Gen.TOKEN_ENDERS := by
  have hop : ∀ x ∈ opChars, Gen.TOKEN_ENDERS.contains x = true := by decide
  intro c h
  rcases h with h | h | h | h | h
  · exact hop c (by simpa [List.contains_iff_mem] using h)
  all_goals (subst h; decide)

theorem error_codes_ok : CodesOK Gen.ERROR_CODES ∧ CodesNoQuote Gen.ERROR_CODES := by
  constructor
  · unfold CodesOK; decide
  · unfold CodesNoQuote; decide

theorem liveCfg_fixed : FixedCfg liveCfg := ⟨rfl, error_codes_ok.1⟩

/-- (1) lossless: for every string, if tokenizing succeeds the token texts concatenated in
    order are the input — nothing dropped, duplicated or invented. -/
theorem tokenize_lossless (s : Text) (toks : List Tok) (h : tokenize liveCfg s = .ok toks) :
    (toks.map (·.value)).flatten = s :=
  tokenize_flat dispatch_chars_end_tokens s toks h

/-- (2) total: for every string the outcome is a token list or TokenizerError. -/
theorem tokenize_total (s : Text) :
    (∃ toks, tokenize liveCfg s = .ok toks) ∨ tokenize liveCfg s = .error .TokenizerError :=
  tokenize_total' liveCfg_fixed s

/-- the loop always finishes within `len + 1` iterations (every iteration consumes a character). -/
theorem tokenize_terminates (s : Text) : tokenize liveCfg s ≠ .error .OutOfFuel := by
  rcases tokenize_total s with ⟨t, h⟩ | h <;> rw [h] <;> simp

/-- (3) a quoted string or quoted name is never split: every token is either one complete
    double-quoted string (`"…"` with inner `"` doubled), or a text all of whose quote
    characters belong to complete quoted names inside that same token (`'…'` with inner `'`
    doubled, optionally `:`-joined, possibly after a `Table::` prefix or a range colon).
    With (1), every quote character of the input lies inside such a literal within one token. -/
theorem quotes_not_split (s : Text) (toks : List Tok) (h : tokenize liveCfg s = .ok toks) :
    ∀ t ∈ toks, WellQuoted Gen.whitespace t.value :=
  tokenize_quotes error_codes_ok.2 s toks h

/-- what the double-quote scanner accepts is a complete literal. -/
theorem dq_literal_wellformed (s : Text) (n : Nat) (h : dqMatch s = some n) : DQLit (s.take n) :=
  dqMatch_wf h

theorem sq_literal_wellformed (s : Text) (n : Nat) (h : sqMatch Gen.whitespace s = some n) :
    SQLit Gen.whitespace (s.take n) := sqMatch_wf h

/-- (4a) every text of the formula grammar `G` — operands that are plain texts, string literals or
    references with quoted names (`'a-b'`, `Table 1::'a-b'`, `'a-b':'c+d'`, `alpha:'a-b'`, `'a-b':alpha`:
    an optional plain prefix ending in a colon, a chain of quoted names, optionally `:` and a plain name),
    the twelve binary operators, unary minus, `%`, parenthesised / function-call argument lists
    with `,` or `;` separators and empty arguments, array literals `{…}` — is accepted: tokenizing it succeeds. -/
theorem grammar_accepted (t : Text) (h : G true t) : ∃ toks, tokenize liveCfg t = .ok toks :=
  tokenize_accepts h

/-- (4b) PARTIAL — every formula text the reader produces for a well-formed stored expression
    (C08's `exec_compile`: what `Cell.formula` returns is `render e`) is accepted by the tokenizer,
    for expressions that are `TokSafe`: EVERY constructor (array literals included), with number and
    function-name texts that are plain and reference texts that are plain or of the quoted shapes the
    reader prints (`FormulaAccept.refOK`: names containing operator characters are quoted, alone, behind a
    `Table::` / `Sheet::Table::` prefix, on either or both sides of a range colon).
    Still excluded (why this stays `_partial`): a name containing an apostrophe — `expand_ref` prints
    `Bob'''s`, which the tokenizer rejects (recorded finding, exercised by the check) — and a table or
    sheet name that itself contains operator characters, which the reader prints unquoted.
    Full statement (not true of the code, see the finding): the same for every well-formed expression and
    every reference text the reader can print. -/
theorem reader_output_accepted_partial (e : Formula.Expr) (hw : Formula.WellFormed e = true)
    (hs : FormulaAccept.TokSafe e = true) :
    ∃ text toks, Formula.formulaText (Formula.compile e) = .ok text ∧ tokenize liveCfg text = .ok toks := by
  obtain ⟨toks, ht⟩ := tokenize_accepts (FormulaAccept.render_G e hs)
  exact ⟨Formula.render e, toks, C08.exec_compile_top e hw, ht⟩

/-! ### the defect of the pinned commit, as a theorem about its model -/
example : tokenize pinnedCfg ")".toList = .error .IndexError := by decide
example : tokenize liveCfg ")".toList = .error .TokenizerError := by decide

/-- the pinned `parse_string` rejected what the reader itself prints for a quoted header name
    behind a table prefix (`Data::'a-b'`); the repaired one keeps it in one token. -/
example : (parseStringPinned Gen.whitespace ⟨[], [], "Data::".toList, "'a-b'".toList⟩).map (fun _ => ())
    = .error .TokenizerError := by decide
example : (tokenize liveCfg "Data::'a-b':'a-b'+1".toList).toOption.map (·.map (·.value)) =
    some ["Data::'a-b':'a-b'".toList, "+".toList, "1".toList] := by decide +kernel

/-! ### non-vacuity -/
example : FormulaAccept.TokSafe
    (.bin .add (.bin .mul (.paren [.ref "A1:B2".toList, .empty, .num (.int 3)]) (.neg (.ref "$C$4".toList)))
      (.pct (.str "a\"b".toList))) = true := by decide
example : Formula.render
    (.bin .add (.bin .mul (.paren [.ref "A1:B2".toList, .empty, .num (.int 3)]) (.neg (.ref "$C$4".toList)))
      (.pct (.str "a\"b".toList))) = "(A1:B2,,3)×-$C$4+\"a\"\"b\"%".toList := by decide
example : (tokenize liveCfg "SUM(A1:B2)×3+\"a\"\"b\"".toList).toOption.map (·.map (·.value)) =
    some ["SUM(".toList, "A1:B2".toList, ")".toList, "×".toList, "3".toList, "+".toList, "\"a\"\"b\"".toList] := by
  decide +kernel
example : (tokenize liveCfg "'x':'y'+1".toList).toOption.map (·.map (·.value)) =
    some ["'x':'y'".toList, "+".toList, "1".toList] := by decide +kernel
example : DQLit "\"a\"\"b\"".toList := ⟨"a\"\"b".toList, rfl, by decide⟩
-- array literals and references that need quoting are inside `TokSafe`; an apostrophe in a name is not
example : FormulaAccept.TokSafe
    (.bin .add (.arr 2 2 [.num (.int 1), .ref "'a-b'".toList, .ref "Table 1::'a-b':'c+d'".toList, .str "x".toList])
      (.call 168 [.ref "alpha:'a-b'".toList, .empty, .ref "Sheet 1::Table 1::'a-b':alpha".toList])) = true := by
  decide +kernel
example : FormulaAccept.refOK "Bob'''s".toList = false ∧ FormulaAccept.refOK "'a-b':' c'".toList = true ∧
    FormulaAccept.refOK "x'a-b'".toList = false ∧ FormulaAccept.refOK "'a-b': c".toList = false := by decide +kernel
example : (tokenize liveCfg "{1,'a-b';Table 1::'a-b':'c+d',\"x\"}+alpha:'a-b'".toList).toOption.map (·.map (·.value)) =
    some ["{".toList, "1".toList, ",".toList, "'a-b'".toList, ";".toList, "Table 1::'a-b':'c+d'".toList, ",".toList,
      "\"x\"".toList, "}".toList, "+".toList, "alpha:'a-b'".toList] := by decide +kernel
example : (tokenize liveCfg "Bob'''s+1".toList).toOption = none := by decide +kernel

end NumbersModel.Props.C18

/-! ## The tokenizer translated from the Python source

`Gen/TrTok.lean` is regenerated by `harness/py2lean.py` from `tokenizer.py` in the working tree on every check run: the `Token`
constructors (`make_subexp`, `get_closer`, `make_separator`) and every method of `Tokenizer` (`assert_empty_token`, `save_token`,
`check_scientific_notation`, `parse_string`, `parse_error`, `parse_operator`, `parse_opener`, `parse_closer`, `parse_separator`,
`parse` with its dispatch dict and `while` loop), the instance attributes threaded as state variables.  The source works on
`formula` / `offset` and keeps the pending token as a list of pieces; the model on `rest = formula[offset:]` and the joined
token.  `Lemmas/TrTok.lean` proves every method refines the model's function under the simulation `Pos` / `Rep` / `StackOK`,
`Lemmas/TrTokParse.lean` that one loop iteration is one `step`, that the fuel `len(formula) + 1` suffices, and
`parse_refines_model : srcTokenize s = tokenize liveCfg s`.  The clauses of C18 are restated below over the translation. -/
namespace NumbersModel.Props.C18.Src
open NumbersModel NumbersModel.Tokenizer NumbersModel.Gen.T NumbersModel.Translated

/-- a pending token makes `assert_empty_token` raise TokenizerError, an empty buffer lets it pass — as in the model. -/
theorem src_assert_empty_token (pieces : List Text) (st : St) (h : Rep pieces st) :
    assert_empty_token pieces = assertEmpty st := assert_empty_token_eq_model pieces st h

/-- `save_token` never raises; it appends the pending token as ONE operand whose text is the join of the pieces (nothing
    dropped, nothing split) and clears the buffer, exactly as the model's `saveToken`. -/
theorem src_save_token (pieces : List Text) (st : St) (h : Rep pieces st) :
    ∃ pieces', save_token st.items pieces = .ok ((), (saveToken st).items, pieces') ∧ Rep pieces' (saveToken st) :=
  save_token_eq_model pieces st h

/-- `check_scientific_notation` consumes the sign exactly when the model's `step` does (pending token of the `1E` shape) -/
theorem src_check_scientific_notation {f : Text} {o : Int} {st : St} {pieces : List Text} {c : Char} {r : Text}
    (hp : Pos f o st) (hr : Rep pieces st) (hrs : st.rest = c :: r) :
    check_scientific_notation f o pieces =
      .ok (if (c = '+' ∨ c = '-') ∧ st.token.length ≥ 1 ∧ snMatch st.token = true
        then (true, o + 1, pieces ++ [[c]]) else (false, o, pieces)) :=
  check_scientific_notation_refines_model hp hr hrs

/-- every iteration of the source's `while` loop is one `step` of the model: same exception, or related next states -/
theorem src_loop_iteration (n : Nat) {f : Text} {o : Int} {st : St} {pieces : List Text} {c : Char} {r : Text}
    (hp : Pos f o st) (hr : Rep pieces st) (hs : StackOK st) (hrs : st.rest = c :: r) :
    StepRel n f (parse.loop1 (n + 1) f o pieces st.items st.stack) (step liveCfg st) :=
  loop1_step n hp hr hs hrs

/-- the translated `Tokenizer(formula).items` IS the model's `tokenize`, for every string -/
theorem src_parse_refines (s : Text) : srcTokenize s = tokenize liveCfg s := parse_refines_model s

/-- (1) lossless, over the source: the token texts concatenated in order are the input -/
theorem src_tokenize_lossless (s : Text) (toks : List Tok) (h : srcTokenize s = .ok toks) :
    (toks.map (·.value)).flatten = s :=
  tokenize_lossless s toks (parse_refines_model s ▸ h)

/-- (2) total, over the source: a token list or TokenizerError, for every string — no IndexError from `formula[offset]`,
    `items[-1]`, `token_stack.pop()`, no KeyError from the dispatcher or `STRING_REGEXES[delim]` -/
theorem src_tokenize_total (s : Text) :
    (∃ toks, srcTokenize s = .ok toks) ∨ srcTokenize s = .error .TokenizerError := by
  rw [parse_refines_model s]; exact tokenize_total s

/-- the `while` loop of the source ends within `len(formula) + 1` iterations: the fuel of the translation suffices -/
theorem src_parse_fuel_suffices (s : Text) : srcTokenize s ≠ .error .OutOfFuel := by
  rw [parse_refines_model s]; exact tokenize_terminates s

/-- (3) quotes never split, over the source -/
theorem src_quotes_not_split (s : Text) (toks : List Tok) (h : srcTokenize s = .ok toks) :
    ∀ t ∈ toks, WellQuoted Gen.whitespace t.value :=
  quotes_not_split s toks (parse_refines_model s ▸ h)

/-- (4a) every text of the formula grammar is accepted, over the source -/
theorem src_grammar_accepted (t : Text) (h : G true t) : ∃ toks, srcTokenize t = .ok toks := by
  rw [parse_refines_model t]; exact grammar_accepted t h

example : save_token [] ["SUM".toList, "(".toList] = .ok ((), [makeOperand "SUM(".toList], []) := by decide +kernel
example : assert_empty_token [['a']] = .error .TokenizerError ∧ assert_empty_token [] = .ok () := by decide
example : (srcTokenize "SUM(1E+3,'a':'b')≥\"x\"\"y\"".toList).toOption.map (·.map (·.value)) =
    some ["SUM(".toList, "1E+3".toList, ",".toList, "'a':'b'".toList, ")".toList, "≥".toList, "\"x\"\"y\"".toList] := by
  decide +kernel
example : srcTokenize ")".toList = .error .TokenizerError := by decide +kernel
example : parse_closer ")".toList 0 [] [⟨"f(".toList, .FUNC, .OPEN⟩] = .ok (1, [⟨")".toList, .FUNC, .CLOSE⟩], []) := by
  decide +kernel

end NumbersModel.Props.C18.Src
