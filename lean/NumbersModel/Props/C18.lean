import NumbersModel.Model.Tokenizer
import NumbersModel.Gen.Constants
namespace NumbersModel.Props.C18
end NumbersModel.Props.C18
