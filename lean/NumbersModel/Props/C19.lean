/-
C19 — Sheet and table collections: unique names, consistent lookup, stable order.
`lname` stands for `name.lower()` as the interpreter computes it; the theorems hold for
every such function (it is data carried by the items).
-/
import NumbersModel.Lemmas.Items
import NumbersModel.Lemmas.TrItems
import NumbersModel.Lemmas.DocTreeOps
namespace NumbersModel.Props.C19
open NumbersModel NumbersModel.Items

/-- adding (explicitly named or auto-named) never produces two siblings equal ignoring case. -/
theorem add_no_ci_duplicate (items items' : Coll) (pu pl : Text) (id : Nat) (nm : Option (Text × Text))
    (h : NoCIDup items) (e : add items pu pl id nm = .ok items') : NoCIDup items' := by
  unfold add at e
  split at e
  · split at e
    · cases e
    · rename_i hc
      injection e with e; subst e
      exact nodup_push h (by simpa using hc)
  · cases hp : pickNum items pl (items.length + 1) 1 with
    | error x => simp [hp, bind, Except.bind] at e
    | ok n =>
      simp only [hp, bind, Except.bind] at e
      injection e with e; subst e
      exact nodup_push h (pickNum_spec items pl _ _ _ hp).1

/-- automatically chosen names are always fresh, the smallest free number is taken, and the
    search always terminates: an unnamed add never fails. -/
theorem auto_name_fresh (items : Coll) (pu pl : Text) (id : Nat) :
    ∃ n, add items pu pl id none = .ok (items ++ [⟨id, autoName pu n, autoLower pl n⟩]) ∧
      containsCI items (autoLower pl n) = false ∧
      ∀ j, 1 ≤ j → j < n → containsCI items (autoLower pl j) = true := by
  obtain ⟨n, hn⟩ := pickNum_terminates items pl
  obtain ⟨h1, _, h3⟩ := pickNum_spec items pl _ _ _ hn
  exact ⟨n, by simp [add, hn, bind, Except.bind], h1, h3⟩

/-- an explicit duplicate (ignoring case) is refused with IndexError; a non-duplicate is appended
    at the end, existing items and their order untouched. -/
theorem dup_refused (items : Coll) (pu pl : Text) (id : Nat) (nm lnm : Text) :
    (containsCI items lnm = true → add items pu pl id (some (nm, lnm)) = .error .IndexError) ∧
    (containsCI items lnm = false → add items pu pl id (some (nm, lnm)) = .ok (items ++ [⟨id, nm, lnm⟩])) := by
  constructor <;> intro h <;> simp [add, h]

/-- lookup by name returns an item of the collection with exactly that name (the first one),
    and raises KeyError exactly when there is none. -/
theorem lookup_by_name_exact (items : Coll) (k : Text) :
    (∀ it, getByName items k = .ok it → it ∈ items ∧ it.name = k) ∧
    ((∃ it ∈ items, it.name = k) → ∃ it, getByName items k = .ok it) ∧
    ((∀ it ∈ items, it.name ≠ k) → getByName items k = .error .KeyError) := by
  unfold getByName
  refine ⟨?_, ?_, ?_⟩
  · intro it h
    cases hf : items.find? (fun it => decide (it.name = k)) with
    | none => simp [hf] at h
    | some x =>
      simp only [hf] at h
      injection h with h; subst h
      exact ⟨List.mem_of_find?_eq_some hf, by simpa using List.find?_some hf⟩
  · rintro ⟨it, hm, hn⟩
    cases hf : items.find? (fun it => decide (it.name = k)) with
    | none =>
      rw [List.find?_eq_none] at hf
      exact absurd hn (by simpa using hf it hm)
    | some x => exact ⟨x, rfl⟩
  · intro h
    have : items.find? (fun it => decide (it.name = k)) = none := by
      rw [List.find?_eq_none]; intro x hx; simpa using h x hx
    simp [this]

/-- lookup by index agrees with iteration order for every index in [-n, n) … -/
theorem index_agrees_with_iteration (items : Coll) (i : Int)
    (h1 : -(items.length : Int) ≤ i) (h2 : i < items.length) :
    ∃ it, items[(i % (items.length : Int)).toNat]? = some it ∧ getByIndex items i = .ok it :=
  getByIndex_in_range items i h1 h2

/-- … and raises IndexError outside it (both sides). -/
theorem index_outside_raises (items : Coll) (i : Int)
    (h : i < -(items.length : Int) ∨ (items.length : Int) ≤ i) :
    getByIndex items i = .error .IndexError := getByIndex_out_of_range items i h

/-! ### the defect of the pinned commit (`sheets[-3]` on two items returns the last one) -/
example : getByIndexPinned [⟨0, "a".toList, "a".toList⟩, ⟨1, "b".toList, "b".toList⟩] (-3)
    = .ok ⟨1, "b".toList, "b".toList⟩ := by decide

/-! ### non-vacuity -/
example : add [⟨0, "Sheet 1".toList, "sheet 1".toList⟩, ⟨1, "SHEET 2".toList, "sheet 2".toList⟩]
    "Sheet".toList "sheet".toList 2 none
    = .ok [⟨0, "Sheet 1".toList, "sheet 1".toList⟩, ⟨1, "SHEET 2".toList, "sheet 2".toList⟩,
           ⟨2, "Sheet 3".toList, "sheet 3".toList⟩] := by decide
example : NoCIDup [⟨0, "Sheet 1".toList, "sheet 1".toList⟩, ⟨1, "SHEET 2".toList, "sheet 2".toList⟩] := by
  unfold NoCIDup; decide

end NumbersModel.Props.C19

/-! ## The lookup statements over `ItemsList.__getitem__` as regenerated from the Python source

`Gen/TrItems.lean` is produced by `harness/py2lean.py` from `containers.py` in the working tree on every check
run (the `isinstance` dispatch becomes a match on `PyT.Key`, an item is its (identity, name) pair);
`Lemmas/TrItems.lean` proves it equal to `getByIndex` / `getByName`. -/
namespace NumbersModel.Props.C19.Src
open NumbersModel NumbersModel.Items NumbersModel.Gen.T NumbersModel.Translated

/-- lookup by index agrees with iteration order for every index in [-n, n) … -/
theorem src_index_agrees_with_iteration (items : Coll) (i : Int)
    (h1 : -(items.length : Int) ≤ i) (h2 : i < items.length) :
    ∃ it, items[(i % (items.length : Int)).toNat]? = some it ∧
      ItemsList.getitem (items.map toT) (.int i) = .ok (toT it) := by
  obtain ⟨it, hi, hg⟩ := C19.index_agrees_with_iteration items i h1 h2
  exact ⟨it, hi, by rw [getitem_int_eq_model, hg]; rfl⟩

/-- … and raises IndexError outside it (both sides). -/
theorem src_index_outside_raises (items : Coll) (i : Int)
    (h : i < -(items.length : Int) ∨ (items.length : Int) ≤ i) :
    ItemsList.getitem (items.map toT) (.int i) = .error .IndexError := by
  rw [getitem_int_eq_model, C19.index_outside_raises items i h]; rfl

/-- lookup by name returns the first item with exactly that name, KeyError exactly when there is none. -/
theorem src_lookup_by_name_exact (items : Coll) (k : Text) :
    (∀ r, ItemsList.getitem (items.map toT) (.str k) = .ok r → ∃ it ∈ items, r = toT it ∧ it.name = k) ∧
    ((∀ it ∈ items, it.name ≠ k) → ItemsList.getitem (items.map toT) (.str k) = .error .KeyError) := by
  obtain ⟨h1, _, h3⟩ := C19.lookup_by_name_exact items k
  rw [getitem_str_eq_model]
  refine ⟨?_, ?_⟩
  · intro r hr
    cases hg : getByName items k with
    | error e => rw [hg] at hr; cases hr
    | ok it =>
      rw [hg] at hr
      have : r = toT it := by injection hr with h; exact h.symm
      exact ⟨it, (h1 it hg).1, this, (h1 it hg).2⟩
  · intro h; rw [h3 h]; rfl

/-- any other key type is a LookupError, never an item. -/
theorem src_other_key_raises (items : List PyT.Item) :
    ItemsList.getitem items .other = .error (.Other "LookupError") := getitem_other items

example : ItemsList.getitem [⟨0, "a".toList⟩, ⟨1, "b".toList⟩] (.int (-3)) = .error .IndexError := by decide
example : ItemsList.getitem [⟨0, "a".toList⟩, ⟨1, "b".toList⟩] (.int (-1)) = .ok ⟨1, "b".toList⟩ := by decide
example : ItemsList.getitem [⟨0, "a".toList⟩, ⟨1, "b".toList⟩] (.str "b".toList) = .ok ⟨1, "b".toList⟩ := by decide

end NumbersModel.Props.C19.Src


/-! ## Names and order after save and reopen — the document tree (`Model/DocTree.lean`)

`Valid d`: identifiers distinct and below `_max_id`, every table info is listed by the sheet that is its parent, no two
table infos share a table model. It holds for every document the check loads (checked on the live store) and is kept by
every history (`valid_after_history`). -/
namespace NumbersModel.Props.C19
open NumbersModel NumbersModel.Layout NumbersModel.DocTree

/-- every history of add_sheet / add_table / renames / caption and visibility changes / header counts / creation of other
    objects keeps the side conditions -/
theorem valid_after_history (d0 d : Doc) (ops : List Op) (hv : Valid d0) (hr : run d0 ops = .ok d) : Valid d :=
  run_valid ops hv hr

/-- **names and order after save and reopen**: whatever package holds exactly the store's objects — the archives in ANY
    order inside the members, the members in ANY order, objects moved between members — the reopened document shows the
    same sheets in the same order and, per sheet, the same tables in the same order. -/
theorem order_after_reload (d : Doc) (hv : Valid d) (ms : List Member) (hp : (flatArchives ms).Perm d.objects) :
    names (load ms).objects = names d.objects := by
  have hn : ((flatArchives ms).map Prod.fst).Nodup := (List.Perm.map Prod.fst hp).nodup_iff.mpr hv.nodup
  rw [load_objects ms hn]
  exact names_perm d.objects _ hp hv.nodup hv.listed'

/-- the package `Document.save` writes is such a package (`FilesMatch`: the archive segments of the members are the
    store's objects, each once — checked on every saved file), and so is every rearrangement of it -/
theorem order_after_reload_saved (d : Doc) (hv : Valid d) (hf : (fileIds d.files).Perm (dictKeys d.objects))
    (ms : List Member) (hp : (flatArchives ms).Perm (flatArchives (serialise d))) :
    names (load ms).objects = names d.objects :=
  order_after_reload d hv ms (hp.trans (serialise_perm d hv.nodup hf))

/-- … for every history -/
theorem order_after_reload_history (d0 d : Doc) (ops : List Op) (hv : Valid d0) (hr : run d0 ops = .ok d)
    (ms : List Member) (hp : (flatArchives ms).Perm d.objects) : names (load ms).objects = names d.objects :=
  order_after_reload d (valid_after_history d0 d ops hv hr) ms hp

/-- adding a sheet appends its reference: the sheets that were there keep their positions, the new one is last -/
theorem add_sheet_appends (d d' : Doc) (name : Text) (sid : Nat) (ss : List Nat) (hv : Valid d)
    (hs : sheetIds d.objects = .ok ss) (h : addSheet d name = .ok (d', sid)) :
    sheetIds d'.objects = .ok (ss ++ [sid]) ∧ sheetName d'.objects sid = .ok (some name) := by
  unfold addSheet at h
  obtain ⟨⟨d1, s1⟩, h1, h⟩ := bind_ok _ _ _ h
  obtain ⟨d2, h2, h⟩ := bind_ok _ _ _ h
  injection h with h; injection h with e1 e2; subst e1; subst e2
  obtain ⟨v1, _, _, hid, _, hg1⟩ := createObject_valid hv _ _ (by simp [IsInfo]) _ h1
  have hfresh : s1 ∉ dictKeys d.objects := by rw [hid]; exact fresh_of_bound hv
  obtain ⟨o, o', hg, hf, rfl⟩ := modify_ok d1 _ _ d2 h2
  -- the document object before the call
  simp only [sheetIds, getObj, dictGet, bind, Except.bind] at hs
  cases hd : dictGet? d.objects Gen.DOCUMENT_ID with
  | none => simp [hd] at hs
  | some od =>
    simp only [hd] at hs
    cases od <;> simp only [reduceCtorEq] at hs
    rename_i ss0
    injection hs with hs; subst hs
    obtain ⟨_, _, hob⟩ := createObject_ok d _ _ d1 s1 h1
    have hd1 : dictGet? d1.objects Gen.DOCUMENT_ID = some (.document ss0) := by
      rw [hob, dictSet_fresh _ _ _ (fresh_of_bound hv)]
      exact dictGet?_append_of_some _ _ _ _ hd
    rw [hd1] at hg; injection hg with hg; subst hg
    simp only at hf
    injection hf with hf; subst hf
    have hne : Gen.DOCUMENT_ID ≠ s1 := by
      rintro e
      exact hfresh (e ▸ mem_keys_of_get _ _ _ hd)
    constructor
    · simp [sheetIds, getObj, dictGet, dictGet?_dictSet, bind, Except.bind]
    · simp [sheetName, dictGet?_dictSet, hne, hg1]

/-- **adding a sheet raises nothing, whatever the container looks like**: on every valid document that has its document
    object — for EVERY file store: members in any order, blobs of any name (`Metadata/DocumentIdentifier` before
    `Index/Document.iwa` in a file whose zip members are stored in another order) — `add_sheet` returns a new sheet.
    (After fixes/C19-new-objects-go-to-iwa-members.patch; the pinned code raised AttributeError there, example below.) -/
theorem add_sheet_succeeds (d : Doc) (name : Text) (ss : List Nat) (hv : Valid d) (hs : sheetIds d.objects = .ok ss) :
    ∃ d', addSheet d name = .ok (d', d.maxId + 1) := by
  obtain ⟨d1, h1, _, hob⟩ := createObject_total d "Document".toList (.sheet name [])
  simp only [sheetIds, getObj, dictGet, bind, Except.bind] at hs
  cases hd : dictGet? d.objects Gen.DOCUMENT_ID with
  | none => simp [hd] at hs
  | some od =>
    simp only [hd] at hs
    cases od <;> simp only [reduceCtorEq] at hs
    rename_i ss0
    have hd1 : dictGet? d1.objects Gen.DOCUMENT_ID = some (.document ss0) := by
      rw [hob, dictSet_fresh _ _ _ (fresh_of_bound hv)]
      exact dictGet?_append_of_some _ _ _ _ hd
    exact ⟨{ d1 with objects := dictSet d1.objects Gen.DOCUMENT_ID (.document (ss0 ++ [d.maxId + 1])) },
      by unfold addSheet; rw [h1]; simp [DocTree.modify, getObj, dictGet, hd1, bind, Except.bind]⟩

/-- creating objects never depends on the blobs of the package: the same members with the non-IWA ones removed, renamed or
    moved give the same candidate list -/
theorem creation_ignores_blobs (fs : Files) (pat : Text) :
    ObjStore.iwaPaths fs pat = ObjStore.iwaPaths (fs.filter fun f => f.2.isSome) pat := by
  induction fs with
  | nil => rfl
  | cons f r ih =>
    obtain ⟨n, o⟩ := f
    cases o with
    | none => simpa [ObjStore.iwaPaths] using ih
    | some segs =>
      simp only [ObjStore.iwaPaths, List.filterMap_cons, Option.isSome_some, List.filter_cons_of_pos] at ih ⊢
      split <;> simp [ih]

/-! ### isolation: a change to one table leaves every other name, and all order, as it was -/

theorem sti_nonInfo (sid : Option Nat) (k : Nat) (v : Obj) (hv : ¬ IsInfo v) : sheetTableInfos [(k, v)] sid = [] := by
  cases v <;> simp_all [sheetTableInfos, IsInfo]

theorem sti_cons (a : Nat × Obj) (r : Objects) (sid : Option Nat) :
    sheetTableInfos (a :: r) sid = sheetTableInfos [a] sid ++ sheetTableInfos r sid := by
  unfold sheetTableInfos
  rw [show a :: r = [a] ++ r from rfl, List.filterMap_append]

theorem sheetTableInfos_dictSet (os : Objects) (k : Nat) (o o' : Obj) (sid : Option Nat) (hg : dictGet? os k = some o)
    (ho : ¬ IsInfo o) (ho' : ¬ IsInfo o') : sheetTableInfos (dictSet os k o') sid = sheetTableInfos os sid := by
  induction os with
  | nil => simp [dictGet?] at hg
  | cons a r ih =>
    obtain ⟨k', v⟩ := a
    simp only [dictGet?] at hg
    simp only [dictSet]
    by_cases hk : k' = k
    · simp only [hk, if_true] at hg ⊢
      injection hg with hg; subst hg
      rw [sti_cons, sti_cons (k, v) r, sti_nonInfo sid k o' ho', sti_nonInfo sid k v ho]
    · simp only [hk, if_false] at hg ⊢
      rw [sti_cons, sti_cons (k', v) r, ih hg]

/-- a setter of a table's own fields (name, name visibility, header counts): the sheets, their names, the tables of every
    sheet and their order, and the name of every other table are what they were -/
theorem isolation_table_setter (d d' : Doc) (tid : Nat) (f : Obj → PyM Obj)
    (hf : ∀ o o', f o = .ok o' → ∃ a b c e a' b' c' e', o = .tableModel a b c e ∧ o' = .tableModel a' b' c' e')
    (h : modify d tid f = .ok d') :
    sheetIds d'.objects = sheetIds d.objects ∧ (∀ s, sheetName d'.objects s = sheetName d.objects s) ∧
    (∀ s, tableIds d'.objects (some s) = tableIds d.objects (some s)) ∧
    (∀ t, t ≠ tid → tableName d'.objects t = tableName d.objects t) := by
  obtain ⟨o, o', hg, hfo, rfl⟩ := modify_ok d tid f d' h
  obtain ⟨a, b, c, e, a', b', c', e', rfl, rfl⟩ := hf o o' hfo
  have hinf := fun sid => sheetTableInfos_dictSet d.objects tid _ (.tableModel a' b' c' e') sid hg (by simp [IsInfo]) (by simp [IsInfo])
  refine ⟨?_, ?_, ?_, ?_⟩
  · by_cases hk : tid = Gen.DOCUMENT_ID
    · subst hk; simp [sheetIds, getObj, dictGet, dictGet?_dictSet, hg, bind, Except.bind]
    · simp [sheetIds, getObj, dictGet, dictGet?_dictSet, hk]
  · intro s
    by_cases hk : tid = s
    · subst hk; simp [sheetName, dictGet?_dictSet, hg]
    · simp [sheetName, dictGet?_dictSet, hk]
  · intro s
    by_cases hk : tid = s
    · subst hk; simp [tableIds, hinf, dictGet?_dictSet, hg]
    · simp [tableIds, hinf, dictGet?_dictSet, hk]
  · intro t ht
    simp only [tableName, getObj, dictGet, dictGet?_dictSet, Ne.symm ht, if_false]

/-- renaming a sheet: the sheets and their order, the tables of every sheet and their order, every table name and the name
    of every other sheet are what they were -/
theorem isolation_sheet_rename (d d' : Doc) (sid : Nat) (s : Text) (h : setSheetName d sid s = .ok d') :
    sheetIds d'.objects = sheetIds d.objects ∧ (∀ j, j ≠ sid → sheetName d'.objects j = sheetName d.objects j) ∧
    (∀ j, tableIds d'.objects (some j) = tableIds d.objects (some j)) ∧
    (∀ t, tableName d'.objects t = tableName d.objects t) := by
  obtain ⟨o, o', hg, hfo, rfl⟩ := modify_ok d sid _ d' h
  cases o <;> simp only [reduceCtorEq] at hfo
  rename_i nm dr
  injection hfo with hfo; subst hfo
  have hinf := fun j => sheetTableInfos_dictSet d.objects sid _ (.sheet s dr) j hg (by simp [IsInfo]) (by simp [IsInfo])
  refine ⟨?_, ?_, ?_, ?_⟩
  · by_cases hk : sid = Gen.DOCUMENT_ID
    · subst hk; simp [sheetIds, getObj, dictGet, dictGet?_dictSet, hg, bind, Except.bind]
    · simp [sheetIds, getObj, dictGet, dictGet?_dictSet, hk]
  · intro j hj
    simp only [sheetName, dictGet?_dictSet, Ne.symm hj, if_false]
  · intro j
    by_cases hk : sid = j
    · subst hk
      simp only [tableIds, hinf, dictGet?_dictSet, hg, if_true]
    · simp [tableIds, hinf, dictGet?_dictSet, hk]
  · intro t
    by_cases hk : sid = t
    · subst hk; simp [tableName, getObj, dictGet, dictGet?_dictSet, hg, bind, Except.bind]
    · simp [tableName, getObj, dictGet, dictGet?_dictSet, hk]

/-! ### the pinned `table_ids`: table order is the store's iteration order, so it follows the file -/

/-- two arrangements of the same three archives (a sheet listing tables 20 then 10, whose infos 11 and 21 are stored in the
    other order): the pinned code reports the tables in file order, the repaired code in the sheet's order either way -/
def exSheet : Obj := .sheet "S".toList [21, 11]
def exStoreA : Objects :=
  [(1, .document [5]), (5, exSheet), (11, .tableInfo 5 10 0 false 0 0), (21, .tableInfo 5 20 0 false 0 0),
   (10, .tableModel "A".toList true 1 1), (20, .tableModel "B".toList true 1 1)]
def exStoreB : Objects :=
  [(1, .document [5]), (5, exSheet), (21, .tableInfo 5 20 0 false 0 0), (11, .tableInfo 5 10 0 false 0 0),
   (10, .tableModel "A".toList true 1 1), (20, .tableModel "B".toList true 1 1)]
example : exStoreB.Perm exStoreA := by decide
example : tableIdsPinned exStoreA (some 5) = .ok [10, 20] ∧ tableIdsPinned exStoreB (some 5) = .ok [20, 10] := by decide
example : tableIds exStoreA (some 5) = .ok [20, 10] ∧ tableIds exStoreB (some 5) = .ok [20, 10] := by decide
example : namesPinned exStoreA ≠ namesPinned exStoreB := by decide
example : names exStoreA = names exStoreB := by decide

/-- the exact condition under which the pinned code keeps the order: the table infos of the sheet come in the same
    relative order in both stores -/
theorem order_after_reload_pinned (os os' : Objects) (s : Nat)
    (h : sheetTableInfos os' (some s) = sheetTableInfos os (some s)) :
    tableIdsPinned os' (some s) = tableIdsPinned os (some s) := by
  simp only [tableIdsPinned, h]

/-! ### non-vacuity: a real-shaped history, saved, archives reversed, reopened -/
def exDoc : Doc :=
  { objects := [(1, .document [5]), (5, .sheet "S".toList [11]), (11, .tableInfo 5 10 12 false 0 0),
                (10, .tableModel "T".toList true 1 1), (12, .standinCaption)],
    files := [("Index/Document.iwa".toList, some [1, 5]), ("Index/CalculationEngine.iwa".toList, some [11, 10, 12]),
              ("Metadata/DocumentIdentifier".toList, none)],
    maxId := 1000000 }
def exOps : List Op :=
  [.addTable 5 "U".toList 10 0 0 3 1 1, .addSheet "S2".toList, .setTableName 10 "T'".toList, .setCaption 10 "cap".toList]
example : (run exDoc exOps).toOption.isSome = true := by decide
example : (do let d ← run exDoc exOps; names d.objects) =
    .ok [(some "S".toList, ["T'".toList, "U".toList]), (some "S2".toList, [])] := by decide
example : (do let d ← run exDoc exOps; names (load ((serialise d).map fun (m : Member) => ((m.1, m.2.map List.reverse) : Member)).reverse).objects) =
    .ok [(some "S".toList, ["T'".toList, "U".toList]), (some "S2".toList, [])] := by decide
example : (do let d ← run exDoc exOps; namesPinned (load ((serialise d).map fun (m : Member) => ((m.1, m.2.map List.reverse) : Member)).reverse).objects) =
    .ok [(some "S".toList, ["U".toList, "T'".toList]), (some "S2".toList, [])] := by decide

/-! the same document with its members in reverse order (`Metadata/DocumentIdentifier` first): the pinned
    `create_object_from_dict` took that blob for "Document" and raised AttributeError (known finding
    `edit-raises-on-reordered-container`, fixed by fixes/C19-new-objects-go-to-iwa-members.patch); the repaired code runs the
    whole history and shows the same names -/
def exDocRev : Doc :=
  { objects := exDoc.objects,
    files := [("Metadata/DocumentIdentifier".toList, none), ("Index/CalculationEngine.iwa".toList, some [11, 10, 12]),
              ("Index/Document.iwa".toList, some [1, 5])],
    maxId := 1000000 }
example : exDocRev.files = exDoc.files.reverse := by decide
example : createObjectPinned exDocRev "Document".toList (.sheet "S2".toList []) = .error .AttributeError := by decide
example : (createObjectPinned exDoc "Document".toList (.sheet "S2".toList [])).toOption.isSome = true := by decide
example : (do let r ← addSheet exDocRev "S2".toList; names r.1.objects) =
    .ok [(some "S".toList, ["T".toList]), (some "S2".toList, [])] := by decide +kernel
example : (do let d ← run exDocRev exOps; names d.objects) =
    .ok [(some "S".toList, ["T'".toList, "U".toList]), (some "S2".toList, [])] := by decide +kernel

end NumbersModel.Props.C19
