/-
C19 — Sheet and table collections: unique names, consistent lookup, stable order.
`lname` stands for `name.lower()` as the interpreter computes it; the theorems hold for
every such function (it is data carried by the items).
-/
import NumbersModel.Lemmas.Items
import NumbersModel.Lemmas.TrItems
namespace NumbersModel.Props.C19
open NumbersModel NumbersModel.Items

/-- adding (explicitly named or auto-named) never produces two siblings equal ignoring case. -/
theorem add_no_ci_duplicate (items items' : Coll) (pu pl : Text) (id : Nat) (nm : Option (Text × Text))
    (h : NoCIDup items) (e : add items pu pl id nm = .ok items') : NoCIDup items' := by
  unfold add at e
  split at e
  · split at e
    · cases e
    · rename_i hc
      injection e with e; subst e
      exact nodup_push h (by simpa using hc)
  · cases hp : pickNum items pl (items.length + 1) 1 with
    | error x => simp [hp, bind, Except.bind] at e
    | ok n =>
      simp only [hp, bind, Except.bind] at e
      injection e with e; subst e
      exact nodup_push h (pickNum_spec items pl _ _ _ hp).1

/-- automatically chosen names are always fresh, the smallest free number is taken, and the
    search always terminates: an unnamed add never fails. -/
theorem auto_name_fresh (items : Coll) (pu pl : Text) (id : Nat) :
    ∃ n, add items pu pl id none = .ok (items ++ [⟨id, autoName pu n, autoLower pl n⟩]) ∧
      containsCI items (autoLower pl n) = false ∧
      ∀ j, 1 ≤ j → j < n → containsCI items (autoLower pl j) = true := by
  obtain ⟨n, hn⟩ := pickNum_terminates items pl
  obtain ⟨h1, _, h3⟩ := pickNum_spec items pl _ _ _ hn
  exact ⟨n, by simp [add, hn, bind, Except.bind], h1, h3⟩

/-- an explicit duplicate (ignoring case) is refused with IndexError; a non-duplicate is appended
    at the end, existing items and their order untouched. -/
theorem dup_refused (items : Coll) (pu pl : Text) (id : Nat) (nm lnm : Text) :
    (containsCI items lnm = true → add items pu pl id (some (nm, lnm)) = .error .IndexError) ∧
    (containsCI items lnm = false → add items pu pl id (some (nm, lnm)) = .ok (items ++ [⟨id, nm, lnm⟩])) := by
  constructor <;> intro h <;> simp [add, h]

/-- lookup by name returns an item of the collection with exactly that name (the first one),
    and raises KeyError exactly when there is none. -/
theorem lookup_by_name_exact (items : Coll) (k : Text) :
    (∀ it, getByName items k = .ok it → it ∈ items ∧ it.name = k) ∧
    ((∃ it ∈ items, it.name = k) → ∃ it, getByName items k = .ok it) ∧
    ((∀ it ∈ items, it.name ≠ k) → getByName items k = .error .KeyError) := by
  unfold getByName
  refine ⟨?_, ?_, ?_⟩
  · intro it h
    cases hf : items.find? (fun it => decide (it.name = k)) with
    | none => simp [hf] at h
    | some x =>
      simp only [hf] at h
      injection h with h; subst h
      exact ⟨List.mem_of_find?_eq_some hf, by simpa using List.find?_some hf⟩
  · rintro ⟨it, hm, hn⟩
    cases hf : items.find? (fun it => decide (it.name = k)) with
    | none =>
      rw [List.find?_eq_none] at hf
      exact absurd hn (by simpa using hf it hm)
    | some x => exact ⟨x, rfl⟩
  · intro h
    have : items.find? (fun it => decide (it.name = k)) = none := by
      rw [List.find?_eq_none]; intro x hx; simpa using h x hx
    simp [this]

/-- lookup by index agrees with iteration order for every index in [-n, n) … -/
theorem index_agrees_with_iteration (items : Coll) (i : Int)
    (h1 : -(items.length : Int) ≤ i) (h2 : i < items.length) :
    ∃ it, items[(i % (items.length : Int)).toNat]? = some it ∧ getByIndex items i = .ok it :=
  getByIndex_in_range items i h1 h2

/-- … and raises IndexError outside it (both sides). -/
theorem index_outside_raises (items : Coll) (i : Int)
    (h : i < -(items.length : Int) ∨ (items.length : Int) ≤ i) :
    getByIndex items i = .error .IndexError := getByIndex_out_of_range items i h

/-! ### the defect of the pinned commit (`sheets[-3]` on two items returns the last one) -/
example : getByIndexPinned [⟨0, "a".toList, "a".toList⟩, ⟨1, "b".toList, "b".toList⟩] (-3)
    = .ok ⟨1, "b".toList, "b".toList⟩ := by decide

/-! ### non-vacuity -/
example : add [⟨0, "Sheet 1".toList, "sheet 1".toList⟩, ⟨1, "SHEET 2".toList, "sheet 2".toList⟩]
    "Sheet".toList "sheet".toList 2 none
    = .ok [⟨0, "Sheet 1".toList, "sheet 1".toList⟩, ⟨1, "SHEET 2".toList, "sheet 2".toList⟩,
           ⟨2, "Sheet 3".toList, "sheet 3".toList⟩] := by decide
example : NoCIDup [⟨0, "Sheet 1".toList, "sheet 1".toList⟩, ⟨1, "SHEET 2".toList, "sheet 2".toList⟩] := by
  unfold NoCIDup; decide

end NumbersModel.Props.C19

/-! ## The lookup statements over `ItemsList.__getitem__` as regenerated from the Python source

`Gen/TrItems.lean` is produced by `harness/py2lean.py` from `containers.py` in the working tree on every check
run (the `isinstance` dispatch becomes a match on `PyT.Key`, an item is its (identity, name) pair);
`Lemmas/TrItems.lean` proves it equal to `getByIndex` / `getByName`. -/
namespace NumbersModel.Props.C19.Src
open NumbersModel NumbersModel.Items NumbersModel.Gen.T NumbersModel.Translated

/-- lookup by index agrees with iteration order for every index in [-n, n) … -/
theorem src_index_agrees_with_iteration (items : Coll) (i : Int)
    (h1 : -(items.length : Int) ≤ i) (h2 : i < items.length) :
    ∃ it, items[(i % (items.length : Int)).toNat]? = some it ∧
      ItemsList.getitem (items.map toT) (.int i) = .ok (toT it) := by
  obtain ⟨it, hi, hg⟩ := C19.index_agrees_with_iteration items i h1 h2
  exact ⟨it, hi, by rw [getitem_int_eq_model, hg]; rfl⟩

/-- … and raises IndexError outside it (both sides). -/
theorem src_index_outside_raises (items : Coll) (i : Int)
    (h : i < -(items.length : Int) ∨ (items.length : Int) ≤ i) :
    ItemsList.getitem (items.map toT) (.int i) = .error .IndexError := by
  rw [getitem_int_eq_model, C19.index_outside_raises items i h]; rfl

/-- lookup by name returns the first item with exactly that name, KeyError exactly when there is none. -/
theorem src_lookup_by_name_exact (items : Coll) (k : Text) :
    (∀ r, ItemsList.getitem (items.map toT) (.str k) = .ok r → ∃ it ∈ items, r = toT it ∧ it.name = k) ∧
    ((∀ it ∈ items, it.name ≠ k) → ItemsList.getitem (items.map toT) (.str k) = .error .KeyError) := by
  obtain ⟨h1, _, h3⟩ := C19.lookup_by_name_exact items k
  rw [getitem_str_eq_model]
  refine ⟨?_, ?_⟩
  · intro r hr
    cases hg : getByName items k with
    | error e => rw [hg] at hr; cases hr
    | ok it =>
      rw [hg] at hr
      have : r = toT it := by injection hr with h; exact h.symm
      exact ⟨it, (h1 it hg).1, this, (h1 it hg).2⟩
  · intro h; rw [h3 h]; rfl

/-- any other key type is a LookupError, never an item. -/
theorem src_other_key_raises (items : List PyT.Item) :
    ItemsList.getitem items .other = .error (.Other "LookupError") := getitem_other items

example : ItemsList.getitem [⟨0, "a".toList⟩, ⟨1, "b".toList⟩] (.int (-3)) = .error .IndexError := by decide
example : ItemsList.getitem [⟨0, "a".toList⟩, ⟨1, "b".toList⟩] (.int (-1)) = .ok ⟨1, "b".toList⟩ := by decide
example : ItemsList.getitem [⟨0, "a".toList⟩, ⟨1, "b".toList⟩] (.str "b".toList) = .ok ⟨1, "b".toList⟩ := by decide

end NumbersModel.Props.C19.Src
