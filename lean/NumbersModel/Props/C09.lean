/-
C09 — references in formulas name exactly the stored target cells and table.
Statements only (short proofs by reference to Lemmas/Refs.lean) and examples.

Model (Model/Refs.lean): `nodeToRef` (model.py node_to_ref), `rangeStr` (CellRange.__str__ with the
`_format_*` helpers and `expand_ref`), `nameCache` (ScopedNameRefCache.calculate_named_ranges) over an
abstract document; it mirrors the code as fixed by fixes/C09-*.patch (`pinned := true` = pinned code).
Spec: `resolveTable` (what a printed qualification denotes given the document's own names),
`encodeRect/encodeRows/encodeCols` (how a range with given ends and `$` marks is stored), C10's A1 parser.
-/
import NumbersModel.Lemmas.Refs
namespace NumbersModel.Props.C09
open NumbersModel NumbersModel.A1 NumbersModel.Refs NumbersModel.Formula

/-- A cell reference prints as `[qualification]A1-text` where the A1 text carries exactly the stored `$`
    marks and, parsed back with `xl_cell_to_rowcol`, gives exactly the stored coordinates for an absolute
    part and host + stored offset for a relative part.  (`p` is the qualification `expand_ref` chooses;
    `prefix_unambiguous` says what it denotes.  Uses C10 `cell_roundtrip`.) -/
theorem cell_ref_exact (doc : Doc) (cache : List TableCache) (hcache : nameCache false doc = .ok cache)
    (tid : Nat) (row col : Int) (n : RefNode) (hn : n.hasTract = false) (hr : n.hasRow = true)
    (hc : n.hasCol = true) (r' c' : Nat)
    (hr' : (if n.rowAbs then n.row else row + n.row) = (r' : Int))
    (hc' : (if n.colAbs then n.col else col + n.col) = (c' : Int)) (hcol : c' ≤ 18277)
    (p : Prefix) (hp : choosePrefix doc tid (n.toTable.getD tid) none false = .ok p) :
    refText false doc tid row col n = .ok (renderPrefix p ++ a1Text r' c' n.rowAbs n.colAbs) ∧
    rowcolToCell r' c' n.rowAbs n.colAbs = .ok (a1Text r' c' n.rowAbs n.colAbs) ∧
    cellToRowCol Gen.digitZeros (a1Text r' c' n.rowAbs n.colAbs) = .ok ((r' : Int), (c' : Int)) := by
  refine ⟨refText_cell doc cache hcache tid row col n hn hr hc r' c' hr' hc' p hp, rowcolToCell_a1 _ _ _ _, ?_⟩
  have := Props.C10.cell_roundtrip_gen r' c' n.rowAbs n.colAbs hcol
  rw [rowcolToCell_a1] at this
  exact this

/-- Range end-points are not swapped and keep their own `$` marks: a rectangle stored (the way Numbers
    stores it, any mix of absolute/relative ends, host cell anywhere) with begin `(rb,cb)` and end `(re,ce)`
    prints as `[qualification]A1(rb,cb):A1(re,ce)`, and both A1 texts parse back exactly. -/
theorem range_ends_not_swapped (doc : Doc) (cache : List TableCache) (hcache : nameCache false doc = .ok cache)
    (tid : Nat) (row col : Int) (rb re cb ce : Nat) (rbAbs reAbs cbAbs ceAbs short : Bool) (tgt : Option Nat)
    (hrb : rb < 0x7FFFFFFF) (hre : re < 0x7FFFFFFF) (hcb : cb ≤ 18277) (hce : ce ≤ 18277)
    (p : Prefix) (hp : choosePrefix doc tid (tgt.getD tid) none false = .ok p) :
    refText false doc tid row col
        (encodeRect row col ⟨rb, re, rbAbs, reAbs⟩ ⟨cb, ce, cbAbs, ceAbs⟩ short tgt) =
      .ok (renderPrefix p ++ a1Text rb cb rbAbs cbAbs ++ [':'] ++ a1Text re ce reAbs ceAbs) ∧
    cellToRowCol Gen.digitZeros (a1Text rb cb rbAbs cbAbs) = .ok ((rb : Int), (cb : Int)) ∧
    cellToRowCol Gen.digitZeros (a1Text re ce reAbs ceAbs) = .ok ((re : Int), (ce : Int)) := by
  refine ⟨refText_rect doc cache hcache tid row col rb re cb ce rbAbs reAbs cbAbs ceAbs short tgt hrb hre
    (by omega) (by omega) p hp, ?_, ?_⟩
  · have := Props.C10.cell_roundtrip_gen rb cb rbAbs cbAbs hcb
    rw [rowcolToCell_a1] at this; exact this
  · have := Props.C10.cell_roundtrip_gen re ce reAbs ceAbs hce
    rw [rowcolToCell_a1] at this; exact this

/-- `node_to_ref` decodes the stored encoding of a rectangle to exactly its ends and flags. -/
theorem stored_rect_decoded (tid : Nat) (row col : Int) (rs cs : StoredAxis) (short : Bool) (tgt : Option Nat)
    (h1 : rs.b ≠ ROW_OPEN) (h2 : rs.e ≠ ROW_OPEN) (h3 : cs.b ≠ COL_OPEN) (h4 : cs.e ≠ COL_OPEN) :
    nodeToRef tid row col (encodeRect row col rs cs short tgt) =
      .ok { rowStart := some rs.b, rowEnd := some rs.e, colStart := some cs.b, colEnd := some cs.e,
            rowStartAbs := rs.bAbs, rowEndAbs := rs.eAbs, colStartAbs := cs.bAbs, colEndAbs := cs.eAbs,
            fromTable := tid, toTable := tgt.getD tid } :=
  nodeToRef_encodeRect tid row col rs cs short tgt h1 h2 h3 h4

/-- whole-row spans whose first row has no usable header name print as `[qualification]($)b+1:($)e+1`
    (1-based row numbers of exactly the stored rows, `$` marks per end). -/
theorem row_span_exact (doc : Doc) (cache : List TableCache) (hcache : nameCache false doc = .ok cache)
    (tid : Nat) (row col : Int) (rb re : Nat) (rbAbs reAbs short : Bool) (tgt : Option Nat)
    (hrb : rb < 0x7FFFFFFF) (hre : re < 0x7FFFFFFF)
    (tc : TableCache) (htc : cacheOf cache (tgt.getD tid) = .ok tc) (hunnamed : rangeAt tc.rows rb = .ok none)
    (p : Prefix) (hp : choosePrefix doc tid (tgt.getD tid) none rbAbs = .ok p) :
    refText false doc tid row col (encodeRows row ⟨rb, re, rbAbs, reAbs⟩ short tgt) =
      .ok (renderPrefix p ++ ((if rbAbs then ['$'] else []) ++ natStr (rb + 1)) ++ [':'] ++
            ((if reAbs then ['$'] else []) ++ natStr (re + 1))) :=
  refText_rows_numeric doc cache hcache tid row col rb re rbAbs reAbs short tgt hrb hre tc htc hunnamed p hp

/-- whole-column spans whose first column has no usable header name print as `[qualification]($)B:($)E`. -/
theorem col_span_exact (doc : Doc) (cache : List TableCache) (hcache : nameCache false doc = .ok cache)
    (tid : Nat) (row col : Int) (cb ce : Nat) (cbAbs ceAbs short : Bool) (tgt : Option Nat)
    (hcb : cb < 0x7FFF) (hce : ce < 0x7FFF)
    (tc : TableCache) (htc : cacheOf cache (tgt.getD tid) = .ok tc) (hunnamed : rangeAt tc.cols cb = .ok none)
    (p : Prefix) (hp : choosePrefix doc tid (tgt.getD tid) none false = .ok p) :
    refText false doc tid row col (encodeCols col ⟨cb, ce, cbAbs, ceAbs⟩ short tgt) =
      .ok (renderPrefix p ++ ((if cbAbs then ['$'] else []) ++ letters cb) ++ [':'] ++
            ((if ceAbs then ['$'] else []) ++ letters ce)) :=
  refText_cols_numeric doc cache hcache tid row col cb ce cbAbs ceAbs short tgt hcb hce tc htc hunnamed p hp

/-- what `expand_ref` prints in front of a plain (A1 / numeric) reference is `renderPrefix` of the
    qualification chosen by `choosePrefix`, followed by the (possibly quoted) reference text. -/
theorem prefix_printed (doc : Doc) (cr : CellRange) (s : Text) (isAbs : Bool) :
    expandPlain doc cr s isAbs false =
      (choosePrefix doc cr.fromTable cr.toTable none isAbs).bind
        (fun p => .ok (renderPrefix p ++ quoteRef ((if isAbs then ['$'] else []) ++ s))) :=
  expandPlain_prefixed doc cr s isAbs

/-- The printed qualification is unambiguous and names the stored table: in ANY document whose sheet names
    are distinct and whose table names are distinct within each sheet (they may repeat across sheets, and
    may be shared with the host's sheet), for every host table and every target table, the qualification
    `expand_ref` chooses — none / `Table::` / `Sheet::Table::` — resolves, under the document's own names,
    to exactly the target. -/
theorem prefix_unambiguous {doc : Doc} (h : NamesOK doc) {hs ts : Sheet} {host target : Table}
    (hhs : hs ∈ doc) (hht : host ∈ hs.tables) (hts : ts ∈ doc) (htt : target ∈ ts.tables)
    (isAbs : Bool) (p : Prefix) (hp : choosePrefix doc host.id target.id none isAbs = .ok p) :
    resolveTable doc host.id p = some target.id :=
  choosePrefix_resolves h hhs hht hts htt isAbs p hp

/-- … and the choice never fails for tables of the document. -/
theorem prefix_total {doc : Doc} (h : NamesOK doc) {hs ts : Sheet} {host target : Table}
    (_hhs : hs ∈ doc) (_hht : host ∈ hs.tables) (hts : ts ∈ doc) (htt : target ∈ ts.tables) (isAbs : Bool) :
    ∃ p, choosePrefix doc host.id target.id none isAbs = .ok p := by
  unfold choosePrefix
  by_cases heq : host.id = target.id
  · exact ⟨.none, by simp [heq]⟩
  · simp only [heq, if_false, findTable_of_mem h hts htt, bind, Except.bind]
    split <;> [skip; split] <;> exact ⟨_, rfl⟩

/-- A1-style and numeric reference texts are never wrapped in quotes by `expand_ref`
    (no key of the generated OPERATOR_PRECEDENCE table, and no apostrophe, occurs in them). -/
theorem a1_text_never_quoted (r c : Nat) (ra ca : Bool) :
    quoteRef (a1Text r c ra ca) = a1Text r c ra ca := quoteRef_a1 r c ra ca

/-- (fixed code) `_calculate_name_scopes` never keeps an empty header text as a name, and keeps only
    texts that occur once among that axis' header cells. -/
theorem empty_label_never_printed (labels : List Text) (first rangeEnd thisHeader : Nat)
    (otherLabels : List Text) (otherFirst otherEnd : Nat) (sc nm : List (Option Text))
    (h : axisScopes false labels first rangeEnd thisHeader otherLabels otherFirst otherEnd = .ok (sc, nm)) :
    ∀ n, some n ∈ sc → n ≠ [] := fun n hn =>
  (axisScopes_kept labels first rangeEnd thisHeader otherLabels otherFirst otherEnd sc nm h n hn).1

/-- PARTIAL.  Full statement: a header label printed with qualification q (bare / `T::` / `S::T::`)
    resolves, under the document's own labels, to exactly the stored row or column of the stored table.
    Proved here: (1) a text kept as a name occurs exactly-at-most once among the header cells that
    `_calculate_name_scopes` counts for its table (its own axis and, in the fixed code, the other axis);
    (2) a name is tagged DOCUMENT iff it is kept by exactly one (table, axis) of the whole document.
    Sheet / table scopes and the interplay with `expand_ref` are covered by the correspondence and the
    independent resolver only. -/
theorem label_scope_sound_partial :
    (∀ (pinned : Bool) (labels allNames : List Text) (first : Nat) (idxs : List Nat) (sc nm : List (Option Text)),
      axisLoop pinned labels allNames first idxs = .ok (sc, nm) →
      ∀ n, some n ∈ sc → allNames.count n ≤ 1) ∧
    (∀ (docNames sheetNames : List (Option Text)) (tableNames : List Text) (tname name : Text),
      scopeOf docNames sheetNames tableNames tname name = .document ↔ docNames.count (some name) = 1) :=
  ⟨fun pinned labels allNames first idxs sc nm h n hn =>
      (axisLoop_kept pinned labels allNames first idxs sc nm h n hn).1,
   scopeOf_document⟩

/-! ### the pinned code violates the property (concrete witnesses, confirmed on the real code by
    harness/checks/c09.py; repaired by fixes/C09-*.patch) -/

def mkTable (id : Nat) (name : String) (hr hc nr nc : Nat) (rowLabels colLabels : List String) : Table :=
  { id := id, name := name.toList, nHeaderRows := hr, nHeaderCols := hc, nRows := nr, nCols := nc,
    rowLabels := rowLabels.map String.toList, colLabels := colLabels.map String.toList }

/-- one sheet, one table `T` (id 0): 1 header row, 1 header column, 3 rows × 4 columns. -/
def witnessDoc (rowLabels colLabels : List String) : Doc :=
  [{ id := 0, name := "S".toList, tables := [mkTable 0 "T" 1 1 3 4 rowLabels colLabels] }]

/-- whole-column reference to column B whose header cell is the only empty one: the pinned code prints
    the EMPTY text (an empty header is taken for a name); the fixed code prints `B`. -/
theorem pinned_empty_label_printed :
    refText true (witnessDoc ["", "r1", "r2"] ["", "", "c2", "c3"]) 0 1 2
      { hasCol := true, col := -1 } = .ok [] ∧
    refText false (witnessDoc ["", "r1", "r2"] ["", "", "c2", "c3"]) 0 1 2
      { hasCol := true, col := -1 } = .ok "B".toList := by
  decide +kernel

/-- column span B:C where B is named `a` and C's header `b` is repeated in D (so C has no name):
    the pinned code raises (TypeError: `expand_ref(None)`); the fixed code prints `B:C`. -/
theorem pinned_span_with_unnamed_end_raises :
    refText true (witnessDoc ["", "r1", "r2"] ["", "a", "b", "b"]) 0 1 1
      (encodeCols 1 ⟨1, 2, false, false⟩ false none) = .error .TypeError ∧
    refText false (witnessDoc ["", "r1", "r2"] ["", "a", "b", "b"]) 0 1 1
      (encodeCols 1 ⟨1, 2, false, false⟩ false none) = .ok "B:C".toList := by
  decide +kernel

/-- row 2 and column B both have the header `x`: the pinned code prints the SAME text `x:x` for the
    whole-row and the whole-column reference (two different targets); the fixed code prints `2:2` / `B:B`. -/
theorem pinned_row_column_same_text :
    refText true (witnessDoc ["", "x", "r2"] ["", "x", "c2", "c3"]) 0 2 2
      (encodeRows 2 ⟨1, 1, false, false⟩ false none) = .ok "x:x".toList ∧
    refText true (witnessDoc ["", "x", "r2"] ["", "x", "c2", "c3"]) 0 2 2
      (encodeCols 2 ⟨1, 1, false, false⟩ false none) = .ok "x:x".toList ∧
    refText false (witnessDoc ["", "x", "r2"] ["", "x", "c2", "c3"]) 0 2 2
      (encodeRows 2 ⟨1, 1, false, false⟩ false none) = .ok "2:2".toList ∧
    refText false (witnessDoc ["", "x", "r2"] ["", "x", "c2", "c3"]) 0 2 2
      (encodeCols 2 ⟨1, 1, false, false⟩ false none) = .ok "B:B".toList := by
  decide +kernel

/-! ### non-vacuity -/

/-- two sheets; `Data` exists on both, `Costs` only on the second. -/
def demoDoc : Doc :=
  [{ id := 0, name := "Sheet 1".toList, tables :=
      [mkTable 0 "Data" 1 1 3 3 ["", "r1", "r2"] ["", "c1", "c2"], mkTable 1 "Sales" 0 0 3 3 ["", "", ""] ["", "", ""]] },
   { id := 1, name := "Sheet 2".toList, tables :=
      [mkTable 2 "Data" 0 0 3 3 ["", "", ""] ["", "", ""], mkTable 3 "Costs" 0 0 3 3 ["", "", ""] ["", "", ""]] }]

example : NamesOK demoDoc := ⟨by decide +kernel, by decide +kernel, by decide +kernel, by decide +kernel⟩
example : (nameCache false demoDoc).toOption.isSome = true := by decide +kernel
-- relative cell from host C3 (row 2, col 2) with offsets (-1,-2) into the other `Data`: fully qualified
example : refText false demoDoc 0 2 2 { hasRow := true, row := -1, hasCol := true, col := -2, toTable := some 2 }
    = .ok "Sheet 2::Data::A2".toList := by decide +kernel
example : refText false demoDoc 0 2 2
    { hasRow := true, row := 1, rowAbs := true, hasCol := true, col := 0, colAbs := true, toTable := some 3 }
    = .ok "Costs::$A$2".toList := by decide +kernel
example : refText false demoDoc 0 2 2 { hasRow := true, row := 0, hasCol := true, col := 0, toTable := some 1 }
    = .ok "Sales::C3".toList := by decide +kernel
example : resolveTable demoDoc 0 (.table "Data".toList) = some 0 ∧
    resolveTable demoDoc 3 (.table "Data".toList) = some 2 ∧
    resolveTable demoDoc 0 (.table "Costs".toList) = some 3 ∧
    resolveTable demoDoc 0 (.sheetTable "Sheet 2".toList "Data".toList) = some 2 := by decide +kernel
-- mixed absolute / relative rectangle: begin row absolute, end column absolute
example : refText false demoDoc 0 2 2 (encodeRect 2 2 ⟨0, 2, true, false⟩ ⟨1, 2, false, true⟩ false none)
    = .ok "B$1:$C3".toList := by decide +kernel
-- header names: document-unique names are printed bare
example : refText false demoDoc 1 0 0 (encodeCols 0 ⟨1, 2, false, false⟩ false (some 0)) = .ok "c1:c2".toList := by
  decide

end NumbersModel.Props.C09
