/-
C09 — references in formulas name exactly the stored target cells and table.
Statements only (short proofs by reference to Lemmas/Refs.lean) and examples.

Model (Model/Refs.lean): `nodeToRef` (model.py node_to_ref), `rangeStr` (CellRange.__str__ with the
`_format_*` helpers and `expand_ref`), `nameCache` (ScopedNameRefCache.calculate_named_ranges) over an
abstract document; it mirrors the code as fixed by fixes/C09-*.patch (`pinned := true` = pinned code).
Spec: `resolveTable` (what a printed qualification denotes given the document's own names),
`encodeRect/encodeRows/encodeCols` (how a range with given ends and `$` marks is stored), C10's A1 parser;
Model/RefsSpec.lean (`resolveLabel`, `resolveSpan`, `resolveQual`, text reader `resolveText`): the resolver
spec for header labels, independent of the model of xrefs.py (lemmas: Lemmas/RefsSpec.lean, Lemmas/RefsText.lean).
-/
import NumbersModel.Lemmas.Refs
import NumbersModel.Lemmas.RefsSpec
import NumbersModel.Lemmas.RefsText
namespace NumbersModel.Props.C09
open NumbersModel NumbersModel.A1 NumbersModel.Refs NumbersModel.Formula NumbersModel.RefsSpec

/-- A cell reference prints as `[qualification]A1-text` where the A1 text carries exactly the stored `$`
    marks and, parsed back with `xl_cell_to_rowcol`, gives exactly the stored coordinates for an absolute
    part and host + stored offset for a relative part.  (`p` is the qualification `expand_ref` chooses;
    `prefix_unambiguous` says what it denotes.  Uses C10 `cell_roundtrip`.) -/
theorem cell_ref_exact (doc : Doc) (cache : List TableCache) (hcache : nameCache false doc = .ok cache)
    (tid : Nat) (row col : Int) (n : RefNode) (hn : n.hasTract = false) (hr : n.hasRow = true)
    (hc : n.hasCol = true) (r' c' : Nat)
    (hr' : (if n.rowAbs then n.row else row + n.row) = (r' : Int))
    (hc' : (if n.colAbs then n.col else col + n.col) = (c' : Int)) (hcol : c' ≤ 18277)
    (p : Prefix) (hp : choosePrefix doc tid (n.toTable.getD tid) none false = .ok p) :
    refText false doc tid row col n = .ok (renderPrefix p ++ a1Text r' c' n.rowAbs n.colAbs) ∧
    rowcolToCell r' c' n.rowAbs n.colAbs = .ok (a1Text r' c' n.rowAbs n.colAbs) ∧
    cellToRowCol Gen.digitZeros (a1Text r' c' n.rowAbs n.colAbs) = .ok ((r' : Int), (c' : Int)) := by
  refine ⟨refText_cell doc cache hcache tid row col n hn hr hc r' c' hr' hc' p hp, rowcolToCell_a1 _ _ _ _, ?_⟩
  have := Props.C10.cell_roundtrip_gen r' c' n.rowAbs n.colAbs hcol
  rw [rowcolToCell_a1] at this
  exact this

/-- Range end-points are not swapped and keep their own `$` marks: a rectangle stored (the way Numbers
    stores it, any mix of absolute/relative ends, host cell anywhere) with begin `(rb,cb)` and end `(re,ce)`
    prints as `[qualification]A1(rb,cb):A1(re,ce)`, and both A1 texts parse back exactly. -/
theorem range_ends_not_swapped (doc : Doc) (cache : List TableCache) (hcache : nameCache false doc = .ok cache)
    (tid : Nat) (row col : Int) (rb re cb ce : Nat) (rbAbs reAbs cbAbs ceAbs short : Bool) (tgt : Option Nat)
    (hrb : rb < 0x7FFFFFFF) (hre : re < 0x7FFFFFFF) (hcb : cb ≤ 18277) (hce : ce ≤ 18277)
    (p : Prefix) (hp : choosePrefix doc tid (tgt.getD tid) none false = .ok p) :
    refText false doc tid row col
        (encodeRect row col ⟨rb, re, rbAbs, reAbs⟩ ⟨cb, ce, cbAbs, ceAbs⟩ short tgt) =
      .ok (renderPrefix p ++ a1Text rb cb rbAbs cbAbs ++ [':'] ++ a1Text re ce reAbs ceAbs) ∧
    cellToRowCol Gen.digitZeros (a1Text rb cb rbAbs cbAbs) = .ok ((rb : Int), (cb : Int)) ∧
    cellToRowCol Gen.digitZeros (a1Text re ce reAbs ceAbs) = .ok ((re : Int), (ce : Int)) := by
  refine ⟨refText_rect doc cache hcache tid row col rb re cb ce rbAbs reAbs cbAbs ceAbs short tgt hrb hre
    (by omega) (by omega) p hp, ?_, ?_⟩
  · have := Props.C10.cell_roundtrip_gen rb cb rbAbs cbAbs hcb
    rw [rowcolToCell_a1] at this; exact this
  · have := Props.C10.cell_roundtrip_gen re ce reAbs ceAbs hce
    rw [rowcolToCell_a1] at this; exact this

/-- `node_to_ref` decodes the stored encoding of a rectangle to exactly its ends and flags. -/
theorem stored_rect_decoded (tid : Nat) (row col : Int) (rs cs : StoredAxis) (short : Bool) (tgt : Option Nat)
    (h1 : rs.b ≠ ROW_OPEN) (h2 : rs.e ≠ ROW_OPEN) (h3 : cs.b ≠ COL_OPEN) (h4 : cs.e ≠ COL_OPEN) :
    nodeToRef tid row col (encodeRect row col rs cs short tgt) =
      .ok { rowStart := some rs.b, rowEnd := some rs.e, colStart := some cs.b, colEnd := some cs.e,
            rowStartAbs := rs.bAbs, rowEndAbs := rs.eAbs, colStartAbs := cs.bAbs, colEndAbs := cs.eAbs,
            fromTable := tid, toTable := tgt.getD tid } :=
  nodeToRef_encodeRect tid row col rs cs short tgt h1 h2 h3 h4

/-- whole-row spans whose first row has no usable header name print as `[qualification]($)b+1:($)e+1`
    (1-based row numbers of exactly the stored rows, `$` marks per end). -/
theorem row_span_exact (doc : Doc) (cache : List TableCache) (hcache : nameCache false doc = .ok cache)
    (tid : Nat) (row col : Int) (rb re : Nat) (rbAbs reAbs short : Bool) (tgt : Option Nat)
    (hrb : rb < 0x7FFFFFFF) (hre : re < 0x7FFFFFFF)
    (tc : TableCache) (htc : cacheOf cache (tgt.getD tid) = .ok tc) (hunnamed : rangeAt tc.rows rb = .ok none)
    (p : Prefix) (hp : choosePrefix doc tid (tgt.getD tid) none rbAbs = .ok p) :
    refText false doc tid row col (encodeRows row ⟨rb, re, rbAbs, reAbs⟩ short tgt) =
      .ok (renderPrefix p ++ ((if rbAbs then ['$'] else []) ++ natStr (rb + 1)) ++ [':'] ++
            ((if reAbs then ['$'] else []) ++ natStr (re + 1))) :=
  refText_rows_numeric doc cache hcache tid row col rb re rbAbs reAbs short tgt hrb hre tc htc hunnamed p hp

/-- whole-column spans whose first column has no usable header name print as `[qualification]($)B:($)E`. -/
theorem col_span_exact (doc : Doc) (cache : List TableCache) (hcache : nameCache false doc = .ok cache)
    (tid : Nat) (row col : Int) (cb ce : Nat) (cbAbs ceAbs short : Bool) (tgt : Option Nat)
    (hcb : cb < 0x7FFF) (hce : ce < 0x7FFF)
    (tc : TableCache) (htc : cacheOf cache (tgt.getD tid) = .ok tc) (hunnamed : rangeAt tc.cols cb = .ok none)
    (p : Prefix) (hp : choosePrefix doc tid (tgt.getD tid) none false = .ok p) :
    refText false doc tid row col (encodeCols col ⟨cb, ce, cbAbs, ceAbs⟩ short tgt) =
      .ok (renderPrefix p ++ ((if cbAbs then ['$'] else []) ++ letters cb) ++ [':'] ++
            ((if ceAbs then ['$'] else []) ++ letters ce)) :=
  refText_cols_numeric doc cache hcache tid row col cb ce cbAbs ceAbs short tgt hcb hce tc htc hunnamed p hp

/-- what `expand_ref` prints in front of a plain (A1 / numeric) reference is `renderPrefix` of the
    qualification chosen by `choosePrefix`, followed by the (possibly quoted) reference text. -/
theorem prefix_printed (doc : Doc) (cr : CellRange) (s : Text) (isAbs : Bool) :
    expandPlain doc cr s isAbs false =
      (choosePrefix doc cr.fromTable cr.toTable none isAbs).bind
        (fun p => .ok (renderPrefix p ++ quoteRef ((if isAbs then ['$'] else []) ++ s))) :=
  expandPlain_prefixed doc cr s isAbs

/-- The printed qualification is unambiguous and names the stored table: in ANY document whose sheet names
    are distinct and whose table names are distinct within each sheet (they may repeat across sheets, and
    may be shared with the host's sheet), for every host table and every target table, the qualification
    `expand_ref` chooses — none / `Table::` / `Sheet::Table::` — resolves, under the document's own names,
    to exactly the target. -/
theorem prefix_unambiguous {doc : Doc} (h : NamesOK doc) {hs ts : Sheet} {host target : Table}
    (hhs : hs ∈ doc) (hht : host ∈ hs.tables) (hts : ts ∈ doc) (htt : target ∈ ts.tables)
    (isAbs : Bool) (p : Prefix) (hp : choosePrefix doc host.id target.id none isAbs = .ok p) :
    resolveTable doc host.id p = some target.id :=
  choosePrefix_resolves h hhs hht hts htt isAbs p hp

/-- … and the choice never fails for tables of the document. -/
theorem prefix_total {doc : Doc} (h : NamesOK doc) {hs ts : Sheet} {host target : Table}
    (_hhs : hs ∈ doc) (_hht : host ∈ hs.tables) (hts : ts ∈ doc) (htt : target ∈ ts.tables) (isAbs : Bool) :
    ∃ p, choosePrefix doc host.id target.id none isAbs = .ok p := by
  unfold choosePrefix
  by_cases heq : host.id = target.id
  · exact ⟨.none, by simp [heq]⟩
  · simp only [heq, if_false, findTable_of_mem h hts htt, bind, Except.bind]
    split <;> [skip; split] <;> exact ⟨_, rfl⟩

/-- A1-style and numeric reference texts are never wrapped in quotes by `expand_ref`
    (no key of the generated OPERATOR_PRECEDENCE table, and no apostrophe, occurs in them). -/
theorem a1_text_never_quoted (r c : Nat) (ra ca : Bool) :
    quoteRef (a1Text r c ra ca) = a1Text r c ra ca := quoteRef_a1 r c ra ca

/-- (fixed code) `_calculate_name_scopes` never keeps an empty header text as a name, and keeps only
    texts that occur once among that axis' header cells. -/
theorem empty_label_never_printed (labels : List Text) (first rangeEnd thisHeader : Nat)
    (otherLabels : List Text) (otherFirst otherEnd : Nat) (sc nm : List (Option Text))
    (h : axisScopes false labels first rangeEnd thisHeader otherLabels otherFirst otherEnd = .ok (sc, nm)) :
    ∀ n, some n ∈ sc → n ≠ [] := fun n hn =>
  (axisScopes_kept labels first rangeEnd thisHeader otherLabels otherFirst otherEnd sc nm h n hn).1

/-- what `_calculate_name_scopes` keeps occurs at most once among the counted header cells, and DOCUMENT scope
    is "kept by exactly one (table, axis) of the document" (the two facts the former `…_partial` consisted of;
    kept as the model-level core of `label_scope_sound`). -/
theorem name_scope_counts :
    (∀ (pinned : Bool) (labels allNames : List Text) (first : Nat) (idxs : List Nat) (sc nm : List (Option Text)),
      axisLoop pinned labels allNames first idxs = .ok (sc, nm) →
      ∀ n, some n ∈ sc → allNames.count n ≤ 1) ∧
    (∀ (docNames sheetNames : List (Option Text)) (tableNames : List Text) (tname name : Text),
      scopeOf docNames sheetNames tableNames tname name = .document ↔ docNames.count (some name) = 1) :=
  ⟨fun pinned labels allNames first idxs sc nm h n hn =>
      (axisLoop_kept pinned labels allNames first idxs sc nm h n hn).1,
   scopeOf_document⟩

/-! ### header labels: the printed text, read with the document's own names, denotes the stored row / column

Spec (Model/RefsSpec.lean, shares no code with the model of xrefs.py): `resolveLabel doc host q lab` —
`lab` unqualified = the unique header cell named `lab` in the host table, else in the host's sheet, else
in the document; `T::lab` / `S::T::lab` = the header cell named `lab` of the unique table so named;
`resolveSpan` likewise for `a:b`; `resolveQual` for the qualification of A1 / numeric texts.
`WellFormedDoc` = `NamesOK` (sheet names distinct, table names distinct within a sheet, ids distinct) +
one label per row / column.  `LabelForm doc host tgt abs allowed t` says `t = [S::][T::]($)name` (quoted the way
`expand_ref` quotes), `resolveLabel` maps that qualification + name to `tgt`, the qualification is made of
names in `allowed` (the target's sheet and table name) and `name` is the text of the header cell naming `tgt`.
`printed_text_resolves_partial` then reads the whole text with `resolveText` (what the driver runs on the
real library's output). -/

/-- FULL (replaces `label_scope_sound_partial`).  For every well-formed document, every host cell, every
    target table and every row `i` / column `i` of it, absolute or relative: `str(node_to_ref(...))` succeeds,
    and the text is either a header label with whatever qualification `expand_ref` chose — DOCUMENT scope
    (bare), same table (bare), SHEET scope in the host's sheet (bare, `T::` when absolute), `T::`,
    `S::T::` — which `resolveLabel` maps to exactly `(target, axis, i)`; or the numeric fallback, whose
    qualification `resolveQual` maps to exactly the target table (`numeric_fallback_exact` reads its body). -/
theorem label_scope_sound {doc : Doc} (h : WellFormedDoc doc) {hs ts : Sheet} {host target : Table}
    (hhs : hs ∈ doc) (hht : host ∈ hs.tables) (hts : ts ∈ doc) (htt : target ∈ ts.tables)
    (row col : Int) (abs : Bool) (tgt : Option Nat) (hto : tgt.getD host.id = target.id) :
    (∀ i, i < target.nRows →
      ∃ t, refText false doc host.id row col (rowNode row i abs tgt) = .ok t ∧
        (LabelForm doc host.id (target.id, .row, i) abs [ts.name, target.name] t ∨
         PlainForm doc host.id target.id (rowsBody i i abs abs) [ts.name, target.name] t)) ∧
    (∀ i, i < target.nCols →
      ∃ t, refText false doc host.id row col (colNode col i abs tgt) = .ok t ∧
        (LabelForm doc host.id (target.id, .col, i) abs [ts.name, target.name] t ∨
         PlainForm doc host.id target.id (dollar abs ++ letters i) [ts.name, target.name] t)) :=
  refText_single_sound h hhs hht hts htt row col abs tgt hto

/-- FULL, spans.  A stored row span `i..j` / column span `i..j` (any host cell, any mix of `$`, either storage
    layout) prints either as `[q]($)a:($)b` with header labels, which `resolveSpan` — "the table in which both
    `a` and `b` are names: host table, else host's sheet, else document; or the table the qualification names"
    — maps to exactly `((target, axis, i), (target, axis, j))`; or as the numeric span whose qualification
    denotes the target table. -/
theorem span_scope_sound {doc : Doc} (h : WellFormedDoc doc) {hs ts : Sheet} {host target : Table}
    (hhs : hs ∈ doc) (hht : host ∈ hs.tables) (hts : ts ∈ doc) (htt : target ∈ ts.tables)
    (row col : Int) (sa ea short : Bool) (tgt : Option Nat) (hto : tgt.getD host.id = target.id) :
    (∀ i j, i < target.nRows → j < target.nRows → i < 0x7FFFFFFF → j < 0x7FFFFFFF →
      ∃ t, refText false doc host.id row col (encodeRows row ⟨i, j, sa, ea⟩ short tgt) = .ok t ∧
        (SpanForm doc host.id (target.id, .row, i) (target.id, .row, j) sa ea [ts.name, target.name] t ∨
         PlainForm doc host.id target.id (rowsBody i j sa ea) [ts.name, target.name] t)) ∧
    (∀ i j, i < target.nCols → j < target.nCols → i < 0x7FFF → j < 0x7FFF →
      ∃ t, refText false doc host.id row col (encodeCols col ⟨i, j, sa, ea⟩ short tgt) = .ok t ∧
        (SpanForm doc host.id (target.id, .col, i) (target.id, .col, j) sa ea [ts.name, target.name] t ∨
         PlainForm doc host.id target.id (colsBody i j sa ea) [ts.name, target.name] t)) :=
  refText_span_sound h hhs hht hts htt row col sa ea short tgt hto

/-- PARTIAL only in its hygiene hypothesis.  Full statement: for every well-formed document the TEXT printed for
    a stored whole-row / whole-column reference or span, read by the spec's text reader `resolveText` (split the
    qualification at `::` outside quotes, unquote, strip `$`, recognise column letters / row numbers, then
    `resolveLabel` / `resolveSpan` / `resolveQual`), denotes exactly the stored table, rows / columns and `$`
    marks.  Proved for all documents satisfying `PlainNames doc` (sheet and table names without `:` and `'`;
    header NAMES without `:` and `'` whose first character is not `$`, `A`–`Z` or a digit).  Excluded region
    = `¬ PlainNames doc`: there the printed text is itself ambiguous as text (`$x` the label vs `$`+`x`; label
    `B` vs column B; apostrophes: known finding C18 `apostrophe-in-name`), independent of the scope logic, which
    `label_scope_sound` / `span_scope_sound` cover without this hypothesis.
    A single numeric row prints as `3:3`, hence the two-ends alternative. -/
theorem printed_text_resolves_partial {doc : Doc} (h : WellFormedDoc doc) (hp : PlainNames doc) {hs ts : Sheet}
    {host target : Table} (hhs : hs ∈ doc) (hht : host ∈ hs.tables) (hts : ts ∈ doc) (htt : target ∈ ts.tables)
    (row col : Int) (sa ea short : Bool) (tgt : Option Nat) (hto : tgt.getD host.id = target.id) :
    (∀ i, i < target.nRows →
      ∃ t, refText false doc host.id row col (rowNode row i sa tgt) = .ok t ∧
        (resolveText doc host.id t = some (target.id, [.row i sa]) ∨
         resolveText doc host.id t = some (target.id, [.row i sa, .row i sa]))) ∧
    (∀ i, i < target.nCols →
      ∃ t, refText false doc host.id row col (colNode col i sa tgt) = .ok t ∧
        resolveText doc host.id t = some (target.id, [.col i sa])) ∧
    (∀ i j, i < target.nRows → j < target.nRows → i < 0x7FFFFFFF → j < 0x7FFFFFFF →
      ∃ t, refText false doc host.id row col (encodeRows row ⟨i, j, sa, ea⟩ short tgt) = .ok t ∧
        resolveText doc host.id t = some (target.id, [.row i sa, .row j ea])) ∧
    (∀ i j, i < target.nCols → j < target.nCols → i < 0x7FFF → j < 0x7FFF →
      ∃ t, refText false doc host.id row col (encodeCols col ⟨i, j, sa, ea⟩ short tgt) = .ok t ∧
        resolveText doc host.id t = some (target.id, [.col i sa, .col j ea])) :=
  refText_text_resolves h hp hhs hht hts htt row col sa ea short tgt hto

/-- cells and rectangles, text level (same hygiene hypothesis on sheet / table names only): the text of
    `cell_ref_exact` / `range_ends_not_swapped`, read by `resolveText`, is the stored table and the stored cells
    with their `$` marks — a second, independent reader beside C10's `xl_cell_to_rowcol` model. -/
theorem cell_text_resolves_partial {doc : Doc} (h : WellFormedDoc doc) (hp : PlainNames doc) {hs ts : Sheet}
    {host target : Table} (hhs : hs ∈ doc) (hht : host ∈ hs.tables) (hts : ts ∈ doc) (htt : target ∈ ts.tables)
    (row col : Int) (tgt : Option Nat) (hto : tgt.getD host.id = target.id) :
    (∀ (n : RefNode) (r' c' : Nat), n.hasTract = false → n.hasRow = true → n.hasCol = true → n.toTable = tgt →
      (if n.rowAbs then n.row else row + n.row) = (r' : Int) →
      (if n.colAbs then n.col else col + n.col) = (c' : Int) →
      ∃ t, refText false doc host.id row col n = .ok t ∧
        resolveText doc host.id t = some (target.id, [.cell r' c' n.rowAbs n.colAbs])) ∧
    (∀ (rb re cb ce : Nat) (rbAbs reAbs cbAbs ceAbs short : Bool),
      rb < 0x7FFFFFFF → re < 0x7FFFFFFF → cb < 0x7FFF → ce < 0x7FFF →
      ∃ t, refText false doc host.id row col
          (encodeRect row col ⟨rb, re, rbAbs, reAbs⟩ ⟨cb, ce, cbAbs, ceAbs⟩ short tgt) = .ok t ∧
        resolveText doc host.id t = some (target.id, [.cell rb cb rbAbs cbAbs, .cell re ce reAbs ceAbs])) :=
  refText_cell_text_resolves h hp hhs hht hts htt row col tgt hto

/-- the numeric fallback bodies, read back with the library's own inverse parsers (C10): the row number is the
    decimal of `i + 1` (`int()` of it is `i + 1`), the column letters are `xl_col_to_name i` and
    `xl_col_to_offset` of them is `i`; `$` marks are per end. -/
theorem numeric_fallback_exact (i j : Nat) (sa ea : Bool) :
    rowsBody i j sa ea = (dollar sa ++ natStr (i + 1)) ++ [':'] ++ (dollar ea ++ natStr (j + 1)) ∧
    digitsToNat (spanDigits Gen.digitZeros (natStr (i + 1))).1 = i + 1 ∧
    digitsToNat (spanDigits Gen.digitZeros (natStr (j + 1))).1 = j + 1 ∧
    colsBody i j sa ea = (dollar sa ++ letters i) ++ [':'] ++ (dollar ea ++ letters j) ∧
    (i ≤ 18277 → (colName i sa).bind colToOffset = .ok (i : Int)) ∧
    (j ≤ 18277 → (colName j ea).bind colToOffset = .ok (j : Int)) :=
  ⟨rfl, (spanDigits_natStr _ Props.C10.zeros_ok _).2, (spanDigits_natStr _ Props.C10.zeros_ok _).2, rfl,
   Props.C10.col_offset_roundtrip i sa, Props.C10.col_offset_roundtrip j ea⟩

/-- the qualification of an A1 / numeric reference, in the spec's own reading (`resolveQual`, independent of
    `resolveTable` used by `prefix_unambiguous`), denotes the stored table. -/
theorem plain_qualification_sound {doc : Doc} (h : NamesOK doc) {hs ts : Sheet} {host target : Table}
    (hhs : hs ∈ doc) (hht : host ∈ hs.tables) (hts : ts ∈ doc) (htt : target ∈ ts.tables) (isAbs : Bool) :
    choosePrefix doc host.id target.id none isAbs = .ok (prefixT doc hs ts host target none isAbs) ∧
    resolveQual doc host.id (prefixT doc hs ts host target none isAbs) = some target.id :=
  ⟨choosePrefix_eq h hhs hht hts htt none isAbs, resolveQual_prefixT_plain h hhs hht hts htt isAbs⟩

/-- "qualified with just enough of table and sheet name", A1 / numeric references — FULL: with one level of
    qualification less (`S::T::` → `T::`, `T::` → none) the text no longer denotes the stored table. -/
theorem prefix_minimal {doc : Doc} (h : NamesOK doc) {hs ts : Sheet} {host target : Table}
    (hhs : hs ∈ doc) (hht : host ∈ hs.tables) (hts : ts ∈ doc) (htt : target ∈ ts.tables) (isAbs : Bool)
    (q q' : Prefix) (hq : choosePrefix doc host.id target.id none isAbs = .ok q) (hd : dropLevel q = some q') :
    resolveQual doc host.id q' ≠ some target.id := by
  rw [choosePrefix_eq h hhs hht hts htt none isAbs] at hq
  simp only [Except.ok.injEq] at hq
  subst hq
  exact plain_prefix_minimal h hhs hht hts htt isAbs q' hd

/-- "just enough", header labels — PARTIAL: for a name `s` kept for row / column `i` of `target` (cache entry
    `s`), whenever `expand_ref` prints a qualification `q` (scope not DOCUMENT), `q` with one level less does
    not denote `(target, axis, i)` — EXCEPT in the region `AbsSheetScope` (absolute reference, target in the
    host's sheet, name unique in that sheet, other table), where the code prints `T::$name` on purpose
    ("If absolute Numbers seems to unnecessarily include the table name") although `$name` alone would do
    (second part: that region really is over-qualified, so the exception is exact). -/
theorem prefix_minimal_partial {doc : Doc} (h : WellFormedDoc doc) {hs ts : Sheet} {host target : Table}
    (hhs : hs ∈ doc) (hht : host ∈ hs.tables) (hts : ts ∈ doc) (htt : target ∈ ts.tables)
    {ax : Axis} {i : Nat} {s : ScopedRef} (hf : ScopeFacts doc ts target ax i s) (isAbs : Bool) :
    (∀ q q', s.scope ≠ .document → choosePrefix doc host.id target.id (some s.scope) isAbs = .ok q →
        dropLevel q = some q' → ¬ AbsSheetScope hs ts host target s isAbs →
        resolveLabel doc host.id q' s.name ≠ some (target.id, ax, i)) ∧
    (AbsSheetScope hs ts host target s isAbs →
        choosePrefix doc host.id target.id (some s.scope) isAbs = .ok (.table target.name) ∧
        resolveLabel doc host.id .none s.name = some (target.id, ax, i)) := by
  constructor
  · intro q q' hnd hq hd hna hres
    rw [choosePrefix_eq h.toNamesOK hhs hht hts htt] at hq
    simp only [Except.ok.injEq] at hq
    subst hq
    exact hna (label_prefix_minimal h hhs hht hts htt hf hnd isAbs q' hd hres)
  · intro ha
    obtain ⟨h1, h2⟩ := abs_sheet_scope_overqualified h hhs hht hts htt hf ha
    exact ⟨by rw [choosePrefix_eq h.toNamesOK hhs hht hts htt, h1], h2⟩

/-- the hypothesis `ScopeFacts` of `prefix_minimal_partial` is what the name cache holds: every cache entry of a
    well-formed document satisfies it (rows; columns alike), and the cache is total on well-formed documents. -/
theorem cache_entry_facts {doc : Doc} (h : WellFormedDoc doc) {ts : Sheet} {target : Table} (hts : ts ∈ doc)
    (htt : target ∈ ts.tables) :
    ∃ cache tc, nameCache false doc = .ok cache ∧ cacheOf cache target.id = .ok tc ∧
      (∀ (i : Nat) s, rangeAt tc.rows (i : Int) = .ok (some s) → ScopeFacts doc ts target .row i s) ∧
      (∀ (i : Nat) s, rangeAt tc.cols (i : Int) = .ok (some s) → ScopeFacts doc ts target .col i s) :=
  ⟨_, _, nameCache_ok h, cacheOf_ok h hts htt, fun _ _ he => scopeFacts_row h hts htt he,
    fun _ _ he => scopeFacts_col h hts htt he⟩

/-- the model of `_calculate_name_scopes` keeps a name for row / column `i` of `target` exactly when, in the
    spec's reading, that header cell NAMES the row / column (non-empty text shown by no other header cell of the
    table): the label form of `label_scope_sound` is printed iff there is a usable name, the numeric fallback
    otherwise. -/
theorem name_kept_iff_spec_name {doc : Doc} (h : WellFormedDoc doc) {ts : Sheet} {target : Table} (hts : ts ∈ doc)
    (htt : target ∈ ts.tables) :
    ∃ cache tc, nameCache false doc = .ok cache ∧ cacheOf cache target.id = .ok tc ∧
      (∀ (i : Nat) (x : Text), (∃ sc, rangeAt tc.rows (i : Int) = .ok (some ⟨x, sc⟩)) ↔
        labelHits target x = [(target.id, .row, i)]) ∧
      (∀ (i : Nat) (x : Text), (∃ sc, rangeAt tc.cols (i : Int) = .ok (some ⟨x, sc⟩)) ↔
        labelHits target x = [(target.id, .col, i)]) := by
  have hw := h.tables target (mem_allTables hts htt)
  refine ⟨_, _, nameCache_ok h, cacheOf_ok h hts htt, fun i x => ⟨?_, ?_⟩, fun i x => ⟨?_, ?_⟩⟩
  · rintro ⟨sc, he⟩
    exact (scopeFacts_row h hts htt he).hit
  · intro hh
    exact ⟨_, rangeAt_map_of_kept (kept_of_labelHits hw hh)⟩
  · rintro ⟨sc, he⟩
    exact (scopeFacts_col h hts htt he).hit
  · intro hh
    exact ⟨_, rangeAt_map_of_kept (kept_of_labelHits hw hh)⟩

/-! ### the pinned code violates the property (concrete witnesses, confirmed on the real code by
    harness/checks/c09.py; repaired by fixes/C09-*.patch) -/

def mkTable (id : Nat) (name : String) (hr hc nr nc : Nat) (rowLabels colLabels : List String) : Table :=
  { id := id, name := name.toList, nHeaderRows := hr, nHeaderCols := hc, nRows := nr, nCols := nc,
    rowLabels := rowLabels.map String.toList, colLabels := colLabels.map String.toList }

/-- one sheet, one table `T` (id 0): 1 header row, 1 header column, 3 rows × 4 columns. -/
def witnessDoc (rowLabels colLabels : List String) : Doc :=
  [{ id := 0, name := "S".toList, tables := [mkTable 0 "T" 1 1 3 4 rowLabels colLabels] }]

/-- whole-column reference to column B whose header cell is the only empty one: the pinned code prints
    the EMPTY text (an empty header is taken for a name); the fixed code prints `B`. -/
theorem pinned_empty_label_printed :
    refText true (witnessDoc ["", "r1", "r2"] ["", "", "c2", "c3"]) 0 1 2
      { hasCol := true, col := -1 } = .ok [] ∧
    refText false (witnessDoc ["", "r1", "r2"] ["", "", "c2", "c3"]) 0 1 2
      { hasCol := true, col := -1 } = .ok "B".toList := by
  decide +kernel

/-- column span B:C where B is named `a` and C's header `b` is repeated in D (so C has no name):
    the pinned code raises (TypeError: `expand_ref(None)`); the fixed code prints `B:C`. -/
theorem pinned_span_with_unnamed_end_raises :
    refText true (witnessDoc ["", "r1", "r2"] ["", "a", "b", "b"]) 0 1 1
      (encodeCols 1 ⟨1, 2, false, false⟩ false none) = .error .TypeError ∧
    refText false (witnessDoc ["", "r1", "r2"] ["", "a", "b", "b"]) 0 1 1
      (encodeCols 1 ⟨1, 2, false, false⟩ false none) = .ok "B:C".toList := by
  decide +kernel

/-- row 2 and column B both have the header `x`: the pinned code prints the SAME text `x:x` for the
    whole-row and the whole-column reference (two different targets); the fixed code prints `2:2` / `B:B`. -/
theorem pinned_row_column_same_text :
    refText true (witnessDoc ["", "x", "r2"] ["", "x", "c2", "c3"]) 0 2 2
      (encodeRows 2 ⟨1, 1, false, false⟩ false none) = .ok "x:x".toList ∧
    refText true (witnessDoc ["", "x", "r2"] ["", "x", "c2", "c3"]) 0 2 2
      (encodeCols 2 ⟨1, 1, false, false⟩ false none) = .ok "x:x".toList ∧
    refText false (witnessDoc ["", "x", "r2"] ["", "x", "c2", "c3"]) 0 2 2
      (encodeRows 2 ⟨1, 1, false, false⟩ false none) = .ok "2:2".toList ∧
    refText false (witnessDoc ["", "x", "r2"] ["", "x", "c2", "c3"]) 0 2 2
      (encodeCols 2 ⟨1, 1, false, false⟩ false none) = .ok "B:B".toList := by
  decide +kernel

/-! ### non-vacuity -/

/-- two sheets; `Data` exists on both, `Costs` only on the second. -/
def demoDoc : Doc :=
  [{ id := 0, name := "Sheet 1".toList, tables :=
      [mkTable 0 "Data" 1 1 3 3 ["", "r1", "r2"] ["", "c1", "c2"], mkTable 1 "Sales" 0 0 3 3 ["", "", ""] ["", "", ""]] },
   { id := 1, name := "Sheet 2".toList, tables :=
      [mkTable 2 "Data" 0 0 3 3 ["", "", ""] ["", "", ""], mkTable 3 "Costs" 0 0 3 3 ["", "", ""] ["", "", ""]] }]

example : NamesOK demoDoc := ⟨by decide +kernel, by decide +kernel, by decide +kernel, by decide +kernel⟩
example : (nameCache false demoDoc).toOption.isSome = true := by decide +kernel
-- relative cell from host C3 (row 2, col 2) with offsets (-1,-2) into the other `Data`: fully qualified
example : refText false demoDoc 0 2 2 { hasRow := true, row := -1, hasCol := true, col := -2, toTable := some 2 }
    = .ok "Sheet 2::Data::A2".toList := by decide +kernel
example : refText false demoDoc 0 2 2
    { hasRow := true, row := 1, rowAbs := true, hasCol := true, col := 0, colAbs := true, toTable := some 3 }
    = .ok "Costs::$A$2".toList := by decide +kernel
example : refText false demoDoc 0 2 2 { hasRow := true, row := 0, hasCol := true, col := 0, toTable := some 1 }
    = .ok "Sales::C3".toList := by decide +kernel
example : resolveTable demoDoc 0 (.table "Data".toList) = some 0 ∧
    resolveTable demoDoc 3 (.table "Data".toList) = some 2 ∧
    resolveTable demoDoc 0 (.table "Costs".toList) = some 3 ∧
    resolveTable demoDoc 0 (.sheetTable "Sheet 2".toList "Data".toList) = some 2 := by decide +kernel
-- mixed absolute / relative rectangle: begin row absolute, end column absolute
example : refText false demoDoc 0 2 2 (encodeRect 2 2 ⟨0, 2, true, false⟩ ⟨1, 2, false, true⟩ false none)
    = .ok "B$1:$C3".toList := by decide +kernel
-- header names: document-unique names are printed bare
example : refText false demoDoc 1 0 0 (encodeCols 0 ⟨1, 2, false, false⟩ false (some 0)) = .ok "c1:c2".toList := by
  decide


/-! ### non-vacuity for the label theorems: a three-sheet document exercising every scope -/

/-- `Data` exists on two sheets; `shr` is unique within each sheet only; `tab` is in every table; `q` is
    repeated in `B`; `x-y` needs quoting; `u0…u4` are unique in the document. -/
def scopeDoc : Doc :=
  [{ id := 0, name := "S1".toList, tables :=
      [mkTable 0 "A" 1 1 3 4 ["", "r1", "shr"] ["", "u0", "tab", "x-y"],
       mkTable 1 "Data" 1 1 3 4 ["", "r2", "r3"] ["", "u1", "tab", "q"]] },
   { id := 1, name := "S2".toList, tables :=
      [mkTable 2 "Data" 1 1 3 4 ["", "r4", "r5"] ["", "u2", "tab", "shr"],
       mkTable 3 "B" 1 1 3 4 ["", "u3", ""] ["", "w", "q", "q"]] },
   { id := 2, name := "S3".toList, tables :=
      [mkTable 4 "C" 1 1 3 4 ["", "r6", "r7"] ["", "u4", "tab", "shr"]] }]

example : WellFormedDoc scopeDoc where
  sheetIds := by decide +kernel
  sheetNames := by decide +kernel
  tableIds := by decide +kernel
  tableNames := by decide +kernel
  tables := by
    intro t ht
    simp only [allTables, scopeDoc, List.flatMap_cons, List.flatMap_nil, List.append_nil, List.cons_append,
      List.nil_append, List.mem_cons, List.not_mem_nil, or_false] at ht
    rcases ht with rfl | rfl | rfl | rfl | rfl <;> exact ⟨by decide, by decide⟩

example : PlainNames scopeDoc := plainNames_of_check _ (by decide +kernel) (by decide +kernel)

-- DOCUMENT scope: bare, from another sheet
example : refText false scopeDoc 4 1 1 (colNode 1 1 false (some 1)) = .ok "u1".toList ∧
    resolveLabel scopeDoc 4 .none "u1".toList = some (1, .col, 1) ∧
    resolveText scopeDoc 4 "u1".toList = some (1, [.col 1 false]) := by decide +kernel
-- SHEET scope, same sheet: bare when relative, `A::$shr` when absolute (the over-qualified region)
example : refText false scopeDoc 1 1 1 (rowNode 1 2 false (some 0)) = .ok "shr".toList ∧
    refText false scopeDoc 1 1 1 (rowNode 1 2 true (some 0)) = .ok "A::$shr".toList ∧
    resolveText scopeDoc 1 "shr".toList = some (0, [.row 2 false]) ∧
    resolveText scopeDoc 1 "A::$shr".toList = some (0, [.row 2 true]) ∧
    resolveText scopeDoc 1 "$shr".toList = some (0, [.row 2 true]) := by decide +kernel
-- SHEET scope seen from another sheet: `A::shr` (A unique), `S2::Data::shr` (Data is not); read from sheet S3,
-- bare `shr` would denote S3's own column and `Data::shr` nothing
example : refText false scopeDoc 4 1 1 (rowNode 1 2 false (some 0)) = .ok "A::shr".toList ∧
    refText false scopeDoc 4 1 1 (colNode 1 3 false (some 2)) = .ok "S2::Data::shr".toList ∧
    resolveText scopeDoc 4 "A::shr".toList = some (0, [.row 2 false]) ∧
    resolveText scopeDoc 4 "S2::Data::shr".toList = some (2, [.col 3 false]) ∧
    resolveText scopeDoc 4 "shr".toList = some (4, [.col 3 false]) ∧
    resolveText scopeDoc 4 "Data::shr".toList = none := by decide +kernel
-- TABLE / NONE scope: `A::tab`, `Data::tab` inside the sheet, `S1::Data::tab` from outside
example : refText false scopeDoc 1 1 1 (colNode 1 2 false (some 0)) = .ok "A::tab".toList ∧
    refText false scopeDoc 0 1 1 (colNode 1 2 false (some 1)) = .ok "Data::tab".toList ∧
    refText false scopeDoc 4 1 1 (colNode 1 2 false (some 1)) = .ok "S1::Data::tab".toList ∧
    resolveText scopeDoc 0 "Data::tab".toList = some (1, [.col 2 false]) ∧
    resolveText scopeDoc 4 "S1::Data::tab".toList = some (1, [.col 2 false]) ∧
    resolveText scopeDoc 0 "tab".toList = some (0, [.col 2 false]) := by decide +kernel
-- quoting, numeric fallback for a repeated header, and a span with one document-unique end
example : refText false scopeDoc 1 1 1 (colNode 1 3 true (some 0)) = .ok "'$x-y'".toList ∧
    resolveText scopeDoc 1 "'$x-y'".toList = some (0, [.col 3 true]) ∧
    refText false scopeDoc 0 1 1 (colNode 1 2 false (some 3)) = .ok "B::C".toList ∧
    resolveText scopeDoc 0 "B::C".toList = some (3, [.col 2 false]) ∧
    refText false scopeDoc 4 1 1 (encodeCols 1 ⟨1, 2, false, true⟩ false (some 1)) = .ok "u1:$tab".toList ∧
    resolveText scopeDoc 4 "u1:$tab".toList = some (1, [.col 1 false, .col 2 true]) := by decide +kernel

end NumbersModel.Props.C09
