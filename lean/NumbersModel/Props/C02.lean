/-
C02 — Re-saving an unmodified document preserves everything the library reads (thin).

What is a theorem here is the *composition* of the storage layers for one open → save → open
cycle of the cell data of a table:
  * `record_resave` / `record_resave_twice` — a record that was read (C04 `view`) and is
    written again from the attributes the reader set decodes to the same kind, the same payload
    bytes and the same twelve ids; a second cycle changes nothing further;
  * `strings_resave` — the string table is rebuilt on save (`init`, then `lookup_key` per text
    cell): every text cell's new key reads back its own string, keys are 1..n ascending;
  * `rows_resave`, `tiles_resave` — offsets/storage buffers and the 256-row tiles return the
    records row by row (C01).
  * `table_resave_idempotent`, `table_resave_stable` — the layers composed end to end
    (Model/TablePipeline.lean, C01 `table_roundtrip`): open → save → open → save → open … of a
    whole table returns, every time, the same class / payload / ids / text at every position.
  * `document_resave_identity`, `document_resave_stable`, `opened_after_load` — the WHOLE document
    (Model/Document.lean: DocTree + per table TablePipeline grid, Merge map, formula / format / rich-text
    lists; `saveDoc` = `Document.save`, `loadDoc` = `Document(path)`, `dump` = what
    harness/checks/c02.py `dump()` reads), by composition of the component theorems: sheets and tables in
    order, per cell class, value, formula text, formatted value, rich-text token, merge state.
Glue that is assumed, not proved (stated in PARTIAL of the check): rich text (bullets / hyperlinks / the text of
a rich cell) is an opaque token per rich-text id; the interpretation of payload bytes as Python values and the
A1 text of a reference node are parameters of `dump` (third party / C09); style ids travel in the cell record
but `dump` does not read styles.
-/
import NumbersModel.Props.C04
import NumbersModel.Props.C01
import NumbersModel.Lemmas.StringTable
import NumbersModel.Lemmas.TablePipeline
import NumbersModel.Lemmas.DocumentDemo
namespace NumbersModel.Props.C02
open NumbersModel NumbersModel.CellRecord NumbersModel.StringTable

/-- the cell class the reader builds for a decoded record (error cells are refused on save). -/
def kindOfD : DKind → Kind
  | .number => .number | .currency => .currency | .text => .text | .date => .date | .bool => .bool
  | .duration => .duration | .rich => .rich | .empty => .empty | .error => .other

/-- the in-memory cell after reading a record, as `_to_buffer` will see it at the next save;
    `newKey` is the key the rebuilt string table hands out for the cell's text. -/
def recell (d : Decoded) (newKey : Int) : Cell :=
  { kind := kindOfD d.kind,
    payload := ((d.d128.orElse fun _ => d.double).orElse fun _ => d.seconds).getD [],
    stringKey := newKey, stringId := d.stringId, ids := d.ids }

/-- what a reader observes of a record apart from the (re-assigned) string key and the raw
    flag words: class, payload bytes, and every optional id. -/
def core (d : Decoded) : DKind × Option Bytes × Option Bytes × Option Bytes × Ids :=
  (d.kind, d.d128, d.double, d.seconds, d.ids)

theorem recell_encodable (c : Cell) (he : Encodable c) (k : Int) (hk : I32 k) :
    Encodable (recell (view c) k) := by
  unfold Encodable at *
  cases hkind : c.kind <;> simp_all [recell, view, kindOfD, dkindOf, Option.orElse]

theorem core_view_recell (c : Cell) (he : Encodable c) (k : Int) :
    core (view (recell (view c) k)) = core (view c) := by
  unfold Encodable at he
  cases hkind : c.kind <;> simp_all [recell, view, kindOfD, dkindOf, core, Option.orElse]

/-- one save of what was read: the record written from the reader's attributes decodes to the
    same class, payload and ids (text cells: under their new key `k`). -/
theorem record_resave (c : Cell) (he : Encodable c) (hr : IdsInRange c.ids) (k : Int) (hk : I32 k) :
    ∃ b, encode (recell (view c) k) = .ok (some b) ∧ (decode b).map core = .ok (core (view c)) := by
  have he' := recell_encodable c he k hk
  have hr' : IdsInRange (recell (view c) k).ids := by simpa [recell, view] using hr
  obtain ⟨b, hb, hd⟩ := C04.decode_encode (recell (view c) k) he' hr'
  exact ⟨b, hb, by rw [hd]; simp [Except.map, core_view_recell c he k]⟩

/-- a second save/open cycle changes nothing further. -/
theorem record_resave_twice (c : Cell) (he : Encodable c) (hr : IdsInRange c.ids) (k1 k2 : Int)
    (h1 : I32 k1) (h2 : I32 k2) :
    ∃ b, encode (recell (view (recell (view c) k1)) k2) = .ok (some b) ∧
      (decode b).map core = .ok (core (view c)) := by
  have he' := recell_encodable c he k1 h1
  have hr' : IdsInRange (recell (view c) k1).ids := by simpa [recell, view] using hr
  obtain ⟨b, hb, hd⟩ := record_resave (recell (view c) k1) he' hr' k2 h2
  exact ⟨b, hb, by rw [hd, core_view_recell c he k1]⟩

/-- the string table rebuilt by a save: interning the texts of the cells in save order from the
    reset table, every cell's key reads back exactly its own text (never '' or a neighbour's),
    and the stored keys are 1, 2, …, n in list order. -/
theorem strings_resave {α} [DecidableEq α] (texts : List α) :
    let r := internAll (init : Tbl α) texts
    r.1.length = texts.length ∧
    r.2.entries.map Prod.fst = (List.range r.2.entries.length).map (· + 1) ∧
    ∀ i (h : i < texts.length), ∃ k, r.1[i]? = some k ∧ lookupValue r.2.entries k = .ok texts[i] := by
  obtain ⟨hw, hl, _, hall⟩ := internAll_spec texts init wf_init
  exact ⟨hl, hw.1, hall⟩

/-- equal texts share one key; different texts never do. -/
theorem strings_keys_faithful {α} [DecidableEq α] (texts : List α) (i j : Nat)
    (hi : i < texts.length) (hj : j < texts.length) (k : Nat)
    (h1 : (internAll (init : Tbl α) texts).1[i]? = some k)
    (h2 : (internAll (init : Tbl α) texts).1[j]? = some k) : texts[i] = texts[j] := by
  obtain ⟨_, _, hall⟩ := strings_resave texts
  obtain ⟨ki, hki, hvi⟩ := hall i hi
  obtain ⟨kj, hkj, hvj⟩ := hall j hj
  rw [h1] at hki; rw [h2] at hkj
  injection hki with hki; injection hkj with hkj
  subst hki; subst hkj
  rw [hvi] at hvj
  injection hvj

/-- rows: the offset table and storage buffer written for a row return its records (C01). -/
theorem rows_resave (cells : List (Option Bytes)) (hmax : cells.length ≤ Gen.MAX_COL_COUNT)
    (hl : ∀ b, some b ∈ cells → b.length ≤ 12 + 16 + 12 * 4 ∧ b.length % 4 = 0) :
    ∃ ob st n, RowStorage.rowInfo cells.length cells = .ok (ob, st, n) ∧
      RowStorage.rowBuffers st ob cells.length true = .ok cells :=
  C01.row_roundtrip cells hmax hl

/-- tiles: the 256-row tiles written for a table concatenate back to its rows, in order. -/
theorem tiles_resave {α} (rows : List α) : (RowStorage.tiles rows).flatMap (·.2) = rows :=
  C01.tiles_cover rows

/-! ### the whole table, cycle after cycle (composition; Model/TablePipeline.lean) -/

/-- `n` cycles of save (`recalculate_table_data`) → reopen (`Table.__init__`), each starting from
    the cells the previous reopen left in memory (`TablePipeline.recell`). -/
def resaveN (mr : Nat → Nat → Bool) : Nat → List (List TablePipeline.TCell) → PyM (List (List TablePipeline.TCell))
  | 0, g => .ok g
  | n + 1, g => do
    let s ← TablePipeline.saveTable g
    let l ← TablePipeline.loadTable mr s
    resaveN mr n (l.map (·.map TablePipeline.recell))

/-- **a second save/reopen cycle returns the same grid again.** Under the hypotheses of C01
    `table_roundtrip`: the first cycle reads `g1`; saving exactly what was read (`recell`) and
    reopening reads `g2` with, at every position, the same class, payload bytes, twelve ids and
    text as `g1` (`coreL`: everything but the re-assigned string key and the raw flag words — the
    `extras` byte may gain bit 0x80 once, because a text cell created by the API has no `_string_id`
    and a reopened one has), and both equal what the original grid holds. -/
theorem table_resave_idempotent (mr : Nat → Nat → Bool) (grid : List (List TablePipeline.TCell)) (w : Nat)
    (hne : 1 ≤ grid.length) (hrect : TablePipeline.Rect grid w) (hw : w ≤ Gen.MAX_COL_COUNT)
    (hrows : grid.length ≤ Gen.MAX_ROW_COUNT)
    (hvalid : ∀ row ∈ grid, ∀ c ∈ row, TablePipeline.ValidCell c)
    (hmr : TablePipeline.MergeAgrees mr grid) :
    ∃ s1 g1 s2 g2, TablePipeline.saveTable grid = .ok s1 ∧ TablePipeline.loadTable mr s1 = .ok g1 ∧
      TablePipeline.saveTable (g1.map (·.map TablePipeline.recell)) = .ok s2 ∧
      TablePipeline.loadTable mr s2 = .ok g2 ∧
      g2.map (·.map TablePipeline.coreL) = g1.map (·.map TablePipeline.coreL) ∧
      g1.map (·.map TablePipeline.coreL) = grid.map (·.map (TablePipeline.coreL ∘ TablePipeline.viewT)) := by
  have hne' : grid ≠ [] := by intro h; rw [h] at hne; simp at hne
  obtain ⟨s1, g1, hs1, hg1, _, _, _, hall1⟩ :=
    TablePipeline.load_save_rel mr grid w hne' hrect hw hrows hvalid hmr
  obtain ⟨a1, a2, a3, a4, a5, a6⟩ := TablePipeline.reread_valid mr grid w hne' hrect hvalid hmr g1 hall1
  obtain ⟨s2, g2, hs2, hg2, _, _, _, hall2⟩ :=
    TablePipeline.load_save_rel mr _ w a1 a2 hw (by rw [a3]; exact hrows) a4 a5
  have core_of : ∀ {gr : List (List TablePipeline.TCell)} {g : List (List TablePipeline.LCell)},
      TablePipeline.All₂ (TablePipeline.All₂ (fun cell l => ∃ k, l = TablePipeline.viewK k cell)) gr g →
      g.map (·.map TablePipeline.coreL) = gr.map (·.map (TablePipeline.coreL ∘ TablePipeline.viewT)) := by
    intro gr g hall
    have h := congrArg (fun x => x.map (fun r => r.map TablePipeline.coreL)) (TablePipeline.forget_of_rel hall)
    simpa [List.map_map, Function.comp_def, TablePipeline.coreL_forgetKey] using h
  refine ⟨s1, g1, s2, g2, hs1, hg1, hs2, hg2, ?_, core_of hall1⟩
  rw [core_of hall2, a6, core_of hall1]

/-- **any number of cycles**: `n` save/reopen cycles never raise and leave, at every position, the
    class / payload / ids / text the original grid holds. -/
theorem table_resave_stable (mr : Nat → Nat → Bool) (n : Nat) : ∀ (grid : List (List TablePipeline.TCell)) (w : Nat),
    1 ≤ grid.length → TablePipeline.Rect grid w → w ≤ Gen.MAX_COL_COUNT →
    grid.length ≤ Gen.MAX_ROW_COUNT → (∀ row ∈ grid, ∀ c ∈ row, TablePipeline.ValidCell c) →
    TablePipeline.MergeAgrees mr grid →
    ∃ gn, resaveN mr n grid = .ok gn ∧
      gn.map (·.map (TablePipeline.coreL ∘ TablePipeline.viewT))
        = grid.map (·.map (TablePipeline.coreL ∘ TablePipeline.viewT)) := by
  induction n with
  | zero => intro grid w _ _ _ _ _ _; exact ⟨grid, rfl, rfl⟩
  | succ n ih =>
    intro grid w hne hrect hw hrows hvalid hmr
    have hne' : grid ≠ [] := by intro h; rw [h] at hne; simp at hne
    obtain ⟨s1, g1, hs1, hg1, _, _, _, hall1⟩ :=
      TablePipeline.load_save_rel mr grid w hne' hrect hw hrows hvalid hmr
    obtain ⟨a1, a2, a3, a4, a5, a6⟩ := TablePipeline.reread_valid mr grid w hne' hrect hvalid hmr g1 hall1
    have hlen : 1 ≤ (g1.map (·.map TablePipeline.recell)).length := by rw [a3]; exact hne
    obtain ⟨gn, hgn, heq⟩ := ih _ w hlen a2 hw (by rw [a3]; exact hrows) a4 a5
    refine ⟨gn, ?_, by rw [heq, a6]⟩
    simp only [resaveN, hs1, hg1, bind, Except.bind]
    exact hgn

/-! ### non-vacuity -/
example : (internAll (init : Tbl String) ["a", "b", "a", "c"]).1 = [1, 2, 1, 3] := by decide
example : lookupValue (internAll (init : Tbl String) ["a", "b", "a", "c"]).2.entries 3 = .ok "c" := by decide

/-- two cycles on a 2 × 2 grid with a merged hole and a repeated text: computed. -/
def demoGrid : List (List TablePipeline.TCell) :=
  [[⟨.text, [], "x".toList, none, {}⟩, ⟨.merged, [], [], none, {}⟩],
   [⟨.text, [], "x".toList, none, {}⟩, ⟨.date, List.replicate 8 9, [], none, { dateFmt := some 2 }⟩]]
example : (resaveN (fun r c => r == 0 && c == 1) 2 demoGrid).map
      (fun g => g.map (fun r => r.map (TablePipeline.coreL ∘ TablePipeline.viewT)))
    = .ok (demoGrid.map (fun r => r.map (TablePipeline.coreL ∘ TablePipeline.viewT))) := by decide +kernel

/-! ### the whole document (composition; Model/Document.lean) -/
section document
open NumbersModel.Document

/-- **`Document(path)` establishes `Opened`** (for a document that was `Opened` and `Writable` before the save): the save
    succeeds, the reopen succeeds, and the reopened document is again `Opened` and `Writable` — so a second cycle needs no
    extra hypothesis.  Which component hypothesis each part of `Opened` supplies:
    `TreeOK` → DocTree `tableIds_perm` / `getObj_perm` / `serialise_perm` (C19 `order_after_reload`);
    `LiveOpened.ne / rect / rows / cells` + `Writable` → C01 `table_roundtrip` (`load_save_rel`, `reread_valid`);
    `LiveOpened.agrees` → `MergeAgrees`; `LiveOpened.merge` (`MergeOK`) → C12 `get_load_pack` (`open_eq_reloaded`). -/
theorem opened_after_load (d : Doc) (hO : Opened d) (hW : Writable d) :
    ∃ s d', saveDoc d = .ok s ∧ loadDoc s = .ok d' ∧ Opened d' ∧ Writable d' := by
  obtain ⟨s, d', h1, h2, h3, h4, _⟩ := doc_cycle d hO hW
  exact ⟨s, d', h1, h2, h3, h4⟩

/-- **re-saving an unmodified document preserves everything the library reads**: open → save → open shows the same sheets
    in the same order, per sheet the same tables in the same order, and per table (pivot tables: the name only) the same
    dimensions, merge ranges and, cell by cell, the same class, value, formula text, formatted value, rich-text token and
    merge flag / placeholder range — for every interpretation `env` of the payload bytes and reference nodes. -/
theorem document_resave_identity (d : Doc) (hO : Opened d) (hW : Writable d) (env : Env) :
    resaveDump env d = dump env d := by
  obtain ⟨s, d', h1, h2, _, _, h5⟩ := doc_cycle d hO hW
  simp only [resaveDump, h1, h2, bind, Except.bind, h5 env]

/-- two cycles: open → save → open → save → open → dump -/
def resaveDump2 (env : Env) (d : Doc) : PyM Observation := do
  let s ← saveDoc d
  let d' ← loadDoc s
  resaveDump env d'

/-- **a second save/open cycle changes nothing further** -/
theorem document_resave_stable (d : Doc) (hO : Opened d) (hW : Writable d) (env : Env) :
    resaveDump2 env d = resaveDump env d := by
  obtain ⟨s, d', h1, h2, h3, h4, h5⟩ := doc_cycle d hO hW
  simp only [resaveDump2, h1, h2, bind, Except.bind]
  rw [document_resave_identity d' h3 h4 env]
  simp only [resaveDump, h1, h2, bind, Except.bind]

/-- any number of cycles -/
def resaveDumpN (env : Env) : Nat → Doc → PyM Observation
  | 0, d => dump env d
  | n + 1, d => do
    let s ← saveDoc d
    let d' ← loadDoc s
    resaveDumpN env n d'

theorem document_resave_any_number (env : Env) (n : Nat) : ∀ (d : Doc), Opened d → Writable d →
    resaveDumpN env n d = dump env d := by
  induction n with
  | zero => intro d _ _; rfl
  | succ n ih =>
    intro d hO hW
    obtain ⟨s, d', h1, h2, h3, h4, h5⟩ := doc_cycle d hO hW
    simp only [resaveDumpN, h1, h2, bind, Except.bind]
    rw [ih d' h3 h4, h5 env]

/-- the table part on its own: one table through `Document.save` / `Table.__init__` is observed the same and is again a
    table a save can take (pivot tables: left alone by the save) -/
theorem table_state_resave (t : TableSt) (hO : TableOpened t) (hW : TableWritable t) :
    ∃ s t', saveTableSt t = .ok s ∧ loadTableSt t.pivot.isSome s = .ok t' ∧ TableOpened t' ∧ TableWritable t' ∧
      ∀ env tid, obsTable env tid t' = obsTable env tid t := by
  obtain ⟨s, t', h1, h2, h3, h4, _, h6⟩ := table_cycle t hO hW
  exact ⟨s, t', h1, h2, h3, h4, h6⟩

/-- the merge part on its own: the map read back from the packed ranges reads the same at every cell and is again `MergeOK` -/
theorem merge_state_resave (m : Merge.MMap) (h : MergeOK m) :
    ∃ packed, Merge.packRanges (Merge.anchorsOf m) = .ok packed ∧
      (∀ k, (Merge.loadRanges packed).get k = m.get k) ∧ MergeOK (Merge.loadRanges packed) := by
  obtain ⟨packed, hp, hget⟩ := merge_cycle_get m h
  exact ⟨packed, hp, hget, mergeOK_of_get m _ h (nodup_loadRanges packed) hget⟩

/-! #### non-vacuity: two sheets, three tables, a merge, a shared formula, a currency format, a string cell -/

/-- **the hypotheses are satisfiable** (Lemmas/DocumentDemo.lean): the demo document — two sheets, three tables, a merge, a
    shared formula, a currency format, string cells, a rich cell, a date; store order ≠ file order — is `Opened` and
    `Writable` … -/
theorem hypotheses_satisfiable : Opened demoDoc ∧ Writable demoDoc := demo_opened
/-- … so the theorems apply to it -/
example : resaveDump demoEnv demoDoc = dump demoEnv demoDoc :=
  document_resave_identity demoDoc demo_opened.1 demo_opened.2 demoEnv

/-- the dump of the demo document is a value (no exception) … -/
example : (dump demoEnv demoDoc).isOk = true := by decide +kernel
/-- … with the sheets and tables in drawable order, the shared formula rendered per host, the currency display, the merge -/
example : (dump demoEnv demoDoc).map (fun o => o.map fun s => (s.1, s.2.map (·.1)))
    = .ok [(some "One".toList, ["T1".toList, "T2".toList]), (some "Two".toList, ["T3".toList])] := by decide +kernel
structure DemoCell where
  formula : Option (PyM Text)
  formatted : PyM Text
  merge : MergeObs
  deriving DecidableEq
structure DemoTab where
  ranges : List (Int × Int × Int × Int)
  rows : List (List DemoCell)
  deriving DecidableEq
def demoProj (o : Observation) : List DemoTab :=
  o.flatMap fun s => s.2.flatMap fun t =>
    match t.2 with
    | .live _ _ rs rows => [⟨rs, rows.map fun r => r.map fun c => ⟨c.formula, c.formatted, c.merge⟩⟩]
    | .pivot => []
def demoExpected : List DemoTab :=
  [⟨[(0, 0, 0, 1)],
    [[⟨some (.ok "A1+B1".toList), .ok "€1,234.50".toList, .anchor 1 2⟩, ⟨none, .ok "None".toList, .placeholder 0 0 0 1⟩],
     [⟨none, .ok "x".toList, .plain⟩, ⟨some (.ok "B2+C2".toList), .ok "1234.5".toList, .plain⟩]]⟩,
   ⟨[], [[⟨none, .ok "x".toList, .plain⟩], [⟨none, .ok "None".toList, .plain⟩]]⟩,
   ⟨[], [[⟨none, .ok "2020".toList, .plain⟩, ⟨none, .ok [], .plain⟩]]⟩]
example : (dump demoEnv demoDoc).map demoProj = .ok demoExpected := by decide +kernel
/-- … one and two save / open cycles (archives re-read in FILE order, string keys re-assigned, merge map re-packed) show
    the same -/
example : resaveDump demoEnv demoDoc = dump demoEnv demoDoc := by decide +kernel
example : resaveDump2 demoEnv demoDoc = dump demoEnv demoDoc := by decide +kernel
/-- the reload is not the identity on the state: the store comes back in file order -/
example : ((saveDoc demoDoc).bind loadDoc).map (fun d => d.tree.objects.map (·.1))
    = .ok [1, 2, 3, 10, 11, 12, 22, 21, 20] := by decide +kernel

end document

end NumbersModel.Props.C02
