/-
C10 — A1-notation conversion functions are mutually inverse bijections.
Statements only (plus short proofs by reference to Lemmas/A1.lean) and non-vacuity examples.
-/
import NumbersModel.Lemmas.A1
import NumbersModel.Lemmas.TrA1
import NumbersModel.Gen.Constants
namespace NumbersModel.Props.C10
open NumbersModel NumbersModel.A1

/-- zero-based column → letters → column is the identity, for every column (no bound). -/
theorem col_roundtrip (c : Nat) : colIndex (letters c) = c := colIndex_letters c

/-- every non-empty word over A..Z is the name of exactly one column: the one it decodes to.
    With `col_roundtrip` this makes `letters` a bijection ℕ ↔ non-empty upper-case words
    (no gaps, no repeats). -/
theorem name_roundtrip (s : List Char) (hne : s ≠ []) (hu : ∀ ch ∈ s, isUpper ch = true) :
    0 ≤ colIndex s ∧ letters (colIndex s).toNat = s := letters_colIndex s hne hu

theorem col_name_injective (a b : Nat) (h : letters a = letters b) : a = b := letters_injective h

/-- names are non-empty words over A..Z only. -/
theorem col_name_wellformed (c : Nat) : letters c ≠ [] ∧ ∀ ch ∈ letters c, isUpper ch = true :=
  ⟨letters_ne_nil c, letters_upper c⟩

/-- column numbering is strictly order-preserving for the "A..Z, AA..ZZ, AAA.." order
    (shorter names first, then lexicographic by letter). -/
theorem col_strict_mono (a b : Nat) : a < b ↔ shortlex (letters a) (letters b) :=
  letters_strict_mono a b

/-- names of up to three letters are exactly the columns 0..18277. -/
theorem col_name_length (c : Nat) : (letters c).length ≤ 3 ↔ c ≤ 18277 := by
  rw [letters_eq]
  constructor
  · intro h
    by_cases hc : c ≤ 18277
    · exact hc
    · have := lettersSpec_length_gt3 (c + 1) (by omega); omega
  · intro h; exact lettersSpec_length_le3 _ (by omega)

/-- negative coordinates are rejected with IndexError, never named. -/
theorem negative_rejected (r c : Int) (ra ca : Bool) (h : r < 0 ∨ c < 0) :
    rowcolToCell r c ra ca = .error .IndexError := by
  unfold rowcolToCell
  rcases h with h | h
  · simp [h]
  · by_cases hr : r < 0 <;> simp [hr, h]

theorem negative_col_rejected (c : Int) (ca : Bool) (h : c < 0) :
    colName c ca = .error .IndexError := by simp [colName, h]

theorem rowcolToCell_ok (r c : Nat) (ra ca : Bool) :
    rowcolToCell r c ra ca =
      .ok ((if ca then ['$'] else []) ++ letters c ++ (if ra then ['$'] else []) ++ natStr (r + 1)) := by
  have h1 : ¬ ((r : Int) < 0) := by omega
  have h2 : ¬ ((c : Int) < 0) := by omega
  simp [rowcolToCell, colName, h1, h2, bind, Except.bind]

theorem dropDollar_upper (c : Char) (tl : List Char) (h : isUpper c = true) :
    dropDollar (c :: tl) = c :: tl := by
  unfold dropDollar
  split
  · rename_i heq
    injection heq with h1 _
    subst h1; exact absurd h (by decide)
  · rfl

theorem dropDollar_digit (d : Nat) (hd : d < 10) (tl : List Char) :
    dropDollar (digitChar d :: tl) = digitChar d :: tl := by
  unfold dropDollar
  split
  · rename_i heq
    injection heq with h1 _
    have := digitChar_toNat d hd
    rw [h1] at this
    have h36 : ('$' : Char).toNat = 36 := by decide
    omega
  · rfl

theorem dropDollar_opt (b : Bool) (tl : List Char) (h : dropDollar tl = tl) :
    dropDollar ((if b then ['$'] else []) ++ tl) = tl := by
  cases b
  · simpa using h
  · simp [dropDollar]

/-- row/column → A1 text → row/column is the identity for every row, every column whose name
    has at most three letters, and all four `$` combinations. -/
theorem cell_roundtrip (zeros : List Nat) (hz : ZerosOK zeros) (r c : Nat) (ra ca : Bool)
    (hc : c ≤ 18277) :
    (rowcolToCell r c ra ca).bind (cellToRowCol zeros) = .ok ((r : Int), (c : Int)) := by
  rw [rowcolToCell_ok]
  simp only [Except.bind]
  -- shape of the string
  obtain ⟨l0, ltl, hl, hl0⟩ : ∃ l0 ltl, letters c = l0 :: ltl ∧ isUpper l0 = true := by
    have hne := letters_ne_nil c
    cases hq : letters c with
    | nil => exact absurd hq hne
    | cons a b => exact ⟨a, b, rfl, letters_upper c a (by simp [hq])⟩
  obtain ⟨d0, dtl, hd, hd0⟩ := natStr_head_not_upper (r + 1)
  have hupper := letters_upper c
  unfold cellToRowCol
  have hne : ((if ca then ['$'] else []) ++ letters c ++ (if ra then ['$'] else []) ++ natStr (r + 1)) ≠ [] := by
    rw [hl]; cases ca <;> simp
  simp only [hne, if_false]
  have e1 : dropDollar ((if ca then ['$'] else []) ++ letters c ++ (if ra then ['$'] else []) ++ natStr (r + 1))
      = letters c ++ ((if ra then ['$'] else []) ++ natStr (r + 1)) := by
    rw [List.append_assoc, List.append_assoc]
    apply dropDollar_opt
    rw [hl]; exact dropDollar_upper _ _ hl0
  rw [e1]
  have htl : List.takeWhile isUpper ((if ra then ['$'] else []) ++ natStr (r + 1)) = [] := by
    cases ra
    · simp only [Bool.false_eq_true, if_false, List.nil_append, hd]
      exact List.takeWhile_cons_of_neg (by simp [hd0])
    · simp only [if_true, List.cons_append, List.nil_append]
      exact List.takeWhile_cons_of_neg (by decide)
  have hdw : List.dropWhile isUpper ((if ra then ['$'] else []) ++ natStr (r + 1))
      = (if ra then ['$'] else []) ++ natStr (r + 1) := by
    cases ra
    · simp only [Bool.false_eq_true, if_false, List.nil_append, hd]
      exact List.dropWhile_cons_of_neg (by simp [hd0])
    · simp only [if_true, List.cons_append, List.nil_append]
      exact List.dropWhile_cons_of_neg (by decide)
  rw [List.takeWhile_append_of_pos hupper, List.dropWhile_append_of_pos hupper, htl, hdw,
    List.append_nil]
  have hlen : (letters c).length ≤ 3 := by
    rw [letters_eq]; exact lettersSpec_length_le3 _ (by omega)
  have hlen0 : (letters c).length ≠ 0 := by rw [hl]; simp
  have hcond : ¬ ((letters c).length = 0 ∨ (letters c).length > 3) := by omega
  simp only [hcond, if_false]
  have e2 : dropDollar ((if ra then ['$'] else []) ++ natStr (r + 1)) = natStr (r + 1) := by
    apply dropDollar_opt
    rw [natStr_eq]
    unfold natStrSpec
    by_cases h10 : r + 1 < 10
    · simp only [h10, dite_true]; exact dropDollar_digit _ h10 _
    · obtain ⟨c', tl', e', hc'⟩ := natStr_head_not_upper ((r + 1) / 10)
      rw [natStr_eq] at e'
      simp only [h10, dite_false, e', List.cons_append]
      unfold dropDollar
      split
      · rename_i heq; injection heq with h1 _
        -- c' is a digit character: obtained from natStrSpec; '$' is not
        exfalso
        have : c' ∈ natStrSpec ((r + 1) / 10) := by rw [e']; simp
        have hall : ∀ n, ∀ ch ∈ natStrSpec n, ∃ d, d < 10 ∧ ch = digitChar d := by
          intro n
          induction n using Nat.strongRecOn with
          | _ n ih =>
            unfold natStrSpec
            by_cases h : n < 10
            · simp only [h, dite_true, List.mem_singleton]; intro ch hch; exact ⟨n, h, hch⟩
            · simp only [h, dite_false, List.mem_append, List.mem_singleton]
              intro ch hch
              rcases hch with hch | hch
              · exact ih _ (by omega) ch hch
              · exact ⟨n % 10, Nat.mod_lt _ (by decide), hch⟩
        obtain ⟨d, hd10, hcd⟩ := hall _ _ this
        have h2 := digitChar_toNat d hd10
        rw [← hcd, h1] at h2
        have h36 : ('$' : Char).toNat = 36 := by decide
        omega
      · rfl
  rw [e2]
  obtain ⟨hs1, hs2⟩ := spanDigits_natStr zeros hz (r + 1)
  cases hsp : spanDigits zeros (natStr (r + 1)) with
  | mk ds rest =>
    rw [hsp] at hs1 hs2
    simp only at hs1 hs2
    simp only [hs1, if_false, hs2, colIndex_letters]
    congr 2
    omega

/-- a column past `ZZZ` has a four-letter name, which the decoder rejects (documents the cap). -/
theorem col_gt_18277_rejected (zeros : List Nat) (r c : Nat) (hc : 18277 < c) :
    (rowcolToCell r c false false).bind (cellToRowCol zeros) = .error .IndexError := by
  rw [rowcolToCell_ok]
  simp only [Except.bind, Bool.false_eq_true, if_false, List.nil_append, List.append_nil]
  obtain ⟨l0, ltl, hl, hl0⟩ : ∃ l0 ltl, letters c = l0 :: ltl ∧ isUpper l0 = true := by
    have hne := letters_ne_nil c
    cases hq : letters c with
    | nil => exact absurd hq hne
    | cons a b => exact ⟨a, b, rfl, letters_upper c a (by simp [hq])⟩
  obtain ⟨d0, dtl, hd, hd0⟩ := natStr_head_not_upper (r + 1)
  unfold cellToRowCol
  have hne : letters c ++ natStr (r + 1) ≠ [] := by rw [hl]; simp
  simp only [hne, if_false]
  have e1 : dropDollar (letters c ++ natStr (r + 1)) = letters c ++ natStr (r + 1) := by
    rw [hl]; exact dropDollar_upper _ _ hl0
  rw [e1, List.takeWhile_append_of_pos (letters_upper c)]
  have htl : List.takeWhile isUpper (natStr (r + 1)) = [] := by
    rw [hd]; exact List.takeWhile_cons_of_neg (by simp [hd0])
  rw [htl, List.append_nil]
  have : (letters c).length > 3 := by
    rw [letters_eq]; exact lettersSpec_length_gt3 _ (by omega)
  simp [this]

/-- the A1 text determines the pair: distinct pairs never share a name (any row, any column). -/
theorem cell_name_injective (r1 c1 r2 c2 : Nat)
    (h : rowcolToCell r1 c1 false false = rowcolToCell r2 c2 false false) :
    r1 = r2 ∧ c1 = c2 := by
  rw [rowcolToCell_ok, rowcolToCell_ok] at h
  simp only [Bool.false_eq_true, if_false, List.nil_append, List.append_nil, Except.ok.injEq] at h
  obtain ⟨d1, t1, hd1, hn1⟩ := natStr_head_not_upper (r1 + 1)
  obtain ⟨d2, t2, hd2, hn2⟩ := natStr_head_not_upper (r2 + 1)
  have tw : ∀ c r d t, natStr (r + 1) = d :: t → isUpper d = false →
      List.takeWhile isUpper (letters c ++ natStr (r + 1)) = letters c := by
    intro c r d t e hn
    rw [List.takeWhile_append_of_pos (letters_upper c), e,
      List.takeWhile_cons_of_neg (by simp [hn]), List.append_nil]
  have hl : letters c1 = letters c2 := by
    rw [← tw c1 r1 d1 t1 hd1 hn1, ← tw c2 r2 d2 t2 hd2 hn2, h]
  have hc := letters_injective hl
  subst hc
  have hs := List.append_cancel_left h
  refine ⟨?_, rfl⟩
  -- natStr is injective: read it back with the ASCII digit table
  have hz : ZerosOK [48] := by
    intro d hd
    have := digitChar_toNat d hd
    have h58 : 48 + d < 58 := by omega
    simp [digitVal, List.find?, this, h58]
  have a1 := (spanDigits_natStr [48] hz (r1 + 1)).2
  have a2 := (spanDigits_natStr [48] hz (r2 + 1)).2
  rw [hs] at a1; omega

/-- a range collapses to a single reference exactly when both corners coincide. -/
theorem range_collapses_iff (r1 c1 r2 c2 : Nat) :
    (xlRange r1 c1 r2 c2 = rowcolToCell r1 c1 false false) ↔ (r1 = r2 ∧ c1 = c2) := by
  constructor
  · intro h
    by_cases heq : rowcolToCell r1 c1 false false = rowcolToCell r2 c2 false false
    · exact cell_name_injective _ _ _ _ heq
    · exfalso
      rw [rowcolToCell_ok, rowcolToCell_ok] at heq
      unfold xlRange at h
      rw [rowcolToCell_ok, rowcolToCell_ok] at h
      simp only [bind, Except.bind] at h
      have hne : ¬ ([] ++ letters c1 ++ [] ++ natStr (r1 + 1) = [] ++ letters c2 ++ [] ++ natStr (r2 + 1)) := by
        intro hh; apply heq; simp only [Bool.false_eq_true, if_false]; rw [hh]
      simp only [Bool.false_eq_true, if_false, hne] at h
      injection h with h
      have := congrArg List.length h
      simp at this
  · rintro ⟨rfl, rfl⟩
    unfold xlRange
    rw [rowcolToCell_ok]
    simp [bind, Except.bind]

/-- `xl_col_to_offset` inverts `xl_col_to_name` on every ≤ 3-letter column, with or without `$`. -/
theorem col_offset_roundtrip (c : Nat) (ca : Bool) (hc : c ≤ 18277) :
    (colName c ca).bind colToOffset = .ok (c : Int) := by
  have h2 : ¬ ((c : Int) < 0) := by omega
  simp only [colName, h2, if_false, Except.bind, Int.toNat_natCast]
  obtain ⟨l0, ltl, hl, hl0⟩ : ∃ l0 ltl, letters c = l0 :: ltl ∧ isUpper l0 = true := by
    have hne := letters_ne_nil c
    cases hq : letters c with
    | nil => exact absurd hq hne
    | cons a b => exact ⟨a, b, rfl, letters_upper c a (by simp [hq])⟩
  unfold colToOffset
  have hne : (if ca then ['$'] else []) ++ letters c ≠ [] := by rw [hl]; cases ca <;> simp
  simp only [hne, if_false]
  have e1 : dropDollar ((if ca then ['$'] else []) ++ letters c) = letters c := by
    apply dropDollar_opt; rw [hl]; exact dropDollar_upper _ _ hl0
  rw [e1]
  have htw : List.takeWhile isUpper (letters c) = letters c := by
    have := List.takeWhile_append_of_pos (l₂ := []) (letters_upper c)
    simpa using this
  rw [htw]
  have hlen : (letters c).length ≤ 3 := by
    rw [letters_eq]; exact lettersSpec_length_le3 _ (by omega)
  rw [List.take_of_length_le hlen]
  have : (letters c).length ≠ 0 := by rw [hl]; simp
  simp [this, colIndex_letters]

/-! ### non-vacuity -/
example : rowcolToCell 999999 18277 true false = .ok "ZZZ$1000000".toList := by decide
example : cellToRowCol [48] "$ZZZ$1000000".toList = .ok (999999, 18277) := by decide
example : xlRange 0 0 0 0 = .ok "A1".toList ∧ xlRange 0 0 1 1 = .ok "A1:B2".toList := by decide
example : letters 26 = "AA".toList ∧ letters 701 = "ZZ".toList ∧ letters 702 = "AAA".toList := by decide
example : shortlex "Z".toList "AA".toList ∧ shortlex "AZ".toList "BA".toList := by
  constructor
  · left; decide
  · right; exact ⟨rfl, Or.inl (by decide)⟩
example : ZerosOK [48] := by
  intro d hd
  have := digitChar_toNat d hd
  have h58 : 48 + d < 58 := by omega
  simp [digitVal, List.find?, this, h58]

end NumbersModel.Props.C10

namespace NumbersModel.Props.C10
open NumbersModel NumbersModel.A1

/-- the regexes in xrefs.py are the ones the scanners in Model/A1.lean were derived from
    (constants regenerated from the source on every run). -/
theorem patterns_as_modelled :
    Gen.rangePartsPattern = "(\\$?)([A-Z]{1,3})(\\$?)(\\d+)" ∧ Gen.colPartsPattern = "(\\$?)([A-Z]{1,3})" := by
  decide

/-- the interpreter's `\d` table evaluates ASCII digits as themselves. -/
theorem zeros_ok : ZerosOK Gen.digitZeros := by
  intro d hd
  have h : ∀ d, d < 10 → digitVal Gen.digitZeros (Char.ofNat (48 + d)) = some d := by decide
  exact h d hd

/-- `cell_roundtrip` for the decoder as it runs (generated digit table). -/
theorem cell_roundtrip_gen (r c : Nat) (ra ca : Bool) (hc : c ≤ 18277) :
    (rowcolToCell r c ra ca).bind (cellToRowCol Gen.digitZeros) = .ok ((r : Int), (c : Int)) :=
  cell_roundtrip _ zeros_ok r c ra ca hc

end NumbersModel.Props.C10

/-! ## The same statements over the definitions regenerated from the Python source

`Gen/TrA1.lean` is produced by `harness/py2lean.py` from `xrefs.py` as it is in the working tree on every
check run; `Lemmas/TrA1.lean` proves each translated function equal to the model function used above.
The theorems below are therefore statements about (the translation of) the code itself: if the source of
`xl_col_to_name`, `xl_rowcol_to_cell`, `xl_range`, `xl_cell_to_rowcol` or `xl_col_to_offset` changes, these
are re-proved against the new text or stop compiling. -/
namespace NumbersModel.Props.C10.Src
open NumbersModel NumbersModel.A1 NumbersModel.Gen.T NumbersModel.Translated

/-- row/column → A1 → row/column is the identity, every `$` combination, every column Numbers can have. -/
theorem src_cell_roundtrip (r c : Nat) (ra ca : Bool) (hc : c ≤ 18277) :
    (xl_rowcol_to_cell r c ra ca).bind xl_cell_to_rowcol = .ok ((r : Int), (c : Int)) := by
  have h : xl_cell_to_rowcol = cellToRowCol Gen.digitZeros := funext xl_cell_to_rowcol_eq_model
  rw [xl_rowcol_to_cell_eq_model, h]
  exact cell_roundtrip_gen r c ra ca hc

/-- column naming is the bijective base-26 numbering: the name of column `c` is `letters c` … -/
theorem src_col_name (c : Nat) (ca : Bool) :
    xl_col_to_name c ca = .ok ((if ca then ['$'] else []) ++ letters c) := by
  rw [xl_col_to_name_eq_model]
  have h2 : ¬ ((c : Int) < 0) := by omega
  simp [colName, h2]

/-- … which has no repeats, … -/
theorem src_col_name_injective (a b : Nat) (ca : Bool) (h : xl_col_to_name a ca = xl_col_to_name b ca) : a = b := by
  rw [src_col_name, src_col_name] at h
  have h' := Except.ok.inj h
  exact letters_injective (List.append_cancel_left h')

/-- … no gaps (every non-empty upper-case word is the name of its index), … -/
theorem src_col_name_surjective (s : List Char) (hne : s ≠ []) (hu : ∀ ch ∈ s, isUpper ch = true) :
    ∃ c : Nat, xl_col_to_name c false = .ok s := by
  have h := C10.name_roundtrip s hne hu
  refine ⟨(colIndex s).toNat, ?_⟩
  rw [src_col_name]
  simp only [if_false, Bool.false_eq_true, List.nil_append]
  rw [h.2]

/-- … and is strictly order-preserving (A..Z, AA..ZZ, AAA.. = length, then lexicographic). -/
theorem src_col_strict_mono (a b : Nat) :
    ∃ sa sb, xl_col_to_name a false = .ok sa ∧ xl_col_to_name b false = .ok sb ∧ (a < b ↔ shortlex sa sb) :=
  ⟨letters a, letters b, by simpa using src_col_name a false, by simpa using src_col_name b false,
   letters_strict_mono a b⟩

/-- negative coordinates are rejected with IndexError rather than named. -/
theorem src_negative_rejected (r c : Int) (ra ca : Bool) (h : r < 0 ∨ c < 0) :
    xl_rowcol_to_cell r c ra ca = .error .IndexError := by
  rw [xl_rowcol_to_cell_eq_model]; exact negative_rejected r c ra ca h

theorem src_negative_col_rejected (c : Int) (ca : Bool) (h : c < 0) :
    xl_col_to_name c ca = .error .IndexError := by
  rw [xl_col_to_name_eq_model]; exact negative_col_rejected c ca h

/-- a range collapses to a single reference exactly when both corners coincide. -/
theorem src_range_collapses_iff (r1 c1 r2 c2 : Nat) :
    (xl_range r1 c1 r2 c2 = xl_rowcol_to_cell r1 c1 false false) ↔ (r1 = r2 ∧ c1 = c2) := by
  rw [xl_range_eq_model, xl_rowcol_to_cell_eq_model]; exact range_collapses_iff r1 c1 r2 c2

/-- `xl_col_to_offset` inverts `xl_col_to_name`. -/
theorem src_col_offset_roundtrip (c : Nat) (ca : Bool) (hc : c ≤ 18277) :
    (xl_col_to_name c ca).bind xl_col_to_offset = .ok (c : Int) := by
  have h : xl_col_to_offset = colToOffset := funext xl_col_to_offset_eq_model
  rw [xl_col_to_name_eq_model, h]; exact col_offset_roundtrip c ca hc

/-- the loop of `xl_col_to_name` never runs out of the fuel the translation gives it. -/
theorem src_col_name_fuel_suffices (c : Int) (ca : Bool) : xl_col_to_name c ca ≠ .error .OutOfFuel := by
  rw [xl_col_to_name_eq_model]
  unfold colName
  split <;> simp

example : xl_rowcol_to_cell 999999 18277 true false = .ok "ZZZ$1000000".toList := by decide +kernel
example : xl_cell_to_rowcol "$AB$12".toList = .ok (11, 27) := by decide +kernel
example : xl_range 0 0 0 0 = .ok "A1".toList := by decide +kernel
example : xl_range 0 0 1 2 = .ok "A1:C2".toList := by decide +kernel

/-- the tokenizer's `col_to_index` (translated from `parse_numbers_range` in tokenizer.py) inverts column naming: the name of
    every column reads back as that column, and every non-empty upper-case word is the name of the column it reads as. -/
theorem src_tokenizer_col_index_roundtrip (c : Nat) :
    col_to_index (letters c) = .ok (c : Int) := by
  rw [col_to_index_eq_model, C10.col_roundtrip]

theorem src_tokenizer_col_index_name (s : List Char) (hne : s ≠ []) (hu : ∀ ch ∈ s, isUpper ch = true) :
    ∃ i : Int, col_to_index s = .ok i ∧ 0 ≤ i ∧ letters i.toNat = s :=
  ⟨_, col_to_index_eq_model s, C10.name_roundtrip s hne hu⟩

example : col_to_index "AAA".toList = .ok 702 := by decide +kernel

end NumbersModel.Props.C10.Src
