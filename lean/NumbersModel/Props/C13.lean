/-
C13 — displayed numbers agree numerically with the stored value.
Statements only (short proofs by reference to Lemmas/NumFmt.lean, Lemmas/Digits.lean) and
non-vacuity examples.  Values are exact decimals `Dec = (-1)^neg · mant · 10^exp`.

Vocabulary (Lemmas/NumFmt.lean):
  `undecorate t`      — `t` with everything but digits and the decimal point removed;
  `plainDigits ip fp` — `ip` followed by `.fp` when `fp` is not empty;
  `Nearest m k q`     — `|m − q·10^k| ≤ 10^k / 2` (q is a nearest integer to m / 10^k);
  `SameValue m e m' e'` — `m·10^e = m'·10^e'`.
-/
import NumbersModel.Lemmas.NumFmt
import NumbersModel.Gen.Constants
namespace NumbersModel.Props.C13
open NumbersModel NumbersModel.Digits NumbersModel.NumFmt

/-! ## the generated tables are the ones modelled -/

theorem tables_as_modelled :
    Gen.DECIMAL_PLACES_AUTO = AUTO ∧
    Gen.intToBaseChar = (List.range 36).map (fun x => String.ofList [baseChar x]) ∧
    Gen.starRatingValue = "★" ∧
    Gen.fractionAccuracies.map (·.2) = [4294967293, 4294967294, 4294967295, 2, 4, 8, 16, 10, 100] := by decide

/-! ## decimal / percentage / currency -/

/-- **decoration only** — grouping separators, the minus sign, parentheses and the percent sign never
    change a digit: with all of them removed the text is exactly the digits of the plain rendering. -/
theorem decoration_only (d : Dec) (f : DecFmt) (percent : Bool) :
    undecorate (formatDecimal d f percent) = plainDigits (decimalDigits d f).1 (decimalDigits d f).2.1 :=
  undecorate_formatDecimal d f percent

/-- the digits do not depend on separator, negative style or percent at all. -/
theorem decoration_independent (d : Dec) (places : Nat) (t t' : Bool) (s s' : Nat) (p p' : Bool) :
    undecorate (formatDecimal d ⟨places, t, s⟩ p) = undecorate (formatDecimal d ⟨places, t', s'⟩ p') := by
  rw [decoration_only, decoration_only]; rfl

/-- currency symbol (any of the generated symbols, or the code itself), tab and accounting parentheses
    are decoration too. -/
theorem currency_decoration_only (d : Dec) (f : DecFmt) (accounting : Bool) (code : String) (hc : code ∈ Gen.currencies) :
    undecorate (formatCurrency Gen.currencySymbols d f accounting code.toList) =
      plainDigits (decimalDigits d f).1 (decimalDigits d f).2.1 := by
  have hs : ∀ e ∈ Gen.currencySymbols, undecorate e.2.toList = [] := by decide +kernel
  have hcodes : ∀ c ∈ Gen.currencies, undecorate c.toList = [] := by decide +kernel
  rw [undecorate_formatCurrency _ d f accounting _ hs (hcodes code hc), decoration_only]

/-- grouping only inserts separators: removing them gives back the digits. -/
theorem grouping_only_inserts (s : Text) (h : ∀ c ∈ s, c ≠ ',') : (group3 s).filter (· ≠ ',') = s :=
  group3_filter s h

/-- the sign conventions: the text is `(`?`-`?digits`%`?`)`? with the minus sign exactly for negative
    values in the MINUS style that do not round to zero, and parentheses exactly for negative values in the
    two parentheses styles (the RED style shows the magnitude only). -/
theorem sign_style (d : Dec) (f : DecFmt) (percent : Bool) :
    formatDecimal d f percent =
      (if d.isNeg && decide (f.negStyle ≥ 2) then ['('] else []) ++
      (if (d.isNeg && decide (f.negStyle = 0)) && !(decimalDigits d f).2.2 then ['-'] else []) ++
      joinDigits (decimalDigits d f).1 (decimalDigits d f).2.1 f.thousands ++
      (if percent then ['%'] else []) ++
      (if d.isNeg && decide (f.negStyle ≥ 2) then [')'] else []) := by
  unfold formatDecimal
  simp only
  cases hneg : (d.isNeg && decide (f.negStyle ≥ 2)) <;> cases percent <;>
    cases ((d.isNeg && decide (f.negStyle = 0)) && !(decimalDigits d f).2.2) <;> simp

/-- **places exact** — with `p` places asked, exactly `p` decimals are shown, preceded by at least
    one integer digit. -/
theorem places_exact (d : Dec) (f : DecFmt) (hp : f.places < AUTO) :
    (decimalDigits d f).2.1.length = f.places ∧ 1 ≤ (decimalDigits d f).1.length :=
  ⟨(decimalDigits_fixed d f hp).1, (decimalDigits_fixed d f hp).2.1⟩

/-- **reads back** — the digits shown, read as one integer `m` (i.e. the number `m·10^-places`), are the
    value at 15 significant digits scaled by `10^places` and rounded half up: exact when nothing has to be
    dropped, otherwise within half a unit of the last place shown, ties away from zero. -/
theorem decimal_reads_back (d : Dec) (f : DecFmt) (hp : f.places < AUTO) :
    let r := roundSig d 15
    let m := scaleTo r f.places
    readNat ((decimalDigits d f).1 ++ (decimalDigits d f).2.1) = some m ∧
    ((0 ≤ r.exp + (f.places : Int) ∧ m = r.mant * 10 ^ (r.exp + (f.places : Int)).toNat) ∨
     (r.exp + (f.places : Int) < 0 ∧ Nearest r.mant (-(r.exp + (f.places : Int))).toNat m ∧
        2 * r.mant < 2 * (m * 10 ^ (-(r.exp + (f.places : Int))).toNat) + 10 ^ (-(r.exp + (f.places : Int))).toNat)) := by
  intro r m
  refine ⟨(decimalDigits_fixed d f hp).2.2.1, ?_⟩
  rcases scaleTo_spec r f.places with ⟨h1, h2⟩ | ⟨h1, h2, h3⟩
  · exact Or.inl ⟨h1, h2⟩
  · refine Or.inr ⟨h1, ?_, ?_⟩
    · show Nearest r.mant _ (scaleTo r f.places)
      rw [h2]; exact (dropHalfUp_nearest _ _).1
    · show 2 * r.mant < 2 * (scaleTo r f.places * _) + _
      rw [h2]; exact (dropHalfUp_nearest _ _).2 h3

/-- rounding to 15 significant digits (`sigfig`) is itself half-up and leaves ≤ 15-digit values alone. -/
theorem round_sig_nearest (d : Dec) (n : Nat) :
    roundSig d n = d ∨
    ∃ k, k ≠ 0 ∧ numDigits d.mant = n + k ∧ (roundSig d n).exp = d.exp + (k : Int) ∧ (roundSig d n).neg = d.neg ∧
      Nearest d.mant k (roundSig d n).mant := by
  rcases roundSig_spec d n with h | ⟨k, hk, hn, h⟩
  · exact Or.inl h
  · exact Or.inr ⟨k, hk, hn, by rw [h], by rw [h], by rw [h]; exact (dropHalfUp_nearest _ _).1⟩

/-- automatic places: the digits shown denote the value exactly (at 15 significant digits); an integer
    shows no decimal point. -/
theorem auto_reads_back (d : Dec) (f : DecFmt) (hp : f.places ≥ AUTO) :
    ∃ m, readNat ((decimalDigits d f).1 ++ (decimalDigits d f).2.1) = some m ∧
      ((d.isInteger = true ∧ (decimalDigits d f).2.1 = [] ∧ SameValue m 0 d.mant d.exp) ∨
       (d.isInteger = false ∧
          SameValue m (-((decimalDigits d f).2.1.length : Int)) (roundSig d 15).mant (roundSig d 15).exp)) :=
  decimalDigits_auto d f hp

/-! ## scientific -/

/-- The mantissa digits of the scientific format are the value's leading digits rounded to `places+1`
    significant digits, nearest with ties to even.  (Full statement — the text `d.ddd E±xx` read back is
    `mantissa · 10^exponent` — is not proved: `_partial`.) -/
theorem scientific_mantissa_partial (m k : Nat) :
    Nearest m k (dropHalfEven m k) ∧
    (k ≠ 0 → 2 * (m % 10 ^ k) = 10 ^ k → dropHalfEven m k % 2 = 0) :=
  ⟨dropHalfEven_nearest m k, fun hk ht => dropHalfEven_tie m k hk ht⟩

/-! ## number bases -/

/-- **base reads back** — for every base 2 … 36 the numeral read back is the integer shown … -/
theorem base_reads_back (b n places : Nat) (hb : 2 ≤ b) (hb' : b ≤ 36) :
    parseBase b (zfill places (toBase b n)) = n ∧ places ≤ (zfill places (toBase b n)).length := by
  refine ⟨by rw [parseBase_zfill, parseBase_toBase b hb hb'], by rw [zfill_length]; omega⟩

/-- … zero padding is the only source of leading zeros … -/
theorem base_no_spurious_zero (b n : Nat) (hb : 2 ≤ b) (hb' : b ≤ 36) (hn : n ≠ 0) :
    ∃ c tl, toBase b n = c :: tl ∧ charVal c ≠ 0 := by
  rw [toBase_eq b hb]; exact toBaseSpec_head b hb hb' n hn

/-- … the integer shown is the value rounded to nearest (ties to even) … -/
theorem base_rounds_nearest (d : Dec) (h : d.exp < 0) :
    Nearest d.mant (-d.exp).toNat d.roundEvenNat := by
  unfold Dec.roundEvenNat
  have : ¬ d.exp ≥ 0 := by omega
  simp only [this, if_false]
  exact dropHalfEven_nearest _ _

/-- … and the whole `_format_base`: minus sign + padded magnitude, or the two's-complement pattern. -/
theorem base_format_cases (d : Dec) (f : BaseFmt) :
    formatBase d f =
      if d.roundEvenNat = 0 then zfill f.places ['0']
      else if (!f.useMinus && (f.base = 2 || f.base = 8 || f.base = 16)) && d.neg then twosComplement d.roundEvenNat f.base
      else (if d.neg then ['-'] else []) ++ zfill f.places (toBase f.base d.roundEvenNat) := by
  unfold formatBase
  simp only
  split
  · rfl
  · cases f.useMinus <;> cases d.neg <;> simp

/-- **two's complement** — for a negative integer `-a` in base 2, 8 or 16 the numeral read back is
    `2^bits − a` with `bits = max 32 (⌈log₂ a⌉ + 1)`; its top bit is set (`2^(bits−1) ≤ 2^bits − a`), so read as a
    signed `bits`-bit number it is `−a`; in base 2 exactly `bits` digits are shown. -/
theorem twos_complement_value (a base : Nat) (ha : 1 ≤ a) (hb : base = 2 ∨ base = 8 ∨ base = 16) :
    let bits := max 32 (clog2 a + 1)
    parseBase base (twosComplement a base) = 2 ^ bits - a ∧
    2 ^ (bits - 1) ≤ 2 ^ bits - a ∧ 32 ≤ bits ∧ a ≤ 2 ^ (bits - 1) ∧
    ((parseBase base (twosComplement a base) : Int) - 2 ^ bits = -(a : Int)) ∧
    (base = 2 → (twosComplement a base).length = bits) := by
  intro bits
  obtain ⟨h1, h2, h3⟩ := twosComplement_value a base ha hb
  obtain ⟨h32, hfit⟩ := twos_bits a
  refine ⟨h1, h2, h32, hfit, ?_, h3⟩
  rw [h1]
  have hle : a ≤ 2 ^ bits := by
    have : 2 ^ (bits - 1) ≤ 2 ^ bits := Nat.pow_le_pow_right (by omega) (by omega)
    exact Nat.le_trans hfit this
  rw [Nat.cast_sub hle]; push_cast; ring

/-! ## fractions -/

/-- **fixed denominators** — the numerator shown is a nearest integer to `den·frac` (as supplied: the
    float product the code rounds), ties to even: `|num − t| ≤ 1/2`. -/
theorem fraction_fixed_nearest (tneg : Bool) (tp tq : Nat) (hq : 0 < tq) :
    let a := (roundRatEven tneg tp tq).natAbs
    2 * (a * tq) ≤ 2 * tp + tq ∧ 2 * tp ≤ 2 * (a * tq) + tq := roundRatEven_nearest tneg tp tq hq

/-- what is displayed for whole part `w`, numerator `n` over `den`: the sign is kept (a negative value never
    loses its whole part), `den/den` is carried into the whole part, a zero numerator is not shown, and
    zero is `0`. -/
theorem fraction_parts_normal_form (whole numerator : Int) (den : Nat) :
    let neg := whole < 0 ∨ numerator < 0
    let carry := numerator.natAbs = den
    let w := if carry then whole.natAbs + 1 else whole.natAbs
    let n := if carry then 0 else numerator.natAbs
    fractionParts whole numerator den =
      if w > 0 then
        (if neg then ['-'] else []) ++ natStr w ++ (if n = 0 then [] else [' '] ++ natStr n ++ ['/'] ++ natStr den)
      else if n = 0 then ['0']
      else (if neg then ['-'] else []) ++ natStr n ++ ['/'] ++ natStr den := fractionParts_spec whole numerator den

/-- **up-to-N-digit fractions** — whenever `limit_denominator` returns, its denominator lies in
    `1 … 10^N − 1`.  Not proved (hence `_partial`): that the loop always returns for a fraction in lowest terms
    (no ZeroDivisionError, fuel suffices) and that the result is the closest fraction with such a denominator
    (optimality of the continued-fraction convergents); both are exercised by the correspondence and the
    oracle (exhaustive search over all admissible denominators). -/
theorem fraction_ndigit_partial (digits : Nat) (hd : 1 ≤ digits) (num den p q : Int) (hden : 0 < den)
    (h : limitDenominator ((10 : Int) ^ digits - 1) num den = .ok (p, q)) :
    1 ≤ q ∧ q ≤ (10 : Int) ^ digits - 1 := by
  have : (10 : Int) ≤ 10 ^ digits := by
    calc (10 : Int) = 10 ^ 1 := by norm_num
      _ ≤ 10 ^ digits := pow_le_pow_right₀ (by norm_num) hd
  exact limitDenominator_bound _ num den (by omega) hden p q h

/-! ## rating -/

theorem rating_stars (d : Dec) (h : d.isNeg = false) : (formatRating d).length = d.truncNat := by
  simp [formatRating, h]

/-! ## non-vacuity -/

example : formatDecimal ⟨true, 1234565, -3⟩ ⟨2, true, 0⟩ false = "-1,234.57".toList := by decide
example : formatDecimal ⟨false, 999995, -3⟩ ⟨2, true, 2⟩ false = "1,000.00".toList := by decide
example : formatDecimal ⟨true, 1, -3⟩ ⟨2, true, 0⟩ false = "0.00".toList := by decide
example : formatDecimal ⟨false, 1234, -9⟩ ⟨253, false, 0⟩ false = "0.000001234".toList := by decide
example : formatDecimal ⟨true, 5, -1⟩ ⟨1, false, 3⟩ true = "(0.5%)".toList := by decide
example : undecorate "£\t(1,234.50)".toList = "1234.50".toList := by decide
example : formatCurrency Gen.currencySymbols ⟨true, 12345, -1⟩ ⟨2, true, 0⟩ true "GBP".toList = "£\t(1,234.50)".toList := by
  decide
example : formatBase ⟨true, 10, 0⟩ ⟨2, 0, false⟩ = "11111111111111111111111111110110".toList := by decide
example : formatBase ⟨true, 4, -1⟩ ⟨2, 0, true⟩ = "0".toList ∧ formatBase ⟨false, 255, 0⟩ ⟨16, 4, true⟩ = "00FF".toList := by
  decide
example : fractionParts (-2) (-1) 2 = "-2 1/2".toList ∧ fractionParts 2 4 4 = "3".toList ∧ fractionParts 0 (-2) 2 = "-1".toList := by
  decide
example : fractionDigits 1 7074029114692207 2251799813685248 = .ok "3 1/7".toList := by decide
example : formatScientific ⟨false, 2675, -3⟩ 2 = "2.68E+00".toList ∧ formatScientific ⟨false, 25, -1⟩ 0 = "2E+00".toList := by
  decide

end NumbersModel.Props.C13
