/-
C13 — displayed numbers agree numerically with the stored value.
Statements only (short proofs by reference to Lemmas/NumFmt.lean, Lemmas/Digits.lean) and
non-vacuity examples.  Values are exact decimals `Dec = (-1)^neg · mant · 10^exp`.

Vocabulary (Lemmas/NumFmt.lean):
  `undecorate t`      — `t` with everything but digits and the decimal point removed;
  `plainDigits ip fp` — `ip` followed by `.fp` when `fp` is not empty;
  `Nearest m k q`     — `|m − q·10^k| ≤ 10^k / 2` (q is a nearest integer to m / 10^k);
  `SameValue m e m' e'` — `m·10^e = m'·10^e'`.
-/
import NumbersModel.Lemmas.NumFmt
import NumbersModel.Lemmas.CustomFmt
import NumbersModel.Lemmas.LimitDen
import NumbersModel.Lemmas.SciFmt
import NumbersModel.Lemmas.TrNumFmt
import NumbersModel.Lemmas.FormatDispatch
import NumbersModel.Gen.Constants
namespace NumbersModel.Props.C13
open NumbersModel NumbersModel.Digits NumbersModel.NumFmt

/-! ## the generated tables are the ones modelled -/

theorem tables_as_modelled :
    Gen.DECIMAL_PLACES_AUTO = AUTO ∧
    Gen.intToBaseChar = (List.range 36).map (fun x => String.ofList [baseChar x]) ∧
    Gen.starRatingValue = "★" ∧
    Gen.fractionAccuracies.map (·.2) = [4294967293, 4294967294, 4294967295, 2, 4, 8, 16, 10, 100] := by decide

/-! ## decimal / percentage / currency -/

/-- **decoration only** — grouping separators, the minus sign, parentheses and the percent sign never
    change a digit: with all of them removed the text is exactly the digits of the plain rendering. -/
theorem decoration_only (d : Dec) (f : DecFmt) (percent : Bool) :
    undecorate (formatDecimal d f percent) = plainDigits (decimalDigits d f).1 (decimalDigits d f).2.1 :=
  undecorate_formatDecimal d f percent

/-- the digits do not depend on separator, negative style or percent at all. -/
theorem decoration_independent (d : Dec) (places : Nat) (t t' : Bool) (s s' : Nat) (p p' : Bool) :
    undecorate (formatDecimal d ⟨places, t, s⟩ p) = undecorate (formatDecimal d ⟨places, t', s'⟩ p') := by
  rw [decoration_only, decoration_only]; rfl

/-- currency symbol (any of the generated symbols, or the code itself), tab and accounting parentheses
    are decoration too. -/
theorem currency_decoration_only (d : Dec) (f : DecFmt) (accounting : Bool) (code : String) (hc : code ∈ Gen.currencies) :
    undecorate (formatCurrency Gen.currencySymbols d f accounting code.toList) =
      plainDigits (decimalDigits d f).1 (decimalDigits d f).2.1 := by
  have hs : ∀ e ∈ Gen.currencySymbols, undecorate e.2.toList = [] := by decide +kernel
  have hcodes : ∀ c ∈ Gen.currencies, undecorate c.toList = [] := by decide +kernel
  rw [undecorate_formatCurrency _ d f accounting _ hs (hcodes code hc), decoration_only]

/-- grouping only inserts separators: removing them gives back the digits. -/
theorem grouping_only_inserts (s : Text) (h : ∀ c ∈ s, c ≠ ',') : (group3 s).filter (· ≠ ',') = s :=
  group3_filter s h

/-- the sign conventions: the text is `(`?`-`?digits`%`?`)`? with the minus sign exactly for negative
    values in the MINUS style that do not round to zero, and parentheses exactly for negative values in the
    two parentheses styles (the RED style shows the magnitude only). -/
theorem sign_style (d : Dec) (f : DecFmt) (percent : Bool) :
    formatDecimal d f percent =
      (if d.isNeg && decide (f.negStyle ≥ 2) then ['('] else []) ++
      (if (d.isNeg && decide (f.negStyle = 0)) && !(decimalDigits d f).2.2 then ['-'] else []) ++
      joinDigits (decimalDigits d f).1 (decimalDigits d f).2.1 f.thousands ++
      (if percent then ['%'] else []) ++
      (if d.isNeg && decide (f.negStyle ≥ 2) then [')'] else []) := by
  unfold formatDecimal
  simp only
  cases hneg : (d.isNeg && decide (f.negStyle ≥ 2)) <;> cases percent <;>
    cases ((d.isNeg && decide (f.negStyle = 0)) && !(decimalDigits d f).2.2) <;> simp

/-- **places exact** — with `p` places asked, exactly `p` decimals are shown, preceded by at least
    one integer digit. -/
theorem places_exact (d : Dec) (f : DecFmt) (hp : f.places < AUTO) :
    (decimalDigits d f).2.1.length = f.places ∧ 1 ≤ (decimalDigits d f).1.length :=
  ⟨(decimalDigits_fixed d f hp).1, (decimalDigits_fixed d f hp).2.1⟩

/-- **reads back** — the digits shown, read as one integer `m` (i.e. the number `m·10^-places`), are the
    value at 15 significant digits scaled by `10^places` and rounded half up: exact when nothing has to be
    dropped, otherwise within half a unit of the last place shown, ties away from zero. -/
theorem decimal_reads_back (d : Dec) (f : DecFmt) (hp : f.places < AUTO) :
    let r := roundSig d 15
    let m := scaleTo r f.places
    readNat ((decimalDigits d f).1 ++ (decimalDigits d f).2.1) = some m ∧
    ((0 ≤ r.exp + (f.places : Int) ∧ m = r.mant * 10 ^ (r.exp + (f.places : Int)).toNat) ∨
     (r.exp + (f.places : Int) < 0 ∧ Nearest r.mant (-(r.exp + (f.places : Int))).toNat m ∧
        2 * r.mant < 2 * (m * 10 ^ (-(r.exp + (f.places : Int))).toNat) + 10 ^ (-(r.exp + (f.places : Int))).toNat)) := by
  intro r m
  refine ⟨(decimalDigits_fixed d f hp).2.2.1, ?_⟩
  rcases scaleTo_spec r f.places with ⟨h1, h2⟩ | ⟨h1, h2, h3⟩
  · exact Or.inl ⟨h1, h2⟩
  · refine Or.inr ⟨h1, ?_, ?_⟩
    · show Nearest r.mant _ (scaleTo r f.places)
      rw [h2]; exact (dropHalfUp_nearest _ _).1
    · show 2 * r.mant < 2 * (scaleTo r f.places * _) + _
      rw [h2]; exact (dropHalfUp_nearest _ _).2 h3

/-- rounding to 15 significant digits (`sigfig`) is itself half-up and leaves ≤ 15-digit values alone. -/
theorem round_sig_nearest (d : Dec) (n : Nat) :
    roundSig d n = d ∨
    ∃ k, k ≠ 0 ∧ numDigits d.mant = n + k ∧ (roundSig d n).exp = d.exp + (k : Int) ∧ (roundSig d n).neg = d.neg ∧
      Nearest d.mant k (roundSig d n).mant := by
  rcases roundSig_spec d n with h | ⟨k, hk, hn, h⟩
  · exact Or.inl h
  · exact Or.inr ⟨k, hk, hn, by rw [h], by rw [h], by rw [h]; exact (dropHalfUp_nearest _ _).1⟩

/-- automatic places: the digits shown denote the value exactly (at 15 significant digits); an integer
    shows no decimal point. -/
theorem auto_reads_back (d : Dec) (f : DecFmt) (hp : f.places ≥ AUTO) :
    ∃ m, readNat ((decimalDigits d f).1 ++ (decimalDigits d f).2.1) = some m ∧
      ((d.isInteger = true ∧ (decimalDigits d f).2.1 = [] ∧ SameValue m 0 d.mant d.exp) ∨
       (d.isInteger = false ∧
          SameValue m (-((decimalDigits d f).2.1.length : Int)) (roundSig d 15).mant (roundSig d 15).exp)) :=
  decimalDigits_auto d f hp

/-! ## scientific -/

/-- **scientific notation reads back** — the text `d.ddd E±xx` that `f"{v:.{p}E}"` produces, parsed again (`readSci`: sign,
    the mantissa digits as one integer `m`, the exponent of its last digit `e − p`), denotes `m · 10^(e − p)` where: for
    zero `m = 0`; otherwise the mantissa is normalised (`10^p ≤ m < 10^(p+1)`: one non-zero leading digit and exactly `p`
    decimals); a value with at most `p+1` significant digits is shown exactly; a longer one is its leading `p+1` digits
    rounded to nearest, ties to even — the carry `9.995 → 1.00E+01` (rounding up to `10^(p+1)`) is renormalised without
    changing the value. -/
theorem scientific_mantissa (d : Dec) (p : Nat) :
    let m := (sciParts d p).1
    let e := (sciParts d p).2
    readSci (formatScientific d p) = some (d.neg, m, e - (p : Int)) ∧
    (d.mant = 0 → m = 0) ∧
    (d.mant ≠ 0 → 10 ^ p ≤ m ∧ m < 10 ^ (p + 1)) ∧
    (d.mant ≠ 0 → numDigits d.mant ≤ p + 1 → SameValue m (e - (p : Int)) d.mant d.exp) ∧
    (d.mant ≠ 0 → p + 1 < numDigits d.mant →
      let k := numDigits d.mant - (p + 1)
      SameValue m (e - (p : Int)) (dropHalfEven d.mant k) (d.exp + (k : Int)) ∧
      Nearest d.mant k (dropHalfEven d.mant k) ∧
      (2 * (d.mant % 10 ^ k) = 10 ^ k → dropHalfEven d.mant k % 2 = 0)) := by
  intro m e
  obtain ⟨h0, hnorm, hexact, hround⟩ := sciParts_spec d p
  have hlt : m < 10 ^ (p + 1) := by
    by_cases hm : d.mant = 0
    · have : m = 0 := by show (sciParts d p).1 = 0; rw [h0 hm]
      rw [this]; exact Nat.pow_pos (by omega)
    · exact (hnorm hm).2
  refine ⟨?_, fun hm => by show (sciParts d p).1 = 0; rw [h0 hm], hnorm, hexact, fun hm hgt => ?_⟩
  · rw [formatScientific_eq]; exact readSci_sciText d.neg p m e hlt
  · exact ⟨hround hm hgt, dropHalfEven_nearest _ _, fun ht => dropHalfEven_tie _ _ (by omega) ht⟩

/-! ## number bases -/

/-- **base reads back** — for every base 2 … 36 the numeral read back is the integer shown … -/
theorem base_reads_back (b n places : Nat) (hb : 2 ≤ b) (hb' : b ≤ 36) :
    parseBase b (zfill places (toBase b n)) = n ∧ places ≤ (zfill places (toBase b n)).length := by
  refine ⟨by rw [parseBase_zfill, parseBase_toBase b hb hb'], by rw [zfill_length]; omega⟩

/-- … zero padding is the only source of leading zeros … -/
theorem base_no_spurious_zero (b n : Nat) (hb : 2 ≤ b) (hb' : b ≤ 36) (hn : n ≠ 0) :
    ∃ c tl, toBase b n = c :: tl ∧ charVal c ≠ 0 := by
  rw [toBase_eq b hb]; exact toBaseSpec_head b hb hb' n hn

/-- … the integer shown is the value rounded to nearest (ties to even) … -/
theorem base_rounds_nearest (d : Dec) (h : d.exp < 0) :
    Nearest d.mant (-d.exp).toNat d.roundEvenNat := by
  unfold Dec.roundEvenNat
  have : ¬ d.exp ≥ 0 := by omega
  simp only [this, if_false]
  exact dropHalfEven_nearest _ _

/-- … and the whole `_format_base`: minus sign + padded magnitude, or the two's-complement pattern. -/
theorem base_format_cases (d : Dec) (f : BaseFmt) :
    formatBase d f =
      if d.roundEvenNat = 0 then zfill f.places ['0']
      else if (!f.useMinus && (f.base = 2 || f.base = 8 || f.base = 16)) && d.neg then twosComplement d.roundEvenNat f.base
      else (if d.neg then ['-'] else []) ++ zfill f.places (toBase f.base d.roundEvenNat) := by
  unfold formatBase
  simp only
  split
  · rfl
  · cases f.useMinus <;> cases d.neg <;> simp

/-- **two's complement** — for a negative integer `-a` in base 2, 8 or 16 the numeral read back is
    `2^bits − a` with `bits = max 32 (⌈log₂ a⌉ + 1)`; its top bit is set (`2^(bits−1) ≤ 2^bits − a`), so read as a
    signed `bits`-bit number it is `−a`; in base 2 exactly `bits` digits are shown. -/
theorem twos_complement_value (a base : Nat) (ha : 1 ≤ a) (hb : base = 2 ∨ base = 8 ∨ base = 16) :
    let bits := max 32 (clog2 a + 1)
    parseBase base (twosComplement a base) = 2 ^ bits - a ∧
    2 ^ (bits - 1) ≤ 2 ^ bits - a ∧ 32 ≤ bits ∧ a ≤ 2 ^ (bits - 1) ∧
    ((parseBase base (twosComplement a base) : Int) - 2 ^ bits = -(a : Int)) ∧
    (base = 2 → (twosComplement a base).length = bits) := by
  intro bits
  obtain ⟨h1, h2, h3⟩ := twosComplement_value a base ha hb
  obtain ⟨h32, hfit⟩ := twos_bits a
  refine ⟨h1, h2, h32, hfit, ?_, h3⟩
  rw [h1]
  have hle : a ≤ 2 ^ bits := by
    have : 2 ^ (bits - 1) ≤ 2 ^ bits := Nat.pow_le_pow_right (by omega) (by omega)
    exact Nat.le_trans hfit this
  rw [Nat.cast_sub hle]; push_cast; ring

/-! ## fractions -/

/-- **fixed denominators** — the numerator shown is a nearest integer to `den·frac` (as supplied: the
    float product the code rounds), ties to even: `|num − t| ≤ 1/2`. -/
theorem fraction_fixed_nearest (tneg : Bool) (tp tq : Nat) (hq : 0 < tq) :
    let a := (roundRatEven tneg tp tq).natAbs
    2 * (a * tq) ≤ 2 * tp + tq ∧ 2 * tp ≤ 2 * (a * tq) + tq := roundRatEven_nearest tneg tp tq hq

/-- what is displayed for whole part `w`, numerator `n` over `den`: the sign is kept (a negative value never
    loses its whole part), `den/den` is carried into the whole part, a zero numerator is not shown, and
    zero is `0`. -/
theorem fraction_parts_normal_form (whole numerator : Int) (den : Nat) :
    let neg := whole < 0 ∨ numerator < 0
    let carry := numerator.natAbs = den
    let w := if carry then whole.natAbs + 1 else whole.natAbs
    let n := if carry then 0 else numerator.natAbs
    fractionParts whole numerator den =
      if w > 0 then
        (if neg then ['-'] else []) ++ natStr w ++ (if n = 0 then [] else [' '] ++ natStr n ++ ['/'] ++ natStr den)
      else if n = 0 then ['0']
      else (if neg then ['-'] else []) ++ natStr n ++ ['/'] ++ natStr den := fractionParts_spec whole numerator den

/-- **up-to-N-digit fractions** — `Fraction(num, den).limit_denominator(10^N − 1)` as CPython 3.12 computes it, for
    every fraction in lowest terms (`den ≥ 1`) and every `N ≥ 1`: the loop always returns (no ZeroDivisionError, the fuel
    of the model suffices); the denominator returned lies in `1 … 10^N − 1`; the result is in lowest terms; and it is a
    best approximation: no fraction `u/w` with `1 ≤ w ≤ 10^N − 1` is strictly closer to `num/den`
    (`|num/den − p/q| ≤ |num/den − u/w|`, stated cross-multiplied by `den·q·w > 0`). -/
theorem fraction_ndigit (digits : Nat) (hd : 1 ≤ digits) (num den : Int) (hden : 0 < den) (hcop : Int.gcd num den = 1) :
    ∃ p q, limitDenominator ((10 : Int) ^ digits - 1) num den = .ok (p, q) ∧
      1 ≤ q ∧ q ≤ (10 : Int) ^ digits - 1 ∧ (∃ x y : Int, p * x + q * y = 1) ∧
      ∀ u w : Int, 1 ≤ w → w ≤ (10 : Int) ^ digits - 1 →
        ((num * q - den * p).natAbs : Int) * w ≤ ((num * w - den * u).natAbs : Int) * q := by
  have : (10 : Int) ≤ 10 ^ digits := by
    calc (10 : Int) = 10 ^ 1 := by norm_num
      _ ≤ 10 ^ digits := pow_le_pow_right₀ (by norm_num) hd
  exact limitDenominator_spec _ num den (by omega) hden hcop

/-- the same for any limit `M ≥ 1` (the loop of `limit_denominator` in general). -/
theorem limit_denominator_best (M num den : Int) (hM : 1 ≤ M) (hden : 0 < den) (hcop : Int.gcd num den = 1) :
    ∃ p q, limitDenominator M num den = .ok (p, q) ∧ 1 ≤ q ∧ q ≤ M ∧ (∃ x y : Int, p * x + q * y = 1) ∧
      ∀ u w : Int, 1 ≤ w → w ≤ M →
        ((num * q - den * p).natAbs : Int) * w ≤ ((num * w - den * u).natAbs : Int) * q :=
  limitDenominator_spec M num den hM hden hcop

/-- hence `_float_to_n_digit_fraction` displays something for every value. -/
theorem fraction_ndigit_total (digits : Nat) (hd : 1 ≤ digits) (num : Int) (den : Nat) (hden : 0 < den)
    (hcop : Int.gcd num den = 1) : ∃ t, fractionDigits digits num den = .ok t :=
  fractionDigits_returns digits hd num den hden hcop

/-! ## rating -/

theorem rating_stars (d : Dec) (h : d.isNeg = false) : (formatRating d).length = d.truncNat := by
  simp [formatRating, h]

/-! ## non-vacuity -/

example : formatDecimal ⟨true, 1234565, -3⟩ ⟨2, true, 0⟩ false = "-1,234.57".toList := by decide
example : formatDecimal ⟨false, 999995, -3⟩ ⟨2, true, 2⟩ false = "1,000.00".toList := by decide
example : formatDecimal ⟨true, 1, -3⟩ ⟨2, true, 0⟩ false = "0.00".toList := by decide
example : formatDecimal ⟨false, 1234, -9⟩ ⟨253, false, 0⟩ false = "0.000001234".toList := by decide
example : formatDecimal ⟨true, 5, -1⟩ ⟨1, false, 3⟩ true = "(0.5%)".toList := by decide
example : undecorate "£\t(1,234.50)".toList = "1234.50".toList := by decide
example : formatCurrency Gen.currencySymbols ⟨true, 12345, -1⟩ ⟨2, true, 0⟩ true "GBP".toList = "£\t(1,234.50)".toList := by
  decide
example : formatBase ⟨true, 10, 0⟩ ⟨2, 0, false⟩ = "11111111111111111111111111110110".toList := by decide
example : formatBase ⟨true, 4, -1⟩ ⟨2, 0, true⟩ = "0".toList ∧ formatBase ⟨false, 255, 0⟩ ⟨16, 4, true⟩ = "00FF".toList := by
  decide
example : fractionParts (-2) (-1) 2 = "-2 1/2".toList ∧ fractionParts 2 4 4 = "3".toList ∧ fractionParts 0 (-2) 2 = "-1".toList := by
  decide
example : fractionDigits 1 7074029114692207 2251799813685248 = .ok "3 1/7".toList := by decide
example : formatScientific ⟨false, 2675, -3⟩ 2 = "2.68E+00".toList ∧ formatScientific ⟨false, 25, -1⟩ 0 = "2E+00".toList := by
  decide
example : formatScientific ⟨true, 9995, -3⟩ 2 = "-1.00E+01".toList ∧ readSci "-1.00E+01".toList = some (true, 100, -1) ∧
    formatScientific ⟨false, 0, 0⟩ 3 = "0.000E+00".toList ∧ readSci "1.5E-07".toList = some (false, 15, -8) := by decide

/-! ## custom number patterns (`_decode_number_format`, `_expand_quotes`, `Cell._custom_format`)

Vocabulary (Lemmas/CustomFmt.lean): `intDigits body` / `fracDigits body` — the digits before / after the decimal point
of the number text; `padRight n s` — `s` completed with zeros to `n` places; `literalBefore a m` / `literalAfter a m` —
the pattern text before / after the spec with quotes expanded (functions of the pattern alone);
`WellFormed zeros a` — the spec found in the pattern starts with a dot or holds at most one, and a scientific spec has
a decimal part of at least four characters.  The value is the float the code formats (`value * scale_factor`, and
that times `100.0` for a `%` pattern), supplied by the harness as `Decimal(repr(·))`. -/

section Custom
open NumbersModel.CustomFmt

theorem format_types_as_modelled :
    (Gen.formatTypes.map fun e => (e.1, FormatType.ofCode e.2)) =
      [("BOOLEAN", .boolean), ("DECIMAL", .decimal), ("CURRENCY", .currency), ("PERCENT", .percent),
       ("SCIENTIFIC", .scientific), ("TEXT", .other), ("DATE", .other), ("FRACTION", .fraction), ("CHECKBOX", .checkbox),
       ("RATING", .rating), ("DURATION", .other), ("BASE", .base), ("CUSTOM_NUMBER", .customNumber),
       ("CUSTOM_TEXT", .customText), ("CUSTOM_DATE", .customDate), ("CUSTOM_CURRENCY", .other)] ∧
    Gen.paddingTypes = [("NONE", 0), ("ZEROS", 1), ("SPACES", 2)] := by decide

/-- which product is shown: `value·scale_factor`, times 100 exactly when the pattern holds a `%` and the scale is 1. -/
theorem custom_percent_scale (a : Archive) (v v100 : FloatVal) :
    chosenValue a v v100 = if a.formatString.contains '%' ∧ a.scaleIsOne = true then v100 else v := by
  unfold chosenValue
  cases a.formatString.contains '%' <;> cases a.scaleIsOne <;> simp

/-- **custom digits read back** — with the spec found at `m` (not scientific) and split into `ip . dp`, the text shown is
    literal text, number text, literal text; in the number text the digits before the point read as `iv`, the digits
    after it (at most as many as the pattern has decimal tokens; completed with zeros) as `fv`, and
    `iv·10^nd + fv` is `|value|·10^nd` rounded half up: exact when nothing has to be dropped, otherwise within half a
    unit of the last place the pattern shows, ties away from zero. -/
theorem custom_digits_read_back (zeros : List Nat) (a : Archive) (v v100 : FloatVal) (m : SpecMatch) (ip dp : Text)
    (hm : findSpec zeros (maskQuoted (patternOf a) false) 0 = some m) (hs : splitSpec m.spec = .ok (ip, dp))
    (hsci : m.sci = false) :
    let r := (chosenValue a v v100).repr
    let nd := dp.length
    ∃ body iv fv,
      decodeNumberFormat zeros a v v100 = .ok (literalBefore a m ++ body ++ literalAfter a m) ∧
      readDigits (intDigits body) 0 = some iv ∧ (fracDigits body).length ≤ nd ∧
      readDigits (padRight nd (fracDigits body)) 0 = some fv ∧ fv < 10 ^ nd ∧
      iv * 10 ^ nd + fv = scaleTo r nd ∧
      ((0 ≤ r.exp + (nd : Int) ∧ scaleTo r nd = r.mant * 10 ^ (r.exp + (nd : Int)).toNat) ∨
       (r.exp + (nd : Int) < 0 ∧ Nearest r.mant (-(r.exp + (nd : Int))).toNat (scaleTo r nd) ∧
          2 * r.mant < 2 * (scaleTo r nd * 10 ^ (-(r.exp + (nd : Int))).toNat) + 10 ^ (-(r.exp + (nd : Int))).toNat)) := by
  intro r nd
  obtain ⟨body, hb, hd⟩ := decode_structure zeros a v v100 m ip dp hm hs hsci
  obtain ⟨iv, fv, h1, h2, h3, h4, h5⟩ := numberBody_reads_back a ip dp r body hb
  refine ⟨body, iv, fv, hd, h1, h2, h3, h4, h5, ?_⟩
  rcases scaleTo_spec r nd with ⟨h1, h2⟩ | ⟨h1, h2, h3⟩
  · exact Or.inl ⟨h1, h2⟩
  · refine Or.inr ⟨h1, ?_, ?_⟩
    · rw [h2]; exact (dropHalfUp_nearest _ _).1
    · rw [h2]; exact (dropHalfUp_nearest _ _).2 h3

/-- **custom sign** — the number text holds one minus sign exactly when the value is negative and is not displayed as
    zero (its rounding to the decimals the pattern shows is not zero), and none otherwise: `-0.23` under `#.#` keeps its
    sign, `-0.004` under `0.00` shows none. -/
theorem custom_sign (a : Archive) (ip dp : Text) (value : Dec) (body : Text) (h : numberBody a ip dp value = .ok body) :
    body.filter (· == '-') = if value.isNeg = true ∧ scaleTo value dp.length ≠ 0 then ['-'] else [] :=
  numberBody_sign a ip dp value body h

/-- every character of the number text is a digit, a grouping comma, the minus sign, a padding space or the decimal
    point (so none is a quote), and the number text is never empty. -/
theorem custom_number_text_alphabet (a : Archive) (ip dp : Text) (value : Dec) (body : Text)
    (h : numberBody a ip dp value = .ok body) :
    body ≠ [] ∧ ∀ c ∈ body, isDigit c = true ∨ c = ',' ∨ c = '-' ∨ c = ' ' ∨ c = '.' := by
  obtain ⟨hne, hc⟩ := numberBody_chars a ip dp value body h
  refine ⟨hne, fun c hcm => ?_⟩
  rcases hc c hcm with (h | h | h | h) | h
  · exact Or.inl h
  · exact Or.inr (Or.inl h)
  · exact Or.inr (Or.inr (Or.inl h))
  · exact Or.inr (Or.inr (Or.inr (Or.inl h)))
  · exact Or.inr (Or.inr (Or.inr (Or.inr h)))

/-- **custom literals pass through** — (1) whatever the pattern, the text before and after the number depends on the
    pattern only (`literalBefore`, `literalAfter` do not mention the value) — see `custom_digits_read_back`; (2) for the
    pattern `'lit1'` spec `'lit2'` — quoted texts of any characters but the quote, digits and `# 0 . ,` included — the text
    shown is exactly `lit1`, the number text, `lit2`: the spec is never looked for, nor replaced, inside quoted text; (3) a
    doubled quote is one literal quote, and a quote-free text is copied. -/
theorem custom_literals_pass_through (zeros : List Nat) (a : Archive) (v v100 : FloatVal) (lit1 run lit2 ip dp : Text)
    (hfs : a.formatString = ('\'' :: lit1) ++ ('\'' :: (run ++ (('\'' :: lit2) ++ ['\'']))))
    (hcur : a.currencyCode = []) (h1 : ∀ c ∈ lit1, c ≠ '\'') (h2 : ∀ c ∈ lit2, c ≠ '\'') (hn1 : lit1 ≠ []) (hn2 : lit2 ≠ [])
    (hne : run ≠ []) (hr : ∀ c ∈ run, isSpecChar c = true) (hs : splitSpec run = .ok (ip, dp)) :
    (∃ body, numberBody a ip dp (chosenValue a v v100).repr = .ok body ∧
      decodeNumberFormat zeros a v v100 = .ok (lit1 ++ body ++ lit2)) ∧
    (∀ (t : Text) (b : Bool), expandQuotes ('\'' :: '\'' :: t) b = '\'' :: expandQuotes t b) ∧
    (∀ (t : Text) (b : Bool), (∀ c ∈ t, c ≠ '\'') → expandQuotes t b = t) :=
  ⟨decode_quoted_literals zeros a v v100 lit1 run lit2 ip dp hfs hcur h1 h2 hn1 hn2 hne hr hs,
   fun t b => by simp [expandQuotes], fun t b h => expandQuotes_noquote t b h⟩

/-- **custom padding only pads** — two renderings of the same value under any two archives / integer specs whose
    decimal specs have the same length (different padding kinds, widths, separators) show the same number: the integer
    digits are the numeral of the same integer preceded by zeros only (or nothing, when it is zero), and the fraction
    digits completed with zeros are the same `nd` decimals. -/
theorem custom_padding_only_pads (a a' : Archive) (ip ip' dp dp' : Text) (value : Dec) (body body' : Text)
    (hl : dp.length = dp'.length) (h : numberBody a ip dp value = .ok body) (h' : numberBody a' ip' dp' value = .ok body') :
    let n := scaleTo value dp.length / 10 ^ dp.length
    ((intDigits body = [] ∧ n = 0) ∨ ∃ k, intDigits body = List.replicate k '0' ++ natStr n) ∧
    ((intDigits body' = [] ∧ n = 0) ∨ ∃ k, intDigits body' = List.replicate k '0' ++ natStr n) ∧
    readDigits (intDigits body) 0 = readDigits (intDigits body') 0 ∧
    padRight dp.length (fracDigits body) = padRight dp.length (fracDigits body') := by
  intro n
  obtain ⟨h1, h2⟩ := numberBody_digits a ip dp value body h
  obtain ⟨h1', h2'⟩ := numberBody_digits a' ip' dp' value body' h'
  rw [← hl] at h1' h2'
  obtain ⟨iv, fv, r1, _, _, _, r5⟩ := numberBody_reads_back a ip dp value body h
  obtain ⟨iv', fv', r1', _, _, r4', r5'⟩ := numberBody_reads_back a' ip' dp' value body' h'
  refine ⟨h1, h1', ?_, by rw [h2, h2']⟩
  have e1 : readDigits (intDigits body) 0 = some n := by
    rcases h1 with ⟨e, z⟩ | ⟨k, e⟩
    · have hn : n = 0 := z
      rw [e, hn]; rfl
    · rw [e, readDigits_zeros]; simpa using readDigits_natStr n
  have e2 : readDigits (intDigits body') 0 = some n := by
    rcases h1' with ⟨e, z⟩ | ⟨k, e⟩
    · have hn : n = 0 := z
      rw [e, hn]; rfl
    · rw [e, readDigits_zeros]; simpa using readDigits_natStr n
  rw [e1, e2]

/-- **totality** — `_decode_number_format` raises nothing for a well-formed archive, whatever the value … -/
theorem custom_total (zeros : List Nat) (a : Archive) (v v100 : FloatVal) (h : WellFormed zeros a) :
    ∃ t, decodeNumberFormat zeros a v v100 = .ok t := decode_total zeros a v v100 h

/-- … every archive `add_custom_decimal_format_archive` builds is well-formed (any padding kinds, any numbers of integer
    and decimal tokens, separator on or off) … -/
theorem custom_builder_well_formed (zeros : List Nat) (ifmt dfmt : PaddingType) (ni nd : Nat) (thousands : Bool) :
    WellFormed zeros (buildArchive ifmt dfmt ni nd thousands) := build_wellFormed zeros ifmt dfmt ni nd thousands

/-- … hence every format the API can create renders every value. -/
theorem custom_api_total (zeros : List Nat) (ifmt dfmt : PaddingType) (ni nd : Nat) (thousands : Bool) (v v100 : FloatVal) :
    ∃ t, decodeNumberFormat zeros (buildArchive ifmt dfmt ni nd thousands) v v100 = .ok t :=
  custom_total zeros _ v v100 (custom_builder_well_formed zeros ifmt dfmt ni nd thousands)

/-- scientific custom spec: literal text around `f"{value:.pE}"` with `p` = the number of decimal tokens. -/
theorem custom_scientific (zeros : List Nat) (a : Archive) (v v100 : FloatVal) (m : SpecMatch) (ip dp : Text)
    (hm : findSpec zeros (maskQuoted (patternOf a) false) 0 = some m) (hs : splitSpec m.spec = .ok (ip, dp))
    (hsci : m.sci = true) (h4 : 4 ≤ dp.length) :
    decodeNumberFormat zeros a v v100 =
      .ok (literalBefore a m ++ formatScientific (chosenValue a v v100).exact (dp.length - 4) ++ literalAfter a m) :=
  decode_structure_sci zeros a v v100 m ip dp hm hs hsci h4

/-- **dispatch** — `Cell.formatted_value` raises only a KeyError and only for a custom uid the document's custom format
    map does not hold; a number cell whose number format carries a custom uid mapped to a custom number archive (no
    fraction replacement) is rendered by `_decode_number_format`, durations and dates come first. -/
theorem custom_dispatch (c : CellFormats) :
    (∀ e, formattedValueRenderer c = .error e →
        e = .KeyError ∧ ∃ f, selectFormat c = some f ∧ f.customUid = some none) ∧
    (c.duration = false → c.date = false → c.isText = false → c.isBool = false → c.currencyFmt = none →
      ∀ ft, c.numFmt = some ⟨ft, some (some (.customNumber, false))⟩ →
        formattedValueRenderer c = .ok .decodeNumberFormat) := by
  constructor
  · intro e h
    unfold formattedValueRenderer at h
    split at h
    · cases h
    · split at h
      · cases h
      · split at h
        · exact customFormatRenderer_error c e h
        · cases h
  · intro hd hdt ht hb hc ft hn
    simp [formattedValueRenderer, customFormatRenderer, selectFormat, hd, hdt, ht, hb, hc, hn]

/-! ### non-vacuity (custom) -/

private def arch (fs : String) (thou : Bool) (nsi nsd : Nat) : Archive :=
  ⟨fs.toList, true, [], thou, nsi, nsd, false, false, 0, 0, false, 0, 0, 0, false⟩
private def fv (neg : Bool) (m : Nat) (e : Int) : FloatVal := ⟨⟨neg, m, e⟩, ⟨neg, m, e⟩⟩

example : decodeNumberFormat [48] (arch "0,000.00" true 4 2) (fv false 9995 (-4)) (fv false 9995 (-2)) = .ok "0,001.00".toList := by
  decide
example : decodeNumberFormat [48] (arch "#.##" false 0 0) (fv true 23 (-2)) (fv true 23 0) = .ok "-0.23".toList := by decide
example : decodeNumberFormat [48] (arch "0.00" false 1 2) (fv true 4 (-3)) (fv true 4 (-1)) = .ok "0.00".toList := by decide
example : decodeNumberFormat [48] (arch "'No. '0' of 10'" false 1 0) (fv false 25 (-1)) (fv false 250 0) = .ok "No. 3 of 10".toList := by
  decide
example : decodeNumberFormat [48] (arch "00.0%" false 2 1) (fv false 285 (-3)) (fv false 28499999999999996 (-15)) =
    .ok "28.5%".toList := by decide
example : decodeNumberFormat [48] (arch "0.0.0" false 1 1) (fv false 1 0) (fv false 100 0) = .error .ValueError := by decide
example : buildArchive .zeros .spaces 7 2 true =
    ⟨"0,000,000.00".toList, true, [], true, 7, 0, false, true, 2, 3, true, 7, 0, 2, false⟩ := by decide
example : WellFormed [48] (arch "'1.5x '#.##" false 0 0) := by
  intro m hm
  have : findSpec [48] (maskQuoted (patternOf (arch "'1.5x '#.##" false 0 0)) false) 0 = some ⟨7, "#.##".toList, false⟩ := by decide
  rw [this] at hm; injection hm with hm; subst hm
  exact ⟨Or.inr (by decide), by simp⟩
example : formattedValueRenderer ⟨false, false, false, false, none, none, none, some ⟨.customNumber, some none⟩⟩ = .error .KeyError := by
  decide

end Custom

end NumbersModel.Props.C13

/-! ## the format-selection glue (`Model/FormatDispatch.lean`): `Formatting.__post_init__`, `Table.set_cell_formatting` /
`_set_cell_data_format`, `format_archive`, `control_cell_archive`, `Cell._set_formatting`, `Cell.formatted_value` /
`_custom_format` — which formatter is called, with which arguments, for which cell kind and format record.

`formatterOf t f places` (Lemmas/FormatDispatch.lean) is the formatter of format type `t` with its arguments taken unchanged
from the `Formatting` object `f`; `setThenDisplay env c name args` is `set_cell_formatting(name, **args)` followed by
`formatted_value` on the cell `c`. -/
namespace NumbersModel.Props.C13
section Glue
open NumbersModel NumbersModel.Digits NumbersModel.NumFmt NumbersModel.FormatDispatch

/-- the enums and tables the dispatch is driven by are those of the live modules (regenerated on every run): the members and
    integer values of `FormattingType` / `ControlFormattingType`, the interaction types `control_cell_archive` writes, the
    class names of `FORMATTING_ALLOWED_CELLS`, and the defaults of the `Formatting` dataclass the theorems below spell out. -/
theorem dispatch_tables_as_modelled :
    Gen.formattingTypes = FType.all.map (fun t => (t.name, t.code)) ∧
    Gen.controlFormattingTypes = CType.all.map (fun c => (c.toFType.name, c.toFType.code)) ∧
    (CellKind.all.map (·.className)).all (Gen.cellClassNames.contains ·) = true ∧
    (Gen.formattingAllowedCells.all fun e => e.2.all (Gen.cellClassNames.contains ·)) = true ∧
    Gen.formattingAllowedCells.map (·.1) = ["base", "currency", "datetime", "fraction", "number", "percentage", "popup",
      "rating", "scientific", "slider", "stepper", "tickbox"] ∧
    (Gen.formattingAllowedCells.all fun e => (FType.all.filter (· ≠ .text)).any (·.lower == e.1)) = true ∧
    [("STEPPER", INTERACTION_STEPPER), ("SLIDER", INTERACTION_SLIDER), ("RATING", INTERACTION_RATING),
      ("POPUP", INTERACTION_POPUP), ("TOGGLE", INTERACTION_TOGGLE)].all (Gen.cellInteractionTypes.contains ·) = true ∧
    Gen.formattingActionCells = ["tickbox", "rating", "popup", "slider", "stepper"] ∧
    defaultControlFormat = .control .number ∧ Gen.fdType = FType.number.code ∧
    Gen.fdCurrencyCode = "GBP" ∧ Gen.fdDecimalPlaces = none ∧ Gen.fdBase = 10 ∧ Gen.fdBasePlaces = 0 ∧
    Gen.fdBaseUseMinusSign = true ∧ Gen.fdFractionAccuracy = 4294967293 ∧ Gen.fdNegativeStyle = 0 ∧
    Gen.fdShowThousandsSeparator = false ∧ Gen.fdUseAccountingStyle = false ∧ Gen.fdAllowNone = false ∧
    Gen.fdPopupValues = ["Item 1"] ∧ Gen.fdIncrement = (false, 10, -1) ∧ Gen.fdMaximum = (false, 1000, -1) ∧
    Gen.fdMinimum = (false, 10, -1) ∧ DateFmt.validFormat Gen.fdDateTimeFormat.toList = true := by decide

/-- the names `set_cell_formatting` accepts are exactly the lower-case names of the format types other than TEXT (a name that
    is no key of `FORMATTING_ALLOWED_CELLS`, in whatever case, is the `TypeError` "unsuported cell format type"). -/
theorem format_names :
    (FType.all.all fun t =>
      match resolveType t.lower.toList with
      | .ok (t', _) => t' == t && t != .text
      | .error e => t == .text && e == .TypeError) = true ∧
    resolveType "NUMBER".toList = .error .TypeError ∧ resolveType [] = .error .TypeError := by decide

/-- **dispatch_total** — for every cell (whatever it carried before), every name and every combination of arguments:
    `set_cell_formatting` either raises one of `TypeError` / `IndexError` / `ValueError`, or stores an archive on which the
    dispatch of `formatted_value` selects exactly one formatter (`selectFormatter` is a function and it cannot fail: its only
    exception, the `KeyError` of a custom uid missing from the document's list, needs a `custom_uid`, which
    `format_archive` never writes). -/
theorem dispatch_total (c : Cell) (name : Text) (a : Args) :
    (∀ e, setCellDataFormat c name a = .error e → e = .TypeError ∨ e = .IndexError ∨ e = .ValueError) ∧
    (∀ c', setCellDataFormat c name a = .ok c' → ∃ fm, selectFormatter c' = .ok fm) :=
  ⟨fun e h => set_error_class c name a e h, fun c' h => set_then_select_total c name a c' h⟩

/-- **`Formatting.__post_init__`** — when `Formatting(type=t, **args)` is accepted: no unknown keyword was passed; every
    argument not passed has its documented default (`GBP`, base 10, 0 places, minus sign, up to three digits, no separator,
    no accounting style, `dd MMM yyyy HH:mm`); `use_accounting_style` overrides `negative_style`; the decimal places are the
    ones passed, else 2 for a currency and automatic (253) otherwise — where "currency" / "base" mean the number format the
    value is displayed in (`nt`: the format itself, or a slider's / stepper's `control_format`); a date format holds only
    documented directives, a currency code is in `CURRENCIES`, a base is in 2 … 36 and two's complement is only asked for in
    base 2, 8 or 16. -/
theorem formatting_defaults (t : FType) (a : Args) (f : Formatting) (p : Int) (h : Formatting.make t a = .ok (f, p)) :
    let nt := (Formatting.init t a).numberType
    a.unknownKeyword = false ∧ f.type = t ∧
    f.showThousands = a.showThousands.getD false ∧ f.useAccounting = a.useAccounting.getD false ∧
    f.currencyCode = a.currencyCode.getD "GBP".toList ∧ f.base = a.base.getD 10 ∧ f.basePlaces = a.basePlaces.getD 0 ∧
    f.baseUseMinus = a.baseUseMinus.getD true ∧ f.fractionAccuracy = a.fractionAccuracy.getD 4294967293 ∧
    f.dateTimeFormat = a.dateTimeFormat.getD "dd MMM yyyy HH:mm".toList ∧
    f.negativeStyle = (if a.useAccounting.getD false = true ∧ a.negativeStyle.getD 0 ≠ 0 then 0 else a.negativeStyle.getD 0) ∧
    p = (match a.decimalPlaces with
         | some (some q) => q
         | _ => if nt = .currency then 2 else 253) ∧
    (t = .datetime → DateFmt.validFormat f.dateTimeFormat = true) ∧
    (nt = .currency → (Gen.currencies.any fun c => c.toList == f.currencyCode) = true) ∧
    (nt = .base → 2 ≤ f.base ∧ f.base ≤ 36 ∧ (f.baseUseMinus = true ∨ f.base = 2 ∨ f.base = 8 ∨ f.base = 16)) :=
  formatting_post_init t a f p h

/-- **set_then_display** — for each built-in number format: what `set_cell_formatting(name, **args)` stores on a number cell is
    what `formatted_value` dispatches on. The text (or the exception) is that of the formatter of this format type applied to
    the cell's value with the arguments of the `Formatting` object, unchanged. -/
theorem set_then_display (env : Env) (c : Cell) (hk : c.kind = .number) (hd : c.durationFmt = none) (a : Args) (t : FType)
    (ht : t = .base ∨ t = .currency ∨ t = .fraction ∨ t = .number ∨ t = .percentage ∨ t = .scientific ∨ t = .rating) :
    setThenDisplay env c t.lower.toList a =
      (Formatting.make t a >>= fun r => formatterOf t r.1 r.2) >>= applyFormatter env c := by
  rw [setThenDisplay_eq]
  rcases ht with rfl | rfl | rfl | rfl | rfl | rfl | rfl
  · rw [show FType.base.lower = "base" from rfl, set_base c hk hd a]
  · rw [show FType.currency.lower = "currency" from rfl, set_currency c hk hd a]
  · rw [show FType.fraction.lower = "fraction" from rfl, set_fraction c hk hd a]
  · rw [show FType.number.lower = "number" from rfl, set_number c hk hd a]
  · rw [show FType.percentage.lower = "percentage" from rfl, set_percentage c hk hd a]
  · rw [show FType.scientific.lower = "scientific" from rfl, set_scientific c hk hd a]
  · rw [show FType.rating.lower = "rating" from rfl, set_rating c hk hd a]

/-- … a tickbox on a bool cell displays the checkbox glyph of the value … -/
theorem set_then_display_tickbox (env : Env) (c : Cell) (hk : c.kind = .bool) (hd : c.durationFmt = none) (a : Args) :
    setThenDisplay env c "tickbox".toList a =
      (Formatting.make .tickbox a >>= fun _ =>
        pure (if c.value.truthy then Gen.checkboxTrueValue.toList else Gen.checkboxFalseValue.toList)) := by
  rw [setThenDisplay_eq, set_tickbox c hk hd a]
  cases Formatting.make .tickbox a <;> rfl

/-- … a popup (text or number cell) keeps displaying `str(value)`: the archive stored for it is not one `_custom_format`
    renders (a TEXT archive; on a number cell the BASE archive the key `True` selects) … -/
theorem set_then_display_popup (env : Env) (c : Cell) (hk : c.kind = .number ∨ c.kind = .text) (hd : c.durationFmt = none)
    (a : Args) (txt : Text) (h : setThenDisplay env c "popup".toList a = .ok txt) : txt = c.strValue := by
  rw [setThenDisplay_eq, set_popup c hk hd a] at h
  cases hm : Formatting.make .popup a with
  | error e => simp [hm, bind, Except.bind] at h
  | ok r =>
    simp only [hm, bind, Except.bind] at h
    cases hp : popupCheck c r.1 with
    | error e => simp [hp] at h
    | ok u =>
      simp only [hp] at h
      cases hf : formatArchive (if c.kind = CellKind.text then FType.text.code else 1) r.1 r.2 with
      | error e => simp [hf] at h
      | ok v =>
        simp only [hf, pure, Except.pure, applyFormatter] at h
        injection h with h
        exact h.symm

/-- … and **the control formats display the value under their number format**: a slider or stepper with
    `control_format=ct` displays exactly what the number format `ct` itself displays for the same arguments — same
    validation (an unknown currency code or a base outside 2 … 36 is rejected), same defaults (a currency shows two places),
    same formatter with the same arguments — and fails with the same exception when it fails. -/
theorem control_displays_number_format (env : Env) (c : Cell) (hk : c.kind = .number) (hd : c.durationFmt = none) (a : Args)
    (t : FType) (ht : t = .slider ∨ t = .stepper) (ct : CType) :
    setThenDisplay env c t.lower.toList { a with controlFormat := some (.control ct) } =
      setThenDisplay env c ct.toFType.lower.toList a := control_display_eq env c hk hd a t ht ct

/-- without `control_format` a slider / stepper displays the value as the decimal format does; a `control_format` that is no
    `ControlFormattingType` is rejected. -/
theorem control_default_and_invalid (env : Env) (c : Cell) (hk : c.kind = .number) (hd : c.durationFmt = none) (a : Args) :
    (a.controlFormat = none →
      setThenDisplay env c "slider".toList a =
        (Formatting.make .slider a >>= fun r => formatterOf .number r.1 r.2) >>= applyFormatter env c) ∧
    (a.controlFormat = none →
      setThenDisplay env c "stepper".toList a =
        (Formatting.make .stepper a >>= fun r => formatterOf .number r.1 r.2) >>= applyFormatter env c) ∧
    (a.controlFormat = some .invalid → ∀ c', setCellDataFormat c "slider".toList a ≠ .ok c' ∧
      setCellDataFormat c "stepper".toList a ≠ .ok c') := by
  refine ⟨fun h => ?_, fun h => ?_, fun h c' => ⟨set_slider_invalid c a h c', set_stepper_invalid c a h c'⟩⟩
  · rw [setThenDisplay_eq, set_slider_default c hk hd a h]
  · rw [setThenDisplay_eq, set_stepper_default c hk hd a h]

/-- the control archive stored with the cell is of the documented kind and carries the arguments. -/
theorem control_archive_kind (t : FType) (f : Formatting) :
    (t = .tickbox → controlCellArchive t f = { interaction := INTERACTION_TOGGLE }) ∧
    (t = .rating → (controlCellArchive t f).interaction = INTERACTION_RATING) ∧
    (t = .slider → controlCellArchive t f = { interaction := INTERACTION_SLIDER, range := some (f.minimum, f.maximum, f.increment) }) ∧
    (t = .stepper → controlCellArchive t f = { interaction := INTERACTION_STEPPER, range := some (f.minimum, f.maximum, f.increment) }) ∧
    (t = .popup → controlCellArchive t f =
      { interaction := INTERACTION_POPUP, popup := some (popupEntries f.popupValues, !f.allowNone) }) := by
  refine ⟨?_, ?_, ?_, ?_, ?_⟩ <;> intro h <;> subst h <;> simp [controlCellArchive]

/-- **display_reads_back** (decimal family) — the C13 clauses stated once over `set_cell_formatting` + `formatted_value`: when a
    number cell holding `v` is given the `number` (or `percentage`) format with whatever arguments and displays `txt`, then
    `txt` is `_format_decimal` of the value (times 100 for a percentage) under the decimal places / separator / negative style
    the `Formatting` object holds; with everything but digits and the point removed it is exactly the plain digits
    (`decoration_only`); and with `dp` (not automatic) places it shows exactly `dp` decimals which, read back with the integer
    digits as one integer, are the value at 15 significant digits scaled by `10^dp` and rounded half up
    (`decimal_reads_back`, `places_exact`). -/
theorem display_reads_back (env : Env) (c : Cell) (hk : c.kind = .number) (hd : c.durationFmt = none) (v : NumVal)
    (hv : c.d128 = some v) (a : Args) (pct : Bool) (txt : Text)
    (h : setThenDisplay env c (if pct then "percentage" else "number").toList a = .ok txt) :
    ∃ f p dp ns, Formatting.make (if pct then .percentage else .number) a = .ok (f, p) ∧ u32 p = .ok dp ∧
      u32 f.negativeStyle = .ok ns ∧
      let d := if pct then v.times100 else v.repr
      let fmt : DecFmt := ⟨dp, f.showThousands, ns⟩
      txt = formatDecimal d fmt pct ∧
      undecorate txt = plainDigits (decimalDigits d fmt).1 (decimalDigits d fmt).2.1 ∧
      (dp < AUTO → (decimalDigits d fmt).2.1.length = dp ∧
        readNat ((decimalDigits d fmt).1 ++ (decimalDigits d fmt).2.1) = some (scaleTo (roundSig d 15) dp)) := by
  cases pct
  · have h' := h
    simp only [Bool.false_eq_true, if_false] at h' ⊢
    rw [show "number" = FType.number.lower from rfl, set_then_display env c hk hd a .number (by simp)] at h'
    cases hm : Formatting.make .number a with
    | error e => simp [hm, bind, Except.bind] at h'
    | ok r =>
      obtain ⟨f, p⟩ := r
      simp only [hm, bind, Except.bind, formatterOf] at h'
      cases h1 : u32 p with
      | error e => simp [h1] at h'
      | ok dp =>
        cases h2 : u32 f.negativeStyle with
        | error e => simp [h1, h2] at h'
        | ok ns =>
          simp only [h1, h2, pure, Except.pure, applyFormatter, hv] at h'
          injection h' with h'
          subst h'
          refine ⟨f, p, dp, ns, (by first | rfl | assumption), (by first | rfl | assumption), (by first | rfl | assumption), rfl, decoration_only _ _ _, fun hp => ?_⟩
          exact ⟨(places_exact _ ⟨dp, f.showThousands, ns⟩ hp).1, (decimal_reads_back _ ⟨dp, f.showThousands, ns⟩ hp).1⟩
  · have h' := h
    simp only [if_true] at h' ⊢
    rw [show "percentage" = FType.percentage.lower from rfl, set_then_display env c hk hd a .percentage (by simp)] at h'
    cases hm : Formatting.make .percentage a with
    | error e => simp [hm, bind, Except.bind] at h'
    | ok r =>
      obtain ⟨f, p⟩ := r
      simp only [hm, bind, Except.bind, formatterOf] at h'
      cases h1 : u32 p with
      | error e => simp [h1] at h'
      | ok dp =>
        cases h2 : u32 f.negativeStyle with
        | error e => simp [h1, h2] at h'
        | ok ns =>
          simp only [h1, h2, pure, Except.pure, applyFormatter, hv] at h'
          injection h' with h'
          subst h'
          refine ⟨f, p, dp, ns, (by first | rfl | assumption), (by first | rfl | assumption), (by first | rfl | assumption), rfl, decoration_only _ _ _, fun hp => ?_⟩
          exact ⟨(places_exact _ ⟨dp, f.showThousands, ns⟩ hp).1, (decimal_reads_back _ ⟨dp, f.showThousands, ns⟩ hp).1⟩

/-- **display_reads_back** (number base) — a number cell given the `base` format displays `_format_base` of its value under the
    base / places / sign convention passed (defaults: base 10, no padding, minus sign), the base is in 2 … 36, so the numeral
    read back is the value rounded to an integer (`base_reads_back`, `base_format_cases`). -/
theorem display_reads_back_base (env : Env) (c : Cell) (hk : c.kind = .number) (hd : c.durationFmt = none) (v : NumVal)
    (hv : c.d128 = some v) (a : Args) (txt : Text) (h : setThenDisplay env c "base".toList a = .ok txt) :
    ∃ f p b bp, Formatting.make .base a = .ok (f, p) ∧ u32 f.base = .ok b ∧ u32 f.basePlaces = .ok bp ∧
      2 ≤ b ∧ b ≤ 36 ∧ formatBaseChecked v.repr ⟨b, bp, f.baseUseMinus⟩ = .ok txt ∧
      txt = formatBase v.repr ⟨b, bp, f.baseUseMinus⟩ ∧
      parseBase b (zfill bp (toBase b v.repr.roundEvenNat)) = v.repr.roundEvenNat := by
  rw [show "base" = FType.base.lower from rfl, set_then_display env c hk hd a .base (by simp)] at h
  cases hm : Formatting.make .base a with
  | error e => simp [hm, bind, Except.bind] at h
  | ok r =>
    obtain ⟨f, p⟩ := r
    have hb := (formatting_post_init .base a f p hm).2.2.2.2.2.2.2.2.2.2.2.2.2.2 (by simp [Formatting.init, Formatting.numberType])
    simp only [hm, bind, Except.bind, formatterOf] at h
    cases h1 : u32 f.base with
    | error e => simp [h1] at h
    | ok b =>
      cases h2 : u32 f.basePlaces with
      | error e => simp [h1, h2] at h
      | ok bp =>
        simp only [h1, h2, pure, Except.pure, applyFormatter, hv] at h
        have hbv : (b : Int) = f.base := by
          unfold u32 at h1; split at h1
          · injection h1 with h1; omega
          · cases h1
        have hb2 : 2 ≤ b := by omega
        have hb36 : b ≤ 36 := by omega
        refine ⟨f, p, b, bp, (by first | rfl | assumption), (by first | rfl | assumption), (by first | rfl | assumption), hb2, hb36, h, ?_, (base_reads_back b _ bp hb2 hb36).1⟩
        unfold formatBaseChecked at h
        have h0 : ¬ b = 0 := by omega
        have h1' : ¬ b = 1 := by omega
        have h36 : ¬ (b > 36 ∧ ((toBase b v.repr.roundEvenNat).any fun ch => ch.toNat > 90) = true) := by omega
        simp only [h0, h1', h36, if_false] at h
        repeat' split at h
        all_goals (injection h with h; exact h.symm)

/-! ### non-vacuity (glue) -/

private def gnv (neg : Bool) (m : Nat) (e : Int) : NumVal :=
  ⟨⟨neg, m, e⟩, ⟨neg, m * 100, e⟩, ⟨neg, m, e⟩, (0, 1), fun _ => (false, 1, 2),
   fun _ => (⟨⟨neg, m, e⟩, ⟨neg, m, e⟩⟩, ⟨⟨neg, m, e⟩, ⟨neg, m, e⟩⟩)⟩
private def genv : Env := ⟨fun _ => false, [48], 'x'⟩

example : setThenDisplay genv (Cell.ofNumber (gnv true 12345 (-1)) []) "currency".toList { useAccounting := some true, negativeStyle := some 1 } =
    .ok "£\t(1234.50)".toList := by decide +kernel
example : setThenDisplay genv (Cell.ofNumber (gnv false 35 (-1)) []) "stepper".toList { controlFormat := some (.control .currency) } =
    .ok "£3.50".toList := by decide +kernel
example : setThenDisplay genv (Cell.ofNumber (gnv false 35 (-1)) []) "slider".toList { controlFormat := some (.control .base), base := some 1 } =
    .error .TypeError := by decide +kernel
example : setThenDisplay genv (Cell.ofNumber (gnv false 3 0) "3.0".toList) "popup".toList { popupValues := some [.num ⟨false, 30, -1⟩] } =
    .ok "3.0".toList := by decide +kernel
example : setThenDisplay genv (Cell.ofText "a".toList) "popup".toList { popupValues := some [.str "b".toList] } = .error .IndexError := by
  decide +kernel
example : setThenDisplay genv (Cell.ofBool true) "tickbox".toList {} = .ok "☑".toList ∧
    setThenDisplay genv (Cell.ofBool true) "number".toList {} = .error .TypeError ∧
    setThenDisplay genv (Cell.ofNumber (gnv false 3 0) []) "number".toList { decimalPlaces := some (some (-1)) } = .error .ValueError := by
  decide +kernel
example : (setCellDataFormat (Cell.ofNumber (gnv false 3 0) []) "stepper".toList { minimum := some ⟨false, 0, 0⟩ }).toOption.bind (·.control) =
    some { interaction := 4, range := some (⟨false, 0, 0⟩, ⟨false, 1000, -1⟩, ⟨false, 10, -1⟩) } := by decide +kernel

end Glue
end NumbersModel.Props.C13

/-! ## Two's complement and fraction layout over the definitions regenerated from the Python source

`Gen/TrNumFmt.lean` is produced by `harness/py2lean.py` from `cell.py` (`_invert_bit_str`, `_twos_complement`,
`_format_fraction_parts_to`) in the working tree on every check run. `Lemmas/TrNumFmt.lean` proves the
character-level code (bit string of `abs(value)`, inversion, `rjust` with ones, `int(…, 2) + 1`, `bin/oct/hex`)
equal to the arithmetic model `2^bits − a`, and the fraction layout equal to `fractionParts`. -/
namespace NumbersModel.Props.C13.Src
open NumbersModel NumbersModel.Digits NumbersModel.NumFmt NumbersModel.Gen.T NumbersModel.Translated

/-- what `_twos_complement(-a, base)` returns reads back, in that base, as `2^bits − a` with
    `bits = max 32 (⌈log₂ a⌉ + 1)`; read as a signed `bits`-bit number it is `−a`; base 2 shows exactly `bits` digits. -/
theorem src_twos_complement_value (a base : Nat) (ha : 1 ≤ a) (hb : base = 2 ∨ base = 8 ∨ base = 16) :
    let bits := max 32 (clog2 a + 1)
    ∃ t, twos_complement (-(a : Int)) (base : Int) = .ok t ∧
      parseBase base t = 2 ^ bits - a ∧ 2 ^ (bits - 1) ≤ 2 ^ bits - a ∧ 32 ≤ bits ∧
      ((parseBase base t : Int) - 2 ^ bits = -(a : Int)) ∧ (base = 2 → t.length = bits) := by
  intro bits
  obtain ⟨h1, h2, h3, _, h5, h6⟩ := C13.twos_complement_value a base ha hb
  exact ⟨twosComplement a base, twos_complement_eq_model a ha base hb, h1, h2, h3, h5, h6⟩

/-- the fraction layout of `_format_fraction_parts_to`: sign kept, `den/den` carried, zero numerator hidden, zero is `0`. -/
theorem src_fraction_parts_normal_form (whole numerator : Int) (den : Nat) :
    let neg := whole < 0 ∨ numerator < 0
    let carry := numerator.natAbs = den
    let w := if carry then whole.natAbs + 1 else whole.natAbs
    let n := if carry then 0 else numerator.natAbs
    format_fraction_parts_to whole numerator (den : Int) = .ok (
      if w > 0 then
        (if neg then ['-'] else []) ++ natStr w ++ (if n = 0 then [] else [' '] ++ natStr n ++ ['/'] ++ natStr den)
      else if n = 0 then ['0']
      else (if neg then ['-'] else []) ++ natStr n ++ ['/'] ++ natStr den) := by
  intro neg carry w n
  rw [format_fraction_parts_to_eq_model]
  exact congrArg Except.ok (C13.fraction_parts_normal_form whole numerator den)

example : twos_complement (-5) 2 = .ok "11111111111111111111111111111011".toList := by decide +kernel
example : twos_complement (-5) 16 = .ok "FFFFFFFB".toList := by decide +kernel
example : format_fraction_parts_to (-2) (-1) 2 = .ok "-2 1/2".toList := by decide +kernel

end NumbersModel.Props.C13.Src
