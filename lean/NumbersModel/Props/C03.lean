/-
C03 — Any edit history leaves each table equal to a plain grid, before and after save.
Statements only (proofs by reference to Lemmas/Grid.lean) and non-vacuity examples.

Model: Model/Grid.lean (`Table._data`, `num_rows`, `num_cols`; `write`, `add_row`,
`add_column`, `delete_row`, `delete_column` with fixes/C03-*.patch applied; a list of tables
for sheets / documents).  Specification: `Spec` = a plain list of lists with its dimensions
and the obvious list operations (`specStep`).
-/
import NumbersModel.Lemmas.Grid
import NumbersModel.Lemmas.Cache
import NumbersModel.Lemmas.TablePipeline
import NumbersModel.Lemmas.TrEdit
import NumbersModel.Lemmas.TrCache
namespace NumbersModel.Props.C03
open NumbersModel NumbersModel.Grid

variable {α : Type}

/-- a freshly created `nr × nc` table is well-formed: the dimensions are those of `_data` and
    every cell reports the position it sits at. -/
theorem wf_init (empty : α) (nr nc : Nat) : WF (init empty nr nc) := by
  rw [init_eq_mk]; exact wf_mk _ _ _ (rect_replicate nr nc empty)

/-- ... and it is the all-empty plain grid. -/
theorem abs_init (empty : α) (nr nc : Nat) :
    abs (init empty nr nc) = ⟨nr, nc, List.replicate nr (List.replicate nc empty)⟩ := by
  rw [init_eq_mk, abs_mk]

/-- **Invariant.** For ALL arguments (negative / zero / oversized counts, indices out of range,
    coordinates beyond the limits included; no validity precondition): a step from a well-formed
    table either raises (the model has no partial state: every `raise` of the fixed code precedes
    the first mutation, so the table is unchanged) or yields a well-formed table. -/
theorem wf_step (empty : α) (s : State α) (op : Op α) (h : WF s) :
    (∃ e, step empty s op = .error e) ∨ (∃ s', step empty s op = .ok s' ∧ WF s') := by
  cases hs : step empty s op with
  | error e => exact Or.inl ⟨e, rfl⟩
  | ok s' =>
    obtain ⟨_, hx, hr⟩ := (stepFacts empty s h op).sound s' hs
    exact Or.inr ⟨s', rfl, by rw [hx]; exact wf_conc _ hr⟩

/-- **Refinement.** A step that succeeds is the plain-grid operation: dimensions and values of
    the new table are those of `specStep` applied to the old ones. -/
theorem refines (empty : α) (s s' : State α) (op : Op α) (h : WF s) (hs : step empty s op = .ok s') :
    abs s' = specStep empty (abs s) op := by
  obtain ⟨_, hx, _⟩ := (stepFacts empty s h op).sound s' hs
  rw [hx, abs_conc]

/-- a step succeeds only on arguments the operation accepts ... -/
theorem ok_only_if_valid (empty : α) (s s' : State α) (op : Op α) (h : WF s)
    (hs : step empty s op = .ok s') : Valid s op :=
  ((stepFacts empty s h op).sound s' hs).1

/-- ... every other argument combination raises IndexError (never anything else, never a
    silently corrupted table) ... -/
theorem invalid_raises_IndexError (empty : α) (s : State α) (op : Op α) (h : WF s) (hv : ¬ Valid s op) :
    step empty s op = .error .IndexError :=
  (stepFacts empty s h op).invalid hv

/-- ... and accepted arguments do succeed, provided a `default=` fill stays inside the library's
    row/column limits (`FillOK`; trivially true without `default`, and for every table within
    `MAX_ROW_COUNT × MAX_COL_COUNT`). -/
theorem valid_succeeds (empty : α) (s : State α) (op : Op α) (h : WF s) (hv : Valid s op) (hf : FillOK s op) :
    ∃ s', step empty s op = .ok s' ∧ WF s' ∧ abs s' = specStep empty (abs s) op := by
  obtain ⟨s', hs⟩ := (stepFacts empty s h op).complete hv hf
  obtain ⟨_, hx, hr⟩ := (stepFacts empty s h op).sound s' hs
  exact ⟨s', hs, by rw [hx]; exact wf_conc _ hr, by rw [hx, abs_conc]⟩

/-- **Reachability.** Every table reachable from a new table by any finite history of
    operations (erroring ones leave the table as it was) is well-formed. -/
theorem wf_reachable (empty : α) (nr nc : Nat) (ops : List (Op α)) :
    WF (runOps empty (init empty nr nc) ops) :=
  wf_runOps empty ops _ (wf_init empty nr nc)

/-- the same from any well-formed (e.g. loaded) table. -/
theorem wf_reachable_from (empty : α) (s : State α) (h : WF s) (ops : List (Op α)) :
    WF (runOps empty s ops) := wf_runOps empty ops s h

/-- a history all of whose steps succeed is the fold of the plain-grid operations. -/
theorem refines_history (empty : α) (ops : List (Op α)) : ∀ (s s' : State α), WF s →
    ops.foldlM (step empty) s = .ok s' → WF s' ∧ abs s' = ops.foldl (specStep empty) (abs s) := by
  induction ops with
  | nil => intro s s' h hr; simp only [List.foldlM_nil, pure, Except.pure] at hr; injection hr with hr; subst hr; exact ⟨h, rfl⟩
  | cons op rest ih =>
    intro s s' h hr
    simp only [List.foldlM_cons, bind, Except.bind] at hr
    cases hs : step empty s op with
    | error e => rw [hs] at hr; cases hr
    | ok s1 =>
      rw [hs] at hr
      obtain ⟨_, hx, hrect⟩ := (stepFacts empty s h op).sound s1 hs
      have hw1 : WF s1 := by rw [hx]; exact wf_conc _ hrect
      obtain ⟨a, b⟩ := ih s1 s' hw1 hr
      refine ⟨a, ?_⟩
      rw [b, List.foldl_cons, refines empty s s1 op h hs]

/-- **Isolation.** An edit addressed to table `i` leaves every other table (of this or any
    other sheet / document: they are all just entries of the list) exactly as it was. -/
theorem isolation (empty : α) (d d' : List (State α)) (i : Nat) (op : Op α)
    (h : docStep empty d (.edit i op) = .ok d') :
    d'.length = d.length ∧ ∀ j, j ≠ i → d'[j]? = d[j]? := docStep_others empty d d' i op h

/-- adding a table / sheet, renaming and saving touch no existing grid. -/
theorem structural_ops_pure (empty : α) (d : List (State α)) (nr nc i : Nat) :
    docStep empty d (.addTable nr nc) = .ok (d ++ [init empty nr nc]) ∧
    docStep empty d (.rename i) = .ok d ∧ docStep empty d .save = .ok d := ⟨rfl, rfl, rfl⟩

/-- `save` leaves every in-memory grid as it is and can be repeated (document level: the model's
    `save` step is the identity on the list of tables; what the saved file *contains* is
    `saved_grid_reopens` below). -/
theorem save_pure (empty : α) (d : List (State α)) :
    docStep empty d .save = .ok d ∧
    (do let d1 ← docStep empty d .save; docStep empty d1 .save) = .ok d := ⟨rfl, rfl⟩

/-- **the saved file reopens to the plain grid.** Instantiate the cell payload of the grid model
    with the storage-level cell (`TablePipeline.TCell`). For every well-formed table state `s` —
    in particular every state reachable by any edit history (`wf_reachable`) — with at least one
    row, within the library's limits, whose cells can be stored (`ValidCell`) and whose merge map
    names the merged placeholders: saving the values of `s` (`saveTable` =
    `recalculate_table_data` on `Table._data`) and reopening (`loadTable` = `Table.__init__`)
    never raises, yields exactly `num_rows × num_cols` cells, and the grid read is the plain grid
    `abs s` cell by cell (class, payload, ids, text; `forgetKey` hides only the re-assigned string
    key). Together with `refines_history`: open, edit by any accepted history, save, reopen ≙ the
    plain-grid fold of the history. -/
theorem saved_grid_reopens (mr : Nat → Nat → Bool) (s : State TablePipeline.TCell) (h : WF s)
    (hne : 1 ≤ s.numRows) (hrows : s.numRows ≤ Gen.MAX_ROW_COUNT) (hcols : s.numCols ≤ Gen.MAX_COL_COUNT)
    (hvalid : ∀ row ∈ (abs s).cells, ∀ c ∈ row, TablePipeline.ValidCell c)
    (hmr : TablePipeline.MergeAgrees mr (abs s).cells) :
    ∃ sv g, TablePipeline.saveTable (abs s).cells = .ok sv ∧ TablePipeline.loadTable mr sv = .ok g ∧
      (sv.numRows : Int) = (abs s).nrows ∧ (sv.numCols : Int) = (abs s).ncols ∧
      g.map (·.map TablePipeline.forgetKey) = (abs s).cells.map (·.map TablePipeline.viewT) := by
  obtain ⟨h1, h2, h3, _⟩ := h
  have hlen : ((abs s).cells.length : Int) = s.numRows := by simpa [Grid.abs] using h1
  have hne' : (abs s).cells ≠ [] := by
    intro he; rw [he] at hlen; simp at hlen; omega
  have hrect : TablePipeline.Rect (abs s).cells s.numCols.toNat := by
    intro row hrow
    simp only [Grid.abs, List.mem_map] at hrow
    obtain ⟨r, hr, rfl⟩ := hrow
    have := h3 r hr
    simp only [List.length_map]
    omega
  obtain ⟨sv, g, hs, hg, a1, a2, _, hall⟩ := TablePipeline.load_save_rel mr (abs s).cells s.numCols.toNat hne'
    hrect (by omega) (by omega) hvalid hmr
  refine ⟨sv, g, hs, hg, by rw [a1]; exact hlen, by rw [a2]; simp only [Grid.abs]; omega, TablePipeline.forget_of_rel hall⟩

/-- all tables of all documents stay well-formed under any document-level history. -/
theorem wf_doc_step (empty : α) (d d' : List (State α)) (op : DocOp α) (hwf : ∀ s ∈ d, WF s)
    (h : docStep empty d op = .ok d') : ∀ s ∈ d', WF s := docStep_wf empty d d' op hwf h

/-! ### non-vacuity -/

/-- a non-trivial history on a 2×3 table: write beyond both edges, insert a row with a default,
    delete a column in the middle, delete the last row. -/
example :
    runOps (0 : Nat) (init 0 2 3)
      [.write 2 3 7, .addRow 1 (some 1) (some 9), .delCol 1 (some 1), .delRow 1 none]
      = { numRows := 3, numCols := 3,
          data := [[⟨0, 0, 0⟩, ⟨0, 1, 0⟩, ⟨0, 2, 0⟩], [⟨1, 0, 9⟩, ⟨1, 1, 9⟩, ⟨1, 2, 9⟩],
                   [⟨2, 0, 0⟩, ⟨2, 1, 0⟩, ⟨2, 2, 0⟩]] } := by decide

example : Valid (init (0 : Nat) 2 3) (.delRow 1 (some 1)) := by
  simp only [Valid, init]; omega
example : ¬ Valid (init (0 : Nat) 3 3) (.delRow 2 (some 2)) := by
  simp only [Valid, init]; omega
example : step (0 : Nat) (init 0 3 3) (.delRow 2 (some 2)) = .error .IndexError := by decide
example : step (0 : Nat) (init 0 3 3) (.delRow 0 none) = .ok (init 0 3 3) := by decide
example : step (0 : Nat) (init 0 3 3) (.addRow (-1) none none) = .error .IndexError := by decide
example : step (0 : Nat) (init 0 3 3) (.delRow 5 none) = .error .IndexError := by decide
example : step (0 : Nat) (init 0 3 3) (.delRow 3 none) = .error .IndexError := by decide
example : step (0 : Nat) (init 0 3 3) (.write (-1) 0 5) = .error .IndexError := by decide
example : FillOK (init (0 : Nat) 3 3) (.addRow 2 none (some 5)) := by
  simp only [FillOK, init, Gen.MAX_ROW_COUNT, Gen.MAX_COL_COUNT]; omega

/-- `saved_grid_reopens` on an edited table: grow a 2×2 table by a write beyond both edges, delete
    the first column, save, reopen — the grid read is the plain grid of the edited table. -/
def emptyT : TablePipeline.TCell := ⟨.empty, [], [], none, {}⟩
def editedT : State TablePipeline.TCell :=
  runOps emptyT (init emptyT 2 2) [.write 2 2 ⟨.text, [], "hi".toList, none, {}⟩, .delCol 1 (some 0)]
example : (editedT.numRows, editedT.numCols) = (3, 2) := by decide +kernel
example : ((TablePipeline.saveTable (Grid.abs editedT).cells).bind (TablePipeline.loadTable fun _ _ => false)).map
      (fun g => g.map (fun r => r.map TablePipeline.forgetKey))
    = .ok ((Grid.abs editedT).cells.map (fun r => r.map TablePipeline.viewT)) := by decide +kernel

/-! ### the pinned tree violates the invariant (before fixes/C03-edit-counts.patch)

`delRowPinned` is `Table.delete_row` as it is on the pinned tree.  From a well-formed 3×3
table it produces tables whose `num_rows` is not the number of rows of `_data`. -/

example : (delRowPinned (init (0 : Nat) 3 3) 2 (some 2)).map (fun s => (s.numRows, s.data.length))
    = .ok (1, 2) := by decide
example : (delRowPinned (init (0 : Nat) 3 3) 0 none).map (fun s => (s.numRows, s.data.length))
    = .ok (3, 0) := by decide
example : (delRowPinned (init (0 : Nat) 3 3) 5 none).map (fun s => (s.numRows, s.data.length))
    = .ok (-2, 0) := by decide
example : ∃ s', delRowPinned (init (0 : Nat) 3 3) 2 (some 2) = .ok s' ∧ ¬ WF s' := by
  refine ⟨_, rfl, ?_⟩
  intro h
  have := h.1
  revert this
  decide

/-! ### the `numbers_cache` memo (src/numbers_parser/numbers_cache.py) is transparent -/

/-- the memo key `".".join(str(arg))` determines the (integer) argument tuple: two different
    calls of a cached method never share a cache slot. -/
theorem cache_key_injective (xs ys : List Int) (hl : xs.length = ys.length)
    (h : Cache.cacheKey xs = Cache.cacheKey ys) : xs = ys :=
  Cache.cacheKey_injective xs ys hl h

/-- hence memoising a pure method changes no result: any sequence of calls (with `n` key
    arguments each) through the cache returns exactly what the undecorated method returns. -/
theorem memo_transparent {β} (f : List Int → β) (n : Nat) (calls : List (List Int))
    (hl : ∀ a ∈ calls, a.length = n) :
    (Cache.memoCalls f [] calls).1 = calls.map f :=
  Cache.memoCalls_transparent f n calls [] (fun e he => by cases he) hl

example : Cache.cacheKey [12, -3, 0] = "12.-3.0".toList := by decide
example : (Cache.memoCalls (fun a => a.sum) [] [[1, 2], [1, 2], [12, 0]]).1 = [3, 3, 12] := by decide

end NumbersModel.Props.C03

/-! ## The argument checks translated from the Python source

`Gen/TrEdit.lean` is regenerated by `harness/py2lean.py` from `Table.add_row` / `add_column` / `delete_row` /
`delete_column` in the working tree on every check run (everything before the first mutation of the table).
`Lemmas/TrEdit.lean` proves that each model operation is the translated prefix followed by the rest of the operation. -/
namespace NumbersModel.Props.C03.Src
open NumbersModel NumbersModel.Grid NumbersModel.Gen.T NumbersModel.Translated

variable {α : Type}

/-- what the translated checks of `add_row` accept: a non-negative count and no start row or one inside the table; the
    result is the row the new rows go to.  Everything else is an IndexError, raised before the table is touched. -/
theorem src_add_row_args (rows n : Int) (start : Option Int) :
    add_row_args rows n start =
      if 0 ≤ n ∧ (∀ st, start = some st → 0 ≤ st ∧ st < rows) then .ok (start.getD rows) else .error .IndexError := by
  unfold add_row_args
  cases start with
  | none => by_cases hn : n < 0 <;> simp [hn, pure, Except.pure, throw, throwThe, MonadExceptOf.throw] <;> omega
  | some st =>
    by_cases h1 : st < 0 <;> by_cases h2 : st ≥ rows <;> by_cases hn : n < 0 <;>
      simp [h1, h2, hn, pure, Except.pure, bind, Except.bind, throw, throwThe, MonadExceptOf.throw] <;> omega

theorem src_add_column_args (cols n : Int) (start : Option Int) :
    add_column_args cols n start =
      if 0 ≤ n ∧ (∀ st, start = some st → 0 ≤ st ∧ st < cols) then .ok (start.getD cols) else .error .IndexError := by
  unfold add_column_args
  cases start with
  | none => by_cases hn : n < 0 <;> simp [hn, pure, Except.pure, throw, throwThe, MonadExceptOf.throw] <;> omega
  | some st =>
    by_cases h1 : st < 0 <;> by_cases h2 : st ≥ cols <;> by_cases hn : n < 0 <;>
      simp [h1, h2, hn, pure, Except.pure, bind, Except.bind, throw, throwThe, MonadExceptOf.throw] <;> omega

/-- what the translated checks of `delete_row` accept: `0 ≤ n < rows` and, with a start row, `0 ≤ start` and
    `start + n ≤ rows` (at least one row always remains). -/
theorem src_delete_row_args (rows n : Int) (start : Option Int) :
    delete_row_args rows n start =
      if 0 ≤ n ∧ n < rows ∧ (∀ st, start = some st → 0 ≤ st ∧ st < rows ∧ st + n ≤ rows) then .ok () else .error .IndexError := by
  unfold delete_row_args
  cases start with
  | none =>
    by_cases h1 : n < 0 <;> by_cases h2 : n ≥ rows <;>
      simp [h1, h2, pure, Except.pure, throw, throwThe, MonadExceptOf.throw] <;> omega
  | some st =>
    by_cases h1 : st < 0 <;> by_cases h2 : st ≥ rows <;> by_cases h3 : n < 0 <;> by_cases h4 : n ≥ rows <;>
      by_cases h5 : st + n > rows <;>
      simp [h1, h2, h3, h4, h5, pure, Except.pure, throw, throwThe, MonadExceptOf.throw] <;> omega

theorem src_delete_column_args (cols n : Int) (start : Option Int) :
    delete_column_args cols n start =
      if 0 ≤ n ∧ n < cols ∧ (∀ st, start = some st → 0 ≤ st ∧ st < cols ∧ st + n ≤ cols) then .ok () else .error .IndexError := by
  unfold delete_column_args
  cases start with
  | none =>
    by_cases h1 : n < 0 <;> by_cases h2 : n ≥ cols <;>
      simp [h1, h2, pure, Except.pure, throw, throwThe, MonadExceptOf.throw] <;> omega
  | some st =>
    by_cases h1 : st < 0 <;> by_cases h2 : st ≥ cols <;> by_cases h3 : n < 0 <;> by_cases h4 : n ≥ cols <;>
      by_cases h5 : st + n > cols <;>
      simp [h1, h2, h3, h4, h5, pure, Except.pure, throw, throwThe, MonadExceptOf.throw] <;> omega

/-- an edit whose arguments the translated checks refuse leaves the model's operation with exactly that error: nothing of
    the table has been touched when it is raised (the four model operations *are* prefix-then-body). -/
theorem src_edit_refused_early (empty : α) (s : State α) (n : Int) (start : Option Int) (d : Option α) (e : PyExc) :
    (add_row_args s.numRows n start = .error e → addRow empty s n start d = .error e) ∧
    (add_column_args s.numCols n start = .error e → addCol empty s n start d = .error e) ∧
    (delete_row_args s.numRows n start = .error e → delRow s n start = .error e) ∧
    (delete_column_args s.numCols n start = .error e → delCol s n start = .error e) := by
  refine ⟨?_, ?_, ?_, ?_⟩
  · intro h; unfold addRow; rw [add_row_args_eq_model, h]; rfl
  · intro h; unfold addCol; rw [add_column_args_eq_model, h]; rfl
  · intro h; rw [delete_row_args_eq_model, h]; rfl
  · intro h; rw [delete_column_args_eq_model, h]; rfl

/-- the memoising wrapper translated from `numbers_cache.py` (`inner_multi_args`; the instance's `_cache[method]` dict is
    threaded as a state variable): one call returns what the model's `memoCall` returns and leaves the same store content —
    so `memo_transparent` is a statement about the wrapper as the source has it. -/
theorem src_memo_call {β} (f : List Int → β) (store : Cache.Store β) (args : List Int) :
    ∃ st', cache_inner_multi_args f (args.length : Int) store args = .ok ((Cache.memoCall f store args).1, st') ∧
      ∀ k, Cache.lookup st' k = Cache.lookup (Cache.memoCall f store args).2 k :=
  cache_inner_eq_model f store args

/-- a second call with the same arguments does not call the method again: it returns the stored value and leaves the store
    as it is. -/
theorem src_memo_hit {β} (f g : List Int → β) (store : Cache.Store β) (args : List Int) (v : β)
    (h : Cache.lookup store (Cache.cacheKey args) = some v) :
    ∃ st', cache_inner_multi_args g (args.length : Int) store args = .ok (v, st') ∧ ∀ k, Cache.lookup st' k = Cache.lookup store k := by
  obtain ⟨st', h1, h2⟩ := cache_inner_eq_model g store args
  have hm : Cache.memoCall g store args = (v, store) := by simp [Cache.memoCall, h]
  rw [hm] at h1 h2
  exact ⟨st', h1, h2⟩

example : (cache_inner_multi_args (fun a => a.sum) 2 [] [1, 2]) = .ok (3, [("1.2".toList, 3)]) := by decide +kernel

example : add_row_args 3 2 (some 1) = .ok 1 ∧ add_row_args 3 2 none = .ok 3 ∧ add_row_args 3 (-1) none = .error .IndexError
    ∧ delete_row_args 3 3 none = .error .IndexError ∧ delete_row_args 3 2 (some 1) = .ok () := by decide

end NumbersModel.Props.C03.Src
