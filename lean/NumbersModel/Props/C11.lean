/-
C11 — A1 and row/column addressing reach the same cell in every call; bounds hold.
-/
import NumbersModel.Model.Addressing
import NumbersModel.Lemmas.TrAddr
import NumbersModel.Props.C10
import Mathlib.Tactic.Ring
namespace NumbersModel.Props.C11
open NumbersModel NumbersModel.A1 NumbersModel.Addressing

/-- every A1 spelling of (r, c) (all four `$` combinations) resolves to the pair (r, c):
    hence every position-taking method (all start with `resolve`) acts on the same cell
    for both notations. -/
theorem a1_rc_resolve (r c : Nat) (ra ca : Bool) (hc : c ≤ 18277) (s : Text)
    (hs : rowcolToCell r c ra ca = .ok s) :
    resolve Gen.digitZeros (.a1 s) = resolve Gen.digitZeros (.rc r c) := by
  have := C10.cell_roundtrip_gen r c ra ca hc
  rw [hs] at this
  simpa [resolve, Except.bind] using this

theorem a1_rc_agree_read (d : Dims) (r c : Nat) (ra ca : Bool) (hc : c ≤ 18277) (s : Text)
    (hs : rowcolToCell r c ra ca = .ok s) :
    cellRead Gen.digitZeros d (.a1 s) = cellRead Gen.digitZeros d (.rc r c) := by
  unfold cellRead; rw [a1_rc_resolve r c ra ca hc s hs]

theorem a1_rc_agree_write (mr mc : Nat) (d : Dims) (r c : Nat) (ra ca : Bool) (hc : c ≤ 18277) (s : Text)
    (hs : rowcolToCell r c ra ca = .ok s) :
    validate Gen.digitZeros mr mc d (.a1 s) = validate Gen.digitZeros mr mc d (.rc r c) := by
  unfold validate; rw [a1_rc_resolve r c ra ca hc s hs]

/-- reads: inside the table the addressed cell is read; anywhere else (negative or past the
    end, either axis) IndexError — and a read returns no new state, so nothing changes. -/
theorem read_bounds (zeros : List Nat) (d : Dims) (r c : Int) :
    cellRead zeros d (.rc r c) =
      if 0 ≤ r ∧ r < d.rows ∧ 0 ≤ c ∧ c < d.cols then .ok (r, c) else .error .IndexError := by
  unfold cellRead resolve
  simp only [bind, Except.bind]
  by_cases h1 : r ≥ d.rows ∨ r < 0
  · have : ¬ (0 ≤ r ∧ r < d.rows ∧ 0 ≤ c ∧ c < d.cols) := by omega
    simp [h1, this]
  · by_cases h2 : c ≥ d.cols ∨ c < 0
    · have : ¬ (0 ≤ r ∧ r < d.rows ∧ 0 ≤ c ∧ c < d.cols) := by omega
      simp [h1, h2, this]
    · have : (0 ≤ r ∧ r < d.rows ∧ 0 ≤ c ∧ c < d.cols) := by omega
      simp [h1, h2, this]

/-- writes/style/format/border: any negative or beyond-limit position raises IndexError (no new
    state); every position inside the limits succeeds and the table grows to exactly
    max(rows, r+1) × max(cols, c+1), addressing cell (r, c). -/
theorem write_bounds (zeros : List Nat) (mr mc : Nat) (d : Dims) (r c : Int) :
    validate zeros mr mc d (.rc r c) =
      if 0 ≤ r ∧ r < mr ∧ 0 ≤ c ∧ c < mc
      then .ok (⟨max d.rows (r + 1).toNat, max d.cols (c + 1).toNat⟩, (r, c))
      else .error .IndexError := by
  unfold validate resolve growTo
  simp only [bind, Except.bind]
  by_cases h1 : r < 0
  · have : ¬ (0 ≤ r ∧ r < mr ∧ 0 ≤ c ∧ c < mc) := by omega
    simp [h1, this]
  by_cases h2 : c < 0
  · have : ¬ (0 ≤ r ∧ r < mr ∧ 0 ≤ c ∧ c < mc) := by omega
    simp [h1, h2, this]
  by_cases h3 : r ≥ mr
  · have : ¬ (0 ≤ r ∧ r < mr ∧ 0 ≤ c ∧ c < mc) := by omega
    simp [h1, h2, h3, this]
  by_cases h4 : c ≥ mc
  · have : ¬ (0 ≤ r ∧ r < mr ∧ 0 ≤ c ∧ c < mc) := by omega
    simp [h1, h2, h3, h4, this]
  have : (0 ≤ r ∧ r < mr ∧ 0 ≤ c ∧ c < mc) := by omega
  simp only [h1, h2, h3, h4, this, if_false, and_self, if_true]
  congr 2
  congr 1 <;> omega

/-- with the library's limits (generated): the last permitted cell is (999999, 999). -/
theorem write_limits_gen (zeros : List Nat) (d : Dims) (r c : Int) :
    (∃ x, validate zeros Gen.MAX_ROW_COUNT Gen.MAX_COL_COUNT d (.rc r c) = .ok x) ↔
      (0 ≤ r ∧ r ≤ 999999 ∧ 0 ≤ c ∧ c ≤ 999) := by
  rw [write_bounds]
  have e1 : (Gen.MAX_ROW_COUNT : Int) = 1000000 := by decide
  have e2 : (Gen.MAX_COL_COUNT : Int) = 1000 := by decide
  rw [e1, e2]
  constructor
  · rintro ⟨x, h⟩
    by_cases hh : 0 ≤ r ∧ r < 1000000 ∧ 0 ≤ c ∧ c < 1000
    · omega
    · simp [hh] at h
  · intro h
    have hh : 0 ≤ r ∧ r < 1000000 ∧ 0 ≤ c ∧ c < 1000 := by omega
    exact ⟨(⟨max d.rows (r + 1).toNat, max d.cols (c + 1).toNat⟩, (r, c)), by simp [hh]⟩

theorem mem_rangeIncl (lo hi x : Int) : x ∈ rangeIncl lo hi ↔ lo ≤ x ∧ x ≤ hi := by
  unfold rangeIncl
  simp only [List.mem_map, List.mem_range]
  constructor
  · rintro ⟨i, hi', rfl⟩
    simp only [Int.ofNat_eq_natCast]; omega
  · rintro ⟨h1, h2⟩
    exact ⟨(x - lo).toNat, by omega, by simp only [Int.ofNat_eq_natCast]; omega⟩

theorem rangeIncl_get (lo hi : Int) (i : Nat) (h : i < (hi + 1 - lo).toNat) :
    (rangeIncl lo hi)[i]? = some (lo + i) := by
  unfold rangeIncl
  simp [List.getElem?_map, List.getElem?_range h]

/-- iteration visits exactly the addressed rectangle, rows in ascending order and within each
    row the columns in ascending order; any bound outside the table raises IndexError before
    anything is yielded. -/
theorem iter_rows_exact (d : Dims) (minRow maxRow minCol maxCol : Int) :
    iterRows d (some minRow) (some maxRow) (some minCol) (some maxCol) =
      if 0 ≤ minRow ∧ maxRow < d.rows ∧ 0 ≤ minCol ∧ maxCol < d.cols
      then .ok ((rangeIncl minRow maxRow).map (fun r => (rangeIncl minCol maxCol).map (fun c => (r, c))))
      else .error .IndexError := by
  unfold iterRows
  simp only [Option.getD_some]
  by_cases h1 : minRow < 0
  · have : ¬ (0 ≤ minRow ∧ maxRow < d.rows ∧ 0 ≤ minCol ∧ maxCol < d.cols) := by omega
    simp [h1, this]
  by_cases h2 : maxRow ≥ d.rows
  · have : ¬ (0 ≤ minRow ∧ maxRow < d.rows ∧ 0 ≤ minCol ∧ maxCol < d.cols) := by omega
    simp [h1, h2, this]
  by_cases h3 : minCol < 0
  · have : ¬ (0 ≤ minRow ∧ maxRow < d.rows ∧ 0 ≤ minCol ∧ maxCol < d.cols) := by omega
    simp [h1, h2, h3, this]
  by_cases h4 : maxCol ≥ d.cols
  · have : ¬ (0 ≤ minRow ∧ maxRow < d.rows ∧ 0 ≤ minCol ∧ maxCol < d.cols) := by omega
    simp [h1, h2, h3, h4, this]
  have : (0 ≤ minRow ∧ maxRow < d.rows ∧ 0 ≤ minCol ∧ maxCol < d.cols) := by omega
  simp [h1, h2, h3, h4, this]

theorem iter_cols_exact (d : Dims) (minRow maxRow minCol maxCol : Int) :
    iterCols d (some minRow) (some maxRow) (some minCol) (some maxCol) =
      if 0 ≤ minRow ∧ maxRow < d.rows ∧ 0 ≤ minCol ∧ maxCol < d.cols
      then .ok ((rangeIncl minCol maxCol).map (fun c => (rangeIncl minRow maxRow).map (fun r => (r, c))))
      else .error .IndexError := by
  unfold iterCols
  simp only [Option.getD_some]
  by_cases h1 : minRow < 0
  · have : ¬ (0 ≤ minRow ∧ maxRow < d.rows ∧ 0 ≤ minCol ∧ maxCol < d.cols) := by omega
    simp [h1, this]
  by_cases h2 : maxRow ≥ d.rows
  · have : ¬ (0 ≤ minRow ∧ maxRow < d.rows ∧ 0 ≤ minCol ∧ maxCol < d.cols) := by omega
    simp [h1, h2, this]
  by_cases h3 : minCol < 0
  · have : ¬ (0 ≤ minRow ∧ maxRow < d.rows ∧ 0 ≤ minCol ∧ maxCol < d.cols) := by omega
    simp [h1, h2, h3, this]
  by_cases h4 : maxCol ≥ d.cols
  · have : ¬ (0 ≤ minRow ∧ maxRow < d.rows ∧ 0 ≤ minCol ∧ maxCol < d.cols) := by omega
    simp [h1, h2, h3, h4, this]
  have : (0 ≤ minRow ∧ maxRow < d.rows ∧ 0 ≤ minCol ∧ maxCol < d.cols) := by omega
  simp [h1, h2, h3, h4, this]

/-- omitted bounds mean the whole axis (and an explicit 0 is 0, not "omitted"). -/
theorem iter_defaults (d : Dims) (a b c e : Option Int) :
    iterRows d a b c e =
      iterRows d (some (a.getD 0)) (some (b.getD ((d.rows : Int) - 1))) (some (c.getD 0))
        (some (e.getD ((d.cols : Int) - 1))) := by
  simp [iterRows]

/-- `rangeIncl lo hi` is exactly lo, lo+1, …, hi in order. -/
theorem range_is_interval (lo hi : Int) :
    (∀ x, x ∈ rangeIncl lo hi ↔ lo ≤ x ∧ x ≤ hi) ∧
    (rangeIncl lo hi).length = (hi + 1 - lo).toNat ∧
    ∀ i, i < (hi + 1 - lo).toNat → (rangeIncl lo hi)[i]? = some (lo + i) :=
  ⟨mem_rangeIncl lo hi, by simp [rangeIncl], rangeIncl_get lo hi⟩

/-! ### the defects of the pinned commit, as facts about its model -/
/-- pinned: `write(-1, 0, v)` on a 3×2 table silently addresses the last row. -/
example : validatePinned [48] 1000000 1000 ⟨3, 2⟩ (.rc (-1) 0) = .ok (⟨3, 2⟩, (2, 0)) := by decide
/-- pinned: `write("A0", v)` likewise. -/
example : validatePinned [48] 1000000 1000 ⟨3, 2⟩ (.a1 "A0".toList) = .ok (⟨3, 2⟩, (2, 0)) := by decide
/-- pinned `x or default`: `max_row=0` is taken as "omitted". -/
example : orDefault (some 0) 11 = 11 := by decide

/-! ### non-vacuity -/
example : validate [48] 1000000 1000 ⟨3, 2⟩ (.a1 "C5".toList) = .ok (⟨5, 3⟩, (4, 2)) := by decide
example : validate [48] 1000000 1000 ⟨3, 2⟩ (.a1 "A0".toList) = .error .IndexError := by decide
example : cellRead [48] ⟨3, 2⟩ (.a1 "$B$3".toList) = .ok (2, 1) := by decide
example : iterRows ⟨3, 2⟩ (some 1) (some 2) none (some 0) = .ok [[(1, 0)], [(2, 0)]] := by decide
example : iterRows ⟨3, 2⟩ none (some 3) none none = .error .IndexError := by decide

end NumbersModel.Props.C11

/-! ## The iterator clauses over the bounds prefixes regenerated from the Python source

`Gen/TrAddr.lean` is produced by `harness/py2lean.py` from `Table.iter_rows` / `Table.iter_cols` in `document.py`
(the four "`None` means default" lines and the four bounds tests, everything before `rows = self.rows()`) on every
check run; `Lemmas/TrAddr.lean` proves `iterRows` / `iterCols` equal to that prefix followed by the yield loop. -/
namespace NumbersModel.Props.C11.Src
open NumbersModel NumbersModel.Addressing NumbersModel.Gen.T NumbersModel.Translated

/-- exactly the addressed rectangle, rows in order and columns in order inside each row; any bound outside the
    table raises IndexError before anything is yielded. -/
theorem src_iter_rows_exact (d : Dims) (minRow maxRow minCol maxCol : Int) :
    (iter_rows_bounds d.rows d.cols (some minRow) (some maxRow) (some minCol) (some maxCol)).map rowsOf =
      if 0 ≤ minRow ∧ maxRow < d.rows ∧ 0 ≤ minCol ∧ maxCol < d.cols
      then .ok ((rangeIncl minRow maxRow).map (fun r => (rangeIncl minCol maxCol).map (fun c => (r, c))))
      else .error .IndexError := by
  rw [← iter_rows_eq_model]; exact C11.iter_rows_exact d minRow maxRow minCol maxCol

theorem src_iter_cols_exact (d : Dims) (minRow maxRow minCol maxCol : Int) :
    (iter_cols_bounds d.rows d.cols (some minCol) (some maxCol) (some minRow) (some maxRow)).map colsOf =
      if 0 ≤ minRow ∧ maxRow < d.rows ∧ 0 ≤ minCol ∧ maxCol < d.cols
      then .ok ((rangeIncl minCol maxCol).map (fun c => (rangeIncl minRow maxRow).map (fun r => (r, c))))
      else .error .IndexError := by
  rw [← iter_cols_eq_model]; exact C11.iter_cols_exact d minRow maxRow minCol maxCol

/-- omitted bounds mean the whole axis, and an explicit 0 is 0, not "omitted". -/
theorem src_iter_defaults (d : Dims) (a b c e : Option Int) :
    iter_rows_bounds d.rows d.cols a b c e =
      iter_rows_bounds d.rows d.cols (some (a.getD 0)) (some (b.getD ((d.rows : Int) - 1))) (some (c.getD 0))
        (some (e.getD ((d.cols : Int) - 1))) := by
  cases a <;> cases b <;> cases c <;> cases e <;> rfl

example : (iter_rows_bounds 3 2 none (some 0) none none).map rowsOf = .ok [[(0, 0), (0, 1)]] := by decide
example : iter_rows_bounds 3 2 none (some 3) none none = .error .IndexError := by decide

end NumbersModel.Props.C11.Src
