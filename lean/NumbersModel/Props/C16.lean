/-
C16 — Table geometry and labels survive save and reopen unchanged.

`Sizes.Axis` is the rows (or the columns) of one table: stored header buckets, default size,
sizes set through the API, memoised sizes; `allow i` is the border allowance of row `i`
(`max_top/2 + max_bottom/2`, a function of the borders, which property C15 carries across a save);
`D > 0` is the common denominator of the numbers.  `readVal` is what `Table.row_height(i)` /
`col_width(i)` returns, `cycle` is `save` followed by opening the file, `total` is
`Table.height` / `Table.width`.

`Storable` is the one domain restriction: a row's own height (reported minus the whole points
added for its borders) is not 0 — a stored size of 0 is how the file format says "default".
-/
import NumbersModel.Lemmas.Sizes
import NumbersModel.Lemmas.DocTreeOps
namespace NumbersModel.Props.C16
open NumbersModel NumbersModel.Sizes

/-- **save / reopen is a fixed point of what is read**, for every row or column, whatever was set,
    memoised (queried) or not, with any borders (any allowance). -/
theorem sizes_fixed_point (D : Nat) (hD : 0 < D) (ax : Axis) (allow : Nat → Int) (i : Nat) (hi : i < ax.n)
    (hs : readVal D ax allow i - floorD (allow i) D ≠ 0) :
    readVal D (cycle D ax allow) allow i = readVal D ax allow i :=
  readVal_cycle D hD ax allow i hi hs

/-- **no drift**: any number of cycles reports the same sizes, and from the first saved file on the
    stored headers themselves do not change any more (`save ∘ save ≃ save`); table height / width too. -/
theorem no_drift (D : Nat) (hD : 0 < D) (ax : Axis) (allow : Nat → Int) (hs : Storable D ax allow) :
    (∀ k i, i < ax.n → readVal D (cycles D allow k ax) allow i = readVal D ax allow i) ∧
    (cycle D (cycle D ax allow) allow).headers = (cycle D ax allow).headers ∧
    total D (cycle D ax allow) allow = total D ax allow :=
  ⟨fun k i hi => (readVal_cycles D hD allow k ax hs i hi).2, headers_cycle_cycle D hD ax allow hs,
   total_cycle D hD ax allow hs⟩

/-- **the inverse law of the setter**: the size that has to be stored for a requested height `h` on a
    row with allowance `a` is `h − ⌊a⌋`; the reload then reports `⌊round(stored) + a⌋ = h`, for every
    integer `h`, every allowance and every denominator … -/
theorem set_then_reload (h a : Int) (D : Nat) (hD : 0 < D) :
    floorD (roundHE ((h - floorD a D) * D) D * D + a) D = h := reported_storedFor h a D hD

/-- … and that is what the repaired code does: a size set through the API is reported unchanged
    after save and reopen, and (before saving) also after borders are drawn on the row. -/
theorem set_then_reload_api (D : Nat) (hD : 0 < D) (ax : Axis) (allow : Nat → Int) (i : Nat) (h : Int)
    (hi : i < ax.n) (hs : h - floorD (allow i) D ≠ 0) :
    readVal D (cycle D (setSize ax i h) allow) allow i = h ∧
    ∀ a b (allow' : Nat → Int), readVal D (borderChanged (setSize ax i h) a b) allow' i = h := by
  constructor
  · have e := readVal_setSize D ax allow i h
    rw [readVal_cycle D hD (setSize ax i h) allow i hi (by rw [e]; exact hs), e]
  · intro a b allow'; exact readVal_setSize_border D ax allow' i a b h

/-- **labels**: after any sequence of label setters, what the API shows (table and sheet name, name
    and caption visibility, caption text, header counts, position) is the same after the archive
    fields are written and read back. -/
theorem labels_preserved (l : Labels) (ops : List LabelOp) :
    (Labels.ofArchive (ops.foldl Labels.apply l).toArchive).observe = (ops.foldl Labels.apply l).observe := by
  rfl

/-- each setter is seen by the matching getter (caption visibility only once a caption exists). -/
theorem label_setters (l : Labels) (s : Text) (b : Bool) (n : Nat) :
    (l.apply (.setTableName s)).observe.tableName = s ∧ (l.apply (.setSheetName s)).observe.sheetName = s ∧
    (l.apply (.setNameEnabled b)).observe.nameEnabled = b ∧ (l.apply (.setCaption s)).observe.caption = s ∧
    ((l.apply (.setCaption s)).apply (.setCaptionEnabled b)).observe.captionEnabled = b ∧
    (l.apply (.setHdrRows n)).observe.hdrRows = n ∧ (l.apply (.setHdrCols n)).observe.hdrCols = n := by
  refine ⟨rfl, rfl, rfl, rfl, ?_, rfl, rfl⟩
  cases b <;> rfl

/-! ### the defects of the pinned commit -/

/-- three rows stored at 100 pt, default 20 pt, no borders (`D = 2`). -/
def rows100 : Axis := ⟨3, [(0, 200), (1, 200), (2, 200)], 40, [], []⟩

/-- unqueried custom row heights are saved as 0 and come back as the default (issue-69b: 100 → 20);
    a queried one survives. -/
example : readVal 2 rows100 (fun _ => 0) 1 = 100 ∧
    readVal 2 (reload (saveRowsPinned 2 rows100)) (fun _ => 0) 1 = 20 ∧
    readVal 2 (reload (saveRowsPinned 2 (read 2 rows100 (fun _ => 0) 1).2)) (fun _ => 0) 1 = 100 := by decide
/-- repaired: -/
example : readVal 2 (cycle 2 rows100 (fun _ => 0)) (fun _ => 0) 1 = 100 := by decide

/-- a column of default width 98 pt with a 3 pt border on one side (allowance 1.5 pt): every pinned
    save / reopen adds a point. -/
def cols98 : Axis := ⟨2, [], 196, [], []⟩
example : readVal 2 cols98 (fun _ => 3) 0 = 99 ∧
    readVal 2 (reload (saveColsPinned 2 cols98 (fun _ => 3))) (fun _ => 3) 0 = 100 ∧
    readVal 2 (reload (saveColsPinned 2 (reload (saveColsPinned 2 cols98 (fun _ => 3))) (fun _ => 3))) (fun _ => 3) 0 = 101 := by
  decide
example : readVal 2 (cycles 2 (fun _ => 3) 3 cols98) (fun _ => 3) 0 = 99 := by decide

/-- the naive inverse `h − a` is not a solution (round-half-even at .5): `h = 50`, `a = 1.5`
    stores 48.5, which reads back as `⌊48 + 1.5⌋ = 49`. -/
example : floorD (roundHE (50 * 2 - 3) 2 * 2 + 3) 2 = 49 := by decide

/-- pinned: a height set through the API sits in the memo, which the next stroke on the row pops. -/
example : readVal 2 (borderChanged (setSizePinned rows100 1 50) 1 0) (fun _ => 0) 1 = 100 ∧
    readVal 2 (borderChanged (setSize rows100 1 50) 1 0) (fun _ => 0) 1 = 50 := by decide

/-- `Storable` is needed: a requested height equal to the whole-point allowance would be stored as 0
    and read back as the default. -/
example : readVal 2 (cycle 2 (setSize rows100 1 1) (fun _ => 3)) (fun _ => 3) 1 = 21 := by decide

/-! ### non-vacuity -/
example : Storable 2 rows100 (fun _ => 3) := by
  intro i hi
  have : i = 0 ∨ i = 1 ∨ i = 2 := by simp [rows100] at hi; omega
  rcases this with rfl | rfl | rfl <;> decide
/-- a stored half-point size (36.5 pt) with a 1.5 pt allowance: 37 before and after (36.5 rounds to even 36). -/
example : readVal 2 ⟨1, [(0, 73)], 40, [], []⟩ (fun _ => 3) 0 = 37 ∧
    readVal 2 (cycle 2 ⟨1, [(0, 73)], 40, [], []⟩ (fun _ => 3)) (fun _ => 3) 0 = 37 := by decide
example : (Labels.apply ⟨"T".toList, "S".toList, true, false, none, 1, 1, 0, 5⟩ (.setCaptionEnabled true)).observe.captionEnabled
    = false := by decide

end NumbersModel.Props.C16


/-! ## Labels are fields of the reloaded objects (`Model/DocTree.lean`)

`DocTree.labels` is `table_name`, `table_name_enabled`, `caption_enabled`, `caption_text`, `num_header_rows`,
`num_header_cols`, `table_coordinates` as `_NumbersModel` computes them from the stored messages (the table model, the
first table info that points at it, the caption object it refers to and that one's text storage). -/
namespace NumbersModel.Props.C16
open NumbersModel NumbersModel.Layout NumbersModel.DocTree

/-- **labels after save and reopen**: from any package that holds exactly the store's objects (any order of members and of
    archives), every table shows the same name, name visibility, caption visibility, caption text, header counts and
    position; sheet by sheet, in the same order. -/
theorem labels_after_reload (d : Doc) (hv : Valid d) (ms : List Member) (hp : (flatArchives ms).Perm d.objects) :
    allLabels (load ms).objects = allLabels d.objects ∧ ∀ tid, labels (load ms).objects tid = labels d.objects tid := by
  have hn : ((flatArchives ms).map Prod.fst).Nodup := (List.Perm.map Prod.fst hp).nodup_iff.mpr hv.nodup
  rw [load_objects ms hn]
  exact ⟨allLabels_perm d.objects _ hp hv.nodup hv.listed' hv.uniq, fun tid => labels_perm d.objects _ hp hv.nodup hv.uniq tid⟩

/-- … of the saved package and every rearrangement of it, after any history -/
theorem labels_after_reload_history (d0 d : Doc) (ops : List Op) (hv : Valid d0) (hr : run d0 ops = .ok d)
    (hf : (fileIds d.files).Perm (dictKeys d.objects)) (ms : List Member)
    (hp : (flatArchives ms).Perm (flatArchives (serialise d))) :
    allLabels (load ms).objects = allLabels d.objects :=
  have hv' := run_valid ops hv hr
  (labels_after_reload d hv' ms (hp.trans (serialise_perm d hv'.nodup hf))).1

/-! non-vacuity: caption set on a table that had a stand-in caption, name hidden, saved, archives reversed, reopened -/
def exDoc : Doc :=
  { objects := [(1, .document [5]), (5, .sheet "S".toList [11]), (11, .tableInfo 5 10 12 false 7 9),
                (10, .tableModel "T".toList true 1 1), (12, .standinCaption)],
    files := [("Index/Document.iwa".toList, some [1, 5]), ("Index/CalculationEngine.iwa".toList, some [11, 10, 12])],
    maxId := 1000000 }
def exOps : List Op := [.setCaption 10 "cap".toList, .setNameEnabled 10 false, .setHdrRows 10 2, .setCaptionEnabled 10 true]
example : (do let d ← run exDoc exOps; allLabels d.objects) =
    .ok [[⟨"T".toList, false, true, "cap".toList, 2, 1, 7, 9⟩]] := by decide
example : (do let d ← run exDoc exOps
              allLabels (load ((serialise d).map fun (m : Member) => ((m.1, m.2.map List.reverse) : Member)).reverse).objects) =
    .ok [[⟨"T".toList, false, true, "cap".toList, 2, 1, 7, 9⟩]] := by decide
example : allLabels exDoc.objects = .ok [[⟨"T".toList, true, false, "Caption".toList, 1, 1, 7, 9⟩]] := by decide

end NumbersModel.Props.C16
