import NumbersModel.Drv.Proto
import NumbersModel.Model.Cache
namespace NumbersModel.Drv
open NumbersModel NumbersModel.Cache

private def cacheInts (ws : List String) : Option (List Int) := ws.mapM String.toInt?

private def cacheGroups : Nat → List Int → List (List Int)
  | 0, _ => []
  | _, [] => []
  | n + 1, l => l.take (n + 1) :: cacheGroups' (n + 1) (l.drop (n + 1)) l.length
where cacheGroups' : Nat → List Int → Nat → List (List Int)
  | _, [], _ => []
  | _, _, 0 => []
  | k, l, f + 1 => l.take k :: cacheGroups' k (l.drop k) f

/-- `cache key <int>*` → the memo key;  `cache calls <n> <int>*` → results of a sum-of-squares
    method called through the memo on consecutive n-tuples, then the number of misses. -/
def handleCache : List String → Option String
  | "key" :: rest => do
    let xs ← cacheInts rest
    pure ("ok " ++ showText (cacheKey xs))
  | "calls" :: n :: rest => do
    let n ← n.toNat?
    let xs ← cacheInts rest
    if n = 0 then none else
    let calls := cacheGroups n xs
    let f (a : List Int) : Int := (a.zipIdx.map fun p => p.1 * p.1 + (p.2 : Int)).sum
    let (vs, st) := memoCalls f [] calls
    pure ("ok " ++ " ".intercalate (vs.map toString) ++ " | " ++ toString st.length)
  | _ => none

end NumbersModel.Drv
