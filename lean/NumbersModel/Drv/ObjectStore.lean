import NumbersModel.Drv.Proto
import NumbersModel.Drv.Layout
import NumbersModel.Model.ObjectStore
namespace NumbersModel.Drv
open NumbersModel NumbersModel.Layout NumbersModel.ObjStore

def takeText : List String → Option (Text × List String)
  | w :: r => (parseText w).map (·, r)
  | [] => none

/-- `<name> <kind 0|1> <n> <id>*n` (kind 0 = non-IWA blob) -/
def takeFile (ws : List String) : Option ((Text × Option (List Nat)) × List String) := do
  let (name, ws) ← takeText ws
  let (kind, ws) ← takeNat ws
  let (segs, ws) ← takeCounted takeNat ws
  pure ((name, if kind = 0 then none else some segs), ws)

/-- `<component>:<object>:<weak 0|1>` -/
def takeExtRef : List String → Option (ExtRef × List String)
  | w :: r => match w.splitOn ":" with
    | [c, o, k] => do pure (⟨← c.toNat?, ← o.toNat?, ← parseBool k⟩, r)
    | _ => none
  | [] => none

def takeComponent (ws : List String) : Option (Component × List String) := do
  let (id, ws) ← takeNat ws
  let (loc, ws) ← takeText ws
  let (pref, ws) ← takeText ws
  let (refs, ws) ← takeCounted takeExtRef ws
  pure (⟨id, loc, pref, refs⟩, ws)

def showNats (l : List Nat) : String := if l.isEmpty then "-" else "+".intercalate (l.map toString)

def showExtRefs (l : List ExtRef) : String :=
  if l.isEmpty then "-" else "+".intercalate (l.map fun e => s!"{e.component}:{e.object}:{if e.weak then 1 else 0}")

def showStore (st : Store) : String :=
  let files := st.files.map fun f => showText f.1 ++ "=" ++ (match f.2 with | none => "B" | some s => showNats s)
  let comps := st.components.map fun c => s!"{c.identifier}/{showText c.locator}/{showText c.preferred}/{showExtRefs c.externalRefs}"
  s!"max={st.maxId} last={st.lastObjId} ids={showNats st.ids} files={" ".intercalate files} comps={" ".intercalate comps}"

partial def runOps : Store → List String → List String → Option (List String × Store)
  | st, [], acc => some (acc.reverse, st)
  | st, "C" :: f :: a :: rest, acc => do
    let f ← parseText f; let a ← parseBool a
    let (st', r) := createObject st f a
    runOps st' rest (showPyM toString r :: acc)
  | st, "M" :: i :: p :: l :: rest, acc => do
    let i ← i.toNat?; let p ← parseText p; let l ← parseText l
    let (st', r) := addComponentMetadata st i p l
    runOps st' rest (showPyM (fun _ => "-") r :: acc)
  | st, "L" :: l :: p :: rest, acc => do
    let l ← parseText l; let p ← parseText p
    let (st', r) := createListed st l p
    runOps st' rest (showPyM toString r :: acc)
  | _, _, _ => none

/-! object-graph histories -/

def takeIdText (ws : List String) : Option ((Nat × Text) × List String) := do
  let (i, ws) ← takeNat ws
  let (t, ws) ← takeText ws
  pure ((i, t), ws)

def takeIdNats (ws : List String) : Option ((Nat × List Nat) × List String) := do
  let (i, ws) ← takeNat ws
  let (l, ws) ← takeCounted takeNat ws
  pure ((i, l), ws)

/-- ops: `C <file> <append> <n> <ref>*n` | `M <id> <parent> <locator>` | `E <id> <-|L<location>> <-|component> <weak>` |
    `A <obj> <tgt>` | `X <obj> <tgt>` | `S <obj> <old> <new>` | `U` | `B <name>` -/
partial def parseGOps : List String → List GOp → Option (List GOp)
  | [], acc => some acc.reverse
  | "C" :: f :: a :: rest, acc => do
    let f ← parseText f; let a ← parseBool a
    let (rs, rest) ← takeCounted takeNat rest
    parseGOps rest (.create f a rs :: acc)
  | "M" :: i :: p :: l :: rest, acc => do
    parseGOps rest (.addMeta (← i.toNat?) (← parseText p) (← parseText l) :: acc)
  | "E" :: i :: l :: c :: w :: rest, acc => do
    let loc ← if l == "-" then some none else (parseText (l.drop 1).toString).map some
    let cid ← if c == "-" then some none else c.toNat?.map some
    parseGOps rest (.extRef (← i.toNat?) loc cid (← parseBool w) :: acc)
  | "A" :: o :: t :: rest, acc => do parseGOps rest (.addRef (← o.toNat?) (← t.toNat?) :: acc)
  | "X" :: o :: t :: rest, acc => do parseGOps rest (.clearRef (← o.toNat?) (← t.toNat?) :: acc)
  | "S" :: o :: a :: b :: rest, acc => do parseGOps rest (.setRef (← o.toNat?) (← a.toNat?) (← b.toNat?) :: acc)
  | "U" :: rest, acc => parseGOps rest (.update :: acc)
  | "B" :: n :: rest, acc => do parseGOps rest (.blob (← parseText n) :: acc)
  | _, _ => none

/-- result of one operation as the real call reports it (only creation / metadata calls have one) -/
def gopResult (g : GStore) : GOp → Option String
  | .create f a rs => some (showPyM toString (createG g f a rs).2)
  | .addMeta i p l => some (showPyM (fun _ => "-") (addComponentMetadata g.toStore i p l).2)
  | .extRef i l c w => some (showPyM (fun _ => "-") (addComponentReference g.toStore i l c w).2)
  | .update => match (updateFileStore g).2 with | .ok _ => none | .error e => some (showExc e)
  | _ => none

/-- one pass: results, final state, and `targetsExistEx` for no exemption / for the exemption of identifier 0
    (`targetsExistEx ex g ops` is the conjunction of `opTargetsOk ex` along the run) -/
def runGOps : GStore → List GOp → List String → Bool → Bool → List String × GStore × Bool × Bool
  | g, [], acc, t, t0 => (acc.reverse, g, t, t0)
  | g, op :: r, acc, t, t0 =>
    runGOps (stepG g op) r (match gopResult g op with | some s => s :: acc | none => acc)
      (t && opTargetsOk (fun _ => false) g op) (t0 && opTargetsOk (· == 0) g op)

def sortNats (l : List Nat) : List Nat := l.mergeSort (fun a b => decide (a ≤ b))
def sortStrs (l : List String) : List String := l.mergeSort (fun a b => !(decide (b < a)))

def showIdLists (d : List (Nat × List Nat)) : String :=
  let d := (d.filter (fun e => !e.2.isEmpty)).mergeSort (fun a b => decide (a.1 ≤ b.1))
  if d.isEmpty then "-" else " ".intercalate (d.map fun e => s!"{e.1}:{showNats (sortNats e.2)}")

/-- the package a save writes now: archive inventory, components, per archive the references of the written message and the
    header's object_references (sorted; directory entries of the source zip are not members of a saved package) -/
def showG (g : GStore) : String :=
  let files := g.files.filterMap fun f => match f.2 with
    | none => if f.1.getLast? == some '/' then none else some (showText f.1 ++ "=B")
    | some s => some (showText f.1 ++ "=" ++ showNats s)
  let comps := g.components.map fun c => s!"{c.identifier}/{showText c.locator}/{showText c.preferred}/{showExtRefs c.externalRefs}"
  let written := g.ids.map fun i => (i, g.writtenOf i)
  s!"last={g.lastObjId} ids={showNats (sortNats g.ids)} files={" ".intercalate (sortStrs files)} comps={" ".intercalate comps} refs={showIdLists written} hdr={showIdLists g.hdr}"

def showGeom (t : TileGeom) : String := s!"{t.tileid}:{t.rowStart}:{t.numRows}"

def takeCell : List String → Option (Option Bytes × List String)
  | "N" :: r => some (none, r)
  | w :: r => (parseBytes w).map (fun b => (some b, r))
  | [] => none

def handleOStore : List String → Option String
  | ["round", m] => do pure s!"ok {roundUpMillion (← m.toNat?)}"
  | "hist" :: last :: rest => do
    let last ← last.toNat?
    let (ids, rest) ← takeCounted takeNat rest
    let (files, rest) ← takeCounted takeFile rest
    let (comps, rest) ← takeCounted takeComponent rest
    match openStore ids last files comps with
    | .error e => pure (showExc e)
    | .ok st =>
      let (outs, st') ← runOps st rest []
      pure (";".intercalate outs ++ " | " ++ showStore st')
  | "ghist" :: last :: rest => do
    let last ← last.toNat?
    let (ids, rest) ← takeCounted takeNat rest
    let (files, rest) ← takeCounted takeFile rest
    let (comps, rest) ← takeCounted takeComponent rest
    let (fileOf, rest) ← takeCounted takeIdText rest
    let (refs, rest) ← takeCounted takeIdNats rest
    let (hdr, rest) ← takeCounted takeIdNats rest
    let ops ← parseGOps rest []
    match openG ids last files comps fileOf refs hdr with
    | .error e => pure (showExc e)
    | .ok g =>
      let (outs, g', t, t0) := runGOps g ops [] true true
      let b := fun (x : Bool) => if x then "1" else "0"
      pure (s!"{if outs.isEmpty then "-" else ";".intercalate outs} | filed={b (wellFiled g)}/{b (wellFiled g')} targets={b t}/{b t0} | {showG g'}")
  | ["tiles", pinned, n] => do
    let n ← n.toNat?; let pinned ← parseBool pinned
    let ts := if pinned then tilesPinned n else tiles n
    pure (if ts.isEmpty then "-" else " ".intercalate (ts.map showGeom))
  | "rowinfo" :: rest => do
    let (cells, _) ← takeCounted takeCell rest
    pure (showPyM (fun (r : Bytes × Bytes × Nat) => s!"{showBytes r.1} {showBytes r.2.1} {r.2.2}") (rowInfo cells))
  | _ => none

end NumbersModel.Drv
