import NumbersModel.Drv.Proto
import NumbersModel.Drv.Layout
import NumbersModel.Model.ObjectStore
namespace NumbersModel.Drv
open NumbersModel NumbersModel.Layout NumbersModel.ObjStore

def takeText : List String → Option (Text × List String)
  | w :: r => (parseText w).map (·, r)
  | [] => none

/-- `<name> <kind 0|1> <n> <id>*n` (kind 0 = non-IWA blob) -/
def takeFile (ws : List String) : Option ((Text × Option (List Nat)) × List String) := do
  let (name, ws) ← takeText ws
  let (kind, ws) ← takeNat ws
  let (segs, ws) ← takeCounted takeNat ws
  pure ((name, if kind = 0 then none else some segs), ws)

def takeComponent (ws : List String) : Option (Component × List String) := do
  let (id, ws) ← takeNat ws
  let (loc, ws) ← takeText ws
  let (pref, ws) ← takeText ws
  let (refs, ws) ← takeCounted takeNat ws
  pure (⟨id, loc, pref, refs⟩, ws)

def showNats (l : List Nat) : String := if l.isEmpty then "-" else "+".intercalate (l.map toString)

def showStore (st : Store) : String :=
  let files := st.files.map fun f => showText f.1 ++ "=" ++ (match f.2 with | none => "B" | some s => showNats s)
  let comps := st.components.map fun c => s!"{c.identifier}/{showText c.locator}/{showText c.preferred}/{showNats c.externalRefs}"
  s!"max={st.maxId} last={st.lastObjId} ids={showNats st.ids} files={" ".intercalate files} comps={" ".intercalate comps}"

partial def runOps : Store → List String → List String → Option (List String × Store)
  | st, [], acc => some (acc.reverse, st)
  | st, "C" :: f :: a :: rest, acc => do
    let f ← parseText f; let a ← parseBool a
    let (st', r) := createObject st f a
    runOps st' rest (showPyM toString r :: acc)
  | st, "M" :: i :: p :: l :: rest, acc => do
    let i ← i.toNat?; let p ← parseText p; let l ← parseText l
    let (st', r) := addComponentMetadata st i p l
    runOps st' rest (showPyM (fun _ => "-") r :: acc)
  | st, "L" :: l :: p :: rest, acc => do
    let l ← parseText l; let p ← parseText p
    let (st', r) := createListed st l p
    runOps st' rest (showPyM toString r :: acc)
  | _, _, _ => none

def showGeom (t : TileGeom) : String := s!"{t.tileid}:{t.rowStart}:{t.numRows}"

def takeCell : List String → Option (Option Bytes × List String)
  | "N" :: r => some (none, r)
  | w :: r => (parseBytes w).map (fun b => (some b, r))
  | [] => none

def handleOStore : List String → Option String
  | ["round", m] => do pure s!"ok {roundUpMillion (← m.toNat?)}"
  | "hist" :: last :: rest => do
    let last ← last.toNat?
    let (ids, rest) ← takeCounted takeNat rest
    let (files, rest) ← takeCounted takeFile rest
    let (comps, rest) ← takeCounted takeComponent rest
    match openStore ids last files comps with
    | .error e => pure (showExc e)
    | .ok st =>
      let (outs, st') ← runOps st rest []
      pure (";".intercalate outs ++ " | " ++ showStore st')
  | ["tiles", pinned, n] => do
    let n ← n.toNat?; let pinned ← parseBool pinned
    let ts := if pinned then tilesPinned n else tiles n
    pure (if ts.isEmpty then "-" else " ".intercalate (ts.map showGeom))
  | "rowinfo" :: rest => do
    let (cells, _) ← takeCounted takeCell rest
    pure (showPyM (fun (r : Bytes × Bytes × Nat) => s!"{showBytes r.1} {showBytes r.2.1} {r.2.2}") (rowInfo cells))
  | _ => none

end NumbersModel.Drv
