import NumbersModel.Drv.Proto
import NumbersModel.Model.Sizes
namespace NumbersModel.Drv
open NumbersModel NumbersModel.Sizes

def sTakeInts : Nat → List String → Option (List Int × List String)
  | 0, rest => some ([], rest)
  | n + 1, w :: rest => do
    let x ← w.toInt?
    let (xs, rest') ← sTakeInts n rest
    pure (x :: xs, rest')
  | _, [] => none

def sParseHeaders : Nat → List String → Option (List (Nat × Int) × List String)
  | 0, rest => some ([], rest)
  | n + 1, i :: s :: rest => do
    let i ← i.toNat?; let s ← s.toInt?
    let (hs, rest') ← sParseHeaders n rest
    pure ((i, s) :: hs, rest')
  | _, _ => none

def allowOf (v : List Int) (i : Nat) : Int := v.getD i 0

/-- ops: `S i h` set | `R i` read (prints) | `T` total (prints) | `B i j a_0 … a_{n-1}` memo invalidation of a
    stroke + the allowances after it | `C` save and reopen | `P…` the same with the pinned save of rows /
    columns (`PR`, `PC`) and the pinned setter (`PS i h`). -/
partial def runSizes (D n : Nat) : Axis → List Int → List String → List String → Option (List String)
  | _, _, [], acc => some acc.reverse
  | ax, al, "S" :: i :: h :: rest, acc => do
    let i ← i.toNat?; let h ← h.toInt?
    runSizes D n (setSize ax i h) al rest acc
  | ax, al, "PS" :: i :: h :: rest, acc => do
    let i ← i.toNat?; let h ← h.toInt?
    runSizes D n (setSizePinned ax i h) al rest acc
  | ax, al, "R" :: i :: rest, acc => do
    let i ← i.toNat?
    let r := read D ax (allowOf al) i
    runSizes D n r.2 al rest (toString r.1 :: acc)
  | ax, al, "T" :: rest, acc =>
    -- table_height / table_width read every size (memoising); the value is their sum
    let r := (List.range ax.n).foldl (fun (p : Int × Axis) i => let q := read D p.2 (allowOf al) i; (p.1 + q.1, q.2)) (0, ax)
    runSizes D n r.2 al rest (toString r.1 :: acc)
  | ax, _, "B" :: i :: j :: rest, acc => do
    let i ← i.toNat?; let j ← j.toNat?
    let (al', rest') ← sTakeInts n rest
    runSizes D n (borderChanged ax i j) al' rest' acc
  | ax, al, "C" :: rest, acc => runSizes D n (cycle D ax (allowOf al)) al rest acc
  | ax, al, "PR" :: rest, acc => runSizes D n (reload (saveRowsPinned D ax)) al rest acc
  | ax, al, "PC" :: rest, acc => runSizes D n (reload (saveColsPinned D ax (allowOf al))) al rest acc
  | _, _, _, _ => none

/-- `sizes run <D> <n> <default·D> <nheaders> (index size·D)* <allowance·D>*n <op>*` → `ok <values printed by R / T>` -/
def handleSizes : List String → Option String
  | "run" :: d :: n :: dflt :: nh :: rest => do
    let d ← d.toNat?; let n ← n.toNat?; let dflt ← dflt.toInt?; let nh ← nh.toNat?
    if d = 0 then none else
    let (hs, rest) ← sParseHeaders nh rest
    let (al, rest) ← sTakeInts n rest
    let outs ← runSizes d n ⟨n, hs, dflt, [], []⟩ al rest []
    pure ("ok " ++ " ".intercalate outs)
  | _ => none

def showObs (o : Obs) : String :=
  " ".intercalate [showText o.tableName, showText o.sheetName, if o.nameEnabled then "1" else "0",
    if o.captionEnabled then "1" else "0", showText o.caption, toString o.hdrRows, toString o.hdrCols, toString o.x, toString o.y]

def runLabels : Labels → List String → List String → Option (List String)
  | _, [], acc => some acc.reverse
  | l, "tn" :: s :: rest, acc => do let s ← parseText s; runLabels (l.apply (.setTableName s)) rest acc
  | l, "sn" :: s :: rest, acc => do let s ← parseText s; runLabels (l.apply (.setSheetName s)) rest acc
  | l, "ne" :: b :: rest, acc => do let b ← parseBool b; runLabels (l.apply (.setNameEnabled b)) rest acc
  | l, "ce" :: b :: rest, acc => do let b ← parseBool b; runLabels (l.apply (.setCaptionEnabled b)) rest acc
  | l, "ct" :: s :: rest, acc => do let s ← parseText s; runLabels (l.apply (.setCaption s)) rest acc
  | l, "hr" :: n :: rest, acc => do let n ← n.toNat?; runLabels (l.apply (.setHdrRows n)) rest acc
  | l, "hc" :: n :: rest, acc => do let n ← n.toNat?; runLabels (l.apply (.setHdrCols n)) rest acc
  | l, "O" :: rest, acc => runLabels l rest (showObs l.observe :: acc)
  | l, "C" :: rest, acc => runLabels (Labels.ofArchive l.toArchive) rest acc
  | _, _, _ => none

/-- `labels run <tableName> <sheetName> <nameEnabled> <captionHidden> <standin 0/1> <ntexts> <text>* <hdrRows> <hdrCols> <x> <y> <op>*`
    ops: `tn s | sn s | ne b | ce b | ct s | hr n | hc n | O (observe) | C (save + reopen)` → `ok <obs> ; <obs> …` -/
def handleLabels : List String → Option String
  | "run" :: tn :: sn :: ne :: ch :: standin :: nt :: rest => do
    let tn ← parseText tn; let sn ← parseText sn; let ne ← parseBool ne; let ch ← parseBool ch
    let standin ← parseBool standin; let nt ← nt.toNat?
    if rest.length < nt + 4 then none else
    let texts ← (rest.take nt).mapM parseText
    match rest.drop nt with
    | hr :: hc :: x :: y :: ops => do
      let hr ← hr.toNat?; let hc ← hc.toNat?; let x ← x.toInt?; let y ← y.toInt?
      let l : Labels := ⟨tn, sn, ne, ch, if standin then none else some texts, hr, hc, x, y⟩
      let outs ← runLabels l ops []
      pure ("ok " ++ " ; ".intercalate outs)
    | _ => none
  | _ => none

end NumbersModel.Drv
