import NumbersModel.Drv.Proto
import NumbersModel.Model.Items
namespace NumbersModel.Drv
open NumbersModel NumbersModel.Items

/-- one collection history per line:
    `items hist <PrefixU> <prefixL> <n0> (<name> <lname>)*n0  <op>*`
    ops: `A <name> <lname>` | `U` | `R <idx> <name> <lname>` | `I <int>` | `N <name>` | `C <lname>`.
    reply: outcomes separated by `;`, then `|` and the final names. -/
partial def runHist (pu pl : Text) : Coll → Nat → List String → List String → Option (List String × Coll)
  | items, _, [], acc => some (acc.reverse, items)
  | items, nid, "A" :: nm :: lnm :: rest, acc => do
    let nm ← parseText nm; let lnm ← parseText lnm
    match add items pu pl nid (some (nm, lnm)) with
    | .ok it' => runHist pu pl it' (nid + 1) rest ("ok" :: acc)
    | .error e => runHist pu pl items nid rest (("err " ++ e.name) :: acc)
  | items, nid, "U" :: rest, acc =>
    match add items pu pl nid none with
    | .ok it' => runHist pu pl it' (nid + 1) rest (("ok " ++ showText ((it'.getLast?.map (·.name)).getD [])) :: acc)
    | .error e => runHist pu pl items nid rest (("err " ++ e.name) :: acc)
  | items, nid, "R" :: idx :: nm :: lnm :: rest, acc => do
    let idx ← idx.toNat?; let nm ← parseText nm; let lnm ← parseText lnm
    runHist pu pl (rename items idx nm lnm) nid rest ("ok" :: acc)
  | items, nid, "I" :: i :: rest, acc => do
    let i ← i.toInt?
    runHist pu pl items nid rest (showPyM (fun (it : Item) => toString it.id) (getByIndex items i) :: acc)
  | items, nid, "N" :: nm :: rest, acc => do
    let nm ← parseText nm
    runHist pu pl items nid rest (showPyM (fun (it : Item) => toString it.id) (getByName items nm) :: acc)
  | items, nid, "C" :: lnm :: rest, acc => do
    let lnm ← parseText lnm
    runHist pu pl items nid rest ((if containsCI items lnm then "ok 1" else "ok 0") :: acc)
  | _, _, _, _ => none

def parseInit : Nat → Nat → List String → Coll → Option (Coll × List String)
  | 0, _, rest, acc => some (acc.reverse, rest)
  | k + 1, id, nm :: lnm :: rest, acc => do
    let nm ← parseText nm; let lnm ← parseText lnm
    parseInit k (id + 1) rest (⟨id, nm, lnm⟩ :: acc)
  | _, _, _, _ => none

def handleItems : List String → Option String
  | "hist" :: pu :: pl :: n0 :: rest => do
    let pu ← parseText pu; let pl ← parseText pl; let n0 ← n0.toNat?
    let (init, ops) ← parseInit n0 0 rest []
    let (outs, final) ← runHist pu pl init n0 ops []
    pure (";".intercalate outs ++ " | " ++ " ".intercalate (final.map (fun it => showText it.name)))
  | _ => none

end NumbersModel.Drv
