import NumbersModel.Drv.Proto
import NumbersModel.Drv.CellRecord
import NumbersModel.Model.Decimal128
import NumbersModel.Model.RowStorage
namespace NumbersModel.Drv
open NumbersModel

def showDec (d : Decimal128.Dec) : String := s!"{if d.sign then 1 else 0} {d.coeff} {d.exp}"

def handleD128 : List String → Option String
  | ["pack", s, c, e] => do
    let s ← parseBool s; let c ← c.toNat?; let e ← e.toInt?
    pure (showPyM showBytes (Decimal128.pack { sign := s, coeff := c, exp := e }))
  | ["unpack", b] => do
    let b ← parseBytes b
    pure (showPyM showDec (Decimal128.unpack b))
  | _ => none

def showRow (l : List (Option Bytes)) : String :=
  if l.isEmpty then "-" else " ".intercalate (l.map showOptBytes)

def handleRow : List String → Option String
  | "info" :: width0 :: cells => do
    let w ← width0.toNat?
    let cells ← parseFields cells
    pure (showPyM (fun (r : Bytes × Bytes × Nat) => s!"{showBytes r.1} {showBytes r.2.1} {r.2.2}")
      (RowStorage.rowInfo w cells))
  | ["bufs", storage, offsets, ncols, wide] => do
    let st ← parseBytes storage; let off ← parseBytes offsets
    let n ← ncols.toNat?; let w ← parseBool wide
    pure (showPyM showRow (RowStorage.rowBuffers st off n w))
  | ["tiles", n] => do
    let n ← n.toNat?
    let t := RowStorage.tiles (List.range n)
    pure ("ok " ++ " ".intercalate (t.map fun (i, rows) =>
      s!"{i}:{rows.length}:{match rows.head? with | some h => toString h | none => "-"}"))
  | _ => none

end NumbersModel.Drv
