import NumbersModel.Drv.Proto
import NumbersModel.Drv.NumFmt
import NumbersModel.Model.CustomFmt
import NumbersModel.Gen.Constants
namespace NumbersModel.Drv
open NumbersModel NumbersModel.NumFmt NumbersModel.CustomFmt

def showBool (b : Bool) : String := if b then "1" else "0"

def parsePadding (w : String) : Option PaddingType :=
  if w == "0" then some .none else if w == "1" then some .zeros else if w == "2" then some .spaces else none

/-- `-` = None; `<ft>:n` no custom_uid; `<ft>:m` custom_uid missing from the map; `<ft>:<ft2>.<frac>` -/
def parseFormatRef (w : String) : Option (Option FormatRef) :=
  if w == "-" then some none else
  match w.splitOn ":" with
  | [ft, u] => do
    let ft ← ft.toNat?
    if u == "n" then pure (some ⟨FormatType.ofCode ft, none⟩)
    else if u == "m" then pure (some ⟨FormatType.ofCode ft, some none⟩)
    else match u.splitOn "." with
      | [ft2, frac] => do
        let ft2 ← ft2.toNat?; let frac ← parseBool frac
        pure (some ⟨FormatType.ofCode ft, some (some (FormatType.ofCode ft2, frac))⟩)
      | _ => none
  | _ => none

def showRenderer : Renderer → String
  | .durationFormat => "duration_format" | .dateFormat => "date_format" | .strValue => "str_value"
  | .formatFraction => "format_fraction" | .decodeTextFormat => "decode_text_format"
  | .decodeNumberFormat => "decode_number_format" | .formatDecimal => "format_decimal"
  | .formatCurrency => "format_currency" | .boolText => "bool_text" | .formatPercent => "format_percent"
  | .formatBase => "format_base" | .formatScientific => "format_scientific" | .checkbox => "checkbox"
  | .rating => "rating"

def showArchive (a : Archive) : String :=
  " ".intercalate [showText a.formatString, showBool a.scaleIsOne, showText a.currencyCode, showBool a.showThousands,
    toString a.numNonspaceInt, toString a.numNonspaceDec, showBool a.requiresFraction, showBool a.containsIntegerToken,
    toString a.decimalWidth, toString a.indexFromRightLastInteger, showBool a.isComplex, toString a.minIntegerWidth,
    toString a.numHashDecimalDigits, toString a.totalNumDecimalDigits, showBool a.useAccountingStyle]

def handleCustomFmt : List String → Option String
  | ["num", fs, one, cur, thou, nsi, nsd, n1, m1, e1, n2, m2, e2, n3, m3, e3, n4, m4, e4] => do
    let fs ← parseText fs; let one ← parseBool one; let cur ← parseText cur; let thou ← parseBool thou
    let nsi ← nsi.toNat?; let nsd ← nsd.toNat?
    let vr ← parseDec n1 m1 e1; let vx ← parseDec n2 m2 e2; let wr ← parseDec n3 m3 e3; let wx ← parseDec n4 m4 e4
    let a : Archive := ⟨fs, one, cur, thou, nsi, nsd, false, false, 0, 0, false, 0, 0, 0, false⟩
    pure (showPyM showText (decodeNumberFormat Gen.digitZeros a ⟨vr, vx⟩ ⟨wr, wx⟩))
  | ["build", ifmt, dfmt, ni, nd, thou] => do
    let ifmt ← parsePadding ifmt; let dfmt ← parsePadding dfmt
    let ni ← ni.toNat?; let nd ← nd.toNat?; let thou ← parseBool thou
    pure ("ok " ++ showArchive (buildArchive ifmt dfmt ni nd thou))
  | ["text", ph, fs, v] => do
    let ph ← ph.toNat?; let fs ← parseText fs; let v ← parseText v
    pure ("ok " ++ showText (decodeTextFormat (Char.ofNat ph) fs v))
  | ["expand", t] => do
    let t ← parseText t
    pure ("ok " ++ showText (expandQuotes t false))
  | ["zpad", w, n] => do
    let w ← w.toNat?; let n ← n.toNat?
    pure ("ok " ++ showText (zeroPadGrouped w w (natStr n)))
  | ["dispatch", isText, isBool, dur, date, t, c, b, n] => do
    let isText ← parseBool isText; let isBool ← parseBool isBool; let dur ← parseBool dur; let date ← parseBool date
    let t ← parseFormatRef t; let c ← parseFormatRef c; let b ← parseFormatRef b; let n ← parseFormatRef n
    pure (showPyM showRenderer (formattedValueRenderer ⟨isText, isBool, dur, date, t, c, b, n⟩))
  | ["dispatchc", isText, isBool, dur, date, t, c, b, n] => do   -- coarse: the renderers written inline are one class
    let isText ← parseBool isText; let isBool ← parseBool isBool; let dur ← parseBool dur; let date ← parseBool date
    let t ← parseFormatRef t; let c ← parseFormatRef c; let b ← parseFormatRef b; let n ← parseFormatRef n
    let coarse : Renderer → String := fun r => match r with
      | .strValue | .boolText | .checkbox | .rating => "inline"
      | r => showRenderer r
    pure (showPyM coarse (formattedValueRenderer ⟨isText, isBool, dur, date, t, c, b, n⟩))
  | _ => none

end NumbersModel.Drv
