import NumbersModel.Drv.Proto
import NumbersModel.Model.Duration
namespace NumbersModel.Drv
open NumbersModel NumbersModel.Duration

def handleDuration : List String → Option String
  | ["fmt", ms, style, largest, smallest, auto] => do
    let ms ← ms.toNat?; let style ← style.toNat?; let largest ← largest.toNat?
    let smallest ← smallest.toNat?; let auto ← parseBool auto
    pure ("ok " ++ showText (durationFormat ms ⟨style, largest, smallest, auto⟩))
  | ["units", ms, largest, smallest] => do
    let ms ← ms.toNat?; let largest ← largest.toNat?; let smallest ← smallest.toNat?
    let u := autoUnits ms ⟨0, largest, smallest, true⟩
    pure s!"ok {u.1} {u.2}"
  | _ => none

end NumbersModel.Drv
