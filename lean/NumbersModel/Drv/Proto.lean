/-
Line-protocol helpers for the model driver.  A request is one line of space-separated
words: `<model> <op> <arg>...`.  Ints are decimal; text is `-` (empty) or comma-separated
hex code points; bytes are `-` or a hex string; a reply is one line.
-/
import NumbersModel.Py.Basic
namespace NumbersModel.Drv
open NumbersModel

def hexVal (c : Char) : Option Nat :=
  if '0' ≤ c ∧ c ≤ '9' then some (c.toNat - 48)
  else if 'a' ≤ c ∧ c ≤ 'f' then some (c.toNat - 87)
  else if 'A' ≤ c ∧ c ≤ 'F' then some (c.toNat - 55)
  else none

def parseHex (s : String) : Option Nat :=
  if s.isEmpty then none else
  s.toList.foldl (fun acc c => match acc, hexVal c with
    | some a, some v => some (a * 16 + v)
    | _, _ => none) (some 0)

def parseText (w : String) : Option Text :=
  if w == "-" then some [] else
  (w.splitOn ",").foldr (fun p acc => match parseHex p, acc with
    | some n, some l => some (Char.ofNat n :: l)
    | _, _ => none) (some [])

def hexDigit (n : Nat) : Char := if n < 10 then Char.ofNat (48 + n) else Char.ofNat (87 + n)

def toHex (n : Nat) : String :=
  let rec go : Nat → Nat → List Char → List Char
    | 0, _, acc => acc
    | f + 1, n, acc => if n < 16 then hexDigit n :: acc else go f (n / 16) (hexDigit (n % 16) :: acc)
  String.ofList (go 16 n [])

def showText (t : Text) : String :=
  if t.isEmpty then "-" else ",".intercalate (t.map fun c => toHex c.toNat)

def parseBytes (w : String) : Option Bytes :=
  if w == "-" then some [] else
  let rec go : List Char → Option Bytes
    | [] => some []
    | [_] => none
    | a :: b :: r => match hexVal a, hexVal b, go r with
      | some x, some y, some l => some (UInt8.ofNat (x * 16 + y) :: l)
      | _, _, _ => none
  go w.toList

def showBytes (b : Bytes) : String :=
  if b.isEmpty then "-" else
  String.ofList (b.foldr (fun x acc => hexDigit (x.toNat / 16) :: hexDigit (x.toNat % 16) :: acc) [])

def parseBool (w : String) : Option Bool :=
  if w == "1" then some true else if w == "0" then some false else none

def showExc (e : PyExc) : String := "err " ++ e.name

def showPyM {α} (f : α → String) : PyM α → String
  | .ok a => "ok " ++ f a
  | .error e => showExc e

end NumbersModel.Drv
