/-
Driver arm `doc` for Model/Document.lean (C02).

  doc <op> <maxId> <nfiles> file… <nobjs> obj… TABLES <n> table…       op = dump | resave | resave2
      (the tree exactly as `doctree hist` takes it: harness/doctree.py `snapshot`)
  table = <tid> <pivot 0|1>
          G <R> (<C> tcell{C}){R}                              tcell as in `table save`
          M <n> (r:c:A:h:w | r:c:R:r0:c0:r1:c1){n}             the `MergeCells` dict in its order
          F <n> (<key> <k> node{k}){n}                         formula list; node as in `formula exec`
          X <n> (<key>=<archive>){n}                           format list; archive as in `fmtd show` (`f.num=` value)
          H <n> (<key>:<token>){n}                             rich-text list (opaque tokens)
          I <R> (<C> icell{C}){R}                              icell = <flags>|<cell token>|…  (cell tokens as in `fmtd show`,
                                                               without the `f.*` ones); flags: 1 = formatted value unmodelled,
                                                               2 = formula unmodelled (printed as `U` — the harness prints `U` too)
          RT <n> (r:c:i:<text>){n}                             `str(node_to_ref(…))` of node i of the formula of host (r, c)
  reply = ok <sheets> (S <name> <tables> (T <name> P | T <name> L <rows> <cols> <k> range{k} (<C> cell{C}){rows}))
      cell = class/payload/text/formula/formatted/rich/merge
-/
import NumbersModel.Drv.Proto
import NumbersModel.Drv.CellRecord
import NumbersModel.Drv.TablePipeline
import NumbersModel.Drv.DocTree
import NumbersModel.Drv.Formula
import NumbersModel.Drv.FormatDispatch
import NumbersModel.Model.Document
namespace NumbersModel.Drv.DocD
open NumbersModel NumbersModel.Drv NumbersModel.Document NumbersModel.CellRecord

structure TableIn where
  tid : Nat
  st : TableSt
  interp : List (List (Nat × FormatDispatch.Cell))
  refs : List ((Nat × Nat × Nat) × Text)

def parseInt' (w : String) : Option Int := w.toInt?

def parseMEntry (w : String) : Option (Merge.Key × Merge.MRef) :=
  match w.splitOn ":" with
  | [r, c, "A", h, w'] => do pure ((← r.toInt?, ← c.toInt?), .anchor (← h.toInt?) (← w'.toInt?))
  | [r, c, "R", r0, c0, r1, c1] => do
    pure ((← r.toInt?, ← c.toInt?), .ref (← r0.toInt?) (← c0.toInt?) (← r1.toInt?) (← c1.toInt?))
  | _ => none

def parseFormula : List String → Option ((Int × List Formula.Node) × List String)
  | key :: ws => do
    let key ← key.toInt?
    let (nodes, rest) ← tpParseCounted (tpOne parseNode) ws
    pure ((key, nodes), rest)
  | [] => none

def parseFmtEntry (w : String) : Option (Int × FormatDispatch.Fmt) :=
  match w.splitOn "=" with
  | [k, v] => do pure (← k.toInt?, ← Fmtd.parseFmt v)
  | _ => none

def parseRich (w : String) : Option (Int × Nat) :=
  match w.splitOn ":" with
  | [k, v] => do pure (← k.toInt?, ← v.toNat?)
  | _ => none

def parseICell (w : String) : Option (Nat × FormatDispatch.Cell) :=
  match w.splitOn "|" with
  | flags :: toks => do
    let flags ← flags.toNat?
    if flags % 2 == 1 then pure (flags, { kind := .empty })
    else
      let c ← Fmtd.parseCell (← Fmtd.parseKV toks)
      pure (flags, c)
  | [] => none

def parseRT (w : String) : Option ((Nat × Nat × Nat) × Text) :=
  match w.splitOn ":" with
  | [r, c, i, t] => do pure ((← r.toNat?, ← c.toNat?, ← i.toNat?), ← parseText t)
  | _ => none

def expect (tag : String) : List String → Option (List String)
  | w :: ws => if w == tag then some ws else none
  | [] => none

def parseTable : List String → Option (TableIn × List String)
  | tid :: pv :: ws => do
    let tid ← tid.toNat?
    let pv ← parseBool pv
    let ws ← expect "G" ws
    let (grid, ws) ← tpParseCounted (tpParseCounted (tpOne parseTCell)) ws
    let ws ← expect "M" ws
    let (mm, ws) ← tpParseCounted (tpOne parseMEntry) ws
    let ws ← expect "F" ws
    let (fs, ws) ← tpParseCounted parseFormula ws
    let ws ← expect "X" ws
    let (xs, ws) ← tpParseCounted (tpOne parseFmtEntry) ws
    let ws ← expect "H" ws
    let (hs, ws) ← tpParseCounted (tpOne parseRich) ws
    let ws ← expect "I" ws
    let (is, ws) ← tpParseCounted (tpParseCounted (tpOne parseICell)) ws
    let ws ← expect "RT" ws
    let (rts, ws) ← tpParseCounted (tpOne parseRT) ws
    let t : TableSt := { grid := grid, mmap := mm, formulas := fs, formats := xs, rich := hs }
    let t : TableSt :=
      if pv then
        match saveTableSt t with
        | .ok s => { t with pivot := some s }
        | .error _ => { t with pivot := some { table := ⟨0, 0, 0, false, [], 0, []⟩, ranges := [], formulas := [],
                                                   formats := [], rich := [] } }
      else t
    pure ({ tid := tid, st := t, interp := is, refs := rts }, ws)
  | _ => none

def findTable (ts : List TableIn) (tid : Nat) : Option TableIn := ts.find? (·.tid == tid)

def icellAt (ts : List TableIn) (tid r c : Nat) : Option (Nat × FormatDispatch.Cell) := do
  let t ← findTable ts tid
  let row ← t.interp[r]?
  row[c]?

def mkEnv (ts : List TableIn) : Env :=
  { fenv := Fmtd.driverEnv,
    -- the harness supplies the interpretation per position; an empty record has none (a formula-error cell is written as
    -- an empty cell: the stated exception, its position must not keep the error cell's interpretation)
    interp := fun tid r c v =>
      if v.kind = .empty then { kind := .empty }
      else match icellAt ts tid r c with | some (_, cell) => cell | none => { kind := .empty },
    refText := fun tid r c i =>
      match findTable ts tid with
      | some t => ((t.refs.find? (fun p => p.1 == (r, c, i))).map (·.2)).getD []
      | none => [] }

def flagsAt (ts : List TableIn) (tid r c : Nat) : Nat :=
  match icellAt ts tid r c with | some (f, _) => f | none => 0

def showKindD : Kind → String
  | .number => "number" | .currency => "currency" | .text => "text" | .date => "date" | .bool => "bool"
  | .duration => "duration" | .empty => "empty" | .merged => "merged" | .rich => "rich" | .other => "other"

def showPyText : PyM Text → String
  | .ok t => "=" ++ showText t
  | .error e => "!" ++ e.name

def showMergeObs : MergeObs → String
  | .plain => "n"
  | .anchor h w => s!"A:{h}:{w}"
  | .placeholder r0 c0 r1 c1 => s!"P:{r0}:{c0}:{r1}:{c1}"

def showCellObs (flags : Nat) (o : CellObs) : String :=
  "/".intercalate [showKindD o.cls, showBytes o.value.1, showText o.value.2,
    (match o.formula with
     | none => "n"
     | some f => if flags / 2 % 2 == 1 then "U" else showPyText f),
    (if flags % 2 == 1 then "U" else showPyText o.formatted),
    (match o.rich with
     | none => "n"
     | some none => "?"
     | some (some t) => toString t),
    showMergeObs o.merge]

def showRow (ts : List TableIn) (tid r : Nat) : Nat → List CellObs → List String
  | _, [] => []
  | c, o :: os => showCellObs (flagsAt ts tid r c) o :: showRow ts tid r (c + 1) os

def showRows (ts : List TableIn) (tid : Nat) : Nat → List (List CellObs) → List String
  | _, [] => []
  | r, row :: rows => (toString row.length :: showRow ts tid r 0 row) ++ showRows ts tid (r + 1) rows

def showRange (q : Int × Int × Int × Int) : String := s!"{q.1}:{q.2.1}:{q.2.2.1}:{q.2.2.2}"

/-- the table id is not part of the observation; the flags are looked up by the position of the table in the dump, which
    is the position in `table_ids` order — the driver recomputes that order from the tree. -/
def showTable (ts : List TableIn) (tid : Nat) (nm : Text) : TableObs → List String
  | .pivot => ["T", showText nm, "P"]
  | .live nr nc rs rows =>
    ["T", showText nm, "L", toString nr, toString nc, toString rs.length] ++ rs.map showRange ++ showRows ts tid 0 rows

def zipIds {α} : List Nat → List α → List (Nat × α)
  | i :: is, a :: as => (i, a) :: zipIds is as
  | _, _ => []

def showObs (ts : List TableIn) (tidss : List (List Nat)) (o : Observation) : String :=
  let rec go : List (List Nat) → Observation → List String
    | tids :: rest, (nm, tabs) :: more =>
      (["S", (match nm with | some t => showText t | none => "None"), toString tabs.length] ++
        (zipIds tids tabs).flatMap (fun p => showTable ts p.1 p.2.1 p.2.2)) ++ go rest more
    | _, _ => []
  " ".intercalate (toString o.length :: go tidss o)

/-- the table ids per sheet, as `dump` visits them (for the flag look-up only) -/
def tableIdsOf (os : DocTree.Objects) : List (List Nat) :=
  match DocTree.sheetIds os with
  | .ok sids => sids.map fun sid => match DocTree.tableIds os (some sid) with | .ok l => l | .error _ => []
  | .error _ => []

def runOp (op : String) (ts : List TableIn) (d : Doc) : Option String :=
  let env := mkEnv ts
  let tidss := tableIdsOf d.tree.objects
  match op with
  | "dump" => some (showPyM (showObs ts tidss) (dump env d))
  | "resave" => some (showPyM (showObs ts tidss) (resaveDump env d))
  | "resave2" => some (showPyM (showObs ts tidss) (do
      let s ← saveDoc d
      let d' ← loadDoc s
      resaveDump env d'))
  | _ => none

end NumbersModel.Drv.DocD
namespace NumbersModel.Drv
open NumbersModel NumbersModel.Document NumbersModel.Drv.DocD NumbersModel.Drv.DT

def handleDoc : List String → Option String
  | op :: maxId :: nf :: rest => do
    let maxId ← maxId.toNat?
    let (files, rest) ← parseFiles (← nf.toNat?) rest []
    match rest with
    | no :: rest =>
      let (objs, rest) ← parseObjs (← no.toNat?) rest []
      let rest ← expect "TABLES" rest
      let (ts, rest) ← tpParseCounted parseTable rest
      if !rest.isEmpty then none
      let d : Doc := { tree := { objects := objs, files := files, maxId := maxId },
                       tables := ts.map fun t => (t.tid, t.st) }
      runOp op ts d
    | _ => none
  | _ => none

end NumbersModel.Drv
