import NumbersModel.Drv.Proto
import NumbersModel.Model.Border
import NumbersModel.Model.Style
namespace NumbersModel.Drv
open NumbersModel NumbersModel.Border

/-- take `n` naturals from the token stream. -/
def bTakeNats : Nat → List String → Option (List Nat × List String)
  | 0, rest => some ([], rest)
  | n + 1, w :: rest => do
    let x ← w.toNat?
    let (xs, rest') ← bTakeNats n rest
    pure (x :: xs, rest')
  | _, [] => none

def sideOfNat : Nat → Option Side
  | 0 => some .top | 1 => some .right | 2 => some .bottom | 3 => some .left | _ => none

def parseRuns : Nat → List String → Option (List Run × List String)
  | 0, rest => some ([], rest)
  | n + 1, rest => do
    let (xs, rest) ← bTakeNats 4 rest
    match xs with
    | [o, l, ord, s] =>
      let (rs, rest) ← parseRuns n rest
      pure (⟨o, l, ⟨s, ord⟩⟩ :: rs, rest)
    | _ => none

def parseLayers : Nat → List String → Option (List Layer × List String)
  | 0, rest => some ([], rest)
  | n + 1, rest => do
    let (xs, rest) ← bTakeNats 2 rest
    match xs with
    | [idx, nr] =>
      let (runs, rest) ← parseRuns nr rest
      let (ls, rest) ← parseLayers n rest
      pure (⟨idx, runs⟩ :: ls, rest)
    | _ => none

def parseFamily (rest : List String) : Option (List Layer × List String) := do
  let (xs, rest) ← bTakeNats 1 rest
  match xs with
  | [n] => parseLayers n rest
  | _ => none

def parseMerges : Nat → List String → Option (List (Nat × Nat × Nat × Nat) × List String)
  | 0, rest => some ([], rest)
  | n + 1, rest => do
    let (xs, rest) ← bTakeNats 4 rest
    match xs with
    | [a, b, c, d] =>
      let (ms, rest) ← parseMerges n rest
      pure ((a, b, c, d) :: ms, rest)
    | _ => none

def parseOps : Nat → List String → Option (List Op × List String)
  | 0, rest => some ([], rest)
  | n + 1, rest => do
    let (xs, rest) ← bTakeNats 5 rest
    match xs with
    | [sd, r, c, l, s] =>
      let sd ← sideOfNat sd
      let (ops, rest) ← parseOps n rest
      pure (⟨sd, r, c, l, s⟩ :: ops, rest)
    | _ => none

/-- steps of an editing history: `0 side row col len stroke` | `1 row col` (write) | `2 rs cs dh dw` (merge) |
    `3 n` (add_row) | `4 n` (add_column). -/
def parseSteps : Nat → List String → Option (List Step × List String)
  | 0, rest => some ([], rest)
  | n + 1, tag :: rest => do
    let arity ← match tag with
      | "0" => some 5 | "1" => some 2 | "2" => some 4 | "3" => some 1 | "4" => some 1 | _ => none
    let (xs, rest) ← bTakeNats arity rest
    let st ← match tag, xs with
      | "0", [sd, r, c, l, s] => (sideOfNat sd).map fun sd => Step.stroke ⟨sd, r, c, l, s⟩
      | "1", [r, c] => some (Step.write r c)
      | "2", [rs, cs, dh, dw] => some (Step.merge rs cs dh dw)
      | "3", [k] => some (Step.addRows k)
      | "4", [k] => some (Step.addCols k)
      | _, _ => none
    let (ss, rest) ← parseSteps n rest
    pure (st :: ss, rest)
  | _, [] => none

/-- cell kinds from the list of merged rectangles (first rectangle containing the cell). -/
def kindOf (ms : List (Nat × Nat × Nat × Nat)) (r c : Nat) : Kind :=
  match ms.find? (fun m => decide (m.1 ≤ r ∧ r ≤ m.2.2.1 ∧ m.2.1 ≤ c ∧ c ≤ m.2.2.2)) with
  | none => .plain
  | some (rs, cs, re, ce) =>
    if r = rs ∧ c = cs then .anchor (re - rs + 1) (ce - cs + 1) else .ref rs cs re ce

def bShowSlot : Option Nat → String
  | none => "-"
  | some n => toString n

def showBorderGrid (t : Table) (cs : Cells) : String :=
  " ".intercalate ((List.range t.nrows).flatMap fun r => (List.range t.ncols).map fun c =>
    ".".intercalate ([Side.top, .right, .bottom, .left].map fun sd => bShowSlot (view t cs r c sd)))

/-- `border hist|pinned <R> <C> <maxOrder> <nmerge> (rs cs re ce)* <top> <left> <right> <bottom> <nops> (side row col len stroke)*`
    with each family `<nlayers> (idx nruns (origin len order stroke)*)*`.
    reply `ok <open grid> | <grid extracted from the stored layers>`; `hist` = repaired call order,
    `pinned` = call order of the pinned commit.
    `border edits|editspinned …same head… <nsteps> (step)*` (see `parseSteps`): an editing history through `Doc.run`
    (`Doc.runPinned`); reply `ok <rows> <cols> <open grid> | <grid extracted from the stored layers>` for the final table. -/
def handleBorder : List String → Option String
  | mode :: rest => do
    let (xs, rest) ← bTakeNats 4 rest
    match xs with
    | [nr, nc, mo, nm] =>
      let (ms, rest) ← parseMerges nm rest
      let (ft, rest) ← parseFamily rest
      let (fl, rest) ← parseFamily rest
      let (fr, rest) ← parseFamily rest
      let (fb, rest) ← parseFamily rest
      let (xs, rest) ← bTakeNats 1 rest
      match xs with
      | [nops] =>
        let t : Table := ⟨nr, nc, kindOf ms⟩
        let sc0 : Sidecar := ⟨ft, fl, fr, fb, mo⟩
        let st0 : St := ⟨extract t sc0, sc0⟩
        if mode == "edits" || mode == "editspinned" then
          let (steps, rest) ← parseSteps nops rest
          if rest ≠ [] then none else
          match (if mode == "edits" then Doc.run else Doc.runPinned) ⟨t, st0, false⟩ steps with
          | .ok d =>
            let d' := d.ensure
            pure ("ok " ++ toString d.t.nrows ++ " " ++ toString d.t.ncols ++ " " ++ showBorderGrid d'.t d'.st.cells ++ " | " ++
              showBorderGrid d.t (extract d.t d.st.sc))
          | .error e => pure (showExc e)
        else
        let (ops, rest) ← parseOps nops rest
        if rest ≠ [] then none else
        if mode == "hist" then
          match apiStrokes t st0 ops with
          | .ok st => pure ("ok " ++ showBorderGrid t st.cells ++ " | " ++ showBorderGrid t (extract t st.sc))
          | .error e => pure (showExc e)
        else if mode == "pinned" then
          let st := ops.foldl (applyOpPinned t) st0
          pure ("ok " ++ showBorderGrid t st.cells ++ " | " ++ showBorderGrid t (extract t st.sc))
        else none
      | _ => none
    | _ => none
  | _ => none

/-- `style dedup <fixed|pinned> <n> (<dirty 0/1> <8 texts>)*n`: which cells share a new cell style
    after `update_cell_styles` (group numbers by first occurrence, `-` for cells that are skipped). -/
def parseStyles : Nat → List String → Option (List (Bool × Style.CellAttrs) × List String)
  | 0, rest => some ([], rest)
  | n + 1, d :: a :: b :: c :: e :: f :: g :: h :: i :: rest => do
    let d ← parseBool d
    let a ← parseText a; let b ← parseText b; let c ← parseText c; let e ← parseText e
    let f ← parseText f; let g ← parseText g; let h ← parseText h; let i ← parseText i
    let (xs, rest) ← parseStyles n rest
    pure ((d, ⟨a, b, c, e, f, g, h, i⟩) :: xs, rest)
  | _, _ => none

def showGroups (gs : List (Option Nat)) : String :=
  "ok " ++ " ".intercalate (gs.map bShowSlot)

def showFlags (f : Style.Flags) : String :=
  "ok " ++ (if f.updText then "1" else "0") ++ " " ++ (if f.updCell then "1" else "0")

/-- `style dedup fixed|pinned <n> (<dirty> <8 texts>)*n`   → `ok <group or ->*`
    `style flags new|read|readpinned <attribute name>*`     → `ok <updText> <updCell>` after assigning
    the named attributes to a constructed style / a style read from storage. -/
def handleStyle : List String → Option String
  | "dedup" :: mode :: n :: rest => do
    let n ← n.toNat?
    let (cells, rest) ← parseStyles n rest
    if rest ≠ [] then none
    else if mode == "fixed" then pure (showGroups (Style.dedup Style.key cells))
    else if mode == "pinned" then pure (showGroups (Style.dedup Style.keyPinned cells))
    else none
  | "flags" :: mode :: names => do
    let f0 ← if mode == "new" then some Style.constructed
             else if mode == "read" then some Style.fromStorage
             else if mode == "readpinned" then some Style.fromStoragePinned else none
    pure (showFlags (names.foldl Style.setAttr f0))
  | _ => none

end NumbersModel.Drv
