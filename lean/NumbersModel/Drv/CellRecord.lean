import NumbersModel.Drv.Proto
import NumbersModel.Model.CellRecord
namespace NumbersModel.Drv
open NumbersModel NumbersModel.CellRecord

def parseOptInt (w : String) : Option (Option Int) :=
  if w == "n" then some none else (w.toInt?).map some

def parseOptBytes (w : String) : Option (Option Bytes) :=
  if w == "n" then some none else (parseBytes w).map some

def showOptInt : Option Int → String
  | none => "n"
  | some v => toString v

def showOptBytes : Option Bytes → String
  | none => "n"
  | some b => showBytes b

def parseKind : String → Option Kind
  | "number" => some .number | "currency" => some .currency | "text" => some .text
  | "date" => some .date | "bool" => some .bool | "duration" => some .duration
  | "empty" => some .empty | "merged" => some .merged | "rich" => some .rich
  | "other" => some .other | _ => none

def showDKind : DKind → String
  | .empty => "empty" | .number => "number" | .text => "text" | .date => "date" | .bool => "bool"
  | .duration => "duration" | .error => "error" | .rich => "rich" | .currency => "currency"

def parseIds : List String → Option Ids
  | [a, b, c, d, e, f, g, h, i, j, k, l] => do
    pure { rich := ← parseOptInt a, cellStyle := ← parseOptInt b, textStyle := ← parseOptInt c,
           formula := ← parseOptInt d, control := ← parseOptInt e, suggest := ← parseOptInt f,
           numFmt := ← parseOptInt g, curFmt := ← parseOptInt h, dateFmt := ← parseOptInt i,
           durFmt := ← parseOptInt j, textFmt := ← parseOptInt k, boolFmt := ← parseOptInt l }
  | _ => none

def showIds (i : Ids) : String :=
  " ".intercalate ([i.rich, i.cellStyle, i.textStyle, i.formula, i.control, i.suggest, i.numFmt,
    i.curFmt, i.dateFmt, i.durFmt, i.textFmt, i.boolFmt].map showOptInt)

def showDecoded (d : Decoded) : String :=
  s!"{showDKind d.kind} {showOptBytes d.d128} {showOptBytes d.double} {showOptBytes d.seconds} " ++
  s!"{showOptInt d.stringId} {showIds d.ids} {d.extras} {d.flags}"

def showEnc : Option Bytes → String
  | none => "none"
  | some b => showBytes b

def parseCell : List String → Option Cell
  | kind :: payload :: key :: sid :: ids => do
    pure { kind := ← parseKind kind, payload := ← parseBytes payload, stringKey := ← key.toInt?,
           stringId := ← parseOptInt sid, ids := ← parseIds ids }
  | _ => none

def parseFields : List String → Option (List (Option Bytes))
  | [] => some []
  | w :: r => do let f ← parseOptBytes w; let l ← parseFields r; pure (f :: l)

def handleCell : List String → Option String
  | "enc" :: rest => do let c ← parseCell rest; pure (showPyM showEnc (encode c))
  | "encp" :: rest => do let c ← parseCell rest; pure (showPyM showEnc (encodePinned c))
  | ["dec", b] => do let b ← parseBytes b; pure (showPyM showDecoded (decode b))
  | ["decp", b] => do let b ← parseBytes b; pure (showPyM showDecoded (decodePinned b))
  | "spec" :: ctype :: unused :: extras :: fields => do
    let ctype ← ctype.toNat?
    let unused ← parseBytes unused; let extras ← parseBytes extras
    let fields ← parseFields fields
    pure ("ok " ++ showBytes (specEncode { ctype := UInt8.ofNat ctype, unused, extras, fields }))
  | _ => none

end NumbersModel.Drv
