import NumbersModel.Drv.Proto
import NumbersModel.Model.DateFmt
import NumbersModel.Gen.Constants
namespace NumbersModel.Drv
open NumbersModel NumbersModel.DateFmt

def dfParseNats (ws : List String) : Option (List Nat) := ws.mapM String.toNat?

def handleDateFmt : List String → Option String
  | ["fmt", y, mo, d, h, mi, s, us, f] => do
    let ns ← dfParseNats [y, mo, d, h, mi, s, us]
    let f ← parseText f
    match ns with
    | [y, mo, d, h, mi, s, us] =>
      pure ("ok " ++ showText (decodeDateFormat (isAlphaIn Gen.alphaRanges) f ⟨y, mo, d, h, mi, s, us⟩))
    | _ => none
  | ["write", y, mo, d, h, mi, s, us, f] => do
    let ns ← dfParseNats [y, mo, d, h, mi, s, us]
    let f ← parseText f
    match ns with
    | [y, mo, d, h, mi, s, us] =>
      pure (showPyM showText (writeAndDisplay (isAlphaIn Gen.alphaRanges) f ⟨y, mo, d, h, mi, s, us⟩))
    | _ => none
  | ["civil", y, mo, d] => do
    let ns ← dfParseNats [y, mo, d]
    match ns with
    | [y, mo, d] => pure s!"ok {weekdayOf y mo d} {ydayOf y mo d} {ordinalOf y mo d}"
    | _ => none
  | ["expand", s] => do
    let s ← parseText s
    pure ("ok " ++ showText (expandQuotes s))
  | ["alpha", c] => do
    let c ← c.toNat?
    pure s!"ok {if isAlphaIn Gen.alphaRanges (Char.ofNat c) then 1 else 0}"
  | _ => none

end NumbersModel.Drv
