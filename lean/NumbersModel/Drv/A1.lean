import NumbersModel.Drv.Proto
import NumbersModel.Model.A1
import NumbersModel.Gen.Constants
namespace NumbersModel.Drv
open NumbersModel NumbersModel.A1

def handleA1 : List String → Option String
  | ["colname", c, a] => do
    let c ← c.toInt?; let a ← parseBool a
    pure (showPyM showText (colName c a))
  | ["cell", r, c, ra, ca] => do
    let r ← r.toInt?; let c ← c.toInt?; let ra ← parseBool ra; let ca ← parseBool ca
    pure (showPyM showText (rowcolToCell r c ra ca))
  | ["range", r1, c1, r2, c2] => do
    let r1 ← r1.toInt?; let c1 ← c1.toInt?; let r2 ← r2.toInt?; let c2 ← c2.toInt?
    pure (showPyM showText (xlRange r1 c1 r2 c2))
  | ["parse", s] => do
    let s ← parseText s
    pure (showPyM (fun (p : Int × Int) => s!"{p.1} {p.2}") (cellToRowCol Gen.digitZeros s))
  | ["coloff", s] => do
    let s ← parseText s
    pure (showPyM (fun (i : Int) => s!"{i}") (colToOffset s))
  | ["colidx", s] => do
    let s ← parseText s
    pure s!"ok {colIndex s}"
  | _ => none

end NumbersModel.Drv
