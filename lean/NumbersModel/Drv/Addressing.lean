import NumbersModel.Drv.Proto
import NumbersModel.Model.Addressing
import NumbersModel.Gen.Constants
namespace NumbersModel.Drv
open NumbersModel NumbersModel.Addressing

def parsePos : List String → Option (Pos × List String)
  | "a" :: s :: rest => do let s ← parseText s; pure (.a1 s, rest)
  | "r" :: r :: c :: rest => do let r ← r.toInt?; let c ← c.toInt?; pure (.rc r c, rest)
  | _ => none

def addrOptInt (w : String) : Option (Option Int) :=
  if w == "n" then some none else (w.toInt?).map some

def showGrid (g : List (List (Int × Int))) : String :=
  "|".intercalate (g.map fun row => " ".intercalate (row.map fun p => s!"{p.1},{p.2}"))

def handleAddr : List String → Option String
  | "read" :: rows :: cols :: rest => do
    let rows ← rows.toNat?; let cols ← cols.toNat?
    let (p, _) ← parsePos rest
    pure (showPyM (fun (x : Int × Int) => s!"{x.1} {x.2}") (cellRead Gen.digitZeros ⟨rows, cols⟩ p))
  | "write" :: rows :: cols :: rest => do
    let rows ← rows.toNat?; let cols ← cols.toNat?
    let (p, _) ← parsePos rest
    pure (showPyM (fun (x : Dims × (Int × Int)) => s!"{x.1.rows} {x.1.cols} {x.2.1} {x.2.2}")
      (validate Gen.digitZeros Gen.MAX_ROW_COUNT Gen.MAX_COL_COUNT ⟨rows, cols⟩ p))
  | ["iterrows", rows, cols, a, b, c, d] => do
    let rows ← rows.toNat?; let cols ← cols.toNat?
    let a ← addrOptInt a; let b ← addrOptInt b; let c ← addrOptInt c; let d ← addrOptInt d
    pure (showPyM showGrid (iterRows ⟨rows, cols⟩ a b c d))
  | ["itercols", rows, cols, a, b, c, d] => do
    let rows ← rows.toNat?; let cols ← cols.toNat?
    let a ← addrOptInt a; let b ← addrOptInt b; let c ← addrOptInt c; let d ← addrOptInt d
    pure (showPyM showGrid (iterCols ⟨rows, cols⟩ a b c d))
  | _ => none

end NumbersModel.Drv
