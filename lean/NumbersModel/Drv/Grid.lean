/-
Driver arm for Model/Grid.lean.

  grid hist <T> (<nr> <nc> <k> [<v>…])×T  <op>…
     tables: k = 0 → `nr × nc` empty cells (Table.__init__ of a new table);
             k = 1 → followed by nr*nc value tokens, row-major (a loaded table)
     ops:    w t r c v | ar t n st d | ac t n st d | dr t n st | dc t n st | at nr nc | rn t | sv
             (`N` = None for st / d; value tokens are naturals, 0 = empty cell)
  reply: `ok ` followed by, for every op,  `ok=<tables>` or `err:<Exc>=<tables>`  joined by `|`
         <tables> = tables joined by `;`, a table = `nr,nc:` rows joined by `/`, cells by `,`,
         a cell = `v` when it reports its own position, `v@row.col` otherwise.
-/
import NumbersModel.Drv.Proto
import NumbersModel.Model.Grid
namespace NumbersModel.Drv
open NumbersModel NumbersModel.Grid

def gridOptInt (w : String) : Option (Option Int) :=
  if w == "N" then some none else (w.toInt?).map some

def parseOptNat (w : String) : Option (Option Nat) :=
  if w == "N" then some none else (w.toNat?).map some

def showCell (r c : Nat) (x : CellM Nat) : String :=
  if x.row = r ∧ x.col = c then toString x.val else s!"{x.val}@{x.row}.{x.col}"

def showRows (f : Nat → Nat → α → String) (data : List (List α)) : String :=
  "/".intercalate (data.mapIdx fun r row => ",".intercalate (row.mapIdx fun c x => f r c x))

def showTable (s : State Nat) : String :=
  s!"{s.numRows},{s.numCols}:" ++ showRows showCell s.data

def showTables (d : List (State Nat)) : String := ";".intercalate (d.map showTable)

/-- split `n` leading words off. -/
def takeWords (n : Nat) (ws : List String) : Option (List String × List String) :=
  if ws.length < n then none else some (ws.take n, ws.drop n)

def gridChunk {β} (n : Nat) : Nat → List β → List (List β)
  | 0, _ => []
  | f + 1, l => if l.isEmpty then [] else l.take n :: gridChunk n f (l.drop n)

def gridParseTables : Nat → List String → Option (List (State Nat) × List String)
  | 0, ws => some ([], ws)
  | t + 1, nr :: nc :: k :: ws => do
    let nr ← nr.toNat?; let nc ← nc.toNat?
    if k == "0" then
      let (ts, rest) ← gridParseTables t ws
      pure (init 0 nr nc :: ts, rest)
    else
      let (vs, rest) ← takeWords (nr * nc) ws
      let vs ← vs.mapM (·.toNat?)
      let rows := (gridChunk nc nr vs).mapIdx fun r row => row.mapIdx fun c v => (⟨r, c, v⟩ : CellM Nat)
      let rows := if nc = 0 then List.replicate nr [] else rows
      let (ts, rest) ← gridParseTables t rest
      pure ({ numRows := nr, numCols := nc, data := rows } :: ts, rest)
  | _, _ => none

def parseGridOps : Nat → List String → Option (List (DocOp Nat))
  | _, [] => some []
  | 0, _ => none
  | f + 1, "w" :: t :: r :: c :: v :: rest => do
    let t ← t.toNat?; let r ← r.toInt?; let c ← c.toInt?; let v ← v.toNat?
    (DocOp.edit t (.write r c v) :: ·) <$> parseGridOps f rest
  | f + 1, "ar" :: t :: n :: st :: d :: rest => do
    let t ← t.toNat?; let n ← n.toInt?; let st ← gridOptInt st; let d ← parseOptNat d
    (DocOp.edit t (.addRow n st d) :: ·) <$> parseGridOps f rest
  | f + 1, "ac" :: t :: n :: st :: d :: rest => do
    let t ← t.toNat?; let n ← n.toInt?; let st ← gridOptInt st; let d ← parseOptNat d
    (DocOp.edit t (.addCol n st d) :: ·) <$> parseGridOps f rest
  | f + 1, "dr" :: t :: n :: st :: rest => do
    let t ← t.toNat?; let n ← n.toInt?; let st ← gridOptInt st
    (DocOp.edit t (.delRow n st) :: ·) <$> parseGridOps f rest
  | f + 1, "dc" :: t :: n :: st :: rest => do
    let t ← t.toNat?; let n ← n.toInt?; let st ← gridOptInt st
    (DocOp.edit t (.delCol n st) :: ·) <$> parseGridOps f rest
  | f + 1, "at" :: nr :: nc :: rest => do
    let nr ← nr.toNat?; let nc ← nc.toNat?
    (DocOp.addTable nr nc :: ·) <$> parseGridOps f rest
  | f + 1, "rn" :: t :: rest => do
    let t ← t.toNat?
    (DocOp.rename t :: ·) <$> parseGridOps f rest
  | f + 1, "sv" :: rest => (DocOp.save :: ·) <$> parseGridOps f rest
  | _, _ => none

def runDoc (d : List (State Nat)) : List (DocOp Nat) → List String
  | [] => []
  | op :: rest =>
    match docStep 0 d op with
    | .ok d' => ("ok=" ++ showTables d') :: runDoc d' rest
    | .error e => ("err:" ++ e.name ++ "=" ++ showTables d) :: runDoc d rest

def handleGrid : List String → Option String
  | "hist" :: t :: ws => do
    let t ← t.toNat?
    let (tables, rest) ← gridParseTables t ws
    let ops ← parseGridOps (rest.length + 1) rest
    pure ("ok " ++ "|".intercalate (runDoc tables ops))
  | _ => none

end NumbersModel.Drv
