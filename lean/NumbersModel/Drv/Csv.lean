import NumbersModel.Drv.Proto
import NumbersModel.Drv.Loader
import NumbersModel.Model.Csv
import NumbersModel.Model.CsvCodec
import NumbersModel.Model.CsvMain
namespace NumbersModel.Drv
open NumbersModel NumbersModel.Csv

/-
Driver arm for the C20 models.

  csv csvw <grid>                                  `csv.writer` text of a grid                     (CsvCodec.writeGrid)
  csv csvr <strict> <limit> <text>                 `csv.reader` over a newline="" file            (CsvCodec.readGrid)
  csv csvrl <strict> <limit> <n> <line>*           `csv.reader` over a list of line strings       (CsvCodec.readLineList)
  csv csvlines <text>                              lines of a newline="" file                     (CsvCodec.splitLines)
  csv convert <nh> <rv> <ws> <grid> table <table>  rows after import + export (numbers print `#k`) (Csv.convert, padTable)
  csv ie <nh> <rv> <ws> <strict> <limit> <text> table <table>      text printed by the export       (Csv.importExport)
  csv main <f|p> <nh> <rv> <ws> <version> <outputs -|n> <helpLines>
           cls <fnf> <csv> <os> <uni> <lookup> <rt>      each `<n> <name>*`
           files <nf> { <derive ok|!E> <open !E | T <text> <fail -|!E>> <limit> <doc ok|!E>
                        <nw> { <r> <c> !E }*nw <save ok|!E> table <table> }*nf                  (CsvMain.main)
  <grid>  = <nrows> { <ncells> <text>* }*nrows
  <table> = <n> { <text> <norm> <cls> }*n     cls of the text `float()` sees (the normalised one under --whitespace):
            `V` ValueError, `N` nan, `I` ±inf, `F<k>:<text>` finite value number k, printed as <text> by the exporter
-/
structure CellInfo where
  text : Text
  norm : Text
  cls : FloatCls Nat
  render : Text

def clsP : LP (FloatCls Nat × Text) := do
  let w ← tok
  if w == "V" then pure (.valueError, [])
  else if w == "N" then pure (.nan, [])
  else if w == "I" then pure (.inf, [])
  else if w.startsWith "F" then
    match (w.drop 1).toString.splitOn ":" with
    | [k, r] =>
      match k.toNat?, parseText r with
      | some k, some r => pure (.finite k, r)
      | _, _ => failure
    | _ => failure
  else failure

def tableP : LP (List CellInfo) := do
  expect "table"
  let n ← natTok
  repeatP (do
    let t ← textTok; let nm ← textTok; let (c, r) ← clsP
    pure ⟨t, nm, c, r⟩) n

def gridP : LP (List (List Text)) := do
  let nr ← natTok
  repeatP (do let k ← natTok; repeatP textTok k) nr

def boolTok : LP Bool := do
  let t ← tok
  match parseBool t with
  | some b => pure b
  | none => failure

def tblFloat (ws : Bool) (cells : List CellInfo) (v : Text) : FloatCls Nat :=
  match cells.find? (fun c => (if ws then c.norm else c.text) = v) with
  | some c => c.cls
  | none => .valueError

def tblNorm (cells : List CellInfo) (v : Text) : Text :=
  match cells.find? (fun c => c.text = v) with
  | some c => c.norm
  | none => v

def tblRender (cells : List CellInfo) (k : Nat) : Text :=
  match cells.find? (fun c => match c.cls with | .finite k' => k' = k | _ => false) with
  | some c => c.render
  | none => '?' :: natStr k

def csvShowGrid (g : List (List Text)) : String :=
  " ".intercalate (g.map fun row => "[" ++ " ".intercalate (row.map showText) ++ "]")

def csvShowGridM : PyM (List (List Text)) → String
  | .ok g => if g.isEmpty then "ok" else "ok " ++ csvShowGrid g
  | .error e => showExc e

def excRes : LP (Option PyExc) := do
  let t ← tok
  if t == "-" || t == "ok" then pure none
  else if t.startsWith "!" then pure (some (excOfName (t.drop 1).toString)) else failure

def namesP : LP (List PyExc) := do
  let n ← natTok
  repeatP (do let t ← tok; pure (excOfName t)) n

def fileP : LP (CsvMain.FileExt Nat × List CellInfo) := do
  let derive ← unitRes
  let t ← tok
  let openFile : PyM CsvMain.Content ←
    if t == "T" then do
      let text ← textTok
      let fail ← excRes
      pure (.ok ⟨text, fail⟩)
    else if t.startsWith "!" then pure (.error (excOfName (t.drop 1).toString)) else failure
  let limit ← natTok
  let doc ← unitRes
  let nw ← natTok
  let wf ← repeatP (do
    let r ← natTok; let c ← natTok; let e ← excRes
    pure (r, c, e)) nw
  let save ← unitRes
  let cells ← tableP
  pure ({ deriveOutput := derive, openFile := openFile, fieldLimit := limit,
          pyFloat := fun _ => .valueError, norm := tblNorm cells,
          newDocument := fun _ _ => doc,
          write := fun r c _ => match wf.find? (fun w => w.1 = r ∧ w.2.1 = c) with
            | some (_, _, some e) => .error e
            | _ => .ok (),
          saveDoc := save }, cells)

def mainP : LP String := do
  let vt ← tok
  let v ← if vt == "f" then pure CsvMain.fixed else if vt == "p" then pure CsvMain.pinned else failure
  let nh ← boolTok; let rv ← boolTok; let ws ← boolTok
  let version ← boolTok
  let ot ← tok
  let outputs : Option Nat ← if ot == "-" then pure none else match ot.toNat? with
    | some n => pure (some n)
    | none => failure
  let helpLines ← natTok
  expect "cls"
  let fnf ← namesP; let ce ← namesP; let os ← namesP; let uni ← namesP; let lk ← namesP; let rt ← namesP
  expect "files"
  let nf ← natTok
  let files ← repeatP fileP nf
  let rest ← get
  if !rest.isEmpty then failure
  let c : CsvMain.Classes := ⟨fun e => fnf.contains e, fun e => ce.contains e, fun e => os.contains e,
    fun e => uni.contains e, fun e => lk.contains e, fun e => rt.contains e⟩
  let fs := files.map fun (x, cells) => { x with pyFloat := tblFloat ws cells }
  pure (match CsvMain.main v c ⟨nh, rv, ws⟩ ⟨version, outputs, helpLines⟩ fs with
    | .ok o => s!"ok {o.exit} {o.stdoutLines} {o.stderrLines}"
    | .error e => showExc e)

def marker : Char := Char.ofNat 0xE000

def convertP : LP String := do
  let nh ← boolTok; let rv ← boolTok; let ws ← boolTok
  let grid ← gridP
  let cells ← tableP
  let rest ← get
  if !rest.isEmpty then failure
  let showCell (t : Text) : String := match t with
    | c :: r => if c = marker then "#" ++ String.ofList r else showText t
    | [] => showText t
  pure (match convert (tblFloat ws cells) (tblNorm cells) ⟨nh, rv, ws⟩ grid with
    | .error e => showExc e
    | .ok table =>
      let out := exportGrid (fun k => marker :: natStr k) (padTable table)
      "ok " ++ " ".intercalate (out.map fun row => "[" ++ " ".intercalate (row.map showCell) ++ "]"))

def ieP : LP String := do
  let nh ← boolTok; let rv ← boolTok; let ws ← boolTok
  let strict ← boolTok; let limit ← natTok
  let text ← textTok
  let cells ← tableP
  let rest ← get
  if !rest.isEmpty then failure
  pure (showPyM showText
    (importExport ⟨strict, limit, none⟩ (tblFloat ws cells) (tblNorm cells) (tblRender cells) ⟨nh, rv, ws⟩ text))

def runLP (p : LP String) (ws : List String) : Option String :=
  match p.run ws with
  | some (s, _) => some s
  | none => none

def handleCsv : List String → Option String
  | "csvw" :: rest => runLP (do
      let g ← gridP
      let r ← get
      if !r.isEmpty then failure
      pure ("ok " ++ showText (CsvCodec.writeGrid g))) rest
  | ["csvr", strict, limit, t] => do
    let strict ← parseBool strict; let limit ← limit.toNat?; let t ← parseText t
    pure (csvShowGridM (CsvCodec.readGrid ⟨strict, limit, none⟩ t))
  | "csvrl" :: strict :: limit :: n :: rest => do
    let strict ← parseBool strict; let limit ← limit.toNat?; let n ← n.toNat?
    runLP (do
      let lines ← repeatP textTok n
      let r ← get
      if !r.isEmpty then failure
      pure (csvShowGridM (CsvCodec.readLineList ⟨strict, limit, none⟩ lines))) rest
  | ["csvlines", t] => do
    let t ← parseText t
    let ls := CsvCodec.splitLines t
    pure (if ls.isEmpty then "ok" else "ok " ++ " ".intercalate (ls.map showText))
  | "convert" :: rest => runLP convertP rest
  | "ie" :: rest => runLP ieP rest
  | "main" :: rest => runLP mainP rest
  | _ => none

end NumbersModel.Drv
