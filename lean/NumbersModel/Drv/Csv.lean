import NumbersModel.Drv.Proto
import NumbersModel.Model.Csv
namespace NumbersModel.Drv
open NumbersModel NumbersModel.Csv

/-- `csv convert <noHeader> <reverse> <ws> <nrows> <ncols> (<text> <norm> <cls>)*`
    cls (of the text that `float()` sees, i.e. the normalised one under --whitespace):
    `V` ValueError, `F<k>` finite value number k, `N` nan, `I` ±inf.
    reply: rows joined by `|`, cells by space; a number cell prints `#k`. -/
def parseCls (w : String) : Option (FloatCls Nat) :=
  if w == "V" then some .valueError
  else if w == "N" then some .nan
  else if w == "I" then some .inf
  else if w.startsWith "F" then (w.drop 1).toNat?.map .finite
  else none

def parseCells : Nat → List String → List (Text × Text × FloatCls Nat) → Option (List (Text × Text × FloatCls Nat))
  | 0, [], acc => some acc.reverse
  | 0, _ :: _, _ => none
  | n + 1, t :: nm :: c :: rest, acc => do
    let t ← parseText t; let nm ← parseText nm; let c ← parseCls c
    parseCells n rest ((t, nm, c) :: acc)
  | _, _, _ => none

def chunk {α} : Nat → Nat → List α → List (List α)
  | 0, _, _ => []
  | r + 1, w, l => l.take w :: chunk r w (l.drop w)

def handleCsv : List String → Option String
  | "convert" :: nh :: rv :: ws :: nr :: nc :: rest => do
    let nh ← parseBool nh; let rv ← parseBool rv; let ws ← parseBool ws
    let nr ← nr.toNat?; let nc ← nc.toNat?
    let cells ← parseCells (nr * nc) rest []
    let eff (c : Text × Text × FloatCls Nat) : Text := if ws then c.2.1 else c.1
    let pyFloat (v : Text) : FloatCls Nat :=
      match cells.find? (fun c => eff c = v) with
      | some c => c.2.2
      | none => .valueError
    let norm (v : Text) : Text :=
      match cells.find? (fun c => c.1 = v) with
      | some c => c.2.1
      | none => v
    let grid := chunk nr nc (cells.map (·.1))
    let out := exportGrid (fun k => (Char.ofNat 0xE000 :: natStr k)) (convert pyFloat norm ⟨nh, rv, ws⟩ grid)
    let showCell (t : Text) : String := match t with
      | c :: r => if c = Char.ofNat 0xE000 then "#" ++ String.ofList r else showText t
      | [] => showText t
    pure ("ok " ++ "|".intercalate (out.map fun row => " ".intercalate (row.map showCell)))
  | _ => none

end NumbersModel.Drv
