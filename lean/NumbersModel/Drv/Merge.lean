/-
Driver arm for Model/Merge.lean (one table).

  merge hist <nr> <nc> <op>…
     ops: w r c v | ar n st d | ac n st d | dr n st | dc n st          (as in Drv/Grid.lean, no table index;
                                                                        `mstep`: the structural edits end with `_move_merges`)
          mg r0 c0 r1 c1              Table.merge_cells of one range
          ml k (r0 c0 r1 c1)×k        Table.merge_cells of a list
          sk                          Document.save, keep working on the open document
          sv                          Document.save, reopen, continue on the reopened document
  reply: `ok ` then for every op `ok=<view>` / `err:<Exc>=<view>` joined by `|`
     <view> = `nr,nc:` rows joined by `/`, cells by `,`, then `;` and the merge ranges `r0.c0.r1.c1` joined by `,`
     cell   = [P]<val>[+][~ | [h.w]][@r0.c0.r1.c1][!row.col]
              P placeholder (MergedCell), + is_merged, ~ size None, [h.w] size ≠ (1,1), @ rect, ! wrong position
-/
import NumbersModel.Drv.Grid
import NumbersModel.Model.Merge
namespace NumbersModel.Drv
open NumbersModel NumbersModel.Grid NumbersModel.Merge

def showMCell (r c : Nat) (x : CellM MCell) : String :=
  let v := x.val
  (if v.ph then "P" else "") ++ toString v.val ++ (if v.merged then "+" else "") ++
  (match v.size with
    | none => "~"
    | some (h, w) => if h = 1 ∧ w = 1 then "" else s!"[{h}.{w}]") ++
  (match v.rect with
    | none => ""
    | some (a, b, c', d) => s!"@{a}.{b}.{c'}.{d}") ++
  (if x.row = r ∧ x.col = c then "" else s!"!{x.row}.{x.col}")

def showRect (q : Int × Int × Int × Int) : String := s!"{q.1}.{q.2.1}.{q.2.2.1}.{q.2.2.2}"

def showMView (s : MState) : String :=
  s!"{s.grid.numRows},{s.grid.numCols}:" ++ showRows showMCell s.grid.data ++ ";" ++
  (match mergeRanges s with
    | .ok l => ",".intercalate (l.map showRect)
    | .error e => "err:" ++ e.name)

inductive MOp where
  | edit (op : Grid.Op Nat)
  | merge (rs : List (Int × Int × Int × Int))
  | mergeOne (r : Int × Int × Int × Int)
  | saveKeep
  | saveReload

def parseRects : Nat → List String → Option (List (Int × Int × Int × Int) × List String)
  | 0, ws => some ([], ws)
  | k + 1, a :: b :: c :: d :: ws => do
    let a ← a.toInt?; let b ← b.toInt?; let c ← c.toInt?; let d ← d.toInt?
    let (l, rest) ← parseRects k ws
    pure ((a, b, c, d) :: l, rest)
  | _, _ => none

def parseMOps : Nat → List String → Option (List MOp)
  | _, [] => some []
  | 0, _ => none
  | f + 1, "w" :: r :: c :: v :: rest => do
    let r ← r.toInt?; let c ← c.toInt?; let v ← v.toNat?
    (MOp.edit (.write r c v) :: ·) <$> parseMOps f rest
  | f + 1, "ar" :: n :: st :: d :: rest => do
    let n ← n.toInt?; let st ← gridOptInt st; let d ← parseOptNat d
    (MOp.edit (.addRow n st d) :: ·) <$> parseMOps f rest
  | f + 1, "ac" :: n :: st :: d :: rest => do
    let n ← n.toInt?; let st ← gridOptInt st; let d ← parseOptNat d
    (MOp.edit (.addCol n st d) :: ·) <$> parseMOps f rest
  | f + 1, "dr" :: n :: st :: rest => do
    let n ← n.toInt?; let st ← gridOptInt st
    (MOp.edit (.delRow n st) :: ·) <$> parseMOps f rest
  | f + 1, "dc" :: n :: st :: rest => do
    let n ← n.toInt?; let st ← gridOptInt st
    (MOp.edit (.delCol n st) :: ·) <$> parseMOps f rest
  | f + 1, "mg" :: rest => do
    let (l, rest) ← parseRects 1 rest
    match l with
    | [q] => (MOp.mergeOne q :: ·) <$> parseMOps f rest
    | _ => none
  | f + 1, "ml" :: k :: rest => do
    let k ← k.toNat?
    let (l, rest) ← parseRects k rest
    (MOp.merge l :: ·) <$> parseMOps f rest
  | f + 1, "sk" :: rest => (MOp.saveKeep :: ·) <$> parseMOps f rest
  | f + 1, "sv" :: rest => (MOp.saveReload :: ·) <$> parseMOps f rest
  | _, _ => none

def mopStep (s : MState) : MOp → PyM MState
  | .edit op => mstep s op
  | .merge rs => mergeList s rs
  | .mergeOne (a, b, c, d) => Merge.mergeOne s a b c d
  | .saveKeep => do let _ ← reload s; pure s
  | .saveReload => reload s

def runMerge (s : MState) : List MOp → List String
  | [] => []
  | op :: rest =>
    match mopStep s op with
    | .ok s' => ("ok=" ++ showMView s') :: runMerge s' rest
    | .error e => ("err:" ++ e.name ++ "=" ++ showMView s) :: runMerge s rest

def handleMerge : List String → Option String
  | "hist" :: nr :: nc :: ws => do
    let nr ← nr.toNat?; let nc ← nc.toNat?
    let ops ← parseMOps (ws.length + 1) ws
    pure ("ok " ++ "|".intercalate (runMerge (minit nr nc) ops))
  | _ => none

end NumbersModel.Drv
