/-
Driver arm for Model/TablePipeline.lean.

  table save <wideBefore> <R> (<C_r> <cell>{C_r}){R}     (wideBefore = `should_use_wide_rows` before the save:
                                                          the save only ever sets the flag)
      cell  = kind/payload/text/stringId/ids      ids = twelve `n`|int separated by `;`
      reply = ok numRows numCols tileSize wide nextListID S n (key:refcount:text){n}
                 T t (tileid:numrows:bnc:k (idx:count:offsets:storage){k}){t}
  table load numRows numCols tileSize M n (r:c){n} S n (key:refcount:text){n}
             T t (tileid:bnc:k (idx:wide:offsets:storage){k}){t}
      reply = ok R (C lcell{C}){R}
      lcell = M | kind/d128/double/seconds/stringId/ids/extras/flags/text      (text `n` = no text)
-/
import NumbersModel.Drv.Proto
import NumbersModel.Drv.CellRecord
import NumbersModel.Model.TablePipeline
namespace NumbersModel.Drv
open NumbersModel NumbersModel.CellRecord NumbersModel.TablePipeline

def parseTCell (w : String) : Option TCell :=
  match w.splitOn "/" with
  | [kind, payload, text, sid, ids] => do
    pure { kind := ← parseKind kind, payload := ← parseBytes payload, text := ← parseText text,
           stringId := ← parseOptInt sid, ids := ← parseIds (ids.splitOn ";") }
  | _ => none

/-- `n` items with `f`, returning the rest. -/
def tpParseN {α} (f : List String → Option (α × List String)) : Nat → List String → Option (List α × List String)
  | 0, ws => some ([], ws)
  | n + 1, ws => do
    let (a, ws1) ← f ws
    let (as, ws2) ← tpParseN f n ws1
    pure (a :: as, ws2)

def tpParseCounted {α} (f : List String → Option (α × List String)) : List String → Option (List α × List String)
  | [] => none
  | n :: ws => do let n ← n.toNat?; tpParseN f n ws

def tpOne {α} (f : String → Option α) : List String → Option (α × List String)
  | [] => none
  | w :: ws => do let a ← f w; pure (a, ws)

def tpShowEntry (e : Layout.Entry Text) : String := s!"{e.key}:{e.refcount}:{showText e.value}"

def tpParseEntry (w : String) : Option (Layout.Entry Text) :=
  match w.splitOn ":" with
  | [k, r, t] => do pure { key := ← k.toNat?, refcount := ← r.toNat?, value := ← parseText t }
  | _ => none

def showSavedRow (r : SavedRow) : String :=
  s!"{r.tileRowIndex}:{r.cellCount}:{showBytes r.offsets}:{showBytes r.storage}"

def showSavedTile (t : SavedTile) : String :=
  " ".intercalate (s!"{t.tileid}:{t.numrows}:{if t.lastSavedInBNC then 1 else 0}:{t.rowInfos.length}" ::
    t.rowInfos.map showSavedRow)

def showSaved (wideBefore : Bool) (s : SavedTable) : String :=
  " ".intercalate ([toString s.numRows, toString s.numCols, toString s.tileSize,
    if wideBefore || s.setsWideRows then "1" else "0", toString s.nextListID, "S", toString s.strings.length] ++
    s.strings.map tpShowEntry ++ ["T", toString s.tiles.length] ++ s.tiles.map showSavedTile)

def parseLoadRow (w : String) : Option SavedRow :=
  match w.splitOn ":" with
  | [idx, wide, off, st] => do
    pure { tileRowIndex := ← idx.toNat?, cellCount := 0, offsets := ← parseBytes off,
           storage := ← parseBytes st, wide := ← parseBool wide }
  | _ => none

def parseLoadTile : List String → Option (SavedTile × List String)
  | [] => none
  | hd :: ws =>
    match hd.splitOn ":" with
    | [tid, bnc, k] => do
      let k ← k.toNat?
      let (rows, rest) ← tpParseN (tpOne parseLoadRow) k ws
      pure ({ tileid := ← tid.toNat?, numrows := k, lastSavedInBNC := ← parseBool bnc, rowInfos := rows }, rest)
    | _ => none

def tpParseRef (w : String) : Option (Nat × Nat) :=
  match w.splitOn ":" with
  | [r, c] => do pure (← r.toNat?, ← c.toNat?)
  | _ => none

def showLCell : LCell → String
  | .merged => "M"
  | .stored d t =>
    "/".intercalate [showDKind d.kind, showOptBytes d.d128, showOptBytes d.double, showOptBytes d.seconds,
      showOptInt d.stringId,
      ";".intercalate ([d.ids.rich, d.ids.cellStyle, d.ids.textStyle, d.ids.formula, d.ids.control,
        d.ids.suggest, d.ids.numFmt, d.ids.curFmt, d.ids.dateFmt, d.ids.durFmt, d.ids.textFmt,
        d.ids.boolFmt].map showOptInt),
      toString d.extras, toString d.flags, match t with | none => "n" | some s => showText s]

def showLGrid (g : List (List LCell)) : String :=
  " ".intercalate (toString g.length :: g.map fun row =>
    " ".intercalate (toString row.length :: row.map showLCell))

def handleTable : List String → Option String
  | "save" :: before :: ws => do
    let before ← parseBool before
    let (rows, rest) ← tpParseCounted (tpParseCounted (tpOne parseTCell)) ws
    if !rest.isEmpty then none
    pure (showPyM (showSaved before) (saveTable rows))
  | "load" :: nr :: nc :: ts :: "M" :: ws => do
    let (refs, ws) ← tpParseCounted (tpOne tpParseRef) ws
    match ws with
    | "S" :: ws => do
      let (strs, ws) ← tpParseCounted (tpOne tpParseEntry) ws
      match ws with
      | "T" :: ws => do
        let (tiles, rest) ← tpParseCounted parseLoadTile ws
        if !rest.isEmpty then none
        let s : SavedTable := { numRows := ← nr.toNat?, numCols := ← nc.toNat?, tileSize := ← ts.toNat?,
                                setsWideRows := false, strings := strs, nextListID := 0, tiles := tiles }
        pure (showPyM showLGrid (loadTable (fun r c => refs.contains (r, c)) s))
      | _ => none
    | _ => none
  | _ => none

end NumbersModel.Drv
