import NumbersModel.Drv.Proto
import NumbersModel.Model.Refs
import NumbersModel.Model.RefsSpec
namespace NumbersModel.Drv
open NumbersModel NumbersModel.Refs

def takeTexts : Nat → List String → Option (List Text × List String)
  | 0, ws => some ([], ws)
  | n + 1, w :: ws => do
    let t ← parseText w
    let (ts, r) ← takeTexts n ws
    pure (t :: ts, r)
  | _ + 1, [] => none

def refsParseTables (nextId : Nat) : Nat → List String → Option (List Table × List String)
  | 0, ws => some ([], ws)
  | n + 1, name :: hr :: hc :: nr :: nc :: ws => do
    let name ← parseText name
    let hr ← hr.toNat?; let hc ← hc.toNat?; let nr ← nr.toNat?; let nc ← nc.toNat?
    let (rl, ws) ← takeTexts nr ws
    let (cl, ws) ← takeTexts nc ws
    let (ts, ws) ← refsParseTables (nextId + 1) n ws
    pure ({ id := nextId, name := name, nHeaderRows := hr, nHeaderCols := hc, nRows := nr, nCols := nc,
            rowLabels := rl, colLabels := cl } :: ts, ws)
  | _ + 1, _ => none

def parseSheets (sid nextId : Nat) : Nat → List String → Option (Doc × List String)
  | 0, ws => some ([], ws)
  | n + 1, name :: nt :: ws => do
    let name ← parseText name
    let nt ← nt.toNat?
    let (ts, ws) ← refsParseTables nextId nt ws
    let (ss, ws) ← parseSheets (sid + 1) (nextId + nt) n ws
    pure ({ id := sid, name := name, tables := ts } :: ss, ws)
  | _ + 1, _ => none

def parseEntries (w : String) : Option (List RangeEntry) :=
  if w == "-" then some [] else
  (w.splitOn ";").mapM fun e =>
    match e.splitOn "," with
    | [b] => do pure { rbegin := ← b.toInt?, rend := none }
    | [b, x] => do pure { rbegin := ← b.toInt?, rend := some (← x.toInt?) }
    | _ => none

def parseTo (w : String) : Option (Option Nat) :=
  if w == "-" then some none else w.toNat?.map some

def parseRefNode : List String → Option RefNode
  | ["C", hr, r, ra, hc, c, ca, to] => do
    pure { hasRow := ← parseBool hr, row := ← r.toInt?, rowAbs := ← parseBool ra,
           hasCol := ← parseBool hc, col := ← c.toInt?, colAbs := ← parseBool ca, toTable := ← parseTo to }
  | ["T", rr, ar, rc, ac, bits, to] => do
    match bits.toList with
    | [a, b, c, d] =>
      pure { hasTract := true, relRow := ← parseEntries rr, absRow := ← parseEntries ar,
             relCol := ← parseEntries rc, absCol := ← parseEntries ac,
             beginRowAbs := a == '1', endRowAbs := b == '1', beginColAbs := c == '1', endColAbs := d == '1',
             toTable := ← parseTo to }
    | _ => none
  | _ => none

def handleRefsStr (pinned : Bool) : List String → Option String
  | ns :: ws => do
    let ns ← ns.toNat?
    let (doc, ws) ← parseSheets 0 0 ns ws
    match ws with
    | host :: row :: col :: nodeWs => do
      let host ← host.toNat?; let row ← row.toInt?; let col ← col.toInt?
      let n ← parseRefNode nodeWs
      pure (showPyM showText (refText pinned doc host row col n))
    | _ => none
  | _ => none

def showB (b : Bool) : String := if b then "1" else "0"

def showDenot : RefsSpec.Denot → String
  | .cell r c ra ca => s!"C,{r},{c},{showB ra},{showB ca}"
  | .row r a => s!"R,{r},{showB a}"
  | .col c a => s!"L,{c},{showB a}"

/-- `refs resolve <doc> <host> <text>`: the resolver SPEC (Model/RefsSpec.lean) applied to a printed text -/
def handleRefsResolve : List String → Option String
  | ns :: ws => do
    let ns ← ns.toNat?
    let (doc, ws) ← parseSheets 0 0 ns ws
    match ws with
    | [host, text] => do
      let host ← host.toNat?
      let text ← parseText text
      match RefsSpec.resolveText doc host text with
      | some (t, ds) =>
        -- a single row / column may be printed as `x:x`: two equal ends are shown once
        let ds := match ds with
          | [a, b] => if a = b then [a] else ds
          | _ => ds
        pure s!"ok {t} {";".intercalate (ds.map showDenot)}"
      | none => pure "none"
    | _ => none
  | _ => none

def handleRefs : List String → Option String
  | "str" :: ws => handleRefsStr false ws
  | "strpinned" :: ws => handleRefsStr true ws
  | "resolve" :: ws => handleRefsResolve ws
  | _ => none

end NumbersModel.Drv
