/-
Driver arm for Model/Loader.lean.  One request describes a whole loading scenario: the answer of every
external call (scripted by the harness for fault injection, or recorded from the real zipfile / plistlib /
iwafile during a real load).  A query the scenario does not answer yields `err oracle-miss`.

  loader load <variant f|p> <exists> <suffixOk> <isdir0> <isdir1> <openzip> <warn0> <warn1>
              <propsExists> <buildExists> <propsRead>
         zips <nz> { <zid> <n> { <name> <read> }*n }*nz
         blobs <nb> { <bid> <sniff> <nested> <plist> <decode> }*nb
         vers <nv> { <text> <0|1> }*nv
         steps <ns> { !Exc | X <openres> | F <name> <readres> }*ns
         oserr <n> <Exc>*n  warncls <n> <Exc>*n
  bool result: 0 | 1 | !Exc | -        id result: <nat> | !Exc | -        unit result: ok | !Exc
  plist: !Exc | s<text> | n | -        decode: !Exc | - | c<nchunks> { <nsegs> { <ident> <nobj> }* }*
-/
import NumbersModel.Drv.Proto
import NumbersModel.Drv.Iwa
import NumbersModel.Model.Loader
namespace NumbersModel.Drv
open NumbersModel NumbersModel.Loader

abbrev LP := StateT (List String) Option

def tok : LP String := do
  match ← get with
  | [] => failure
  | t :: r => set r; pure t

def expect (w : String) : LP Unit := do
  let t ← tok
  if t == w then pure () else failure

def natTok : LP Nat := do
  let t ← tok
  match t.toNat? with
  | some n => pure n
  | none => failure

def lmiss : PyExc := .Other "oracle-miss"

def boolRes : LP (PyM Bool) := do
  let t ← tok
  if t == "0" then pure (.ok false) else if t == "1" then pure (.ok true)
  else if t == "-" then pure (.error lmiss)
  else if t.startsWith "!" then pure (.error (excOfName (t.drop 1).toString)) else failure

def idRes : LP (PyM Nat) := do
  let t ← tok
  if t == "-" then pure (.error lmiss)
  else if t.startsWith "!" then pure (.error (excOfName (t.drop 1).toString))
  else match t.toNat? with
    | some n => pure (.ok n)
    | none => failure

def unitRes : LP (PyM Unit) := do
  let t ← tok
  if t == "ok" then pure (.ok ())
  else if t.startsWith "!" then pure (.error (excOfName (t.drop 1).toString)) else failure

def textTok : LP Text := do
  let t ← tok
  match parseText t with
  | some cs => pure cs
  | none => failure

def plistRes : LP (PyM (Option Text)) := do
  let t ← tok
  if t == "-" then pure (.error lmiss)
  else if t == "n" then pure (.ok none)
  else if t.startsWith "!" then pure (.error (excOfName (t.drop 1).toString))
  else if t.startsWith "s" then
    match parseText (t.drop 1).toString with
    | some cs => pure (.ok (some cs))
    | none => failure
  else failure

def repeatP {α} (p : LP α) : Nat → LP (List α)
  | 0 => pure []
  | n + 1 => do
    let a ← p
    let r ← repeatP p n
    pure (a :: r)

def decodeRes : LP (PyM (List (List (Nat × Nat)))) := do
  let t ← tok
  if t == "-" then pure (.error lmiss)
  else if t.startsWith "!" then pure (.error (excOfName (t.drop 1).toString))
  else if t.startsWith "c" then
    match (t.drop 1).toString.toNat? with
    | none => failure
    | some nch =>
      let chunks ← repeatP (do
        let ns ← natTok
        repeatP (do let i ← natTok; let k ← natTok; pure (i, k)) ns) nch
      pure (.ok chunks)
  else failure

structure BlobDesc where
  id : Nat
  sniff : PyM Bool
  nested : PyM Nat
  plist : PyM (Option Text)
  decode : PyM (List (List (Nat × Nat)))

structure ZipD where
  id : Nat
  members : List (Text × PyM Nat)

def stepP : LP (PyM PkgEntry) := do
  let t ← tok
  if t == "X" then do
    let o ← idRes
    pure (.ok (.indexZip o))
  else if t == "F" then do
    let n ← textTok
    let r ← idRes
    pure (.ok (.file n r))
  else if t.startsWith "!" then pure (.error (excOfName (t.drop 1).toString))
  else failure

def scenarioP : LP (Variant × Ext) := do
  let vt ← tok
  let v ← if vt == "f" then pure fixed else if vt == "p" then pure pinned else failure
  let ex ← boolRes
  let sfx ← boolRes
  let d0 ← boolRes
  let d1 ← boolRes
  let oz ← idRes
  let w0 ← unitRes
  let w1 ← unitRes
  let pe ← boolRes
  let be ← boolRes
  let pr ← idRes
  expect "zips"
  let nz ← natTok
  let zips ← repeatP (do
    let zid ← natTok
    let n ← natTok
    let ms ← repeatP (do let nm ← textTok; let r ← idRes; pure (nm, r)) n
    pure (ZipD.mk zid ms)) nz
  expect "blobs"
  let nb ← natTok
  let blobs ← repeatP (do
    let bid ← natTok
    let s ← boolRes
    let ne ← idRes
    let pl ← plistRes
    let de ← decodeRes
    pure (BlobDesc.mk bid s ne pl de)) nb
  expect "vers"
  let nv ← natTok
  let vers ← repeatP (do let t ← textTok; let b ← natTok; pure (t, b != 0)) nv
  expect "steps"
  let ns ← natTok
  let steps ← repeatP stepP ns
  expect "oserr"
  let no ← natTok
  let oserr ← repeatP tok no
  expect "warncls"
  let nw ← natTok
  let warncls ← repeatP tok nw
  let findBlob (b : Nat) : Option BlobDesc := blobs.find? (fun d => d.id == b)
  let findZip (z : Nat) : Option ZipD := zips.find? (fun d => d.id == z)
  let x : Ext := {
    pathExists := ex
    suffixOk := match sfx with | .ok b => b | .error _ => false
    isDir := fun i => if i == 0 then d0 else d1
    openZipPath := oz
    zipNames := fun z => match findZip z with | some d => d.members.map (·.1) | none => []
    zipRead := fun z n => match findZip z with
      | some d => match d.members.find? (fun m => m.1 == n) with
        | some m => m.2
        | none => .error .KeyError
      | none => .error lmiss
    openZipBytes := fun b => match findBlob b with | some d => d.nested | none => .error lmiss
    plistVersion := fun b => match findBlob b with | some d => d.plist | none => .error lmiss
    versionOk := fun s => match vers.find? (fun p => p.1 == s) with | some p => p.2 | none => false
    warn := fun i => if i == 0 then w0 else w1
    sniff := fun b => match findBlob b with | some d => d.sniff | none => .error lmiss
    decode := fun b _ => match findBlob b with | some d => d.decode | none => .error lmiss
    propsExists := pe
    buildExists := be
    propsRead := pr
    pkgSteps := steps
    isOSError := fun e => oserr.contains e.name
    isWarning := fun e => warncls.contains e.name
    depth := 40 }
  pure (v, x)

def handleLoader : List String → Option String
  | "load" :: rest =>
    match scenarioP.run rest with
    | some ((v, x), []) =>
      some (showPyM (fun (r : Nat × Nat × Nat) => s!"{r.1} {r.2.1} {r.2.2}") (load v x))
    | _ => none
  | "docstage" :: bnd :: warncls :: [res] =>
    -- the construction stage of Document(path) on a healthy load: `res` = ok | !Exc ; `warncls` = 1 iff Exc is a Warning
    let docIwa : Text := "Index/Document.iwa".toList
    let props : Text := "Metadata/Properties.plist".toList
    let x : Ext := { pathExists := .ok true, suffixOk := true, isDir := fun _ => .ok false, openZipPath := .ok 0,
                     zipNames := fun _ => [docIwa, props, "Metadata/BuildVersionHistory.plist".toList, "preview.jpg".toList],
                     zipRead := fun _ n => if n = docIwa then .ok 0 else if n = props then .ok 1
                                           else if n = "Metadata/BuildVersionHistory.plist".toList then .ok 2 else .ok 3,
                     openZipBytes := fun _ => .error .BadZipFile, plistVersion := fun _ => .ok (some "14.1".toList),
                     versionOk := fun _ => true, warn := fun _ => .ok (), sniff := fun b => .ok (b == 0),
                     decode := fun _ _ => .ok [[(1, 1), (2000123, 3)]], propsExists := .ok false, buildExists := .ok false,
                     propsRead := .error .FileError, pkgSteps := [], isOSError := fun _ => false,
                     isWarning := fun _ => warncls == "1", depth := 40 }
    let build : Nat × Nat × Nat → PyM Nat := fun _ =>
      if res == "ok" then .ok 0 else .error (excOfName (res.drop 1).toString)
    some (showPyM (fun (_ : Nat) => "doc") (openDocument fixed (bnd == "1") x build))
  | _ => none

end NumbersModel.Drv
