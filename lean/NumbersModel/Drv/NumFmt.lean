import NumbersModel.Drv.Proto
import NumbersModel.Model.NumFmt
import NumbersModel.Gen.Constants
namespace NumbersModel.Drv
open NumbersModel NumbersModel.NumFmt

def parseDec (n m e : String) : Option Dec := do
  let n ← parseBool n; let m ← m.toNat?; let e ← e.toInt?
  pure ⟨n, m, e⟩

def handleNumFmt : List String → Option String
  | ["dec", n, m, e, places, thou, style, pct] => do
    let d ← parseDec n m e
    let places ← places.toNat?; let thou ← parseBool thou; let style ← style.toNat?; let pct ← parseBool pct
    pure ("ok " ++ showText (formatDecimal d ⟨places, thou, style⟩ pct))
  | ["cur", n, m, e, places, thou, style, acct, code] => do
    let d ← parseDec n m e
    let places ← places.toNat?; let thou ← parseBool thou; let style ← style.toNat?; let acct ← parseBool acct
    let code ← parseText code
    pure ("ok " ++ showText (formatCurrency Gen.currencySymbols d ⟨places, thou, style⟩ acct code))
  | ["sci", n, m, e, places] => do
    let d ← parseDec n m e
    let places ← places.toNat?
    pure ("ok " ++ showText (formatScientific d places))
  | ["base", n, m, e, b, places, minus] => do
    let d ← parseDec n m e
    let b ← b.toNat?; let places ← places.toNat?; let minus ← parseBool minus
    pure ("ok " ++ showText (formatBase d ⟨b, places, minus⟩))
  | ["fracfix", den, n, m, e, tn, tp, tq] => do
    let d ← parseDec n m e
    let den ← den.toNat?; let tn ← parseBool tn; let tp ← tp.toNat?; let tq ← tq.toNat?
    pure ("ok " ++ showText (fractionFixed den d tn tp tq))
  | ["fracdig", digits, p, q] => do
    let digits ← digits.toNat?; let p ← p.toInt?; let q ← q.toNat?
    pure (showPyM showText (fractionDigits digits p q))
  | ["rating", n, m, e] => do
    let d ← parseDec n m e
    pure ("ok " ++ showText (formatRating d))
  | _ => none

end NumbersModel.Drv
