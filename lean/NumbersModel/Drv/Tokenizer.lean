import NumbersModel.Drv.Proto
import NumbersModel.Model.TokenizerCfg
import NumbersModel.Model.FormulaAcceptDefs
namespace NumbersModel.Drv
open NumbersModel NumbersModel.Tokenizer

def ttypeName : TType → String
  | .OPERAND => "OPERAND" | .FUNC => "FUNC" | .ARRAY => "ARRAY" | .PAREN => "PAREN" | .SEP => "SEP"
  | .OP_PRE => "PRE" | .OP_IN => "IN" | .OP_POST => "POST"

def subName : SubT → String
  | .none => "_" | .TEXT => "TEXT" | .ERROR => "ERROR" | .LOGICAL => "LOGICAL" | .NR => "NR"
  | .OPEN => "OPEN" | .CLOSE => "CLOSE" | .ARG => "ARG" | .ROW => "ROW"

def showTok (t : Tok) : String := s!"{showText t.value}/{ttypeName t.type}/{subName t.subtype}"

def showOptNat : Option Nat → String
  | some n => s!"ok {n}"
  | none => "ok none"

def handleTok : List String → Option String
  | ["tokenize", s] => do
    let s ← parseText s
    pure (showPyM (fun ts => " ".intercalate (ts.map showTok)) (tokenize liveCfg s))
  | ["dq", s] => do
    let s ← parseText s
    pure (showOptNat (dqMatch s))
  | ["sq", s] => do
    let s ← parseText s
    pure (showOptNat (sqMatch Gen.whitespace s))
  -- domain predicates of the acceptance theorem (C18 clause 4)
  | ["refok", s] => do
    let s ← parseText s
    pure (if FormulaAccept.refOK s then "ok 1" else "ok 0")
  | ["atomok", s] => do
    let s ← parseText s
    pure (if FormulaAccept.atomOK s then "ok 1" else "ok 0")
  | ["sn", s] => do
    let s ← parseText s
    pure (if snMatch s then "ok 1" else "ok 0")
  | _ => none

end NumbersModel.Drv
