import NumbersModel.Drv.Proto
import NumbersModel.Model.StringTable
namespace NumbersModel.Drv
open NumbersModel NumbersModel.StringTable

private def parseTexts : Nat → List String → List Text → Option (List Text)
  | 0, [], acc => some acc.reverse
  | 0, _ :: _, _ => none
  | n + 1, w :: rest, acc => do let t ← parseText w; parseTexts n rest (t :: acc)
  | _ + 1, [], _ => none

/-- `strtab intern <n> <text>*n` → `ok <keys> | <key>:<text> …` (entries in list order) -/
def handleStrTab : List String → Option String
  | "intern" :: n :: rest => do
    let n ← n.toNat?
    let texts ← parseTexts n rest []
    let (keys, t) := internAll (init : Tbl Text) texts
    pure ("ok " ++ " ".intercalate (keys.map toString) ++ " | " ++
      " ".intercalate (t.entries.map fun e => s!"{e.1}:{showText e.2}"))
  | _ => none

end NumbersModel.Drv
