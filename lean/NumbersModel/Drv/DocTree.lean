import NumbersModel.Drv.Proto
import NumbersModel.Model.DocTree
namespace NumbersModel.Drv.DT
open NumbersModel NumbersModel.Drv NumbersModel.DocTree

/-!
One document history per line:
`doctree hist <maxId> <nfiles> (<name> (B | I <n> <id>*n))*nfiles <nobjs> (<id> <obj>)*nobjs <op>*`
objects: `D n sid*` | `S name n dr*` | `I parent tm cap hidden x y` | `M name en hr hc` | `Z` | `C storage` |
`T n text*` | `O`
ops: `AS name` | `AT sid name from x y rows hr hc` | `SN sid name` | `TN tid name` | `NE tid b` | `CE tid b` | `CT tid text` |
`HR tid n` | `HC tid n` | `CO n pat*n` | `Q` | `QP` (names with the pinned table order) | `SV` | `LD mode` (state := load of the
serialised package after the layout rewrite `mode`: id | revm | reva | both | rota)
reply: outcomes separated by `;`.
-/

def parseNats : Nat → List String → List Nat → Option (List Nat × List String)
  | 0, rest, acc => some (acc.reverse, rest)
  | k + 1, w :: rest, acc => do let n ← w.toNat?; parseNats k rest (n :: acc)
  | _, _, _ => none

def parseTexts : Nat → List String → List Text → Option (List Text × List String)
  | 0, rest, acc => some (acc.reverse, rest)
  | k + 1, w :: rest, acc => do let t ← parseText w; parseTexts k rest (t :: acc)
  | _, _, _ => none

def parseObj : List String → Option (Obj × List String)
  | "D" :: n :: rest => do let n ← n.toNat?; let (l, rest) ← parseNats n rest []; pure (.document l, rest)
  | "S" :: nm :: n :: rest => do
    let nm ← parseText nm; let n ← n.toNat?; let (l, rest) ← parseNats n rest []; pure (.sheet nm l, rest)
  | "I" :: p :: tm :: c :: h :: x :: y :: rest => do
    pure (.tableInfo (← p.toNat?) (← tm.toNat?) (← c.toNat?) (← parseBool h) (← x.toNat?) (← y.toNat?), rest)
  | "M" :: nm :: en :: hr :: hc :: rest => do
    pure (.tableModel (← parseText nm) (← parseBool en) (← hr.toNat?) (← hc.toNat?), rest)
  | "Z" :: rest => pure (.standinCaption, rest)
  | "C" :: st :: rest => do pure (.captionInfo (← st.toNat?), rest)
  | "T" :: n :: rest => do let n ← n.toNat?; let (l, rest) ← parseTexts n rest []; pure (.storage l, rest)
  | "O" :: rest => pure (.other, rest)
  | _ => none

def parseObjs : Nat → List String → Objects → Option (Objects × List String)
  | 0, rest, acc => some (acc.reverse, rest)
  | k + 1, id :: rest, acc => do
    let id ← id.toNat?
    let (o, rest) ← parseObj rest
    parseObjs k rest ((id, o) :: acc)
  | _, _, _ => none

def parseFiles : Nat → List String → Files → Option (Files × List String)
  | 0, rest, acc => some (acc.reverse, rest)
  | k + 1, nm :: "B" :: rest, acc => do let nm ← parseText nm; parseFiles k rest ((nm, none) :: acc)
  | k + 1, nm :: "I" :: n :: rest, acc => do
    let nm ← parseText nm; let n ← n.toNat?
    let (ids, rest) ← parseNats n rest []
    parseFiles k rest ((nm, some ids) :: acc)
  | _, _, _ => none

def showB (b : Bool) : String := if b then "1" else "0"

def showObj : Obj → String
  | .document l => "D " ++ toString l.length ++ String.join (l.map fun i => " " ++ toString i)
  | .sheet nm l => "S " ++ showText nm ++ " " ++ toString l.length ++ String.join (l.map fun i => " " ++ toString i)
  | .tableInfo p tm c h x y => s!"I {p} {tm} {c} {showB h} {x} {y}"
  | .tableModel nm en hr hc => s!"M {showText nm} {showB en} {hr} {hc}"
  | .standinCaption => "Z"
  | .captionInfo st => s!"C {st}"
  | .storage l => "T " ++ toString l.length ++ String.join (l.map fun t => " " ++ showText t)
  | .other => "O"

def showNames (r : List (Option Text × List Text)) : String :=
  "/".intercalate (r.map fun (nm, ts) =>
    (match nm with | some t => showText t | none => "None") ++ ":" ++ "+".intercalate (ts.map showText))

def showLabels (l : Labels) : String :=
  s!"{showText l.name}~{showB l.nameEnabled}~{showB l.captionEnabled}~{showText l.caption}~{l.hdrRows}~{l.hdrCols}~{l.x}~{l.y}"

def showAllLabels (r : List (List Labels)) : String :=
  "/".intercalate (r.map fun ls => "+".intercalate (ls.map showLabels))

/-- the tracked archives of every member in file order, and the identifiers of all archives per member -/
def showPackage (ms : List Member) : String :=
  " ".intercalate (ms.map fun (nm, seg) =>
    match seg with
    | none => showText nm ++ "=B"
    | some as =>
      showText nm ++ "=" ++ ",".intercalate (as.map fun (i, o) =>
        match o with
        | .other => toString i
        | o => toString i ++ "[" ++ (showObj o).replace " " "_" ++ "]"))

def rot {α} : List α → List α
  | [] => []
  | a :: r => r ++ [a]

def rewrite (mode : String) (ms : List Member) : Option (List Member) :=
  let onArch (f : List (Nat × Obj) → List (Nat × Obj)) := ms.map fun (nm, seg) => (nm, seg.map f)
  match mode with
  | "id" => some ms
  | "revm" => some ms.reverse
  | "reva" => some (onArch List.reverse)
  | "both" => some ((onArch List.reverse).reverse)
  | "rota" => some (onArch rot)
  | _ => none

partial def runDoc : Doc → List String → List String → Option (List String)
  | _, [], acc => some acc.reverse
  | d, "AS" :: nm :: rest, acc => do
    let nm ← parseText nm
    match addSheet d nm with
    | .ok (d', sid) => runDoc d' rest (s!"ok {sid}" :: acc)
    | .error e => runDoc d rest (showExc e :: acc)
  | d, "AT" :: sid :: nm :: ft :: x :: y :: nr :: hr :: hc :: rest, acc => do
    let nm ← parseText nm
    match addTable d (← sid.toNat?) nm (← ft.toNat?) (← x.toNat?) (← y.toNat?) (← nr.toNat?) (← hr.toNat?) (← hc.toNat?) with
    | .ok (d', tid) => runDoc d' rest (s!"ok {tid}" :: acc)
    | .error e => runDoc d rest (showExc e :: acc)
  | d, "SN" :: sid :: nm :: rest, acc => do
    stepWith d (.setSheetName (← sid.toNat?) (← parseText nm)) rest acc
  | d, "TN" :: tid :: nm :: rest, acc => do
    stepWith d (.setTableName (← tid.toNat?) (← parseText nm)) rest acc
  | d, "NE" :: tid :: b :: rest, acc => do
    stepWith d (.setNameEnabled (← tid.toNat?) (← parseBool b)) rest acc
  | d, "CE" :: tid :: b :: rest, acc => do
    stepWith d (.setCaptionEnabled (← tid.toNat?) (← parseBool b)) rest acc
  | d, "CT" :: tid :: t :: rest, acc => do
    stepWith d (.setCaption (← tid.toNat?) (← parseText t)) rest acc
  | d, "HR" :: tid :: n :: rest, acc => do
    stepWith d (.setHdrRows (← tid.toNat?) (← n.toNat?)) rest acc
  | d, "HC" :: tid :: n :: rest, acc => do
    stepWith d (.setHdrCols (← tid.toNat?) (← n.toNat?)) rest acc
  | d, "CO" :: n :: rest, acc => do
    let (ps, rest) ← parseTexts (← n.toNat?) rest []
    stepWith d (.createOthers ps) rest acc
  | d, "Q" :: rest, acc =>
    let r := match names d.objects, allLabels d.objects with
      | .ok n, .ok l => "ok " ++ showNames n ++ " " ++ showAllLabels l
      | .error e, _ => showExc e
      | _, .error e => showExc e
    runDoc d rest (r :: acc)
  | d, "QP" :: rest, acc =>
    runDoc d rest (showPyM showNames (namesPinned d.objects) :: acc)
  | d, "SV" :: rest, acc => runDoc d rest (("ok " ++ showPackage (serialise d)) :: acc)
  | d, "LD" :: mode :: rest, acc => do
    let ms ← rewrite mode (serialise d)
    runDoc (load ms) rest ("ok" :: acc)
  | _, _, _ => none
where
  stepWith (d : Doc) (op : Op) (rest acc : List String) : Option (List String) :=
    match step d op with
    | .ok d' => runDoc d' rest ("ok" :: acc)
    | .error e => runDoc d rest (showExc e :: acc)

end NumbersModel.Drv.DT
namespace NumbersModel.Drv
open NumbersModel NumbersModel.DocTree NumbersModel.Drv.DT

def handleDocTree : List String → Option String
  | "hist" :: maxId :: nf :: rest => do
    let maxId ← maxId.toNat?
    let (files, rest) ← parseFiles (← nf.toNat?) rest []
    match rest with
    | no :: rest =>
      let (objs, ops) ← parseObjs (← no.toNat?) rest []
      let outs ← runDoc { objects := objs, files := files, maxId := maxId } ops []
      pure (";".intercalate outs)
    | _ => none
  | _ => none

end NumbersModel.Drv
