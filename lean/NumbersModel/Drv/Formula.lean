import NumbersModel.Drv.Proto
import NumbersModel.Model.Formula
import NumbersModel.Model.FormulaLex
import NumbersModel.Model.FormulaAcceptDefs
namespace NumbersModel.Drv
open NumbersModel NumbersModel.Formula NumbersModel.Formula.Parse

/-- node word `ty/a/b/c/text` (meaning of a,b,c by node type, see harness/checks/c08.py). -/
def parseNode (w : String) : Option Node :=
  match w.splitOn "/" with
  | [ty, a, b, c, t] => do
    let ty ← ty.toNat?; let a ← a.toInt?; let b ← b.toInt?; let c ← c.toInt?; let t ← parseText t
    let base : Node := { ty := ty }
    pure (match ty with
      | 16 => { base with fnIndex := a.toNat, fnNumArgs := b.toNat }
      | 17 => { base with decHigh := a.toNat, decLow := b.toNat, numRepr := t }
      | 18 | 23 => { base with hasTokenBool := a != 0, tokenBool := b != 0, boolVal := c != 0 }
      | 19 => { base with str := t }
      | 20 => { base with dateMicros := a }
      | 24 => { base with arrCols := a.toNat, arrRows := b.toNat }
      | 25 => { base with listNumArgs := a.toNat }
      | _ => { base with refText := t })
  | _ => none

def binOpOf : Nat → Option BinOp
  | 1 => some .add | 2 => some .sub | 3 => some .mul | 4 => some .div | 5 => some .pow | 6 => some .concat
  | 7 => some .gt | 8 => some .ge | 9 => some .lt | 10 => some .le | 11 => some .eq | 12 => some .ne
  | _ => none

mutual
def parseExpr : Nat → List String → Option (Expr × List String)
  | 0, _ => none
  | fuel + 1, ws =>
    match ws with
    | "Ni" :: n :: r => do pure (.num (.int (← n.toNat?)), r)
    | "Np" :: t :: r => do pure (.num (.plain (← parseText t)), r)
    | "Ns" :: i :: f :: e :: r => do
      let i ← parseText i; let f ← parseText f; let e ← e.toInt?
      match i with
      | [ic] => pure (.num (.sci ic f e), r)
      | _ => none
    | "S" :: t :: r => do pure (.str (← parseText t), r)
    | "B" :: v :: b :: r => do pure (.bool (← parseBool v) (← parseBool b), r)
    | "D" :: m :: r => do pure (.date (← m.toInt?), r)
    | "R" :: t :: r => do pure (.ref (← parseText t), r)
    | "E" :: r => some (.empty, r)
    | "O" :: op :: r => do
      let op ← binOpOf (← op.toNat?)
      let (l, r) ← parseExpr fuel r
      let (rr, r) ← parseExpr fuel r
      pure (.bin op l rr, r)
    | "M" :: r => do let (e, r) ← parseExpr fuel r; pure (.neg e, r)
    | "P" :: r => do let (e, r) ← parseExpr fuel r; pure (.pct e, r)
    | "L" :: n :: r => do let (es, r) ← parseExprs fuel (← n.toNat?) r; pure (.paren es, r)
    | "F" :: f :: n :: r => do let (es, r) ← parseExprs fuel (← n.toNat?) r; pure (.call (← f.toNat?) es, r)
    | "A" :: c :: rows :: n :: r => do
      let (es, r) ← parseExprs fuel (← n.toNat?) r; pure (.arr (← c.toNat?) (← rows.toNat?) es, r)
    | _ => none
def parseExprs : Nat → Nat → List String → Option (List Expr × List String)
  | 0, _, _ => none
  | _ + 1, 0, ws => some ([], ws)
  | fuel + 1, n + 1, ws => do
    let (e, r) ← parseExpr fuel ws
    let (es, r) ← parseExprs fuel n r
    pure (e :: es, r)
end

/-! ### canonical one-line s-expression of a parse tree (texts hex-encoded, numbers by value) -/

def opNum : BinOp → Nat
  | .add => 1 | .sub => 2 | .mul => 3 | .div => 4 | .pow => 5 | .concat => 6
  | .gt => 7 | .ge => 8 | .lt => 9 | .le => 10 | .eq => 11 | .ne => 12

/-- `n / 10^k` without trailing zeros in the fraction. -/
def normDec : Nat → Nat → Nat → Nat × Nat
  | 0, n, k => (n, k)
  | f + 1, n, k => if k > 0 ∧ n % 10 = 0 then normDec f (n / 10) (k - 1) else (n, k)

def showNum (t : Text) : String :=
  match decValue t with
  | some (n, k) => let (n, k) := normDec (k + 1) n k; s!"(num {n} {k})"
  | none => s!"(num ? {showText t})"

mutual
def showPT : PT → String
  | .num t => showNum t
  | .str s => s!"(str {showText s})"
  | .bool b => if b then "(bool 1)" else "(bool 0)"
  | .name t => s!"(name {showText t})"
  | .empty => "(empty)"
  | .bin o l r => s!"(bin {opNum o} {showPT l} {showPT r})"
  | .neg e => s!"(neg {showPT e})"
  | .pct e => s!"(pct {showPT e})"
  | .paren es => "(paren" ++ showPTs es ++ ")"
  | .call f args => s!"(call {showText f}" ++ showPTs args ++ ")"
  | .arr rows => "(arr" ++ showPTRows rows ++ ")"
def showPTs : List PT → String
  | [] => ""
  | e :: es => " " ++ showPT e ++ showPTs es
def showPTRows : List (List PT) → String
  | [] => ""
  | r :: rs => " (row" ++ showPTs r ++ ")" ++ showPTRows rs
end

def showOptPT : Option PT → String
  | some t => showPT t
  | none => "none"

def flag (b : Bool) : String := if b then "1" else "0"

def handleFormula : List String → Option String
  | "exec" :: ws => do
    let nodes ← ws.mapM parseNode
    pure (showPyM showText (formulaText nodes))
  | ["num", r] => do pure (showPyM showText (numberToStr (← parseText r)))
  | ["numfixed", r] => do pure (showPyM showText (numberToStrFixed (← parseText r)))
  | "tree" :: ws => do
    let (e, rest) ← parseExpr (ws.length + 1) ws
    if rest ≠ [] then none
    pure (showPyM showText (formulaText (compile e)) ++ " " ++ showText (render e) ++ " " ++
      (if WellFormed e then "1" else "0") ++ " " ++ toString (compile e).length)
  -- the Lean lexer + parser on a formula text (the harness sends what the REAL library printed)
  | ["read", t] => do
    let t ← parseText t
    pure ("ok " ++ showOptPT (readText t))
  -- what the stored tree denotes, whether it satisfies the hypotheses of `read_render`, and whether the
  -- model's own text is read back to it
  | "canon" :: ws => do
    let (e, rest) ← parseExpr (ws.length + 1) ws
    if rest ≠ [] then none
    let c := canon e
    pure ("ok " ++ showPT c ++ " " ++ flag (WellParen e) ++ " " ++ flag (RefsSafe e) ++ " " ++
      flag (showOptPT (readText (render e)) == showPT c))
  -- is the stored tree inside the domain of C18's `reader_output_accepted_partial`?
  | "toksafe" :: ws => do
    let (e, rest) ← parseExpr (ws.length + 1) ws
    if rest ≠ [] then none
    pure ("ok " ++ flag (FormulaAccept.TokSafe e))
  | ["namesafe", t] => do
    let t ← parseText t
    pure ("ok " ++ flag (nameSafe t))
  | _ => none

end NumbersModel.Drv
