import NumbersModel.Drv.Proto
import NumbersModel.Model.Formula
namespace NumbersModel.Drv
open NumbersModel NumbersModel.Formula

/-- node word `ty/a/b/c/text` (meaning of a,b,c by node type, see harness/checks/c08.py). -/
def parseNode (w : String) : Option Node :=
  match w.splitOn "/" with
  | [ty, a, b, c, t] => do
    let ty ← ty.toNat?; let a ← a.toInt?; let b ← b.toInt?; let c ← c.toInt?; let t ← parseText t
    let base : Node := { ty := ty }
    pure (match ty with
      | 16 => { base with fnIndex := a.toNat, fnNumArgs := b.toNat }
      | 17 => { base with decHigh := a.toNat, decLow := b.toNat, numRepr := t }
      | 18 | 23 => { base with hasTokenBool := a != 0, tokenBool := b != 0, boolVal := c != 0 }
      | 19 => { base with str := t }
      | 20 => { base with dateMicros := a }
      | 24 => { base with arrCols := a.toNat, arrRows := b.toNat }
      | 25 => { base with listNumArgs := a.toNat }
      | _ => { base with refText := t })
  | _ => none

def binOpOf : Nat → Option BinOp
  | 1 => some .add | 2 => some .sub | 3 => some .mul | 4 => some .div | 5 => some .pow | 6 => some .concat
  | 7 => some .gt | 8 => some .ge | 9 => some .lt | 10 => some .le | 11 => some .eq | 12 => some .ne
  | _ => none

mutual
def parseExpr : Nat → List String → Option (Expr × List String)
  | 0, _ => none
  | fuel + 1, ws =>
    match ws with
    | "Ni" :: n :: r => do pure (.num (.int (← n.toNat?)), r)
    | "Np" :: t :: r => do pure (.num (.plain (← parseText t)), r)
    | "Ns" :: i :: f :: e :: r => do
      let i ← parseText i; let f ← parseText f; let e ← e.toInt?
      match i with
      | [ic] => pure (.num (.sci ic f e), r)
      | _ => none
    | "S" :: t :: r => do pure (.str (← parseText t), r)
    | "B" :: v :: b :: r => do pure (.bool (← parseBool v) (← parseBool b), r)
    | "D" :: m :: r => do pure (.date (← m.toInt?), r)
    | "R" :: t :: r => do pure (.ref (← parseText t), r)
    | "E" :: r => some (.empty, r)
    | "O" :: op :: r => do
      let op ← binOpOf (← op.toNat?)
      let (l, r) ← parseExpr fuel r
      let (rr, r) ← parseExpr fuel r
      pure (.bin op l rr, r)
    | "M" :: r => do let (e, r) ← parseExpr fuel r; pure (.neg e, r)
    | "P" :: r => do let (e, r) ← parseExpr fuel r; pure (.pct e, r)
    | "L" :: n :: r => do let (es, r) ← parseExprs fuel (← n.toNat?) r; pure (.paren es, r)
    | "F" :: f :: n :: r => do let (es, r) ← parseExprs fuel (← n.toNat?) r; pure (.call (← f.toNat?) es, r)
    | "A" :: c :: rows :: n :: r => do
      let (es, r) ← parseExprs fuel (← n.toNat?) r; pure (.arr (← c.toNat?) (← rows.toNat?) es, r)
    | _ => none
def parseExprs : Nat → Nat → List String → Option (List Expr × List String)
  | 0, _, _ => none
  | _ + 1, 0, ws => some ([], ws)
  | fuel + 1, n + 1, ws => do
    let (e, r) ← parseExpr fuel ws
    let (es, r) ← parseExprs fuel n r
    pure (e :: es, r)
end

def handleFormula : List String → Option String
  | "exec" :: ws => do
    let nodes ← ws.mapM parseNode
    pure (showPyM showText (formulaText nodes))
  | ["num", r] => do pure (showPyM showText (numberToStr (← parseText r)))
  | ["numfixed", r] => do pure (showPyM showText (numberToStrFixed (← parseText r)))
  | "tree" :: ws => do
    let (e, rest) ← parseExpr (ws.length + 1) ws
    if rest ≠ [] then none
    pure (showPyM showText (formulaText (compile e)) ++ " " ++ showText (render e) ++ " " ++
      (if WellFormed e then "1" else "0") ++ " " ++ toString (compile e).length)
  | _ => none

end NumbersModel.Drv
