import NumbersModel.Drv.Proto
import NumbersModel.Model.Layout
namespace NumbersModel.Drv
open NumbersModel NumbersModel.Layout

/-- token-stream helpers -/
def takeNat : List String → Option (Nat × List String)
  | w :: r => w.toNat?.map (·, r)
  | [] => none

def takeMany {α} (one : List String → Option (α × List String)) : Nat → List String → Option (List α × List String)
  | 0, ws => some ([], ws)
  | n + 1, ws => do
    let (a, ws) ← one ws
    let (as, ws) ← takeMany one n ws
    pure (a :: as, ws)

def takeCounted {α} (one : List String → Option (α × List String)) (ws : List String) : Option (List α × List String) := do
  let (n, ws) ← takeNat ws
  takeMany one n ws

def takeEntry : List String → Option (Entry Nat × List String)
  | k :: rc :: v :: r => do pure (⟨← k.toNat?, ← rc.toNat?, ← v.toNat?⟩, r)
  | _ => none

def takeTextEntry : List String → Option (Entry Text × List String)
  | k :: v :: r => do pure (⟨← k.toNat?, 1, ← parseText v⟩, r)
  | _ => none

def showPairs {α β} (fa : α → String) (fb : β → String) (d : List (α × β)) : String :=
  if d.isEmpty then "-" else ",".intercalate (d.map fun p => fa p.1 ++ ":" ++ fb p.2)

def showIndex (idx : Index Nat) : String :=
  s!"next={idx.nextKey} bk={showPairs toString toString idx.byKey} ki={showPairs toString toString idx.keyIndex} bv={showPairs toString toString idx.byValue}"

def showEntries (l : List (Entry Nat)) : String :=
  if l.isEmpty then "-" else ",".intercalate (l.map fun e => s!"{e.key}:{e.refcount}:{e.value}")

def layoutShowCell : Option Bytes → String
  | none => "N"
  | some b => showBytes b

def showCells (l : List (Option Bytes)) : String :=
  if l.isEmpty then "." else "|".intercalate (l.map layoutShowCell)

def runLookupKeys : DataList Nat → List Nat → List String → List String × DataList Nat
  | dl, [], acc => (acc.reverse, dl)
  | dl, v :: r, acc =>
    match lookupKey dl v with
    | .ok (k, dl') => runLookupKeys dl' r (s!"ok {k}" :: acc)
    | .error e => runLookupKeys dl r (showExc e :: acc)

def takeRowInfo : List String → Option (RowInfo RawRow × List String)
  | tri :: buf :: offs :: wide :: r => do
    let tri ← tri.toNat?; let buf ← parseBytes buf; let offs ← parseBytes offs; let wide ← parseBool wide
    pure (⟨tri, ⟨buf, offs, wide⟩⟩, r)
  | _ => none

def takeTile (ws : List String) : Option (Tile RawRow × List String) := do
  let (tid, ws) ← takeNat ws
  let (ris, ws) ← takeCounted takeRowInfo ws
  pure (⟨tid, ris⟩, ws)

def takePair : List String → Option ((Nat × Nat) × List String)
  | a :: b :: r => do pure ((← a.toNat?, ← b.toNat?), r)
  | _ => none

def takeSeg : List String → Option ((Nat × Nat) × List String) := takePair

def takeMember (ws : List String) : Option (Member Nat × List String) :=
  match ws with
  | name :: r => do
    let (segs, r) ← takeCounted takeSeg r
    pure ((name, segs), r)
  | [] => none

def handleLayout : List String → Option String
  | "index" :: pinned :: rest => do
    let pinned ← parseBool pinned
    let (entries, rest) ← takeCounted takeEntry rest
    let qs ← rest.mapM (·.toNat?)
    let idx := if pinned then addTablePinned entries else addTable entries
    let rs := qs.map fun k => showPyM toString (lookupValue idx k)
    pure (showIndex idx ++ " q=" ++ ";".intercalate rs)
  | "tstr" :: rest => do
    let (entries, rest) ← takeCounted takeTextEntry rest
    let qs ← rest.mapM (·.toNat?)
    let idx := addTable entries
    pure (";".intercalate (qs.map fun k => showPyM showText (tableString idx k)))
  | "lkey" :: nlid :: rest => do
    let nlid ← nlid.toNat?
    let (entries, rest) ← takeCounted takeEntry rest
    let vs ← rest.mapM (·.toNat?)
    let (outs, dl) := runLookupKeys ⟨entries, nlid, addTable entries⟩ vs []
    pure (";".intercalate outs ++ s!" | {showEntries dl.entries} nlid={dl.nextListID} " ++ showIndex dl.idx)
  | ["row", buf, offs, numCols, wide] => do
    let buf ← parseBytes buf; let offs ← parseBytes offs; let numCols ← numCols.toNat?; let wide ← parseBool wide
    pure (showPyM showCells (getStorageBuffersForRow buf offs numCols wide))
  | "rowmap" :: numRows :: numCols :: tileSize :: rest => do
    let numRows ← numRows.toNat?; let numCols ← numCols.toNat?; let tileSize ← tileSize.toNat?
    let (tiles, rest) ← takeCounted takeTile rest
    let qs ← match rest with
      | "Q" :: r => (takeMany takePair (r.length / 2) r).map (·.1)
      | _ => none
    pure (";".intercalate (qs.map fun q => showPyM layoutShowCell (storageBuffer numRows numCols tileSize tiles q.1 q.2)))
  | "store" :: rest => do
    let (members, _) ← takeCounted takeMember rest
    let st := fillStore members
    pure (s!"objects={showPairs toString toString st.objects} files={showPairs toString id st.fileOf} max=" ++
      showPyM toString (maxKey st.objects))
  | _ => none

end NumbersModel.Drv
