/-
Driver arm `fmtd`: the format-selection glue (Model/FormatDispatch.lean).

A request is `fmtd <op> <token>…`; a token is `key=value`.  Groups of tokens are separated by the word `//`:
the first group describes the cell, every following group one `set_cell_formatting` call.

  fmtd set  <cell tokens> // name=<text> <a.* tokens> [// name=… …]     set (in sequence), then display
  fmtd show <cell tokens>                                                display a cell that carries the given formats
  fmtd reload <cell tokens> // name=… …                                  set, save + reopen (`Cell.reload`), display

Cell tokens: kind= str= text= stext= bool= cur= ms= dt=y,mo,d,h,mi,s,us secs= dbl=<ms>
  n.repr= n.x100= n.sci= (decimals `s,m,e`)  n.ratio=p/q  n.frac=s,p,q  n.cv=<4 decimals joined by />
  f.num= f.cur= f.text= f.bool= f.date= f.dur=  (archives `k:v;k:v…`)
Reply: `ok fm=<formatter> t=<text | !Exc> slot=<slot> fmt=<archive> set=<fields set> ctl=<control> cur=<0|1>`
or `err <Exc> <index of the failing call>`.
-/
import NumbersModel.Drv.Proto
import NumbersModel.Drv.NumFmt
import NumbersModel.Drv.CustomFmt
import NumbersModel.Model.FormatDispatch
import NumbersModel.Gen.Constants
namespace NumbersModel.Drv.Fmtd
open NumbersModel NumbersModel.Drv NumbersModel.NumFmt NumbersModel.FormatDispatch

abbrev KV := List (String × String)

def parseKV (ws : List String) : Option KV :=
  ws.mapM fun w =>
    match w.splitOn "=" with
    | [k, v] => some (k, v)
    | _ => none

def kvGet (kv : KV) (k : String) : Option String := kv.lookup k

def splitGroups (ws : List String) : List (List String) :=
  let rec go : List String → List String → List (List String)
    | [], cur => [cur.reverse]
    | w :: rest, cur => if w == "//" then cur.reverse :: go rest [] else go rest (w :: cur)
  go ws []

def parseDec3 (w : String) : Option Dec :=
  match w.splitOn "," with
  | [n, m, e] => parseDec n m e
  | _ => none

def showDecN (d : Dec) : String :=
  let n := FormatDispatch.Dec.norm d
  s!"{showBool n.neg},{n.mant},{n.exp}"

def parseIntOpt (kv : KV) (k : String) : Option (Option Int) :=
  match kvGet kv k with
  | none => some none
  | some v => (v.toInt?).map some

def parseBoolOpt (kv : KV) (k : String) : Option (Option Bool) :=
  match kvGet kv k with
  | none => some none
  | some v => (parseBool v).map some

def parseTextOpt (kv : KV) (k : String) : Option (Option Text) :=
  match kvGet kv k with
  | none => some none
  | some v => (parseText v).map some

def parseDecOpt (kv : KV) (k : String) : Option (Option Dec) :=
  match kvGet kv k with
  | none => some none
  | some v => (parseDec3 v).map some

def parseCType (w : String) : Option CtlArg :=
  if w == "invalid" then some .invalid
  else (CType.all.find? fun c => c.toFType.lower == w).map .control

def parsePopupItem (w : String) : Option PopupItem :=
  match w.splitOn ":" with
  | ["s", t] => (parseText t).map .str
  | ["n", d] => (parseDec3 d).map .num
  | _ => none

def parseArgs (kv : KV) : Option Args := do
  let allowNone ← parseBoolOpt kv "a.allowNone"
  let basePlaces ← parseIntOpt kv "a.basePlaces"
  let baseUseMinus ← parseBoolOpt kv "a.baseUseMinus"
  let base ← parseIntOpt kv "a.base"
  let ctl ← match kvGet kv "a.ctl" with
    | none => some none
    | some v => (parseCType v).map some
  let cur ← parseTextOpt kv "a.cur"
  let dtf ← parseTextOpt kv "a.dtf"
  let dp ← match kvGet kv "a.dp" with
    | none => some none
    | some v => if v == "none" then some (some none) else (v.toInt?).map fun i => some (some i)
  let frac ← parseIntOpt kv "a.frac"
  let inc ← parseDecOpt kv "a.inc"
  let mx ← parseDecOpt kv "a.max"
  let mn ← parseDecOpt kv "a.min"
  let popup ← match kvGet kv "a.popup" with
    | none => some none
    | some v => if v == "-" then some (some []) else ((v.splitOn ";").mapM parsePopupItem).map some
  let neg ← parseIntOpt kv "a.neg"
  let thou ← parseBoolOpt kv "a.thou"
  let acct ← parseBoolOpt kv "a.acct"
  let unk ← match kvGet kv "a.unk" with
    | none => some false
    | some v => parseBool v
  pure { allowNone := allowNone, basePlaces := basePlaces, baseUseMinus := baseUseMinus, base := base,
         controlFormat := ctl, currencyCode := cur, dateTimeFormat := dtf, decimalPlaces := dp, fractionAccuracy := frac,
         increment := inc, maximum := mx, minimum := mn, popupValues := popup, negativeStyle := neg,
         showThousands := thou, useAccounting := acct, unknownKeyword := unk }

def parseKind (w : String) : Option CellKind :=
  CellKind.all.find? fun k => k.className == w

def natOr (kv : KV) (k : String) (d : Nat) : Option Nat :=
  match kvGet kv k with
  | none => some d
  | some v => v.toNat?

def boolOr (kv : KV) (k : String) (d : Bool) : Option Bool :=
  match kvGet kv k with
  | none => some d
  | some v => parseBool v

def textOr (kv : KV) (k : String) : Option Text :=
  match kvGet kv k with
  | none => some []
  | some v => parseText v

/-- an archive: `ft:256;dp:2;cc:<text>;ns:0;th:1;ac:0;ds:0;b:0;bp:0;bm:0;fa:0;dtf:<text>;dl:0;dsm:0;au:0` and, for a custom uid,
    `uid:m` (missing) or `uid:e;cft:270;cfa:<fraction accuracy>;cfs:<text>;c1:<scale is one>;ccc:<currency>;cth:;cni:;cnd:;crf:` -/
def parseFmt (w : String) : Option Fmt := do
  let kv ← (w.splitOn ";").mapM fun p =>
    match p.splitOn ":" with
    | [k, v] => some (k, v)
    | _ => none
  let custom : Option (Option CustomEntry) ← match kvGet kv "uid" with
    | none => some none
    | some "m" => some (some none)
    | some _ => do
      let fs ← textOr kv "cfs"
      let one ← boolOr kv "c1" true
      let cc ← textOr kv "ccc"
      let th ← boolOr kv "cth" false
      let ni ← natOr kv "cni" 0
      let nd ← natOr kv "cnd" 0
      let rf ← boolOr kv "crf" false
      let cft ← natOr kv "cft" 0
      let cfa ← natOr kv "cfa" 0
      pure (some (some ⟨cft, ⟨fs, one, cc, th, ni, nd, rf, false, 0, 0, false, 0, 0, 0, false⟩, cfa⟩))
  pure { formatType := ← natOr kv "ft" 0, decimalPlaces := ← natOr kv "dp" 0, currencyCode := ← textOr kv "cc",
         negativeStyle := ← natOr kv "ns" 0, showThousands := ← boolOr kv "th" false, useAccounting := ← boolOr kv "ac" false,
         durationStyle := ← natOr kv "ds" 0, base := ← natOr kv "b" 0, basePlaces := ← natOr kv "bp" 0,
         baseUseMinus := ← boolOr kv "bm" false, fractionAccuracy := ← natOr kv "fa" 0, dateTimeFormat := ← textOr kv "dtf",
         durationLargest := ← natOr kv "dl" 0, durationSmallest := ← natOr kv "dsm" 0, useAutoUnits := ← boolOr kv "au" false,
         customUid := custom }

def parseFmtOpt (kv : KV) (k : String) : Option (Option Fmt) :=
  match kvGet kv k with
  | none => some none
  | some v => (parseFmt v).map some

def parseNumVal (kv : KV) : Option (Option NumVal) :=
  match kvGet kv "n.repr" with
  | none => some none
  | some r => do
    let repr ← parseDec3 r
    let x100 ← match kvGet kv "n.x100" with
      | none => some repr
      | some v => parseDec3 v
    let sci ← match kvGet kv "n.sci" with
      | none => some repr
      | some v => parseDec3 v
    let ratio : Int × Nat ← match kvGet kv "n.ratio" with
      | none => some (0, 1)
      | some v => match v.splitOn "/" with
        | [p, q] => do let p ← p.toInt?; let q ← q.toNat?; pure (p, q)
        | _ => none
    let frac : Bool × Nat × Nat ← match kvGet kv "n.frac" with
      | none => some (false, 0, 1)
      | some v => match v.splitOn "," with
        | [s, p, q] => do let s ← parseBool s; let p ← p.toNat?; let q ← q.toNat?; pure (s, p, q)
        | _ => none
    let cv : CustomFmt.FloatVal × CustomFmt.FloatVal ← match kvGet kv "n.cv" with
      | none => some (⟨repr, repr⟩, ⟨x100, x100⟩)
      | some v => match v.splitOn "/" with
        | [a, b, c, d] => do
          let a ← parseDec3 a; let b ← parseDec3 b; let c ← parseDec3 c; let d ← parseDec3 d
          pure (⟨a, b⟩, ⟨c, d⟩)
        | _ => none
    pure (some { repr := repr, times100 := x100, sci := sci, ratio := ratio, fracProduct := fun _ => frac, custom := fun _ => cv })

def parseCell (kv : KV) : Option Cell := do
  let kind ← parseKind (← kvGet kv "kind")
  let nv ← parseNumVal kv
  let str ← textOr kv "str"
  let value : PyVal ← match kind with
    | .number => (nv.map fun v => PyVal.num v.repr)
    | .text | .richText => (textOr kv "text").map PyVal.str
    | .bool => (boolOr kv "bool" false).map PyVal.bool
    | .date => some .date
    | .duration => (natOr kv "ms" 0).map PyVal.duration
    | _ => some .none
  let dt ← match kvGet kv "dt" with
    | none => some none
    | some v => match (v.splitOn ",").mapM String.toNat? with
      | some [y, mo, d, h, mi, s, us] => some (some (⟨y, mo, d, h, mi, s, us⟩ : DateFmt.DateTime))
      | _ => none
  let dbl ← match kvGet kv "dbl" with
    | none => some none
    | some v => (v.toNat?).map some
  pure { kind := kind, value := value, str := str, currencyType := ← boolOr kv "cur" false, d128 := nv,
         stringText := ← textOr kv "stext", doubleMs := dbl, hasSeconds := ← boolOr kv "secs" false, datetime := dt,
         numFmt := ← parseFmtOpt kv "f.num", currencyFmt := ← parseFmtOpt kv "f.cur", textFmt := ← parseFmtOpt kv "f.text",
         boolFmt := ← parseFmtOpt kv "f.bool", dateFmt := ← parseFmtOpt kv "f.date", durationFmt := ← parseFmtOpt kv "f.dur" }

def showFormatter : Formatter → String
  | .emptyCell => "empty" | .fallback => "fallback" | .strValue => "str_value" | .duration _ => "duration_format"
  | .date _ => "date_format" | .dateUnexpected => "date_unexpected" | .decimal _ => "format_decimal"
  | .percent _ => "format_percent" | .currency _ _ _ => "format_currency" | .base _ => "format_base"
  | .fraction _ => "format_fraction" | .scientific _ => "format_scientific" | .boolText => "bool_text"
  | .checkbox => "checkbox" | .rating => "rating" | .customNumber _ => "decode_number_format"
  | .customText _ => "decode_text_format"

def showFmt (f : Fmt) : String :=
  s!"ft:{f.formatType};dp:{f.decimalPlaces};cc:{showText f.currencyCode};ns:{f.negativeStyle};th:{showBool f.showThousands};" ++
  s!"ac:{showBool f.useAccounting};b:{f.base};bp:{f.basePlaces};bm:{showBool f.baseUseMinus};fa:{f.fractionAccuracy};" ++
  s!"dtf:{showText f.dateTimeFormat}"

def showPopupEntry : PopupEntry → String
  | .nil => "nil" | .str s => "s." ++ showText s | .num d => "n." ++ showDecN d

def showCtl : Option Ctl → String
  | none => "-"
  | some c =>
    s!"i:{c.interaction}" ++
    (match c.range with
     | some (a, b, i) => s!";r:{showDecN a}/{showDecN b}/{showDecN i}"
     | none => "") ++
    (match c.popup with
     | some (items, first) => s!";p:{showBool first}/" ++ "+".intercalate (items.map showPopupEntry)
     | none => "")

/-- the slot that holds a format after `set_cell_formatting`, with the archive. -/
def showSlots (c : Cell) : String :=
  let one (n : String) (f : Option Fmt) : List String := match f with
    | some f => [s!"slot={n} fmt={showFmt f}"]
    | none => []
  match one "num" c.numFmt ++ one "currency" c.currencyFmt ++ one "text" c.textFmt ++ one "bool" c.boolFmt ++
        one "date" c.dateFmt with
  | [] => "slot=- fmt=-"
  | l => " ".intercalate l

def driverEnv : Env := ⟨DateFmt.isAlphaIn Gen.alphaRanges, Gen.digitZeros, Char.ofNat Gen.customTextPlaceholder⟩

def showDisplay (c : Cell) : String :=
  let fm := selectFormatter c
  let t := formattedValue driverEnv c
  match fm, t with
  | .ok f, .ok s => "fm=" ++ showFormatter f ++ " t=" ++ showText s
  | _, .error e => "fm=? t=!" ++ e.name            -- which formatter failed is not observable on the real side
  | .error e, _ => "fm=? t=!" ++ e.name

/-- the fields `format_archive` sets for the key used by this call (sorted by name). -/
def setFields (c : Cell) (name : Text) (a : Args) : String :=
  match resolveType name with
  | .error _ => "-"
  | .ok (t, _) =>
    let key : Nat :=
      if t = .slider ∨ t = .stepper then
        match a.controlFormat with
        | some (.control ct) => ct.toFType.code
        | _ => FType.number.code
      else if t = .popup then (if c.kind = .text then FType.text.code else 1)
      else t.code
    match Gen.allowedFormattingParameters.lookup key with
    | some ps => "+".intercalate ((ps.toArray.qsort (· < ·)).toList)
    | none => "-"

def applyCalls (c : Cell) : List (Text × Args) → Nat → Except (PyExc × Nat) Cell
  | [], _ => .ok c
  | (n, a) :: rest, i =>
    match setCellDataFormat c n a with
    | .ok c' => applyCalls c' rest (i + 1)
    | .error e => .error (e, i)

def parseCall (g : List String) : Option (Text × Args) := do
  let kv ← parseKV g
  let name ← parseText (← kvGet kv "name")
  let a ← parseArgs kv
  pure (name, a)

def handleFmtd : List String → Option String
  | "show" :: rest => do
    let c ← parseCell (← parseKV rest)
    pure ("ok " ++ showDisplay c)
  | op :: rest =>
    if op == "set" ∨ op == "reload" then
      match splitGroups rest with
      | cellg :: callgs => do
        let c ← parseCell (← parseKV cellg)
        let calls ← callgs.mapM parseCall
        match applyCalls c calls 0 with
        | .error (e, i) => pure s!"err {e.name} {i}"
        | .ok c' =>
          let c'' := if op == "reload" then c'.reload else c'
          let last := calls.getLast?
          let sf := match last with
            | some (n, a) => setFields c n a
            | none => "-"
          pure s!"ok {showDisplay c''} {showSlots c'} set={sf} ctl={showCtl c'.control} cur={showBool c'.currencyType}"
      | [] => none
    else none
  | _ => none

end NumbersModel.Drv.Fmtd
