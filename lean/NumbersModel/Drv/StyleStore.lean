import NumbersModel.Drv.Proto
import NumbersModel.Model.StyleStore
namespace NumbersModel.Drv
open NumbersModel NumbersModel.StyleStore

/-- token-stream parser -/
abbrev SP := StateT (List String) Option

def spTok : SP String := fun
  | [] => none
  | w :: rest => some (w, rest)

def spNat : SP Nat := do let w ← spTok; (w.toNat? : Option Nat)
def spInt : SP Int := do let w ← spTok; (w.toInt? : Option Int)
def spBool : SP Bool := do let w ← spTok; (parseBool w : Option Bool)
def spText : SP Text := do let w ← spTok; (parseText w : Option Text)
def spCodes : SP Codes := do let t ← spText; pure (t.map Char.toNat)

/-- `p/q` with an optional sign -/
def spRat : SP Rat := do
  let w ← spTok
  match w.splitOn "/" with
  | [a, b] =>
    let p ← (a.toInt? : Option Int)
    let q ← (b.toNat? : Option Nat)
    if q = 0 then failure else pure ((p : Rat) / (q : Rat))
  | _ => failure

/-- `N` or `S <payload>` -/
def spOpt {α} (p : SP α) : SP (Option α) := do
  let w ← spTok
  if w == "N" then pure none else if w == "S" then (do let x ← p; pure (some x)) else failure

def spMany {α} (p : SP α) : Nat → SP (List α)
  | 0 => pure []
  | k + 1 => do let x ← p; let xs ← spMany p k; pure (x :: xs)

def spCounted {α} (p : SP α) : SP (List α) := do let k ← spNat; spMany p k

def spRgb : SP Rgb := do let r ← spInt; let g ← spInt; let b ← spInt; pure ⟨r, g, b⟩
def spColor : SP ColorArc := do let r ← spRat; let g ← spRat; let b ← spRat; pure ⟨r, g, b⟩
def spImage : SP Image := do let f ← spText; let d ← spNat; pure ⟨f, d⟩

def spBg : SP Bg := do
  let w ← spTok
  if w == "N" then pure .none
  else if w == "C" then (do let c ← spRgb; pure (.rgb c))
  else if w == "G" then (do let cs ← spCounted spRgb; pure (.gradient cs))
  else failure

def spSty : SP Sty := do
  let h ← spNat; let v ← spNat
  let img ← spOpt spImage
  let bg ← spBg
  let fc ← spRgb
  let fs ← spRat
  let fn ← spCodes
  let bold ← spBool; let italic ← spBool; let strike ← spBool; let under ← spBool
  let fi ← spRat; let li ← spRat; let ri ← spRat; let ti ← spRat
  let wrap ← spBool
  let name ← spText
  pure ⟨h, v, img, bg, fc, fs, fn, bold, italic, strike, under, fi, li, ri, ti, wrap, name⟩

def spPara : SP ParaArc := do
  let name ← spText
  let parent ← spOpt spNat
  let fc ← spOpt spColor
  let bold ← spOpt spBool; let italic ← spOpt spBool
  let ul ← spOpt spNat; let st ← spOpt spNat
  let fs ← spOpt spRat
  let fn ← spOpt spCodes
  let fill ← spOpt spColor
  let al ← spOpt spNat
  let fi ← spOpt spRat; let li ← spOpt spRat; let ri ← spOpt spRat
  pure ⟨name, parent, ⟨fc, bold, italic, ul, st, fs, fn, fill⟩, ⟨al, fi, li, ri⟩⟩

def spFill : SP Fill := do
  let c ← spOpt spColor
  let g ← spOpt (spCounted spColor)
  let i ← spOpt spNat
  pure ⟨c, g, i⟩

def spPadding : SP Padding := do
  let l ← spRat; let t ← spRat; let r ← spRat; let b ← spRat
  pure ⟨l, t, r, b⟩

def spCellArc : SP CellArc := do
  let name ← spText
  let parent ← spOpt spNat
  let fill ← spOpt spFill
  let pad ← spOpt spPadding
  let wrap ← spOpt spBool
  let va ← spOpt spNat
  pure ⟨name, parent, fill, pad, wrap, va⟩

def spObj : SP (Nat × Obj) := do
  let id ← spNat
  let w ← spTok
  if w == "P" then (do let a ← spPara; pure (id, .para a))
  else if w == "C" then (do let a ← spCellArc; pure (id, .cell a))
  else failure

def spImages : SP Images := do
  let next ← spNat
  let es ← spCounted (do let id ← spNat; let im ← spImage; pure (id, im))
  pure ⟨es, next⟩

def spTable : SP TableCtx := do
  let sl ← spCounted (do let k ← spNat; let v ← spNat; pure (k, v))
  let nr ← spNat; let hr ← spNat; let hc ← spNat; let fr ← spNat
  let a ← spNat; let b ← spNat; let c ← spNat; let d ← spNat
  pure ⟨sl, nr, hr, hc, fr, a, b, c, d⟩

def spCell : SP CellIds := do
  let r ← spNat; let c ← spNat
  let t ← spOpt spNat; let s ← spOpt spNat
  pure ⟨r, c, t, s⟩

/-! showing -/

def shRat (x : Rat) : String := toString x.num ++ "/" ++ toString x.den
def shBool (b : Bool) : String := if b then "1" else "0"
def shCodes (c : Codes) : String := showText (c.map Char.ofNat)
def shOpt {α} (f : α → String) : Option α → String
  | none => "N"
  | some x => "S " ++ f x
def shRgb (c : Rgb) : String := s!"{c.r} {c.g} {c.b}"
def shColor (c : ColorArc) : String := s!"{shRat c.r} {shRat c.g} {shRat c.b}"
def shImage (i : Image) : String := s!"{showText i.filename} {i.data}"
def shCounted {α} (f : α → String) (l : List α) : String :=
  " ".intercalate (toString l.length :: l.map f)

def shBg : Bg → String
  | .none => "N"
  | .rgb c => "C " ++ shRgb c
  | .gradient cs => "G " ++ shCounted shRgb cs

def shSty (s : Sty) : String :=
  " ".intercalate [toString s.halign, toString s.valign, shOpt shImage s.bgImage, shBg s.bgColor, shRgb s.fontColor,
    shRat s.fontSize, shCodes s.fontName, shBool s.bold, shBool s.italic, shBool s.strikethrough, shBool s.underline,
    shRat s.firstIndent, shRat s.leftIndent, shRat s.rightIndent, shRat s.textInset, shBool s.textWrap, showText s.name]

def shPara (a : ParaArc) : String :=
  " ".intercalate [showText a.name, shOpt toString a.parent, shOpt shColor a.char.fontColor, shOpt shBool a.char.bold,
    shOpt shBool a.char.italic, shOpt toString a.char.underline, shOpt toString a.char.strikethru, shOpt shRat a.char.fontSize,
    shOpt shCodes a.char.fontName, shOpt shColor a.char.tsdFill, shOpt toString a.para.alignment,
    shOpt shRat a.para.firstLineIndent, shOpt shRat a.para.leftIndent, shOpt shRat a.para.rightIndent]

def shFill (f : Fill) : String :=
  " ".intercalate [shOpt shColor f.color, shOpt (shCounted shColor) f.gradient, shOpt toString f.image]

def shPadding (p : Padding) : String := s!"{shRat p.left} {shRat p.top} {shRat p.right} {shRat p.bottom}"

def shCellArc (a : CellArc) : String :=
  " ".intercalate [showText a.name, shOpt toString a.parent, shOpt shFill a.fill, shOpt shPadding a.padding,
    shOpt shBool a.textWrap, shOpt toString a.verticalAlignment]

def shImages (i : Images) : String :=
  toString i.next ++ " " ++ shCounted (fun e => s!"{e.1} {shImage e.2}") i.entries

def runSP {α} (p : SP α) (ws : List String) : Option α :=
  match p.run ws with
  | some (x, []) => some x
  | _ => none

/-- a fixed table and cell pointing at object 1 (text style) and object 2 (cell style) -/
def rtTable : TableCtx := ⟨[(1, 1), (2, 2)], 1, 0, 0, 0, 0, 0, 0, 0⟩
def rtCell : CellIds := ⟨0, 0, some 1, some 2⟩

/--
`style write <Sty> <Images>`               → `ok <ParaArc> | <CellArc> | <Images>`  (`add_paragraph_style`, `add_cell_style`)
`style update <pinned 0/1> <Sty> <ParaArc>` → `ok <ParaArc>`                          (`update_paragraph_style`)
`style read <n> (<id> P <ParaArc> | <id> C <CellArc>)*n <TableCtx> <Images> <CellIds>` → `ok <Sty>`   (`Style.from_storage`)
`style roundtrip <Sty> <Images>`           → `ok <Sty>`   (what a reload reads of a cell that was given the style)
`style ids <nextKey> <k> (<key> <obj>)*k <n> (<CellIds> N | <CellIds> S <opt text obj> <opt cell obj>)*n` → `ok (<opt text id> <opt cell id>)*n | <list>`  (`Cell._to_buffer`, row-major)
`style align <h> <v>`                      → `ok <h> <v>` (`Alignment(h, v)` on names)
`style font <family>`                      → `ok <name>`  (`FONT_FAMILY_TO_NAME[family]`)
`style chan <c>`                           → `ok <stored float> <read back>`
-/
def handleStyleStore : List String → Option String
  | "write" :: rest => do
    let (s, imgs) ← runSP (do let s ← spSty; let i ← spImages; pure (s, i)) rest
    let r : PyM String := do
      let p ← addParagraphStyle Num.ieee s
      let (c, imgs') ← addCellStyle Num.ieee s imgs
      pure (shPara p ++ " | " ++ shCellArc c ++ " | " ++ shImages imgs')
    pure (showPyM id r)
  | "update" :: rest => do
    let (pinned, s, old) ← runSP (do let b ← spBool; let s ← spSty; let o ← spPara; pure (b, s, o)) rest
    pure (showPyM shPara ((if pinned then updateParagraphStylePinned else updateParagraphStyle) Num.ieee s old))
  | "read" :: rest => do
    let (st, t, imgs, c) ← runSP (do
      let st ← spCounted spObj; let t ← spTable; let i ← spImages; let c ← spCell; pure (st, t, i, c)) rest
    pure (showPyM shSty (fromStorage Num.ieee st t imgs c))
  | "roundtrip" :: rest => do
    let (s, imgs) ← runSP (do let s ← spSty; let i ← spImages; pure (s, i)) rest
    let r : PyM Sty := do
      let p ← addParagraphStyle Num.ieee s
      let (c, imgs') ← addCellStyle Num.ieee s imgs
      fromStorage Num.ieee [(1, .para p), (2, .cell c)] rtTable imgs' rtCell
    pure (showPyM shSty r)
  | "ids" :: rest => do
    let (dl, cells) ← runSP (do
      let nk ← spNat
      let es ← spCounted (do let k ← spNat; let v ← spNat; pure (k, v))
      let cells ← spCounted (do
        let c ← spCell
        let sty ← spOpt (do let a ← spOpt spNat; let b ← spOpt spNat; pure (a, b))
        pure (c, sty))
      pure ((⟨es, nk⟩ : StyleList), cells)) rest
    let r := toBufferAll dl cells
    pure ("ok " ++ " ".intercalate (r.1.map fun c => shOpt toString c.textStyleId ++ " " ++ shOpt toString c.cellStyleId)
      ++ " | " ++ shCounted (fun e => s!"{e.1} {e.2}") r.2.entries)
  | ["align", h, v] => do
    let h ← parseText h; let v ← parseText v
    pure (showPyM (fun p => s!"{p.1} {p.2}") (alignmentOfNames h v))
  | ["font", f] => do
    let f ← parseText f
    pure (showPyM shCodes (dictGet fontFamilyToName (f.map Char.toNat)))
  | ["chan", c] => do
    let c ← c.toInt?
    let x := chanToArc Num.ieee c
    pure s!"ok {shRat x} {chanOfArc Num.ieee x}"
  | _ => none

end NumbersModel.Drv
