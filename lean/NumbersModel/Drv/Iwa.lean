/-
Driver arm for Model/Iwa.lean.  The third-party functions of `Ext` are instantiated by finite tables
sent on the request line (recorded by the harness from the real snappy / protobuf during the very call
whose result is compared).  A query outside the table answers `err oracle-miss`, which shows up as a
disagreement (the model sliced differently from the code).

  iwa <op> <args…> [T <table entries…>]
  table entries:  u <hex> <hex|!Exc>            snappy.uncompress
                  c <hex> <hex>                 snappy.compress
                  pi <hex> <hid|!Exc>           ArchiveInfo.FromString
                  h <hid> <reprEmpty> <shouldMerge> <n> (<type> <length> <base>)*n
                  si <hid> <n> <len>*n <hex|!Exc>   header.SerializeToString() for the given lengths
                  k <type>                      type in ID_NAME_MAP
                  pm <type> <patch> <hex> <mid|!Exc>
                  sm <mid> <hex|!Exc>
-/
import NumbersModel.Drv.Proto
import NumbersModel.Model.Iwa
namespace NumbersModel.Drv
open NumbersModel NumbersModel.Iwa

def hexValB (c : UInt8) : Option Nat :=
  if 48 ≤ c ∧ c ≤ 57 then some (c.toNat - 48)
  else if 97 ≤ c ∧ c ≤ 102 then some (c.toNat - 87)
  else if 65 ≤ c ∧ c ≤ 70 then some (c.toNat - 55)
  else none

/-- stack-safe, allocation-light hex parsing for large byte strings. -/
def parseBytesBig (w : String) : Option (Array UInt8) :=
  if w == "-" then some #[] else
  let bs := w.toUTF8
  if bs.size % 2 ≠ 0 then none else
  let rec go : Nat → Nat → Array UInt8 → Option (Array UInt8)
    | 0, _, acc => some acc
    | fuel + 1, i, acc => match hexValB (bs.get! i), hexValB (bs.get! (i + 1)) with
      | some x, some y => go fuel (i + 2) (acc.push (UInt8.ofNat (x * 16 + y)))
      | _, _ => none
  go (bs.size / 2) 0 (Array.mkEmpty (bs.size / 2))

def showBytesBig (b : Bytes) : String :=
  if b.isEmpty then "-" else
  String.ofList (b.foldl (fun (acc : Array Char) x =>
    (acc.push (hexDigit (x.toNat / 16))).push (hexDigit (x.toNat % 16))) (Array.mkEmpty (2 * b.length))).toList

def excOfName (n : String) : PyExc :=
  match n with
  | "IndexError" => .IndexError | "KeyError" => .KeyError | "ValueError" => .ValueError
  | "TypeError" => .TypeError | "FileError" => .FileError | "FileFormatError" => .FileFormatError
  | "UnsupportedError" => .UnsupportedError | "AttributeError" => .AttributeError
  | "BadZipFile" => .BadZipFile | "RuntimeError" => .RuntimeError
  | n => .Other n

/-- a parsed header as the table-driven instance sees it. -/
structure THeader where
  id : Nat
  reprEmpty : Bool
  shouldMerge : Bool
  infos : List MsgInfo
  deriving DecidableEq

structure Tables where
  unc : Array (Array UInt8 × Except String (Array UInt8)) := #[]
  cmp : Array (Array UInt8 × Array UInt8) := #[]
  pinfo : Array (Array UInt8 × Except String Nat) := #[]
  hdr : Array THeader := #[]
  sinfo : Array (Nat × List Nat × Except String (Array UInt8)) := #[]
  known : Array Nat := #[]
  pmsg : Array (Nat × Bool × Array UInt8 × Except String Nat) := #[]
  smsg : Array (Nat × Except String (Array UInt8)) := #[]

def parseRes (w : String) : Option (Except String (Array UInt8)) :=
  if w.startsWith "!" then some (.error (w.drop 1).toString) else (parseBytesBig w).map .ok

def parseResNat (w : String) : Option (Except String Nat) :=
  if w.startsWith "!" then some (.error (w.drop 1).toString) else w.toNat?.map .ok

def parseInfos : Nat → List String → Option (List MsgInfo × List String)
  | 0, ws => some ([], ws)
  | n + 1, t :: l :: b :: ws => do
    let t ← t.toNat?; let l ← l.toNat?; let b ← b.toNat?
    let (r, ws) ← parseInfos n ws
    pure (⟨t, l, b⟩ :: r, ws)
  | _, _ => none

def parseNats : Nat → List String → Option (List Nat × List String)
  | 0, ws => some ([], ws)
  | n + 1, x :: ws => do
    let x ← x.toNat?
    let (r, ws) ← parseNats n ws
    pure (x :: r, ws)
  | _, _ => none

def parseTables : Nat → List String → Tables → Option Tables
  | _, [], t => some t
  | 0, _, _ => none
  | f + 1, "u" :: a :: b :: ws, t => do
    let a ← parseBytesBig a; let b ← parseRes b
    parseTables f ws { t with unc := t.unc.push (a, b) }
  | f + 1, "c" :: a :: b :: ws, t => do
    let a ← parseBytesBig a; let b ← parseBytesBig b
    parseTables f ws { t with cmp := t.cmp.push (a, b) }
  | f + 1, "pi" :: a :: b :: ws, t => do
    let a ← parseBytesBig a; let b ← parseResNat b
    parseTables f ws { t with pinfo := t.pinfo.push (a, b) }
  | f + 1, "h" :: id :: re :: sm :: n :: ws, t => do
    let id ← id.toNat?; let re ← parseBool re; let sm ← parseBool sm; let n ← n.toNat?
    let (infos, ws) ← parseInfos n ws
    parseTables f ws { t with hdr := t.hdr.push ⟨id, re, sm, infos⟩ }
  | f + 1, "si" :: id :: n :: ws, t => do
    let id ← id.toNat?; let n ← n.toNat?
    let (lens, ws) ← parseNats n ws
    match ws with
    | r :: ws => do
      let r ← parseRes r
      parseTables f ws { t with sinfo := t.sinfo.push (id, lens, r) }
    | [] => none
  | f + 1, "k" :: ty :: ws, t => do
    let ty ← ty.toNat?
    parseTables f ws { t with known := t.known.push ty }
  | f + 1, "pm" :: ty :: p :: a :: b :: ws, t => do
    let ty ← ty.toNat?; let p ← parseBool p; let a ← parseBytesBig a; let b ← parseResNat b
    parseTables f ws { t with pmsg := t.pmsg.push (ty, p, a, b) }
  | f + 1, "sm" :: id :: b :: ws, t => do
    let id ← id.toNat?; let b ← parseRes b
    parseTables f ws { t with smsg := t.smsg.push (id, b) }
  | _, _, _ => none

def miss : PyExc := .Other "oracle-miss"

def liftRes (r : Option (Except String (Array UInt8))) : PyM Bytes :=
  match r with
  | none => .error miss
  | some (.ok a) => .ok a.toList
  | some (.error n) => .error (excOfName n)

def tableExt (t : Tables) : Ext THeader Nat where
  compress b := let a := b.toArray
    match t.cmp.find? (fun p => p.1 == a) with
    | some p => p.2.toList
    | none => "oracle-miss".toUTF8.toList
  uncompress b := let a := b.toArray
    liftRes ((t.unc.find? (fun p => p.1 == a)).map (·.2))
  parseInfo b := let a := b.toArray
    match t.pinfo.find? (fun p => p.1 == a) with
    | none => .error miss
    | some (_, .error n) => .error (excOfName n)
    | some (_, .ok id) => match t.hdr.find? (fun h => h.id == id) with
      | some h => .ok h
      | none => .error miss
  serInfo h := let lens := h.infos.map (·.length)
    liftRes ((t.sinfo.find? (fun p => p.1 == h.id && p.2.1 == lens)).map (·.2.2))
  reprEmpty h := h.reprEmpty
  shouldMerge h := h.shouldMerge
  infos h := h.infos
  setLength h i v := { h with infos := h.infos.modify i (fun mi => { mi with length := v }) }
  known ty := t.known.contains ty
  parseMsg ty p b := let a := b.toArray
    match t.pmsg.find? (fun q => q.1 == ty && q.2.1 == p && q.2.2.1 == a) with
    | none => .error miss
    | some (_, _, _, .error n) => .error (excOfName n)
    | some (_, _, _, .ok id) => .ok id
  serMsg m := liftRes ((t.smsg.find? (fun p => p.1 == m)).map (·.2))

def splitT (ws : List String) : List String × List String :=
  let a := ws.takeWhile (· ≠ "T")
  (a, (ws.dropWhile (· ≠ "T")).drop 1)

def showSeg (s : Seg THeader Nat) : String :=
  s!"{s.header.id} {s.objects.length}" ++ String.join (s.objects.map fun m => s!" {m}")

def showSegs (segs : List (Seg THeader Nat)) : String :=
  s!"{segs.length}" ++ String.join (segs.map fun s => " " ++ showSeg s)

def parseSegs (t : Tables) : Nat → List String → Option (List (Seg THeader Nat))
  | 0, [] => some []
  | n + 1, hid :: k :: ws => do
    let hid ← hid.toNat?; let k ← k.toNat?
    let (mids, ws) ← parseNats k ws
    let h ← t.hdr.find? (fun h => h.id == hid)
    let r ← parseSegs t n ws
    pure (⟨h, mids⟩ :: r)
  | _, _ => none

def handleIwa (ws : List String) : Option String :=
  let (args, tws) := splitT ws
  match parseTables (tws.length + 1) tws {} with
  | none => none
  | some t =>
    let e := tableExt t
    match args with
    | ["varenc", n] => do
      let n ← n.toNat?
      pure ("ok " ++ showBytes (varintEnc n))
    | ["vardec", b, pos] => do
      let b ← parseBytesBig b; let pos ← pos.toNat?
      pure (showPyM (fun (p : Nat × Nat) => s!"{p.1} {p.2}") (varintDec32 b.toList pos))
    | ["le24", n] => do
      let n ← n.toNat?
      pure (showPyM showBytes (le24 n))
    | "frameall" :: ps => do
      let ps ← ps.mapM parseBytesBig
      pure (showPyM showBytesBig (frameAll (ps.map (·.toList))))
    | ["framestream", s] => do
      let s ← parseBytesBig s
      pure (showPyM showBytesBig (frameStream e.compress s.toList))
    | ["decompress", d] => do
      let d ← parseBytesBig d
      pure (showPyM showBytesBig (decompress e.uncompress d.toList))
    | ["isiwa", d] => do
      let d ← parseBytesBig d
      pure (showPyM (fun b => if b then "1" else "0") (isIwaFile d.toList))
    | ["segfrom", d] => do
      let d ← parseBytesBig d
      pure (showPyM (fun (p : Seg THeader Nat × Bytes) => showSeg p.1 ++ s!" rest {p.2.length}")
        (segFromBuffer e d.toList))
    | ["file", hn, d] => do
      let hn ← parseBool hn; let d ← parseBytesBig d
      match fileFromBuffer e hn d.toList with
      | .error x => pure (showExc x)
      | .ok f =>
        pure (s!"ok {f.length}" ++ String.join (f.map fun c => " " ++ showSegs c) ++ " | " ++
          showPyM showBytesBig (fileToBuffer e f))
    | "tobuf" :: n :: rest => do
      let n ← n.toNat?
      let segs ← parseSegs t n rest
      match segsToBuffer e segs with
      | .error x => pure (showExc x)
      | .ok (s, segs') =>
        let lens := String.join (segs'.map fun sg => String.join (sg.header.infos.map fun mi => s!" {mi.length}"))
        pure ("ok " ++ showPyM showBytesBig (frameStream e.compress s) ++ " lens" ++ lens)
    | _ => none

end NumbersModel.Drv
