import NumbersModel.Drv.A1
import NumbersModel.Drv.Tokenizer
import NumbersModel.Drv.Items
import NumbersModel.Drv.Addressing
import NumbersModel.Drv.Csv
import NumbersModel.Drv.CellRecord
import NumbersModel.Drv.Storage
import NumbersModel.Drv.StringTable
import NumbersModel.Drv.Iwa
import NumbersModel.Drv.Loader
import NumbersModel.Drv.Formula
import NumbersModel.Drv.Refs
import NumbersModel.Drv.DateFmt
import NumbersModel.Drv.Duration
import NumbersModel.Drv.NumFmt
import NumbersModel.Drv.CustomFmt
import NumbersModel.Drv.Grid
import NumbersModel.Drv.Merge
import NumbersModel.Drv.Cache
import NumbersModel.Drv.Layout
import NumbersModel.Drv.ObjectStore
import NumbersModel.Drv.Border
import NumbersModel.Drv.StyleStore
import NumbersModel.Drv.Sizes
import NumbersModel.Drv.TablePipeline
import NumbersModel.Drv.DocTree
import NumbersModel.Drv.FormatDispatch
import NumbersModel.Drv.Document

open NumbersModel.Drv

def dispatch (line : String) : String :=
  let ws := (line.splitOn " ").filter (· ≠ "")
  let r : Option String := match ws with
    | "a1" :: rest => handleA1 rest
    | "tok" :: rest => handleTok rest
    | "items" :: rest => handleItems rest
    | "addr" :: rest => handleAddr rest
    | "csv" :: rest => handleCsv rest
    | "cell" :: rest => handleCell rest
    | "d128" :: rest => handleD128 rest
    | "row" :: rest => handleRow rest
    | "strtab" :: rest => handleStrTab rest
    | "iwa" :: rest => handleIwa rest
    | "loader" :: rest => handleLoader rest
    | "formula" :: rest => handleFormula rest
    | "refs" :: rest => handleRefs rest
    | "datefmt" :: rest => handleDateFmt rest
    | "dur" :: rest => handleDuration rest
    | "numfmt" :: rest => handleNumFmt rest
    | "customfmt" :: rest => handleCustomFmt rest
    | "grid" :: rest => handleGrid rest
    | "merge" :: rest => handleMerge rest
    | "cache" :: rest => handleCache rest
    | "layout" :: rest => handleLayout rest
    | "ostore" :: rest => handleOStore rest
    | "border" :: rest => handleBorder rest
    | "style" :: "dedup" :: rest => handleStyle ("dedup" :: rest)
    | "style" :: "flags" :: rest => handleStyle ("flags" :: rest)
    | "style" :: rest => handleStyleStore rest
    | "sizes" :: rest => handleSizes rest
    | "labels" :: rest => handleLabels rest
    | "table" :: rest => handleTable rest
    | "doctree" :: rest => handleDocTree rest
    | "fmtd" :: rest => Fmtd.handleFmtd rest
    | "doc" :: rest => handleDoc rest
    | _ => none
  match r with
  | some s => s
  | none => "bad-op"

partial def loop (h : IO.FS.Stream) (out : IO.FS.Stream) : IO Unit := do
  let line ← h.getLine
  if line.isEmpty then return ()
  let l := String.ofList (line.toList.filter (fun c => c ≠ '\n' ∧ c ≠ '\r'))
  out.putStrLn (dispatch l)
  loop h out

def main : IO Unit := do
  let out ← IO.getStdout
  loop (← IO.getStdin) out
  out.flush
