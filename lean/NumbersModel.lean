-- This module serves as the root of the `NumbersModel` library.
-- Import modules here that should be built as part of the library.
import NumbersModel.Basic
